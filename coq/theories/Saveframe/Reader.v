(* M15 (part 4) - lib/python/pyflyby/_saveframe_reader.py  SaveframeReader.variables,
   get_metadata, get_variables over the saved mapping.  pickle.loads(pickle.dumps(v)) == v is the
   environment assumption under which a pickled value is represented by its value id (checked by
   the harness on every value read back).  Model only. *)
From Coq Require Import NArith ZArith List Bool.
From Verif Require Import Base.Chars Base.StrX Saveframe.Select Saveframe.Vars Saveframe.Save.
Import ListNotations.

(* FrameMetadata fields (function_object: oracle only) and ExceptionInfo fields
   (exception_object, traceback: oracle only) *)
Inductive ffield := FIndex | FFilename | FLineno | FFuncName | FQualname | FModule | FCodeLine | FIdent.
Inductive efield := XString | XFullString | XClassName | XClassQualname.
Inductive mfield := MFrame (f : ffield) | MExc (x : efield) | MInvalid.

Inductive mval := MNat (n : nat) | MInt (z : Z) | MStr (s : str).

Record rdata := mkR { r_frames : saved; r_exc : efield -> str }.   (* self._data *)

Definition field_of (f : ffield) (s : saved_frame) : mval :=
  match f with
  | FIndex => MNat (s_index s)
  | FFilename => MStr (s_file s)
  | FLineno => MInt (s_line s)
  | FFuncName => MStr (s_func s)
  | FQualname => MStr (s_qual s)
  | FModule => MStr (s_module s)
  | FCodeLine => MStr (s_code s)
  | FIdent => MStr (s_ident s)
  end.

(* self._data[frame_idx] for an int frame_idx (a dict: the first entry with that key) *)
Fixpoint frame_by_key (k : Z) (l : saved) : option saved_frame :=
  match l with
  | [] => None
  | s :: r => if (Z.of_nat (s_index s) =? k)%Z then Some s else frame_by_key k r
  end.

(* SaveframeReader.variables *)
Definition reader_variables (d : rdata) : list (nat * list str) :=
  map (fun s => (s_index s, map fst (s_vars s))) (r_frames d).

Inductive mres := RVal (v : mval) | RMap (m : list (nat * mval)).

(*  if metadata not in all_metadata_entries: raise ValueError
    if metadata in exception_metadata:
        if frame_idx: raise ValueError
        return self._data[metadata]
    if frame_idx is None:
        for key_item in self._data:
            if key_item in exception_metadata: continue
            frame_idx_to_metadata_value_map[key_item] = self._data[key_item][metadata]
        return frame_idx_to_metadata_value_map
    try: return self._data[frame_idx][metadata]
    except KeyError: raise ValueError                                                       *)
Definition get_metadata (d : rdata) (m : mfield) (frame_idx : option Z) : res mres :=
  match m with
  | MInvalid => Err EValue
  | MExc x => match frame_idx with
              | Some z => if (z =? 0)%Z then Ok (RVal (MStr (r_exc d x))) else Err EValue   (* `if frame_idx:` *)
              | None => Ok (RVal (MStr (r_exc d x)))
              end
  | MFrame f => match frame_idx with
                | None => Ok (RMap (map (fun s => (s_index s, field_of f s)) (r_frames d)))
                | Some z => match frame_by_key z (r_frames d) with
                            | Some s => Ok (RVal (field_of f s))
                            | None => Err EValue
                            end
                end
  end.

(* variables_map[variable] *)
Fixpoint lookup_var (x : str) (l : list (str * N)) : option N :=
  match l with
  | [] => None
  | (y, v) :: r => if str_eqb x y then Some v else lookup_var x r
  end.

(* d[k] = v on an insertion-ordered dict *)
Fixpoint dict_set (x : str) (v : N) (l : list (str * N)) : list (str * N) :=
  match l with
  | [] => [(x, v)]
  | (y, w) :: r => if str_eqb x y then (y, v) :: r else (y, w) :: dict_set x v r
  end.

(*  for variable in variables:
        try: variable_value = variables_map[variable]
        except KeyError: continue
        ... [key_item][variable] = variable_value                                  *)
Fixpoint collect_vars (vs : list str) (vars : list (str * N)) (acc : list (str * N)) : list (str * N) :=
  match vs with
  | [] => acc
  | x :: r => match lookup_var x vars with
              | Some v => collect_vars r vars (dict_set x v acc)
              | None => collect_vars r vars acc
              end
  end.

Inductive vquery := QStr (x : str) | QList (l : list str).
Inductive vres :=
  | VVal (v : N)                                   (* one value *)
  | VDict (d : list (str * N))                     (* {variable: value} *)
  | VByFrame (m : list (nat * N))                  (* {frame_idx: value} *)
  | VByFrameDict (m : list (nat * list (str * N))). (* {frame_idx: {variable: value}} *)

Definition query_names (q : vquery) : list str := match q with QStr x => [x] | QList l => l end.

(* frame_idx is None: the per-frame findings, frames without any finding left out *)
Fixpoint by_frame (vs : list str) (l : saved) : list (nat * list (str * N)) :=
  match l with
  | [] => []
  | s :: r => match collect_vars vs (s_vars s) [] with
              | [] => by_frame vs r
              | found => (s_index s, found) :: by_frame vs r
              end
  end.

(* single variable passed as a str: [key_item] = variable_value *)
Definition single_value (found : list (str * N)) : N :=
  match found with (_, v) :: _ => v | [] => 0%N end.      (* `found` is never [] where this is used *)

(*  (sanity checks) if len(variables) == 0: raise ValueError
    if frame_idx is None:
        ... if not frame_idx_to_variables_map: raise ValueError
        if len(frame_idx_to_variables_map) == 1: return frame_idx_to_variables_map.popitem()[1]
        return frame_idx_to_variables_map
    try: variables_map = self._data[frame_idx]['variables']
    except KeyError: raise ValueError
    for variable in variables:
        ... if len(variables) == 1 and not variables_passed_as_list_or_tuple: return variable_value
        variable_key_to_value_map[variable] = variable_value
    if not variable_key_to_value_map: raise ValueError
    return variable_key_to_value_map                                                        *)
Definition get_variables (d : rdata) (q : vquery) (frame_idx : option Z) : res vres :=
  match query_names q with
  | [] => Err EValue
  | vs =>
    match frame_idx with
    | None =>
        match by_frame vs (r_frames d), q with
        | [], _ => Err EValue
        | [(_, found)], QStr _ => Ok (VVal (single_value found))
        | [(_, found)], QList _ => Ok (VDict found)
        | m, QStr _ => Ok (VByFrame (map (fun kf => (fst kf, single_value (snd kf))) m))
        | m, QList _ => Ok (VByFrameDict m)
        end
    | Some z =>
        match frame_by_key z (r_frames d) with
        | None => Err EValue
        | Some s =>
            match q with
            | QStr x => match lookup_var x (s_vars s) with
                        | Some v => Ok (VVal v)
                        | None => Err EValue
                        end
            | QList _ => match collect_vars vs (s_vars s) [] with
                         | [] => Err EValue
                         | found => Ok (VDict found)
                         end
            end
        end
    end
  end.

(* Proofs about Saveframe/Select.v: the surface syntax of selectors.
   'file_regex:line:function' parses to the pattern it spells; a list of them to a LIST; 'p..q' to a
   RANGE; 'p..' to the open range - for components free of ':' ',' '..' and outer blanks. *)
From Coq Require Import NArith ZArith List Bool Arith Lia.
From Verif Require Import Base.Chars Base.StrX Base.StrXProofs Saveframe.Select Saveframe.SelectProofs.
Import ListNotations.

(* ---------------------------------------------------------------------------------------- *)
(* split('..') *)

Fixpoint has_dd (s : str) : bool :=
  match s with
  | c :: r => match r with
              | d :: _ => ((c =? c_dot) && (d =? c_dot))%N || has_dd r
              | [] => false
              end
  | [] => false
  end.

Lemma split_dd_word s : has_dd s = false -> split_dd s = [s].
Proof.
  induction s as [| c r IH]; [reflexivity |]. destruct r as [| d r']; [reflexivity |].
  cbn [has_dd]. intros H. apply orb_false_elim in H. destruct H as [H1 H2].
  change (split_dd (c :: d :: r')) with
    (if ((c =? c_dot) && (d =? c_dot))%N then [] :: split_dd r' else cons_hd c (split_dd (d :: r'))).
  rewrite H1, (IH H2). reflexivity.
Qed.

Definition ends_not_dot (s : str) : Prop := (last s 0%N =? c_dot)%N = false.

Lemma split_dd_app s1 s2 :
  has_dd s1 = false -> ends_not_dot s1 ->
  split_dd (s1 ++ c_dot :: c_dot :: s2) = s1 :: split_dd s2.
Proof.
  induction s1 as [| c r IH]; intros Hd He.
  - cbn [app]. change (split_dd (c_dot :: c_dot :: s2)) with
      (if ((c_dot =? c_dot) && (c_dot =? c_dot))%N then [] :: split_dd s2 else cons_hd c_dot (split_dd (c_dot :: s2))).
    reflexivity.
  - destruct r as [| d r'].
    + unfold ends_not_dot in He. cbn [last] in He. cbn [app].
      change (split_dd (c :: c_dot :: c_dot :: s2)) with
        (if ((c =? c_dot) && (c_dot =? c_dot))%N then [] :: split_dd (c_dot :: s2)
         else cons_hd c (split_dd (c_dot :: c_dot :: s2))).
      rewrite He. cbn [andb]. pose proof (IH eq_refl eq_refl) as IH'. cbn [app] in IH'. rewrite IH'. reflexivity.
    + cbn [has_dd] in Hd. apply orb_false_elim in Hd. destruct Hd as [H1 H2].
      change ((c :: d :: r') ++ c_dot :: c_dot :: s2) with (c :: d :: (r' ++ c_dot :: c_dot :: s2)).
      change (split_dd (c :: d :: (r' ++ c_dot :: c_dot :: s2))) with
        (if ((c =? c_dot) && (d =? c_dot))%N then [] :: split_dd (r' ++ c_dot :: c_dot :: s2)
         else cons_hd c (split_dd ((d :: r') ++ c_dot :: c_dot :: s2))).
      rewrite H1. rewrite IH; [reflexivity | exact H2 |].
      unfold ends_not_dot in *. exact He.
Qed.

(* ---------------------------------------------------------------------------------------- *)
(* int() refuses anything that holds a colon *)

Lemma int_digits_colon s : In c_colon s -> forall acc b, int_digits s acc b = None.
Proof.
  induction s as [| c r IH]; intros Hin acc b; [destruct Hin |]. cbn [int_digits].
  destruct Hin as [-> | Hin]; [reflexivity |].
  destruct (is_digit c); [now apply IH |]. destruct (c =? c_us)%N; [| reflexivity].
  destruct b; [now apply IH | reflexivity].
Qed.

Lemma lstrip_In c s : is_py_space c = false -> In c s -> In c (lstrip s).
Proof.
  intros Hc. induction s as [| d r IH]; intros Hin; [destruct Hin |]. cbn [lstrip].
  destruct (is_py_space d) eqn:Ed; [| exact Hin].
  destruct Hin as [-> | Hin]; [congruence | now apply IH].
Qed.

Lemma strip_In c s : is_py_space c = false -> In c s -> In c (strip s).
Proof.
  intros Hc Hin. unfold strip, rstrip. apply in_rev. rewrite rev_involutive.
  apply lstrip_In; [exact Hc |]. apply -> in_rev. now apply lstrip_In.
Qed.

Lemma py_int_colon s : In c_colon s -> py_int s = None.
Proof.
  intros Hin. unfold py_int. pose proof (strip_In c_colon s eq_refl Hin) as Ht.
  destruct (strip s) as [| c r]; [destruct Ht |].
  destruct (c =? c_dash)%N eqn:E1.
  - apply N.eqb_eq in E1. subst c. destruct Ht as [Hc | Ht]; [discriminate |]. now rewrite (int_digits_colon r Ht).
  - destruct (c =? c_plus)%N eqn:E2.
    + apply N.eqb_eq in E2. subst c. destruct Ht as [Hc | Ht]; [discriminate |]. now apply int_digits_colon.
    + now apply int_digits_colon.
Qed.

(* ---------------------------------------------------------------------------------------- *)
(* one rendered pattern *)

(* the text between the colons: empty (no line) or something int() reads *)
Definition line_rel (lt : str) (ln : option Z) : Prop :=
  match lt with
  | [] => ln = None
  | _ => exists z, py_int lt = Some z /\ ln = Some z
  end.

Definition render (re lt fn : str) : str := re ++ c_colon :: lt ++ c_colon :: fn.

Lemma split_render re lt fn :
  no_sep c_colon re -> no_sep c_colon lt -> no_sep c_colon fn ->
  split_on c_colon (render re lt fn) = [re; lt; fn].
Proof.
  intros H1 H2 H3. unfold render.
  rewrite split_on_app_sep, split_on_app_sep, !split_on_word by assumption. reflexivity.
Qed.

Lemma parse_frame_render is_range idx re lt fn ln :
  re <> [] -> no_sep c_colon re -> no_sep c_colon lt -> no_sep c_colon fn -> line_rel lt ln ->
  parse_frame is_range idx (render re lt fn) = Ok (PPat (mkPat re ln fn)).
Proof.
  intros Hre H1 H2 H3 Hl. unfold parse_frame. rewrite split_render by assumption.
  destruct re as [| c re']; [congruence |]. destruct lt as [| d lt']; cbn [line_rel] in Hl.
  - now subst ln.
  - destruct Hl as (z & Hz & ->). now rewrite Hz.
Qed.

Lemma render_has_colon re lt fn : In c_colon (render re lt fn).
Proof. unfold render. apply in_or_app. right. now left. Qed.

(* frames='file_regex:line:function' (either utility) *)
Theorem validate_single script re lt fn ln :
  re <> [] -> no_sep c_colon re -> no_sep c_colon lt -> no_sep c_colon fn -> line_rel lt ln ->
  let s := render re lt fn in
  no_sep c_comma s -> has_dd s = false -> strip s = s ->
  validate_frames script (FStr s) = Ok (SList [PPat (mkPat re ln fn)]).
Proof.
  intros Hre H1 H2 H3 Hl s Hc Hd Hs. cbn [validate_frames].
  rewrite (py_int_colon s (render_has_colon re lt fn)).
  assert (Hm : mem_ch c_comma s = false).
  { unfold mem_ch. apply not_true_is_false. intros Hm. apply existsb_exists in Hm. destruct Hm as (x & Hx & Ex).
    unfold no_sep in Hc. rewrite Forall_forall in Hc. specialize (Hc x Hx). apply N.eqb_eq in Ex. subst x.
    rewrite N.eqb_refl in Hc. discriminate. }
  rewrite Hm. cbn [andb]. unfold validate_frames_str.
  rewrite (split_on_word c_comma s Hc). cbn [map]. rewrite (split_dd_word s Hd). cbn [map]. rewrite Hs.
  cbn [parse_frames]. unfold s. rewrite (parse_frame_render false 0 re lt fn ln) by assumption. reflexivity.
Qed.

(* frames='p..q' and frames='p..' *)
Theorem validate_range script re lt fn ln re2 lt2 fn2 ln2 :
  re <> [] -> no_sep c_colon re -> no_sep c_colon lt -> no_sep c_colon fn -> line_rel lt ln ->
  re2 <> [] -> no_sep c_colon re2 -> no_sep c_colon lt2 -> no_sep c_colon fn2 -> line_rel lt2 ln2 ->
  let s1 := render re lt fn in
  let s2 := render re2 lt2 fn2 in
  no_sep c_comma s1 -> has_dd s1 = false -> ends_not_dot s1 -> strip s1 = s1 ->
  no_sep c_comma s2 -> has_dd s2 = false -> strip s2 = s2 ->
  validate_frames script (FStr (s1 ++ c_dot :: c_dot :: s2)) = Ok (SRange (PPat (mkPat re ln fn)) (PPat (mkPat re2 ln2 fn2)))
  /\ validate_frames script (FStr (s1 ++ [c_dot; c_dot])) = Ok (SOpenRange (mkPat re ln fn)).
Proof.
  intros Hre H1 H2 H3 Hl Hre2 G1 G2 G3 Gl s1 s2 Hc1 Hd1 He1 Hs1 Hc2 Hd2 Hs2.
  assert (Hnc : forall t, no_sep c_comma t -> no_sep c_comma (s1 ++ c_dot :: c_dot :: t)).
  { intros t Ht. unfold no_sep in *. apply Forall_app. split; [exact Hc1 |]. constructor; [reflexivity |]. constructor; [reflexivity | exact Ht]. }
  assert (Hmem : forall t, no_sep c_comma t -> mem_ch c_comma t = false).
  { intros t Ht. unfold mem_ch. apply not_true_is_false. intros Hm. apply existsb_exists in Hm. destruct Hm as (x & Hx & Ex).
    unfold no_sep in Ht. rewrite Forall_forall in Ht. specialize (Ht x Hx). apply N.eqb_eq in Ex. subst x.
    rewrite N.eqb_refl in Ht. discriminate. }
  assert (Hcol : forall t, In c_colon (s1 ++ t)).
  { intros t. apply in_or_app. left. apply render_has_colon. }
  split.
  - cbn [validate_frames]. rewrite (py_int_colon _ (Hcol _)). rewrite (Hmem _ (Hnc _ Hc2)). cbn [andb].
    unfold validate_frames_str. rewrite (split_on_word c_comma _ (Hnc _ Hc2)). cbn [map].
    rewrite (split_dd_app s1 s2 Hd1 He1), (split_dd_word s2 Hd2). cbn [map]. rewrite Hs1, Hs2.
    cbn [parse_frames]. unfold s1, s2.
    rewrite (parse_frame_render true 0 re lt fn ln) by assumption. cbn [bind].
    rewrite (parse_frame_render true 1 re2 lt2 fn2 ln2) by assumption. reflexivity.
  - cbn [validate_frames]. rewrite (py_int_colon _ (Hcol _)).
    assert (Hn0 : no_sep c_comma (s1 ++ [c_dot; c_dot])) by (apply (Hnc []); constructor).
    rewrite (Hmem _ Hn0). cbn [andb]. unfold validate_frames_str. rewrite (split_on_word c_comma _ Hn0). cbn [map].
    rewrite (split_dd_app s1 [] Hd1 He1). cbn [split_dd map]. rewrite Hs1.
    cbn [parse_frames]. unfold s1.
    rewrite (parse_frame_render true 0 re lt fn ln) by assumption. reflexivity.
Qed.

(* frames=[p1, p2, ...] (two or more patterns; the function utility) *)
Definition rendered (x : str) (p : pat) : Prop :=
  exists lt, x = render (p_re p) lt (p_func p) /\ p_re p <> [] /\ no_sep c_colon (p_re p) /\ no_sep c_colon lt /\
             no_sep c_colon (p_func p) /\ line_rel lt (p_line p) /\ no_sep c_comma x /\ strip x = x.

Lemma parse_frames_rendered : forall l ps idx,
  Forall2 rendered l ps -> parse_frames false idx l = Ok (map PPat ps).
Proof.
  induction l as [| x l IH]; intros ps idx H; inversion H as [| x' p l' ps' Hx Hr]; subst; [reflexivity |].
  cbn [parse_frames map]. destruct Hx as (lt & -> & Hre & H1 & H2 & H3 & Hl & _ & _).
  destruct p as [re ln fn]. cbn [p_re p_line p_func] in *.
  rewrite (parse_frame_render false idx re lt fn ln) by assumption. cbn [bind].
  rewrite (IH _ _ Hr). reflexivity.
Qed.

Theorem validate_list x y l p q ps :
  Forall2 rendered (x :: y :: l) (p :: q :: ps) ->
  validate_frames false (FList (x :: y :: l)) = Ok (SList (map PPat (p :: q :: ps))).
Proof.
  intros H. set (L := x :: y :: l) in *. cbn [validate_frames].
  assert (Hc : Forall (no_sep c_comma) L).
  { clear -H. induction H as [| a b la lb Hab Hr IH]; constructor; [| exact IH]. destruct Hab as (lt & _ & _ & _ & _ & _ & _ & Hc & _). exact Hc. }
  assert (Hs : map strip L = L).
  { clear -H. induction H as [| a b la lb Hab Hr IH]; [reflexivity |]. cbn [map]. rewrite IH.
    destruct Hab as (lt & _ & _ & _ & _ & _ & _ & _ & Hs). now rewrite Hs. }
  assert (Hm : existsb (mem_ch c_comma) L = false).
  { apply not_true_is_false. intros Hm. apply existsb_exists in Hm. destruct Hm as (a & Ha & Hm).
    rewrite Forall_forall in Hc. specialize (Hc a Ha). unfold mem_ch in Hm. apply existsb_exists in Hm.
    destruct Hm as (c & Hcin & Ec). unfold no_sep in Hc. rewrite Forall_forall in Hc. specialize (Hc c Hcin).
    apply N.eqb_eq in Ec. subst c. rewrite N.eqb_refl in Hc. discriminate. }
  rewrite Hm. unfold validate_frames_str. rewrite (split_join c_comma L); [| unfold L; discriminate | exact Hc].
  rewrite Hs. subst L. cbv beta iota. rewrite (parse_frames_rendered _ _ 0 H). reflexivity.
Qed.

(* Entry points evaluated by the correspondence harness (harness/c17.py). *)
From Coq Require Import NArith ZArith List Bool String.
From Verif Require Import Base.Chars Base.StrX Base.Show
     Saveframe.Select Saveframe.Vars Saveframe.File Saveframe.Save Saveframe.Reader.
Import ListNotations.
Open Scope string_scope.

Definition show_Z (z : Z) : string :=
  match z with
  | Z0 => "0"
  | Zpos p => show_N (Npos p)
  | Zneg p => "-" ++ show_N (Npos p)
  end.

Definition show_err (e : err) : string :=
  show_string (match e with
               | EValue => "ValueError" | EIndex => "IndexError" | EType => "TypeError"
               | ERegex => "error" | EOracle => "oracle-miss"
               end).

(* oracle tables *)
Fixpoint rx_lookup (t : list (str * str * nat)) (p f : str) : rxres :=
  match t with
  | [] => RxMiss
  | (p', f', c) :: r => if str_eqb p p' && str_eqb f f'
                        then match c with 0%nat => RxNo | 1%nat => RxMatch | _ => RxErr end
                        else rx_lookup r p f
  end.
Fixpoint valid_lookup (t : list (str * bool)) (x : str) : bool :=
  match t with
  | [] => false
  | (y, b) :: r => if str_eqb x y then b else valid_lookup r x
  end.
Definition pk_of (unpicklable : list N) (v : N) : bool := negb (mem_N v unpicklable).

Definition show_vars (l : list (str * N)) : string := show_list (show_pair show_str show_N) l.

Definition show_saved_frame (s : saved_frame) : string :=
  show_obj [("index", show_nat (s_index s)); ("file", show_str (s_file s)); ("line", show_Z (s_line s));
            ("func", show_str (s_func s)); ("qual", show_str (s_qual s)); ("module", show_str (s_module s));
            ("code", show_str (s_code s)); ("ident", show_str (s_ident s)); ("vars", show_vars (s_vars s))].

Definition show_content (c : content saved) : string :=
  show_string (match c with COld => "old" | CTruncated => "truncated" | CData _ => "data" end).
Definition show_fs (st : fs saved) : list (string * string) :=
  [("umask", show_N (fs_umask st));
   ("file", show_option (show_pair show_N show_content) (fs_file st))].

Definition show_outcome (o : outcome) : string :=
  show_string (match o with Saved => "saved" | OpenFailed => "open_failed" | BodyFailed => "body_failed" end).

Inductive rquery := RQVars (q : vquery) (idx : option Z) | RQMeta (m : mfield) (idx : option Z) | RQVariables.

Definition show_mval (v : mval) : string :=
  match v with MNat n => show_nat n | MInt z => show_Z z | MStr s => show_str s end.

Definition show_query (d : rdata) (q : rquery) : string :=
  match q with
  | RQVariables => show_obj [("variables", show_list (show_pair show_nat (show_list show_str)) (reader_variables d))]
  | RQMeta m idx =>
      match get_metadata d m idx with
      | Err e => show_obj [("err", show_err e)]
      | Ok (RVal v) => show_obj [("val", show_mval v)]
      | Ok (RMap l) => show_obj [("map", show_list (show_pair show_nat show_mval) l)]
      end
  | RQVars vq idx =>
      match get_variables d vq idx with
      | Err e => show_obj [("err", show_err e)]
      | Ok (VVal v) => show_obj [("val", show_N v)]
      | Ok (VDict l) => show_obj [("dict", show_vars l)]
      | Ok (VByFrame l) => show_obj [("byframe", show_list (show_pair show_nat show_N) l)]
      | Ok (VByFrameDict l) => show_obj [("byframedict", show_list (show_pair show_nat show_vars) l)]
      end
  end.

Definition exc_of (l : list str) (x : efield) : str :=
  nth (match x with XString => 0 | XFullString => 1 | XClassName => 2 | XClassQualname => 3 end)%nat l [].

Definition run_save (script escaped n1_repaired : bool) (fa : frames_arg) (va ea : vars_arg) (cur : option frame) (e : exn)
           (rxt : list (str * str * nat)) (validt : list (str * bool)) (unpk : list N)
           (umask : N) (pre : option N) (open_ok exc_pk : bool)
           (excs : list str) (queries : list rquery) : string :=
  let st := mkFs umask (match pre with Some m => Some (m, COld) | None => None end) in
  let '(r, st') := saveframe (rx_lookup rxt) (valid_lookup validt) (pk_of unpk) script escaped n1_repaired fa va ea cur e open_ok exc_pk st in
  match r with
  | Err er => show_obj (("result", show_err er) :: show_fs st')
  | Ok (o, d) =>
      show_obj (("result", show_string "ok") :: ("outcome", show_outcome o)
                :: ("frames", show_list show_saved_frame d)
                :: ("exc_object", show_string (if exception_object_stored n1_repaired exc_pk then "object" else "placeholder"))
                :: ("queries", match o with
                               | Saved => show_list (show_query (mkR d (exc_of excs))) queries
                               | _ => "[]"
                               end)
                :: show_fs st')
  end.

(* environment-side check of the int() model *)
Definition run_int (s : str) : string := show_option show_Z (py_int s).

(* the selector alone (validation) *)
Definition show_pframe (p : pframe) : string :=
  match p with
  | POpen => "[""""]"
  | PPat p => show_list (fun x => x) [show_str (p_re p); show_option show_Z (p_line p); show_str (p_func p)]
  end.
Definition run_validate (script : bool) (fa : frames_arg) : string :=
  match validate_frames script fa with
  | Err e => show_obj [("err", show_err e)]
  | Ok SNone => show_obj [("fmt", "null")]
  | Ok (SNum n) => show_obj [("fmt", show_string "NUM"); ("n", show_Z n)]
  | Ok (SList ps) => show_obj [("fmt", show_string "LIST"); ("frames", show_list show_pframe ps)]
  | Ok (SRange p q) => show_obj [("fmt", show_string "RANGE"); ("frames", show_list show_pframe [p; q])]
  end.

(* M6 (open mode, DESIGN 3.6): the abstract file of pyflyby._imports2s.SourceToSourceFileImportsTransformation.
   A file is a list of blocks; a block is either `Other` (SourceToSourceTransformation: its statements with
   their kind and opaque text, and an optional overriding output) or `Imps`
   (SourceToSourceImportBlockTransformation: position of its input text and its ImportSet).
   An import is (components of fullname, import_as) as in pyflyby._importstmt.Import._data.
   Model only; proofs are in BlocksProofs.v / FixProofs.v. *)
From Coq Require Import NArith List Bool Arith String.
From Verif Require Import Base.Chars Base.StrX.
Import ListNotations.

(* ---------------------------------------------------------------------------------------------- *)
(* Import:  _data = (fullname, import_as); fullname is kept as fullname.split('.')                   *)

Record import := mkImp { i_full : list str; i_as : str }.

(*  def __eq__(self, other): return self._data == other._data  *)
Definition imp_eqb (a b : import) : bool :=
  strs_eqb (i_full a) (i_full b) && str_eqb (i_as a) (i_as b).

Definition fullname_str (i : import) : str := join_with c_dot (i_full i).

(*  imp.import_as == "*"  *)
Definition is_star (i : import) : bool := str_eqb (i_as i) [c_star].

Definition s_future : str := dec "__future__"%string.

(*  Import.split:  if self.import_as == self.fullname: return ImportSplit(None, self.fullname, None)
                   ... module_name, member_name = qname.rsplit(".", 1) ...
    Components of split.module_name, None when there is no from-clause.  Relative imports (leading
    empty components) are outside the domain of this definition (only the star-removal path of
    without_imports and is_future use it).  *)
Definition module_of (i : import) : option (list str) :=
  if str_eqb (i_as i) (fullname_str i) then None
  else match i_full i with
       | [] => None
       | [_] => None
       | l => Some (removelast l)
       end.

(*  imp.split.member_name == "*"  *)
Definition member_is_star (i : import) : bool :=
  negb (str_eqb (i_as i) (fullname_str i)) && str_eqb (last (i_full i) []) [c_star].

(*  imp.split.module_name == '__future__'  *)
Definition is_future (i : import) : bool :=
  match module_of i with
  | Some [m] => str_eqb m s_future
  | _ => false
  end.

(*  len(imp.prefix_match(oimp))  =  len(longest_common_prefix(n1.split('.'), n2.split('.')))  *)
Fixpoint common_prefix_len (a b : list str) : nat :=
  match a, b with
  | x :: a', y :: b' => if str_eqb x y then S (common_prefix_len a' b') else 0
  | _, _ => 0
  end.

(*  max([0] + [len(imp.prefix_match(oimp)) for oimp in block.importset.imports])  *)
Definition prefix_max (imp : import) (l : list import) : nat :=
  fold_left (fun m o => Nat.max m (common_prefix_len (i_full imp) (i_full o))) l 0.

(* ---------------------------------------------------------------------------------------------- *)
(* ImportSet as a duplicate-free list                                                              *)

Definition imp_in (i : import) (l : list import) : bool := existsb (imp_eqb i) l.

(*  ImportSet.by_import_as[name]  (KeyError = [])  *)
Definition by_as (l : list import) (n : str) : list import :=
  filter (fun i => str_eqb (i_as i) n) l.

(*  conflicting_imports = tuple(k for k, v in self.by_import_as.items() if len(v) > 1 and k != "*")  *)
Definition conflicting (l : list import) : bool :=
  existsb (fun i => negb (is_star i) && (1 <? List.length (by_as l (i_as i)))) l.

(* component-wise prefix:  any(pfx in star_module_removals for pfx in dotted_prefixes(module_name)) *)
Fixpoint is_cprefix (p l : list str) : bool :=
  match p, l with
  | [], _ => true
  | x :: p', y :: l' => str_eqb x y && is_cprefix p' l'
  | _ :: _, [] => false
  end.

(*  ImportSet.without_imports([r]):
      star_module_removals = set(imp.split.module_name for imp in removals if imp.split.member_name == "*")
      for imp in self:
          if imp in removals: continue
          if star_module_removals and imp.split.module_name:
              if any(pfx in star_module_removals for pfx in dotted_prefixes(imp.split.module_name)): continue
          new_imports.append(imp)                                                                   *)
Definition without_one (l : list import) (r : import) : list import :=
  let star_mod := if member_is_star r then module_of r else None in
  filter (fun i => negb (imp_eqb i r) &&
                   negb (match star_mod, module_of i with
                         | Some sm, Some m => is_cprefix sm m
                         | _, _ => false
                         end)) l.

(*  ImportSet.with_imports([imp])  = _from_imports(list(self._importset | other._importset))  (no shadow filtering)  *)
Definition with_one (l : list import) (imp : import) : list import :=
  if imp_in imp l then l else l ++ [imp].

(*  ImportSet._from_imports(imports, ignore_shadowed=True):
      for imp in _imports:
          if imp.import_as == "*": by_import_as[imp] = imp      # keep all unique star imports
          else:                    by_import_as[imp.import_as] = imp
    later imports take precedence; the result is a set, so only membership matters *)
Definition shadowed_by (i j : import) : bool :=
  if is_star i then imp_eqb i j else str_eqb (i_as i) (i_as j).

Fixpoint ignore_shadowed (l : list import) : list import :=
  match l with
  | [] => []
  | i :: r => if existsb (shadowed_by i) r then ignore_shadowed r else i :: ignore_shadowed r
  end.

(* ---------------------------------------------------------------------------------------------- *)
(* Blocks                                                                                          *)

(* PythonStatement.is_comment_or_blank / str-literal statement / bytes-literal statement (also
   is_comment_or_blank_or_string_literal) / anything else *)
Inductive skind := KBlank | KString | KBytes | KCode.
Record stmt := mkStmt { s_kind : skind; s_text : str }.

(* an import block: identity (Python object identity of the transformation object), input.startpos.lineno,
   input.startpos.colno == 1, input.endpos.lineno, input.endpos.colno == 1, importset *)
Record iblock := mkIB { ib_id : nat; ib_start : nat; ib_col1 : bool; ib_end : nat; ib_endnl : bool;
                        ib_imps : list import }.

Inductive block :=
| Other (ss : list stmt) (out : option str)      (* input.statements; _output when it is not the input *)
| Imps (b : iblock).

Definition set_imps (b : iblock) (l : list import) : iblock :=
  mkIB (ib_id b) (ib_start b) (ib_col1 b) (ib_end b) (ib_endnl b) l.

(*  self.import_blocks : the import blocks in file order (the new block of insert_new_import_block goes to
    index 0 of both lists' import part, see Fix.insert_new)  *)
Definition iblocks (bs : list block) : list iblock :=
  flat_map (fun b => match b with Imps ib => [ib] | Other _ _ => [] end) bs.

(* block.importset = f(block.importset)  on the block object with identity id *)
Definition upd (bs : list block) (id : nat) (f : iblock -> iblock) : list block :=
  map (fun b => match b with
                | Imps ib => if ib_id ib =? id then Imps (f ib) else b
                | Other _ _ => b
                end) bs.

Definition all_imports (bs : list block) : list import := flat_map ib_imps (iblocks bs).

Definition stmts_text (ss : list stmt) : str := List.concat (map s_text ss).

Definition is_nil {A} (l : list A) : bool := match l with [] => true | _ => false end.

Fixpoint ends_nl (s : str) : bool :=
  match s with
  | [] => false
  | [c] => (c =? c_nl)%N
  | _ :: r => ends_nl r
  end.

(* code-point order of Python str comparison *)
Fixpoint str_ltb (a b : str) : bool :=
  match a, b with
  | [], [] => false
  | [], _ :: _ => true
  | _ :: _, [] => false
  | x :: a', y :: b' => if (x <? y)%N then true else if (y <? x)%N then false else str_ltb a' b'
  end.

(* C03 future_first composed over the whole driver: the statements of the non-import blocks in front of every import
   block that holds a from-__future__ import are prologue (comments / blanks / at most one str literal, no bytes
   literal) - before and after fix_unused_and_missing_imports. *)
From Coq Require Import NArith List Bool Arith Lia ZifyBool.
From Verif Require Import Base.Chars Base.StrX Base.StrXProofs Tidy.Blocks Tidy.Fix Tidy.FixProofs Tidy.ErrProofs.
Import ListNotations.

Definition fut_block (b : iblock) : Prop := existsb is_future (ib_imps b) = true.
Definition prologue (s : list stmt) : Prop := Forall noncode s /\ n_strings s <= 1 /\ Forall nobytes s.

(* m marks block identities whose position is known to be behind prologue only *)
Fixpoint ffm (m : nat -> bool) (seen : list stmt) (bs : list block) : Prop :=
  match bs with
  | [] => True
  | Other ss _ :: r => ffm m (seen ++ ss) r
  | Imps b :: r => (fut_block b \/ m (ib_id b) = true -> prologue seen) /\ ffm m seen r
  end.
Definition nomark : nat -> bool := fun _ => false.
Definition future_first (bs : list block) : Prop := ffm nomark [] bs.

Lemma prologue_nil : prologue [].
Proof. repeat split; try constructor. cbn. lia. Qed.

Definition blank (s : stmt) : Prop := s_kind s = KBlank.

Lemma n_strings_app a b : n_strings (a ++ b) = n_strings a + n_strings b.
Proof. unfold n_strings. rewrite filter_app, app_length. reflexivity. Qed.

Lemma prologue_insert_blanks a x b : Forall blank x -> prologue (a ++ b) -> prologue (a ++ x ++ b).
Proof.
  intros Hx [H1 [H2 H3]].
  assert (Forall noncode x /\ n_strings x = 0 /\ Forall nobytes x) as [X1 [X2 X3]].
  { clear - Hx. induction Hx as [|s x Hs Hx IH]; [repeat split; constructor|].
    destruct IH as [I1 [I2 I3]]. unfold blank in Hs. repeat split.
    - constructor; [unfold noncode; rewrite Hs; discriminate|exact I1].
    - unfold n_strings in *. cbn [filter]. unfold is_string at 1. rewrite Hs. exact I2.
    - constructor; [unfold nobytes, is_bytes; rewrite Hs; reflexivity|exact I3]. }
  apply Forall_app in H1. destruct H1 as [H1a H1b]. apply Forall_app in H3. destruct H3 as [H3a H3b].
  rewrite n_strings_app in H2. repeat split.
  - apply Forall_app. split; [exact H1a|apply Forall_app; split; assumption].
  - rewrite !n_strings_app. lia.
  - apply Forall_app. split; [exact H3a|apply Forall_app; split; assumption].
Qed.

Lemma ffm_mono m : forall r s s',
  (forall t, prologue (s ++ t) -> prologue (s' ++ t)) -> ffm m s r -> ffm m s' r.
Proof.
  induction r as [|b r IH]; intros s s' H Hf; [exact I|].
  destruct b as [ss o|ib]; cbn [ffm] in *.
  - eapply IH; [|exact Hf]. intros t Ht. rewrite <- app_assoc in *. apply H. exact Ht.
  - destruct Hf as [H1 H2]. split.
    + intros Hc. specialize (H1 Hc). specialize (H []). rewrite !app_nil_r in H. apply H. exact H1.
    + eapply IH; eauto.
Qed.

Lemma ffm_ext m m' : forall r s,
  (forall b, In b (iblocks r) -> m' (ib_id b) = true -> m (ib_id b) = true) -> ffm m s r -> ffm m' s r.
Proof.
  induction r as [|b r IH]; intros s H Hf; [exact I|].
  destruct b as [ss o|ib]; cbn [ffm] in *.
  - apply IH; [|exact Hf]. intros b Hb. apply H. exact Hb.
  - destruct Hf as [H1 H2]. split.
    + intros [Hc|Hc]; apply H1; [left; exact Hc|right; apply H; [left; reflexivity|exact Hc]].
    + apply IH; [|exact H2]. intros b Hb. apply H. right. exact Hb.
Qed.

(* editing import sets in place *)
Lemma ffm_upd m id f : forall bs s,
  ffm m s bs ->
  (forall b, In b (iblocks bs) -> fut_block (upd1 id f b) -> fut_block b \/ m (ib_id b) = true) ->
  (forall b, ib_id (f b) = ib_id b) ->
  ffm nomark s (upd bs id f).
Proof.
  induction bs as [|b bs IH]; intros s Hf H Hid; [exact I|].
  destruct b as [ss o|ib]; cbn [ffm upd map] in *.
  - apply IH; [exact Hf| |exact Hid]. intros b Hb. apply H. exact Hb.
  - destruct Hf as [H1 H2].
    assert (ffm nomark s (upd bs id f)) as Hrest.
    { apply IH; [exact H2| |exact Hid]. intros b Hb. apply H. right. exact Hb. }
    specialize (H ib (or_introl eq_refl)). unfold upd1 in H.
    destruct (ib_id ib =? id); cbn [ffm]; (split; [|exact Hrest]); intros [Hc|Hc]; try discriminate; apply H1; apply H; exact Hc.
Qed.

Lemma fut_block_subset b l : (forall i, In i l -> In i (ib_imps b)) -> existsb is_future l = true -> fut_block b.
Proof.
  intros H E. apply existsb_exists in E. destruct E as [i [Hi Hf]]. unfold fut_block. apply existsb_exists.
  exists i. split; [apply H; exact Hi|exact Hf].
Qed.

Lemma remove_import_ff c bs u bs' : future_first bs -> remove_import c bs u = Ok bs' -> future_first bs'.
Proof.
  unfold remove_import. intros Hf. destruct (find_block c bs (fst u)) as [|b|]; try discriminate.
  - intros E; inversion E; subst; exact Hf.
  - destruct (by_as (ib_imps b) (i_as (snd u))) as [|j [|]]; try discriminate.
    + intros E; inversion E; subst; exact Hf.
    + intros E; inversion E; subst bs'. unfold future_first. eapply ffm_upd; [exact Hf| |reflexivity].
      intros x Hx Hfx. left. unfold upd1 in Hfx. destruct (ib_id x =? ib_id b); [|exact Hfx].
      eapply fut_block_subset; [|exact Hfx]. cbn. intros i Hi. eapply without_one_incl. exact Hi.
Qed.

Lemma remove_all_ff c us : forall bs bs', future_first bs -> remove_all c bs us = Ok bs' -> future_first bs'.
Proof.
  induction us as [|u us IH]; intros bs bs' Hf E; cbn [remove_all] in E.
  - inversion E; subst; exact Hf.
  - destruct (remove_import c bs u) as [bs1|] eqn:E1; [|discriminate].
    eapply IH; [|exact E]. eapply remove_import_ff; eauto.
Qed.

Lemma remove_import_ids c bs u bs' : ids_ok bs -> remove_import c bs u = Ok bs' -> ids_ok bs'.
Proof.
  unfold remove_import. intros Hi. destruct (find_block c bs (fst u)) as [|b|]; try discriminate.
  - intros E; inversion E; subst; exact Hi.
  - destruct (by_as (ib_imps b) (i_as (snd u))) as [|j [|]]; try discriminate.
    + intros E; inversion E; subst; exact Hi.
    + intros E; inversion E; subst. unfold ids_ok. rewrite ids_upd; [exact Hi|reflexivity].
Qed.

Lemma remove_all_ids c us : forall bs bs', ids_ok bs -> remove_all c bs us = Ok bs' -> ids_ok bs'.
Proof.
  induction us as [|u us IH]; intros bs bs' Hi E; cbn [remove_all] in E.
  - inversion E; subst; exact Hi.
  - destruct (remove_import c bs u) as [bs1|] eqn:E1; [|discriminate].
    eapply IH; [|exact E]. eapply remove_import_ids; eauto.
Qed.

(* a created block: marked, everything else as before *)
Lemma blank_sep : Forall blank [mkStmt KBlank [c_nl]].
Proof. repeat constructor. Qed.

Lemma ffm_blank_front m x r : Forall blank x -> ffm m [] r -> ffm m x r.
Proof.
  intros Hx. apply ffm_mono. intros t Ht. cbn [app] in Ht.
  pose proof (prologue_insert_blanks [] x t Hx Ht) as H. exact H.
Qed.

Lemma insert_new_ff c bs bs' nb :
  f9 c = true -> f40 c = true -> future_first bs -> insert_new c bs = Ok (bs', nb) ->
  ffm (fun i => i =? ib_id nb) [] bs'.
Proof.
  intros H9 H40 Hf Hins.
  assert (Hfresh : forall b, In b (iblocks bs) -> (ib_id b =? ib_id nb) = false).
  { intros b Hb. apply insert_new_shape in Hins as [Hn _]. subst nb. cbn [new_ib ib_id].
    apply Nat.eqb_neq. intros E. apply (fresh_id_fresh bs). rewrite <- E. apply in_map. exact Hb. }
  assert (Hmark : forall r s, (forall b, In b (iblocks r) -> In b (iblocks bs)) -> ffm nomark s r -> ffm (fun i => i =? ib_id nb) s r).
  { intros r s Hsub. apply ffm_ext. intros b Hb Hm. rewrite (Hfresh b (Hsub b Hb)) in Hm. discriminate. }
  unfold insert_new in Hins. destruct bs as [|b0 rest0]; [discriminate|].
  destruct b0 as [ss o|ib0].
  - pose proof (first_nonprologue_spec c ss false) as Hs.
    pose proof (first_nonprologue_nobytes c H40 ss false) as Hb.
    unfold future_first in Hf. cbn [ffm app] in Hf.
    assert (Hsub : forall b, In b (iblocks rest0) -> In b (iblocks (Other ss o :: rest0))) by (intros b Hb0; exact Hb0).
    destruct (first_nonprologue c ss false) as [[|k]|] eqn:Ef; inversion Hins; subst; clear Hins.
    + cbn [ffm]. split; [intros _; apply prologue_nil|].
      cbn [app]. apply Hmark; [exact Hsub|]. apply (ffm_blank_front nomark _ (Other ss o :: rest0) blank_sep).
      cbn [ffm app]. exact Hf.
    + destruct Hs as [H1 [H2 H3]]. cbn [ffm app]. split.
      * intros _. specialize (H3 H9). cbn [Nat.add] in H3. rewrite Nat.add_0_r in H3. split; [exact H2|split; [exact H3|exact Hb]].
      * apply Hmark; [exact Hsub|]. rewrite <- app_assoc. eapply ffm_mono; [|exact Hf].
        intros t Ht. rewrite <- (firstn_skipn (S k) ss) in Ht. rewrite <- app_assoc in Ht. rewrite <- !app_assoc.
        apply prologue_insert_blanks; [exact blank_sep|exact Ht].
    + destruct Hs as [H2 H3]. cbn [ffm app].
      destruct (f38 c && unterminated ss); cbn [app ffm nl_block].
      * split.
        -- intros _. repeat split.
           ++ apply Forall_app. split; [exact H2|repeat constructor; unfold noncode; cbn; discriminate].
           ++ rewrite n_strings_app. specialize (H3 H9). rewrite Nat.add_0_r in H3. change (n_strings [mkStmt KBlank [c_nl]]) with 0. lia.
           ++ apply Forall_app. split; [exact Hb|repeat constructor].
        -- apply Hmark; [exact Hsub|]. eapply ffm_mono; [|exact Hf].
           intros t Ht. rewrite <- !app_assoc.
           change ([mkStmt KBlank [c_nl]] ++ [mkStmt KBlank [c_nl]] ++ t) with ([mkStmt KBlank [c_nl]; mkStmt KBlank [c_nl]] ++ t).
           apply prologue_insert_blanks; [repeat constructor|exact Ht].
      * split.
        -- intros _. specialize (H3 H9). rewrite Nat.add_0_r in H3. split; [exact H2|split; [exact H3|exact Hb]].
        -- apply Hmark; [exact Hsub|]. eapply ffm_mono; [|exact Hf].
           intros t Ht. rewrite <- !app_assoc. apply prologue_insert_blanks; [exact blank_sep|exact Ht].
  - inversion Hins; subst; clear Hins. unfold sep_block. cbn [ffm app]. split; [intros _; apply prologue_nil|].
    apply (Hmark (Imps ib0 :: rest0) [mkStmt KBlank [c_nl]]); [intros b Hb; exact Hb|].
    apply (ffm_blank_front nomark _ (Imps ib0 :: rest0) blank_sep). exact Hf.
Qed.

Lemma add_import_ids c bs imp L bs' o : ids_ok bs -> add_import c bs imp L = Ok (bs', o) -> ids_ok bs'.
Proof.
  intros Hid. unfold add_import. destruct (choose_block c bs imp L) as [[[bs1 b] isnew]|] eqn:Ec; [|discriminate].
  assert (ids_ok bs1) as H1.
  { apply choose_block_spec in Ec. destruct Ec as [[_ [E _]]|[_ [E [_ Hins]]]]; [subst; exact Hid|].
    unfold ids_ok. rewrite E. cbn [map]. constructor; [|exact Hid].
    apply insert_new_shape in Hins as [Hn _]. subst b. cbn [new_ib ib_id]. apply fresh_id_fresh. }
  destruct (imp_in imp (ib_imps b)); [intros E; inversion E; subst; exact H1|].
  destruct (f24 c && negb (is_star imp) && negb (is_nil (by_as (ib_imps b) (i_as imp)))); [intros E; inversion E; subst; exact H1|].
  intros E; inversion E; subst. unfold ids_ok. rewrite ids_upd; [exact H1|reflexivity].
Qed.

Lemma existsb_with_one l imp : existsb is_future (with_one l imp) = true -> existsb is_future l = true \/ is_future imp = true.
Proof.
  intros E. apply existsb_exists in E. destruct E as [i [Hi Hf]]. apply with_one_in in Hi. destruct Hi as [Hi|Hi].
  - left. apply existsb_exists. eauto.
  - right. subst. exact Hf.
Qed.

Lemma add_import_ff c bs imp L bs' o :
  f9 c = true -> f40 c = true -> f46 c = true -> ids_ok bs -> future_first bs ->
  add_import c bs imp L = Ok (bs', o) -> future_first bs'.
Proof.
  intros H9 H40 H46 Hid Hf. unfold add_import, choose_block.
  destruct (select_block c bs imp L) as [[b|]|] eqn:Es; [| |discriminate].
  - (* an existing block *)
    destruct (imp_in imp (ib_imps b)); [intros E; inversion E; subst; exact Hf|].
    destruct (f24 c && negb (is_star imp) && negb (is_nil (by_as (ib_imps b) (i_as imp)))); [intros E; inversion E; subst; exact Hf|].
    intros E; inversion E; subst bs'. unfold future_first. eapply ffm_upd; [exact Hf| |reflexivity].
    intros x Hx Hfx. left. unfold upd1 in Hfx. destruct (ib_id x =? ib_id b) eqn:Ei; [|exact Hfx].
    apply Nat.eqb_eq in Ei. pose proof (select_block_some _ _ _ _ _ Es) as [Hb _].
    assert (x = b) by (eapply nodup_map_inj; eauto). subst x.
    cbn in Hfx. apply existsb_with_one in Hfx. destruct Hfx as [Hfx|Hfx]; [exact Hfx|].
    destruct (future_joins_from_future_block _ _ _ _ _ H46 Hfx Es) as [o0 [Ho Hfo]].
    unfold fut_block. apply existsb_exists. eauto.
  - (* a created block *)
    destruct (insert_new c bs) as [[bs1 nb]|] eqn:Ei; [|discriminate].
    pose proof (insert_new_ff _ _ _ _ H9 H40 Hf Ei) as Hm.
    assert (future_first bs1) as Hf1.
    { unfold future_first. eapply ffm_ext; [|exact Hm]. intros b Hb Hx. discriminate. }
    destruct (imp_in imp (ib_imps nb)); [intros E; inversion E; subst; exact Hf1|].
    destruct (f24 c && negb (is_star imp) && negb (is_nil (by_as (ib_imps nb) (i_as imp)))); [intros E; inversion E; subst; exact Hf1|].
    intros E; inversion E; subst bs'. unfold future_first. eapply ffm_upd; [exact Hm| |reflexivity].
    intros x Hx Hfx. unfold upd1 in Hfx. destruct (ib_id x =? ib_id nb) eqn:Ee; [right; cbn; first [exact Ee | reflexivity]|left; exact Hfx].
Qed.

Section KnownFF.
Variable known : str -> list import.

Lemma add_missing_loop_ff c all : f9 c = true -> f40 c = true -> f46 c = true ->
  forall ms bs added log bs' log',
  ids_ok bs -> future_first bs ->
  add_missing_loop known c all ms bs added log = Ok (bs', log') -> ids_ok bs' /\ future_first bs'.
Proof.
  intros H9 H40 H46. induction ms as [|[lineno ident] ms IH]; intros bs added log bs' log' Hid Hf E; cbn [add_missing_loop] in E.
  - inversion E; subst. auto.
  - destruct (known (head_name ident)) as [|cand [|]]; try (eapply IH; eauto; fail).
    destruct (imp_in cand added); [eapply IH; eauto|].
    destruct (add_import c bs cand (Some (if f8 c then first_use all (head_name ident) lineno else lineno))) as [[bs1 o]|] eqn:Ea; [|discriminate].
    pose proof (add_import_ids _ _ _ _ _ _ Hid Ea) as Hid1.
    pose proof (add_import_ff _ _ _ _ _ _ H9 H40 H46 Hid Hf Ea) as Hf1.
    destruct o as [id isnew| |]; [eapply IH; eauto|destruct (f37 c); [eapply IH; eauto|discriminate]|eapply IH; eauto].
Qed.
End KnownFF.

Lemma add_mandatory_loop_ff c : f9 c = true -> f40 c = true -> f46 c = true ->
  forall mand bs log bs' log', ids_ok bs -> future_first bs ->
  add_mandatory_loop c mand bs log = Ok (bs', log') -> ids_ok bs' /\ future_first bs'.
Proof.
  intros H9 H40 H46. induction mand as [|m mand IH]; intros bs log bs' log' Hid Hf E; cbn [add_mandatory_loop] in E.
  - inversion E; subst. auto.
  - destruct (add_import c bs m None) as [[bs1 o]|] eqn:Ea; [|discriminate].
    eapply IH; [| |exact E]; [eapply add_import_ids; eauto|eapply add_import_ff; eauto].
Qed.

(* C03 future_first over the whole driver (F9, F40, F46 repaired): if in the block list that
   fix_unused_and_missing_imports edits only prologue statements (comments, blanks, at most one str literal, no bytes
   literal) stand in front of every import block that holds a from-__future__ import, the same is true of the block
   list it prints - whatever the analysis reports, the database answers and the flags are. *)
Theorem future_first_tidy c fl known mand bs ms us bs' log :
  f9 c = true -> f40 c = true -> f46 c = true ->
  ids_ok bs -> future_first bs ->
  fix_blocks c fl known mand bs ms us = Ok (bs', log) -> future_first bs'.
Proof.
  intros H9 H40 H46 Hid Hf. unfold fix_blocks. intros E.
  destruct (if remove_unused fl then remove_all c bs us else Ok bs) as [bs1|] eqn:E1; [|discriminate].
  assert (ids_ok bs1 /\ future_first bs1) as [Hid1 Hf1].
  { destruct (remove_unused fl); [split; [eapply remove_all_ids|eapply remove_all_ff]; eauto|inversion E1; subst; auto]. }
  destruct (if add_missing fl then _ else _) as [[bs2 log2]|] eqn:E2; [|discriminate].
  assert (ids_ok bs2 /\ future_first bs2) as [Hid2 Hf2].
  { destruct (add_missing fl); [eapply add_missing_loop_ff; eauto|inversion E2; subst; auto]. }
  destruct (add_mandatory fl).
  - eapply add_mandatory_loop_ff in E; eauto. tauto.
  - inversion E; subst. exact Hf2.
Qed.

(* non-vacuity: a docstring, then a block with a from-__future__ import, then code *)
Definition wff_blocks : list block :=
  [Other [mkStmt KString [34%N; 100%N; 34%N; 10%N]] None;
   Imps (mkIB 1 2 true 3 true [mkImp [s_future; [100%N]] [100%N]]);
   Other [mkStmt KCode [120%N; 10%N]] None].

Example future_first_nonvacuous : ids_ok wff_blocks /\ future_first wff_blocks /\ fut_block (mkIB 1 2 true 3 true [mkImp [s_future; [100%N]] [100%N]]).
Proof.
  split; [unfold ids_ok; cbn; repeat constructor; intros []|].
  split; [|vm_compute; reflexivity].
  unfold future_first, wff_blocks. cbn [ffm app]. split; [|exact I].
  intros _. repeat split.
  - repeat constructor. unfold noncode. cbn. discriminate.
  - vm_compute. lia.
  - repeat constructor.
Qed.

(* M6 (open mode): pyflyby._imports2s - find_import_block_by_lineno, remove_import,
   select_import_block_by_closest_prefix_match, insert_new_blocks_after_comments, insert_new_import_block,
   add_import, and the drivers reformat_import_statements, fix_unused_and_missing_imports,
   replace_star_imports, remove_broken_imports, transform_imports.
   The behaviour is parameterised by `cfg`: one boolean per repaired defect (false = the unchanged tree,
   true = the tree with fixes/<Fnn>-*.diff applied).  Model only; proofs are in FixProofs.v. *)
From Coq Require Import NArith List Bool Arith.
From Verif Require Import Base.Chars Base.StrX Tidy.Blocks.
Import ListNotations.

Record cfg := mkCfg {
  f8  : bool;   (* place an added import before the EARLIEST use of its name *)
  f8b : bool;   (* a block that starts mid-line on the line of the use does not precede the use *)
  f9  : bool;   (* only the first string-literal statement is prologue *)
  f23 : bool;   (* a block whose text ends with a newline ends on the previous line *)
  f24 : bool;   (* add_import refuses an import whose local name another import of the block binds *)
  f28 : bool;   (* an emptied block that did not start at column 1 prints "\n" *)
  f35 : bool;   (* block selection sorts by key only (no TypeError on equal keys) *)
  f37 : bool;   (* ImportAlreadyExistsError is caught in the add-missing loop too *)
  f38 : bool;   (* a last prologue line without newline is terminated before the new import block *)
  f40 : bool;   (* a bytes-literal statement is not a docstring *)
  f45 : bool;   (* an emptied import block that continued a backslash line prints a newline *)
  f46 : bool    (* a from-__future__ import joins only a block that holds a from-__future__ import *)
}.
Definition repaired : cfg := mkCfg true true true true true true true true true true true true.
Definition unchanged : cfg := mkCfg false false false false false false false false false false false false.

(* where the code raises: ConflictingImportsError (ImportSet.pretty_print), LineNumberAmbiguousError,
   Exception("Multiple imports to remove"), TypeError (tuple comparison falls through to the block objects),
   ImportAlreadyExistsError escaping the add-missing loop, IndexError (self.blocks[0] of an empty list) *)
Inductive err := EConflict | ELineAmbiguous | EMultipleRemove | ESortTie | EAlreadyExists | ENoBlocks.
Inductive res (A : Type) := Ok (a : A) | Err (e : err).
Arguments Ok {A} a.
Arguments Err {A} e.

Section WithRender.
(* ImportSet.pretty_print(params) : an arbitrary function of the import set *)
Variable R : list import -> str.
(* the tokenizer's verdict in _ends_with_line_continuation(text): no COMMENT token ends on the last physical line
   of text (a backslash that ends a comment continues nothing) *)
Variable NC : str -> bool.

(*  SourceToSourceImportBlockTransformation.pretty_print:
      if not allow_conflicts and self.conflicting_imports: raise ConflictingImportsError
      result = self.importset.pretty_print(params)
      [F28]  if not result and self.input.startpos.colno != 1 and self.input.text.joined.endswith("\n"): result = "\n" *)
Definition pp_iblock (c : cfg) (b : iblock) : res str :=
  if conflicting (ib_imps b) then Err EConflict
  else let r := R (ib_imps b) in
       Ok (if f28 c && is_nil r && negb (ib_col1 b) && ib_endnl b then [c_nl] else r).

(*  SourceToSourceTransformation.pretty_print: return self._output.text  *)
Definition pp_block (c : cfg) (b : block) : res str :=
  match b with
  | Other ss None => Ok (stmts_text ss)
  | Other _ (Some o) => Ok o
  | Imps ib => pp_iblock c ib
  end.

(*  str(text).endswith("\\\n")  *)
Fixpoint ends_bsnl (s : str) : bool :=
  match s with
  | [] => false
  | [a; b] => (a =? c_bslash)%N && (b =? c_nl)%N
  | _ :: r => ends_bsnl r
  end.

(*  result = []
    for block in self.blocks:
        text = block.pretty_print(params=params)
        [F45]  if not text and result and isinstance(block, ImportBlockTransformation)
                  and self._ends_with_line_continuation(result[-1]): text = "\n"
        result.append(text)
    return FileText.concatenate(result)
    _ends_with_line_continuation(text):  joined.endswith("\\\n") and no COMMENT token ends on the last line
    `prev` = the previous block's text ends with a line that is really continued  *)
Fixpoint pp_from (c : cfg) (prev : bool) (bs : list block) : res str :=
  match bs with
  | [] => Ok []
  | b :: r => match pp_block c b with
              | Err e => Err e
              | Ok t0 =>
                  let t := if f45 c && prev && is_nil t0 && (match b with Imps _ => true | Other _ _ => false end)
                           then [c_nl] else t0 in
                  match pp_from c (ends_bsnl t && NC t) r with
                  | Err e => Err e
                  | Ok t' => Ok (t ++ t')
                  end
              end
  end.
Definition pp (c : cfg) (bs : list block) : res str := pp_from c false bs.
End WithRender.

(* ---------------------------------------------------------------------------------------------- *)
(*  find_import_block_by_lineno:
      results = [b for b in self.import_blocks if b.input.startpos.lineno <= lineno <= b.input.endpos.lineno]
      [F23]  ... <= last_lineno(b.input)  where last_lineno = endpos.lineno - 1 if endpos.colno == 1 and
             endpos.lineno > startpos.lineno else endpos.lineno
      if len(results) == 0: raise LineNumberNotFoundError; if len(results) > 1: raise LineNumberAmbiguousError *)
Definition true_last (b : iblock) : nat :=
  if ib_endnl b && (ib_start b <? ib_end b) then pred (ib_end b) else ib_end b.

Definition last_lineno (c : cfg) (b : iblock) : nat :=
  if f23 c then true_last b else ib_end b.

Definition covers (c : cfg) (l : nat) (b : iblock) : bool :=
  (ib_start b <=? l) && (l <=? last_lineno c b).

Inductive found := NotFound | Found (b : iblock) | Ambiguous.

Definition find_block (c : cfg) (bs : list block) (l : nat) : found :=
  match filter (covers c l) (iblocks bs) with
  | [] => NotFound
  | [b] => Found b
  | _ => Ambiguous
  end.

(*  remove_import(imp, lineno):
      block = self.find_import_block_by_lineno(lineno)
      try: imports = block.importset.by_import_as[imp.import_as]
      except KeyError: raise NoSuchImportError
      if len(imports) > 1: raise Exception("Multiple imports to remove")
      block.importset = block.importset.without_imports([imports[0]])
    together with its call site in fix_unused_and_missing_imports:
      except NoSuchImportError: logger.error(...)      except LineNumberNotFoundError: logger.debug(...)  *)
Definition remove_import (c : cfg) (bs : list block) (u : nat * import) : res (list block) :=
  match find_block c bs (fst u) with
  | NotFound => Ok bs
  | Ambiguous => Err ELineAmbiguous
  | Found b =>
      match by_as (ib_imps b) (i_as (snd u)) with
      | [] => Ok bs
      | [j] => Ok (upd bs (ib_id b) (fun b' => set_imps b' (without_one (ib_imps b') j)))
      | _ => Err EMultipleRemove
      end
  end.

(*  for lineno, imp in unused_imports: ... transformer.remove_import(imp, lineno) ...  *)
Fixpoint remove_all (c : cfg) (bs : list block) (us : list (nat * import)) : res (list block) :=
  match us with
  | [] => Ok bs
  | u :: r => match remove_import c bs u with
              | Err e => Err e
              | Ok bs' => remove_all c bs' r
              end
  end.

(* ---------------------------------------------------------------------------------------------- *)
(*  select_import_block_by_closest_prefix_match(imp, max_lineno):
      annotated_blocks = [ ((max([0]+[len(imp.prefix_match(oimp)) for oimp in block.importset.imports]),
                             block.input.endpos.lineno), block)
                           for block in self.import_blocks if block.input.endpos.lineno <= max_lineno+1 ]
      if not annotated_blocks: raise NoImportBlockError()
      annotated_blocks.sort()              [F35: .sort(key=lambda ab: ab[0])]
      if imp.split.module_name == '__future__':
          if not annotated_blocks[-1][0][0] > 0: raise NoImportBlockError
          [F46:  if not any(oimp.split.module_name == '__future__' for oimp in annotated_blocks[-1][1].importset.imports)]
      return annotated_blocks[-1][1]
    max_lineno = Inf is None here.
    [F8b]  the filter becomes: the block's last line is before max_lineno, or it is max_lineno and the block
           starts on an earlier line or at column 1 (nothing of that line is in front of it). *)
Definition cand_ok (c : cfg) (L : option nat) (b : iblock) : bool :=
  match L with
  | None => true
  | Some l =>
      if f8b c then (true_last b <? l) || ((true_last b =? l) && ((ib_start b <? l) || ib_col1 b))
      else ib_end b <=? l + 1
  end.

Definition key_of (imp : import) (b : iblock) : nat * nat := (prefix_max imp (ib_imps b), ib_end b).
Definition key_le (a b : nat * nat) : bool :=
  (fst a <? fst b) || ((fst a =? fst b) && (snd a <=? snd b)).
Definition key_eqb (a b : nat * nat) : bool := (fst a =? fst b) && (snd a =? snd b).

(* last element of the stable sort by key = the last maximal element in list order *)
Fixpoint best_of (imp : import) (l : list iblock) (cur : option iblock) : option iblock :=
  match l with
  | [] => cur
  | b :: r => best_of imp r (match cur with
                             | None => Some b
                             | Some c0 => if key_le (key_of imp c0) (key_of imp b) then Some b else Some c0
                             end)
  end.

(* list.sort() on (key, block) tuples compares the block objects as soon as two keys are equal: TypeError.
   Any comparison sort compares every pair that ends up adjacent, so two equal keys always meet. *)
Fixpoint has_tie (imp : import) (l : list iblock) : bool :=
  match l with
  | [] => false
  | b :: r => existsb (fun b' => key_eqb (key_of imp b) (key_of imp b')) r || has_tie imp r
  end.

Definition select_block (c : cfg) (bs : list block) (imp : import) (L : option nat) : res (option iblock) :=
  let cs := filter (cand_ok c L) (iblocks bs) in
  if negb (f35 c) && has_tie imp cs then Err ESortTie
  else match best_of imp cs None with
       | None => Ok None
       | Some b => if is_future imp && negb (if f46 c then existsb is_future (ib_imps b) else 0 <? fst (key_of imp b))
                   then Ok None else Ok (Some b)
       end.

(* ---------------------------------------------------------------------------------------------- *)
(*  insert_new_blocks_after_comments([block, sepblock]):
      if isinstance(self.blocks[0], SourceToSourceImportBlockTransformation): self.blocks[0:0] = blocks; return
      statements = self.blocks[0].input.statements
      for idx, statement in enumerate(statements):
          if not statement.is_comment_or_blank_or_string_literal:         [F9: a second string literal is not prologue]
                                                                           [F40: a bytes literal is not prologue]
              if idx == 0: self.blocks[0:0] = blocks
              else: self.blocks[:1] = [Transformation(concatenate(statements[:idx]))] + blocks + [Transformation(concatenate(statements[idx:]))]
              break
      else: [F38: text = self.blocks[0].input.text.joined
                  if text and not text.endswith("\n"): blocks = [SourceToSourceTransformation("")] + blocks]
            self.blocks[1:1] = blocks                                                                 *)
Fixpoint first_nonprologue (c : cfg) (ss : list stmt) (seen_string : bool) : option nat :=
  match ss with
  | [] => None
  | s :: r =>
      match s_kind s with
      | KBlank => option_map S (first_nonprologue c r seen_string)
      | KString => if f9 c && seen_string then Some 0
                   else option_map S (first_nonprologue c r true)
      | KBytes => if f40 c || (f9 c && seen_string) then Some 0
                  else option_map S (first_nonprologue c r true)
      | KCode => Some 0
      end
  end.

(*  insert_new_import_block:  block = ImportBlockTransformation("")  (input "\n": (1,1)-(2,1), empty import set)
                              sepblock = Transformation(""); sepblock._output = PythonBlock("\n")
                              self.insert_new_blocks_after_comments([block, sepblock]); self.import_blocks.insert(0, block)  *)
Definition fresh_id (bs : list block) : nat := S (list_max (map ib_id (iblocks bs))).
Definition new_ib (id : nat) : iblock := mkIB id 1 true 2 true [].
Definition sep_block : block := Other [mkStmt KBlank [c_nl]] (Some [c_nl]).
(*  SourceToSourceTransformation("")  : input "\n", printed as is  *)
Definition nl_block : block := Other [mkStmt KBlank [c_nl]] None.
Definition unterminated (ss : list stmt) : bool :=
  negb (is_nil (stmts_text ss)) && negb (ends_nl (stmts_text ss)).

Definition insert_new (c : cfg) (bs : list block) : res (list block * iblock) :=
  let nb := new_ib (fresh_id bs) in
  match bs with
  | [] => Err ENoBlocks
  | Imps _ :: _ => Ok (Imps nb :: sep_block :: bs, nb)
  | Other ss o :: rest =>
      match first_nonprologue c ss false with
      | None => Ok (Other ss o :: (if f38 c && unterminated ss then [nl_block] else [])
                               ++ Imps nb :: sep_block :: rest, nb)
      | Some 0 => Ok (Imps nb :: sep_block :: bs, nb)
      | Some idx => Ok (Other (firstn idx ss) None :: Imps nb :: sep_block :: Other (skipn idx ss) None :: rest, nb)
      end
  end.

(*  add_import(imp, lineno):
      try: block = self.select_import_block_by_closest_prefix_match(imp, lineno)
      except NoImportBlockError: block = self.insert_new_import_block()
      if imp in block.importset.imports: raise ImportAlreadyExistsError(imp)
      [F24]  if imp.import_as != "*" and imp.import_as in block.importset.by_import_as: raise ImportConflictError(imp)
      block.importset = block.importset.with_imports([imp])                                        *)
Inductive outcome :=
| Added (id : nat) (is_new : bool)     (* joined block id; is_new = the block was created by this call *)
| Exists
| Refused.

(* the first three lines of add_import: the chosen block, the block list (changed when a block was created),
   whether the block is new *)
Definition choose_block (c : cfg) (bs : list block) (imp : import) (L : option nat)
  : res (list block * iblock * bool) :=
  match select_block c bs imp L with
  | Err e => Err e
  | Ok (Some b) => Ok (bs, b, false)
  | Ok None => match insert_new c bs with
               | Err e => Err e
               | Ok (bs', nb) => Ok (bs', nb, true)
               end
  end.

Definition add_import (c : cfg) (bs : list block) (imp : import) (L : option nat) : res (list block * outcome) :=
  match choose_block c bs imp L with
  | Err e => Err e
  | Ok (bs1, b, isnew) =>
      if imp_in imp (ib_imps b) then Ok (bs1, Exists)
      else if f24 c && negb (is_star imp) && negb (is_nil (by_as (ib_imps b) (i_as imp))) then Ok (bs1, Refused)
      else Ok (upd bs1 (ib_id b) (fun b' => set_imps b' (with_one (ib_imps b') imp)), Added (ib_id b) isnew)
  end.

(* ---------------------------------------------------------------------------------------------- *)
(*  missing_imports.sort(key=lambda k: (k[1], k[0]))   - DottedIdentifier compares by its name string   *)
Definition mkey_le (a b : nat * str) : bool :=
  str_ltb (snd a) (snd b) || (str_eqb (snd a) (snd b) && (fst a <=? fst b)).

Fixpoint insert_sorted (x : nat * str) (l : list (nat * str)) : list (nat * str) :=
  match l with
  | [] => [x]
  | y :: r => if mkey_le y x then y :: insert_sorted x r else x :: l
  end.
(* stable: fold from the right so that equal keys keep their order *)
Definition sort_missing (l : list (nat * str)) : list (nat * str) :=
  fold_right insert_sorted [] l.

(*  ident.parts[0]  *)
Definition head_name (n : str) : str := hd [] (split_on c_dot n).

(*  [F8]  first_use[name] = min(lineno for lineno, ident in missing_imports if ident.parts[0] == name)  *)
Definition first_use (ms : list (nat * str)) (h : str) (dflt : nat) : nat :=
  fold_left (fun m e => if str_eqb (head_name (snd e)) h then Nat.min m (fst e) else m) ms dflt.

(* one line of the log: the import, the line it had to precede, what add_import did *)
Definition logline := (import * option nat * outcome)%type.

Section WithDB.
(*  db.known_imports.by_import_as.get(name, ())  *)
Variable known : str -> list import.

(*  for lineno, ident in missing_imports:
        import_as = ident.parts[0]
        try: imports = known[import_as]
        except KeyError: logger.warning(...); continue
        if len(imports) != 1: logger.error("don't know which of %r to use"); continue
        imp_to_add = imports[0]
        if imp_to_add in added_imports: continue
        transformer.add_import(imp_to_add, lineno)     [F8: first_use[import_as]] [F24/F37: conflict / exists: continue]
        added_imports.add(imp_to_add)                                                               *)
Fixpoint add_missing_loop (c : cfg) (all : list (nat * str)) (ms : list (nat * str))
         (bs : list block) (added : list import) (log : list logline) : res (list block * list logline) :=
  match ms with
  | [] => Ok (bs, log)
  | (lineno, ident) :: r =>
      let n := head_name ident in
      match known n with
      | [cand] =>
          if imp_in cand added then add_missing_loop c all r bs added log
          else
            let L := if f8 c then first_use all n lineno else lineno in
            match add_import c bs cand (Some L) with
            | Err e => Err e
            | Ok (bs', Exists) =>
                if f37 c then add_missing_loop c all r bs' added (log ++ [(cand, Some L, Exists)])
                else Err EAlreadyExists
            | Ok (bs', Refused) => add_missing_loop c all r bs' added (log ++ [(cand, Some L, Refused)])
            | Ok (bs', o) => add_missing_loop c all r bs' (cand :: added) (log ++ [(cand, Some L, o)])
            end
      | _ => add_missing_loop c all r bs added log
      end
  end.
End WithDB.

(*  for imp in db.mandatory_imports.imports:
        try: transformer.add_import(imp)
        except ImportAlreadyExistsError: pass          [F24: except ImportConflictError: logger.error(...)]  *)
Fixpoint add_mandatory_loop (c : cfg) (mand : list import) (bs : list block) (log : list logline)
  : res (list block * list logline) :=
  match mand with
  | [] => Ok (bs, log)
  | imp :: r => match add_import c bs imp None with
                | Err e => Err e
                | Ok (bs', o) => add_mandatory_loop c r bs' (log ++ [(imp, None, o)])
                end
  end.

Record flags := mkFlags { add_missing : bool; remove_unused : bool; add_mandatory : bool }.

(*  fix_unused_and_missing_imports after the first pass: transformer = ...(block1); scan; remove; add; add mandatory *)
Definition fix_blocks (c : cfg) (fl : flags) (known : str -> list import) (mand : list import)
           (bs : list block) (ms : list (nat * str)) (us : list (nat * import))
  : res (list block * list logline) :=
  match (if remove_unused fl then remove_all c bs us else Ok bs) with
  | Err e => Err e
  | Ok bs1 =>
      match (if add_missing fl then
               let sorted := sort_missing ms in add_missing_loop known c sorted sorted bs1 [] []
             else Ok (bs1, [])) with
      | Err e => Err e
      | Ok (bs2, log) =>
          if add_mandatory fl then add_mandatory_loop c mand bs2 log else Ok (bs2, log)
      end
  end.

(*  the whole tool, with CPython's statement splitter and pyflyby's scope analysis as oracles:
      _codeblock = reformat_import_statements(_codeblock, params)        (normalising first pass)
      transformer = SourceToSourceFileImportsTransformation(_codeblock)
      missing_imports, unused_imports = scan_for_import_issues(_codeblock, find_unused_imports=remove_unused, ...)
      ...; return transformer.output(params)                                                        *)
Section Tool.
Variable R : list import -> str.
Variable NC : str -> bool.
Variable parse : str -> list block.
Variable scan : str -> bool -> list (nat * str) * list (nat * import).

Definition tidy (c : cfg) (fl : flags) (known : str -> list import) (mand : list import)
           (bs0 : list block) : res str :=
  match pp R NC c bs0 with
  | Err e => Err e
  | Ok t1 =>
      let bs1 := parse t1 in
      let '(ms, us) := scan t1 (remove_unused fl) in
      match fix_blocks c fl known mand bs1 ms us with
      | Err e => Err e
      | Ok (bs2, _) => pp R NC c bs2
      end
  end.

(*  reformat_import_statements: transformer.output(params)  *)
Definition reformat (c : cfg) (bs0 : list block) : res str := pp R NC c bs0.
End Tool.

(* ---------------------------------------------------------------------------------------------- *)
(* the three other rewriters: their per-block edit, the environment's answers as arguments           *)

(*  replace_star_imports: imports = [imp for s in block.input.statements for imp in ImportStatement(s).imports]
      for imp in imports: if imp.split.member_name != "*": keep; relative: keep; exports fail / empty: keep;
                          else new_imports.extend(exports)
      block.importset = ImportSet(new_imports, ignore_shadowed=True)
    `ordered` = the imports of the block's statements in source order; `exports imp` = Some l when the star
    import is to be replaced by l (non-relative, importable, non-empty export list) *)
Definition star_block (exports : import -> option (list import)) (ordered : list import) : list import :=
  ignore_shadowed (flat_map (fun imp => if member_is_star imp
                                         then match exports imp with Some l => l | None => [imp] end
                                         else [imp]) ordered).

Definition replace_star (exports : import -> option (list import)) (ordered : nat -> list import)
           (bs : list block) : list block :=
  map (fun b => match b with
                | Imps ib => Imps (set_imps ib (star_block exports (ordered (ib_id ib))))
                | _ => b
                end) bs.

(*  remove_broken_imports: block.importset = block.importset.without_imports(broken)  *)
Definition remove_broken (broken : import -> bool) (bs : list block) : list block :=
  map (fun b => match b with
                | Imps ib => Imps (set_imps ib (fold_left without_one (filter broken (ib_imps ib)) (ib_imps ib)))
                | _ => b
                end) bs.

(*  transform_imports: import blocks: ImportSet([transform_import(imp) for imp in importset.imports], ignore_shadowed=True)
                       other blocks:  block._output = transform_block(block.input)   (re.sub per map entry: C18)  *)
Definition transform (tr : import -> import) (tb : str -> str) (bs : list block) : list block :=
  map (fun b => match b with
                | Imps ib => Imps (set_imps ib (ignore_shadowed (map tr (ib_imps ib))))
                | Other ss _ => Other ss (Some (tb (stmts_text ss)))
                end) bs.

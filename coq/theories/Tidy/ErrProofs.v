(* C03 on abstract blocks: which internal errors are unreachable (F23, F24, F35, F37), what is printed
   (no gluing: F28, F38), where a __future__ import can go (F9). *)
From Coq Require Import NArith List Bool Arith Lia ZifyBool.
From Verif Require Import Base.Chars Base.StrX Base.StrXProofs Tidy.Blocks Tidy.Fix Tidy.FixProofs.
Import ListNotations.

(* ---------------------------------------------------------------------------------------------- *)
(* F23: after the normalising first pass the import blocks end with a newline and do not overlap    *)

Fixpoint ok_seq (l : list iblock) : Prop :=
  match l with
  | [] => True
  | b :: r => ib_start b < ib_end b /\ ib_endnl b = true /\ Forall (fun b' => ib_end b <= ib_start b') r /\ ok_seq r
  end.

Lemma filter_covers_le1 c x l : f23 c = true -> ok_seq l -> length (filter (covers c x) l) <= 1.
Proof.
  intros Hc. induction l as [|b r IH]; intros Hok; cbn [filter]; [cbn; lia|].
  destruct Hok as [H1 [H2 [H3 H4]]].
  destruct (covers c x b) eqn:E; [|apply IH; exact H4].
  assert (filter (covers c x) r = []) as Hnil.
  { apply filter_nil_iff. intros b' Hb'. rewrite Forall_forall in H3. specialize (H3 b' Hb').
    unfold covers, last_lineno, true_last in *. rewrite Hc, H2 in E.
    assert ((ib_start b <? ib_end b) = true) as Hlt by (apply Nat.ltb_lt; exact H1).
    rewrite Hlt in E. cbn in E. apply andb_true_iff in E. destruct E as [_ E]. apply Nat.leb_le in E.
    apply andb_false_iff. left. apply Nat.leb_gt. lia. }
  rewrite Hnil. cbn. lia.
Qed.

Theorem find_block_not_ambiguous c bs l :
  f23 c = true -> ok_seq (iblocks bs) -> find_block c bs l <> Ambiguous.
Proof.
  intros Hc Hok. unfold find_block. pose proof (filter_covers_le1 c l _ Hc Hok) as Hlen.
  destruct (filter (covers c l) (iblocks bs)) as [|b [|b2 r]]; try discriminate. cbn in Hlen. lia.
Qed.

Lemma ok_seq_pos l l' : Forall2 (fun b b' => pos_of b' = pos_of b) l l' -> ok_seq l -> ok_seq l'.
Proof.
  intros H. induction H as [|a b l l' Hab H IH]; intros Hok; [exact I|].
  destruct Hok as [H1 [H2 [H3 H4]]]. inversion Hab as [[P1 P2 P3 P4 P5]].
  cbn [ok_seq]. rewrite P2, P4, P5. repeat split; auto.
  clear - H H3. induction H as [|x y l l' Hxy H IH]; [constructor|].
  inversion H3; subst. inversion Hxy as [[Q1 Q2 Q3 Q4 Q5]]. constructor; [rewrite Q2; assumption|auto].
Qed.

Lemma Forall2_shrink_pos l l' : Forall2 shrink l l' -> Forall2 (fun b b' => pos_of b' = pos_of b) l l'.
Proof. intros H. induction H as [|a b l l' [Hp _] H IH]; constructor; auto. Qed.

(* ---------------------------------------------------------------------------------------------- *)
(* F24: import sets in which no local name (other than "*") is bound twice                          *)

Definition unique_as (l : list import) : Prop := forall n, n <> [c_star] -> length (by_as l n) <= 1.
Definition blocks_ok (bs : list block) : Prop := Forall (fun b => unique_as (ib_imps b)) (iblocks bs).

Lemma unique_as_not_conflicting l : unique_as l -> conflicting l = false.
Proof.
  intros H. unfold conflicting. destruct (existsb _ l) eqn:E; [|reflexivity]. exfalso.
  apply existsb_exists in E. destruct E as [i [Hi E]]. apply andb_true_iff in E. destruct E as [E1 E2].
  assert (i_as i <> [c_star]) as Hne.
  { intros Heq. unfold is_star in E1. rewrite Heq, str_eqb_refl in E1. discriminate. }
  specialize (H _ Hne). apply Nat.ltb_lt in E2. lia.
Qed.

Lemma not_conflicting_unique_as l : conflicting l = false -> unique_as l.
Proof.
  intros H n Hn. destruct (by_as l n) as [|i r] eqn:B; [cbn; lia|].
  assert (In i (by_as l n)) as Hi by (rewrite B; left; reflexivity).
  unfold by_as in Hi. apply filter_In in Hi. destruct Hi as [Hi Ha]. apply str_eqb_eq in Ha.
  unfold conflicting in H. assert (forall x, In x l -> (negb (is_star x) && (1 <? length (by_as l (i_as x)))) = false) as Hall.
  { intros x Hx. destruct (negb (is_star x) && (1 <? length (by_as l (i_as x)))) eqn:E; [|reflexivity].
    assert (existsb (fun i0 => negb (is_star i0) && (1 <? length (by_as l (i_as i0)))) l = true) as Hex
      by (apply existsb_exists; exists x; split; assumption).
    rewrite Hex in H. discriminate. }
  specialize (Hall i Hi). rewrite Ha, B in Hall.
  assert (is_star i = false) as Hs.
  { unfold is_star. rewrite Ha. destruct (str_eqb n [c_star]) eqn:E; [|reflexivity]. apply str_eqb_eq in E. contradiction. }
  rewrite Hs in Hall. cbn [negb andb] in Hall. apply Nat.ltb_ge in Hall. exact Hall.
Qed.

(* a decision procedure for `inv`, for concrete witnesses *)
Fixpoint nodupb (l : list nat) : bool :=
  match l with [] => true | x :: r => negb (existsb (Nat.eqb x) r) && nodupb r end.
Definition inv_b (bs : list block) : bool :=
  negb (is_nil bs) && forallb (fun b => negb (conflicting (ib_imps b))) (iblocks bs) && nodupb (map ib_id (iblocks bs)).

Lemma nodupb_NoDup l : nodupb l = true -> NoDup l.
Proof.
  induction l as [|x r IH]; intros H; [constructor|]. cbn in H. apply andb_true_iff in H. destruct H as [H1 H2].
  constructor; [|apply IH; exact H2]. intros Hin. apply negb_true_iff in H1.
  assert (existsb (Nat.eqb x) r = true) as E by (apply existsb_exists; exists x; split; [exact Hin|apply Nat.eqb_refl]).
  congruence.
Qed.

Lemma inv_b_inv bs : inv_b bs = true -> bs <> [] /\ Forall (fun b => unique_as (ib_imps b)) (iblocks bs) /\ NoDup (map ib_id (iblocks bs)).
Proof.
  unfold inv_b. intros H. apply andb_true_iff in H. destruct H as [H H3]. apply andb_true_iff in H. destruct H as [H1 H2].
  split; [destruct bs; [discriminate|discriminate]|]. split; [|apply nodupb_NoDup; exact H3].
  apply Forall_forall. intros b Hb. rewrite forallb_forall in H2. specialize (H2 b Hb).
  apply not_conflicting_unique_as. apply negb_true_iff. exact H2.
Qed.

Lemma filter_filter_length {A} (p q : A -> bool) l : length (filter q (filter p l)) <= length (filter q l).
Proof.
  induction l as [|a l IH]; cbn [filter]; [lia|].
  destruct (p a); cbn [filter]; destruct (q a); cbn [length]; lia.
Qed.

Lemma unique_as_without l j : unique_as l -> unique_as (without_one l j).
Proof.
  intros H n Hn. specialize (H n Hn). unfold by_as, without_one in *.
  eapply Nat.le_trans; [apply filter_filter_length|exact H].
Qed.

Lemma by_as_app l l' n : by_as (l ++ l') n = by_as l n ++ by_as l' n.
Proof. unfold by_as. apply filter_app. Qed.

Lemma unique_as_with l imp :
  unique_as l -> is_star imp = true \/ by_as l (i_as imp) = [] -> unique_as (with_one l imp).
Proof.
  intros H Hc. unfold with_one. destruct (imp_in imp l); [exact H|].
  intros n Hn. rewrite by_as_app, app_length. cbn [by_as filter].
  destruct (str_eqb (i_as imp) n) eqn:E; cbn [length]; [|specialize (H n Hn); lia].
  apply str_eqb_eq in E. destruct Hc as [Hc|Hc].
  - unfold is_star in Hc. apply str_eqb_eq in Hc. congruence.
  - rewrite E in Hc. rewrite Hc. cbn. lia.
Qed.

Lemma unique_as_nil : unique_as [].
Proof. intros n _. cbn. lia. Qed.

Lemma blocks_ok_upd bs id f :
  (forall b, unique_as (ib_imps b) -> unique_as (ib_imps (f b))) -> blocks_ok bs -> blocks_ok (upd bs id f).
Proof.
  intros Hf H. unfold blocks_ok in *. rewrite iblocks_upd. apply Forall_forall.
  intros x Hx. apply in_map_iff in Hx. destruct Hx as [y [E Hy]]. rewrite Forall_forall in H.
  subst x. unfold upd1. destruct (ib_id y =? id); [apply Hf|]; apply H; exact Hy.
Qed.

(* a multiple match in remove_import needs a conflict (or the local name "*") *)
Lemma by_as_le1 l n : unique_as l -> n <> [c_star] ->
  by_as l n = [] \/ exists j, by_as l n = [j].
Proof.
  intros H Hn. specialize (H n Hn). destruct (by_as l n) as [|j [|k r]]; [left; reflexivity|right; eauto|cbn in H; lia].
Qed.

Lemma in_iblocks_ok bs b : blocks_ok bs -> In b (iblocks bs) -> unique_as (ib_imps b).
Proof. unfold blocks_ok. rewrite Forall_forall. auto. Qed.

Lemma remove_import_ok c bs u :
  f23 c = true -> ok_seq (iblocks bs) -> blocks_ok bs -> is_star (snd u) = false ->
  exists bs', remove_import c bs u = Ok bs' /\ ok_seq (iblocks bs') /\ blocks_ok bs' /\ length bs' = length bs.
Proof.
  intros Hc Hok Hb Hs. pose proof (find_block_not_ambiguous c bs (fst u) Hc Hok) as Hna.
  unfold remove_import. unfold find_block in *.
  destruct (filter (covers c (fst u)) (iblocks bs)) as [|b [|b2 r]] eqn:F.
  - exists bs. auto.
  - assert (In b (iblocks bs)) as Hin.
    { assert (In b (filter (covers c (fst u)) (iblocks bs))) as H0 by (rewrite F; left; reflexivity).
      apply filter_In in H0. tauto. }
    assert (i_as (snd u) <> [c_star]) as Hne.
    { intros E. unfold is_star in Hs. rewrite E, str_eqb_refl in Hs. discriminate. }
    destruct (by_as_le1 _ _ (in_iblocks_ok _ _ Hb Hin) Hne) as [B|[j B]]; rewrite B.
    + exists bs. auto.
    + eexists. split; [reflexivity|]. split; [|split].
      * eapply ok_seq_pos; [|exact Hok]. rewrite iblocks_upd. clear.
        induction (iblocks bs) as [|x l IH]; cbn [map]; constructor; [|exact IH].
        unfold upd1. destruct (ib_id x =? ib_id b); reflexivity.
      * apply blocks_ok_upd; [|exact Hb]. intros x Hx. cbn. apply unique_as_without. exact Hx.
      * unfold upd. apply map_length.
  - exfalso. apply Hna. reflexivity.
Qed.

Lemma remove_all_ok c us : forall bs,
  f23 c = true -> ok_seq (iblocks bs) -> blocks_ok bs -> Forall (fun u => is_star (snd u) = false) us ->
  exists bs', remove_all c bs us = Ok bs' /\ blocks_ok bs' /\ length bs' = length bs.
Proof.
  induction us as [|u us IH]; intros bs Hc Hok Hb Hs; cbn [remove_all].
  - exists bs. auto.
  - inversion Hs; subst.
    destruct (remove_import_ok c bs u Hc Hok Hb) as [bs1 [E [Hok1 [Hb1 Hl1]]]]; [assumption|].
    rewrite E. destruct (IH bs1 Hc Hok1 Hb1) as [bs' [E' [Hb' Hl']]]; [assumption|].
    exists bs'. rewrite Hl', Hl1. auto.
Qed.

(* adding *)
Lemma select_block_no_error c bs imp L : f35 c = true -> exists r, select_block c bs imp L = Ok r.
Proof.
  intros Hc. unfold select_block. rewrite Hc. cbn [negb andb].
  destruct (best_of imp _ None) as [b|]; [|eauto].
  destruct (is_future imp && negb (if f46 c then existsb is_future (ib_imps b) else 0 <? fst (key_of imp b))); eauto.
Qed.

Lemma insert_new_no_error c bs : bs <> [] -> exists r, insert_new c bs = Ok r.
Proof.
  intros H. unfold insert_new. destruct bs as [|[ss o|ib] rest]; [congruence| |eauto].
  destruct (first_nonprologue c ss false) as [[|k]|]; eauto.
Qed.

Lemma insert_new_length c bs bs' nb : insert_new c bs = Ok (bs', nb) -> bs' <> [].
Proof.
  intros H. apply insert_new_shape in H. destruct H as [_ [pro [rest [E _]]]]. subst bs'.
  destruct pro; discriminate.
Qed.

Lemma upd_nonempty bs id f : bs <> [] -> upd bs id f <> [].
Proof. destruct bs; [congruence|]. cbn. discriminate. Qed.

(* identities of the import blocks are distinct (Python object identity) *)
Definition ids_ok (bs : list block) : Prop := NoDup (map ib_id (iblocks bs)).

Lemma nodup_map_inj {A B} (f : A -> B) l x y : NoDup (map f l) -> In x l -> In y l -> f x = f y -> x = y.
Proof.
  induction l as [|a l IH]; intros Hnd Hx Hy E; [destruct Hx|].
  cbn in Hnd. inversion Hnd as [|? ? Hnin Hnd']; subst.
  destruct Hx as [Hx|Hx], Hy as [Hy|Hy]; subst; auto.
  - exfalso. apply Hnin. rewrite E. apply in_map. exact Hy.
  - exfalso. apply Hnin. rewrite <- E. apply in_map. exact Hx.
Qed.

Lemma ids_upd bs id f : (forall b, ib_id (f b) = ib_id b) -> map ib_id (iblocks (upd bs id f)) = map ib_id (iblocks bs).
Proof.
  intros Hf. rewrite iblocks_upd, map_map. apply map_ext. intros x. unfold upd1.
  destruct (ib_id x =? id); [apply Hf|reflexivity].
Qed.

Lemma blocks_ok_upd_at bs b f :
  ids_ok bs -> In b (iblocks bs) -> blocks_ok bs -> unique_as (ib_imps (f b)) -> blocks_ok (upd bs (ib_id b) f).
Proof.
  intros Hid Hin H Hf. unfold blocks_ok in *. rewrite iblocks_upd. apply Forall_forall.
  intros x Hx. apply in_map_iff in Hx. destruct Hx as [y [E Hy]]. rewrite Forall_forall in H.
  subst x. unfold upd1. destruct (ib_id y =? ib_id b) eqn:Ei; [|apply H; exact Hy].
  apply Nat.eqb_eq in Ei. assert (y = b) by (eapply nodup_map_inj; eauto). subst y. exact Hf.
Qed.

Lemma fresh_id_fresh bs : ~ In (fresh_id bs) (map ib_id (iblocks bs)).
Proof.
  unfold fresh_id. intros H.
  assert (Forall (fun k => k <= list_max (map ib_id (iblocks bs))) (map ib_id (iblocks bs))) as Hle
    by (apply list_max_le; lia).
  rewrite Forall_forall in Hle. specialize (Hle _ H). lia.
Qed.

Definition inv (bs : list block) : Prop := bs <> [] /\ blocks_ok bs /\ ids_ok bs.

Lemma add_import_ok c bs imp L :
  f24 c = true -> f35 c = true -> inv bs ->
  exists bs' o, add_import c bs imp L = Ok (bs', o) /\ inv bs'.
Proof.
  intros H24 H35 [Hne [Hb Hid]]. unfold add_import, choose_block.
  destruct (select_block_no_error c bs imp L H35) as [sel Es]. rewrite Es.
  assert (exists bs1 b isnew, (match sel with
            | Some b => Ok (bs, b, false)
            | None => match insert_new c bs with Err e => Err e | Ok (bs', nb) => Ok (bs', nb, true) end
            end) = Ok (bs1, b, isnew) /\ inv bs1 /\ In b (iblocks bs1)) as Hch.
  { destruct sel as [b|].
    - exists bs, b, false. apply select_block_some in Es. unfold inv. tauto.
    - destruct (insert_new_no_error c bs Hne) as [[bs' nb] Ei]. rewrite Ei.
      exists bs', nb, true. split; [reflexivity|]. pose proof (insert_new_length _ _ _ _ Ei) as Hl.
      pose proof (insert_new_shape _ _ _ _ Ei) as [Hnb _].
      apply insert_new_iblocks in Ei. destruct Ei as [E1 E2]. unfold inv, blocks_ok, ids_ok. rewrite E1.
      split; [|left; reflexivity]. split; [exact Hl|]. split.
      + constructor; [rewrite E2; apply unique_as_nil|exact Hb].
      + cbn [map]. constructor; [|exact Hid]. subst nb. cbn [new_ib ib_id]. apply fresh_id_fresh. }
  destruct Hch as [bs1 [b [isnew [E [[Hne1 [Hb1 Hid1]] Hin]]]]]. rewrite E.
  destruct (imp_in imp (ib_imps b)); [eexists; eexists; split; [reflexivity|split; auto]|].
  rewrite H24. cbn [andb].
  destruct (negb (is_star imp) && negb (is_nil (by_as (ib_imps b) (i_as imp)))) eqn:Ec;
    [eexists; eexists; split; [reflexivity|split; auto]|].
  eexists. eexists. split; [reflexivity|]. split; [apply upd_nonempty; exact Hne1|]. split.
  - apply blocks_ok_upd_at; auto. cbn. apply unique_as_with; [eapply in_iblocks_ok; eauto|].
    apply andb_false_iff in Ec. destruct Ec as [Ec|Ec].
    + left. destruct (is_star imp); [reflexivity|discriminate].
    + right. destruct (by_as (ib_imps b) (i_as imp)); [reflexivity|discriminate].
  - unfold ids_ok. rewrite ids_upd; [exact Hid1|reflexivity].
Qed.

Section KnownErr.
Variable known : str -> list import.

Lemma add_missing_loop_ok c all : f24 c = true -> f35 c = true -> f37 c = true ->
  forall ms bs added log, inv bs ->
  exists bs' log', add_missing_loop known c all ms bs added log = Ok (bs', log') /\ inv bs'.
Proof.
  intros H24 H35 H37. induction ms as [|[lineno ident] ms IH]; intros bs added log Hinv; cbn [add_missing_loop].
  - eauto.
  - destruct (known (head_name ident)) as [|cand [|]]; try (apply IH; exact Hinv).
    destruct (imp_in cand added); [apply IH; exact Hinv|].
    destruct (add_import_ok c bs cand (Some (if f8 c then first_use all (head_name ident) lineno else lineno)) H24 H35 Hinv)
      as [bs1 [o [E Hinv1]]].
    rewrite E. destruct o as [id isnew| |]; [apply IH; exact Hinv1|rewrite H37; apply IH; exact Hinv1|apply IH; exact Hinv1].
Qed.
End KnownErr.

Lemma add_mandatory_loop_ok c : f24 c = true -> f35 c = true ->
  forall mand bs log, inv bs -> exists bs' log', add_mandatory_loop c mand bs log = Ok (bs', log') /\ inv bs'.
Proof.
  intros H24 H35. induction mand as [|m mand IH]; intros bs log Hinv; cbn [add_mandatory_loop]; [eauto|].
  destruct (add_import_ok c bs m None H24 H35 Hinv) as [bs1 [o [E Hinv1]]]. rewrite E. apply IH. exact Hinv1.
Qed.

Section Print.
Variable R : list import -> str.
Variable NC : str -> bool.

Lemma pp_from_ok c : forall bs prev, blocks_ok bs -> exists t, pp_from R NC c prev bs = Ok t.
Proof.
  induction bs as [|b bs IH]; intros prev Hb; cbn [pp_from]; [eauto|].
  assert (exists t, pp_block R c b = Ok t /\ blocks_ok bs) as [t [Et Hb']].
  { destruct b as [ss [o|]|ib]; cbn [pp_block]; try (eexists; split; [reflexivity|exact Hb]).
    unfold blocks_ok in Hb. cbn in Hb. inversion Hb; subst.
    unfold pp_iblock. rewrite unique_as_not_conflicting; [|assumption]. eexists. split; [reflexivity|assumption]. }
  rewrite Et.
  match goal with |- context [pp_from R NC c ?p bs] => destruct (IH p Hb') as [t' Et'] end.
  rewrite Et'. eauto.
Qed.

Lemma pp_ok c : forall bs, blocks_ok bs -> exists t, pp R NC c bs = Ok t.
Proof. intros bs Hb. unfold pp. apply pp_from_ok. exact Hb. Qed.

(* C03 no_internal_error, on abstract blocks: with the F23 F24 F35 F37 repairs, from a block list as the
   normalising first pass leaves it (non-empty, import blocks end with a newline and do not overlap, no import set
   binds a name twice, distinct block identities) and an analysis result that reports no star import as unused,
   fix_unused_and_missing_imports reaches its end and prints - for every database, flag combination, renderer. *)
Theorem no_internal_error c fl known mand bs ms us :
  f23 c = true -> f24 c = true -> f35 c = true -> f37 c = true ->
  inv bs -> ok_seq (iblocks bs) -> Forall (fun u => is_star (snd u) = false) us ->
  exists bs' log t, fix_blocks c fl known mand bs ms us = Ok (bs', log) /\ pp R NC c bs' = Ok t.
Proof.
  intros H23 H24 H35 H37 [Hne [Hb Hid]] Hok Hus. unfold fix_blocks.
  assert (exists bs1, (if remove_unused fl then remove_all c bs us else Ok bs) = Ok bs1 /\ inv bs1) as [bs1 [E1 Hinv1]].
  { destruct (remove_unused fl); [|exists bs; unfold inv; auto].
    assert (forall us bs, ok_seq (iblocks bs) -> inv bs -> Forall (fun u => is_star (snd u) = false) us ->
                          exists bs', remove_all c bs us = Ok bs' /\ inv bs') as Hgen.
    { clear - H23. induction us as [|u us IH]; intros bs Hok [Hne [Hb Hid]] Hs; cbn [remove_all].
      - exists bs. unfold inv. auto.
      - inversion Hs; subst.
        destruct (remove_import_ok c bs u H23 Hok Hb) as [bs1 [E [Hok1 [Hb1 Hl1]]]]; [assumption|].
        rewrite E. apply IH; auto. split; [|split; [exact Hb1|]].
        + destruct bs1; [destruct bs; [congruence|discriminate]|discriminate].
        + unfold remove_import in E. destruct (find_block c bs (fst u)) as [|b|]; try discriminate.
          * inversion E; subst; exact Hid.
          * destruct (by_as (ib_imps b) (i_as (snd u))) as [|j [|]]; try discriminate.
            -- inversion E; subst; exact Hid.
            -- inversion E; subst. unfold ids_ok. rewrite ids_upd; [exact Hid|reflexivity]. }
    apply Hgen; unfold inv; auto. }
  rewrite E1. cbv zeta.
  assert (exists bs2 log2, (if add_missing fl then
            add_missing_loop known c (sort_missing ms) (sort_missing ms) bs1 [] []
          else Ok (bs1, [])) = Ok (bs2, log2) /\ inv bs2) as [bs2 [log2 [E2 Hinv2]]].
  { destruct (add_missing fl); [apply add_missing_loop_ok; assumption|eauto]. }
  rewrite E2.
  assert (exists bs3 log3, (if add_mandatory fl then add_mandatory_loop c mand bs2 log2 else Ok (bs2, log2)) = Ok (bs3, log3) /\ inv bs3)
    as [bs3 [log3 [E3 Hinv3]]].
  { destruct (add_mandatory fl); [apply add_mandatory_loop_ok; assumption|eauto]. }
  rewrite E3. destruct Hinv3 as [_ [Hb3 _]]. destruct (pp_ok c bs3 Hb3) as [t Et]. eauto.
Qed.

(* ---------------------------------------------------------------------------------------------- *)
(* no_gluing                                                                                       *)

Lemma ends_nl_app a b : ends_nl b = true -> ends_nl (a ++ b) = true.
Proof.
  intros H. induction a as [|x a IH]; [exact H|].
  cbn [app]. destruct (a ++ b) eqn:E; [destruct a; [cbn in E; subst; discriminate|discriminate]|].
  cbn [ends_nl]. exact IH.
Qed.

(* an import block that shared its first line with other code (not at column 1) and ended with a newline never
   prints the empty string, and what it prints ends with a newline - provided the renderer's non-empty outputs
   end with a newline (C11's clause; evaluated on every captured rendering) *)
Theorem import_block_keeps_line_end c b t :
  f28 c = true -> (forall l, R l = [] \/ ends_nl (R l) = true) ->
  ib_col1 b = false -> ib_endnl b = true -> pp_iblock R c b = Ok t -> ends_nl t = true.
Proof.
  intros H28 HR Hc He. unfold pp_iblock. destruct (conflicting (ib_imps b)); [discriminate|].
  rewrite H28, Hc, He. intros H; inversion H; subst t. clear H.
  destruct (HR (ib_imps b)) as [E|E].
  - rewrite E. reflexivity.
  - destruct (R (ib_imps b)); [discriminate|exact E].
Qed.

(* every import block's print-out is empty or ends with a newline *)
Theorem import_block_print_ends_nl c b t :
  (forall l, R l = [] \/ ends_nl (R l) = true) -> pp_iblock R c b = Ok t -> t = [] \/ ends_nl t = true.
Proof.
  intros HR. unfold pp_iblock. destruct (conflicting (ib_imps b)); [discriminate|].
  intros H; inversion H; subst t. clear H.
  destruct (f28 c && is_nil (R (ib_imps b)) && negb (ib_col1 b) && ib_endnl b); [right; reflexivity|apply HR].
Qed.

(* F38: when the whole first block is prologue, what is printed in front of the new import block is empty or
   ends with a newline: the new block starts a line *)
Lemma pp_other_one c ss : pp R NC c [Other ss None] = Ok (stmts_text ss ++ []).
Proof. unfold pp. cbn [pp_from pp_block]. rewrite !andb_false_r. reflexivity. Qed.

Lemma pp_other_nl c ss : pp R NC c [Other ss None; nl_block] = Ok (stmts_text ss ++ [c_nl] ++ []).
Proof. unfold pp, nl_block. cbn [pp_from pp_block]. rewrite !andb_false_r. reflexivity. Qed.

Theorem new_block_starts_a_line c ss rest bs' nb :
  f38 c = true -> first_nonprologue c ss false = None ->
  insert_new c (Other ss None :: rest) = Ok (bs', nb) ->
  exists pro t, bs' = pro ++ Imps nb :: sep_block :: rest /\ pp R NC c pro = Ok t /\ (t = [] \/ ends_nl t = true).
Proof.
  intros H38 Hf. unfold insert_new. rewrite Hf, H38. cbn [andb]. intros H; inversion H; subst. clear H.
  destruct (unterminated ss) eqn:Eu.
  - exists [Other ss None; nl_block]. eexists. split; [reflexivity|]. split; [apply pp_other_nl|].
    right. apply ends_nl_app. reflexivity.
  - exists [Other ss None]. eexists. split; [reflexivity|]. split; [apply pp_other_one|].
    rewrite app_nil_r. unfold unterminated in Eu. destruct (stmts_text ss) as [|c0 s]; [left; reflexivity|right].
    cbn [is_nil negb andb] in Eu. destruct (ends_nl (c0 :: s)); [reflexivity|discriminate].
Qed.

(* F45: an import block that continues a line ending in a backslash never prints the empty string *)
Theorem emptied_block_after_backslash c b rest t :
  f45 c = true -> pp_from R NC c true (Imps b :: rest) = Ok t -> t <> [].
Proof.
  intros H45. cbn [pp_from pp_block]. destruct (pp_iblock R c b) as [t0|]; [|discriminate].
  rewrite H45. destruct t0 as [|x t0]; cbn;
    (match goal with |- context [pp_from R NC c ?p rest] => destruct (pp_from R NC c p rest) as [s|] end);
    intros H; inversion H; discriminate.
Qed.
End Print.

(* ---------------------------------------------------------------------------------------------- *)
(* future_first                                                                                    *)

Lemma prefix_max_pos imp l : forall m,
  0 < fold_left (fun m o => Nat.max m (common_prefix_len (i_full imp) (i_full o))) l m ->
  0 < m \/ exists o, In o l /\ 0 < common_prefix_len (i_full imp) (i_full o).
Proof.
  induction l as [|x l IH]; intros m H; cbn [fold_left] in H; [left; exact H|].
  apply IH in H. destruct H as [H|[o [Ho Hp]]].
  - destruct (Nat.max_dec m (common_prefix_len (i_full imp) (i_full x))) as [E|E]; rewrite E in H.
    + left; exact H.
    + right. exists x. split; [left; reflexivity|exact H].
  - right. exists o. split; [right; exact Ho|exact Hp].
Qed.

Lemma is_future_full imp : is_future imp = true -> exists x, i_full imp = [s_future; x].
Proof.
  unfold is_future, module_of. destruct (str_eqb (i_as imp) (fullname_str imp)); [discriminate|].
  destruct (i_full imp) as [|a [|b [|c r]]]; try discriminate.
  cbn [removelast]. intros H. apply str_eqb_eq in H. subst a. eauto.
Qed.

(* a __future__ import joins only a block that already holds an import whose first component is __future__;
   otherwise select_import_block_by_closest_prefix_match gives no block and a new first block is created *)
Theorem future_joins_future_block c bs imp L b :
  is_future imp = true -> select_block c bs imp L = Ok (Some b) ->
  exists o r, In o (ib_imps b) /\ i_full o = s_future :: r.
Proof.
  intros Hf. unfold select_block.
  destruct (negb (f35 c) && has_tie imp (filter (cand_ok c L) (iblocks bs))); [discriminate|].
  destruct (best_of imp (filter (cand_ok c L) (iblocks bs)) None) as [b0|]; [|discriminate].
  rewrite Hf. cbn [andb]. destruct (f46 c).
  - destruct (existsb is_future (ib_imps b0)) eqn:E; [|discriminate].
    intros H; inversion H; subst b0. apply existsb_exists in E. destruct E as [o [Ho Hfo]].
    destruct (is_future_full _ Hfo) as [x Hx]. exists o, [x]. split; assumption.
  - destruct (0 <? fst (key_of imp b0)) eqn:E; [|discriminate].
    intros H; inversion H; subst b0. apply Nat.ltb_lt in E. cbn [key_of fst] in E. unfold prefix_max in E.
    apply prefix_max_pos in E. destruct E as [E|[o [Ho Hp]]]; [lia|].
    destruct (is_future_full _ Hf) as [x Hx]. rewrite Hx in Hp.
    exists o. destruct (i_full o) as [|y r] eqn:Eo; [cbn in Hp; lia|].
    cbn [common_prefix_len] in Hp. destruct (str_eqb s_future y) eqn:Ey; [|lia].
    apply str_eqb_eq in Ey. subst y. eauto.
Qed.

(* F46: with the repair the block a from-__future__ import joins holds a from-__future__ import (a compiler
   directive), not merely an import whose first component is __future__ *)
Theorem future_joins_from_future_block c bs imp L b :
  f46 c = true -> is_future imp = true -> select_block c bs imp L = Ok (Some b) ->
  exists o, In o (ib_imps b) /\ is_future o = true.
Proof.
  intros H46 Hf. unfold select_block.
  destruct (negb (f35 c) && has_tie imp (filter (cand_ok c L) (iblocks bs))); [discriminate|].
  destruct (best_of imp (filter (cand_ok c L) (iblocks bs)) None) as [b0|]; [|discriminate].
  rewrite Hf, H46. cbn [andb]. destruct (existsb is_future (ib_imps b0)) eqn:E; [|discriminate].
  intros H; inversion H; subst b0. apply existsb_exists in E. exact E.
Qed.

(* the statements in front of a new import block *)
Definition stmts_of (l : list block) : list stmt :=
  flat_map (fun b => match b with Other ss _ => ss | Imps _ => [] end) l.
Definition noncode (s : stmt) : Prop := s_kind s <> KCode.
Definition is_string (s : stmt) : bool := match s_kind s with KString | KBytes => true | _ => false end.
Definition is_bytes (s : stmt) : bool := match s_kind s with KBytes => true | _ => false end.
Definition n_strings (ss : list stmt) : nat := length (filter is_string ss).

Lemma first_nonprologue_spec c : forall ss seen,
  match first_nonprologue c ss seen with
  | Some k => k <= length ss /\ Forall noncode (firstn k ss) /\
              (f9 c = true -> n_strings (firstn k ss) + (if seen then 1 else 0) <= 1)
  | None => Forall noncode ss /\ (f9 c = true -> n_strings ss + (if seen then 1 else 0) <= 1)
  end.
Proof.
  induction ss as [|s ss IH]; intros seen; cbn [first_nonprologue].
  - split; [constructor|]. intros _. cbn. destruct seen; lia.
  - unfold n_strings in *. destruct (s_kind s) eqn:K.
    + specialize (IH seen). destruct (first_nonprologue c ss seen) as [k|]; cbn [option_map].
      * destruct IH as [H1 [H2 H3]]. cbn [firstn length filter]. unfold is_string at 1. rewrite K.
        split; [lia|]. split; [constructor; [unfold noncode; rewrite K; discriminate|exact H2]|exact H3].
      * destruct IH as [H2 H3]. cbn [filter]. unfold is_string at 1. rewrite K.
        split; [constructor; [unfold noncode; rewrite K; discriminate|exact H2]|exact H3].
    + destruct (f9 c && seen) eqn:E9.
      * cbn [firstn filter length]. split; [lia|]. split; [constructor|]. intros _.
        apply andb_true_iff in E9. destruct E9 as [_ E9]. rewrite E9. lia.
      * specialize (IH true). destruct (first_nonprologue c ss true) as [k|]; cbn [option_map].
        -- destruct IH as [H1 [H2 H3]]. cbn [firstn length filter]. unfold is_string at 1. rewrite K. cbn [length].
           split; [lia|]. split; [constructor; [unfold noncode; rewrite K; discriminate|exact H2]|].
           intros H9. specialize (H3 H9). rewrite H9 in E9. cbn in E9. subst seen. lia.
        -- destruct IH as [H2 H3]. cbn [filter]. unfold is_string at 1. rewrite K. cbn [length].
           split; [constructor; [unfold noncode; rewrite K; discriminate|exact H2]|].
           intros H9. specialize (H3 H9). rewrite H9 in E9. cbn in E9. subst seen. lia.
    + destruct (f40 c || f9 c && seen) eqn:E9.
      * cbn [firstn filter length]. split; [lia|]. split; [constructor|]. intros _. destruct seen; lia.
      * specialize (IH true). destruct (first_nonprologue c ss true) as [k|]; cbn [option_map].
        -- destruct IH as [H1 [H2 H3]]. cbn [firstn length filter]. unfold is_string at 1. rewrite K. cbn [length].
           split; [lia|]. split; [constructor; [unfold noncode; rewrite K; discriminate|exact H2]|].
           intros H9. specialize (H3 H9). rewrite H9 in E9. apply orb_false_iff in E9. destruct E9 as [_ E9]. cbn in E9. subst seen. lia.
        -- destruct IH as [H2 H3]. cbn [filter]. unfold is_string at 1. rewrite K. cbn [length].
           split; [constructor; [unfold noncode; rewrite K; discriminate|exact H2]|].
           intros H9. specialize (H3 H9). rewrite H9 in E9. apply orb_false_iff in E9. destruct E9 as [_ E9]. cbn in E9. subst seen. lia.
    + cbn [firstn filter length]. split; [lia|]. split; [constructor|]. intros _. destruct seen; cbn; lia.
Qed.

(* F9: everything in front of the new import block is comment / blank / string-literal statements, and with the
   repair at most ONE string-literal statement (the docstring): a __future__ import put there stays legal *)
Theorem new_block_after_prologue c bs bs' nb :
  insert_new c bs = Ok (bs', nb) ->
  exists pro rest, bs' = pro ++ Imps nb :: sep_block :: rest /\ iblocks pro = [] /\
    Forall noncode (stmts_of pro) /\ (f9 c = true -> n_strings (stmts_of pro) <= 1).
Proof.
  unfold insert_new. destruct bs as [|b0 rest0]; [discriminate|].
  destruct b0 as [ss o|ib0].
  - pose proof (first_nonprologue_spec c ss false) as Hs.
    destruct (first_nonprologue c ss false) as [[|k]|] eqn:Ef; intros H; inversion H; subst; clear H.
    + exists [], (Other ss o :: rest0).
      split; [reflexivity|]. split; [reflexivity|]. split; [constructor|]. intros _. cbn. lia.
    + destruct Hs as [H1 [H2 H3]].
      exists [Other (firstn (S k) ss) None], (Other (skipn (S k) ss) None :: rest0).
      split; [reflexivity|]. split; [reflexivity|]. cbn [stmts_of flat_map]. rewrite app_nil_r.
      split; [exact H2|]. intros H9. specialize (H3 H9). lia.
    + destruct Hs as [H2 H3].
      exists (Other ss o :: (if f38 c && unterminated ss then [nl_block] else [])), rest0.
      split; [rewrite <- app_comm_cons; reflexivity|].
      destruct (f38 c && unterminated ss); cbn [stmts_of flat_map nl_block iblocks app]; rewrite ?app_nil_r.
      * split; [reflexivity|]. split.
        -- apply Forall_app. split; [exact H2|]. constructor; [unfold noncode; cbn; discriminate|constructor].
        -- intros H9. specialize (H3 H9). unfold n_strings in *. rewrite filter_app, app_length. cbn. lia.
      * split; [reflexivity|]. split; [exact H2|]. intros H9. specialize (H3 H9). lia.
  - intros H; inversion H; subst. exists [], (Imps ib0 :: rest0).
    split; [reflexivity|]. split; [reflexivity|]. split; [constructor|]. intros _. cbn. lia.
Qed.

(* F40: with the repair no bytes-literal statement is in front of a new import block *)
Definition nobytes (s : stmt) : Prop := is_bytes s = false.

Lemma first_nonprologue_nobytes c : f40 c = true -> forall ss seen,
  match first_nonprologue c ss seen with
  | Some k => Forall nobytes (firstn k ss)
  | None => Forall nobytes ss
  end.
Proof.
  intros H40. induction ss as [|s ss IH]; intros seen; cbn [first_nonprologue]; [constructor|].
  destruct (s_kind s) eqn:K.
  - specialize (IH seen). destruct (first_nonprologue c ss seen) as [k|]; cbn [option_map firstn];
      (constructor; [unfold nobytes, is_bytes; rewrite K; reflexivity|exact IH]).
  - destruct (f9 c && seen); [constructor|].
    specialize (IH true). destruct (first_nonprologue c ss true) as [k|]; cbn [option_map firstn];
      (constructor; [unfold nobytes, is_bytes; rewrite K; reflexivity|exact IH]).
  - rewrite H40. cbn [orb]. constructor.
  - constructor.
Qed.

Theorem new_block_not_after_bytes c bs bs' nb :
  f40 c = true -> insert_new c bs = Ok (bs', nb) ->
  exists pro rest, bs' = pro ++ Imps nb :: sep_block :: rest /\ Forall nobytes (stmts_of pro).
Proof.
  intros H40. unfold insert_new. destruct bs as [|b0 rest0]; [discriminate|].
  destruct b0 as [ss o|ib0].
  - pose proof (first_nonprologue_nobytes c H40 ss false) as Hs.
    destruct (first_nonprologue c ss false) as [[|k]|] eqn:Ef; intros H; inversion H; subst; clear H.
    + exists [], (Other ss o :: rest0). split; [reflexivity|constructor].
    + exists [Other (firstn (S k) ss) None], (Other (skipn (S k) ss) None :: rest0).
      split; [reflexivity|]. cbn [stmts_of flat_map]. rewrite app_nil_r. exact Hs.
    + exists (Other ss o :: (if f38 c && unterminated ss then [nl_block] else [])), rest0.
      split; [rewrite <- app_comm_cons; reflexivity|].
      destruct (f38 c && unterminated ss); cbn [stmts_of flat_map nl_block app]; rewrite ?app_nil_r; [|exact Hs].
      apply Forall_app. split; [exact Hs|]. constructor; [reflexivity|constructor].
  - intros H; inversion H; subst. exists [], (Imps ib0 :: rest0). split; [reflexivity|constructor].
Qed.

(* ---------------------------------------------------------------------------------------------- *)
(* the provable part of the tool-level fixed point                                                  *)

Section ToolFacts.
Variable R : list import -> str.
Variable NC : str -> bool.
Variable parse : str -> list block.
Variable scan : str -> bool -> list (nat * str) * list (nat * import).

(* second-pass input = first-pass output: the analysis and the edit see exactly the text the first pass printed *)
Theorem tidy_analyses_first_pass_output c fl known mand bs0 t1 :
  pp R NC c bs0 = Ok t1 ->
  tidy R NC parse scan c fl known mand bs0 =
    match fix_blocks c fl known mand (parse t1) (fst (scan t1 (remove_unused fl))) (snd (scan t1 (remove_unused fl))) with
    | Err e => Err e
    | Ok (bs2, _) => pp R NC c bs2
    end.
Proof.
  intros H. unfold tidy. rewrite H. destruct (scan t1 (remove_unused fl)) as [ms us]. reflexivity.
Qed.

(* two block lists that print alike block by block *)
Definition block_equiv (b b' : block) : Prop :=
  match b, b' with
  | Other _ _, Other _ _ => forall c, pp_block R c b = pp_block R c b'
  | Imps x, Imps y => ib_imps x = ib_imps y /\ ib_col1 x = ib_col1 y /\ ib_endnl x = ib_endnl y
  | _, _ => False
  end.

Lemma pp_from_equiv c l l' : Forall2 block_equiv l l' -> forall prev, pp_from R NC c prev l = pp_from R NC c prev l'.
Proof.
  intros H. induction H as [|b b' l l' Hb H IH]; intros prev; [reflexivity|]. cbn [pp_from].
  assert (pp_block R c b = pp_block R c b' /\
          (match b with Imps _ => true | Other _ _ => false end) = (match b' with Imps _ => true | Other _ _ => false end)) as [E E2].
  { destruct b as [ss o|x], b' as [ss' o'|y]; cbn [block_equiv] in Hb; try tauto; [split; [apply Hb|reflexivity]|].
    destruct Hb as [E1 [E2 E3]]. split; [|reflexivity]. cbn [pp_block]. unfold pp_iblock. rewrite E1, E2, E3. reflexivity. }
  rewrite E, E2. destruct (pp_block R c b') as [t0|]; [|reflexivity]. rewrite IH. reflexivity.
Qed.

Lemma pp_equiv c l l' : Forall2 block_equiv l l' -> pp R NC c l = pp R NC c l'.
Proof. intros H. unfold pp. apply pp_from_equiv. exact H. Qed.

(* reformat is a fixed point whenever the statement splitter re-finds, in the printed text, blocks that print
   alike (oracle_compositional of DESIGN C03; evaluated on every case by the harness: the second pass of tidy
   decomposes the first pass's output) *)
Theorem reformat_fixed_point_open c bs0 t :
  reformat R NC c bs0 = Ok t -> Forall2 block_equiv (parse t) bs0 -> reformat R NC c (parse t) = Ok t.
Proof.
  unfold reformat. intros H He. rewrite (pp_equiv c _ _ He). exact H.
Qed.
End ToolFacts.

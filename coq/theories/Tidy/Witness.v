(* Concrete witnesses: refutations on the unchanged tree (cfg = unchanged), non-vacuity of the repaired theorems. *)
From Coq Require Import NArith List Bool Arith Lia String.
From Verif Require Import Base.Chars Base.StrX Base.StrXProofs Tidy.Blocks Tidy.Fix Tidy.FixProofs Tidy.ErrProofs.
Import ListNotations.
Open Scope string_scope.

Definition i_np : import := mkImp [dec "numpy"] (dec "np").
Definition i_qq : import := mkImp [dec "qq"] (dec "qq").
Definition i_os : import := mkImp [dec "os"] (dec "os").
Definition i_div : import := mkImp [dec "__future__"; dec "division"] (dec "division").
Definition known_np (n : str) : list import := if str_eqb n (dec "np") then [i_np] else [].
Definition fl_all : flags := mkFlags true true true.

(* F8:  "v1 = 1\nnp.zeta\nimport qq\nqq\nnp.alpha\n"  - missing np.zeta (line 2), np.alpha (line 5) *)
Definition w8_blocks : list block :=
  [Other [mkStmt KCode (dec "v1 = 1$a;"); mkStmt KCode (dec "np.zeta$a;")] None;
   Imps (mkIB 1 3 true 4 true [i_qq]);
   Other [mkStmt KCode (dec "qq$a;"); mkStmt KCode (dec "np.alpha$a;")] None].
Definition w8_missing : list (nat * str) := [(2, dec "np.zeta"); (5, dec "np.alpha")].

Lemma known_np_inv n i : known_np n = [i] -> n = dec "np" /\ i = i_np.
Proof.
  unfold known_np. destruct (str_eqb n (dec "np")) eqn:E; [|discriminate].
  apply str_eqb_eq in E. intros H; inversion H. auto.
Qed.

(* on the unchanged tree the import is put into the block of line 3, after the read on line 2 *)
Lemma F8_refuted :
  exists bs' log imp L o,
    fix_blocks unchanged fl_all known_np [] w8_blocks w8_missing [] = Ok (bs', log) /\
    In (imp, Some L, o) log /\ ~ log_ok known_np w8_missing bs' (imp, Some L, o).
Proof.
  eexists. eexists. exists i_np, 5, (Added 1 false).
  split; [vm_compute; reflexivity|]. split; [left; reflexivity|].
  unfold log_ok. intros [n [L [E1 [E2 [E3 _]]]]]. inversion E1; subst L.
  apply known_np_inv in E2. destruct E2 as [En _]. subst n.
  specialize (E3 2 (dec "np.zeta") (or_introl eq_refl) eq_refl). lia.
Qed.

(* the repaired tree on the same input: a new block at the top *)
Example F8_repaired :
  exists bs', fix_blocks repaired fl_all known_np [] w8_blocks w8_missing [] = Ok (bs', [(i_np, Some 2, Added 2 true)]).
Proof. eexists. vm_compute. reflexivity. Qed.

(* F8b:  "np.x; import qq\nqq\n"  - the only import block starts after the use, on the same line *)
Definition w8b_blocks : list block :=
  [Other [mkStmt KCode (dec "np.x; ")] None;
   Imps (mkIB 1 1 false 2 true [i_qq]);
   Other [mkStmt KCode (dec "qq$a;")] None].

Lemma F8b_refuted :
  exists bs' b,
    select_block unchanged w8b_blocks i_np (Some 1) = Ok (Some b) /\
    fix_blocks unchanged fl_all known_np [] w8b_blocks [(1, dec "np.x")] [] = Ok (bs', [(i_np, Some 1, Added 1 false)]) /\
    ~ precedes b 1.
Proof.
  eexists. eexists. split; [vm_compute; reflexivity|]. split; [vm_compute; reflexivity|].
  unfold precedes, true_last. cbn. intros [H|[_ [H|H]]]; try lia; discriminate.
Qed.

Example F8b_repaired :
  exists bs', fix_blocks repaired fl_all known_np [] w8b_blocks [(1, dec "np.x")] [] = Ok (bs', [(i_np, Some 1, Added 2 true)]).
Proof. eexists. vm_compute. reflexivity. Qed.

(* non-vacuity of never_guess / added_before_first_read: an added import that joins an existing block *)
Definition wnv_blocks : list block :=
  [Imps (mkIB 1 1 true 2 true [i_qq]);
   Other [mkStmt KCode (dec "qq$a;"); mkStmt KCode (dec "np.alpha$a;")] None].
Example placement_nonvacuous :
  exists bs', fix_blocks repaired fl_all known_np [] wnv_blocks [(3, dec "np.alpha")] [] = Ok (bs', [(i_np, Some 3, Added 1 false)])
              /\ all_imports bs' = [i_qq; i_np].
Proof. eexists. split; vm_compute; reflexivity. Qed.

(* ---------------------------------------------------------------------------------------------- *)
(* C03 witnesses on the unchanged tree                                                             *)

Definition i_a : import := mkImp [dec "a"] (dec "a").
Definition i_b : import := mkImp [dec "b"] (dec "b").
Definition i_mnp : import := mkImp [dec "m"; dec "np"] (dec "np").
Definition known_os (n : str) : list import := if str_eqb n (dec "os") then [i_os] else [].

(* F23:  "import a\nx = 1; import b\na\n"  - `b` unused on line 2; both blocks "contain" line 2 *)
Definition w23_blocks : list block :=
  [Imps (mkIB 1 1 true 2 true [i_a]); Other [mkStmt KCode (dec "x = 1; ")] None;
   Imps (mkIB 2 2 false 3 true [i_b]); Other [mkStmt KCode (dec "a$a;")] None].
Lemma F23_refuted :
  ok_seq (iblocks w23_blocks) /\ inv w23_blocks /\
  find_block unchanged w23_blocks 2 = Ambiguous /\
  fix_blocks unchanged fl_all (fun _ => []) [] w23_blocks [] [(2, i_b)] = Err ELineAmbiguous.
Proof.
  split; [cbn; repeat split; try lia; repeat constructor|].
  split; [apply inv_b_inv; vm_compute; reflexivity|split; vm_compute; reflexivity].
Qed.
Example F23_repaired :
  exists bs' log, fix_blocks repaired fl_all (fun _ => []) [] w23_blocks [] [(2, i_b)] = Ok (bs', log) /\ all_imports bs' = [i_a].
Proof. eexists. eexists. split; vm_compute; reflexivity. Qed.

(* F24:  "from m import np\nnp\n" with mandatory `import numpy as np` *)
Definition w24_blocks : list block :=
  [Imps (mkIB 1 1 true 2 true [i_mnp]); Other [mkStmt KCode (dec "np$a;")] None].
Lemma F24_refuted :
  inv w24_blocks /\ exists bs' log,
    fix_blocks unchanged fl_all (fun _ => []) [i_np] w24_blocks [] [] = Ok (bs', log) /\
    forall R NC, pp R NC unchanged bs' = Err EConflict.
Proof.
  split; [apply inv_b_inv; vm_compute; reflexivity|].
  eexists. eexists. split; [vm_compute; reflexivity|]. intros R NC. reflexivity.
Qed.
Example F24_repaired :
  exists bs', fix_blocks repaired fl_all (fun _ => []) [i_np] w24_blocks [] [] = Ok (bs', [(i_np, None, Refused)]).
Proof. eexists. vm_compute. reflexivity. Qed.

(* F28: an emptied import block that stood after `x = 1; ` prints nothing - not even the end of its line *)
Lemma F28_refuted :
  pp_iblock (fun _ => []) unchanged (mkIB 1 1 false 2 true []) = Ok [] /\
  pp_iblock (fun _ => []) repaired (mkIB 1 1 false 2 true []) = Ok [c_nl].
Proof. split; reflexivity. Qed.

(* F35:  "import qq\nqq\n" with two mandatory imports: the new top block (1,1)-(2,1) ties with the first block *)
Lemma F35_refuted :
  inv wnv_blocks /\ ok_seq (iblocks wnv_blocks) /\
  fix_blocks unchanged fl_all (fun _ => []) [i_div; i_os] wnv_blocks [] [] = Err ESortTie.
Proof.
  split; [apply inv_b_inv; vm_compute; reflexivity|].
  split; [cbn; repeat split; try lia; repeat constructor|vm_compute; reflexivity].
Qed.
Example F35_repaired :
  exists bs' log, fix_blocks repaired fl_all (fun _ => []) [i_div; i_os] wnv_blocks [] [] = Ok (bs', log) /\
                  map ib_imps (iblocks bs') = [[i_div]; [i_qq; i_os]].
Proof. eexists. eexists. split; vm_compute; reflexivity. Qed.

(* F37:  "import os\nos.x\ndel os\nos.y\n"  - `os` is missing on line 4 although block 1 imports it *)
Definition w37_blocks : list block :=
  [Imps (mkIB 1 1 true 2 true [i_os]); Other [mkStmt KCode (dec "os.x$a;del os$a;os.y$a;")] None].
Lemma F37_refuted :
  fix_blocks unchanged fl_all known_os [] w37_blocks [(4, dec "os.y")] [] = Err EAlreadyExists.
Proof. vm_compute. reflexivity. Qed.
Example F37_repaired :
  exists bs', fix_blocks repaired fl_all known_os [] w37_blocks [(4, dec "os.y")] [] = Ok (bs', [(i_os, Some 4, Exists)]).
Proof. eexists. vm_compute. reflexivity. Qed.

(* F38:  "# c" (no final newline) - the new block is glued onto the comment *)
Definition w38_blocks : list block := [Other [mkStmt KBlank (dec "# c")] None].
Lemma F38_refuted :
  exists nb, insert_new unchanged w38_blocks = Ok ((w38_blocks ++ [Imps nb; sep_block])%list, nb) /\
             forall R NC, pp R NC unchanged w38_blocks = Ok (dec "# c") /\ ends_nl (dec "# c") = false.
Proof. eexists. split; [vm_compute; reflexivity|]. intros R NC. split; reflexivity. Qed.

(* F9:  '"""doc"""\n"second"\nx = 1\n'  - two string statements in front of the new block *)
Definition w9_blocks : list block :=
  [Other [mkStmt KString (dec "$22;$22;$22;doc$22;$22;$22;$a;"); mkStmt KString (dec "$22;second$22;$a;");
          mkStmt KCode (dec "x = 1$a;")] None].
Lemma F9_refuted :
  exists pro rest nb, insert_new unchanged w9_blocks = Ok ((pro ++ Imps nb :: sep_block :: rest)%list, nb) /\
                      n_strings (stmts_of pro) = 2.
Proof.
  exists [Other (firstn 2 (match w9_blocks with [Other ss _] => ss | _ => [] end)) None].
  eexists. eexists. split; [vm_compute; reflexivity|reflexivity].
Qed.
Example F9_repaired :
  exists pro rest nb, insert_new repaired w9_blocks = Ok ((pro ++ Imps nb :: sep_block :: rest)%list, nb) /\
                      n_strings (stmts_of pro) = 1.
Proof.
  exists [Other (firstn 1 (match w9_blocks with [Other ss _] => ss | _ => [] end)) None].
  eexists. eexists. split; [vm_compute; reflexivity|reflexivity].
Qed.

(* F40:  "b'x'\nos\n"  - a bytes literal in front of the new block (a __future__ import there is a SyntaxError) *)
Definition w40_blocks : list block :=
  [Other [mkStmt KBytes (dec "b'x'$a;"); mkStmt KCode (dec "os$a;")] None].
Lemma F40_refuted :
  exists pro rest nb, insert_new unchanged w40_blocks = Ok ((pro ++ Imps nb :: sep_block :: rest)%list, nb) /\
                      exists s, In s (stmts_of pro) /\ is_bytes s = true.
Proof.
  exists [Other (firstn 1 (match w40_blocks with [Other ss _] => ss | _ => [] end)) None].
  eexists. eexists. split; [vm_compute; reflexivity|]. eexists. split; [left; reflexivity|reflexivity].
Qed.
Example F40_repaired :
  exists rest nb, insert_new repaired w40_blocks = Ok ((Imps nb :: sep_block :: rest)%list, nb).
Proof. eexists. eexists. vm_compute. reflexivity. Qed.

(* F45:  "x = 1; \\\nimport foo\n"  with foo unused: the emptied block leaves the backslash dangling;
   "    # c \\\nimport foo\n": the backslash ends a comment, nothing is continued, nothing is printed *)
Definition w45_blocks : list block :=
  [Other [mkStmt KCode (dec "x = 1; $5c;$a;")] None; Imps (mkIB 1 2 true 3 true [])].
Definition w45c_blocks : list block :=
  [Other [mkStmt KBlank (dec "    # c $5c;$a;")] None; Imps (mkIB 1 2 true 3 true [])].
Lemma F45_refuted :
  pp (fun _ => []) (fun _ => true) unchanged w45_blocks = Ok (dec "x = 1; $5c;$a;") /\
  pp (fun _ => []) (fun _ => true) repaired w45_blocks = Ok (dec "x = 1; $5c;$a;$a;") /\
  pp (fun _ => []) (fun _ => false) repaired w45c_blocks = Ok (dec "    # c $5c;$a;").
Proof. repeat split; vm_compute; reflexivity. Qed.

(* F46:  "x = 1\nimport __future__\n__future__\n"  - the plain module import attracts the mandatory from-__future__ import *)
Definition i_futmod : import := mkImp [dec "__future__"] (dec "__future__").
Definition w46_blocks : list block :=
  [Other [mkStmt KCode (dec "x = 1$a;")] None; Imps (mkIB 1 2 true 3 true [i_futmod]); Other [mkStmt KCode (dec "__future__$a;")] None].
Lemma F46_refuted :
  is_future i_futmod = false /\
  select_block unchanged w46_blocks i_div None = Ok (Some (mkIB 1 2 true 3 true [i_futmod])) /\
  select_block repaired w46_blocks i_div None = Ok None.
Proof. repeat split; vm_compute; reflexivity. Qed.

(* non-vacuity of no_internal_error: its hypotheses hold of the F35 input *)
Example no_internal_error_nonvacuous :
  inv wnv_blocks /\ ok_seq (iblocks wnv_blocks) /\
  exists bs' log t, fix_blocks repaired fl_all known_np [i_div; i_os] wnv_blocks [(3, dec "np.alpha")] [(1, i_qq)] = Ok (bs', log)
                    /\ pp (fun l => List.concat (map i_as l)) (fun _ => true) repaired bs' = Ok t.
Proof.
  destruct F35_refuted as [H1 [H2 _]]. split; [exact H1|]. split; [exact H2|].
  eexists. eexists. eexists. split; vm_compute; reflexivity.
Qed.

(* Concrete witnesses: refutations on the unchanged tree (cfg = unchanged), non-vacuity of the repaired theorems. *)
From Coq Require Import NArith List Bool Arith Lia String.
From Verif Require Import Base.Chars Base.StrX Base.StrXProofs Tidy.Blocks Tidy.Fix Tidy.FixProofs.
Import ListNotations.
Open Scope string_scope.

Definition i_np : import := mkImp [dec "numpy"] (dec "np").
Definition i_qq : import := mkImp [dec "qq"] (dec "qq").
Definition i_os : import := mkImp [dec "os"] (dec "os").
Definition i_div : import := mkImp [dec "__future__"; dec "division"] (dec "division").
Definition known_np (n : str) : list import := if str_eqb n (dec "np") then [i_np] else [].
Definition fl_all : flags := mkFlags true true true.

(* F8:  "v1 = 1\nnp.zeta\nimport qq\nqq\nnp.alpha\n"  - missing np.zeta (line 2), np.alpha (line 5) *)
Definition w8_blocks : list block :=
  [Other [mkStmt KCode (dec "v1 = 1$a;"); mkStmt KCode (dec "np.zeta$a;")] None;
   Imps (mkIB 1 3 true 4 true [i_qq]);
   Other [mkStmt KCode (dec "qq$a;"); mkStmt KCode (dec "np.alpha$a;")] None].
Definition w8_missing : list (nat * str) := [(2, dec "np.zeta"); (5, dec "np.alpha")].

Lemma known_np_inv n i : known_np n = [i] -> n = dec "np" /\ i = i_np.
Proof.
  unfold known_np. destruct (str_eqb n (dec "np")) eqn:E; [|discriminate].
  apply str_eqb_eq in E. intros H; inversion H. auto.
Qed.

(* on the unchanged tree the import is put into the block of line 3, after the read on line 2 *)
Lemma F8_refuted :
  exists bs' log imp L o,
    fix_blocks unchanged fl_all known_np [] w8_blocks w8_missing [] = Ok (bs', log) /\
    In (imp, Some L, o) log /\ ~ log_ok known_np w8_missing bs' (imp, Some L, o).
Proof.
  eexists. eexists. exists i_np, 5, (Added 1 false).
  split; [vm_compute; reflexivity|]. split; [left; reflexivity|].
  unfold log_ok. intros [n [L [E1 [E2 [E3 _]]]]]. inversion E1; subst L.
  apply known_np_inv in E2. destruct E2 as [En _]. subst n.
  specialize (E3 2 (dec "np.zeta") (or_introl eq_refl) eq_refl). lia.
Qed.

(* the repaired tree on the same input: a new block at the top *)
Example F8_repaired :
  exists bs', fix_blocks repaired fl_all known_np [] w8_blocks w8_missing [] = Ok (bs', [(i_np, Some 2, Added 2 true)]).
Proof. eexists. vm_compute. reflexivity. Qed.

(* F8b:  "np.x; import qq\nqq\n"  - the only import block starts after the use, on the same line *)
Definition w8b_blocks : list block :=
  [Other [mkStmt KCode (dec "np.x; ")] None;
   Imps (mkIB 1 1 false 2 true [i_qq]);
   Other [mkStmt KCode (dec "qq$a;")] None].

Lemma F8b_refuted :
  exists bs' b,
    select_block unchanged w8b_blocks i_np (Some 1) = Ok (Some b) /\
    fix_blocks unchanged fl_all known_np [] w8b_blocks [(1, dec "np.x")] [] = Ok (bs', [(i_np, Some 1, Added 1 false)]) /\
    ~ precedes b 1.
Proof.
  eexists. eexists. split; [vm_compute; reflexivity|]. split; [vm_compute; reflexivity|].
  unfold precedes, true_last. cbn. intros [H|[_ [H|H]]]; try lia; discriminate.
Qed.

Example F8b_repaired :
  exists bs', fix_blocks repaired fl_all known_np [] w8b_blocks [(1, dec "np.x")] [] = Ok (bs', [(i_np, Some 1, Added 2 true)]).
Proof. eexists. vm_compute. reflexivity. Qed.

(* non-vacuity of never_guess / added_before_first_read: an added import that joins an existing block *)
Definition wnv_blocks : list block :=
  [Imps (mkIB 1 1 true 2 true [i_qq]);
   Other [mkStmt KCode (dec "qq$a;"); mkStmt KCode (dec "np.alpha$a;")] None].
Example placement_nonvacuous :
  exists bs', fix_blocks repaired fl_all known_np [] wnv_blocks [(3, dec "np.alpha")] [] = Ok (bs', [(i_np, Some 3, Added 1 false)])
              /\ all_imports bs' = [i_qq; i_np].
Proof. eexists. split; vm_compute; reflexivity. Qed.

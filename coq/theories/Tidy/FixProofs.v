(* Proofs about Tidy/Fix.v: what fix_unused_and_missing_imports can add and where (C04),
   what it removes (C04), which internal errors are unreachable and what is printed (C03). *)
From Coq Require Import NArith List Bool Arith Lia ZifyBool.
From Verif Require Import Base.Chars Base.StrX Base.StrXProofs Tidy.Blocks Tidy.Fix.
Import ListNotations.

(* ---------------------------------------------------------------------------------------------- *)
(* imports, blocks                                                                                 *)

Lemma imp_eqb_eq a b : imp_eqb a b = true <-> a = b.
Proof.
  destruct a as [fa aa], b as [fb ab]. unfold imp_eqb. cbn [i_full i_as].
  rewrite andb_true_iff, strs_eqb_eq, str_eqb_eq. split.
  - intros [H1 H2]. congruence.
  - intros H. inversion H. auto.
Qed.

Lemma imp_eqb_refl i : imp_eqb i i = true.
Proof. apply imp_eqb_eq. reflexivity. Qed.

Lemma imp_in_In i l : imp_in i l = true <-> In i l.
Proof.
  unfold imp_in. rewrite existsb_exists. split.
  - intros [x [Hx He]]. apply imp_eqb_eq in He. subst. exact Hx.
  - intros H. exists i. split; [exact H | apply imp_eqb_refl].
Qed.

Lemma iblocks_app a b : iblocks (a ++ b) = iblocks a ++ iblocks b.
Proof. unfold iblocks. apply flat_map_app. Qed.

Definition upd1 (id : nat) (f : iblock -> iblock) (b : iblock) : iblock :=
  if ib_id b =? id then f b else b.

Lemma iblocks_upd bs id f : iblocks (upd bs id f) = map (upd1 id f) (iblocks bs).
Proof.
  induction bs as [|b bs IH]; [reflexivity|].
  destruct b as [ss o|ib]; cbn [upd map iblocks flat_map app] in *.
  - exact IH.
  - unfold upd1 at 1. destruct (ib_id ib =? id); cbn [app map]; f_equal; exact IH.
Qed.

Lemma in_all_imports i bs : In i (all_imports bs) <-> exists b, In b (iblocks bs) /\ In i (ib_imps b).
Proof. unfold all_imports. apply in_flat_map. Qed.

Lemma without_one_incl l r i : In i (without_one l r) -> In i l.
Proof. unfold without_one. intros H. apply filter_In in H. tauto. Qed.

Lemma with_one_in l imp i : In i (with_one l imp) -> In i l \/ i = imp.
Proof.
  unfold with_one. destruct (imp_in imp l); [tauto|].
  intros H. apply in_app_or in H. destruct H as [H|[H|[]]]; auto.
Qed.

Lemma upd_imports_sub (P : import -> Prop) bs id f :
  (forall b i, In i (ib_imps (f b)) -> In i (ib_imps b) \/ P i) ->
  forall i, In i (all_imports (upd bs id f)) -> In i (all_imports bs) \/ P i.
Proof.
  intros Hf i H. apply in_all_imports in H. destruct H as [b [Hb Hi]].
  rewrite iblocks_upd in Hb. apply in_map_iff in Hb. destruct Hb as [b0 [E Hb0]].
  unfold upd1 in E. destruct (ib_id b0 =? id).
  - subst b. apply Hf in Hi. destruct Hi as [Hi|Hi]; [left|right; exact Hi].
    apply in_all_imports. eauto.
  - subst b. left. apply in_all_imports. eauto.
Qed.

(* ---------------------------------------------------------------------------------------------- *)
(* removal only removes                                                                            *)

Lemma remove_import_sub c bs u bs' :
  remove_import c bs u = Ok bs' -> forall i, In i (all_imports bs') -> In i (all_imports bs).
Proof.
  unfold remove_import. destruct (find_block c bs (fst u)) as [|b|]; try discriminate.
  - intros E; inversion E; auto.
  - destruct (by_as (ib_imps b) (i_as (snd u))) as [|j [|]]; try discriminate.
    + intros E; inversion E; auto.
    + intros E; inversion E; subst bs'. intros i Hi.
      apply (upd_imports_sub (fun _ => False)) in Hi; [tauto|].
      intros b0 i0 H0. left. cbn in H0. eapply without_one_incl. exact H0.
Qed.

Lemma remove_all_sub c us : forall bs bs',
  remove_all c bs us = Ok bs' -> forall i, In i (all_imports bs') -> In i (all_imports bs).
Proof.
  induction us as [|u us IH]; intros bs bs' E i Hi; cbn [remove_all] in E.
  - inversion E; subst; exact Hi.
  - destruct (remove_import c bs u) as [bs1|] eqn:E1; [|discriminate].
    eapply remove_import_sub; [exact E1|]. eapply IH; eauto.
Qed.

(* ---------------------------------------------------------------------------------------------- *)
(* the chosen block                                                                                 *)

Lemma best_of_in imp l : forall cur b, best_of imp l cur = Some b -> In b l \/ cur = Some b.
Proof.
  induction l as [|x l IH]; intros cur b H; cbn [best_of] in H.
  - right. exact H.
  - apply IH in H. destruct H as [H|H]; [left; right; exact H|].
    destruct cur as [c0|].
    + destruct (key_le (key_of imp c0) (key_of imp x)).
      * inversion H. left. left. reflexivity.
      * right. exact H.
    + inversion H. left. left. reflexivity.
Qed.

Lemma select_block_some c bs imp L b :
  select_block c bs imp L = Ok (Some b) -> In b (iblocks bs) /\ cand_ok c L b = true.
Proof.
  unfold select_block.
  destruct (negb (f35 c) && has_tie imp (filter (cand_ok c L) (iblocks bs))); [discriminate|].
  destruct (best_of imp (filter (cand_ok c L) (iblocks bs)) None) as [b0|] eqn:E; [|discriminate].
  destruct (is_future imp && negb (if f46 c then existsb is_future (ib_imps b0) else 0 <? fst (key_of imp b0))); [discriminate|].
  intros H; inversion H; subst b0.
  apply best_of_in in E. destruct E as [E|E]; [|discriminate].
  apply filter_In in E. exact E.
Qed.

Definition all_other (l : list block) : Prop := forall b, In b l -> exists ss o, b = Other ss o.

Lemma iblocks_all_other l : all_other l -> iblocks l = [].
Proof.
  induction l as [|b l IH]; intros H; [reflexivity|].
  destruct (H b (or_introl eq_refl)) as [ss [o E]]. subst b. cbn. apply IH.
  intros b Hb. apply H. right. exact Hb.
Qed.

(* the shape of the result of insert_new_import_block *)
Lemma insert_new_shape c bs bs' nb :
  insert_new c bs = Ok (bs', nb) ->
  nb = new_ib (fresh_id bs) /\
  exists pro rest, bs' = pro ++ Imps nb :: sep_block :: rest /\ all_other pro /\ iblocks rest = iblocks bs.
Proof.
  unfold insert_new. destruct bs as [|b0 rest0]; [discriminate|].
  destruct b0 as [ss o|ib0].
  - destruct (first_nonprologue c ss false) as [[|k]|] eqn:Ef; intros H; inversion H; subst; split; try reflexivity.
    + exists [], (Other ss o :: rest0). repeat split. intros b [].
    + exists [Other (firstn (S k) ss) None], (Other (skipn (S k) ss) None :: rest0). repeat split.
      intros b [Hb|[]]. subst b. eauto.
    + exists (Other ss o :: (if f38 c && unterminated ss then [nl_block] else [])), rest0.
      split; [rewrite <- app_comm_cons; reflexivity|]. split; [|reflexivity].
      intros b [Hb|Hb]; [subst b; eauto|].
      destruct (f38 c && unterminated ss); [|destruct Hb].
      destruct Hb as [Hb|[]]. subst b. unfold nl_block. eauto.
  - intros H; inversion H; subst. split; [reflexivity|].
    exists [], (Imps ib0 :: rest0). repeat split. intros b [].
Qed.

Lemma insert_new_iblocks c bs bs' nb :
  insert_new c bs = Ok (bs', nb) -> iblocks bs' = nb :: iblocks bs /\ ib_imps nb = [].
Proof.
  intros H. apply insert_new_shape in H. destruct H as [En [pro [rest [E [Ho Er]]]]].
  subst bs'. rewrite iblocks_app, (iblocks_all_other _ Ho).
  change (iblocks (Imps nb :: sep_block :: rest)) with (nb :: iblocks rest).
  rewrite Er. subst nb. split; reflexivity.
Qed.

Lemma choose_block_spec c bs imp L bs1 b isnew :
  choose_block c bs imp L = Ok (bs1, b, isnew) ->
  (isnew = false /\ bs1 = bs /\ In b (iblocks bs) /\ cand_ok c L b = true) \/
  (isnew = true /\ iblocks bs1 = b :: iblocks bs /\ ib_imps b = [] /\ insert_new c bs = Ok (bs1, b)).
Proof.
  unfold choose_block. destruct (select_block c bs imp L) as [[b0|]|] eqn:Es; try discriminate.
  - intros H; inversion H; subst. left. apply select_block_some in Es. tauto.
  - destruct (insert_new c bs) as [[bs' nb]|] eqn:Ei; [|discriminate].
    intros H; inversion H; subst. right. apply insert_new_iblocks in Ei as Hi. tauto.
Qed.

Lemma choose_block_imports c bs imp L bs1 b isnew :
  choose_block c bs imp L = Ok (bs1, b, isnew) ->
  forall i, In i (all_imports bs1) -> In i (all_imports bs).
Proof.
  intros H i Hi. apply choose_block_spec in H. destruct H as [[_ [E _]]|[_ [E [En _]]]].
  - subst; exact Hi.
  - unfold all_imports in *. rewrite E in Hi. cbn in Hi. rewrite En in Hi. exact Hi.
Qed.

(* add_import adds at most the given import *)
Lemma add_import_sub c bs imp L bs' o :
  add_import c bs imp L = Ok (bs', o) ->
  forall i, In i (all_imports bs') -> In i (all_imports bs) \/ i = imp.
Proof.
  unfold add_import. destruct (choose_block c bs imp L) as [[[bs1 b] isnew]|] eqn:Ec; [|discriminate].
  pose proof (choose_block_imports _ _ _ _ _ _ _ Ec) as Hsub.
  destruct (imp_in imp (ib_imps b)).
  { intros H; inversion H; subst. intros i Hi. left. auto. }
  destruct (f24 c && negb (is_star imp) && negb (is_nil (by_as (ib_imps b) (i_as imp)))).
  { intros H; inversion H; subst. intros i Hi. left. auto. }
  intros H; inversion H; subst. intros i Hi.
  apply (upd_imports_sub (fun i => i = imp)) in Hi.
  - destruct Hi; [left; auto | right; assumption].
  - intros b0 i0 H0. cbn in H0. apply with_one_in in H0. exact H0.
Qed.

(* ---------------------------------------------------------------------------------------------- *)
(* sorting keeps the entries                                                                       *)

Lemma insert_sorted_in x l y : In y (insert_sorted x l) <-> y = x \/ In y l.
Proof.
  induction l as [|z l IH]; cbn [insert_sorted].
  - cbn. intuition.
  - destruct (mkey_le z x); cbn [In]; [rewrite IH|]; intuition.
Qed.

Lemma sort_missing_in l y : In y (sort_missing l) <-> In y l.
Proof.
  unfold sort_missing. induction l as [|x l IH]; cbn [fold_right]; [tauto|].
  rewrite insert_sorted_in, IH. cbn. intuition.
Qed.

(* ---------------------------------------------------------------------------------------------- *)
(* C04 never_guess                                                                                 *)

Section Known.
Variable known : str -> list import.

Definition justified (ms : list (nat * str)) (i : import) : Prop :=
  exists l ident, In (l, ident) ms /\ known (head_name ident) = [i].

Lemma add_missing_loop_sub c all : forall ms bs added log bs' log',
  add_missing_loop known c all ms bs added log = Ok (bs', log') ->
  forall i, In i (all_imports bs') -> In i (all_imports bs) \/ justified ms i.
Proof.
  induction ms as [|[lineno ident] ms IH]; intros bs added log bs' log' E i Hi; cbn [add_missing_loop] in E.
  - inversion E; subst. left. exact Hi.
  - assert (Hmono : forall j, justified ms j -> justified ((lineno, ident) :: ms) j).
    { intros j [l [id [Hin Hk]]]. exists l, id. split; [right; exact Hin|exact Hk]. }
    destruct (known (head_name ident)) as [|cand [|]] eqn:K.
    + eapply IH in E; [|exact Hi]. destruct E; auto.
    + destruct (imp_in cand added).
      { eapply IH in E; [|exact Hi]. destruct E; auto. }
      set (L := if f8 c then first_use all (head_name ident) lineno else lineno) in E.
      destruct (add_import c bs cand (Some L)) as [[bs1 o]|] eqn:Ea; [|discriminate].
      assert (Hstep : forall j, In j (all_imports bs1) -> In j (all_imports bs) \/ justified ((lineno, ident) :: ms) j).
      { intros j Hj. eapply add_import_sub in Ea; [|exact Hj]. destruct Ea as [Ea|Ea]; [left; exact Ea|].
        right. subst j. exists lineno, ident. split; [left; reflexivity|exact K]. }
      destruct o as [id isnew| |].
      * eapply IH in E; [|exact Hi]. destruct E as [E|E]; auto.
      * destruct (f37 c); [|discriminate]. eapply IH in E; [|exact Hi]. destruct E as [E|E]; auto.
      * eapply IH in E; [|exact Hi]. destruct E as [E|E]; auto.
    + eapply IH in E; [|exact Hi]. destruct E; auto.
Qed.
End Known.

Lemma add_mandatory_loop_sub c : forall mand bs log bs' log',
  add_mandatory_loop c mand bs log = Ok (bs', log') ->
  forall i, In i (all_imports bs') -> In i (all_imports bs) \/ In i mand.
Proof.
  induction mand as [|m mand IH]; intros bs log bs' log' E i Hi; cbn [add_mandatory_loop] in E.
  - inversion E; subst. left; exact Hi.
  - destruct (add_import c bs m None) as [[bs1 o]|] eqn:Ea; [|discriminate].
    eapply IH in E; [|exact Hi]. destruct E as [E|E]; [|right; right; exact E].
    eapply add_import_sub in Ea; [|exact E]. destruct Ea; [left|right; left]; auto.
Qed.

(* every import of the result was in the input, or is mandatory, or is THE candidate of a missing name *)
Theorem added_only_justified c fl known mand bs ms us bs' log :
  fix_blocks c fl known mand bs ms us = Ok (bs', log) ->
  forall i, In i (all_imports bs') ->
    In i (all_imports bs) \/ In i mand \/ justified known ms i.
Proof.
  unfold fix_blocks. intros E i Hi.
  destruct (if remove_unused fl then remove_all c bs us else Ok bs) as [bs1|] eqn:E1; [|discriminate].
  assert (H1 : forall j, In j (all_imports bs1) -> In j (all_imports bs)).
  { destruct (remove_unused fl); [eapply remove_all_sub; exact E1|inversion E1; auto]. }
  destruct (if add_missing fl then _ else _) as [[bs2 log2]|] eqn:E2; [|discriminate].
  assert (H2 : forall j, In j (all_imports bs2) -> In j (all_imports bs1) \/ justified known ms j).
  { destruct (add_missing fl).
    - intros j Hj. eapply add_missing_loop_sub in E2; [|exact Hj]. destruct E2 as [E2|[l [id [Hin Hk]]]]; [left; exact E2|].
      right. exists l, id. split; [apply sort_missing_in; exact Hin|exact Hk].
    - inversion E2; subst. auto. }
  assert (H3 : In i (all_imports bs2) \/ In i mand).
  { destruct (add_mandatory fl).
    - eapply add_mandatory_loop_sub; eauto.
    - inversion E; subst. left; exact Hi. }
  destruct H3 as [H3|H3]; [|tauto]. apply H2 in H3. destruct H3 as [H3|H3]; [|tauto]. left. auto.
Qed.

(* never_guess: a name with 0 or >= 2 candidates gets no import binding it *)
Theorem never_guess c fl known mand bs ms us bs' log :
  (forall n i, In i (known n) -> i_as i = n) ->
  fix_blocks c fl known mand bs ms us = Ok (bs', log) ->
  forall n, length (known n) <> 1 ->
  forall i, In i (all_imports bs') -> i_as i = n -> In i (all_imports bs) \/ In i mand.
Proof.
  intros Hdb E n Hn i Hi Has.
  eapply added_only_justified in E; [|exact Hi].
  destruct E as [E|[E|[l [ident [Hin Hk]]]]]; auto.
  exfalso. apply Hn.
  assert (i_as i = head_name ident) as Hh.
  { apply Hdb. rewrite Hk. left; reflexivity. }
  rewrite <- Has, Hh, Hk. reflexivity.
Qed.

(* ---------------------------------------------------------------------------------------------- *)
(* C04 placement                                                                                   *)

(* the text of import block b lies before the other code of line l *)
Definition precedes (b : iblock) (l : nat) : Prop :=
  true_last b < l \/ (true_last b = l /\ (ib_start b < l \/ ib_col1 b = true)).

Lemma cand_ok_precedes c b l : f8b c = true -> cand_ok c (Some l) b = true -> precedes b l.
Proof.
  intros Hc. unfold cand_ok, precedes. rewrite Hc. intros H.
  apply orb_true_iff in H. destruct H as [H|H].
  - left. apply Nat.ltb_lt in H. exact H.
  - right. apply andb_true_iff in H. destruct H as [H1 H2]. apply Nat.eqb_eq in H1.
    split; [exact H1|]. apply orb_true_iff in H2. destruct H2 as [H2|H2]; [left; apply Nat.ltb_lt; exact H2|right; exact H2].
Qed.

(* select_import_block_by_closest_prefix_match only returns a block that precedes the line *)
Theorem select_block_precedes c bs imp l b :
  f8b c = true -> select_block c bs imp (Some l) = Ok (Some b) -> In b (iblocks bs) /\ precedes b l.
Proof.
  intros Hc H. apply select_block_some in H. destruct H as [H1 H2]. split; [exact H1|].
  eapply cand_ok_precedes; eauto.
Qed.

Lemma first_use_spec ms h : forall d,
  first_use ms h d <= d /\
  forall l ident, In (l, ident) ms -> head_name ident = h -> first_use ms h d <= l.
Proof.
  unfold first_use. induction ms as [|[l0 id0] ms IH]; intros d; cbn [fold_left].
  - split; [lia|intros l ident []].
  - cbn [fst snd]. destruct (str_eqb (head_name id0) h) eqn:E.
    + destruct (IH (Nat.min d l0)) as [H1 H2]. split; [lia|].
      intros l ident [Hin|Hin] Hh.
      * inversion Hin; subst. lia.
      * eapply H2; eassumption.
    + destruct (IH d) as [H1 H2]. split; [exact H1|].
      intros l ident [Hin|Hin] Hh.
      * inversion Hin; subst. rewrite str_eqb_refl in E. discriminate.
      * eapply H2; eassumption.
Qed.

(* positions and identity of the import blocks survive every edit *)
Definition pos_of (b : iblock) := (ib_id b, ib_start b, ib_col1 b, ib_end b, ib_endnl b).

Lemma upd_keeps_pos bs id f :
  (forall b, pos_of (f b) = pos_of b) ->
  forall b, In b (iblocks bs) -> exists b', In b' (iblocks (upd bs id f)) /\ pos_of b' = pos_of b.
Proof.
  intros Hf b Hb. rewrite iblocks_upd. exists (upd1 id f b). split; [apply in_map; exact Hb|].
  unfold upd1. destruct (ib_id b =? id); [apply Hf|reflexivity].
Qed.

Lemma add_import_keeps_pos c bs imp L bs' o :
  add_import c bs imp L = Ok (bs', o) ->
  forall b, In b (iblocks bs) -> exists b', In b' (iblocks bs') /\ pos_of b' = pos_of b.
Proof.
  unfold add_import. destruct (choose_block c bs imp L) as [[[bs1 b0] isnew]|] eqn:Ec; [|discriminate].
  assert (H1 : forall b, In b (iblocks bs) -> In b (iblocks bs1)).
  { apply choose_block_spec in Ec. destruct Ec as [[_ [E _]]|[_ [E _]]]; [subst; auto|].
    intros b Hb. rewrite E. right. exact Hb. }
  destruct (imp_in imp (ib_imps b0)).
  { intros H; inversion H; subst. intros b Hb. exists b. split; auto. }
  destruct (f24 c && negb (is_star imp) && negb (is_nil (by_as (ib_imps b0) (i_as imp)))).
  { intros H; inversion H; subst. intros b Hb. exists b. split; auto. }
  intros H; inversion H; subst. intros b Hb. apply upd_keeps_pos; [reflexivity|auto].
Qed.

Lemma precedes_pos b b' l : pos_of b' = pos_of b -> precedes b l -> precedes b' l.
Proof.
  unfold pos_of, precedes, true_last. intros E. inversion E as [[E1 E2 E3 E4 E5]].
  rewrite E2, E3, E4, E5. tauto.
Qed.

(* what add_import reports: an existing block that precedes the line, or a block created by this very call *)
Lemma add_import_added c bs imp l bs' id isnew :
  f8b c = true ->
  add_import c bs imp (Some l) = Ok (bs', Added id isnew) ->
  exists b', In b' (iblocks bs') /\ ib_id b' = id /\
    (if isnew then insert_new c bs <> Err ENoBlocks /\ pos_of b' = pos_of (new_ib (fresh_id bs)) else precedes b' l).
Proof.
  intros Hc. unfold add_import.
  destruct (choose_block c bs imp (Some l)) as [[[bs1 b0] isn]|] eqn:Ec; [|discriminate].
  destruct (imp_in imp (ib_imps b0)); [discriminate|].
  destruct (f24 c && negb (is_star imp) && negb (is_nil (by_as (ib_imps b0) (i_as imp)))); [discriminate|].
  intros H; inversion H; subst bs' id isn. clear H.
  apply choose_block_spec in Ec.
  assert (Hin : In b0 (iblocks bs1)).
  { destruct Ec as [[_ [E [Hb _]]]|[_ [E _]]]; [subst; exact Hb|rewrite E; left; reflexivity]. }
  destruct (upd_keeps_pos bs1 (ib_id b0) (fun b' => set_imps b' (with_one (ib_imps b') imp)) (fun _ => eq_refl) b0 Hin)
    as [b' [Hb' Hp]].
  exists b'. split; [exact Hb'|]. split; [inversion Hp; reflexivity|].
  destruct Ec as [[Ei [E [Hb Hk]]]|[Ei [E [En Hins]]]]; subst isnew.
  - eapply precedes_pos; [exact Hp|]. eapply cand_ok_precedes; eauto.
  - split; [rewrite Hins; discriminate|]. rewrite Hp. apply insert_new_shape in Hins. destruct Hins as [Hn _]. rewrite Hn. reflexivity.
Qed.

Section KnownLog.
Variable known : str -> list import.

(* a line of the log of the add-missing loop, read against the final block list:
   the import is THE candidate of a name, the line it had to precede is not after any use of that name,
   and when it joined an existing block that block precedes that line *)
Definition log_ok (all : list (nat * str)) (bs : list block) (e : logline) : Prop :=
  let '(imp, Lo, o) := e in
  exists n L, Lo = Some L /\ known n = [imp] /\
    (forall l ident, In (l, ident) all -> head_name ident = n -> L <= l) /\
    match o with
    | Added id false => exists b, In b (iblocks bs) /\ ib_id b = id /\ precedes b L
    | Added id true => exists b, In b (iblocks bs) /\ ib_id b = id /\ ib_start b = 1 /\ ib_col1 b = true
    | _ => True
    end.

Lemma log_ok_mono all bs bs' e :
  (forall b, In b (iblocks bs) -> exists b', In b' (iblocks bs') /\ pos_of b' = pos_of b) ->
  log_ok all bs e -> log_ok all bs' e.
Proof.
  intros Hk. destruct e as [[imp Lo] o]. unfold log_ok.
  intros [n [L [E1 [E2 [E3 E4]]]]]. exists n, L. repeat split; auto.
  destruct o as [id [|]| |]; auto.
  - destruct E4 as [b [Hb [Hid [Hs Hc]]]]. destruct (Hk b Hb) as [b' [Hb' Hp]].
    exists b'. inversion Hp as [[P1 P2 P3 P4 P5]]. repeat split; congruence.
  - destruct E4 as [b [Hb [Hid Hpr]]]. destruct (Hk b Hb) as [b' [Hb' Hp]].
    exists b'. split; [exact Hb'|]. split; [inversion Hp; congruence|]. eapply precedes_pos; eauto.
Qed.

Lemma add_missing_loop_log c all : f8 c = true -> f8b c = true ->
  forall ms bs added log bs' log',
  add_missing_loop known c all ms bs added log = Ok (bs', log') ->
  incl ms all ->
  Forall (log_ok all bs) log -> Forall (log_ok all bs') log'.
Proof.
  intros H8 H8b. induction ms as [|[lineno ident] ms IH]; intros bs added log bs' log' E Hincl Hlog; cbn [add_missing_loop] in E.
  - inversion E; subst. exact Hlog.
  - assert (Hincl' : incl ms all) by (intros x Hx; apply Hincl; right; exact Hx).
    destruct (known (head_name ident)) as [|cand [|]] eqn:K; try (eapply IH; eauto; fail).
    destruct (imp_in cand added); [eapply IH; eauto|].
    rewrite H8 in E.
    set (L := first_use all (head_name ident) lineno) in E.
    destruct (add_import c bs cand (Some L)) as [[bs1 o]|] eqn:Ea; [|discriminate].
    pose proof (add_import_keeps_pos _ _ _ _ _ _ Ea) as Hkeep.
    assert (Hlog1 : Forall (log_ok all bs1) log).
    { eapply Forall_impl; [|exact Hlog]. intros e He. eapply log_ok_mono; eauto. }
    assert (Hnew : log_ok all bs1 (cand, Some L, o)).
    { unfold log_ok. exists (head_name ident), L. split; [reflexivity|]. split; [exact K|].
      split; [intros l id Hin Hh; eapply (proj2 (first_use_spec all (head_name ident) lineno)); eassumption|].
      destruct o as [id isnew| |]; auto.
      apply add_import_added in Ea; [|exact H8b]. destruct Ea as [b' [Hb' [Hid Hx]]].
      destruct isnew.
      - destruct Hx as [_ Hp]. exists b'. inversion Hp as [[P1 P2 P3 P4 P5]]. repeat split; auto.
      - exists b'. repeat split; auto. }
    assert (Hall : Forall (log_ok all bs1) (log ++ [(cand, Some L, o)])).
    { apply Forall_app. split; [exact Hlog1|constructor; [exact Hnew|constructor]]. }
    destruct o as [id isnew| |].
    + eapply IH; eauto.
    + destruct (f37 c); [|discriminate]. eapply IH; eauto.
    + eapply IH; eauto.
Qed.
End KnownLog.

Lemma add_mandatory_loop_keeps c : forall mand bs log bs' log',
  add_mandatory_loop c mand bs log = Ok (bs', log') ->
  (forall b, In b (iblocks bs) -> exists b', In b' (iblocks bs') /\ pos_of b' = pos_of b) /\
  exists extra, log' = log ++ extra /\ Forall (fun e => snd (fst e) = None) extra.
Proof.
  induction mand as [|m mand IH]; intros bs log bs' log' E; cbn [add_mandatory_loop] in E.
  - inversion E; subst. split; [eauto|]. exists []. rewrite app_nil_r. split; [reflexivity|constructor].
  - destruct (add_import c bs m None) as [[bs1 o]|] eqn:Ea; [|discriminate].
    apply IH in E. destruct E as [Hk [extra [El Hf]]]. split.
    + intros b Hb. eapply add_import_keeps_pos in Ea; [|exact Hb]. destruct Ea as [b1 [Hb1 Hp1]].
      destruct (Hk b1 Hb1) as [b2 [Hb2 Hp2]]. exists b2. split; [exact Hb2|congruence].
    + exists ((m, None, o) :: extra). split; [rewrite El, <- app_assoc; reflexivity|].
      constructor; [reflexivity|exact Hf].
Qed.

(* C04 added_before_first_read (repaired tree): every import added for a missing name is THE candidate of
   that name, had to precede a line that is not after any read of the name, and went either into an import
   block that precedes that line or into a block created at the top (line 1, column 1) *)
Theorem added_before_first_read c fl known mand bs ms us bs' log :
  f8 c = true -> f8b c = true ->
  fix_blocks c fl known mand bs ms us = Ok (bs', log) ->
  forall imp L o, In (imp, Some L, o) log -> log_ok known ms bs' (imp, Some L, o).
Proof.
  intros H8 H8b. unfold fix_blocks. intros E imp L o Hin.
  destruct (if remove_unused fl then remove_all c bs us else Ok bs) as [bs1|] eqn:E1; [|discriminate].
  destruct (if add_missing fl then _ else _) as [[bs2 log2]|] eqn:E2; [|discriminate].
  assert (H2 : Forall (log_ok known (sort_missing ms) bs2) log2).
  { destruct (add_missing fl).
    - eapply add_missing_loop_log in E2; eauto. apply incl_refl.
    - inversion E2; subst. constructor. }
  assert (Hms : forall bsx e, log_ok known (sort_missing ms) bsx e -> log_ok known ms bsx e).
  { intros bsx [[i Lo] oo]. unfold log_ok. intros [n [L0 [A [B [C D]]]]]. exists n, L0. repeat split; auto.
    intros l ident Hl. apply C. apply sort_missing_in. exact Hl. }
  destruct (add_mandatory fl).
  - apply add_mandatory_loop_keeps in E. destruct E as [Hk [extra [El Hf]]]. subst log.
    apply in_app_or in Hin. destruct Hin as [Hin|Hin].
    + apply Hms. eapply log_ok_mono; [exact Hk|]. rewrite Forall_forall in H2. apply H2. exact Hin.
    + rewrite Forall_forall in Hf. apply Hf in Hin. discriminate.
  - inversion E; subst. apply Hms. rewrite Forall_forall in H2. apply H2. exact Hin.
Qed.

(* ---------------------------------------------------------------------------------------------- *)
(* C04 no_unused_left: the removal phase                                                           *)

Definition shrink (b b' : iblock) : Prop := pos_of b' = pos_of b /\ incl (ib_imps b') (ib_imps b).

Lemma covers_pos c l b b' : pos_of b' = pos_of b -> covers c l b' = covers c l b.
Proof.
  unfold pos_of, covers, last_lineno, true_last. intros E. inversion E as [[E1 E2 E3 E4 E5]].
  rewrite E2, E4, E5. reflexivity.
Qed.

Lemma filter_nil_iff {A} (p : A -> bool) l : filter p l = [] <-> forall x, In x l -> p x = false.
Proof.
  induction l as [|a l IH]; cbn [filter]; [split; [intros _ x []|reflexivity]|].
  destruct (p a) eqn:E; split.
  - discriminate.
  - intros H. specialize (H a (or_introl eq_refl)). congruence.
  - intros H x [Hx|Hx]; [subst; exact E|]. apply IH; assumption.
  - intros H. apply IH. intros x Hx. apply H. right. exact Hx.
Qed.

Lemma by_as_without l n j : by_as l n = [j] -> by_as (without_one l j) n = [].
Proof.
  intros H. unfold by_as. apply filter_nil_iff. intros x Hx.
  destruct (str_eqb (i_as x) n) eqn:E; [|reflexivity]. exfalso.
  unfold without_one in Hx. apply filter_In in Hx. destruct Hx as [Hx Hp].
  assert (In x (by_as l n)) as Hin by (unfold by_as; apply filter_In; split; assumption).
  rewrite H in Hin. destruct Hin as [Hin|[]]. subst x. rewrite imp_eqb_refl in Hp. discriminate.
Qed.

Lemma by_as_incl l l' n : incl l' l -> by_as l n = [] -> by_as l' n = [].
Proof.
  unfold by_as. intros Hi H. apply filter_nil_iff. intros x Hx.
  rewrite filter_nil_iff in H. apply H. apply Hi. exact Hx.
Qed.

Lemma Forall2_shrink_refl l : Forall2 shrink l l.
Proof. induction l; constructor; [split; [reflexivity|apply incl_refl]|assumption]. Qed.

Lemma Forall2_shrink_map l (g : iblock -> iblock) :
  (forall b, shrink b (g b)) -> Forall2 shrink l (map g l).
Proof. intros Hg. induction l; cbn; constructor; auto. Qed.

Lemma Forall2_shrink_trans l1 l2 l3 : Forall2 shrink l1 l2 -> Forall2 shrink l2 l3 -> Forall2 shrink l1 l3.
Proof.
  intros H. revert l3. induction H as [|a b l1 l2 Hab H IH]; intros l3 H3; inversion H3; subst; constructor.
  - destruct Hab as [P1 I1]. match goal with Hs : shrink b _ |- _ => destruct Hs as [P2 I2] end.
    split; [congruence|]. eapply incl_tran; eauto.
  - apply IH. assumption.
Qed.

Lemma Forall2_in_r {A B} (P : A -> B -> Prop) l l' y :
  Forall2 P l l' -> In y l' -> exists x, In x l /\ P x y.
Proof.
  intros H. induction H as [|a b l l' Hab H IH]; intros Hy; [destruct Hy|].
  destruct Hy as [Hy|Hy]; [subst; exists a; split; [left; reflexivity|assumption]|].
  destruct (IH Hy) as [x [Hx Hp]]. exists x. split; [right; assumption|assumption].
Qed.

Lemma remove_import_step c bs l imp bs' :
  remove_import c bs (l, imp) = Ok bs' ->
  Forall2 shrink (iblocks bs) (iblocks bs') /\
  (forall b', In b' (iblocks bs') -> covers c l b' = true -> by_as (ib_imps b') (i_as imp) = []).
Proof.
  unfold remove_import, find_block. cbn [fst snd].
  destruct (filter (covers c l) (iblocks bs)) as [|b [|b2 r]] eqn:F; try discriminate.
  - intros E; inversion E; subst bs'. split; [apply Forall2_shrink_refl|].
    intros b' Hb' Hc. rewrite filter_nil_iff in F. rewrite (F b' Hb') in Hc. discriminate.
  - destruct (by_as (ib_imps b) (i_as imp)) as [|j [|]] eqn:B; try discriminate.
    + intros E; inversion E; subst bs'. split; [apply Forall2_shrink_refl|].
      intros b' Hb' Hc. assert (In b' [b]) as Hin by (rewrite <- F; apply filter_In; split; assumption).
      destruct Hin as [Hin|[]]. subst b'. exact B.
    + intros E; inversion E; subst bs'. clear E. rewrite iblocks_upd.
      set (f := fun b' : iblock => set_imps b' (without_one (ib_imps b') j)).
      assert (Hg : forall x, shrink x (upd1 (ib_id b) f x)).
      { intros x. unfold upd1. destruct (ib_id x =? ib_id b).
        - split; [reflexivity|]. intros i Hi. cbn in Hi. eapply without_one_incl. exact Hi.
        - split; [reflexivity|apply incl_refl]. }
      split; [apply Forall2_shrink_map; exact Hg|].
      intros b' Hb' Hc. apply in_map_iff in Hb'. destruct Hb' as [x [Ex Hx]]. subst b'.
      rewrite (covers_pos c l x _ (proj1 (Hg x))) in Hc.
      assert (In x [b]) as Hin by (rewrite <- F; apply filter_In; split; assumption).
      destruct Hin as [Hin|[]]. subst x. unfold upd1. rewrite Nat.eqb_refl. cbn. apply by_as_without. exact B.
Qed.

Lemma remove_import_shrink c bs u bs' : remove_import c bs u = Ok bs' -> Forall2 shrink (iblocks bs) (iblocks bs').
Proof. destruct u as [l imp]. intros H. apply remove_import_step in H. tauto. Qed.

Lemma remove_all_shrink c us : forall bs bs', remove_all c bs us = Ok bs' -> Forall2 shrink (iblocks bs) (iblocks bs').
Proof.
  induction us as [|u us IH]; intros bs bs' E; cbn [remove_all] in E.
  - inversion E; subst. apply Forall2_shrink_refl.
  - destruct (remove_import c bs u) as [bs1|] eqn:E1; [|discriminate].
    eapply Forall2_shrink_trans; [eapply remove_import_shrink; exact E1|apply IH; exact E].
Qed.

(* C04 no_unused_left: when the removal phase does not raise, no import block that covers the line of a reported
   unused import still holds an import with that local name.  (What stays behind: unused imports on lines that no
   top-level import block covers - "not global" -, and what the analysis does not report: __future__ and star
   imports; mandatory imports are added again afterwards; __init__.py / .pyflyby files skip the phase.) *)
Theorem no_unused_left c us : forall bs bs',
  remove_all c bs us = Ok bs' ->
  forall l imp, In (l, imp) us ->
  forall b', In b' (iblocks bs') -> covers c l b' = true -> by_as (ib_imps b') (i_as imp) = [].
Proof.
  induction us as [|u us IH]; intros bs bs' E l imp Hin b' Hb' Hc; [destruct Hin|].
  cbn [remove_all] in E. destruct (remove_import c bs u) as [bs1|] eqn:E1; [|discriminate].
  destruct Hin as [Hin|Hin].
  - subst u. apply remove_import_step in E1. destruct E1 as [_ H1].
    apply remove_all_shrink in E. destruct (Forall2_in_r _ _ _ _ E Hb') as [b1 [Hb1 [Hp Hi]]].
    eapply by_as_incl; [exact Hi|]. apply H1; [exact Hb1|]. rewrite <- (covers_pos c l b1 b' Hp). exact Hc.
  - eapply IH; eauto.
Qed.


(* Entry points evaluated by the correspondence harness (harness/c04_s2s.py, c03.py, c04.py). *)
From Coq Require Import NArith List String Bool Arith.
From Verif Require Import Base.Chars Base.StrX Base.Show Tidy.Blocks Tidy.Fix.
Import ListNotations.
Open Scope string_scope.

(* the captured renderings: ImportSet.pretty_print(params) per import set (compared as sets) *)
Definition same_set (a b : list import) : bool :=
  forallb (fun x => imp_in x b) a && forallb (fun x => imp_in x a) b.

Definition R_of (tbl : list (list import * str)) (imps : list import) : str :=
  match find (fun e => same_set (fst e) imps) tbl with
  | Some e => snd e
  | None => dec "<<no captured rendering>>"
  end.

(* the captured tokenizer verdicts: the texts after which _ends_with_line_continuation found a comment on the last line *)
Definition NC_of (commented : list str) (t : str) : bool := negb (existsb (str_eqb t) commented).

Definition known_of (tbl : list (str * list import)) (n : str) : list import :=
  match find (fun e => str_eqb (fst e) n) tbl with
  | Some e => snd e
  | None => []
  end.

Definition imp_fun_of (tbl : list (import * import)) (i : import) : import :=
  match find (fun e => imp_eqb (fst e) i) tbl with
  | Some e => snd e
  | None => i
  end.

Definition show_err (e : err) : string :=
  match e with
  | EConflict => "ConflictingImportsError"
  | ELineAmbiguous => "LineNumberAmbiguousError"
  | EMultipleRemove => "Exception"
  | ESortTie => "TypeError"
  | EAlreadyExists => "ImportAlreadyExistsError"
  | ENoBlocks => "IndexError"
  end.

Definition show_res_str (r : res str) : list (string * string) :=
  match r with
  | Ok t => [("out", show_str t); ("err", "null")]
  | Err e => [("out", "null"); ("err", show_string (show_err e))]
  end.

Definition show_imp (i : import) : string := show_list show_str [fullname_str i; i_as i].

Definition show_outcome (o : outcome) : string :=
  match o with
  | Added id isnew => show_list (fun x => x) [show_string "added"; show_nat id; show_bool isnew]
  | Exists => show_list show_string ["exists"]
  | Refused => show_list show_string ["refused"]
  end.

Definition show_logline (l : logline) : string :=
  let '(imp, L, o) := l in
  show_list (fun x => x) [show_imp imp; show_option show_nat L; show_outcome o].

Definition show_iblock (b : iblock) : string :=
  show_obj [("id", show_nat (ib_id b)); ("imports", show_list show_imp (ib_imps b))].

(* reformat_import_statements / the first pass *)
Definition run_reformat (c : cfg) (cm : list str) (tbl : list (list import * str)) (bs0 : list block) : string :=
  show_obj (show_res_str (pp (R_of tbl) (NC_of cm) c bs0)).

(* fix_unused_and_missing_imports: first pass on bs0, then the edit of bs1 (the captured decomposition of the
   first pass's output) with the captured analysis result and database answers *)
Definition run_tidy (c : cfg) (cm : list str) (fl : flags) (tbl : list (list import * str))
           (bs0 bs1 : list block) (ms : list (nat * str)) (us : list (nat * import))
           (known : list (str * list import)) (mand : list import) : string :=
  let R := R_of tbl in
  let first := match pp R (NC_of cm) c bs0 with Ok t => show_str t | Err e => show_string (show_err e) end in
  match fix_blocks c fl (known_of known) mand bs1 ms us with
  | Err e => show_obj [("t1", first); ("out", "null"); ("err", show_string (show_err e)); ("log", "[]"); ("blocks", "[]")]
  | Ok (bs2, log) =>
      show_obj (("t1", first) :: show_res_str (pp R (NC_of cm) c bs2)
                ++ [("log", show_list show_logline log); ("blocks", show_list show_iblock (iblocks bs2))])
  end.

(* replace_star_imports *)
Definition run_star (c : cfg) (cm : list str) (tbl : list (list import * str)) (bs0 : list block)
           (ordered : list (nat * list import)) (exports : list (import * list import)) : string :=
  let ex i := match find (fun e => imp_eqb (fst e) i) exports with Some e => Some (snd e) | None => None end in
  let od id := match find (fun e => Nat.eqb (fst e) id) ordered with Some e => snd e | None => [] end in
  show_obj (show_res_str (pp (R_of tbl) (NC_of cm) c (replace_star ex od bs0))).

(* remove_broken_imports *)
Definition run_broken (c : cfg) (cm : list str) (tbl : list (list import * str)) (bs0 : list block) (broken : list import) : string :=
  show_obj (show_res_str (pp (R_of tbl) (NC_of cm) c (remove_broken (fun i => imp_in i broken) bs0))).

(* transform_imports *)
Definition run_transform (c : cfg) (cm : list str) (tbl : list (list import * str)) (bs0 : list block)
           (tr : list (import * import)) (tb : list (str * str)) : string :=
  let tbf t := match find (fun e => str_eqb (fst e) t) tb with Some e => snd e | None => t end in
  show_obj (show_res_str (pp (R_of tbl) (NC_of cm) c (transform (imp_fun_of tr) tbf bs0))).

(* derived attributes of an import, checked against Import.split on the implementation side *)
Definition run_attrs (i : import) : string :=
  show_list show_bool [is_star i; is_future i; member_is_star i].

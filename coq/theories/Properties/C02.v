(* C02 - rewriting imports never changes what the program does.
   Only statements, `exact`, and Print Assumptions here; proofs are in Scope/*Proofs.v and ImportSem/*Proofs.v.

   Ingredients: Finder (pyflyby's unused-import analysis, Scope/Finder.v, F16 repaired), PySem (reference
   resolution trace, every read tagged with the binding it resolves to), the C11 ImportSet model
   (Imports/ImportSet.v: from_imports with ignore_shadowed, get_statements / canonical) and block_env
   (ImportSem/BlockEnv.v: last binder of each top-level name wins).

   FULL STATEMENTS (DESIGN.md section 5 C02 / Appendix I):
     unused_sound          : In (l, i) (snd (finder bi ns true p)) -> forall ln n, ~ In (ln, n, Bound (BImp l i)) (pysem bi ns p)
     remove_preserves_trace: removing top-level import items that no read resolves to leaves every read resolving to
                             the same binding and every surviving final global unchanged
     block_render_preserves_env : lookup_env (rendered sep B) = lookup_env B
     surviving_binding_is_the_one_read : the binding in effect at each read is the one that survives
   unused_sound is FALSE of the faithful model and of pyflyby (F31, F34, a class's own name, a stale dotted key,
   duplicate items: *_refuted below; the last clause is the same statement seen from the rewriting side);
   block_render_preserves_env is false for incompatible blocks (F7).

   PROVED for the analysis side (which imports are reported unused): fragment 1 = Fragment.u1_block (module-level code,
   one-component import keys) and fragment 2 = Fragment.u2_block + Fragment.imports_once (fragment 1 + def / lambda
   scopes to any depth; every import statement a top-level statement; every imported name bound exactly once at module
   level and not a builtin / initial-namespace name).  On both, composed with remove_preserves_trace: the removal step
   of tidy-imports leaves the resolution trace unchanged (C02_tidy_remove_preserves_trace_stage1 / _stage2). *)
From Coq Require Import NArith List Bool String.
From Verif Require Import Base.Chars Imports.Import Imports.ImportSet Imports.ImportSetProofs
                          Scope.PySyntax Scope.Finder Scope.PySem Scope.Fragment Scope.Remove Scope.UnusedProofs Scope.RemoveProofs
                          ImportSem.BlockEnv ImportSem.BlockEnvProofs Scope.Stage2Unused Scope.DocUnused Scope.EndToEnd.
Import ListNotations.
Local Open Scope string_scope.

(* unused_sound_partial: stage 1 (module-level code without nested scopes), every import binds a one-component
   key, pairwise distinct (line, import) pairs *)
Theorem C02_unused_sound_partial : forall bi ns p, u1_block p = true -> star_free bi ns = true ->
  NoDup (imp_events (bsrcs_block false p)) ->
  forall l i, In (l, i) (snd (finder bi ns true p)) ->
  forall ln n, ~ In (ln, n, Bound (BImp l i)) (pysem bi ns p).
Proof. exact u1_unused_sound. Qed.
Print Assumptions C02_unused_sound_partial.

(* remove_preserves_trace: FULL on PySem - every program of the mini-language (functions, classes, lambdas,
   comprehensions included), every set R of (line, import) pairs that no read resolves to: removing those items
   from the top-level import statements leaves the resolution trace identical, and every final global whose
   binding is not a removed import unchanged *)
Theorem C02_remove_preserves_trace : forall bi ns p R,
  (forall ln n l i, In (ln, n, Bound (BImp l i)) (pysem bi ns p) -> R l i = false) ->
  pysem bi ns (remove_top R p) = pysem bi ns p /\
  forall x b, lookup_b x (final_globals bi ns p) = Some b -> removed_src R b = false ->
              lookup_b x (final_globals bi ns (remove_top R p)) = Some b.
Proof. exact remove_preserves_trace. Qed.
Print Assumptions C02_remove_preserves_trace.

(* the same with the doctest examples of every docstring (module, def, class, method bodies; run after the module in a
   copy of its final namespace, as the doctest module runs them): "no import whose binding is read anywhere - doctests
   included - may be removed" is exactly the hypothesis; then the whole trace, doctest reads included, is unchanged *)
Theorem C02_remove_preserves_trace_doctests : forall bi ns p R,
  (forall ln n l i, In (ln, n, Bound (BImp l i)) (pysem_doc bi ns p) -> R l i = false) ->
  pysem_doc bi ns (remove_top R p) = pysem_doc bi ns p.
Proof. exact remove_preserves_trace_doc. Qed.
Print Assumptions C02_remove_preserves_trace_doctests.

(* block_render_preserves_env_partial: re-rendering a compatible import block keeps what every name denotes and
   what is loaded *)
Theorem C02_block_render_preserves_env_partial : forall sep B, Forall wf_import B -> compatible B ->
  (forall x, lookup_env (rendered sep B) x = lookup_env B x) /\
  (forall m, In m (loaded (rendered sep B)) <-> In m (loaded B)).
Proof. exact block_render_preserves_env_partial. Qed.
Print Assumptions C02_block_render_preserves_env_partial.

(* F7:  from aa import a ; import a.b   ->  import a.b ; from aa import a *)
Theorem C02_block_render_preserves_env_refuted :
  let B := [mkImport (dec "aa.a") (dec "a"); mkImport (dec "a.b") (dec "a.b")] in
  lookup_env (rendered true B) (dec "a") <> lookup_env B (dec "a").
Proof. vm_compute. discriminate. Qed.
Print Assumptions C02_block_render_preserves_env_refuted.

(* ---------- refutations of the full unused_sound (= surviving_binding_is_the_one_read) ---------- *)
Definition unused_sound_at (p : program) : Prop :=
  forall l i, In (l, i) (snd (finder [] [[]] true p)) -> forall ln n, ~ In (ln, n, Bound (BImp l i)) (pysem [] [[]] p).
Local Open Scope N_scope.
Definition P0 : params := Params [] [] None [] None [] [].
(* F34:  from os import sep as b ; def f(): b.x ; from os import pardir as b *)
Theorem C02_unused_sound_refuted_F34 :
  ~ unused_sound_at [SImportFrom 1 [70] [(71, Some 72)]; SDef 2 73 [] P0 None [SExpr 3 (ELoad 72 [74])]; SImportFrom 4 [70] [(75, Some 72)]].
Proof. unfold unused_sound_at. intro H. apply (H 4%nat ([70; 75], [72])) with (ln := 3%nat) (n := 72); vm_compute; auto. Qed.
Print Assumptions C02_unused_sound_refuted_F34.
(* F31:  def f(): f.sep ; g = f ; import os as f *)
Theorem C02_unused_sound_refuted_F31 :
  ~ unused_sound_at [SDef 1 73 [] P0 None [SExpr 2 (ELoad 73 [74])]; SAssign 3 [TName 76] (ELoad 73 []); SImport 4 [([70], Some 73)]].
Proof. unfold unused_sound_at. intro H. apply (H 4%nat ([70], [73])) with (ln := 2%nat) (n := 73); vm_compute; auto. Qed.
Print Assumptions C02_unused_sound_refuted_F31.
(* a class's own name (F10-class on the unused side):  import n as b ; class b: f = b.y *)
Theorem C02_unused_sound_refuted_classname :
  ~ unused_sound_at [SImport 1 [([77], Some 72)]; SClass 2 72 [] [] [] [SAssign 3 [TName 73] (ELoad 72 [74])]].
Proof. unfold unused_sound_at. intro H. apply (H 1%nat ([77], [72])) with (ln := 3%nat) (n := 72); vm_compute; auto. Qed.
Print Assumptions C02_unused_sound_refuted_classname.
(* a stale dotted key (F16b):  import p.s ; from q import m as p ; p.s *)
Theorem C02_unused_sound_refuted_stale_key :
  ~ unused_sound_at [SImport 1 [([78; 79], None)]; SImportFrom 2 [80] [(81, Some 78)]; SExpr 3 (ELoad 78 [79])].
Proof. unfold unused_sound_at. intro H. apply (H 2%nat ([80; 81], [78])) with (ln := 3%nat) (n := 78); vm_compute; auto. Qed.
Print Assumptions C02_unused_sound_refuted_stale_key.
(* F10-classcomp on the unused side:  from m import x ; class C: x = 1 ; y = [x for w in 1]  - the comprehension
   reads the GLOBAL x *)
Theorem C02_unused_sound_refuted_classcomp :
  ~ unused_sound_at [SImportFrom 1 [80] [(82, None)];
                     SClass 2 83 [] [] [] [SAssign 3 [TName 82] (EOp []); SAssign 4 [TName 84] (EComp [Gen (EOp []) (TName 85) []] [ELoad 82 []])]].
Proof. unfold unused_sound_at. intro H. apply (H 1%nat ([80; 82], [82])) with (ln := 4%nat) (n := 82); vm_compute; auto. Qed.
Print Assumptions C02_unused_sound_refuted_classcomp.
(* F10-firstiter on the unused side:  [1 for c in [(lambda: c.x)]] ; from m import c *)
Theorem C02_unused_sound_refuted_firstiter :
  ~ unused_sound_at [SExpr 1 (EComp [Gen (EOp [ELambda [] [] (ELoad 86 [87])]) (TName 86) []] [EOp []]);
                     SImportFrom 2 [80] [(86, None)]].
Proof. unfold unused_sound_at. intro H. apply (H 2%nat ([80; 86], [86])) with (ln := 1%nat) (n := 86); vm_compute; auto. Qed.
Print Assumptions C02_unused_sound_refuted_firstiter.
(* two items with the same (line, import):  import a, a ; a *)
Theorem C02_unused_sound_refuted_duplicate_item :
  ~ unused_sound_at [SImport 1 [([50], None); ([50], None)]; SExpr 2 (ELoad 50 [])].
Proof. unfold unused_sound_at. intro H. apply (H 1%nat ([50], [50])) with (ln := 2%nat) (n := 50); vm_compute; auto. Qed.
Print Assumptions C02_unused_sound_refuted_duplicate_item.

(* F16 is repaired:  import os.path ; os.getcwd()  - nothing is reported unused *)
Example C02_F16_repaired :
  snd (finder [] [[]] true [SImport 1 [([50; 51], None)]; SExpr 2 (EOp [ELoad 50 [52]])]) = [].
Proof. vm_compute. reflexivity. Qed.

(* non-vacuity *)
Example C02_nonvacuous_block :
  let B := [mkImport (dec "m.x") (dec "x"); mkImport (dec "a.b") (dec "a.b"); mkImport (dec "a.c") (dec "a.c")] in
  rendered true B = [mkImport (dec "a.b") (dec "a.b"); mkImport (dec "a.c") (dec "a.c"); mkImport (dec "m.x") (dec "x")] /\
  lookup_env B (dec "a") = Some (true, dec "a").
Proof. vm_compute. split; reflexivity. Qed.
(* import m as a ; import n as b ; def f(): a.x    - remove the unused `import n as b` *)
Example C02_nonvacuous_remove :
  let p := [SImport 1 [([60], Some 61)]; SImport 2 [([62], Some 63)]; SDef 3 64 [] P0 None [SExpr 4 (ELoad 61 [65])]] in
  let R := fun l (i : import) => Nat.eqb l 2 in
  remove_top R p = [SImport 1 [([60], Some 61)]; SImport 2 []; SDef 3 64 [] P0 None [SExpr 4 (ELoad 61 [65])]] /\
  pysem [] [[]] p = [(4%nat, 61, Bound (BImp 1 ([60], [61])))].
Proof. vm_compute. split; reflexivity. Qed.


(* ---------- stage 2: function and lambda scopes ---------- *)
(* unused_sound for stage-2 code (Fragment.u2_block: def with decorators / defaults / annotations / nested defs / closures,
   lambdas; import statements only at the top level of the module, binding one-component keys; no `from __future__`) in
   which every imported name is bound exactly once at module level and is no builtin / initial-namespace name
   (Fragment.imports_once: F34, F31 and the shadowed-builtin witness below are what happens otherwise) *)
Theorem C02_unused_sound_stage2 : forall bi ns p, u2_block p = true -> star_free bi ns = true ->
  imports_once bi ns p = true -> NoDup (imp_events (bsrcs_block false p)) ->
  forall l i, In (l, i) (snd (finder bi ns true p)) ->
  forall ln n, ~ In (ln, n, Bound (BImp l i)) (pysem bi ns p).
Proof. exact u2_unused_sound. Qed.
Print Assumptions C02_unused_sound_stage2.

(* end to end: remove exactly what scan_for_import_issues reports unused (tidy_remove) - the trace is unchanged, and
   so is every final global that is not a removed import *)
Theorem C02_tidy_remove_preserves_trace_stage1 : forall bi ns p, u1_block p = true -> star_free bi ns = true ->
  NoDup (imp_events (bsrcs_block false p)) ->
  pysem bi ns (tidy_remove bi ns p) = pysem bi ns p /\
  forall x b, lookup_b x (final_globals bi ns p) = Some b -> removed_src (in_report (snd (finder bi ns true p))) b = false ->
              lookup_b x (final_globals bi ns (tidy_remove bi ns p)) = Some b.
Proof. exact tidy_remove_preserves_trace_stage1. Qed.
Print Assumptions C02_tidy_remove_preserves_trace_stage1.
Theorem C02_tidy_remove_preserves_trace_stage2 : forall bi ns p, u2_block p = true -> star_free bi ns = true ->
  imports_once bi ns p = true -> NoDup (imp_events (bsrcs_block false p)) ->
  pysem bi ns (tidy_remove bi ns p) = pysem bi ns p /\
  forall x b, lookup_b x (final_globals bi ns p) = Some b -> removed_src (in_report (snd (finder bi ns true p))) b = false ->
              lookup_b x (final_globals bi ns (tidy_remove bi ns p)) = Some b.
Proof. exact tidy_remove_preserves_trace_stage2. Qed.
Print Assumptions C02_tidy_remove_preserves_trace_stage2.
(* the same with the report fix_unused_and_missing_imports really computes (parse_docstrings=True: the doctest examples
   are scanned after the module, then the {brace} identifiers are looked up, then the module scope's unused imports are
   reported) and the trace that includes the doctest examples.  The docstrings may stand anywhere a string statement may
   (module, def bodies, after assignments); every doctest example is a load-only expression statement or an
   assignment of such an expression to names (Fragment.dx_docs: names, attribute chains, operators / calls); {brace} identifiers are unrestricted. *)
Theorem C02_unused_sound_doc_stage2 : forall bi ns p, u2_block p = true -> dx_docs p = true -> star_free bi ns = true ->
  imports_once bi ns p = true -> NoDup (imp_events (bsrcs_block false p)) ->
  forall l i, In (l, i) (snd (finder_doc bi ns p)) ->
  forall ln n, ~ In (ln, n, Bound (BImp l i)) (pysem_doc bi ns p).
Proof. exact u2_doc_unused_sound. Qed.
Print Assumptions C02_unused_sound_doc_stage2.
Theorem C02_tidy_fix_preserves_trace_stage2 : forall bi ns p, u2_block p = true -> dx_docs p = true -> star_free bi ns = true ->
  imports_once bi ns p = true -> NoDup (imp_events (bsrcs_block false p)) ->
  pysem_doc bi ns (remove_top (in_report (snd (finder_doc bi ns p))) p) = pysem_doc bi ns p.
Proof. exact tidy_fix_preserves_trace_stage2. Qed.
Print Assumptions C02_tidy_fix_preserves_trace_stage2.

(* what fragment 2 excludes (beyond F34 / F31 / duplicate items above) *)
Local Open Scope N_scope.
(* C05a (repaired, fixes/C05a-local-import-deferred-unused-check.diff): a function-local import used only by a nested function
   defined before it - the unused imports of a scope that is left are now reported after the deferred load checks
     def f():
         def g(): return os
         import os
         g()                                                                                        *)
Definition W_local_import : program :=
  [SDef 1 90 [] P0 None [SDef 2 91 [] P0 None [SExpr 3 (ELoad 92 [])]; SImport 4 [([92], None)]; SExpr 5 (EOp [ELoad 91 []])]].
Example C02_C05a_repaired : snd (finder [] [[]] true W_local_import) = [] /\
  In (3%nat, 92, Bound (BImp 4 ([92], [92]))) (pysem [] [[]] W_local_import).
Proof. vm_compute. auto. Qed.
(* an import that shadows a builtin / namespace name, read in a function defined before it (F34 with the first binding
   coming from the namespace):   def f(): len.x ; import m as len                                   *)
Definition W_shadow_builtin : program := [SDef 1 90 [] P0 None [SExpr 2 (ELoad 93 [94])]; SImport 3 [([95], Some 93)]].
Theorem C02_unused_sound_refuted_shadow_builtin :
  ~ (forall l i, In (l, i) (snd (finder [93] [[]] true W_shadow_builtin)) ->
     forall ln n, ~ In (ln, n, Bound (BImp l i)) (pysem [93] [[]] W_shadow_builtin)).
Proof. intro H. apply (H 3%nat ([95], [93])) with (ln := 2%nat) (n := 93); vm_compute; auto. Qed.
Print Assumptions C02_unused_sound_refuted_shadow_builtin.

(* non-vacuity of stage 2:
     def f(): a.x          line 1-2: read of a deferred, resolved against the later import
     import m as a         line 3
     import n as b         line 4
     from q import c       line 5: unused
     b                     line 6                                                               *)
Definition P_u2 : program :=
  [SDef 1 100 [] P0 None [SExpr 2 (ELoad 101 [102])]; SImport 3 [([103], Some 101)]; SImport 4 [([104], Some 105)];
   SImportFrom 5 [106] [(107, None)]; SExpr 6 (ELoad 105 [])].
Example C02_nonvacuous_stage2 :
  u2_block P_u2 = true /\ u1_block P_u2 = false /\ imports_once [] [[]] P_u2 = true /\
  snd (finder [] [[]] true P_u2) = [(5%nat, ([106; 107], [107]))] /\
  tidy_remove [] [[]] P_u2 =
    [SDef 1 100 [] P0 None [SExpr 2 (ELoad 101 [102])]; SImport 3 [([103], Some 101)]; SImport 4 [([104], Some 105)];
     SImportFrom 5 [106] []; SExpr 6 (ELoad 105 [])] /\
  pysem [] [[]] P_u2 = [(2%nat, 101, Bound (BImp 3 ([103], [101]))); (6%nat, 105, Bound (BImp 4 ([104], [105])))].
Proof. vm_compute. repeat split. Qed.


(* ---------- stage 3: comprehensions ---------- *)
(* Fragment.u3_block: fragment 2 with comprehensions (stage-3 statements: a comprehension wherever an expression may stand,
   nested, in function and lambda bodies; inside a comprehension no lambda, no nested scope in its first iterable) *)
Theorem C02_unused_sound_stage3 : forall bi ns p, u3_block p = true -> star_free bi ns = true ->
  imports_once bi ns p = true -> NoDup (imp_events (bsrcs_block false p)) ->
  forall l i, In (l, i) (snd (finder bi ns true p)) ->
  forall ln n, ~ In (ln, n, Bound (BImp l i)) (pysem bi ns p).
Proof. exact u3_unused_sound. Qed.
Print Assumptions C02_unused_sound_stage3.
Theorem C02_tidy_remove_preserves_trace_stage3 : forall bi ns p, u3_block p = true -> star_free bi ns = true ->
  imports_once bi ns p = true -> NoDup (imp_events (bsrcs_block false p)) ->
  pysem bi ns (tidy_remove bi ns p) = pysem bi ns p /\
  forall x b, lookup_b x (final_globals bi ns p) = Some b -> removed_src (in_report (snd (finder bi ns true p))) b = false ->
              lookup_b x (final_globals bi ns (tidy_remove bi ns p)) = Some b.
Proof. exact tidy_remove_preserves_trace_stage3. Qed.
Print Assumptions C02_tidy_remove_preserves_trace_stage3.
Theorem C02_unused_sound_doc_stage3 : forall bi ns p, u3_block p = true -> dx_docs p = true -> star_free bi ns = true ->
  imports_once bi ns p = true -> NoDup (imp_events (bsrcs_block false p)) ->
  forall l i, In (l, i) (snd (finder_doc bi ns p)) ->
  forall ln n, ~ In (ln, n, Bound (BImp l i)) (pysem_doc bi ns p).
Proof. exact u3_doc_unused_sound. Qed.
Print Assumptions C02_unused_sound_doc_stage3.
Theorem C02_tidy_fix_preserves_trace_stage3 : forall bi ns p, u3_block p = true -> dx_docs p = true -> star_free bi ns = true ->
  imports_once bi ns p = true -> NoDup (imp_events (bsrcs_block false p)) ->
  pysem_doc bi ns (remove_top (in_report (snd (finder_doc bi ns p))) p) = pysem_doc bi ns p.
Proof. exact tidy_fix_preserves_trace_stage3. Qed.
Print Assumptions C02_tidy_fix_preserves_trace_stage3.

(* non-vacuity of stage 3:
     import m as a         line 1
     import n as b         line 2: unused
     def f(t): return [a.x + u for u in t]      lines 3-4: a read inside a comprehension inside a function
     [v for v in c if v]   line 5: c is imported later: the module-level read is a NameError, not a use
     import q as c         line 6: unused                                                       *)
Definition P_u3 : program :=
  [SImport 1 [([130], Some 131)]; SImport 2 [([132], Some 133)];
   SDef 3 134 [] (Params [] [(135, None)] None [] None [] []) None
     [SExpr 4 (EComp [Gen (ELoad 135 []) (TName 136) []] [EOp [ELoad 131 [137]; ELoad 136 []]])];
   SExpr 5 (EComp [Gen (ELoad 138 []) (TName 139) [ELoad 139 []]] [ELoad 139 []]);
   SImport 6 [([140], Some 138)]].
Example C02_nonvacuous_stage3 :
  u3_block P_u3 = true /\ u2_block P_u3 = false /\ imports_once [] [[]] P_u3 = true /\
  snd (finder [] [[]] true P_u3) = [(2%nat, ([132], [133])); (6%nat, ([140], [138]))] /\
  In (4%nat, 131, Bound (BImp 1 ([130], [131]))) (pysem [] [[]] P_u3) /\ In (5%nat, 138, Unbound) (pysem [] [[]] P_u3).
Proof. vm_compute. repeat split; auto 20. Qed.

(* docstrings are inside the fragments; non-vacuity of the doctest theorems:
     """doc {d}            line 1: the module docstring names d in braces, its example reads a
     >>> a.x               (example line 2)
     """
     import m as a         line 4: read only by the doctest example
     import n as b         line 5: unused
     import q as d         line 6: named only in braces
     def f():              line 7
         """doc            line 8: a function docstring
         >>> g(a)          (example line 9): g is missing - not reported by scan_for_import_issues, a is used
         """
   without the docstrings all three imports are reported; with them only line 5, and the two example reads of a are
   in the trace with doctests *)
Definition P_doc : program :=
  [SDoc 1 [SExpr 2 (ELoad 151 [152])] [153];
   SImport 4 [([154], Some 151)]; SImport 5 [([155], Some 156)]; SImport 6 [([157], Some 153)];
   SDef 7 158 [] P0 None [SDoc 8 [SExpr 9 (EOp [ELoad 159 []; ELoad 151 []])] []]].
(* an assignment example: `>>> t = d.x` (line 2) then `>>> t.y` (line 3, reads the example's own t): the import d (line 5) is
   kept because of line 2; line 3 resolves to the assignment, not to an import *)
Definition P_doc_assign : program :=
  [SDoc 1 [SAssign 2 [TName 165] (ELoad 166 [152]); SExpr 3 (ELoad 165 [167])] []; SImport 5 [([168], Some 166)]; SImport 6 [([169], Some 165)]].
Example C02_nonvacuous_doc_assign :
  u2_block P_doc_assign = true /\ dx_docs P_doc_assign = true /\ imports_once [] [[]] P_doc_assign = true /\
  In (2%nat, 166, Bound (BImp 5 ([168], [166]))) (pysem_doc [] [[]] P_doc_assign) /\
  In (3%nat, 165, Bound BOther) (pysem_doc [] [[]] P_doc_assign) /\
  snd (finder_doc [] [[]] P_doc_assign) = nil.
Proof. vm_compute. repeat split; auto. Qed.
Example C02_nonvacuous_doc :
  u2_block P_doc = true /\ dx_docs P_doc = true /\ imports_once [] [[]] P_doc = true /\
  snd (finder [] [[]] true P_doc) = [(4%nat, ([154], [151])); (5%nat, ([155], [156])); (6%nat, ([157], [153]))] /\
  snd (finder_doc [] [[]] P_doc) = [(5%nat, ([155], [156]))] /\
  pysem [] [[]] P_doc = [] /\
  pysem_doc [] [[]] P_doc = [(2%nat, 151, Bound (BImp 4 ([154], [151]))); (9%nat, 159, Unbound); (9%nat, 151, Bound (BImp 4 ([154], [151])))].
Proof. vm_compute. repeat split. Qed.

(* what dx_docs excludes: a doctest example with a scope of its own is scanned by the same finder that is wrong about
   classes (F10-class): the example `class b: f = b.y` reads the imported b (the class is not bound yet), the finder
   finds the class's own name in the class scope *)
Definition P_doc_class : program :=
  [SDoc 1 [SClass 2 161 [] [] [] [SAssign 3 [TName 162] (ELoad 161 [163])]] []; SImport 5 [([164], Some 161)]].
Example C02_unused_sound_doc_refuted_class_example :
  u2_block P_doc_class = true /\ dx_docs P_doc_class = false /\
  In (5%nat, ([164], [161])) (snd (finder_doc [] [[]] P_doc_class)) /\
  In (3%nat, 161, Bound (BImp 5 ([164], [161]))) (pysem_doc [] [[]] P_doc_class).
Proof. vm_compute. repeat split; auto. Qed.

(* C02 - rewriting imports never changes what the program does.
   Only statements, `exact`, and Print Assumptions here; proofs are in Scope/*Proofs.v and ImportSem/*Proofs.v.

   Ingredients: Finder (pyflyby's unused-import analysis, Scope/Finder.v, F16 repaired), PySem (reference
   resolution trace, every read tagged with the binding it resolves to), the C11 ImportSet model
   (Imports/ImportSet.v: from_imports with ignore_shadowed, get_statements / canonical) and block_env
   (ImportSem/BlockEnv.v: last binder of each top-level name wins).

   FULL STATEMENTS (DESIGN.md section 5 C02 / Appendix I):
     unused_sound          : In (l, i) (snd (finder bi ns true p)) -> forall ln n, ~ In (ln, n, Bound (BImp l i)) (pysem bi ns p)
     remove_preserves_trace: removing top-level import items that no read resolves to leaves every read resolving to
                             the same binding and every surviving final global unchanged
     block_render_preserves_env : lookup_env (rendered sep B) = lookup_env B
     surviving_binding_is_the_one_read : the binding in effect at each read is the one that survives
   unused_sound is FALSE of the faithful model and of pyflyby (F31, F34, a class's own name, a stale dotted key,
   duplicate items: *_refuted below; the last clause is the same statement seen from the rewriting side);
   block_render_preserves_env is false for incompatible blocks (F7). *)
From Coq Require Import NArith List Bool String.
From Verif Require Import Base.Chars Imports.Import Imports.ImportSet Imports.ImportSetProofs
                          Scope.PySyntax Scope.Finder Scope.PySem Scope.Fragment Scope.Remove Scope.UnusedProofs Scope.RemoveProofs
                          ImportSem.BlockEnv ImportSem.BlockEnvProofs.
Import ListNotations.
Local Open Scope string_scope.

(* unused_sound_partial: stage 1 (module-level code without nested scopes), every import binds a one-component
   key, pairwise distinct (line, import) pairs *)
Theorem C02_unused_sound_partial : forall bi ns p, u1_block p = true -> star_free bi ns = true ->
  NoDup (imp_events (bsrcs_block false p)) ->
  forall l i, In (l, i) (snd (finder bi ns true p)) ->
  forall ln n, ~ In (ln, n, Bound (BImp l i)) (pysem bi ns p).
Proof. exact u1_unused_sound. Qed.
Print Assumptions C02_unused_sound_partial.

(* remove_preserves_trace: FULL on PySem - every program of the mini-language (functions, classes, lambdas,
   comprehensions included), every set R of (line, import) pairs that no read resolves to: removing those items
   from the top-level import statements leaves the resolution trace identical, and every final global whose
   binding is not a removed import unchanged *)
Theorem C02_remove_preserves_trace : forall bi ns p R,
  (forall ln n l i, In (ln, n, Bound (BImp l i)) (pysem bi ns p) -> R l i = false) ->
  pysem bi ns (remove_top R p) = pysem bi ns p /\
  forall x b, lookup_b x (final_globals bi ns p) = Some b -> removed_src R b = false ->
              lookup_b x (final_globals bi ns (remove_top R p)) = Some b.
Proof. exact remove_preserves_trace. Qed.
Print Assumptions C02_remove_preserves_trace.

(* the same with the doctest examples of every docstring (module, def, class, method bodies; run after the module in a
   copy of its final namespace, as the doctest module runs them): "no import whose binding is read anywhere - doctests
   included - may be removed" is exactly the hypothesis; then the whole trace, doctest reads included, is unchanged *)
Theorem C02_remove_preserves_trace_doctests : forall bi ns p R,
  (forall ln n l i, In (ln, n, Bound (BImp l i)) (pysem_doc bi ns p) -> R l i = false) ->
  pysem_doc bi ns (remove_top R p) = pysem_doc bi ns p.
Proof. exact remove_preserves_trace_doc. Qed.
Print Assumptions C02_remove_preserves_trace_doctests.

(* block_render_preserves_env_partial: re-rendering a compatible import block keeps what every name denotes and
   what is loaded *)
Theorem C02_block_render_preserves_env_partial : forall sep B, Forall wf_import B -> compatible B ->
  (forall x, lookup_env (rendered sep B) x = lookup_env B x) /\
  (forall m, In m (loaded (rendered sep B)) <-> In m (loaded B)).
Proof. exact block_render_preserves_env_partial. Qed.
Print Assumptions C02_block_render_preserves_env_partial.

(* F7:  from aa import a ; import a.b   ->  import a.b ; from aa import a *)
Theorem C02_block_render_preserves_env_refuted :
  let B := [mkImport (dec "aa.a") (dec "a"); mkImport (dec "a.b") (dec "a.b")] in
  lookup_env (rendered true B) (dec "a") <> lookup_env B (dec "a").
Proof. vm_compute. discriminate. Qed.
Print Assumptions C02_block_render_preserves_env_refuted.

(* ---------- refutations of the full unused_sound (= surviving_binding_is_the_one_read) ---------- *)
Definition unused_sound_at (p : program) : Prop :=
  forall l i, In (l, i) (snd (finder [] [[]] true p)) -> forall ln n, ~ In (ln, n, Bound (BImp l i)) (pysem [] [[]] p).
Local Open Scope N_scope.
Definition P0 : params := Params [] [] None [] None [] [].
(* F34:  from os import sep as b ; def f(): b.x ; from os import pardir as b *)
Theorem C02_unused_sound_refuted_F34 :
  ~ unused_sound_at [SImportFrom 1 [70] [(71, Some 72)]; SDef 2 73 [] P0 None [SExpr 3 (ELoad 72 [74])]; SImportFrom 4 [70] [(75, Some 72)]].
Proof. unfold unused_sound_at. intro H. apply (H 4%nat ([70; 75], [72])) with (ln := 3%nat) (n := 72); vm_compute; auto. Qed.
Print Assumptions C02_unused_sound_refuted_F34.
(* F31:  def f(): f.sep ; g = f ; import os as f *)
Theorem C02_unused_sound_refuted_F31 :
  ~ unused_sound_at [SDef 1 73 [] P0 None [SExpr 2 (ELoad 73 [74])]; SAssign 3 [TName 76] (ELoad 73 []); SImport 4 [([70], Some 73)]].
Proof. unfold unused_sound_at. intro H. apply (H 4%nat ([70], [73])) with (ln := 2%nat) (n := 73); vm_compute; auto. Qed.
Print Assumptions C02_unused_sound_refuted_F31.
(* a class's own name (F10-class on the unused side):  import n as b ; class b: f = b.y *)
Theorem C02_unused_sound_refuted_classname :
  ~ unused_sound_at [SImport 1 [([77], Some 72)]; SClass 2 72 [] [] [] [SAssign 3 [TName 73] (ELoad 72 [74])]].
Proof. unfold unused_sound_at. intro H. apply (H 1%nat ([77], [72])) with (ln := 3%nat) (n := 72); vm_compute; auto. Qed.
Print Assumptions C02_unused_sound_refuted_classname.
(* a stale dotted key (F16b):  import p.s ; from q import m as p ; p.s *)
Theorem C02_unused_sound_refuted_stale_key :
  ~ unused_sound_at [SImport 1 [([78; 79], None)]; SImportFrom 2 [80] [(81, Some 78)]; SExpr 3 (ELoad 78 [79])].
Proof. unfold unused_sound_at. intro H. apply (H 2%nat ([80; 81], [78])) with (ln := 3%nat) (n := 78); vm_compute; auto. Qed.
Print Assumptions C02_unused_sound_refuted_stale_key.
(* F10-classcomp on the unused side:  from m import x ; class C: x = 1 ; y = [x for w in 1]  - the comprehension
   reads the GLOBAL x *)
Theorem C02_unused_sound_refuted_classcomp :
  ~ unused_sound_at [SImportFrom 1 [80] [(82, None)];
                     SClass 2 83 [] [] [] [SAssign 3 [TName 82] (EOp []); SAssign 4 [TName 84] (EComp [Gen (EOp []) (TName 85) []] [ELoad 82 []])]].
Proof. unfold unused_sound_at. intro H. apply (H 1%nat ([80; 82], [82])) with (ln := 4%nat) (n := 82); vm_compute; auto. Qed.
Print Assumptions C02_unused_sound_refuted_classcomp.
(* F10-firstiter on the unused side:  [1 for c in [(lambda: c.x)]] ; from m import c *)
Theorem C02_unused_sound_refuted_firstiter :
  ~ unused_sound_at [SExpr 1 (EComp [Gen (EOp [ELambda [] [] (ELoad 86 [87])]) (TName 86) []] [EOp []]);
                     SImportFrom 2 [80] [(86, None)]].
Proof. unfold unused_sound_at. intro H. apply (H 2%nat ([80; 86], [86])) with (ln := 1%nat) (n := 86); vm_compute; auto. Qed.
Print Assumptions C02_unused_sound_refuted_firstiter.
(* two items with the same (line, import):  import a, a ; a *)
Theorem C02_unused_sound_refuted_duplicate_item :
  ~ unused_sound_at [SImport 1 [([50], None); ([50], None)]; SExpr 2 (ELoad 50 [])].
Proof. unfold unused_sound_at. intro H. apply (H 1%nat ([50], [50])) with (ln := 2%nat) (n := 50); vm_compute; auto. Qed.
Print Assumptions C02_unused_sound_refuted_duplicate_item.

(* F16 is repaired:  import os.path ; os.getcwd()  - nothing is reported unused *)
Example C02_F16_repaired :
  snd (finder [] [[]] true [SImport 1 [([50; 51], None)]; SExpr 2 (EOp [ELoad 50 [52]])]) = [].
Proof. vm_compute. reflexivity. Qed.

(* non-vacuity *)
Example C02_nonvacuous_block :
  let B := [mkImport (dec "m.x") (dec "x"); mkImport (dec "a.b") (dec "a.b"); mkImport (dec "a.c") (dec "a.c")] in
  rendered true B = [mkImport (dec "a.b") (dec "a.b"); mkImport (dec "a.c") (dec "a.c"); mkImport (dec "m.x") (dec "x")] /\
  lookup_env B (dec "a") = Some (true, dec "a").
Proof. vm_compute. split; reflexivity. Qed.
(* import m as a ; import n as b ; def f(): a.x    - remove the unused `import n as b` *)
Example C02_nonvacuous_remove :
  let p := [SImport 1 [([60], Some 61)]; SImport 2 [([62], Some 63)]; SDef 3 64 [] P0 None [SExpr 4 (ELoad 61 [65])]] in
  let R := fun l (i : import) => Nat.eqb l 2 in
  remove_top R p = [SImport 1 [([60], Some 61)]; SImport 2 []; SDef 3 64 [] P0 None [SExpr 4 (ELoad 61 [65])]] /\
  pysem [] [[]] p = [(4%nat, 61, Bound (BImp 1 ([60], [61])))].
Proof. vm_compute. split; reflexivity. Qed.

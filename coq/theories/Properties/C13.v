(* C13 - the interactive hooks are fail-safe.
   Only statements, `exact`, and Print Assumptions here; proofs are in Interactive/SafeCallProofs.v.
   [F : faults] = which pyflyby functions raise what during the interaction; [exception_faults F] = all of
   them raise subclasses of Exception; [names] = the unknown names the interaction reads with what the
   database / import system say about them; IPython's side is modelled, not verified. *)
From Coq Require Import NArith List Bool.
From Verif Require Import Interactive.Enable Interactive.EnableProofs Interactive.SafeCall Interactive.SafeCallProofs.
Import ListNotations.

(* result_is_original, hook by hook: outside debug mode, whatever stubs fire (any site among database load,
   parse, scope analysis, import execution, completion lookup; any Exception subclass, SyntaxError included;
   any failing known import), the hook returns normally - after which the advice calls the original function
   on the original arguments (AST transformer: returns the node it was given) *)
Theorem C13_result_is_original_ast : forall E F names s,
  e_debug E = false -> exception_faults F -> exception_names names -> fault_at F SNamespaces = None ->
  exists s', hook_ast E F names s = Ret s' tt.
Proof. exact hook_ast_absorbs. Qed.
Print Assumptions C13_result_is_original_ast.

(* the AST transformer passes raise_on_error=False: it absorbs at EVERY log level, PYFLYBY_LOG_LEVEL=DEBUG
   included (the other hooks re-raise in debug mode by design) *)
Theorem C13_result_is_original_ast_any_level : forall E F names s,
  exception_faults F -> exception_names names -> fault_at F SNamespaces = None ->
  exists s', hook_ast E F names s = Ret s' tt.
Proof. exact hook_ast_absorbs_any_level. Qed.
Print Assumptions C13_result_is_original_ast_any_level.

(* _ofind (inspection, autocall) and %prun *)
Theorem C13_result_is_original_ofind_prun : forall E F names s,
  e_debug E = false -> exception_faults F -> exception_names names ->
  exists s', hook_given_ns E F names s = Ret s' tt.
Proof. exact hook_given_ns_absorbs. Qed.
Print Assumptions C13_result_is_original_ofind_prun.

(* %run *)
Theorem C13_result_is_original_run : forall E F names s,
  e_debug E = false -> exception_faults F -> exception_names names ->
  exists s', hook_execfile E F names s = Ret s' tt.
Proof. exact hook_execfile_absorbs. Qed.
Print Assumptions C13_result_is_original_run.

(* completion (global and attribute), when the logging context manager around it does not itself raise
   (repaired code: always, see C13_completion_refuted for the unrepaired one) *)
Theorem C13_result_is_original_completion : forall E IO F attr names s,
  e_debug E = false -> exception_faults F -> exception_names names -> fault_at F SNamespaces = None ->
  intercept_ok IO s ->
  exists s' v, hook_complete E IO F attr names s = Ret s' v.
Proof. exact hook_complete_absorbs. Qed.
Print Assumptions C13_result_is_original_completion.

(* withdraws: one _safe_call either leaves the importer exactly as it was, or leaves it errored, DISABLED,
   with every joinpoint and hook list at its pre-enable value and an empty disabler stack (C14's disable lemma) *)
Theorem C13_withdraws : forall E (A : Type) b mode (f : state -> res A) on_error s,
  no_advice b -> good E b s -> st s <> DISABLED -> errored s = false -> mode <> RTrue ->
  (forall s1, res_core s1 (f s1)) ->
  (forall s1 s2 e, f s1 = Raise s2 e -> is_Exception e = true) ->
  (forall g s2, on_error = Some g -> same_core s2 (res_state (g s2))) ->
  let s' := res_state (safe_call false mode f on_error s) in
  (same_core s s' /\ errored s' = false) \/
  (errored s' = true /\ st s' = DISABLED /\ at_base E b s' /\ good E b s').
Proof. intros E A. exact (@safe_call_dichotomy E A). Qed.
Print Assumptions C13_withdraws.

(* ... instantiated for the hook every cell goes through *)
Theorem C13_withdraws_ast : forall E b F names s,
  e_debug E = false -> exception_faults F -> exception_names names -> fault_at F SNamespaces = None ->
  no_advice b -> good E b s -> st s <> DISABLED -> errored s = false ->
  let s' := res_state (hook_ast E F names s) in
  (same_core s s' /\ errored s' = false) \/
  (errored s' = true /\ st s' = DISABLED /\ at_base E b s' /\ good E b s').
Proof. exact hook_ast_withdraws. Qed.
Print Assumptions C13_withdraws_ast.

(* after the withdrawal: for every sequence of later interactions of any kind, whatever is armed during
   them, IPython calls no pyflyby code and nothing escapes (induction over the cells; repaired code) *)
Theorem C13_later_cells_plain : forall E IO n0 b cs s,
  withdrawn E n0 b s -> Forall (fun o => co_path o = false /\ co_escaped o = None) (run_cells E IO n0 cs s).
Proof. exact later_cells_plain. Qed.
Print Assumptions C13_later_cells_plain.

(* BaseException, stated separately: it passes through _safe_call, nothing is disabled *)
Theorem C13_base_exception_escapes : forall (A : Type) d mode (f : state -> res A) on_error s s1 n,
  errored s = false -> f s = Raise s1 (EBase n) -> safe_call d mode f on_error s = Raise s1 (EBase n).
Proof. intros A. exact (@safe_call_base_escapes A). Qed.
Print Assumptions C13_base_exception_escapes.

(* the preludes, listed: get_global_namespaces (AST transformer, completion) is outside _safe_call *)
Theorem C13_prelude_namespaces_escapes : forall E F names s e,
  fault_at F SNamespaces = Some e -> hook_ast E F names s = Raise s e.
Proof. exact hook_ast_prelude_escapes. Qed.
Print Assumptions C13_prelude_namespaces_escapes.

(* %debug <statement>: full on the repaired code (fixes/F35) ... *)
Theorem C13_result_is_original_debug_stmt : forall E IO F names s,
  f35_fixed IO = true -> e_debug E = false -> exception_faults F -> exception_names names ->
  exists s', hook_run_with_debugger E IO F names s = Ret s' tt.
Proof. exact hook_run_with_debugger_absorbs. Qed.
Print Assumptions C13_result_is_original_debug_stmt.

(* ... refuted on the unrepaired code: the database load - a site the property quantifies over - runs outside
   _safe_call there, so the injected exception leaves the hook (F35) *)
Theorem C13_result_is_original_debug_stmt_refuted : forall E IO F names s e,
  f35_fixed IO = false -> fault_at F SDbLoad = Some e -> hook_run_with_debugger E IO F names s = Raise s e.
Proof. exact hook_run_with_debugger_escapes. Qed.
Print Assumptions C13_result_is_original_debug_stmt_refuted.

(* refuted for completion on the unrepaired code under an IPython without pt_cli (F30): a completion during
   which a stub fires logs the error, post() raises AttributeError out of the hook, and the next, healthy,
   completion dies on the handler's assertion *)
Definition E9 : env := mkEnv RPost true AstTransformers true true ComplGlobal false PmMissing true true true true 20%N true true true.
Definition IO_unrepaired : io_env := mkIo false true false false false false.
Definition IO_repaired : io_env := mkIo false true false true true false.
Definition s9 : state := res_state (enable E9 true (init_state (fun _ => VUnset) [] [0; 1; 2; 3]%N [] true 100%N)).

Theorem C13_completion_refuted :
  exists s1, hook_complete E9 IO_unrepaired [(SCompletion, EExc 10%N)] false [] s9 = Raise s1 (EExc cls_AttributeError) /\
             hook_complete E9 IO_unrepaired [] false [] s1 = Raise s1 (EExc cls_AssertionError).
Proof. eexists. split; vm_compute; reflexivity. Qed.
Print Assumptions C13_completion_refuted.

(* known finding F36: inside an attribute completion an internal error of auto_eval (here: the parse of the
   parent expression) is swallowed by complete_symbol's own `except Exception: return []`: the answer is
   pyflyby's (empty), not the original completer's, and nothing is withdrawn *)
Theorem C13_attr_completion_original_refuted :
  exists s1, hook_complete E9 IO_repaired [(SParse, EExc 10%N)] true [NKnownOk 2%N] s9 = Ret s1 ViaPyflyby /\
             st s1 = ENABLED /\ errored s1 = false.
Proof. eexists. vm_compute. repeat split. Qed.
Print Assumptions C13_attr_completion_original_refuted.

(* non-vacuity: on the repaired code the same completion is absorbed, answered by the original completer,
   and the importer has withdrawn; a healthy one is answered by pyflyby *)
Example C13_nonvacuous_completion :
  (exists s1, hook_complete E9 IO_repaired [(SCompletion, EExc 10%N)] false [] s9 = Ret s1 ViaOriginal /\
              st s1 = DISABLED /\ errored s1 = true /\ disablers s1 = []) /\
  (exists s1, hook_complete E9 IO_repaired [] false [] s9 = Ret s1 ViaPyflyby /\ st s1 = ENABLED) /\
  intercept_ok IO_repaired s9.
Proof. split; [|split]; [eexists; vm_compute; repeat split | eexists; vm_compute; repeat split | vm_compute; exact I]. Qed.
Example C13_nonvacuous_ast :
  let s1 := res_state (hook_ast E9 [(SDbLoad, EExc 11%N)] [NKnownOk 1%N] s9) in
  st s9 = ENABLED /\ errored s9 = false /\ st s1 = DISABLED /\ errored s1 = true /\ user_ns s1 = [] /\
  user_ns (res_state (hook_ast E9 [] [NKnownOk 1%N] s9)) = [1%N].
Proof. vm_compute. repeat split. Qed.

(* C12 - import database: composition, forgetting and cache coherence.
   Only statements, `exact`, and Print Assumptions here; proofs are in Sys/DB*Proofs.v.
   `Fixed` is the code with fixes/F21-*.diff and fixes/F26-*.diff applied (the agreed tree);
   `Orig` is the unchanged code, kept for the refutations. *)
From Coq Require Import NArith List Bool String Permutation.
From Verif Require Import Base.Chars Base.StrX Sys.DBPath Sys.DBCompose Sys.DBCache
                          Sys.DBPathProofs Sys.DBComposeProofs Sys.DBCacheProofs.
Import ListNotations.

(* ---- db_is_union_minus_forget ---- *)
(* known = (union of the files' imports) minus everything named by the union of the forget lists
   (exact entry, or covered by a `from m import *` entry); the right-hand side depends neither on the
   order of the files nor on where a __forget_imports__ stands *)
Theorem C12_db_is_union_minus_forget_known : forall fs i,
  In i (known (compose fs)) <-> In_union f_known fs i /\ ~ Forgotten (In_union f_forget fs) i.
Proof. exact known_compose. Qed.
Print Assumptions C12_db_is_union_minus_forget_known.

Theorem C12_db_is_union_minus_forget_mandatory : forall fs i,
  In i (mandatory (compose fs)) <-> In_union f_mand fs i /\ ~ Forgotten (In_union f_forget fs) i.
Proof. exact mandatory_compose. Qed.
Print Assumptions C12_db_is_union_minus_forget_mandatory.

(* canonical: maps merged in load order, minus the entries whose key or value is named by a forget list *)
Theorem C12_db_is_union_minus_forget_canonical : forall fs k v,
  map_get (canonical (compose fs)) k = Some v <->
  last_binding (flat_map f_canon fs) k = Some v /\
  ~ In_union f_forget fs (imp_of_ident k) /\ ~ In_union f_forget fs (imp_of_ident v).
Proof. exact canonical_compose. Qed.
Print Assumptions C12_db_is_union_minus_forget_canonical.

Theorem C12_forget_is_union : forall fs j, In j (forget (compose fs)) <-> In_union f_forget fs j.
Proof. exact forget_compose. Qed.
Print Assumptions C12_forget_is_union.

Theorem C12_file_order_irrelevant : forall fs fs',
  Permutation fs fs' ->
  forall i, (In i (known (compose fs)) <-> In i (known (compose fs'))) /\
            (In i (mandatory (compose fs)) <-> In i (mandatory (compose fs'))) /\
            (In i (forget (compose fs)) <-> In i (forget (compose fs'))).
Proof. exact compose_order_irrelevant. Qed.
Print Assumptions C12_file_order_irrelevant.

(* canonical entries: order-independent as soon as the files do not disagree on a key
   (otherwise the later file wins - C12_db_is_union_minus_forget_canonical) *)
Theorem C12_file_order_irrelevant_canonical : forall fs fs',
  Permutation fs fs' ->
  (forall k w w', In_union f_canon fs (k, w) -> In_union f_canon fs (k, w') -> w = w') ->
  forall k v, map_get (canonical (compose fs)) k = Some v <-> map_get (canonical (compose fs')) k = Some v.
Proof. exact canonical_order_irrelevant. Qed.
Print Assumptions C12_file_order_irrelevant_canonical.

Theorem C12_forget_placement_irrelevant : forall fs fs',
  (forall i, In_union f_known fs i <-> In_union f_known fs' i) ->
  (forall j, In_union f_forget fs j <-> In_union f_forget fs' j) ->
  forall i, In i (known (compose fs)) <-> In i (known (compose fs')).
Proof. exact forget_placement_irrelevant. Qed.
Print Assumptions C12_forget_placement_irrelevant.

(* ImportDB.__or__ of two loaded databases = loading all the files together *)
Theorem C12_or_is_compose : forall a b i,
  (In i (known (db_or (compose a) (compose b))) <-> In i (known (compose (a ++ b)))) /\
  (In i (mandatory (db_or (compose a) (compose b))) <-> In i (mandatory (compose (a ++ b)))) /\
  (In i (forget (db_or (compose a) (compose b))) <-> In i (forget (compose (a ++ b)))).
Proof. exact or_is_compose_app. Qed.
Print Assumptions C12_or_is_compose.

(* ---- index_respects_forget / index_values_nonempty ---- *)
(* the value at a key is exactly: the known imports bound to that name, plus `import k` when k is a
   proper dotted prefix of a known import - each only if no forget list names it *)
Theorem C12_index_spec : forall ver d k vs,
  In (k, vs) (index ver d) -> forall i, In i vs <-> Cand d k i /\ ~ In i (forget d).
Proof. exact index_spec. Qed.
Print Assumptions C12_index_spec.

Theorem C12_index_respects_forget : forall ver fs k vs i,
  In (k, vs) (index ver (compose fs)) -> In i vs -> ~ In_union f_forget fs i.
Proof. exact index_respects_forget_files. Qed.
Print Assumptions C12_index_respects_forget.

(* full statement, repaired code (F21 fixed) *)
Theorem C12_index_values_nonempty : forall d k vs, In (k, vs) (index Fixed d) -> vs <> [].
Proof. exact index_values_nonempty. Qed.
Print Assumptions C12_index_values_nonempty.

Theorem C12_index_keys : forall d k,
  (exists vs, In (k, vs) (index Fixed d)) <-> exists i, Cand d k i /\ ~ In i (forget d).
Proof. exact index_keys. Qed.
Print Assumptions C12_index_keys.

(* the same statement is false of the unchanged code:
     forall d k vs, In (k, vs) (index Orig d) -> vs <> []          -- refuted (F21) *)
Theorem C12_index_values_nonempty_orig_refuted : exists d k, In (k, []) (index Orig d).
Proof. exact index_values_nonempty_orig_refuted. Qed.
Print Assumptions C12_index_values_nonempty_orig_refuted.

(* ---- path_semantics ---- *)
Theorem C12_path_env_var : forall value default,
  (env_parts value = [] -> get_env_var value default = default) /\
  (forall a b, env_parts value = a ++ s_dash :: b -> ~ In s_dash a ->
               get_env_var value default = a ++ default ++ b) /\
  (env_parts value <> [] -> ~ In s_dash (env_parts value) -> get_env_var value default = env_parts value).
Proof. exact get_env_var_spec. Qed.
Print Assumptions C12_path_env_var.

Theorem C12_path_empty : forall C (t : tree C) cwd home value default target_dir,
  get_env_var value default = [s_EMPTY] ->
  get_python_path C t cwd home value default target_dir = PPOk [].
Proof. exact empty_means_none. Qed.
Print Assumptions C12_path_empty.

Theorem C12_path_bad_component : forall C (t : tree C) cwd home value default target_dir p,
  get_env_var value default <> [s_EMPTY] ->
  In p (get_env_var value default) -> component_ok p = false ->
  exists p', get_python_path C t cwd home value default target_dir = PPValueError p'.
Proof. exact bad_component_rejected. Qed.
Print Assumptions C12_path_bad_component.

(* ".../x": x in every existing ancestor that is on the device of the first existing one, with no
   other device in between; listed farthest first (nearest last) *)
Theorem C12_path_same_partition : forall C (t : tree C) p a,
  In a (ancestors_on_same_partition C t p) <->
  exists nearer farther d0, ancestors p = nearer ++ a :: farther /\ dev_of C t a = Some d0 /\
                            (forall x, In x nearer -> dev_of C t x = None \/ dev_of C t x = Some d0).
Proof. exact same_partition_spec. Qed.
Print Assumptions C12_path_same_partition.

(* "/" itself is an ancestor of every path (the last one), and ".../x" reaches "/x" whenever every
   existing ancestor is on the root's device *)
Theorem C12_path_root_is_an_ancestor : forall p, exists nearer, ancestors p = nearer ++ [[]].
Proof. exact root_is_an_ancestor. Qed.
Print Assumptions C12_path_root_is_an_ancestor.

Theorem C12_path_root_on_same_partition : forall C (t : tree C) p d0,
  dev_of C t [] = Some d0 ->
  (forall x, In x (ancestors p) -> dev_of C t x = None \/ dev_of C t x = Some d0) ->
  In [] (ancestors_on_same_partition C t p).
Proof. exact root_on_same_partition. Qed.
Print Assumptions C12_path_root_on_same_partition.

Theorem C12_path_tripledots : forall C (t : tree C) cwd target_dir p,
  starts_with s_tripledots p = true ->
  expand_one C t cwd target_dir p =
  Some (rev (filter_some (map (fun a => mk_filename a (skipn 4 p))
                              (ancestors_on_same_partition C t target_dir)))).
Proof. exact tripledots_entry. Qed.
Print Assumptions C12_path_tripledots.

(* a named file (or link to one) is taken whatever its name; a named directory (or link to one) is
   walked whatever its name, and below it exactly the *.py files reachable through entries that are not
   hidden / __pycache__ / unsafe - where "is a directory" / "is a file" is os.stat, i.e. AFTER following
   symbolic links: a symlinked sub-directory is searched, a symlinked *.py file is read, dangling and
   looping links are ignored.  (`= Some l`: the walk did not run out of model fuel.) *)
Theorem C12_path_named_file : forall C (t : tree C) p d c,
  stat C t p = Some (File d c) -> expand_arg C t p = Some [p].
Proof. exact named_file_taken. Qed.
Print Assumptions C12_path_named_file.

Theorem C12_path_walk : forall C (t : tree C) p d es l f,
  stat C t p = Some (Dir d es) -> expand_arg C t p = Some l ->
  (In f l <-> exists rel, f = p ++ rel /\ reach C t p rel).
Proof. exact named_dir_walked. Qed.
Print Assumptions C12_path_walk.

Theorem C12_path_missing_entry : forall C (t : tree C) p,
  stat C t p = None -> expand_arg C t p = Some [].
Proof. exact missing_entry_ignored. Qed.
Print Assumptions C12_path_missing_entry.

Theorem C12_path_walk_names : forall C (t : tree C) pre rel,
  reach C t pre rel -> Forall (fun n => skip_name n = false) rel /\ is_py (last rel []) = true /\ rel <> [].
Proof. exact reach_names. Qed.
Print Assumptions C12_path_walk_names.

(* symbolic links: the real path of an existing directory is an existing directory that is its own
   real path (soundness of get_default's second, realpath-based cache key); realpath's result has no
   link in it *)
Theorem C12_path_realpath_of_dir : forall C (t : tree C) p,
  isdir C t p = true ->
  exists r, realpath C t p = Some r /\ isdir C t r = true /\ realpath C t r = Some r.
Proof. exact realpath_of_dir. Qed.
Print Assumptions C12_path_realpath_of_dir.

Theorem C12_path_realpath_clean : forall C (t : tree C) p r, realpath C t p = Some r -> Clean C t r.
Proof. exact realpath_clean. Qed.
Print Assumptions C12_path_realpath_clean.

(* a target that does not exist (yet): the search path is evaluated at the first existing ancestor *)
Theorem C12_path_lookup_dir : forall (t : ftree) d,
  isdir _ t [] = true ->
  exists nearer farther,
    ancestors d = nearer ++ last (dir_chain t d) [] :: farther /\
    isdir _ t (last (dir_chain t d) []) = true /\
    Forall (fun y => isdir _ t y = false) nearer.
Proof. exact lookup_dir_is_first_existing_ancestor. Qed.
Print Assumptions C12_path_lookup_dir.

(* ---- the property's first sentence, end to end ---- *)
(* a successful (fresh) answer of get_default for a target is the union of the imports of the files
   the search path reaches from the target's first existing directory, minus everything named by any
   of their forget lists; its index offers nothing that is forgotten *)
Theorem C12_db_in_effect : forall (t : ftree) (etc : list path) ver q v,
  fresh t etc ver q = inr v ->
  exists d0 files fs,
    initial_dir t q = inr d0 /\
    get_python_path _ t (q_cwd q) (q_home q) (pyflyby_path (q_env q)) (default_pyflyby_path etc)
                    (real_dir t (last (dir_chain t d0) [])) = PPOk files /\
    all_parsed (map (content_of t) files) = inr fs /\
    (forall i, In i (known v) <-> In_union f_known fs i /\ ~ Forgotten (In_union f_forget fs) i) /\
    (forall i, In i (mandatory v) <-> In_union f_mand fs i /\ ~ Forgotten (In_union f_forget fs) i) /\
    (forall k vs i, In (k, vs) (index ver v) -> In i vs -> ~ In_union f_forget fs i).
Proof. exact db_in_effect_known. Qed.
Print Assumptions C12_db_in_effect.

Theorem C12_path_same_partition_order : forall C (t : tree C) p,
  subseq (ancestors_on_same_partition C t p) (ancestors p).
Proof. exact same_partition_order. Qed.
Print Assumptions C12_path_same_partition_order.

(* ---- cache_coherent ---- *)
(* full statement, repaired code (F26 fixed): after ANY history of lookups - working directory, $HOME,
   target and the three environment variables all free to change between lookups - the answer is the
   answer of a fresh load.  Fixed during the history: the tree t (file contents, structure, st_dev)
   and _find_etc_dirs() - the explicit hypotheses of the property. *)
Theorem C12_cache_coherent : forall (t : ftree) (etc : list path) (qs : list query) (q : query),
  answer (snd (get_default t etc Fixed (run_cache t etc Fixed qs []) q)) = fresh t etc Fixed q.
Proof. exact cache_coherent_fixed. Qed.
Print Assumptions C12_cache_coherent.

(* the invariant: every cache entry is what a fresh load for its key gives *)
Theorem C12_cache_entries_fresh : forall (t : ftree) (etc : list path) (qs : list query) k v,
  cache_get (run_cache t etc Fixed qs []) k = Some v -> fresh_of_key t etc None k = Some (inr v).
Proof. exact cache_entries_fresh_fixed. Qed.
Print Assumptions C12_cache_entries_fresh.

(* unchanged code: the full statement
     forall t etc qs q, answer (snd (get_default t etc Orig (run_cache t etc Orig qs []) q)) = fresh t etc Orig q
   is refuted (F26); it holds while cwd and $HOME do not change *)
Theorem C12_cache_coherent_orig_partial : forall (t : ftree) (etc : list path) cwd home (qs : list query) (q : query),
  Forall (fun q' => q_cwd q' = cwd /\ q_home q' = home) (q :: qs) ->
  answer (snd (get_default t etc Orig (run_cache t etc Orig qs []) q)) = fresh t etc Orig q.
Proof. exact cache_coherent_orig_partial. Qed.
Print Assumptions C12_cache_coherent_orig_partial.

Theorem C12_cache_coherent_orig_refuted :
  exists (t : ftree) (etc : list path) (qs : list query) (q : query),
    answer (snd (get_default t etc Orig (run_cache t etc Orig qs []) q)) <> fresh t etc Orig q.
Proof. exact cache_coherent_orig_refuted. Qed.
Print Assumptions C12_cache_coherent_orig_refuted.

(* ---- non-vacuity ---- *)
Open Scope string_scope.
Definition nv_file1 : dbfile :=
  mkDbfile [(dec "pk.sub.mod", dec "pk.sub.mod"); (dec "m.t1", dec "t1"); (dec "numpy", dec "np")]
           [(dec "__future__.division", dec "division")] [(dec "m.t1", dec "m2.t1")] [].
Definition nv_file2 : dbfile :=
  mkDbfile [(dec "m.sub.t2", dec "t2")] [] [(dec "old.name", dec "new.name")]
           [(dec "pk.sub", dec "pk.sub"); (dec "m.*", dec "*"); (dec "old.name", dec "name")].
(* forgetting reaches across files, star entries remove from-imports of the package and its
   sub-packages, the derived parent entry `import pk.sub` disappears from the index, `import pk` stays *)
Example C12_nonvacuous_compose :
  known (compose [nv_file1; nv_file2]) = [(dec "pk.sub.mod", dec "pk.sub.mod"); (dec "numpy", dec "np")]
  /\ canonical (compose [nv_file1; nv_file2]) = [(dec "m.t1", dec "m2.t1")]
  /\ map fst (index Fixed (compose [nv_file1; nv_file2])) = [dec "pk.sub.mod"; dec "pk"; dec "np"]
  /\ known (compose [nv_file2; nv_file1]) = known (compose [nv_file1; nv_file2]).
Proof. vm_compute. repeat split. Qed.

(*  /         dev 1
    /u        dev 1     .pyflyby (file)
    /u/h      dev 2     .pyflyby/ {x.py, .hid.py, __pycache__/c.py, sub/z.py, notes.txt}
    /u/h/p    dev 2     (target directory)      *)
Definition nv_db (n : string) : parsed := inr (mkDbfile [(dec n, dec n)] [] [] []).
Definition nv_tree : ftree :=
  Dir 1 [(dec "u", Dir 1 [(dec ".pyflyby", File 1 (nv_db "top"));
                          (dec "shared", Dir 1 [(dec "t.py", File 1 (nv_db "team"))]);
                          (dec "alias", Link (dec "h/p"));
                          (dec "h", Dir 2 [(dec ".pyflyby", Dir 2 [(dec "x.py", File 2 (nv_db "x"));
                                                                    (dec ".hid.py", File 2 (nv_db "hid"));
                                                                    (dec "__pycache__", Dir 2 [(dec "c.py", File 2 (nv_db "c"))]);
                                                                    (dec "sub", Dir 2 [(dec "z.py", File 2 (nv_db "z"))]);
                                                                    (dec "notes.txt", File 2 (nv_db "notes"));
                                                                    (dec "team", Link (dec "/u/shared"));
                                                                    (dec "lnk.py", Link (dec "notes.txt"));
                                                                    (dec "dangling.py", Link (dec "nowhere"));
                                                                    (dec "loop", Link (dec "loop"))]);
                                           (dec "p", Dir 2 [])])])].
Definition nv_q (cwd : list string) (pp : option string) : query :=
  mkQuery (map dec cwd) (dec "/u") (dec "/u/h/p/t.py") (option_map dec pp, None, None).
(*    plus  /u/shared/t.py,  /u/alias -> h/p,  and in /u/h/.pyflyby: team -> /u/shared (searched),
      lnk.py -> notes.txt (read), dangling.py and loop (ignored) *)
(* default path: .../.pyflyby stops at the device boundary below /u (so /u/.pyflyby is reached only
   through ~/.pyflyby), hidden and __pycache__ entries are skipped inside the directory *)
Example C12_nonvacuous_path :
  snd (get_default nv_tree [] Fixed [] (nv_q ["u"] None)) =
  Loaded [map dec ["u"; "h"; ".pyflyby"; "lnk.py"]; map dec ["u"; "h"; ".pyflyby"; "sub"; "z.py"];
          map dec ["u"; "h"; ".pyflyby"; "team"; "t.py"]; map dec ["u"; "h"; ".pyflyby"; "x.py"]; map dec ["u"; ".pyflyby"]]
         (mkDb [(dec "notes", dec "notes"); (dec "z", dec "z"); (dec "team", dec "team"); (dec "x", dec "x"); (dec "top", dec "top")] [] [] []).
Proof. vm_compute. reflexivity. Qed.
(* a target given through a symbolic link (/u/alias -> h/p) is looked up in the real directory *)
Example C12_nonvacuous_link_target :
  initial_dir nv_tree (mkQuery [dec "u"] (dec "/u") (dec "/u/alias/t.py") (None, None, None)) = inr (map dec ["u"; "h"; "p"]).
Proof. vm_compute. reflexivity. Qed.
(* a history with a hit: same directory and settings again; then another working directory *)
Example C12_nonvacuous_cache :
  map (fun oc => match fst oc with Hit _ => 1 | Loaded _ _ => 2 | Failed _ => 3 end)
      (run_trace nv_tree [] Fixed [nv_q ["u"] (Some "./.pyflyby"); nv_q ["u"] (Some "./.pyflyby");
                                   nv_q ["u"; "h"] (Some "./.pyflyby"); nv_q ["u"] (Some "-:-")] [])
  = [2; 1; 2; 3].
Proof. vm_compute. reflexivity. Qed.

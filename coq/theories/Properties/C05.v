(* C05 - missing-name analysis agrees with Python's name resolution.
   Only statements, `exact`, and Print Assumptions here; proofs are in Scope/FinderProofs.v.

   Finder  = Gallina restatement of pyflyby's _MissingImportFinder (Scope/Finder.v, tied to /repo by the
             correspondence check on find_missing_imports and scan_for_import_issues - exact lists);
   PySem   = reference name-resolution semantics of fully executed programs (Scope/PySem.v, tied to
             CPython by execution on every run).

   FULL STATEMENTS (DESIGN.md Appendix I), for every program p of Scope/PySyntax.v, builtins bi and
   initial namespaces ns:
     missing_sound   : In (l, n, Unbound) (pysem bi ns p) -> exists a, In (n :: a) (find_missing bi ns p)
     missing_precise : In (n :: a) (find_missing bi ns p) ->
                       exists l r, In (l, n, r) (pysem bi ns p) /\ (r = Unbound \/ r = UnboundLocal)
   missing_sound is FALSE of the faithful model (and of pyflyby): see the *_refuted theorems below,
   one per class of DESIGN section 7 F10 that is not repaired.  missing_precise is false for
   `__all__ = ['x']` (an export list is not a read; outside the property's domain).

   PROVED here, for all inputs without size bound: on the stage-1 fragment (module-level code without
   nested scopes: Fragment.s1_block) the reported (line, name) pairs are EXACTLY PySem's failing
   global lookups - both directions at once.
   On the stage-2 fragment (stage 1 + def with decorators / defaults / annotations / nested defs / closures, and
   lambdas: Fragment.s2_block; no class, no comprehension) soundness and precision are proved per occurrence:
   every NameError read is reported on its line, and every reported (line, name) is a failing read on that line -
   a NameError or an UnboundLocalError-like failure (exactness is false there: C05_missing_exact_refuted_stage2).
   The same two statements on the stage-3 fragment (stage 2 + comprehensions, nested and inside functions / lambdas:
   Fragment.s3_block; inside a comprehension no lambda, and no nested scope in the iterable of its first generator).
   Class scopes are covered by correspondence + execution oracle only. *)
From Coq Require Import NArith List Bool.
From Verif Require Import Scope.PySyntax Scope.Finder Scope.PySem Scope.Fragment Scope.FinderProofs Scope.UnusedProofs
                          Scope.Stage2Final Scope.Stage2Unused Scope.Stage3Final Scope.ScanMissing.
Import ListNotations.

(* stage 1, per occurrence: pyflyby reports a name rooted at n on line l  <->  the read of n on line l
   fails with NameError *)
Theorem C05_missing_exact_stage1 : forall bi ns p, s1_block p = true -> star_free bi ns = true ->
  forall l n, (exists a, In (l, n :: a) (fst (finder bi ns false p))) <-> In (l, n, Unbound) (pysem bi ns p).
Proof. exact s1_missing_exact. Qed.
Print Assumptions C05_missing_exact_stage1.

(* missing_sound_partial: every NameError name is in find_missing_imports' answer *)
Theorem C05_missing_sound_partial : forall bi ns p l n, s1_block p = true -> star_free bi ns = true ->
  In (l, n, Unbound) (pysem bi ns p) -> exists a, In (n :: a) (find_missing bi ns p).
Proof. exact s1_find_missing_sound. Qed.
Print Assumptions C05_missing_sound_partial.

(* missing_precise_partial: every name in the answer has a failing lookup *)
Theorem C05_missing_precise_partial : forall bi ns p n a, s1_block p = true -> star_free bi ns = true ->
  In (n :: a) (find_missing bi ns p) -> exists l, In (l, n, Unbound) (pysem bi ns p).
Proof. exact s1_find_missing_precise. Qed.
Print Assumptions C05_missing_precise_partial.

(* find_missing_imports' answer is the set of names of the (line, name) list *)
Theorem C05_find_missing_is_projection : forall bi ns p d,
  In d (find_missing bi ns p) <-> exists l, In (l, d) (fst (finder bi ns false p)).
Proof. exact find_missing_In. Qed.
Print Assumptions C05_find_missing_is_projection.

(* the list-mutation quirk of _remove_from_missing_imports can only drop entries *)
Theorem C05_remove_from_missing_only_drops : forall c l m, In m (remove_from_missing c l) -> In m l.
Proof. exact remove_from_missing_incl. Qed.
Print Assumptions C05_remove_from_missing_only_drops.

(* ---------- the unused side of the shared model (for C02): unused_sound on stage 1 ----------
   An import reported unused by scan_for_import_issues is the binding of no read.  Hypotheses beyond the
   stage-1 shape: every import binds a one-component key (u1_block: no plain `import a.b`), and no
   two import items have the same (line, import) pair (the pair is how the report names an import). *)
Theorem C05_unused_sound_stage1 : forall bi ns p, u1_block p = true -> star_free bi ns = true ->
  NoDup (imp_events (bsrcs_block false p)) ->
  forall l i, In (l, i) (snd (finder bi ns true p)) ->
  forall ln n, ~ In (ln, n, Bound (BImp l i)) (pysem bi ns p).
Proof. exact u1_unused_sound. Qed.
Print Assumptions C05_unused_sound_stage1.

Definition unused_sound_at (p : program) : Prop :=
  forall l i, In (l, i) (snd (finder [] [[]] true p)) -> forall ln n, ~ In (ln, n, Bound (BImp l i)) (pysem [] [[]] p).
(* F16 (repaired, fixes/F16-package-prefix-use.diff):  import os.path ; os.getcwd()  - the read through the
   package name now marks the import used *)
Example C05_F16_repaired :
  snd (finder [] [[]] true [SImport 1 [([50; 51], None)]; SExpr 2 (EOp [ELoad 50 [52]])]%N) = [].
Proof. vm_compute. reflexivity. Qed.
(* import a, a ; a   - two items with the same (line, import): the first checker is reported *)
Theorem C05_unused_sound_refuted_duplicate_item :
  ~ unused_sound_at [SImport 1 [([50], None); ([50], None)]; SExpr 2 (ELoad 50 [])]%N.
Proof.
  unfold unused_sound_at. intro H. apply (H 1%nat ([50], [50])%N) with (ln := 2%nat) (n := 50%N); vm_compute; auto.
Qed.
Print Assumptions C05_unused_sound_refuted_duplicate_item.
(* non-vacuity: import m as a; import n as b; a   -> only `import n as b` is unused *)
Example C05_unused_nonvacuous :
  let p := [SImport 1 [([60], Some 61)]; SImport 2 [([62], Some 63)]; SExpr 3 (ELoad 61 [64])]%N in
  u1_block p = true /\ NoDup (imp_events (bsrcs_block false p)) /\
  snd (finder [] [[]] true p) = [(2%nat, ([62], [63]))]%N /\
  In (3%nat, 61%N, Bound (BImp 1 ([60], [61])%N)) (pysem [] [[]] p).
Proof.
  cbv zeta. split. reflexivity. split.
  { vm_compute. repeat constructor; cbn; intuition discriminate. }
  split. vm_compute. reflexivity. vm_compute. auto.
Qed.

(* ---------- refutations of the full soundness statement: one witness per unrepaired F10 class ---------- *)
Definition sound_at (bi : list name) (ns : list (list name)) (p : program) : Prop :=
  forall l n, In (l, n, Unbound) (pysem bi ns p) -> exists a, In (n :: a) (find_missing bi ns p).

Local Open Scope N_scope.
(* class k:            a class's own name read in its body *)
(*     x = k                                               *)
Definition W_selfname : program := [SClass 1 10 [] [] [] [SAssign 2 [TName 11] (ELoad 10 [])]].
(* k()                 a read before a later class statement of that name: the entry is deleted *)
(* class k: pass                                                                                *)
Definition W_before_class : program := [SExpr 1 (EOp [ELoad 10 []]); SClass 2 10 [] [] [] [SPass 3]].
(* class k:            a comprehension in a class body reads a class-level name *)
(*     y = 1                                                                    *)
(*     z = [y for w in 1]                                                       *)
Definition W_classcomp : program :=
  [SClass 1 10 [] [] [] [SAssign 2 [TName 12] (EOp []); SAssign 3 [TName 13] (EComp [Gen (EOp []) (TName 14) []] [ELoad 12 []])]].
(* [1 for c in [(lambda: c)()]]   a deferred read inside the first iterable sees the target *)
Definition W_firstiter : program := [SExpr 1 (EComp [Gen (EOp [ELambda [] [] (ELoad 15 [])]) (TName 15) []] [EOp []])].
(* def f(x):           a class body that rebinds x reads x with LOAD_NAME, ignoring f's local *)
(*     class k:                                                                                *)
(*         y = x                                                                               *)
(*         x = 1                                                                               *)
Definition W_classrebind : program :=
  [SDef 1 16 [] (Params [] [(11, None)] None [] None [] []) None
     [SClass 2 10 [] [] [] [SAssign 3 [TName 12] (ELoad 11 []); SAssign 4 [TName 11] (EOp [])]]].
(* a.b = 1             attribute store through an unbound name (find_unused_imports off) *)
Definition W_attrstore : program := [SAssign 1 [TAttr 17 [18]] (EOp [])].
(* class k:            a class's own name in a method default *)
(*     def m(s, t=k): pass                                    *)
Definition W_method_default : program :=
  [SClass 1 10 [] [] [] [SDef 2 19 [] (Params [] [(20, None); (21, None)] None [] None [ELoad 10 []] []) None [SPass 3]]].


Theorem C05_missing_sound_refuted_selfname : ~ sound_at [] [[]] W_selfname.
Proof. unfold sound_at. intro H. destruct (H 2%nat 10) as (a & Ha). vm_compute; auto. vm_compute in Ha. exact Ha. Qed.
Print Assumptions C05_missing_sound_refuted_selfname.
Theorem C05_missing_sound_refuted_before_class : ~ sound_at [] [[]] W_before_class.
Proof. unfold sound_at. intro H. destruct (H 1%nat 10) as (a & Ha). vm_compute; auto. vm_compute in Ha. exact Ha. Qed.
Print Assumptions C05_missing_sound_refuted_before_class.
Theorem C05_missing_sound_refuted_classcomp : ~ sound_at [] [[]] W_classcomp.
Proof. unfold sound_at. intro H. destruct (H 3%nat 12) as (a & Ha). vm_compute; auto. vm_compute in Ha. exact Ha. Qed.
Print Assumptions C05_missing_sound_refuted_classcomp.
Theorem C05_missing_sound_refuted_firstiter : ~ sound_at [] [[]] W_firstiter.
Proof. unfold sound_at. intro H. destruct (H 1%nat 15) as (a & Ha). vm_compute; auto. vm_compute in Ha. exact Ha. Qed.
Print Assumptions C05_missing_sound_refuted_firstiter.
Theorem C05_missing_sound_refuted_classrebind : ~ sound_at [] [[]] W_classrebind.
Proof. unfold sound_at. intro H. destruct (H 3%nat 11) as (a & Ha). vm_compute; auto. vm_compute in Ha. exact Ha. Qed.
Print Assumptions C05_missing_sound_refuted_classrebind.
Theorem C05_missing_sound_refuted_attrstore : ~ sound_at [] [[]] W_attrstore.
Proof. unfold sound_at. intro H. destruct (H 1%nat 17) as (a & Ha). vm_compute; auto. vm_compute in Ha. exact Ha. Qed.
Print Assumptions C05_missing_sound_refuted_attrstore.
Theorem C05_missing_sound_refuted_method_default : ~ sound_at [] [[]] W_method_default.
Proof. unfold sound_at. intro H. destruct (H 2%nat 10) as (a & Ha). vm_compute; auto. vm_compute in Ha. exact Ha. Qed.
Print Assumptions C05_missing_sound_refuted_method_default.

(* the same attribute store IS reported when unused-import tracking is on (scan_for_import_issues) *)
Example C05_attrstore_reported_when_tracking : fst (scan_issues [] W_attrstore) = [(1%nat, [17; 18])].
Proof. vm_compute. reflexivity. Qed.

(* non-vacuity: a stage-1 program with both outcomes (a reported name, a bound name), and the three
   repaired F10 classes behave as Python does *)
(* import a.b as m;  x = m.q + y;  for y in y: x += z *)
Definition P_stage1 : program :=
  [SImport 1 [([30; 31], Some 32)];
   SAssign 2 [TName 33] (EOp [ELoad 32 [34]; ELoad 35 []]);
   SFor 3 (TName 35) (ELoad 35 []) [SAugAssign 4 33 [] (ELoad 36 [])] []].
Example C05_nonvacuous_stage1 :
  s1_block P_stage1 = true /\ star_free [] [[]] = true /\
  find_missing [] [[]] P_stage1 = [[35]; [36]] /\
  pysem [] [[]] P_stage1 =
    [(2%nat, 32, Bound (BImp 1 ([30; 31], [32]))); (2%nat, 35, Unbound); (3%nat, 35, Unbound);
     (4%nat, 33, Bound BOther); (4%nat, 36, Unbound)].
Proof. vm_compute. repeat split. Qed.
(* n += 1 with n unbound; for m in [m]; def f(a, b: a) -> a; @(lambda: x) def f(x) *)
Example C05_repaired_decorator :
  find_missing [] [[]] [SDef 2 42 [(1%nat, ELambda [] [] (ELoad 43 []))] (Params [] [(43, None)] None [] None [] []) None [SPass 3]]
  = [[43]].
Proof. vm_compute. reflexivity. Qed.
Example C05_repaired_classes :
  find_missing [] [[]] [SAugAssign 1 40 [] (EOp [])] = [[40]] /\
  find_missing [] [[]] [SFor 1 (TName 41) (EOp [ELoad 41 []]) [SPass 2] []] = [[41]] /\
  find_missing [] [[]] [SDef 1 42 [] (Params [] [(43, None); (44, Some (ELoad 43 []))] None [] None [] [])
                             (Some (ELoad 43 [])) [SPass 2]] = [[43]].
Proof. vm_compute. repeat split. Qed.


(* ---------- stage 2: function and lambda scopes (Fragment.s2_block) ----------
   Simulation of the visitor with its deferred loads (Scope/Stage2*.v): every scope id carries the set of root
   names it will hold when the module has been scanned; a deferred entry is "reported in the end" iff the check
   against these final sets fails; PySem evaluates a function body in the finalised enclosing frames. *)
(* per occurrence: a read that fails with NameError is reported on its line *)
Theorem C05_missing_sound_stage2 : forall bi ns p, s2_block p = true -> star_free bi ns = true ->
  forall l n, In (l, n, Unbound) (pysem bi ns p) -> exists a, In (l, n :: a) (fst (finder bi ns false p)).
Proof. exact s2_missing_sound. Qed.
Print Assumptions C05_missing_sound_stage2.

(* per occurrence: a reported (line, name) is a failing read of its root on that line *)
Theorem C05_missing_precise_stage2 : forall bi ns p, s2_block p = true -> star_free bi ns = true ->
  forall l n a, In (l, n :: a) (fst (finder bi ns false p)) ->
  In (l, n, Unbound) (pysem bi ns p) \/ In (l, n, UnboundLocal) (pysem bi ns p).
Proof. exact s2_missing_precise. Qed.
Print Assumptions C05_missing_precise_stage2.

(* in the words of the property *)
Theorem C05_find_missing_sound_stage2 : forall bi ns p l n, s2_block p = true -> star_free bi ns = true ->
  In (l, n, Unbound) (pysem bi ns p) -> exists a, In (n :: a) (find_missing bi ns p).
Proof. exact s2_find_missing_sound. Qed.
Print Assumptions C05_find_missing_sound_stage2.
Theorem C05_find_missing_precise_stage2 : forall bi ns p n a, s2_block p = true -> star_free bi ns = true ->
  In (n :: a) (find_missing bi ns p) ->
  exists l, In (l, n, Unbound) (pysem bi ns p) \/ In (l, n, UnboundLocal) (pysem bi ns p).
Proof. exact s2_find_missing_precise. Qed.
Print Assumptions C05_find_missing_precise_stage2.

(* exactness (reported <-> NameError) stops at stage 1:   def f(): x ; x = 1   - the read of x is deferred with a
   copy of f's scope as it is at the read, so it is reported; Python raises UnboundLocalError, not NameError *)
Definition exact_at (p : program) : Prop :=
  forall l n, (exists a, In (l, n :: a) (fst (finder [] [[]] false p))) <-> In (l, n, Unbound) (pysem [] [[]] p).
Definition W_unboundlocal : program :=
  [SDef 1 70 [] (Params [] [] None [] None [] []) None [SExpr 2 (ELoad 71 []); SAssign 3 [TName 71] (EOp [])]].
Theorem C05_missing_exact_refuted_stage2 : s2_block W_unboundlocal = true /\ ~ exact_at W_unboundlocal.
Proof.
  split. reflexivity. unfold exact_at. intro H.
  assert (E : In (2%nat, 71, Unbound) (pysem [] [[]] W_unboundlocal)). { apply H. exists []. vm_compute. auto. }
  vm_compute in E. intuition discriminate.
Qed.
Print Assumptions C05_missing_exact_refuted_stage2.

(* what the fragments exclude, one witness each (beyond the class / comprehension witnesses above):
   - `from m import *` silences every report (has_star_import): soundness fails
   - the else branch of if / while and except handlers are scanned but not run by a fully executed program, and
     `__all__ = ['x']` is checked like a read: precision fails *)
Definition precise_at (p : program) : Prop :=
  forall l n a, In (l, n :: a) (fst (finder [] [[]] false p)) ->
  In (l, n, Unbound) (pysem [] [[]] p) \/ In (l, n, UnboundLocal) (pysem [] [[]] p).
Definition W_star : program := [SImportFrom 1 [72] [(n_star, None)]; SExpr 2 (ELoad 73 [])].
Definition W_orelse : program := [SIf 1 (EOp []) [SPass 2] [SExpr 3 (ELoad 74 [])]].
Definition W_all : program := [SAllAssign 1 [75]].
Theorem C05_missing_sound_refuted_star : ~ sound_at [] [[]] W_star.
Proof. unfold sound_at. intro H. destruct (H 2%nat 73) as (a & Ha). vm_compute; auto. vm_compute in Ha. exact Ha. Qed.
Print Assumptions C05_missing_sound_refuted_star.
Theorem C05_missing_precise_refuted_orelse : ~ precise_at W_orelse.
Proof. unfold precise_at. intro H. destruct (H 3%nat 74 []) as [E|E]. vm_compute; auto. vm_compute in E. exact E. vm_compute in E. exact E. Qed.
Print Assumptions C05_missing_precise_refuted_orelse.
Theorem C05_missing_precise_refuted_all : ~ precise_at W_all.
Proof. unfold precise_at. intro H. destruct (H 1%nat 75 []) as [E|E]. vm_compute; auto. vm_compute in E. exact E. vm_compute in E. exact E. Qed.
Print Assumptions C05_missing_precise_refuted_all.

(* non-vacuity: a stage-2 program with a reported NameError in a nested function, a reported UnboundLocal, a
   closure read that is bound, a decorator / default / annotation read in the enclosing scope *)
(* @d                      line 1: d unbound
   def f(a, b=a, c: q = 1) -> r:   line 2: a (default) unbound at module level; q, r unbound
       g = lambda z, w=a: z + w + a + u    line 3: w=a bound (parameter a); body: a bound, u unbound
       def h():            line 4
           v               line 5: UnboundLocal in h
           v = a           line 6: a closure read, bound
           return k        line 7: k bound later at module level
       h()                 line 8
   k = 1                   line 9 *)
Definition P_stage2 : program :=
  [SDef 2 80 [(1%nat, ELoad 81 [])]
     (Params [] [(82, None); (83, None); (84, Some (ELoad 85 []))] None [] None [ELoad 82 []; EOp []] [])
     (Some (ELoad 86 []))
     [SAssign 3 [TName 87] (ELambda [88; 89] [ELoad 82 []] (EOp [ELoad 88 []; ELoad 89 []; ELoad 82 []; ELoad 90 []]));
      SDef 4 91 [] (Params [] [] None [] None [] []) None
        [SExpr 5 (ELoad 92 []); SAssign 6 [TName 92] (ELoad 82 []); SExpr 7 (ELoad 93 [])];
      SExpr 8 (EOp [ELoad 91 []])];
   SAssign 9 [TName 93] (EOp [])].
Example C05_nonvacuous_stage2 :
  s2_block P_stage2 = true /\ s1_block P_stage2 = false /\
  fst (finder [] [[]] false P_stage2) = [(1%nat, [81]); (2%nat, [82]); (2%nat, [85]); (2%nat, [86]); (3%nat, [90]); (5%nat, [92])] /\
  pysem [] [[]] P_stage2 =
    [(1%nat, 81, Unbound); (2%nat, 82, Unbound); (2%nat, 85, Unbound); (2%nat, 86, Unbound);
     (3%nat, 82, Bound BOther); (3%nat, 88, Bound BOther); (3%nat, 89, Bound BOther); (3%nat, 82, Bound BOther); (3%nat, 90, Unbound);
     (5%nat, 92, UnboundLocal); (6%nat, 82, Bound BOther); (7%nat, 93, Bound BOther); (8%nat, 91, Bound BOther)].
Proof. vm_compute. repeat split. Qed.


(* ---------- the unused side on stage 2 (for C02) ----------
   Fragment.u2_block: stage-2 code whose import statements are top-level statements of the module binding one-component
   keys (what tidy-imports edits); Fragment.imports_once: every imported name is bound exactly once at module level and is
   no builtin / initial-namespace name.  Proof: the tracking-on run, erased, is the tracking-off run (Stage2Erase.v), so
   the stage-2 simulation gives the structure; on top of it, every read PySem resolves to an import has either marked
   that import's checker or sits in the deferred list with a stack on which the final check will (Stage2Unused.v). *)
Theorem C05_unused_sound_stage2 : forall bi ns p, u2_block p = true -> star_free bi ns = true ->
  imports_once bi ns p = true -> NoDup (imp_events (bsrcs_block false p)) ->
  forall l i, In (l, i) (snd (finder bi ns true p)) ->
  forall ln n, ~ In (ln, n, Bound (BImp l i)) (pysem bi ns p).
Proof. exact u2_unused_sound. Qed.
Print Assumptions C05_unused_sound_stage2.

(* C05a (repaired): a function-local import read by a nested function that is defined before it is no longer reported *)
Example C05_C05a_repaired :
  snd (finder [] [[]] true [SDef 1 90 [] (Params [] [] None [] None [] []) None
                       [SDef 2 91 [] (Params [] [] None [] None [] []) None [SExpr 3 (ELoad 92 [])];
                        SImport 4 [([92], None)]; SExpr 5 (EOp [ELoad 91 []])]]) = [].
Proof. vm_compute. reflexivity. Qed.

(* ---------- stage 3: comprehensions (Fragment.s3_block) ----------
   A comprehension may stand wherever an expression may - at module level, in function and lambda bodies, defaults,
   decorators, annotations - and comprehensions nest.  Restrictions: inside a comprehension there is no lambda; the iterable
   of the first generator contains no lambda and no comprehension (pyflyby visits it inside the comprehension's scope,
   Python evaluates it outside: C05_missing_sound_refuted_firstiter is what happens to a deferred read there).
   Proof (Scope/Stage3*.v): the open comprehension scopes extend the stage-2 stack; the levels below keep their stage-2
   invariant with those scopes listed as "being filled"; a small invariant relates each comprehension scope to its
   FComp frame; loads are re-proved for the extended stack (immediate at module level, deferred in functions - the
   recorded stack then holds the enclosing function's scope by reference and a copy of the innermost comprehension scope). *)
Theorem C05_missing_sound_stage3 : forall bi ns p, s3_block p = true -> star_free bi ns = true ->
  forall l n, In (l, n, Unbound) (pysem bi ns p) -> exists a, In (l, n :: a) (fst (finder bi ns false p)).
Proof. exact s3_missing_sound. Qed.
Print Assumptions C05_missing_sound_stage3.
Theorem C05_missing_precise_stage3 : forall bi ns p, s3_block p = true -> star_free bi ns = true ->
  forall l n a, In (l, n :: a) (fst (finder bi ns false p)) ->
  In (l, n, Unbound) (pysem bi ns p) \/ In (l, n, UnboundLocal) (pysem bi ns p).
Proof. exact s3_missing_precise. Qed.
Print Assumptions C05_missing_precise_stage3.
Theorem C05_find_missing_sound_stage3 : forall bi ns p l n, s3_block p = true -> star_free bi ns = true ->
  In (l, n, Unbound) (pysem bi ns p) -> exists a, In (n :: a) (find_missing bi ns p).
Proof. exact s3_find_missing_sound. Qed.
Print Assumptions C05_find_missing_sound_stage3.
Theorem C05_find_missing_precise_stage3 : forall bi ns p n a, s3_block p = true -> star_free bi ns = true ->
  In (n :: a) (find_missing bi ns p) ->
  exists l, In (l, n, Unbound) (pysem bi ns p) \/ In (l, n, UnboundLocal) (pysem bi ns p).
Proof. exact s3_find_missing_precise. Qed.
Print Assumptions C05_find_missing_precise_stage3.

(* the first-iterable witness above is exactly what s3 excludes: a lambda inside the iterable of the first generator *)
Example C05_firstiter_outside_stage3 : s3_block W_firstiter = false.
Proof. reflexivity. Qed.

(* non-vacuity:
     x = [a for a in b if a.c]                      line 1: b is read in the enclosing scope: unbound
     def f(p):                                      line 2
         [q + p + r for q in p for r in q if s]     line 3: s unbound (deferred, found nowhere in the end)
     z = [u for t in x for u in [w for w in t]]     line 4: a nested comprehension
     [v for v in v]                                 line 5: the iterable v is not the target v                  *)
Definition P_stage3 : program :=
  [SAssign 1 [TName 110] (EComp [Gen (ELoad 112 []) (TName 111) [ELoad 111 [113]]] [ELoad 111 []]);
   SDef 2 114 [] (Params [] [(115, None)] None [] None [] []) None
     [SExpr 3 (EComp [Gen (ELoad 115 []) (TName 116) []; Gen (ELoad 116 []) (TName 117) [ELoad 118 []]] [EOp [ELoad 116 []; ELoad 115 []; ELoad 117 []]])];
   SAssign 4 [TName 119] (EComp [Gen (ELoad 110 []) (TName 121) []; Gen (EComp [Gen (ELoad 121 []) (TName 122) []] [ELoad 122 []]) (TName 120) []] [ELoad 120 []]);
   SExpr 5 (EComp [Gen (ELoad 123 []) (TName 123) []] [ELoad 123 []])].
Example C05_nonvacuous_stage3 :
  s3_block P_stage3 = true /\ s2_block P_stage3 = false /\
  fst (finder [] [[]] false P_stage3) = [(1%nat, [112]); (3%nat, [118]); (5%nat, [123])] /\
  pysem [] [[]] P_stage3 =
    [(1%nat, 112, Unbound); (1%nat, 111, Bound BOther); (1%nat, 111, Bound BOther); (3%nat, 115, Bound BOther);
     (3%nat, 116, Bound BOther); (3%nat, 118, Unbound); (3%nat, 116, Bound BOther); (3%nat, 115, Bound BOther);
     (3%nat, 117, Bound BOther); (4%nat, 110, Bound BOther); (4%nat, 121, Bound BOther); (4%nat, 122, Bound BOther);
     (4%nat, 120, Bound BOther); (5%nat, 123, Unbound); (5%nat, 123, Bound BOther)].
Proof. vm_compute. repeat split. Qed.


(* the unused side on stage 3 (Fragment.u3_block: u2 with comprehensions) *)
Theorem C05_unused_sound_stage3 : forall bi ns p, u3_block p = true -> star_free bi ns = true ->
  imports_once bi ns p = true -> NoDup (imp_events (bsrcs_block false p)) ->
  forall l i, In (l, i) (snd (finder bi ns true p)) ->
  forall ln n, ~ In (ln, n, Bound (BImp l i)) (pysem bi ns p).
Proof. exact u3_unused_sound. Qed.
Print Assumptions C05_unused_sound_stage3.


(* ---------- the missing list of scan_for_import_issues (unused-import tracking ON: what tidy-imports adds imports from) ----------
   On stage-2 / stage-3 programs whose import statements - wherever they stand: module level, function bodies, compound
   statements - bind one-component keys (`import m`, `import a.b as c`, `from m import x [as y]`; no __future__;
   Fragment.ui_block) the tracking-on run, with its use-checker entries erased, IS the tracking-off run
   (Stage2Erase.er_vblock / Stage3Erase.er_vblock3), so the two missing lists are equal and the per-occurrence theorems
   carry over.  (Plain dotted imports `import a.b` store a prefix entry and attribute stores are checked only with
   tracking on - C05_attrstore_reported_when_tracking - so outside ui_block / the stages the two lists differ.) *)
Theorem C05_scan_missing_is_find_missing_stage3 : forall bi ns p, s3_block p = true -> ui_block p = true ->
  fst (finder bi ns true p) = fst (finder bi ns false p).
Proof. exact scan_missing_stage3. Qed.
Print Assumptions C05_scan_missing_is_find_missing_stage3.
Theorem C05_scan_missing_sound_stage2 : forall bi ns p, s2_block p = true -> ui_block p = true -> star_free bi ns = true ->
  forall l n, In (l, n, Unbound) (pysem bi ns p) -> exists a, In (l, n :: a) (fst (finder bi ns true p)).
Proof. exact s2_scan_missing_sound. Qed.
Print Assumptions C05_scan_missing_sound_stage2.
Theorem C05_scan_missing_precise_stage2 : forall bi ns p, s2_block p = true -> ui_block p = true -> star_free bi ns = true ->
  forall l n a, In (l, n :: a) (fst (finder bi ns true p)) ->
  In (l, n, Unbound) (pysem bi ns p) \/ In (l, n, UnboundLocal) (pysem bi ns p).
Proof. exact s2_scan_missing_precise. Qed.
Print Assumptions C05_scan_missing_precise_stage2.
Theorem C05_scan_missing_sound_stage3 : forall bi ns p, s3_block p = true -> ui_block p = true -> star_free bi ns = true ->
  forall l n, In (l, n, Unbound) (pysem bi ns p) -> exists a, In (l, n :: a) (fst (finder bi ns true p)).
Proof. exact s3_scan_missing_sound. Qed.
Print Assumptions C05_scan_missing_sound_stage3.
Theorem C05_scan_missing_precise_stage3 : forall bi ns p, s3_block p = true -> ui_block p = true -> star_free bi ns = true ->
  forall l n a, In (l, n :: a) (fst (finder bi ns true p)) ->
  In (l, n, Unbound) (pysem bi ns p) \/ In (l, n, UnboundLocal) (pysem bi ns p).
Proof. exact s3_scan_missing_precise. Qed.
Print Assumptions C05_scan_missing_precise_stage3.
(* a plain dotted import is outside ui_block, and there the two lists do differ: `import a.b` / `a.c.d`:
   with tracking on the key `a` holds a prefix entry ... the same verdict here; the difference shows with an attribute
   store through an unbound name (W_attrstore above): reported only with tracking on *)
Example C05_scan_missing_differs_outside :
  fst (finder [] [[]] true W_attrstore) <> fst (finder [] [[]] false W_attrstore).
Proof. vm_compute. discriminate. Qed.

(* C17 - saveframe files hold exactly the selected frames and variables.
   Only statements, `exact`, and Print Assumptions here; proofs are in Saveframe/*Proofs.v. *)
From Coq Require Import NArith ZArith List Bool String Sorting.Sorted.
From Verif Require Import Base.Chars Base.StrX
     Saveframe.Select Saveframe.Vars Saveframe.File Saveframe.Save Saveframe.Reader
     Saveframe.SelectProofs Saveframe.VarsProofs Saveframe.SaveProofs Saveframe.ReaderProofs
     Saveframe.ValidateProofs Base.StrXProofs.
Import ListNotations.

(* ------------------------------------------------------------------------------------------
   selection_spec: the saved entries are exactly what the selector denotes.
   at_ frames (k, f): k >= 1 and f is the k-th frame of the flattened chain (frames[k-1]);
   pf_selects rx pf frames e: e is at its place and pf denotes it ([''] = the failing frame; a
   pattern = regex found in the file name, line equal if given and not 0, function name or
   qualified name equal if given);  fid = identity of the frame object. *)

(* LIST (one or several patterns): union of the matches, in index order, the first index kept for a
   frame object repeated across a chain *)
Theorem C17_selection_spec_list : forall rx ps frames r,
  get_frames_to_save rx (SList ps) frames = Ok r ->
  let selected e := exists pf, In pf ps /\ pf_selects rx pf frames e in
  (forall e, In e r -> at_ frames e) /\
  StronglySorted (fun a b => fst a < fst b) r /\
  (forall e, In e r <-> selected e /\ forall y, selected y -> fst y < fst e -> fid y <> fid e).
Proof. exact selection_list. Qed.
Print Assumptions C17_selection_spec_list.

(* RANGE p..q and p.. : the longest index interval with one end denoted by p and the other by q *)
Theorem C17_selection_spec_range : forall rx p q frames r,
  get_frames_to_save rx (SRange p q) frames = Ok r ->
  exists ei ej,
    pf_selects rx p frames ei /\ pf_selects rx q frames ej /\
    (forall ei' ej', pf_selects rx p frames ei' -> pf_selects rx q frames ej' ->
                     absdiff (fst ei') (fst ej') <= absdiff (fst ei) (fst ej)) /\
    let lo := Nat.min (fst ei) (fst ej) in
    let hi := Nat.max (fst ei) (fst ej) in
    let selected e := at_ frames e /\ lo <= fst e <= hi in
    (forall e, In e r -> at_ frames e) /\
    StronglySorted (fun a b => fst a < fst b) r /\
    (forall e, In e r <-> selected e /\ forall y, selected y -> fst y < fst e -> fid y <> fid e).
Proof. exact selection_range. Qed.
Print Assumptions C17_selection_spec_range.

(* only RANGE refuses a pattern that matches nothing; a LIST matching nothing saves no frame *)
Theorem C17_selection_range_nomatch : forall rx p q frames,
  (get_all_matching_frames rx p frames = Ok [] \/
   (exists m, m <> [] /\ get_all_matching_frames rx p frames = Ok m) /\ get_all_matching_frames rx q frames = Ok []) ->
  get_frames_to_save rx (SRange p q) frames = Err EValue.
Proof. exact selection_range_nomatch. Qed.
Print Assumptions C17_selection_range_nomatch.

Theorem C17_selection_list_nomatch : forall rx ps frames r,
  get_frames_to_save rx (SList ps) frames = Ok r ->
  (forall pf e, In pf ps -> ~ pf_selects rx pf frames e) -> r = [].
Proof. exact selection_list_nomatch. Qed.
Print Assumptions C17_selection_list_nomatch.

(* NUM n: the first min n len frames (no regex involved, no de-duplication) *)
Theorem C17_selection_spec_num : forall n frames r,
  get_frames_to_save (fun _ _ => RxMiss) (SNum n) frames = Ok r ->
  (forall rx, get_frames_to_save rx (SNum n) frames = Ok r) /\
  StronglySorted (fun a b => fst a < fst b) r /\
  (forall e, In e r <-> at_ frames e /\ (Z.of_nat (fst e) <= n)%Z).
Proof. exact selection_num. Qed.
Print Assumptions C17_selection_spec_num.

(* no selector: the failing frame *)
Theorem C17_selection_spec_none : forall rx frames r,
  get_frames_to_save rx SNone frames = Ok r -> exists f, nth_error frames 0 = Some f /\ r = [(1, f)].
Proof. exact selection_none. Qed.
Print Assumptions C17_selection_spec_none.

(* key = 1-based distance from the failing frame, for every selector; keys strictly increasing *)
Theorem C17_keys_are_distances : forall rx sel frames r,
  get_frames_to_save rx sel frames = Ok r ->
  (forall k f, In (k, f) r -> k >= 1 /\ nth_error frames (k - 1) = Some f) /\
  StronglySorted (fun a b => fst a < fst b) r.
Proof. exact keys_are_distances. Qed.
Print Assumptions C17_keys_are_distances.

Theorem C17_first_index_kept : forall rx sel frames r,
  (exists ps, sel = SList ps) \/ (exists p q, sel = SRange p q) ->
  get_frames_to_save rx sel frames = Ok r ->
  forall a b, In a r -> In b r -> fid a = fid b -> a = b.
Proof. exact first_index_kept. Qed.
Print Assumptions C17_first_index_kept.

(* the flattened chain: the frames of the outermost exception first, the raise point at distance 1,
   then the frames of __cause__ (or, without a cause, __context__) *)
Theorem C17_chain_distance : forall tb cause context d,
  d < List.length tb ->
  nth_error (all_frames_from_exception (Exn tb cause context)) d = nth_error (rev tb) d.
Proof. exact chain_distance. Qed.
Print Assumptions C17_chain_distance.

Theorem C17_chain_continues : forall tb cause context d,
  nth_error (all_frames_from_exception (Exn tb cause context)) (List.length tb + d) =
  match cause, context with
  | Some c, _ => nth_error (all_frames_from_exception c) d
  | None, Some c => nth_error (all_frames_from_exception c) d
  | None, None => None
  end.
Proof. exact chain_continues. Qed.
Print Assumptions C17_chain_continues.

(* RANGE selector: the largest |i-j| over all pairs (i matching the first pattern, j the second) is
   attained at the extreme matches the code compares *)
Theorem C17_four_candidates_suffice : forall f0 f1 l0 l1 i j,
  f0 <= i <= f1 -> l0 <= j <= l1 -> absdiff i j <= fst (chosen f0 f1 l0 l1).
Proof. exact four_candidates_suffice. Qed.
Print Assumptions C17_four_candidates_suffice.

(* saved variables = locals minus dunder names, intersected with the include list if any, minus the
   exclude list, minus the unpicklable ones; order and values of the locals kept *)
Theorem C17_var_filter : forall pk locals inc exc,
  local_variables_data pk locals inc exc = filter (keep_variable pk inc exc) locals
  /\ forall x v, In (x, v) (local_variables_data pk locals inc exc) <->
       In (x, v) locals /\ is_dunder x = false /\ included inc x /\ ~ excluded exc x /\ pk v = true.
Proof. exact var_filter. Qed.
Print Assumptions C17_var_filter.

(* an unpicklable variable is skipped without affecting the others *)
Theorem C17_unpicklable_independent : forall pk pk' (U : N -> bool) locals inc exc,
  (forall v, U v = false -> pk v = pk' v) ->
  filter (fun xv => negb (U (snd xv))) (local_variables_data pk locals inc exc) =
  filter (fun xv => negb (U (snd xv))) (local_variables_data pk' locals inc exc).
Proof. exact unpicklable_independent. Qed.
Print Assumptions C17_unpicklable_independent.

(* a variable the caller did not name in a given include argument is absent from the saved frame.
   FULL for the code repaired by fixes/F15-saveframe-empty-include-list.diff; before the repair the
   statement is false (F15): *)
Theorem C17_not_included_absent : forall valid script a inc pk locals exc x v,
  a <> VNone -> validate_variables valid script a = Ok inc -> ~ In x (raw_names a) ->
  ~ In (x, v) (local_variables_data pk locals inc exc).
Proof. exact not_included_absent. Qed.
Print Assumptions C17_not_included_absent.

Theorem C17_not_included_absent_refuted_pre_F15 :
  exists valid script a inc pk locals exc x v,
    a <> VNone /\ validate_variables valid script a = Ok inc /\ ~ In x (raw_names a) /\
    In (x, v) (local_variables_data_pre_F15 pk locals inc exc).
Proof. exact not_included_absent_refuted_pre_F15. Qed.
Print Assumptions C17_not_included_absent_refuted_pre_F15.

Theorem C17_excluded_absent : forall valid script a exc pk locals inc x v,
  validate_variables valid script a = Ok exc -> In x (raw_names a) -> valid x = true ->
  ~ In (x, v) (local_variables_data pk locals inc exc).
Proof. exact excluded_absent. Qed.
Print Assumptions C17_excluded_absent.

(* a file created by the save has mode 0644 for every umask, the umask is restored on every path,
   a pre-existing file keeps its permission bits *)
Theorem C17_mode_0644 : forall (data : Type) (d : data) (open_ok body_ok : bool) (st : fs data),
  let '(o, st') := open_file_and_dump d open_ok body_ok st in
  fs_umask st' = fs_umask st
  /\ (fs_file st = None -> open_ok = true -> exists c, fs_file st' = Some (420%N, c))
  /\ (forall m c, fs_file st = Some (m, c) -> exists c', fs_file st' = Some (m, c'))
  /\ (open_ok = false -> fs_file st' = fs_file st /\ o = OpenFailed)
  /\ (open_ok = true -> body_ok = true -> o = Saved /\ exists m, fs_file st' = Some (m, CData d))
  /\ (open_ok = true -> body_ok = false -> o = BodyFailed /\ exists m, fs_file st' = Some (m, CTruncated)).
Proof. exact mode_0644. Qed.
Print Assumptions C17_mode_0644.

(* what _validate_frames returns is well formed: [''] (the missing last frame of 'p..') only ever stands
   in the second place of a RANGE, a LIST is never empty; and the model's "oracle value missing" error
   is not a possible outcome of validation *)
Theorem C17_validate_frames_wf : forall script a sel,
  validate_frames script a = Ok sel -> wf_selector sel.
Proof. exact validate_frames_wf. Qed.
Print Assumptions C17_validate_frames_wf.

Theorem C17_validate_frames_no_oracle_error : forall script a, validate_frames script a <> Err EOracle.
Proof. exact validate_frames_no_oracle_error. Qed.
Print Assumptions C17_validate_frames_no_oracle_error.

(* surface syntax: 'file_regex:line:function' (components without ':' ',' '..' and outer blanks; the
   line text empty or something int() reads) denotes the pattern it spells; 'p..q' the RANGE, 'p..'
   the open range, a list of two or more patterns the LIST *)
Theorem C17_validate_single : forall script re lt fn ln,
  re <> [] -> no_sep c_colon re -> no_sep c_colon lt -> no_sep c_colon fn -> line_rel lt ln ->
  let s := render re lt fn in
  no_sep c_comma s -> has_dd s = false -> strip s = s ->
  validate_frames script (FStr s) = Ok (SList [PPat (mkPat re ln fn)]).
Proof. exact validate_single. Qed.
Print Assumptions C17_validate_single.

Theorem C17_validate_range : forall script re lt fn ln re2 lt2 fn2 ln2,
  re <> [] -> no_sep c_colon re -> no_sep c_colon lt -> no_sep c_colon fn -> line_rel lt ln ->
  re2 <> [] -> no_sep c_colon re2 -> no_sep c_colon lt2 -> no_sep c_colon fn2 -> line_rel lt2 ln2 ->
  let s1 := render re lt fn in
  let s2 := render re2 lt2 fn2 in
  no_sep c_comma s1 -> has_dd s1 = false -> ends_not_dot s1 -> strip s1 = s1 ->
  no_sep c_comma s2 -> has_dd s2 = false -> strip s2 = s2 ->
  validate_frames script (FStr (s1 ++ c_dot :: c_dot :: s2)) = Ok (SRange (PPat (mkPat re ln fn)) (PPat (mkPat re2 ln2 fn2)))
  /\ validate_frames script (FStr (s1 ++ [c_dot; c_dot])) = Ok (SOpenRange (mkPat re ln fn)).
Proof. exact validate_range. Qed.
Print Assumptions C17_validate_range.

Theorem C17_validate_list : forall x y l p q ps,
  Forall2 rendered (x :: y :: l) (p :: q :: ps) ->
  validate_frames false (FList (x :: y :: l)) = Ok (SList (map PPat (p :: q :: ps))).
Proof. exact validate_list. Qed.
Print Assumptions C17_validate_list.

(* the whole call: a successful saveframe leaves the umask as before and a file holding one entry per
   selected frame, keyed by distance (distinct keys), with the frame's own metadata and its filtered
   locals; a refused call leaves the file system untouched *)
Theorem C17_saveframe_end_to_end : forall rx valid pk script esc n1 fa va ea cur e open_ok exc_pk (st : fs saved) res st',
  saveframe rx valid pk script esc n1 fa va ea cur e open_ok exc_pk st = (res, st') ->
  fs_umask st' = fs_umask st /\
  match res with
  | Err _ => st' = st
  | Ok (o, d) =>
      exists sel inc exc entries,
        validate_arguments valid script (default_frames esc fa cur) va ea = Ok (sel, inc, exc) /\
        get_frames_to_save rx sel (all_frames_from_exception e) = Ok entries /\
        d = map (frame_metadata pk inc exc) entries /\
        NoDup (map s_index d) /\
        (forall s, In s d -> exists f,
            s_index s >= 1 /\ nth_error (all_frames_from_exception e) (s_index s - 1) = Some f /\
            s_file s = f_file f /\ s_line s = f_line f /\ s_func s = f_func f /\ s_qual s = f_qual f /\
            s_vars s = local_variables_data pk (f_locals f) inc exc) /\
        (o = Saved -> exists m, fs_file st' = Some (m, CData d) /\ (fs_file st = None -> m = 420%N)) /\
        (o = Saved <-> open_ok = true /\ (n1 = true \/ exc_pk = true)) /\
        (open_ok = false -> fs_file st' = fs_file st)
  end.
Proof. exact saveframe_end_to_end. Qed.
Print Assumptions C17_saveframe_end_to_end.

(* C17-N1.  Repaired (fixes/C17N1-*.diff: placeholder for an unpicklable exception object, mapping
   serialized before the file is opened): whatever the exception object, a call that passes validation
   and can open the file saves, and no path leaves a truncated file.  As the code was: an unpicklable
   exception object left a truncated file and nothing saved. *)
Theorem C17_n1_repaired_never_truncates : forall rx valid pk script esc fa va ea cur e open_ok exc_pk (st : fs saved) o d st',
  saveframe rx valid pk script esc true fa va ea cur e open_ok exc_pk st = (Ok (o, d), st') ->
  (open_ok = true -> o = Saved) /\
  (forall m, fs_file st' <> Some (m, CTruncated) \/ fs_file st = Some (m, CTruncated)).
Proof. exact n1_repaired_never_truncates. Qed.
Print Assumptions C17_n1_repaired_never_truncates.

Theorem C17_n1_unrepaired_truncates : forall rx valid pk script esc fa va ea cur e (st : fs saved) o d st',
  saveframe rx valid pk script esc false fa va ea cur e true false st = (Ok (o, d), st') ->
  o = BodyFailed /\ exists m, fs_file st' = Some (m, CTruncated).
Proof. exact n1_unrepaired_truncates. Qed.
Print Assumptions C17_n1_unrepaired_truncates.

(* the file after a save does not depend on what it held before (open with O_TRUNC = replacement):
   a second, smaller dump to the same path leaves exactly the new dump *)
Theorem C17_write_replaces_content : forall (data : Type) (sf : bool) (d : data) (dump_ok : bool) u m (c1 c2 : content data),
  write_mapping sf d true dump_ok (mkFs u (Some (m, c1))) = write_mapping sf d true dump_ok (mkFs u (Some (m, c2)))
  \/ (sf = true /\ dump_ok = false).
Proof. exact @write_replaces_content. Qed.
Print Assumptions C17_write_replaces_content.

Theorem C17_saved_content_is_the_dump : forall (data : Type) (sf : bool) (d : data) (open_ok dump_ok : bool) (st : fs data) o st',
  write_mapping sf d open_ok dump_ok st = (o, st') -> o = Saved -> exists m, fs_file st' = Some (m, CData d).
Proof. exact @saved_content_is_the_dump. Qed.
Print Assumptions C17_saved_content_is_the_dump.

(* reader_consistent: every query form returns the saved values *)
Theorem C17_reader_vars_idx_single : forall d x k r,
  get_variables d (QStr x) (Some k) = r ->
  match frame_by_key k (r_frames d) with
  | Some s => match lookup_var x (s_vars s) with
              | Some v => r = Ok (VVal v)
              | None => r = Err EValue
              end
  | None => r = Err EValue
  end.
Proof. exact reader_vars_idx_single. Qed.
Print Assumptions C17_reader_vars_idx_single.

Theorem C17_reader_vars_idx_list : forall d l k r,
  get_variables d (QList l) (Some k) = r ->
  match l, frame_by_key k (r_frames d) with
  | [], _ => r = Err EValue
  | _, None => r = Err EValue
  | _, Some s =>
      (exists m, r = Ok (VDict m) /\ m <> [] /\
                 forall x, lookup_var x m = if mem_str x l then lookup_var x (s_vars s) else None)
      \/ (r = Err EValue /\ forall x, In x l -> lookup_var x (s_vars s) = None)
  end.
Proof. exact reader_vars_idx_list. Qed.
Print Assumptions C17_reader_vars_idx_list.

Theorem C17_reader_vars_all_single : forall d x r,
  get_variables d (QStr x) None = r ->
  let hits := filter (fun s => nonempty (collect_vars [x] (s_vars s) [])) (r_frames d) in
  (forall s, In s hits <-> In s (r_frames d) /\ lookup_var x (s_vars s) <> None) /\
  match hits with
  | [] => r = Err EValue
  | [s] => exists v, lookup_var x (s_vars s) = Some v /\ r = Ok (VVal v)
  | _ => exists m, r = Ok (VByFrame m) /\
                   Forall2 (fun s kv => fst kv = s_index s /\ lookup_var x (s_vars s) = Some (snd kv)) hits m
  end.
Proof. exact reader_vars_all_single. Qed.
Print Assumptions C17_reader_vars_all_single.

Theorem C17_reader_vars_all_list : forall d l r,
  l <> [] ->
  get_variables d (QList l) None = r ->
  let found s := collect_vars l (s_vars s) [] in
  let hits := filter (fun s => nonempty (found s)) (r_frames d) in
  (forall s x, lookup_var x (found s) = if mem_str x l then lookup_var x (s_vars s) else None) /\
  match hits with
  | [] => r = Err EValue
  | [s] => r = Ok (VDict (found s))
  | _ => r = Ok (VByFrameDict (map (fun s => (s_index s, found s)) hits))
  end.
Proof. exact reader_vars_all_list. Qed.
Print Assumptions C17_reader_vars_all_list.

Theorem C17_reader_metadata : forall d m idx r,
  get_metadata d m idx = r ->
  match m, idx with
  | MInvalid, _ => r = Err EValue
  | MExc x, None => r = Ok (RVal (MStr (r_exc d x)))
  | MExc x, Some z => if (z =? 0)%Z then r = Ok (RVal (MStr (r_exc d x))) else r = Err EValue
  | MFrame f, None => r = Ok (RMap (map (fun s => (s_index s, field_of f s)) (r_frames d)))
  | MFrame f, Some k => match frame_by_key k (r_frames d) with
                        | Some s => r = Ok (RVal (field_of f s)) /\ In s (r_frames d) /\ Z.of_nat (s_index s) = k
                        | None => r = Err EValue
                        end
  end.
Proof. exact reader_metadata. Qed.
Print Assumptions C17_reader_metadata.

(* with the distinct keys saveframe writes, the frame the reader finds for a key is the frame saved under it *)
Theorem C17_reader_key_unique : forall l, NoDup (map s_index l) ->
  forall s, In s l -> frame_by_key (Z.of_nat (s_index s)) l = Some s.
Proof. exact frame_by_key_unique. Qed.
Print Assumptions C17_reader_key_unique.

(* non-vacuity *)
Definition ex_frame (file func : string) (line : Z) (id : N) : frame :=
  mkFrame (dec file) line (dec func) (dec func) id [] [] [(dec "a"%string, id)].
Definition ex_rx : rx_oracle := fun p f => if str_eqb p f then RxMatch else RxNo.
(* stack a.py:f, b.py:g, a.py:f(again, other frame), c.py:h, and frame 2 repeated by a chained exception *)
Definition ex_frames := [ex_frame "a.py" "f" 3 1; ex_frame "b.py" "g" 5 2; ex_frame "a.py" "f" 3 3;
                         ex_frame "c.py" "h" 7 4; ex_frame "b.py" "g" 5 2].
Example C17_nonvacuous_range :
  option_map (map fst)
    (match bind (validate_frames false (FStr (dec "b.py::..a.py:3:f"%string))) (fun sel => get_frames_to_save ex_rx sel ex_frames)
     with Ok r => Some r | Err _ => None end) = Some [1; 2; 3; 4]%nat.
Proof. vm_compute. reflexivity. Qed.
Example C17_nonvacuous_list_dedup :
  option_map (map fst)
    (match bind (validate_frames false (FList [dec "b.py::"%string; dec "c.py:7:"%string])) (fun sel => get_frames_to_save ex_rx sel ex_frames)
     with Ok r => Some r | Err _ => None end) = Some [2; 4]%nat.
Proof. vm_compute. reflexivity. Qed.

Example C17_nonvacuous_vars :
  local_variables_data (fun v => negb (v =? 2)%N)
    [(dec "a"%string, 1%N); (dec "f"%string, 2%N); (dec "__d"%string, 3%N); (dec "secret"%string, 4%N); (dec "b"%string, 5%N)]
    None (Some [dec "secret"%string])
  = [(dec "a"%string, 1%N); (dec "b"%string, 5%N)].
Proof. vm_compute. reflexivity. Qed.
Example C17_nonvacuous_mode :
  open_file_and_dump 7%nat true true (mkFs 63%N None) = (Saved, mkFs 63%N (Some (420%N, CData 7%nat))).
Proof. vm_compute. reflexivity. Qed.
Example C17_nonvacuous_validate :
  let re := dec "pkg/m0\.py$"%string in let lt := dec "12"%string in let fn := dec "K.run"%string in
  re <> [] /\ no_sep c_colon re /\ no_sep c_colon lt /\ no_sep c_colon fn /\ line_rel lt (Some 12%Z) /\
  no_sep c_comma (render re lt fn) /\ has_dd (render re lt fn) = false /\ strip (render re lt fn) = render re lt fn /\
  ends_not_dot (render re lt fn).
Proof.
  cbv zeta. split; [discriminate |]. repeat split; try (vm_compute; reflexivity);
    try (unfold no_sep; repeat constructor).
  exists 12%Z. split; vm_compute; reflexivity.
Qed.

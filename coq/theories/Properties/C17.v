(* C17 - saveframe files hold exactly the selected frames and variables.
   Only statements, `exact`, and Print Assumptions here; proofs are in Saveframe/*Proofs.v. *)
From Coq Require Import NArith ZArith List Bool String.
From Verif Require Import Base.Chars Base.StrX
     Saveframe.Select Saveframe.Vars Saveframe.File Saveframe.Save Saveframe.Reader
     Saveframe.SelectProofs Saveframe.VarsProofs.
Import ListNotations.

(* RANGE selector: the largest |i-j| over all pairs (i matching the first pattern, j the second) is
   attained at the extreme matches the code compares *)
Theorem C17_four_candidates_suffice : forall f0 f1 l0 l1 i j,
  f0 <= i <= f1 -> l0 <= j <= l1 -> absdiff i j <= fst (chosen f0 f1 l0 l1).
Proof. exact four_candidates_suffice. Qed.
Print Assumptions C17_four_candidates_suffice.

(* saved variables = locals minus dunder names, intersected with the include list if any, minus the
   exclude list, minus the unpicklable ones; order and values of the locals kept *)
Theorem C17_var_filter : forall pk locals inc exc,
  local_variables_data pk locals inc exc = filter (keep_variable pk inc exc) locals
  /\ forall x v, In (x, v) (local_variables_data pk locals inc exc) <->
       In (x, v) locals /\ is_dunder x = false /\ included inc x /\ ~ excluded exc x /\ pk v = true.
Proof. exact var_filter. Qed.
Print Assumptions C17_var_filter.

(* an unpicklable variable is skipped without affecting the others *)
Theorem C17_unpicklable_independent : forall pk pk' (U : N -> bool) locals inc exc,
  (forall v, U v = false -> pk v = pk' v) ->
  filter (fun xv => negb (U (snd xv))) (local_variables_data pk locals inc exc) =
  filter (fun xv => negb (U (snd xv))) (local_variables_data pk' locals inc exc).
Proof. exact unpicklable_independent. Qed.
Print Assumptions C17_unpicklable_independent.

(* a variable the caller did not name in a given include argument is absent from the saved frame.
   FULL for the code repaired by fixes/F15-saveframe-empty-include-list.diff; before the repair the
   statement is false (F15): *)
Theorem C17_not_included_absent : forall valid script a inc pk locals exc x v,
  a <> VNone -> validate_variables valid script a = Ok inc -> ~ In x (raw_names a) ->
  ~ In (x, v) (local_variables_data pk locals inc exc).
Proof. exact not_included_absent. Qed.
Print Assumptions C17_not_included_absent.

Theorem C17_not_included_absent_refuted_pre_F15 :
  exists valid script a inc pk locals exc x v,
    a <> VNone /\ validate_variables valid script a = Ok inc /\ ~ In x (raw_names a) /\
    In (x, v) (local_variables_data_pre_F15 pk locals inc exc).
Proof. exact not_included_absent_refuted_pre_F15. Qed.
Print Assumptions C17_not_included_absent_refuted_pre_F15.

Theorem C17_excluded_absent : forall valid script a exc pk locals inc x v,
  validate_variables valid script a = Ok exc -> In x (raw_names a) -> valid x = true ->
  ~ In (x, v) (local_variables_data pk locals inc exc).
Proof. exact excluded_absent. Qed.
Print Assumptions C17_excluded_absent.

(* a file created by the save has mode 0644 for every umask, the umask is restored on every path,
   a pre-existing file keeps its permission bits *)
Theorem C17_mode_0644 : forall (data : Type) (d : data) (open_ok body_ok : bool) (st : fs data),
  let '(o, st') := open_file_and_dump d open_ok body_ok st in
  fs_umask st' = fs_umask st
  /\ (fs_file st = None -> open_ok = true -> exists c, fs_file st' = Some (420%N, c))
  /\ (forall m c, fs_file st = Some (m, c) -> exists c', fs_file st' = Some (m, c'))
  /\ (open_ok = false -> fs_file st' = fs_file st /\ o = OpenFailed)
  /\ (open_ok = true -> body_ok = true -> o = Saved /\ exists m, fs_file st' = Some (m, CData d))
  /\ (open_ok = true -> body_ok = false -> o = BodyFailed /\ exists m, fs_file st' = Some (m, CTruncated)).
Proof. exact mode_0644. Qed.
Print Assumptions C17_mode_0644.

(* non-vacuity *)
Example C17_nonvacuous_vars :
  local_variables_data (fun v => negb (v =? 2)%N)
    [(dec "a"%string, 1%N); (dec "f"%string, 2%N); (dec "__d"%string, 3%N); (dec "secret"%string, 4%N); (dec "b"%string, 5%N)]
    None (Some [dec "secret"%string])
  = [(dec "a"%string, 1%N); (dec "b"%string, 5%N)].
Proof. vm_compute. reflexivity. Qed.
Example C17_nonvacuous_mode :
  open_file_and_dump 7%nat true true (mkFs 63%N None) = (Saved, mkFs 63%N (Some (420%N, CData 7%nat))).
Proof. vm_compute. reflexivity. Qed.

(* C10 - statement splitting is a lossless, syntax-aligned partition.
   Only statements, `exact`, and Print Assumptions here; proofs are in Text/*Proofs.v. *)
From Coq Require Import NArith List Bool String.
From Verif Require Import Base.Chars Base.StrX Text.FilePos Text.FileText Text.Split
                          Text.FileTextProofs Text.SplitProofs.
Import ListNotations.

(* slicing is additive: cutting a text at b between a and c loses and duplicates nothing *)
Theorem C10_slice_additive : forall t a b c s1 s2 s3,
  slice t a b = Some s1 -> slice t b c = Some s2 -> slice t a c = Some s3 ->
  pos_leb a b = true -> pos_leb b c = true ->
  (joined s1 ++ joined s2 = joined s3)%list.
Proof. exact slice_additive. Qed.
Print Assumptions C10_slice_additive.

(* whenever the splitter returns at all, the concatenation of the pieces is exactly the input
   (for every text, every node list - well-formed or not - and every start position) *)
Theorem C10_split_lossless : forall (K : Type) (ns : list (node K)) t ps,
  statements ns t = Some ps -> List.concat (map (fun p => joined (snd p)) ps) = joined t.
Proof. exact split_lossless. Qed.
Print Assumptions C10_split_lossless.

(* the pieces that own a node are, in order, exactly the top-level nodes *)
Theorem C10_one_node_per_piece : forall (K : Type) (ns : list (node K)) t ps,
  wf_nodes t ns = true -> statements ns t = Some ps -> piece_nodes ps = ns.
Proof. exact one_node_per_piece. Qed.
Print Assumptions C10_one_node_per_piece.

(* and each of them reports the node's start position.  (Node-less pieces split off by the
   leading-newline normalisation keep a stale start position: allowed by the property.) *)
Theorem C10_piece_startpos : forall (K : Type) (ns : list (node K)) t ps,
  wf_nodes t ns = true -> statements ns t = Some ps ->
  forall n s, In (Some n, s) ps -> startpos s = n_start n.
Proof. exact piece_startpos. Qed.
Print Assumptions C10_piece_startpos.

(* C10 - statement splitting is a lossless, syntax-aligned partition.
   Only statements, `exact`, and Print Assumptions here; proofs are in Text/*Proofs.v. *)
From Coq Require Import NArith List Bool String.
From Verif Require Import Base.Chars Base.StrX Text.FilePos Text.FileText Text.Split
                          Text.FileTextProofs Text.SplitProofs Text.StrLits Text.StrLitsProofs.
Import ListNotations.

(* slicing is additive: cutting a text at b between a and c loses and duplicates nothing *)
Theorem C10_slice_additive : forall t a b c s1 s2 s3,
  slice t a b = Some s1 -> slice t b c = Some s2 -> slice t a c = Some s3 ->
  pos_leb a b = true -> pos_leb b c = true ->
  (joined s1 ++ joined s2 = joined s3)%list.
Proof. exact slice_additive. Qed.
Print Assumptions C10_slice_additive.

(* whenever the splitter returns at all, the concatenation of the pieces is exactly the input
   (for every text, every node list - well-formed or not - and every start position) *)
Theorem C10_split_lossless : forall (K : Type) (ns : list (node K)) t ps,
  statements ns t = Some ps -> List.concat (map (fun p => joined (snd p)) ps) = joined t.
Proof. exact split_lossless. Qed.
Print Assumptions C10_split_lossless.

(* on a well-formed node list (start positions strictly increasing, each at a character of the
   text, none before the text's start) the splitter never raises: no IndexError from slicing, no
   failed assertion, and the backward walk terminates within its fuel *)
Theorem C10_statements_total : forall (K : Type) (ns : list (node K)) t,
  wf_nodes t ns = true -> exists ps, statements ns t = Some ps.
Proof. exact statements_total. Qed.
Print Assumptions C10_statements_total.

(* the pieces that own a node are, in order, exactly the top-level nodes *)
Theorem C10_one_node_per_piece : forall (K : Type) (ns : list (node K)) t ps,
  wf_nodes t ns = true -> statements ns t = Some ps -> piece_nodes ps = ns.
Proof. exact one_node_per_piece. Qed.
Print Assumptions C10_one_node_per_piece.

(* and each of them reports the node's start position.  (Node-less pieces split off by the
   leading-newline normalisation keep a stale start position: allowed by the property.) *)
Theorem C10_piece_startpos : forall (K : Type) (ns : list (node K)) t ps,
  wf_nodes t ns = true -> statements ns t = Some ps ->
  forall n s, In (Some n, s) ps -> startpos s = n_start n.
Proof. exact piece_startpos. Qed.
Print Assumptions C10_piece_startpos.

(* syntax alignment, with the node end positions `es` as a second oracle (each node ends on its
   last line and not after the next node's start): every node-owning piece reaches at least to the
   end of its node - no statement is cut in two.  Full since the F03 repair (the backward walk
   over comment-looking lines stops at the node's last line); before it the statement was false
   for  x = """abc\n# foo """ . *)
Theorem C10_syntax_aligned : forall (K : Type) (ns : list (node K)) t es ps,
  wf_nodes t ns = true -> ends_ok t ns es = true -> statements ns t = Some ps ->
  Forall2 (fun p e => pos_leb e (endpos (snd p)) = true) (code_pieces ps) es.
Proof. exact syntax_aligned. Qed.
Print Assumptions C10_syntax_aligned.

(* every node-less piece consists of comment / blank lines only, given the grammar fact
   `leading_ok` for the text before the first node (evaluated on every case by the harness) *)
Theorem C10_noncode_pieces_blank_or_comment : forall (K : Type) (ns : list (node K)) t ps,
  wf_nodes t ns = true -> leading_ok t ns = true -> statements ns t = Some ps ->
  forall s, In (None, s) ps -> Forall (fun l => is_comment_or_blank l = true) (lines s).
Proof. exact noncode_pieces_blank_or_comment. Qed.
Print Assumptions C10_noncode_pieces_blank_or_comment.

(* string_literals(): over the abstract AST (node kinds, CPython's raw positions as sort keys, annotated
   start positions, fields in _fields order), with the child order of _iter_child_nodes_in_order (repaired
   type_params / JoinedStr orders) and the pre-order walk: the reported nodes are exactly the str/bytes
   constants reachable through that child relation, and - given `ordered` (every node starts no later than
   its first walked child, everything below a child starts no later than the next child; evaluated on
   CPython's positions on every case) - they are reported in source order.  That each reported position is
   the literal's true first character is the oracle's part (tokenizer). *)
Theorem C10_string_literals_sorted : forall fuel root ls,
  ordered fuel root = true -> string_literals fuel root = Some ls ->
  Sorted.StronglySorted (fun x y => pos_leb (a_start x) (a_start y) = true) ls.
Proof. exact string_literals_sorted. Qed.
Print Assumptions C10_string_literals_sorted.

Theorem C10_string_literals_exact : forall fuel root ls,
  string_literals fuel root = Some ls ->
  forall x, In x ls <-> (a_is_str x = true /\ reach root x).
Proof. exact string_literals_exact. Qed.
Print Assumptions C10_string_literals_exact.

(* non-vacuity: the F3 witness, a `;` join with non-ASCII text, leading blank lines (stale startpos) *)
Definition ex_t1 := of_str (dec "x = $22;$22;$22;abc$a;# foo $22;$22;$22;$a;# c$a;$a;y = 2$a;"%string) (mkPos 1 1).
Definition ex_ns1 : list (node N) := [mkNode (mkPos 1 1) 2 0%N; mkNode (mkPos 5 1) 5 1%N].
Example C10_nonvacuous_F3 :
  wf_nodes ex_t1 ex_ns1 = true /\ ends_ok ex_t1 ex_ns1 [mkPos 2 9; mkPos 5 6] = true /\ leading_ok ex_t1 ex_ns1 = true /\
  option_map (map (fun p => (option_map n_tag (fst p), joined (snd p), startpos (snd p)))) (statements ex_ns1 ex_t1)
  = Some [(Some 0%N, dec "x = $22;$22;$22;abc$a;# foo $22;$22;$22;$a;"%string, mkPos 1 1);
          (None, dec "# c$a;$a;"%string, mkPos 3 1);
          (Some 1%N, dec "y = 2$a;"%string, mkPos 5 1)].
Proof. vm_compute. repeat split. Qed.
Definition ex_t2 := of_str (dec "$a;$a;# c$a;x = $22;$e9;$22;; y = 1"%string) (mkPos 7 3).
Definition ex_ns2 : list (node N) := [mkNode (mkPos 10 1) 10 0%N; mkNode (mkPos 10 10) 10 1%N].
Example C10_nonvacuous_semicolon_stale :
  wf_nodes ex_t2 ex_ns2 = true /\ leading_ok ex_t2 ex_ns2 = true /\
  option_map (map (fun p => (option_map n_tag (fst p), joined (snd p), startpos (snd p)))) (statements ex_ns2 ex_t2)
  = Some [(None, dec "$a;"%string, mkPos 7 3); (None, dec "$a;"%string, mkPos 7 3); (None, dec "# c$a;"%string, mkPos 7 3);
          (Some 0%N, dec "x = $22;$e9;$22;; "%string, mkPos 10 1); (Some 1%N, dec "y = 1"%string, mkPos 10 10)].
Proof. vm_compute. repeat split. Qed.

(* non-vacuity: f(k="v", *"s") - the Call's keyword comes before the starred argument in CPython's fields
   and after it in the source; print(f'{x=}') - the constant "x=" is listed first and positioned second *)
Definition ex_call : anode :=
  ANode AKDefault (0, 0) (mkPos 1 1) false
    [[Some (ANode AKDefault (1, 0) (mkPos 1 1) false
       [[Some (ANode AKCall (1, 0) (mkPos 1 1) false
          [[Some (ANode AKDefault (1, 0) (mkPos 1 1) false [])];
           [Some (ANode AKDefault (1, 9) (mkPos 1 10) false [[Some (ANode AKDefault (1, 10) (mkPos 1 11) true [])]])];
           [Some (ANode AKKeyword (1, 2) (mkPos 1 3) false [[Some (ANode AKDefault (1, 4) (mkPos 1 5) true [])]])]])]])]].
Example C10_nonvacuous_string_literals :
  ordered 6 ex_call = true /\
  option_map (map a_start) (string_literals 6 ex_call) = Some [mkPos 1 5; mkPos 1 11].
Proof. vm_compute. split; reflexivity. Qed.

(* the partition theorems cover every text as it is (C10_split_lossless has no hypothesis on the text):
   a continuation backslash before a CRLF line end keeps the blank line in the statement's piece (fix C10a,
   committed as 2364e62); the second example is a model-level illustration only - an indented text with
   hand-written node positions; indented blocks are not compilable and therefore outside the property's
   quantifier and outside the check *)
Definition ex_t3 := of_str (dec "y = 1 $5c;$d;$a;$d;$a;z = 2$d;$a;"%string) (mkPos 1 1).
Definition ex_ns3 : list (node N) := [mkNode (mkPos 1 1) 1 0%N; mkNode (mkPos 3 1) 3 1%N].
Example C10_nonvacuous_crlf :
  wf_nodes ex_t3 ex_ns3 = true /\
  option_map (map (fun p => (option_map n_tag (fst p), joined (snd p)))) (statements ex_ns3 ex_t3)
  = Some [(Some 0%N, dec "y = 1 $5c;$d;$a;$d;$a;"%string); (Some 1%N, dec "z = 2$d;$a;"%string)].
Proof. vm_compute. repeat split. Qed.
Definition ex_t4 := of_str (dec "    x = 1; y = 2$a;    # c$a;    z = 3$a;"%string) (mkPos 1 1).
Definition ex_ns4 : list (node N) := [mkNode (mkPos 1 1) 1 0%N; mkNode (mkPos 1 12) 1 1%N; mkNode (mkPos 3 1) 3 2%N].
Example C10_nonvacuous_indented :
  wf_nodes ex_t4 ex_ns4 = true /\
  option_map (map (fun p => (option_map n_tag (fst p), joined (snd p)))) (statements ex_ns4 ex_t4)
  = Some [(Some 0%N, dec "    x = 1; "%string); (Some 1%N, dec "y = 2$a;"%string);
          (None, dec "    # c$a;"%string); (Some 2%N, dec "    z = 3$a;"%string)].
Proof. vm_compute. repeat split. Qed.

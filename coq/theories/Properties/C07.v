(* C07 - successful auto-import makes code runnable; ambiguity is never guessed.
   Only statements, `exact`, and Print Assumptions here; proofs are in AutoImp/ResolveProofs.v. *)
From Coq Require Import NArith List Bool.
From Verif Require Import AutoImp.World AutoImp.Needs AutoImp.TryImport AutoImp.AutoImport AutoImp.Spec AutoImp.Inv
                          AutoImp.Wire AutoImp.AutoImportProofs AutoImp.TryImportProofs AutoImp.ResolveProofs
                          AutoImp.WfProofs.
Import ListNotations.

(* success.  DESIGN Appendix I states it as
     auto_import w db ms st = (st', true) -> forall m, In m ms -> fst (needs_import w st' m) = false
   which is FALSE of the code (C07_success_resolves_refuted, finding F07a: a later import of the
   same call can turn an attribute into a module).  What the property itself says - no NameError -
   holds for every world, index, history-reachable or not state with identifier-keyed namespaces:
   after a True result the top-level name of every name the code reads is bound in the stack. *)
Theorem C07_success_resolves_partial : forall w idx ms st st',
  idx_ok idx -> plain_keys st -> nss st <> [] ->
  auto_import w idx (Some ms) st = (st', RTrue) ->
  forall m, In m ms -> m <> [] -> exists lvl v, ns_get st' lvl [root m] = Some v.
Proof. exact success_roots_bound. Qed.
Print Assumptions C07_success_resolves_partial.

Theorem C07_success_resolves_refuted :
  exists w idx ms st st', idx_ok idx /\ plain_keys st /\
    auto_import w idx (Some ms) st = (st', RTrue) /\ exists m, In m ms /\ needs st' m = true.
Proof. exact success_resolves_refuted. Qed.
Print Assumptions C07_success_resolves_refuted.

(* ... and the needs-form DOES hold - for every world without attribute/submodule clash (the shape of
   F07a), every DB index, every well-formed interpreter state (Inv.WF: sys.modules holds the modules
   of those names, submodules are attributes of their parents, module objects in namespaces and
   attributes are registered) and every list of missing names: after a True result NO name of the
   list needs import any more.  WF is preserved by every operation of the model (WfProofs), so this
   holds after every call of a history started in a WF state; the boolean checkers the harness
   evaluates on each initial state imply the hypotheses (wfp_b_sound, noclash_b_sound). *)
Theorem C07_success_resolves_wf : forall w idx ms st st',
  noclash w -> WF w st -> idx_ok idx -> nss st <> [] ->
  auto_import w idx (Some ms) st = (st', RTrue) ->
  forall m, In m ms -> m <> [] -> needs st' m = false.
Proof. exact success_resolves_wf. Qed.
Print Assumptions C07_success_resolves_wf.

Theorem C07_wf_preserved : forall w idx ms s ok s' r,
  noclash w -> WF w s -> symbols w idx ms s ok = (s', r) -> WF w s' /\ ext s s'.
Proof. exact symbols_wf. Qed.
Print Assumptions C07_wf_preserved.

Theorem C07_wfp_b_sound : forall w s, wfp_b w s = true -> WF w s.
Proof. exact wfp_b_sound. Qed.
Print Assumptions C07_wfp_b_sound.

Theorem C07_noclash_b_sound : forall mods, noclash_b mods = true -> noclash (fun d => assoc d mods).
Proof. exact noclash_b_sound. Qed.
Print Assumptions C07_noclash_b_sound.

(* the hypothesis plain_keys is needed: a dotted key in a namespace defeats it *)
Theorem C07_success_needs_plain_keys :
  exists w idx ms st st', idx_ok idx /\ nss st <> [] /\
    auto_import w idx (Some ms) st = (st', RTrue) /\
    exists m, In m ms /\ m <> [] /\ forall lvl, ns_get st' lvl [root m] = None.
Proof. exact success_roots_bound_needs_plain_keys. Qed.
Print Assumptions C07_success_needs_plain_keys.

(* provenance: every binding a call adds comes from the single DB candidate of the deepest known
   prefix of a missing name, or from `import pm` for a prefix pm of a missing name *)
Theorem C07_provenance : forall w idx ms st st' ok,
  idx_ok idx -> auto_import w idx (Some ms) st = (st', ok) ->
  forall lvl k v, ns_get st lvl k = None -> ns_get st' lvl k = Some v ->
    exists m i, In m ms /\ yields w i v /\
      (known_import idx m = Some [i] \/ exists pm, In pm (prefixes m) /\ i = (pm, pm)).
Proof. exact provenance. Qed.
Print Assumptions C07_provenance.

Theorem C07_known_import_deepest : forall idx m v,
  known_import idx m = Some v ->
  exists shallower p deeper, prefixes m = shallower ++ p :: deeper /\ assoc p idx = Some v /\
                             forall q, In q deeper -> assoc q idx = None.
Proof. exact known_import_deepest. Qed.
Print Assumptions C07_known_import_deepest.

(* ambiguity is never guessed: nothing is executed, nothing bound, failure reported *)
Theorem C07_ambiguous_fails : forall w idx m st st' r i1 i2 l,
  known_import idx m = Some (i1 :: i2 :: l) -> needs st m = true ->
  auto_import_symbol w idx m st = (st', r) ->
  r = RFalse /\ nss st' = nss st /\ loaded st' = loaded st /\ attrs st' = attrs st /\
  failed st' = failed st /\ elog st' = elog st.
Proof. exact ambiguous_fails. Qed.
Print Assumptions C07_ambiguous_fails.

Theorem C07_unknown_fails : forall w idx x r st st' res,
  known_import idx (x :: r) = None ->
  assoc [x] (loaded st) = None -> is_file w [x] = false -> assoc [x] (excache st) <> Some true ->
  needs st (x :: r) = true ->
  auto_import_symbol w idx (x :: r) st = (st', res) ->
  res = RFalse /\ nss st' = nss st /\ loaded st' = loaded st /\ elog st' = elog st.
Proof. exact unknown_fails. Qed.
Print Assumptions C07_unknown_fails.

(* conjunction over the names: one failing symbol makes the whole call report failure *)
Theorem C07_one_failure_fails_call : forall w idx pre m post st st' r,
  auto_import w idx (Some (pre ++ m :: post)) st = (st', r) ->
  snd (auto_import_symbol w idx m (fst (symbols w idx pre st true))) = RFalse ->
  r <> RTrue.
Proof. exact one_failure_fails_call. Qed.
Print Assumptions C07_one_failure_fails_call.

(* the assertion `len(imports) >= 1` cannot fail with the repaired index builder, nor without forget lists *)
Theorem C07_index_repaired_nonempty : forall db forget k, assoc k (index db forget true) <> Some [].
Proof. exact index_repaired_nonempty. Qed.
Print Assumptions C07_index_repaired_nonempty.
Theorem C07_index_noforget_nonempty : forall db de k, assoc k (index db [] de) <> Some [].
Proof. exact index_noforget_nonempty. Qed.
Print Assumptions C07_index_noforget_nonempty.

(* non-vacuity: 1=pa 2=sa 3=xa 5=al;  DB: import pa.sa ; from pa import xa as al ; from qa import xa as al *)
Definition c07_mods : list (dotted * (bool * list name * bool)) :=
  [([1], (true, [3], false)); ([1;2], (false, [3], false))]%N.
Definition c07_idx := index [([1;2], [1;2]); ([1;3], [5]); ([4;3], [5])]%N [] false.
Example C07_nonvacuous_success :
  let (st', r) := auto_import (mk_world c07_mods) c07_idx (Some [[1;2;3]])%N (ST [[]] [] [] [] [] [] []) in
  r = RTrue /\ ns_get st' 0 [1%N] = Some (OMod [1%N]) /\ needs st' [1;2;3]%N = false.
Proof. vm_compute. repeat split. Qed.
(* a well-formed state with pa imported and bound: pa.sa.xa needs `import pa.sa`; hypotheses hold by computation *)
Example C07_nonvacuous_wf :
  let st := mk_state (mk_world c07_mods) [[([1%N], OMod [1%N])]; []] [] [] [[1%N]] in
  wfp_b (mk_world c07_mods) st = true /\ noclash_b (conv_mods c07_mods) = true /\
  needs st [1;2;3]%N = true /\
  snd (auto_import (mk_world c07_mods) c07_idx (Some [[1;2;3]])%N st) = RTrue.
Proof. vm_compute. repeat split. Qed.
Example C07_nonvacuous_ambiguous :
  known_import c07_idx [5;3]%N = Some [([1;3], [5]); ([4;3], [5])]%N
  /\ snd (auto_import (mk_world c07_mods) c07_idx (Some [[5;3]])%N (ST [[]] [] [] [] [] [] [])) = RFalse.
Proof. vm_compute. split; reflexivity. Qed.

(* C01 - source rewriters touch only top-level import statements.
   Only statements, `exact`, and Print Assumptions here; proofs are in S2S/*Proofs.v.
   `frame bs i o` (S2S/BlocksProofs.v, DESIGN Appendix I): i and o are built, block by block, from
   the same texts in the same order, except that where bs has an import block i has that block's
   text and o an arbitrary replacement.  R (the renderer of import sets), mkset and the payload /
   import-set types are arbitrary: nothing below depends on what the formatter prints. *)
From Coq Require Import NArith List Bool String.
From Verif Require Import Base.Chars Base.StrX Text.FilePos Text.FileText Text.Split
                          S2S.Blocks S2S.Insert S2S.BlocksProofs S2S.InsertProofs
                          Imports.Import Imports.ImportSet Imports.Format Imports.ImportLex
                          Imports.ImportSetProofs Imports.RoundTripProofs S2S.Closed S2S.ClosedProofs.
Import ListNotations.

(* reformat_import_statements(PythonBlock): everything outside the maximal runs of top-level import
   statements is preserved character for character, in order (the relation is between the complete
   texts, so the presence or absence of a final newline is part of it) *)
Theorem C01_reformat_frame : forall (P iset : Type) (mkset : list P -> iset) (R : iset -> str)
    (ns : list (snode P)) (t : text) (ps : list (spiece P)),
  statements ns t = Some ps ->
  frame P iset (preprocess mkset ps) (joined t) (pretty R (preprocess mkset ps)).
Proof. exact reformat_frame. Qed.
Print Assumptions C01_reformat_frame.

(* the import blocks are exactly the maximal runs of import-statement pieces *)
Theorem C01_blocks_are_maximal_import_runs : forall (P iset : Type) (mkset : list P -> iset) (ps : list (spiece P)),
  exists runs, flat_map (run_pieces P) runs = ps /\ Forall (run_ok P) runs /\ keys_alternate P runs /\
    preprocess mkset ps = map (mk_block mkset) runs /\
    Forall2 (fun run b => is_imports b = run_key P run /\
                          block_input b = pb_concat (run_first P run) (run_rest P run) /\ untouched P iset b)
            runs (preprocess mkset ps).
Proof. exact preprocess_blocks. Qed.
Print Assumptions C01_blocks_are_maximal_import_runs.

(* any edit that only assigns import sets (remove_import, add_import into an existing block,
   replace_star_imports, remove_broken_imports, transform_imports with an empty map) keeps the frame *)
Theorem C01_edit_frame : forall (P iset : Type) (R : iset -> str) (bs bs' : list (@block P iset)) i o,
  frame P iset bs i o -> only_sets_changed P iset bs bs' -> frame P iset bs' i (pretty R bs').
Proof. exact edit_frame. Qed.
Print Assumptions C01_edit_frame.

Theorem C01_edits_frame : forall (P iset : Type) (R : iset -> str) (edits : list (nat * iset)) (bs : list (@block P iset)) i o,
  frame P iset bs i o ->
  let bs' := fold_left (fun acc e => set_nth_importset (fst e) (snd e) acc) edits bs in
  frame P iset bs' i (pretty R bs').
Proof. exact edits_frame. Qed.
Print Assumptions C01_edits_frame.

(* when no block accepts an added import: the output is the prologue (maximal leading run of
   comment / blank statements and at most one str-literal statement - the docstring; never a bytes
   literal statement), a line
   terminator if - and only possibly if - the prologue is not empty and does not end with a newline
   (the file ends in the middle of its last prologue line), the new block, one blank line, and the
   rest of the input framed as before *)
Theorem C01_insert_frame : forall (P iset : Type) (empty_set : iset) (R : iset -> str)
    (bs bs' : list (@block P iset)),
  Forall (untouched P iset) bs ->
  insert_new_import_block empty_set bs = Some bs' ->
  exists pro term rest o',
    input_text P iset bs = (pro ++ rest)%list /\
    pretty R bs' = (pro ++ term ++ R empty_set ++ [c_nl] ++ o')%list /\
    (exists brest, frame P iset brest rest o') /\
    is_prologue_text P iset bs pro /\
    (term = [] \/ (term = [c_nl] /\ needs_terminator pro = true)).
Proof. exact insert_frame. Qed.
Print Assumptions C01_insert_frame.

(* a module without top-level import statements is returned unchanged *)
Theorem C01_no_imports_identity : forall (P iset : Type) (bs : list (@block P iset)) i o,
  frame P iset bs i o -> forallb (fun b => negb (is_imports b)) bs = true -> i = o.
Proof. exact frame_no_imports. Qed.
Print Assumptions C01_no_imports_identity.

(* F12 (known finding): a str argument - not a PythonBlock - is first completed with a final
   newline.  Full statement (false):  forall s, from_source_str s = s. *)
Theorem C01_str_input_partial : forall s, ends_with_nl s = true -> from_source_str s = s.
Proof. exact from_source_str_partial. Qed.
Print Assumptions C01_str_input_partial.

Theorem C01_str_input_refuted : exists s, from_source_str s <> s.
Proof. exists (dec "x=1"%string). vm_compute. discriminate. Qed.
Print Assumptions C01_str_input_refuted.

(* ===== C03 closed: the fixed-point clause of C03 for the reformat tool, in closed form =====
   (same statements as Properties/C03closed.v, repeated here so that this check's audit covers them;
   the hypotheses sets_okb and oracle_compositionalb are evaluated by harness/c01.py on every closed
   pass, the second pass's node list being CPython's for the first pass's real output) *)
Theorem C01_C03_reprint_shadow : forall P S out S',
  wf_set S -> sorted_set S -> print_set P S = Some out -> parse_imports out = Some S' ->
  print_set P (from_imports true S') = Some out.
Proof. exact reprint_shadow. Qed.
Print Assumptions C01_C03_reprint_shadow.

Theorem C01_C03_reformat_idempotent_closed : forall P ns1 t1 ps1 xs ns2 ps2,
  statements ns1 t1 = Some ps1 ->
  sets_okb (preprocess mk_cset ps1) = true ->
  pretty_closed P (preprocess mk_cset ps1) = Some xs ->
  statements ns2 (of_str (List.concat xs) (mkPos 1 1)) = Some ps2 ->
  oracle_compositionalb (preprocess mk_cset ps1) xs (preprocess mk_cset ps2) = true ->
  reformat_closed P ns1 t1 = Some (List.concat xs) /\
  reformat_closed P ns2 (of_str (List.concat xs) (mkPos 1 1)) = Some (List.concat xs).
Proof. exact reformat_idempotent_closed_b. Qed.
Print Assumptions C01_C03_reformat_idempotent_closed.

(* non-vacuity: concrete runs through statements / preprocess / pretty / insert *)
Definition ex_R : N -> str := fun _ => dec "IMPORTS$a;"%string.
Example C01_nonvacuous_reformat :
  reformat (fun _ : list unit => 0%N) ex_R
           [mkNode (mkPos 1 1) 1 KOther; mkNode (mkPos 1 8) 1 (KImport tt); mkNode (mkPos 3 1) 3 KOther]
           (of_str (dec "x = 1; import b  # c$a;# k$a;y = 2"%string) (mkPos 1 1))
  = Some (dec "x = 1; IMPORTS$a;# k$a;y = 2"%string).
Proof. vm_compute. reflexivity. Qed.
Example C01_nonvacuous_insert :
  match statements [mkNode (mkPos 1 1) 1 (@KStrExpr unit); mkNode (mkPos 3 1) 3 KOther]
                   (of_str (dec "'''d'''$a;# c$a;y = 2$a;"%string) (mkPos 1 1)) with
  | Some ps => option_map (pretty ex_R) (insert_new_import_block 0%N (preprocess (fun _ : list unit => 0%N) ps))
  | None => None
  end = Some (dec "'''d'''$a;# c$a;IMPORTS$a;$a;y = 2$a;"%string).
Proof. vm_compute. reflexivity. Qed.
Example C01_nonvacuous_insert_docstring_only :
  match statements [mkNode (mkPos 1 1) 1 (@KStrExpr unit)] (of_str (dec "'d'"%string) (mkPos 1 1)) with
  | Some ps => option_map (pretty ex_R) (insert_new_import_block 0%N (preprocess (fun _ : list unit => 0%N) ps))
  | None => None
  end = Some (dec "'d'$a;IMPORTS$a;$a;"%string).
Proof. vm_compute. reflexivity. Qed.
Example C01_nonvacuous_insert_second_string :
  match statements [mkNode (mkPos 1 1) 1 (@KStrExpr unit); mkNode (mkPos 2 1) 2 KStrExpr; mkNode (mkPos 3 1) 3 KOther]
                   (of_str (dec "'d'$a;'second'$a;y = 2$a;"%string) (mkPos 1 1)) with
  | Some ps => option_map (pretty ex_R) (insert_new_import_block 0%N (preprocess (fun _ : list unit => 0%N) ps))
  | None => None
  end = Some (dec "'d'$a;IMPORTS$a;$a;'second'$a;y = 2$a;"%string).
Proof. vm_compute. reflexivity. Qed.
Example C01_nonvacuous_insert_bytes_first :
  match statements [mkNode (mkPos 2 1) 2 (@KBytesExpr unit); mkNode (mkPos 3 1) 3 KStrExpr]
                   (of_str (dec "# c$a;b'x'$a;'d'$a;"%string) (mkPos 1 1)) with
  | Some ps => option_map (pretty ex_R) (insert_new_import_block 0%N (preprocess (fun _ : list unit => 0%N) ps))
  | None => None
  end = Some (dec "# c$a;IMPORTS$a;$a;b'x'$a;'d'$a;"%string).
Proof. vm_compute. reflexivity. Qed.

(* C16 - xreload updates live references and is atomic when the new code fails.
   Only statements, `exact`, and Print Assumptions here; proofs are in Livepatch/*Proofs.v.

   NOT proved (no semantics of Python objects): "the module's namespace is observationally equal
   to a fresh import of the new source", and "behaves exactly as the new source defines".  Those
   clauses are decided by the correspondence check and the behavioural oracle of harness/c16.py. *)
From Coq Require Import NArith List Bool String.
From Verif Require Import Livepatch.Heap Livepatch.Patch Livepatch.Xreload
                          Livepatch.PatchProofs Livepatch.XreloadProofs Livepatch.FrameProofs
                          Livepatch.ShapeProofs Livepatch.TermProofs Livepatch.Wf Livepatch.KindProofs Livepatch.TotalProofs.
Import ListNotations.

(* rollback: the new source raises at any statement index an exception of ANY class exc - the handler is a
   bare `except:`, so SystemExit / KeyboardInterrupt / GeneratorExit / user BaseException subclasses are
   included (exec oracle = ExecFail idx exc h1, whose frame
   hypothesis says executing code only wrote objects it allocated): the exception propagates, every
   registry entry and every object that existed before is unchanged *)
Theorem C16_rollback : forall bases_ok nm fuel w name module scratch kl mt idx exc h1,
  (forall a, In a (dom (wheap w)) -> lookup h1 a = lookup (wheap w) a) ->
  let r := xreload bases_ok nm fuel w name module scratch kl mt (ExecFail idx exc h1) in
  snd r = Raise /\
  (forall n, aget (wreg (fst r)) n = aget (wreg w) n) /\
  (forall a, In a (dom (wheap w)) -> lookup (wheap (fst r)) a = lookup (wheap w) a).
Proof. exact rollback. Qed.
Print Assumptions C16_rollback.

(* a failure inside the patch phase also restores the registry (partial patches stay: outside the
   property, which speaks of the new source raising) *)
Theorem C16_patch_failure_restores_registry : forall bases_ok nm fuel w name module scratch kl mt h1 s,
  livepatch_module name (scratch_dict h1 scratch) bases_ok nm fuel h1 module scratch = Raised s ->
  let r := xreload bases_ok nm fuel w name module scratch kl mt (ExecOk h1) in
  snd r = Raise /\ (forall n, aget (wreg (fst r)) n = aget (wreg w) n).
Proof. exact patch_failure_restores_registry. Qed.
Print Assumptions C16_patch_failure_restores_registry.

Theorem C16_success_registry : forall bases_ok nm fuel w name module scratch kl mt h1 s r0,
  livepatch_module name (scratch_dict h1 scratch) bases_ok nm fuel h1 module scratch = Ok s r0 ->
  let r := xreload bases_ok nm fuel w name module scratch kl mt (ExecOk h1) in
  snd r = Done /\ aget (wreg (fst r)) name = Some r0 /\
  (forall n, n <> name -> aget (wreg (fst r)) n = aget (wreg w) n).
Proof. exact success_registry. Qed.
Print Assumptions C16_success_registry.

Theorem C16_reload_decision : forall force loadtime mtime same,
  decide force loadtime mtime same = Reload <->
  (force = true \/ ((loadtime <= mtime)%N /\ same = false)).
Proof. exact decide_spec. Qed.
Print Assumptions C16_reload_decision.

(* identity_kept (functions; partial = with "equal plain cell values" inside func_compatible):
   a function of this module met for the first time, with unchanged name, closure length, free
   variables, cell value types and equal non-updatable cell values, keeps its address *)
Theorem C16_identity_kept_partial : forall modname newmod_dict bases_ok nm fuel s stack fo fn o n s' a,
  fo <> fn -> ~ In fo stack -> cache_find (cache s) fo fn = None ->
  lookup (hp s) fo = Some o -> lookup (hp s) fn = Some n ->
  tyof o = TyFunc -> tyof n = TyFunc ->
  (defmod (hp s) fn = None \/ defmod (hp s) fn = Some modname) ->
  func_compatible (hp s) o n = true ->
  lp modname newmod_dict bases_ok nm (S fuel) s stack fo fn = Ok s' a ->
  a = fo /\ cache_find (cache s') fo fn = Some fo.
Proof. exact identity_kept_function. Qed.
Print Assumptions C16_identity_kept_partial.

(* ... and it carries the new code, defaults and doc (for nested calls that leave it alone) *)
Theorem C16_identity_kept_fields : forall (rec : recT) s stack fo fn n1 m1 c1 d1 kd1 doc1 an1 fd1 cl1 fv1 n2 m2 c2 d2 kd2 doc2 an2 fd2 cl2 fv2 s' a,
  lookup (hp s) fo = Some (OFunc n1 m1 c1 d1 kd1 doc1 an1 fd1 cl1 fv1) ->
  lookup (hp s) fn = Some (OFunc n2 m2 c2 d2 kd2 doc2 an2 fd2 cl2 fv2) ->
  func_compatible (hp s) (OFunc n1 m1 c1 d1 kd1 doc1 an1 fd1 cl1 fv1) (OFunc n2 m2 c2 d2 kd2 doc2 an2 fd2 cl2 fv2) = true ->
  (forall s0 st x y s1 r, rec s0 st x y = Ok s1 r -> lookup (hp s1) fo = lookup (hp s0) fo) ->
  patch_function rec s stack fo fn = Ok s' a ->
  lookup (hp s') fo = Some (OFunc n1 m1 c2 d2 kd2 doc2 an2 fd1 cl1 fv1).
Proof. exact patch_function_fields. Qed.
Print Assumptions C16_identity_kept_fields.

(* the property's wording - name, closure length, free variables, cell value types unchanged -
   without "equal plain cell values" is false of the code (F20, known finding):
     forall h fo fn, literal_shape_equal h fo fn = true -> patch_function ... returns fo        *)
Theorem C16_identity_kept_literal_refuted :
  exists h fo fn o n,
    lookup h fo = Some o /\ lookup h fn = Some n /\ literal_shape_equal h o n = true /\
    forall rec stack, patch_function rec (mkSt h []) stack fo fn = Ok (mkSt h []) fn /\ fn <> fo.
Proof. exact identity_kept_literal_refuted. Qed.
Print Assumptions C16_identity_kept_literal_refuted.

(* identity_kept for methods: a method object always keeps its identity; its function follows the function rule *)
Theorem C16_identity_kept_method : forall (rec : recT) s stack m1 m2 s' a,
  patch_method rec s stack m1 m2 = Ok s' a -> a = m1.
Proof. exact patch_method_kept. Qed.
Print Assumptions C16_identity_kept_method.

(* identity_kept for classes - the exact condition: a class is replaced only if its __slots__ differ or CPython
   refuses the __bases__ assignment (oracle bases_ok); otherwise it keeps its address *)
Theorem C16_identity_kept_class : forall modname bases_ok nm (rec : recT) s stack c_old c_new s' a,
  patch_class modname bases_ok nm rec s stack c_old c_new = Ok s' a ->
  a = c_old \/
  (a = c_new /\ ((exists n1 m1 cd1 b1 sl1 n2 m2 cd2 b2 sl2,
                    lookup (hp s) c_old = Some (OClass n1 m1 cd1 b1 sl1) /\
                    lookup (hp s) c_new = Some (OClass n2 m2 cd2 b2 sl2) /\
                    slots_differ nm (hp s) cd1 cd2 = true)
                 \/ bases_ok c_old c_new = false)).
Proof. exact patch_class_identity. Qed.
Print Assumptions C16_identity_kept_class.

(* ... and gets the right bases (C16-e repaired): with a single base that has a counterpart among the old bases,
   the class body runs with - and stores as __bases__ - the RESULT of livepatching (old base, new base), i.e. the old
   base object whenever the base class is itself kept *)
Theorem C16_class_bases_mapped : forall modname nm (rec : recT) stack ob nb s k,
  same_class_key (class_key (hp s) ob) (class_key (hp s) nb) = true ->
  map_bases modname nm rec stack [ob] [nb] s [] k = bind (rec s stack ob nb) (fun s' u => k s' [u]).
Proof. exact map_bases_single. Qed.
Print Assumptions C16_class_bases_mapped.

(* C16-g repaired: a GAINED base defined in this module is mapped through livepatch with the class of that name in
   the dict of the module being reloaded (kept class => the old object) *)
Theorem C16_class_bases_gained : forall modname nm (rec : recT) stack obs nb s k c,
  find_old_base (hp s) obs nb = None -> gained_counterpart modname nm (hp s) nb = Some c ->
  map_bases modname nm rec stack obs [nb] s [] k = bind (rec s stack c nb) (fun s' u => k s' [u]).
Proof. exact map_bases_gained. Qed.
Print Assumptions C16_class_bases_gained.

Theorem C16_class_bases_stored : forall modname bases_ok nm (rec : recT) stack c_old c_new s mapped n1 m1 cd1 b1 sl1 n2 m2 cd2 b2 sl2,
  lookup (hp s) c_old = Some (OClass n1 m1 cd1 b1 sl1) ->
  lookup (hp s) c_new = Some (OClass n2 m2 cd2 b2 sl2) ->
  (listN_eqb b1 mapped = true \/ bases_ok c_old c_new = true) ->
  exists cd, exists l,
    patch_class_body modname bases_ok nm rec stack c_old c_new s mapped =
    fold_left (setattr_class modname rec stack c_old c_new) l
              (Ok (upd s c_old (OClass n1 m1 cd mapped sl1)) c_old).
Proof. exact patch_class_body_sets_bases. Qed.
Print Assumptions C16_class_bases_stored.

(* C16-e: for the code before the repair "a kept class has the kept module classes as bases" is false *)
Theorem C16_class_bases_v0_refuted :
  exists h b_old b_new a_old a_new,
    class_bases h b_old = Some [a_old] /\ class_bases h b_new = Some [a_new] /\ a_old <> a_new /\
    match patch_class_v0 9%N (fun _ _ => true) c16e_names (lp 9%N 0%N (fun _ _ => true) c16e_names 10)
                         (mkSt h []) [b_old] b_old b_new with
    | Ok s r => r = b_old /\ class_bases (hp s) b_old = Some [a_new]
    | _ => False
    end.
Proof. exact c16e_v0_refuted. Qed.
Print Assumptions C16_class_bases_v0_refuted.

(* frame: whatever livepatch does, a dict that is on the visit stack (i.e. that an enclosing
   _livepatch__dict is working on) is not written by the nested call - cycles through the module dict,
   instance dicts and function dicts are cut *)
Theorem C16_frame_visit_stack : forall modname newmod_dict bases_ok nm fuel s stack old new s' r,
  lp modname newmod_dict bases_ok nm fuel s stack old new = Ok s' r ->
  forall d e, In d stack -> lookup (hp s) d = Some (ODict e) -> lookup (hp s') d = Some (ODict e).
Proof. exact lp_frame_plain. Qed.
Print Assumptions C16_frame_visit_stack.

(* the same for every object that only its own handler activation writes - dicts, classes, instances: while one
   of them is on the visit stack no nested call writes it (functions and cells are excluded: the method and
   classmethod paths reach _livepatch__function without going through livepatch) *)
Theorem C16_frame_visit_stack_general : forall modname newmod_dict bases_ok nm fuel s stack old new s' r,
  lp modname newmod_dict bases_ok nm fuel s stack old new = Ok s' r ->
  forall d o, In d stack -> lookup (hp s) d = Some o -> protected o = true -> lookup (hp s') d = Some o.
Proof. exact lp_gframe_plain. Qed.
Print Assumptions C16_frame_visit_stack_general.

(* dict_shape: a successful patch returns the old module, and its __dict__ object has exactly the keys
   of the new module's dict: deleted names are gone, new names are present (xreload then adds
   __loadtime__) *)
Theorem C16_dict_shape : forall modname newmod_dict bases_ok nm fuel h m_old m_new d1 d2 eo en s' r,
  lookup h m_old = Some (OModule d1) -> lookup h m_new = Some (OModule d2) ->
  m_old <> m_new -> d1 <> d2 ->
  lookup h d1 = Some (ODict eo) -> lookup h d2 = Some (ODict en) ->
  livepatch_module modname newmod_dict bases_ok nm fuel h m_old m_new = Ok s' r ->
  r = m_old /\
  exists e', lookup (hp s') d1 = Some (ODict e') /\ forall k, In k (akeys e') <-> In k (akeys en).
Proof. exact dict_shape. Qed.
Print Assumptions C16_dict_shape.

(* module_dunders (F27, repaired code): an entry that is the same object in the old module's dict and
   in the scratch module's dict (after the repair: __package__, __loader__, __spec__, __cached__,
   __path__) is that object afterwards.  Hypothesis: nested calls do not write the scratch module's
   dict (evaluated by the harness on every run). *)
Theorem C16_module_dunders_partial : forall modname newmod_dict bases_ok nm fuel h m_old m_new d1 d2 eo en s' r k0 v,
  lookup h m_old = Some (OModule d1) -> lookup h m_new = Some (OModule d2) ->
  m_old <> m_new -> d1 <> d2 ->
  lookup h d1 = Some (ODict eo) -> lookup h d2 = Some (ODict en) ->
  aget eo k0 = Some v -> aget en k0 = Some v ->
  (forall f s0 st a b s1 r1, lp modname newmod_dict bases_ok nm f s0 st a b = Ok s1 r1 ->
                             lookup (hp s1) d2 = lookup (hp s0) d2) ->
  livepatch_module modname newmod_dict bases_ok nm fuel h m_old m_new = Ok s' r ->
  exists e', lookup (hp s') d1 = Some (ODict e') /\ aget e' k0 = Some v.
Proof. exact module_dunders. Qed.
Print Assumptions C16_module_dunders_partial.

(* termination with fuel = heap size: the visit stack holds distinct heap addresses and grows with every
   nested call, nothing is allocated; fuel > |heap| suffices at top level (the harness runs the model with
   fuel = |heap| + 1), and in general fuel + |visit stack| > |heap| *)
Theorem C16_termination : forall modname newmod_dict bases_ok nm h m_old m_new fuel,
  List.length (dom h) < fuel ->
  livepatch_module modname newmod_dict bases_ok nm fuel h m_old m_new <> OutOfFuel /\
  forall s' r, livepatch_module modname newmod_dict bases_ok nm fuel h m_old m_new = Ok s' r ->
               dom (hp s') = dom h.
Proof. exact termination. Qed.
Print Assumptions C16_termination.

Theorem C16_termination_nested : forall modname newmod_dict bases_ok nm fuel s stack old new,
  NoDup stack -> incl stack (dom (hp s)) -> List.length (dom (hp s)) < fuel + List.length stack ->
  lp modname newmod_dict bases_ok nm fuel s stack old new <> OutOfFuel.
Proof. exact termination_nested. Qed.
Print Assumptions C16_termination_nested.

(* ---------- patch_total ---------- *)
(* well-formedness (Wf.wf_heap: unique addresses, every stored address allocated, kinds consistent with the fields)
   is evaluated by the harness on every snapshot.  Its kind part and the heap domain are invariant under livepatch: *)
Theorem C16_kinds_preserved : forall modname newmod_dict bases_ok nm fuel h m_old m_new s' r,
  livepatch_module modname newmod_dict bases_ok nm fuel h m_old m_new = Ok s' r ->
  forall a, okind (lookup (hp s') a) = okind (lookup h a).
Proof. exact livepatch_module_kind_preserved. Qed.
Print Assumptions C16_kinds_preserved.

(* patch_total - "patching a successfully executed new version never raises" - is FALSE, also for the repaired code:
   on a well-formed heap in which a dict of the new side is also a value of the old side the nested patch empties it
   and the enclosing loop fails (KeyError).  Reproduced on the real code: known finding C16-f.  Hence failures inside
   the patch phase exist and leave partial patches: no `rollback_no_partial_patches`. *)
Theorem C16_patch_total_refuted :
  exists h m_old m_new modname nm,
    wf_heap h = true /\
    exists s, livepatch_module modname (scratch_dict h m_new) (fun _ _ => true) nm (S (List.length h)) h m_old m_new = Raised s.
Proof. exact patch_total_refuted. Qed.
Print Assumptions C16_patch_total_refuted.

(* patch_total_partial: the dict loop (module dict, instance dicts, function dicts, dict data) never raises by
   itself - every key it reads is still there - when the nested calls do not raise and do not write the NEW dict
   (separation of old and new side; the harness evaluates it for the scratch module's dict on every run) *)
Theorem C16_patch_total_partial : forall (rec : recT),
  (forall s st a b s' r, rec s st a b = Ok s' r ->
     forall d e, In d st -> Some d <> None -> lookup (hp s) d = Some (ODict e) -> lookup (hp s') d = Some (ODict e)) ->
  forall s stk d1 d2 eo en,
  In d1 stk ->
  lookup (hp s) d1 = Some (ODict eo) -> lookup (hp s) d2 = Some (ODict en) -> d1 <> d2 ->
  (forall s0 a b s1 r1, rec s0 stk a b = Ok s1 r1 -> lookup (hp s1) d2 = lookup (hp s0) d2) ->
  (forall s0 a b s1, rec s0 stk a b <> Raised s1) ->
  forall s1, patch_dict rec s stk d1 d2 <> Raised s1.
Proof. exact patch_dict_total. Qed.
Print Assumptions C16_patch_total_partial.

(* non-vacuity: a two-function module (f kept and re-coded, g replaced because its cell value differs,
   h deleted, k added) patched by the model *)
Definition nv_heap : heap :=
  [ (1, OModule 3); (2, OModule 4);
    (3, ODict [(20, 10); (21, 11); (22, 12)]);              (* old: f, g, h *)
    (4, ODict [(20, 13); (21, 14); (23, 15)]);              (* new: f, g, k *)
    (10, OFunc 20 (Some 9) 100 101 101 102 102 50 [] []);
    (11, OFunc 30 (Some 9) 103 101 101 102 102 51 [304] [31]);
    (12, OFunc 22 (Some 9) 105 101 101 102 102 52 [] []);
    (13, OFunc 20 (Some 9) 200 101 101 102 102 53 [] []);
    (14, OFunc 30 (Some 9) 103 101 101 102 102 54 [404] [31]);
    (304, OCell 104); (404, OCell 204);
    (15, OFunc 23 (Some 9) 205 101 101 102 102 55 [] []);
    (50, ODict []); (51, ODict []); (52, ODict []); (53, ODict []); (54, ODict []); (55, ODict []);
    (100, OPrim 5 1); (101, OPrim 6 2); (102, OPrim 6 2); (103, OPrim 5 3); (105, OPrim 5 4);
    (200, OPrim 5 5); (205, OPrim 5 6); (104, OPrim 7 31); (204, OPrim 7 32) ]%N.

Example C16_nonvacuous :
  match livepatch_module 9%N 4%N (fun _ _ => true) (mkNames 90 91 92 93 3)%N (S (List.length nv_heap)) nv_heap 1%N 2%N with
  | Ok s r =>
      r = 1%N /\
      lookup (hp s) 3%N = Some (ODict [(20, 10); (21, 14); (23, 15)])%N /\      (* f kept, g replaced, h gone, k new *)
      lookup (hp s) 10%N = Some (OFunc 20 (Some 9) 200 101 101 102 102 50 [] [])%N       (* f has the new code *)
  | _ => False
  end.
Proof. vm_compute. repeat split. Qed.

(* C09 - no file is modified without the configured go-ahead.
   Only statements, `exact`, and Print Assumptions here; proofs are in Sys/ActionsProofs.v.
   `fx` ranges over the unchanged code and the two repairs (fixes/F4-*.diff, fixes/F5-*.diff);
   theorems without a hypothesis on fx hold for all four combinations. *)
From Coq Require Import NArith List Bool.
From Verif Require Import Base.Chars Sys.Actions Sys.ActionsProofs.
Import ListNotations.
Local Open Scope N_scope.

(* replace_needs_go_ahead: for all action tuples, argument lists, answers, rewriters and trees:
   if the node at path p differs after the run, then some file argument reached a REPLACE of the
   tuple with every action before it having returned normally (in the state left by the files
   before it), p is the file name the Modifier held at that moment (the argument, or the link
   target after SYMFOLLOW), and the rewriter had succeeded on the file. *)
Theorem C09_replace_needs_go_ahead : forall fx modf acts args answers f g p,
  rfs (process fx modf acts args answers f g) p <> f p ->
  exists files1 file files2 pre post mp sp mo o,
    fst (expand f args) = files1 ++ file :: files2 /\
    lfatal (fold_left (file_step fx modf acts) files1 (loop0 f g answers (snd (expand f args)))) = false /\
    acts = pre ++ Replace :: post /\
    all_normal fx modf pre (fresh file)
       (lst (fold_left (file_step fx modf acts) files1 (loop0 f g answers (snd (expand f args))))) = Some (mp, sp) /\
    mfile mp = p /\ force_output modf (pfs sp) mp = FOk mo o.
Proof. exact replace_needs_go_ahead. Qed.
Print Assumptions C09_replace_needs_go_ahead.

(* noop_cases.  (a) PRINT/DIFF-only - any tuple without REPLACE: every path byte-identical *)
Theorem C09_noop_without_replace : forall fx modf acts args answers f g,
  ~ In Replace acts -> forall p, rfs (process fx modf acts args answers f g) p = f p.
Proof. exact no_replace_no_change. Qed.
Print Assumptions C09_noop_without_replace.

(* (b)-(e) are stated per file, from ANY state of the loop (whatever the earlier files did):
   processing file x leaves the whole tree unchanged when ... *)
(* (b) the rewriter fails on it - for every tuple *)
Theorem C09_noop_modifier_failure : forall fx modf acts l x c0,
  read_path (pfs (lst l)) x = Some c0 -> modf c0 = None ->
  pfs (lst (file_step fx modf acts l x)) = pfs (lst l).
Proof. exact noop_modifier_failure. Qed.
Print Assumptions C09_noop_modifier_failure.

(* (c) IFCHANGED stands before the first REPLACE and the output equals the input *)
Theorem C09_noop_ifchanged : forall fx modf acts l x c0 pre post,
  acts = pre ++ IfChanged :: post -> ~ In Replace pre ->
  read_path (pfs (lst l)) x = Some c0 -> modf c0 = Some c0 ->
  pfs (lst (file_step fx modf acts l x)) = pfs (lst l).
Proof. exact noop_ifchanged. Qed.
Print Assumptions C09_noop_ifchanged.

(* (d) QUERY stands before the first REPLACE and none of the remaining answers is a yes
       (an exhausted stdin included) *)
Theorem C09_noop_query_not_yes : forall fx modf acts l x pre post,
  acts = pre ++ Query :: post -> ~ In Replace pre ->
  Forall (fun a => is_yes a = false) (pans (lst l)) ->
  pfs (lst (file_step fx modf acts l x)) = pfs (lst l).
Proof. exact noop_query. Qed.
Print Assumptions C09_noop_query_not_yes.

(* (e) the file is a symlink and the tuple starts with the error or skip policy *)
Theorem C09_noop_symlink_error_skip : forall fx modf acts l x a rest,
  acts = a :: rest -> a = SymErr \/ a = SymSkip -> islink (pfs (lst l)) x = true ->
  pfs (lst (file_step fx modf acts l x)) = pfs (lst l).
Proof. exact noop_symlink_policy. Qed.
Print Assumptions C09_noop_symlink_error_skip.

(* (f) a followed symlink changes only its final target: x is a symlink whose chain (any number of
       hops up to the kernel's limit) ends at t; processing x under a tuple that starts with
       SYMFOLLOW leaves every path other than t as it was - in particular x itself and every
       intermediate link stay the same links (t is not a link: resolve stops at the first non-link) *)
Theorem C09_follow_changes_only_target : forall fx modf acts l x t rest p,
  acts = SymFollow :: rest -> islink (pfs (lst l)) x = true ->
  resolve max_hops (pfs (lst l)) x = Some t -> p <> t ->
  pfs (lst (file_step fx modf acts l x)) p = pfs (lst l) p.
Proof. exact follow_only_target. Qed.
Print Assumptions C09_follow_changes_only_target.

(* directory arguments: every file the expansion yields is either an argument itself or a listed entry of a
   (transitively reached) directory - a *.py entry that is neither hidden nor __pycache__ - UNDER THE ENTRY'S
   OWN NAME: a symlink found while recursing reaches the symlink policy as a symlink (so (e), (f) and
   C09_policy_protects_links apply to it), never already resolved *)
Theorem C09_expansion_yields_entries_by_name : forall f args p,
  In p (fst (expand f args)) -> In (APath p) args \/ listed f p.
Proof. exact expand_names. Qed.
Print Assumptions C09_expansion_yields_entries_by_name.

(* errors_do_not_stop.  Full statement (for every fx): every file of the expanded argument list is
   processed, in order; a failing file makes the exit status 1 and is named in the problem list;
   so is every bad file name; EXIT1 makes the status 1.
   FALSE of the unchanged code (F5, refuted below): symlink_error raises SystemExit, which leaves
   the loop.  Proved for the repaired code, and for the unchanged code when the tuple has no
   SYMERR (never_fatal fx acts := fix_F5 fx = true \/ ~ In SymErr acts). *)
Theorem C09_errors_do_not_stop : forall modf acts args answers f g,
  let r := process repaired_code modf acts args answers f g in
  rfatal r = false /\ map fst (rlog r) = fst (expand f args) /\
  (forall file k, In (file, Error k) (rlog r) -> rexit r = 1%N /\ In (file, k) (rerrors r)) /\
  (forall e, In e (snd (expand f args)) -> rexit r = 1%N /\ In e (rerrors r)) /\
  (forall file, In (file, ExitOne) (rlog r) -> rexit r = 1%N).
Proof. exact errors_do_not_stop_repaired. Qed.
Print Assumptions C09_errors_do_not_stop.

Theorem C09_errors_do_not_stop_partial : forall fx modf acts args answers f g,
  never_fatal fx acts ->
  let r := process fx modf acts args answers f g in
  rfatal r = false /\ map fst (rlog r) = fst (expand f args) /\
  (forall file k, In (file, Error k) (rlog r) -> rexit r = 1%N /\ In (file, k) (rerrors r)) /\
  (forall e, In e (snd (expand f args)) -> rexit r = 1%N /\ In e (rerrors r)) /\
  (forall file, In (file, ExitOne) (rlog r) -> rexit r = 1%N).
Proof. exact errors_do_not_stop. Qed.
Print Assumptions C09_errors_do_not_stop_partial.

(* F5 on the unchanged code: `tidy-imports link.py b.py` (default policy) - b.py is never looked at
   and the missing argument gone.py is not reported *)
Definition ex_fs : fs := upd (upd (upd (fun _ => None) 1 (Some (NFile [97] 0))) 2 (Some (NLink 1))) 3 (Some (NFile [98] 0)).
Definition ex_modf (c : str) : option str := Some (c ++ [33])%list.
Theorem C09_errors_do_not_stop_refuted :
  let r := process unchanged_code ex_modf [SymErr; Print] [APath 9; APath 2; APath 3] [] ex_fs 1 in
  rfatal r = true /\ map fst (rlog r) = [2%N] /\ fst (expand ex_fs [APath 9; APath 2; APath 3]) = [2%N; 3%N] /\
  rerrors r = [] /\ snd (expand ex_fs [APath 9; APath 2; APath 3]) = [(9%N, ErrBadFilename)].
Proof. vm_compute. repeat split. Qed.
Print Assumptions C09_errors_do_not_stop_refuted.

(* policy_survives_options.  Full statement (for every fx): the tuple starts with the symlink
   action of the last --symlinks option (default error) and holds no other symlink action.
   FALSE of the unchanged code (F4, refuted below).  Proved for the repaired code. *)
Theorem C09_policy_survives_options : forall fx tty opts acts,
  fix_F4 fx = true -> fold_options fx tty opts = Some acts ->
  exists tl, acts = sym_action (last_symlinks opts SVError) :: tl /\ Forall (fun a => not_sym a = true) tl.
Proof. exact policy_survives_options. Qed.
Print Assumptions C09_policy_survives_options.

(* F4 on the unchanged code: `tidy-imports --symlinks=skip -r link.py` replaces the link *)
Theorem C09_policy_survives_options_refuted :
  fold_options unchanged_code false [OSymlinks SVSkip; OReplace] = Some [IfChanged; Replace] /\
  fold_options unchanged_code false [OReplace] = Some [IfChanged; Replace] /\
  (forall r, tool unchanged_code ex_modf false [OSymlinks SVSkip; OReplace] [APath 2] [] ex_fs 1 = Some r ->
             rfs r 2%N = Some (NFile [97; 33] 1)).
Proof. split; [reflexivity|]. split; [reflexivity|]. intros r H. vm_compute in H. inversion H; subst. reflexivity. Qed.
Print Assumptions C09_policy_survives_options_refuted.

(* the two together, on the repaired code: under --symlinks=skip or error (whatever other options
   follow or precede) processing a symlink argument changes nothing *)
Theorem C09_policy_protects_links : forall fx modf tty opts acts,
  fix_F4 fx = true -> fold_options fx tty opts = Some acts ->
  last_symlinks opts SVError = SVSkip \/ last_symlinks opts SVError = SVError ->
  forall l x, islink (pfs (lst l)) x = true ->
  pfs (lst (file_step fx modf acts l x)) = pfs (lst l).
Proof. exact tool_protects_links. Qed.
Print Assumptions C09_policy_protects_links.

(* non-vacuity *)
Example C09_nonvacuous_replace :   (* -r on a changed file, an unchanged one, and a followed link *)
  let m (c : str) := if str_eqb c [97] then Some [97; 33] else Some c in
  let r := process repaired_code m [SymFollow; IfChanged; Replace] [APath 3; APath 2] [] ex_fs 1 in
  rfs r 1%N = Some (NFile [97; 33] 1) /\ rfs r 2%N = Some (NLink 1) /\ rfs r 3%N = Some (NFile [98] 0) /\
  rlog r = [(3%N, Abort); (2%N, Normal)] /\ rexit r = 0%N.
Proof. vm_compute. repeat split. Qed.
Example C09_nonvacuous_errors :   (* the repaired code reports the link and goes on *)
  let r := process repaired_code ex_modf [SymErr; Replace] [APath 9; APath 2; APath 3] [] ex_fs 1 in
  rlog r = [(2%N, Error ErrSymlink); (3%N, Normal)] /\ rexit r = 1%N /\
  rerrors r = [(9%N, ErrBadFilename); (2%N, ErrSymlink)] /\ rfs r 3%N = Some (NFile [98; 33] 1) /\ rfs r 2%N = Some (NLink 1).
Proof. vm_compute. repeat split. Qed.
Example C09_nonvacuous_policy :
  fold_options repaired_code false [OSymlinks SVSkip; OReplace] = Some [SymSkip; IfChanged; Replace] /\
  fold_options repaired_code true [OActions [Print; Query; Replace]; OSymlinks SVFollow; ODiff] = Some [SymFollow; Diff] /\
  fold_options repaired_code false [] = Some [SymErr; Print] /\
  fold_options repaired_code true [OSymlinksBad; OReplace] = None.
Proof. vm_compute. repeat split. Qed.
Example C09_nonvacuous_chain :   (* 5 -> 4 -> 2 -> 1: follow rewrites file 1 only; a loop and a binary file are reported *)
  let f := upd (upd (upd (upd (upd ex_fs 4 (Some (NLink 2))) 5 (Some (NLink 4))) 6 (Some (NLink 7))) 7 (Some (NLink 6))) 8 (Some (NBin 0)) in
  let r := process repaired_code ex_modf [SymFollow; Replace] [APath 6; APath 8; APath 5] [] f 1 in
  rfs r 1%N = Some (NFile [97; 33] 1) /\ rfs r 2%N = Some (NLink 1) /\ rfs r 4%N = Some (NLink 2) /\ rfs r 5%N = Some (NLink 4) /\
  rfs r 8%N = Some (NBin 0) /\ rerrors r = [(6%N, ErrBadFilename); (8%N, ErrRead)] /\ rlog r = [(8%N, Error ErrRead); (5%N, Normal)] /\
  resolve max_hops f 5 = Some 1%N /\ resolve max_hops f 6 = None.
Proof. vm_compute. repeat split. Qed.
Example C09_nonvacuous_dir :   (* dir 10 = [.h.py -> skipped; a.py = link 11 -> 1 (outside); sub 12 = [b.py 3]; t.txt; ldir 13 -> 12] *)
  let f := upd (upd (upd (upd ex_fs 10 (Some (NDir [mkEnt true false true 3; mkEnt false false true 11; mkEnt false false false 13;
                                                   mkEnt false false false 12; mkEnt false false false 2])))
                11 (Some (NLink 1))) 12 (Some (NDir [mkEnt false false true 3]))) 13 (Some (NLink 12)) in
  fst (expand f [APath 10]) = [11; 3; 3] /\
  (let r := process repaired_code ex_modf [SymSkip; Replace] [APath 10] [] f 1 in
   rfs r 1 = Some (NFile [97] 0) /\ rfs r 11 = Some (NLink 1) /\ rfs r 3 = Some (NFile [98; 33; 33] 2)).
Proof. vm_compute. repeat split. Qed.
Example C09_nonvacuous_query :
  let r := process repaired_code ex_modf [Query; Replace] [APath 1; APath 3] [[32; 89]; [110]] ex_fs 1 in
  rfs r 1%N = Some (NFile [97; 33] 1) /\ rfs r 3%N = Some (NFile [98] 0).
Proof. vm_compute. repeat split. Qed.

(* C20 - name analysis has no side effects on user objects.
   Only statements, `exact`, and Print Assumptions here; proofs are in AutoImp/NeedsProofs.v.
   Model: AutoImp/Needs.v - symbol_needs_import returning, with its result, the trace of every
   getattr it performs on an object (the only effect constructor there is). *)
From Coq Require Import NArith List Bool.
From Verif Require Import AutoImp.World AutoImp.Needs AutoImp.TryImport AutoImp.AutoImport AutoImp.Spec
                          AutoImp.Wire AutoImp.NeedsProofs AutoImp.AutoImportProofs AutoImp.FinderEffects AutoImp.FinderEffectsProofs.
Import ListNotations.

(* every getattr(o, a) in the trace, for dotted chains of any depth and any namespace contents:
   o is (identical to) the sys.modules entry of a dotted prefix d of the analysed name, and a is
   the component the code itself spells after d *)
Theorem C20_getattr_only_on_registered_modules : forall s n o a,
  In (GetAttr o a) (snd (needs_import s n)) ->
  exists d rest, assoc d (loaded s) = Some o /\ n = d ++ a :: rest.
Proof. exact getattr_registered. Qed.
Print Assumptions C20_getattr_only_on_registered_modules.

(* no import, call, ==, hash, bool: the effect type has no such event and every emitted one is a read *)
Theorem C20_no_import_no_call : forall s n, Forall is_read (snd (needs_import s n)).
Proof. exact all_effects_are_reads. Qed.
Print Assumptions C20_no_import_no_call.

(* the analysis is a function of the namespaces, sys.modules and the attributes it is allowed to
   read; it has no other input (no cache, no hidden state) *)
Theorem C20_needs_pure : forall s s' n,
  nss s = nss s' -> loaded s = loaded s' -> attrs s = attrs s' -> needs_import s n = needs_import s' n.
Proof. exact needs_pure. Qed.
Print Assumptions C20_needs_pure.

(* the namespaces (the whole interpreter state) are returned as given; by construction of the model
   (needs_import has no state output) - the correspondence and the oracle check it on the real dicts *)
Theorem C20_namespaces_unchanged : forall s n, fst (fst (find_missing_ident s n)) = s.
Proof. exact namespaces_unchanged. Qed.
Print Assumptions C20_namespaces_unchanged.

(* and when nothing needs import the whole auto_import call leaves the whole state untouched *)
Theorem C20_no_missing_noop : forall w idx ms st,
  (forall m, In m ms -> needs st m = false) -> auto_import w idx (Some ms) st = (st, RTrue).
Proof. exact no_missing_noop. Qed.
Print Assumptions C20_no_missing_noop.

(* ---------- lifted from one call to the whole analysis (find_missing_imports on compound code) ----------
   `analysis R` (AutoImp/FinderEffects.v) is ANY computation that reaches the user's objects only by asking
   symbol_needs_import (any stack, any name, any number of times, continuing with the answers in any way);
   the finder is such a computation, so these hold for every program and every namespace stack. *)

(* the effect trace of the whole analysis is exactly the concatenation, in call order, of the traces of
   the symbol_needs_import calls it makes *)
Theorem C20_analysis_trace_concat : forall R ld at_ (c : analysis R),
  let '(_, tr, qs) := analyse ld at_ c in tr = flat_map (trace_of ld at_) qs.
Proof. exact analysis_trace_concat. Qed.
Print Assumptions C20_analysis_trace_concat.

Theorem C20_analysis_getattr_only_on_registered_modules : forall R ld at_ (c : analysis R) o a,
  let '(_, tr, qs) := analyse ld at_ c in
  In (GetAttr o a) tr ->
  exists q, In q qs /\ exists d rest, assoc d ld = Some o /\ snd q = d ++ a :: rest.
Proof. exact analysis_getattr_registered. Qed.
Print Assumptions C20_analysis_getattr_only_on_registered_modules.

Theorem C20_analysis_no_import_no_call : forall R ld at_ (c : analysis R),
  let '(_, tr, _) := analyse ld at_ c in Forall is_read tr.
Proof. exact analysis_all_reads. Qed.
Print Assumptions C20_analysis_no_import_no_call.

(* the client the correspondence runs (the questions captured from the real finder, in order) asks exactly
   those questions, in that order, and its trace is the concatenation of their traces *)
Theorem C20_finder_client_calls : forall ld at_ qs,
  analyse ld at_ (finder_client qs) =
  (map (fun q => fst (answer ld at_ q)) qs, flat_map (trace_of ld at_) qs, qs).
Proof. exact finder_client_calls. Qed.
Print Assumptions C20_finder_client_calls.

(* non-vacuity, compound snippet `ta.ua.ub , ta.uc` = two calls; the second answer depends on the state only *)
Example C20_nonvacuous_analysis :
  let stk := [[([1], OExt 1)]]%N in
  analyse [([1], OExt 1); ([1;2], OExt 2)]%N [((OExt 1, 2), OExt 2)]%N
          (finder_client [(stk, [1;2;3]); (stk, [1;4])])%N
  = ([true; true], [GetAttr (OExt 1) 2; GetAttr (OExt 2) 3; GetAttr (OExt 1) 4],
     [(stk, [1;2;3]); (stk, [1;4])])%N.
Proof. vm_compute. reflexivity. Qed.

(* non-vacuity: 1=ta 2=ua 3=ub; ta -> (registered) object 1 -ua-> object 2 (registered as ta.ua) -ub-> missing;
   in a second namespace ta is an UNREGISTERED object 9 with an attribute ua: it is never read *)
Example C20_nonvacuous :
  let s := ST [[([1], OExt 9)]; [([1], OExt 1)]]%N [([1], OExt 1); ([1;2], OExt 2)]%N
              [((OExt 1, 2), OExt 2); ((OExt 9, 2), OExt 7)]%N [] [] [] [] in
  needs_import s [1;2;3]%N = (false, [GetAttr (OExt 1) 2; GetAttr (OExt 2) 3])%N.
Proof. vm_compute. reflexivity. Qed.

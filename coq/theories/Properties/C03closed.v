(* C03's fixed-point clause for reformat_import_statements in CLOSED form (S2S/Closed.v: statement
   splitter + block grouping of C10/C01, import sets and formatter of C11).
   Only statements, `exact`, and Print Assumptions here; proofs are in S2S/ClosedProofs.v.
   The same statements are repeated in Properties/C01.v (section "C03 closed") so that the C01 check's
   audit covers them; harness/c01.py evaluates sets_okb and oracle_compositionalb on every closed pass. *)
From Coq Require Import NArith List Bool String.
From Verif Require Import Base.Chars Base.StrX Text.FilePos Text.FileText Text.Split
                          Imports.Import Imports.ImportSet Imports.Format Imports.ImportLex
                          Imports.ImportSetProofs Imports.RoundTripProofs
                          S2S.Blocks S2S.Closed S2S.ClosedProofs.
Import ListNotations.

(* printing the set rebuilt WITH shadow filtering (what the second reformat pass does) from the imports
   parsed out of a printed block reproduces the identical text; strengthens C11_reprint *)
Theorem C03_reprint_shadow : forall P S out S',
  wf_set S -> sorted_set S -> print_set P S = Some out -> parse_imports out = Some S' ->
  print_set P (from_imports true S') = Some out.
Proof. exact reprint_shadow. Qed.
Print Assumptions C03_reprint_shadow.

(* the decision procedure the harness evaluates is sound for C11's domain *)
Theorem C03_wf_importb_sound : forall i, wf_importb i = true -> wf_import i.
Proof. exact wf_importb_ok. Qed.
Print Assumptions C03_wf_importb_sound.

(* reformat(reformat(x)) = reformat(x), closed: for all parameters, texts, start positions and node
   lists.  ns1 / ns2 are CPython's node lists for the input and for the first pass's output (oracle
   arguments); oracle_compositionalb is the evaluated hypothesis about ns2: block by block, a verbatim
   block's text is again a non-import block printing the same text, and the text an import block was
   printed to is again ONE import block whose statements' imports are what the C11 parser reads there;
   sets_okb: every import block's set is non-empty and inside C11's domain (ASCII non-keyword names). *)
Theorem C03_reformat_idempotent_closed : forall P ns1 t1 ps1 xs ns2 ps2,
  statements ns1 t1 = Some ps1 ->
  sets_okb (preprocess mk_cset ps1) = true ->
  pretty_closed P (preprocess mk_cset ps1) = Some xs ->
  statements ns2 (of_str (List.concat xs) (mkPos 1 1)) = Some ps2 ->
  oracle_compositionalb (preprocess mk_cset ps1) xs (preprocess mk_cset ps2) = true ->
  reformat_closed P ns1 t1 = Some (List.concat xs) /\
  reformat_closed P ns2 (of_str (List.concat xs) (mkPos 1 1)) = Some (List.concat xs).
Proof. exact reformat_idempotent_closed_b. Qed.
Print Assumptions C03_reformat_idempotent_closed.

(* non-vacuity: a two-block module; the second pass's node list is the real one for the output *)
Definition exc_P : params := mkParams None 4 Never (AlignBool true) 1 true false.
Definition exc_t1 := of_str (dec "x = 1; from m import b, a$a;import os$a;# c$a;import sys  # t$a;"%string) (mkPos 1 1).
Definition exc_ns1 : list (snode (list import)) :=
  mk_cnodes [(1, 1, 1, 2, []); (1, 8, 1, 0, [(dec "m.b", dec "b"); (dec "m.a", dec "a")]%string);
             (2, 1, 2, 0, [(dec "os", dec "os")]%string); (4, 1, 4, 0, [(dec "sys", dec "sys")]%string)].
Definition exc_ns2 : list (snode (list import)) :=
  mk_cnodes [(1, 1, 1, 2, []); (1, 8, 1, 0, [(dec "os", dec "os")]%string);
             (2, 1, 2, 0, [(dec "m.a", dec "a"); (dec "m.b", dec "b")]%string); (4, 1, 4, 0, [(dec "sys", dec "sys")]%string)].
Example C03_closed_nonvacuous :
  match statements exc_ns1 exc_t1 with
  | Some ps1 =>
      let bs1 := preprocess mk_cset ps1 in
      match pretty_closed exc_P bs1 with
      | Some xs =>
          List.concat xs = dec "x = 1; import os$a;from m import a, b$a;# c$a;import sys$a;"%string /\
          sets_okb bs1 = true /\
          match statements exc_ns2 (of_str (List.concat xs) (mkPos 1 1)) with
          | Some ps2 => oracle_compositionalb bs1 xs (preprocess mk_cset ps2) = true
          | None => False
          end
      | None => False
      end
  | None => False
  end.
Proof. vm_compute. repeat split. Qed.

(* C15 - `py` delivers arguments faithfully and never evaluates literals.
   Only statements, `exact`, and Print Assumptions here; proofs are in PyArgs/*Proofs.v.

   parse fx idok spec md O argv stdin  models
   _parse_auto_apply_args(_get_argspec(f), argv, ns, mode) with sys.stdin holding stdin:
     fx   = true: the code with the F13 repair (the agreed tree); false: the code before it
     idok = pyflyby._idents.is_identifier (any predicate: the theorems do not depend on it)
     O    = the expression-evaluation oracle (syntax class x outcome of _Namespace.auto_eval)
   scan is the `while args:` loop: positional expressions and keyword assignments in order.
   bind (PyArgs/BindSpec.v) is Python's call-binding rule, tied to inspect.signature(f).bind. *)
From Coq Require Import NArith List Bool String.
From Verif Require Import Base.Chars Base.StrX PyArgs.Parse PyArgs.BindSpec PyArgs.DictProofs
                          PyArgs.ParseProofs PyArgs.ScanProofs PyArgs.TopProofs PyArgs.EvalProofs
                          PyArgs.Main PyArgs.MainProofs.
Import ListNotations.
Local Open Scope list_scope.

(* ---- string identity ---- *)

(* string / --safe mode: every delivered value is an exact original string of the command line
   (an argument, the text after `=` of an option, standard input for `-`), or the function's own
   default - for every signature, every command line, whatever the oracle would say *)
Theorem C15_string_mode_identity : forall fx idok spec O argv stdin pos kw,
  parse fx idok spec MString O argv stdin = Ok (pos, kw) ->
  Forall (fun v => (exists a, v = VDefault a) \/ exists s, v = VStr s /\ original argv stdin s)
         (pos ++ map snd kw).
Proof. exact string_mode_identity_proof. Qed.
Print Assumptions C15_string_mode_identity.

(* ... and nothing is evaluated: the result of string mode (values and errors alike) is the same
   whatever any string would evaluate to *)
Theorem C15_string_mode_never_evaluates : forall fx idok spec O1 O2 argv stdin,
  parse fx idok spec MString O1 argv stdin = parse fx idok spec MString O2 argv stdin.
Proof. exact string_mode_never_evaluates_proof. Qed.
Print Assumptions C15_string_mode_never_evaluates.

(* everything after the first `--` becomes raw positional strings, in order, in every mode *)
Theorem C15_after_dashdash_raw : forall fx idok spec md pre stdin g1 e1 rest,
  ~ In s_dd pre -> scan fx idok spec md pre stdin = SOk g1 e1 ->
  scan fx idok spec md (pre ++ s_dd :: rest) stdin = SOk (g1 ++ map Raw rest) e1.
Proof. exact scan_dashdash. Qed.
Print Assumptions C15_after_dashdash_raw.

(* ---- auto mode ---- *)

(* a delivered value is the original string, or the value the oracle gives for that string as
   an expression; nothing else.  (When the evaluation of an argument terminates the command -
   RExit - nothing is delivered at all: parse is then Err (EExit code), see design.d/C15.md, F22.) *)
Theorem C15_auto_is_eval_or_raw : forall fx idok spec O argv stdin pos kw,
  parse fx idok spec MAuto O argv stdin = Ok (pos, kw) ->
  Forall (fun v => (exists a, v = VDefault a) \/
                   exists s, original argv stdin s /\
                             (v = VStr s \/ exists t, v = VObj t /\ O s = (Expr, RValue t)))
         (pos ++ map snd kw).
Proof. exact auto_is_eval_or_raw_proof. Qed.
Print Assumptions C15_auto_is_eval_or_raw.

(* F22 (`py f 1/0`): the command terminates while the arguments are parsed only if the mode
   evaluates and the oracle says that evaluating one of the original strings (in auto mode: one
   that is an expression) terminates it; then parse is an error: no value reaches the function *)
Theorem C15_exit_only_from_evaluation : forall fx idok spec md O argv stdin c,
  parse fx idok spec md O argv stdin = Err (EExit c) ->
  md <> MString /\ exists s, orig argv s /\ snd (O s) = RExit c /\ (md = MAuto -> fst (O s) = Expr).
Proof. exact exit_only_from_evaluation_proof. Qed.
Print Assumptions C15_exit_only_from_evaluation.

(* ---- options bind like the equivalent keyword call ---- *)

(* a successful parse delivers a call that binds under Python's rule; every keyword assignment
   of the loop reaches the parameter of that name (or **kwargs), positionals keep their places *)
Theorem C15_refines_bind : forall fx idok spec md O argv stdin pos kw,
  wf_spec spec ->
  parse fx idok spec md O argv stdin = Ok (pos, kw) ->
  exists gpos evs b,
    scan fx idok spec md argv stdin = SOk gpos evs /\
    bind spec pos kw = Some b /\
    (forall n e, dict_get n (dict_of evs) = Some e ->
                 exists v, value O e = Ok v /\ bound_value b n = Some v) /\
    (forall i e, nth_error gpos i = Some e -> exists v, value O e = Ok v /\ nth_error pos i = Some v).
Proof. exact refines_bind_proof. Qed.
Print Assumptions C15_refines_bind.

(* the last occurrence of an option is the one that reaches the parameter *)
Theorem C15_last_occurrence_wins : forall fx idok spec md O argv stdin pos kw gpos evs1 p e evs2,
  wf_spec spec ->
  parse fx idok spec md O argv stdin = Ok (pos, kw) ->
  scan fx idok spec md argv stdin = SOk gpos (evs1 ++ (p, e) :: evs2) -> ~ In p (map fst evs2) ->
  exists b v, bind spec pos kw = Some b /\ value O e = Ok v /\ bound_value b p = Some v.
Proof. exact last_occurrence_wins_proof. Qed.
Print Assumptions C15_last_occurrence_wins.

(* `--name=value` is one assignment  target := value  where target is given by opt_target;
   the value is the text after `=`, even when empty (the F13 repair) *)
Theorem C15_option_with_value : forall fx idok spec md a rest sd n v p,
  fx = true ->
  option_parts a = Some (n, true, v) -> opt_target fx idok spec n true = inr p ->
  scan fx idok spec md (a :: rest) sd = add_ev p (mk md v) (scan fx idok spec md rest sd).
Proof. exact option_with_value_proof. Qed.
Print Assumptions C15_option_with_value.

(* `--name value`, `-name value`: the next argument is the value unless it starts with `--` *)
Theorem C15_option_next_value : forall fx idok spec md a w rest sd n v p,
  option_parts a = Some (n, false, v) -> opt_target fx idok spec n false = inr p ->
  scan fx idok spec md (a :: w :: rest) sd =
    if starts_with s_dd w then SStop (EParse MissingArg)
    else add_ev p (mk md w) (scan fx idok spec md rest sd).
Proof. exact option_next_value_proof. Qed.
Print Assumptions C15_option_next_value.

(* the target of an option name: a parameter having it as prefix - the parameter of exactly that
   name, or the only parameter with that prefix - or, with **kwargs and no parameter matching,
   the name itself *)
Theorem C15_option_target : forall fx idok spec n eq p,
  opt_target fx idok spec n eq = inr p ->
  (In p (params spec) /\ starts_with n p = true /\
     ((fx = true /\ p = n) \/ forall q, In q (params spec) -> starts_with n q = true -> q = p))
  \/ (p = n /\ varkw spec = true /\ forall q, n <> [] -> In q (params spec) -> starts_with n q = false).
Proof. exact opt_target_sound. Qed.
Print Assumptions C15_option_target.

(* with the repair an exact parameter name is never ambiguous *)
Theorem C15_exact_name_wins : forall spec n,
  In n (params spec) -> n <> [] -> resolve true spec n = TUnique n.
Proof. exact resolve_exact. Qed.
Print Assumptions C15_exact_name_wins.

(* a prefix that exactly one parameter has goes to that parameter *)
Theorem C15_unique_prefix : forall spec fx n p,
  NoDup (params spec) -> n <> [] -> ~ In n (params spec) -> In p (params spec) -> starts_with n p = true ->
  (forall q, In q (params spec) -> starts_with n q = true -> q = p) ->
  resolve fx spec n = TUnique p.
Proof. exact resolve_prefix. Qed.
Print Assumptions C15_unique_prefix.

(* ---- rejected, never guessed ---- *)

(* an option at an option position (after a completely read prefix without `--`) whose name is
   a prefix of two different parameters and not itself a parameter: ParseError "Ambiguous" *)
Theorem C15_rejects_ambiguous_prefix : forall fx idok spec md O pre a rest stdin g1 e1 n eq p q,
  ~ In s_dd pre -> scan fx idok spec md pre stdin = SOk g1 e1 ->
  option_name a = Some (n, eq) -> idok n = true -> n <> [] ->
  ~ In n (params spec) -> In p (params spec) -> In q (params spec) -> p <> q ->
  starts_with n p = true -> starts_with n q = true ->
  parse fx idok spec md O (pre ++ a :: rest) stdin = Err (EParse Ambiguous).
Proof. exact rejects_ambiguous_prefix_proof. Qed.
Print Assumptions C15_rejects_ambiguous_prefix.

(* an option no parameter matches, without **kwargs: ParseError "Unknown option" *)
Theorem C15_rejects_unknown_option : forall fx idok spec md O pre a rest stdin g1 e1 n eq,
  ~ In s_dd pre -> scan fx idok spec md pre stdin = SOk g1 e1 ->
  option_name a = Some (n, eq) -> idok n = true ->
  (forall p, In p (params spec) -> starts_with n p = false) -> varkw spec = false ->
  (eq = true \/ (n <> s_help /\ n <> s_h /\ n <> s_source)) ->
  parse fx idok spec md O (pre ++ a :: rest) stdin = Err (EParse Unknown).
Proof. exact rejects_unknown_option_proof. Qed.
Print Assumptions C15_rejects_unknown_option.

(* a required positional parameter given neither positionally nor by name: no call *)
Theorem C15_rejects_missing_required : forall fx idok spec md O argv stdin gpos evs i a,
  wf_spec spec ->
  scan fx idok spec md argv stdin = SOk gpos evs ->
  nth_error (args spec) i = Some a -> List.length gpos <= i -> dict_get a (dict_of evs) = None ->
  has_default spec a = false ->
  forall r, parse fx idok spec md O argv stdin <> Ok r.
Proof. exact rejects_missing_proof. Qed.
Print Assumptions C15_rejects_missing_required.

(* a parameter given both positionally and by name: no call *)
Theorem C15_rejects_positional_and_keyword : forall fx idok spec md O argv stdin gpos evs i a,
  scan fx idok spec md argv stdin = SOk gpos evs ->
  nth_error (args spec) i = Some a -> i < List.length gpos -> dict_mem a (dict_of evs) = true ->
  forall r, parse fx idok spec md O argv stdin <> Ok r.
Proof. exact rejects_both_proof. Qed.
Print Assumptions C15_rejects_positional_and_keyword.

(* more positional arguments than positional parameters, no *args: no call *)
Theorem C15_rejects_too_many : forall fx idok spec md O argv stdin gpos evs,
  scan fx idok spec md argv stdin = SOk gpos evs -> List.length (args spec) < List.length gpos -> varargs spec = false ->
  forall r, parse fx idok spec md O argv stdin <> Ok r.
Proof. exact rejects_too_many_proof. Qed.
Print Assumptions C15_rejects_too_many.

(* ---- the `py` front end (_PyMain: _parse_global_opts + _run_action) ----
   py_main idok O E stdin main_args : what `py main_args` does with its arguments (PyArgs/Main.v);
   E = the environment of the action heuristics (file-name test, parsability of the joined text,
   runnable-module test, what the function expression evaluates to, isatty);
   selected_mode main_args = the arg mode --safe / --args=... select (Some None: none given). *)

(* --safe / --args=string, whatever form the command takes (py f a b, --apply, --call, --map, a
   module.function path, print, %apply ...): every call of a user function receives the exact
   original strings of the command line, or the function's own defaults *)
Theorem C15_main_string_mode_identity : forall idok O E stdin main l fn av pos kw,
  selected_mode main = Some (Some MString) ->
  py_main idok O E stdin main = OCalls l -> In (fn, av, Ok (pos, kw)) l ->
  Forall (fun v => (exists a, v = VDefault a) \/ exists s, v = VStr s /\ original main stdin s)
         (pos ++ map snd kw).
Proof. exact main_string_mode_identity_proof. Qed.
Print Assumptions C15_main_string_mode_identity.

(* the function name and the arguments are glued into one program and evaluated only when no arg
   mode was selected: never under --safe / --args=... *)
Theorem C15_main_joined_only_without_mode : forall idok O E stdin main t,
  py_main idok O E stdin main = OJoined t -> selected_mode main = Some None.
Proof. exact joined_only_without_mode_proof. Qed.
Print Assumptions C15_main_joined_only_without_mode.

(* auto mode end to end (explicit --args=auto, or no arg mode and the command ends in calls):
   every delivered value is an original string of the command line or its value *)
Theorem C15_main_auto_mode : forall idok O E stdin main md l fn av pos kw,
  selected_mode main = Some md -> md = None \/ md = Some MAuto ->
  py_main idok O E stdin main = OCalls l -> In (fn, av, Ok (pos, kw)) l ->
  Forall (fun v => (exists a, v = VDefault a) \/
                   exists s, original main stdin s /\
                             (v = VStr s \/ exists t, v = VObj t /\ O s = (Expr, RValue t)))
         (pos ++ map snd kw).
Proof. exact main_auto_mode_proof. Qed.
Print Assumptions C15_main_auto_mode.

(* programs (--eval, a file, stdin) under a string mode - explicit, or none given: string is their
   default - see the original strings as sys.argv; `python -m`-like runs always do *)
Theorem C15_main_string_programs : forall idok O E stdin main md k w r,
  selected_mode main = Some md -> md = None \/ md = Some MString ->
  py_main idok O E stdin main = OProgram k w r ->
  exists args, r = Ok (map VStr args) /\ (incl args main \/ args = [[]]).
Proof. exact main_string_programs_proof. Qed.
Print Assumptions C15_main_string_programs.

Theorem C15_main_module_args : forall idok O E stdin main m a,
  py_main idok O E stdin main = OModule m a -> incl a main.
Proof. exact main_module_args_proof. Qed.
Print Assumptions C15_main_module_args.

(* ---- F13: what the code before the repair did (fx = false), refuted on witnesses ----
   Full statements that are FALSE of the unrepaired code:
     forall spec n, In n (params spec) -> n <> [] -> resolve false spec n = TUnique n
     `--name=` assigns the empty string to name
   Witnesses (replayed on /repo by harness/c15.py, see design.d/C15.md):                        *)
Definition spec_foo : argspec := mkSpec [dec "foo"; dec "foobar"]%string 1 false [] [] false.
Definition spec_key : argspec := mkSpec [] 0 true [dec "key"]%string [dec "key"]%string false.
Definition always : str -> bool := fun _ => true.
Definition no_oracle : oracle := fun _ => (NotExpr, RError).

Theorem C15_legacy_exact_name_refuted :
  exists spec n, In n (params spec) /\ n <> [] /\ resolve false spec n <> TUnique n /\
    parse false always spec MString no_oracle [dec "--foo=1"%string] [] = Err (EParse Ambiguous).
Proof.
  exists spec_foo, (dec "foo"%string). split; [left; reflexivity|]. split; [discriminate|].
  split; [vm_compute; discriminate|vm_compute; reflexivity].
Qed.
Print Assumptions C15_legacy_exact_name_refuted.

Theorem C15_legacy_empty_value_refuted :
  parse false always spec_key MString no_oracle [dec "--key="; dec "x"; dec "5"]%string []
    = Ok ([VStr (dec "5"%string)], [(dec "key"%string, VStr (dec "x"%string))])
  /\ parse true always spec_key MString no_oracle [dec "--key="; dec "x"; dec "5"]%string []
    = Ok ([VStr (dec "x"%string); VStr (dec "5"%string)], [(dec "key"%string, VStr [])]).
Proof. split; vm_compute; reflexivity. Qed.
Print Assumptions C15_legacy_empty_value_refuted.

(* ---- non-vacuity ---- *)
Definition spec_ex : argspec :=
  mkSpec [dec "foo"; dec "foobar"]%string 1 true [dec "key"]%string [dec "key"]%string true.
Definition ex_oracle : oracle := fun s =>
  if str_eqb s (dec "1+2"%string) then (Expr, RValue (dec "int:3"%string))
  else if str_eqb s (dec "1/0"%string) then (Expr, RExit (dec "1"%string))
  else if str_eqb s (dec "zzz"%string) then (Expr, RUnimportable)
  else (NotExpr, RError).

Example C15_nonvacuous_parse :
  parse true always spec_ex MAuto ex_oracle
        [dec "1+2"; dec "zzz"; dec "--k=a b"; dec "--k=1+2"; dec "--zz="; dec "--"; dec "1+2"]%string []
  = Ok ([VObj (dec "int:3"%string); VStr (dec "zzz"%string); VStr (dec "1+2"%string)],
        [(dec "key"%string, VObj (dec "int:3"%string)); (dec "zz"%string, VStr [])])
  /\ parse true always spec_ex MAuto ex_oracle [dec "--foob"; dec "zzz"; dec "--foo=1+2"]%string []
  = Ok ([VObj (dec "int:3"%string); VStr (dec "zzz"%string)], [(dec "key"%string, VDefault (dec "key"%string))])
  /\ parse true always spec_ex MAuto ex_oracle [dec "1+2"; dec "--fo=1"]%string [] = Err (EParse Ambiguous)
  /\ parse true always spec_ex MAuto ex_oracle [dec "1/0"]%string [] = Err (EExit (dec "1"%string))
  /\ parse true always spec_ex MAuto ex_oracle [dec "1+2"; dec "--foo=1"]%string [] = Err (EParse Both)
  /\ parse true always spec_ex MAuto ex_oracle [dec "--key=1"]%string [] = Err (EParse MissingRequired)
  /\ parse true always spec_ex MString ex_oracle [dec "1+2"; dec "-"]%string (dec "1+2"%string)
     = Ok ([VStr (dec "1+2"%string); VStr (dec "1+2"%string)], [(dec "key"%string, VDefault (dec "key"%string))])
  /\ wf_spec spec_ex.
Proof.
  repeat split; try (vm_compute; reflexivity).
  unfold wf_spec. vm_compute. repeat constructor; simpl; intuition discriminate.
Qed.

(* non-vacuity of the front-end theorems: `py --safe f (1+2)` is a call with the string; without
   --safe, and the joined text parsing, it is one program *)
Definition ex_env : env :=
  mkEnv false (fun _ => false) (fun _ => true) (fun _ => true) (fun _ => false)
        (fun _ => HCallable KOpaque (mkSpec [] 0 false [] [] false)) (fun _ => false).
Example C15_nonvacuous_main :
  selected_mode [dec "--safe"; dec "f"; dec "(1+2)"]%string = Some (Some MString)
  /\ selected_mode [dec "--args=string"; dec "f"; dec "(1+2)"]%string = Some (Some MString)
  /\ py_main always ex_oracle ex_env [] [dec "--safe"; dec "f"; dec "(1+2)"]%string
     = OCalls [(dec "f"%string, [dec "(1+2)"%string], Ok ([VStr (dec "(1+2)"%string)], []))]
  /\ py_main always ex_oracle ex_env [] [dec "f"; dec "(1+2)"]%string = OJoined (dec "f (1+2)"%string)
  /\ py_main always ex_oracle ex_env [] [dec "--args=auto"; dec "f"; dec "1+2"]%string
     = OCalls [(dec "f"%string, [dec "1+2"%string], Ok ([VObj (dec "int:3"%string)], []))]
  /\ py_main always ex_oracle ex_env [] [dec "-c"; dec "x"; dec "1+2"]%string
     = OProgram PEval (dec "x"%string) (Ok [VStr (dec "1+2"%string)]).
Proof. repeat split; vm_compute; reflexivity. Qed.


(* C15 - `py` delivers arguments faithfully and never evaluates literals.
   Only statements, `exact`, and Print Assumptions here; proofs are in PyArgs/*Proofs.v.
   parse fx idok spec md O argv stdin : fx = true is the code with the F13 repair (the agreed
   tree), idok = pyflyby's is_identifier, O the expression-evaluation oracle. *)
From Coq Require Import NArith List Bool String.
From Verif Require Import Base.Chars Base.StrX PyArgs.Parse PyArgs.BindSpec PyArgs.ParseProofs.
Import ListNotations.
Local Open Scope list_scope.

(* string / --safe mode: every delivered value is an exact original string of the command line
   (an argument, the text after `=` of an option, standard input for `-`), or the function's own
   default - for every signature, every command line, whatever the oracle would say *)
Theorem C15_string_mode_identity : forall fx idok spec O argv stdin pos kw,
  parse fx idok spec MString O argv stdin = Ok (pos, kw) ->
  Forall (fun v => (exists a, v = VDefault a) \/ exists s, v = VStr s /\ original argv stdin s)
         (pos ++ map snd kw).
Proof. exact string_mode_identity_proof. Qed.
Print Assumptions C15_string_mode_identity.

(* auto mode: a delivered value is the original string, or the value the oracle gives for that
   string as an expression; nothing else *)
Theorem C15_auto_is_eval_or_raw : forall fx idok spec O argv stdin pos kw,
  parse fx idok spec MAuto O argv stdin = Ok (pos, kw) ->
  Forall (fun v => (exists a, v = VDefault a) \/
                   exists s, original argv stdin s /\
                             (v = VStr s \/ exists t, v = VObj t /\ O s = (Expr, RValue t)))
         (pos ++ map snd kw).
Proof. exact auto_is_eval_or_raw_proof. Qed.
Print Assumptions C15_auto_is_eval_or_raw.

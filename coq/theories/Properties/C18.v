(* C18 - import renaming is prefix-exact and keeps local names bound.
   Only statements, `exact`, and Print Assumptions here; proofs are in Rename/*Proofs.v. *)
From Coq Require Import NArith List Bool String.
From Verif Require Import Scope.PySyntax Scope.PySem Rename.Program Rename.ProgramProofs.
From Verif Require Import Base.Chars Base.StrX Rename.Replace Rename.WordSub
                          Rename.ReplaceProofs Rename.WordSubProofs Rename.WordSubDottedProofs Rename.MapProofs.
Import ListNotations.

(* exactly the imports whose dotted path is OLD or begins with OLD followed by a dot are rewritten,
   and they are rewritten to NEW + the same remainder *)
Theorem C18_replace_exact : forall old new i,
  (~ (fullname i = old \/ exists r, fullname i = old ++ c_dot :: r) -> replace old new i = i) /\
  (fullname i = old -> fullname (replace old new i) = new) /\
  (forall r, fullname i = old ++ c_dot :: r -> fullname (replace old new i) = new ++ c_dot :: r).
Proof. exact replace_exact. Qed.
Print Assumptions C18_replace_exact.

(* never a path that merely shares leading characters *)
Theorem C18_shares_leading_chars_untouched : forall old new i c r,
  fullname i = old ++ c :: r -> (c =? c_dot)%N = false -> replace old new i = i.
Proof. exact shares_leading_chars_untouched. Qed.
Print Assumptions C18_shares_leading_chars_untouched.

(* the local name is kept, unless it itself is OLD / begins with OLD-dot: then it is renamed alike *)
Theorem C18_local_name_kept : forall old new i,
  (fullname i = old \/ exists r, fullname i = old ++ c_dot :: r) ->
  (~ (import_as i = old \/ exists r, import_as i = old ++ c_dot :: r) ->
      import_as (replace old new i) = import_as i) /\
  (import_as i = old -> import_as (replace old new i) = new) /\
  (forall r, import_as i = old ++ c_dot :: r -> import_as (replace old new i) = new ++ c_dot :: r).
Proof. exact local_name_kept. Qed.
Print Assumptions C18_local_name_kept.

(* body substitution for a one-identifier OLD: the text splits uniquely into maximal words and
   separator characters; exactly the words equal to OLD are renamed, everything else is copied *)
Theorem C18_wordsub_exact : forall (W : ch -> bool) (old new : str),
  Forall (fun c => W c = true) old -> old <> [] ->
  forall text, exists ts : list (tok),
    flat ts = text /\ wf_toks W false ts /\
    wordsub W old new text = List.concat (map (rename_tok old new) ts).
Proof. exact wordsub_tokens. Qed.
Print Assumptions C18_wordsub_exact.

(* ---- body substitution for a DOTTED OLD (any OLD that begins and ends with a word character) ----
   occurs_at prev t : t = OLD ++ post, the character before is not a word character (or there is none), post is
   empty or starts with a non-word character.  `.` is a non-word character: `x.pkg.sub` and `pkg.sub.y` contain
   an occurrence, `pkg.subx` and `xpkg.sub` do not. *)
Theorem C18_dotted_name_edges : forall W s, dotted_name W s -> edge_word W s.
Proof. exact dotted_edge. Qed.
Print Assumptions C18_dotted_name_edges.

(* the regex test at one position is exactly "a delimited occurrence starts here" *)
Theorem C18_match_here_iff : forall W old, edge_word W old ->
  forall prev t, match_here W old prev t = true <-> occurs_at W old prev t.
Proof. exact match_here_iff. Qed.
Print Assumptions C18_match_here_iff.

(* relational specification (leftmost, non-overlapping, everything else copied): the scan satisfies it and
   is the only function that does *)
Theorem C18_wordsub_rewrites : forall W old new, edge_word W old ->
  forall text out, Rewrites W old new None text out <-> out = wordsub W old new text.
Proof. exact rewrites_iff. Qed.
Print Assumptions C18_wordsub_rewrites.

(* decomposition: text = pre ++ OLD ++ post with the occurrence delimited and no occurrence starting inside pre:
   pre is copied, OLD becomes NEW, the scan continues behind the occurrence; a text without occurrence is copied *)
Theorem C18_wordsub_leftmost : forall W old new, edge_word W old -> forall pre post,
  no_occurrence_in W old None pre (old ++ post) ->
  Wopt W (lastopt None pre) = false -> boundary W post ->
  wordsub W old new (pre ++ old ++ post) = pre ++ new ++ ws W old new (lastopt None old) post 0.
Proof. exact wordsub_leftmost. Qed.
Print Assumptions C18_wordsub_leftmost.

Theorem C18_wordsub_no_occurrence : forall W old new, edge_word W old -> forall text,
  no_occurrence_in W old None text [] -> wordsub W old new text = text.
Proof. exact wordsub_no_occurrence. Qed.
Print Assumptions C18_wordsub_no_occurrence.

(* ---- multi-entry maps: sequential application in map order ---- *)
Theorem C18_map_composition : forall m1 m2 i,
  transform_import (m1 ++ m2) i = transform_import m2 (transform_import m1 i).
Proof. exact transform_import_app. Qed.
Print Assumptions C18_map_composition.

(* entries whose keys do not extend one another nor one another's replacement: the order is irrelevant ... *)
Theorem C18_map_order_irrelevant : forall m m', Permutation.Permutation m m' -> pairwise_indep m ->
  forall i, transform_import m i = transform_import m' i.
Proof. exact transform_import_order_irrelevant. Qed.
Print Assumptions C18_map_order_irrelevant.

(* ... and the map acts as its unique matching entry *)
Theorem C18_map_unique_match : forall m i, ForallOrdPairs indep m ->
  transform_import m i =
  match find (fun e : entry => matches (fst e) i) m with
  | Some e => replace (fst e) (snd e) i
  | None => i
  end.
Proof. exact transform_import_unique_match. Qed.
Print Assumptions C18_map_unique_match.

(* nested keys (the code's TODO about a.b=>x together with a.b.c=>y): the shorter key listed first shadows the
   longer one; the longer key listed first gives most-specific-wins *)
Theorem C18_nested_shorter_first_shadows : forall k1 v1 k2 v2 i,
  is_prefix (parts k1) (parts k2) = true -> incomparable (parts k2) (parts v1) ->
  transform_import [(k1, v1); (k2, v2)] i = replace k1 v1 i.
Proof. exact nested_shorter_first_shadows. Qed.
Print Assumptions C18_nested_shorter_first_shadows.

Theorem C18_nested_longer_first_specific : forall k1 v1 k2 v2 i, incomparable (parts k1) (parts v2) ->
  transform_import [(k2, v2); (k1, v1)] i = if matches k2 i then replace k2 v2 i else replace k1 v1 i.
Proof. exact nested_longer_first_specific. Qed.
Print Assumptions C18_nested_longer_first_specific.

(* the full statement "the order of a map is irrelevant" is false for nested prefixes (imports and body text) *)
Theorem C18_map_order_irrelevant_refuted :
  exists m m' i, Permutation.Permutation m m' /\ transform_import m i <> transform_import m' i.
Proof. exact order_irrelevant_refuted. Qed.
Print Assumptions C18_map_order_irrelevant_refuted.

Theorem C18_text_order_irrelevant_refuted :
  exists m m' s, Permutation.Permutation m m' /\ transform_text is_ident_char m s <> transform_text is_ident_char m' s.
Proof. exact text_order_irrelevant_refuted. Qed.
Print Assumptions C18_text_order_irrelevant_refuted.

(* where NEW paths denote the same objects as OLD paths, a rewritten import yields the same object *)
Theorem C18_replace_preserves_object : forall (obj : Type) (resolve : list str -> option obj) (old new : str),
  (forall rest, resolve (parts new ++ rest) = resolve (parts old ++ rest)) ->
  forall i, resolve (parts (fullname (replace old new i))) = resolve (parts (fullname i)).
Proof. exact replace_preserves_object. Qed.
Print Assumptions C18_replace_preserves_object.

(* ---- program level, on C02/C05's reference semantics (Scope/PySem.v), MODULE-LEVEL FRAGMENT ----
   rename_program: top-level imports rewritten with Import.replace on id lists and re-expressed at the same line,
   Name / attribute chains whose dotted prefix is OLD renamed.  in_domain old new bi ns p (decidable) is
   old_reached_only_through_matching_toplevel_imports for programs made of import / from-import / expression /
   single-name assignment statements over Name, attribute and operator expressions (no def, class, lambda,
   comprehension, compound statement):  every binding of the root of OLD is an import whose path and local name are
   OLD or under OLD; the root of OLD is read only as OLD or under OLD; the root of NEW (if different) is neither
   bound nor read; every import is expressible before and after.
   The full clause (nested scopes, compound statements) is NOT proved; it is decided by the execution oracle. *)
Theorem C18_behaviour_preserved_flat : forall old new bi ns p, in_domain old new bi ns p = true ->
  pysem bi ns (rename_program old new p) = map (rename_rd old new) (pysem bi ns p).
Proof. exact behaviour_preserved_flat. Qed.
Print Assumptions C18_behaviour_preserved_flat.

(* outside the domain (DESIGN domain note): `import pkg; pkg.sub.f` with pkg.sub -> zz.qq reads the unbound zz *)
Theorem C18_behaviour_preserved_refuted :
  exists old new p, pysem [] [] (rename_program old new p) <> map (rename_rd old new) (pysem [] [] p) /\
                    pysem [] [] p = [(2, 10%N, Bound (BImp 1 ([10%N], [10%N])))] /\
                    pysem [] [] (rename_program old new p) = [(2, 40%N, Unbound)].
Proof. exact behaviour_preserved_refuted. Qed.
Print Assumptions C18_behaviour_preserved_refuted.

(* known finding C18-a: `import pkg.sub; pkg.k` with pkg.sub -> zz.qq: the renamed import stops binding pkg *)
Theorem C18_root_unbound_refuted :
  exists old new p, in_domain old new [] [] p = false /\
    pysem [] [] p = [(2, 10%N, Bound (BImp 1 ([10%N; 20%N], [10%N; 20%N])))] /\
    pysem [] [] (rename_program old new p) = [(2, 10%N, Unbound)].
Proof. exact root_unbound_refuted. Qed.
Print Assumptions C18_root_unbound_refuted.

Example C18_behaviour_preserved_nonvacuous :
  in_domain [10%N; 20%N] [40%N; 50%N] [] [] example_program = true /\
  pysem [] [] (rename_program [10%N; 20%N] [40%N; 50%N] example_program) =
    [(3, 40%N, Bound (BImp 1 ([40%N; 50%N], [40%N; 50%N]))); (3, 31%N, Bound (BImp 2 ([40%N; 50%N; 30%N], [31%N])))].
Proof. exact behaviour_preserved_nonvacuous. Qed.

(* non-vacuity: concrete instances exercising the rewriting branches *)
Example C18_nonvacuous_replace :
  replace (dec "aa.bb"%string) (dec "xx.yy"%string) (mkImport (dec "aa.bb.cc"%string) (dec "cc"%string)) = mkImport (dec "xx.yy.cc"%string) (dec "cc"%string)
  /\ replace (dec "aa.bb"%string) (dec "xx.yy"%string) (mkImport (dec "aa.bbb"%string) (dec "bbb"%string)) = mkImport (dec "aa.bbb"%string) (dec "bbb"%string)
  /\ replace (dec "aa"%string) (dec "xx"%string) (mkImport (dec "aa.bb"%string) (dec "aa.bb"%string)) = mkImport (dec "xx.bb"%string) (dec "xx.bb"%string).
Proof. vm_compute. repeat split. Qed.
Example C18_nonvacuous_wordsub :
  wordsub is_ident_char (dec "foo"%string) (dec "bar"%string) (dec "foo+foox (foo) xfoo .foo"%string) = dec "bar+foox (bar) xfoo .bar".
Proof. vm_compute. reflexivity. Qed.
Example C18_nonvacuous_wordsub_dotted :
  wordsub is_ident_char (dec "pkg.sub"%string) (dec "zz.qq"%string)
          (dec "x.pkg.sub + pkg.sub.y(pkg.subx, xpkg.sub) ; pkg_sub pkg.sub"%string)
  = dec "x.zz.qq + zz.qq.y(pkg.subx, xpkg.sub) ; pkg_sub zz.qq"%string
  /\ edge_word is_ident_char (dec "pkg.sub"%string).
Proof. split; [vm_compute; reflexivity|]. repeat split; vm_compute; congruence. Qed.

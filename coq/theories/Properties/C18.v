(* C18 - import renaming is prefix-exact and keeps local names bound.
   Only statements, `exact`, and Print Assumptions here; proofs are in Rename/*Proofs.v. *)
From Coq Require Import NArith List Bool String.
From Verif Require Import Base.Chars Base.StrX Rename.Replace Rename.WordSub
                          Rename.ReplaceProofs Rename.WordSubProofs.
Import ListNotations.

(* exactly the imports whose dotted path is OLD or begins with OLD followed by a dot are rewritten,
   and they are rewritten to NEW + the same remainder *)
Theorem C18_replace_exact : forall old new i,
  (~ (fullname i = old \/ exists r, fullname i = old ++ c_dot :: r) -> replace old new i = i) /\
  (fullname i = old -> fullname (replace old new i) = new) /\
  (forall r, fullname i = old ++ c_dot :: r -> fullname (replace old new i) = new ++ c_dot :: r).
Proof. exact replace_exact. Qed.
Print Assumptions C18_replace_exact.

(* never a path that merely shares leading characters *)
Theorem C18_shares_leading_chars_untouched : forall old new i c r,
  fullname i = old ++ c :: r -> (c =? c_dot)%N = false -> replace old new i = i.
Proof. exact shares_leading_chars_untouched. Qed.
Print Assumptions C18_shares_leading_chars_untouched.

(* the local name is kept, unless it itself is OLD / begins with OLD-dot: then it is renamed alike *)
Theorem C18_local_name_kept : forall old new i,
  (fullname i = old \/ exists r, fullname i = old ++ c_dot :: r) ->
  (~ (import_as i = old \/ exists r, import_as i = old ++ c_dot :: r) ->
      import_as (replace old new i) = import_as i) /\
  (import_as i = old -> import_as (replace old new i) = new) /\
  (forall r, import_as i = old ++ c_dot :: r -> import_as (replace old new i) = new ++ c_dot :: r).
Proof. exact local_name_kept. Qed.
Print Assumptions C18_local_name_kept.

(* body substitution for a one-identifier OLD: the text splits uniquely into maximal words and
   separator characters; exactly the words equal to OLD are renamed, everything else is copied *)
Theorem C18_wordsub_exact : forall (W : ch -> bool) (old new : str),
  Forall (fun c => W c = true) old -> old <> [] ->
  forall text, exists ts : list (tok),
    flat ts = text /\ wf_toks W false ts /\
    wordsub W old new text = List.concat (map (rename_tok old new) ts).
Proof. exact wordsub_tokens. Qed.
Print Assumptions C18_wordsub_exact.

(* where NEW paths denote the same objects as OLD paths, a rewritten import yields the same object *)
Theorem C18_replace_preserves_object : forall (obj : Type) (resolve : list str -> option obj) (old new : str),
  (forall rest, resolve (parts new ++ rest) = resolve (parts old ++ rest)) ->
  forall i, resolve (parts (fullname (replace old new i))) = resolve (parts (fullname i)).
Proof. exact replace_preserves_object. Qed.
Print Assumptions C18_replace_preserves_object.

(* non-vacuity: concrete instances exercising the rewriting branches *)
Example C18_nonvacuous_replace :
  replace (dec "aa.bb"%string) (dec "xx.yy"%string) (mkImport (dec "aa.bb.cc"%string) (dec "cc"%string)) = mkImport (dec "xx.yy.cc"%string) (dec "cc"%string)
  /\ replace (dec "aa.bb"%string) (dec "xx.yy"%string) (mkImport (dec "aa.bbb"%string) (dec "bbb"%string)) = mkImport (dec "aa.bbb"%string) (dec "bbb"%string)
  /\ replace (dec "aa"%string) (dec "xx"%string) (mkImport (dec "aa.bb"%string) (dec "aa.bb"%string)) = mkImport (dec "xx.bb"%string) (dec "xx.bb"%string).
Proof. vm_compute. repeat split. Qed.
Example C18_nonvacuous_wordsub :
  wordsub is_ident_char (dec "foo"%string) (dec "bar"%string) (dec "foo+foox (foo) xfoo .foo"%string) = dec "bar+foox (bar) xfoo .bar".
Proof. vm_compute. reflexivity. Qed.

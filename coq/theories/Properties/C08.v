(* C08 - in-place file replacement is all-or-nothing.
   Only statements, `exact`, and Print Assumptions here; proofs are in Sys/AtomicWriteProofs.v.
   `v` ranges over the unchanged code (Orig), the code with fixes/F11-*.diff (Fixed = /repo HEAD) and
   the code with fixes/F11b-*.diff on top (Fixed2: chown before chmod); every theorem quantified
   over v holds for all three. *)
From Coq Require Import NArith List Bool.
From Verif Require Import Sys.AtomicWrite Sys.AtomicWriteProofs.
Import ListNotations.

(* crash_atomic: for every prefix of the call sequence (process crash at any call boundary), any
   content size, chunking, modes, stale temporary file or not: the target holds the complete old or
   the complete new contents, is literally untouched until the final rename has been issued, and
   no path other than the target and "<target>.tmp.<pid>" is touched *)
Theorem C08_crash_atomic : forall v e pid chunks f k,
  let f' := fst (atomic_write v e pid f (firstn k (nofault (prog v chunks)))) in
  target_old_or_new chunks f f' /\
  (k < length (prog v chunks) -> f' Target = f Target) /\
  (forall q, q <> Tmp pid -> q <> Target -> f' q = f q).
Proof. exact crash_atomic. Qed.
Print Assumptions C08_crash_atomic.

(* fault_atomic: the same with an OSError injected at any single call j (and a crash after it) *)
Theorem C08_fault_atomic : forall v e pid chunks f j flt k,
  let f' := fst (atomic_write v e pid f (firstn k (inject j flt (prog v chunks)))) in
  target_old_or_new chunks f f' /\
  (k < length (prog v chunks) -> f' Target = f Target) /\
  (forall q, q <> Tmp pid -> q <> Target -> f' q = f q).
Proof. exact fault_atomic. Qed.
Print Assumptions C08_fault_atomic.

(* ... and with any pattern of faults on any number of calls *)
Theorem C08_fault_atomic_any_pattern : forall v e pid chunks f xs k,
  map fst xs = prog v chunks ->
  let f' := fst (atomic_write v e pid f (firstn k xs)) in
  target_old_or_new chunks f f' /\
  (k < length (prog v chunks) -> f' Target = f Target) /\
  (forall q, q <> Tmp pid -> q <> Target -> f' q = f q).
Proof. exact crash_fault_atomic. Qed.
Print Assumptions C08_fault_atomic_any_pattern.

(* all-or-nothing is reported: the call returns normally iff the target now holds the new text
   (and then the temporary name is gone); if it raises, the target is the untouched old file *)
Theorem C08_returns_iff_replaced : forall v e pid chunks f xs f' l',
  map fst xs = prog v chunks ->
  atomic_write v e pid f xs = (f', l') ->
  (raised l' = false /\ content_of f' Target = Some (concat chunks) /\ f' (Tmp pid) = None) \/
  (raised l' = true /\ f' Target = f Target).
Proof. exact returns_iff_replaced_gen. Qed.
Print Assumptions C08_returns_iff_replaced.

(* mode_preserved: fault-free, the replacement carries the original's mode bits: all twelve of them
   when chown precedes chmod (Fixed2: mode_bound = 010000), the permission bits and the sticky bit
   (m < 02000) when chmod precedes chown (Orig, Fixed), because a successful chown clears set-uid
   and set-gid (F11b, refuted below for those two variants) *)
Theorem C08_mode_preserved : forall v e pid chunks c0 m g f,
  (m < mode_bound v)%N -> f Target = Some (mkFile c0 m g) ->
  let r := atomic_write v e pid f (nofault (prog v chunks)) in
  raised (snd r) = false /\
  exists x, fst r Target = Some x /\ fcontent x = concat chunks /\ fmode x = m.
Proof. exact mode_preserved. Qed.
Print Assumptions C08_mode_preserved.

Theorem C08_mode_preserved_sugid_refuted : forall v, v <> Fixed2 ->
  let f := upd (fun _ => None) Target (Some (mkFile [111]%N 2541 0)) in
  let r := atomic_write v (mkEnv 420 0 (fun _ => true)) 7 f (nofault (prog v [[110]%N])) in
  raised (snd r) = false /\ option_map fmode (fst r Target) = Some 493%N.
Proof. intros [| |] H; try congruence; vm_compute; split; reflexivity. Qed.
Print Assumptions C08_mode_preserved_sugid_refuted.

(* mode_preserved_under_fault.  Full statement: for every fault pattern, if the target is replaced
   it carries the original's permission bits.  FALSE of the unchanged code (F11, refuted below):
   an OSError at stat or chmod is swallowed and the rename goes ahead with the temporary file's
   default mode.  TRUE of the repaired code, for every fault pattern that does not make stat
   report a spurious ENOENT for an existing original. *)
Theorem C08_mode_preserved_under_fault : forall v e pid chunks c0 m g f xs,
  v <> Orig -> (m < mode_bound v)%N -> f Target = Some (mkFile c0 m g) ->
  map fst xs = prog v chunks -> Forall (fun x => snd x <> FaultENOENT) xs ->
  let r := atomic_write v e pid f xs in
  (raised (snd r) = false /\ exists x, fst r Target = Some x /\ fcontent x = concat chunks /\ fmode x = m) \/
  (raised (snd r) = true /\ fst r Target = f Target).
Proof. exact mode_preserved_under_fault. Qed.
Print Assumptions C08_mode_preserved_under_fault.

(* F11 on the unchanged code: original 0600, umask default 0644, OSError at chmod (call 4 of
   open, write, close, stat, chmod, chown, rename) - the call returns normally and the target is
   replaced with mode 0644 *)
Definition f11_env : env := mkEnv 420 0 (fun _ => true).
Definition f11_fs : fs := upd (fun _ => None) Target (Some (mkFile [111; 108; 100]%N 384 0)).
Theorem C08_mode_preserved_under_fault_orig_refuted :
  exists j flt, flt <> FaultENOENT /\
    let r := atomic_write Orig f11_env 7 f11_fs (inject j flt (prog Orig [[110; 101; 119]%N])) in
    raised (snd r) = false /\
    option_map fcontent (fst r Target) = Some [110; 101; 119]%N /\
    option_map fmode (fst r Target) = Some 420%N /\
    option_map fmode (f11_fs Target) = Some 384%N.
Proof. exists 4, FaultOther. split; [discriminate|]. vm_compute. repeat split. Qed.
Print Assumptions C08_mode_preserved_under_fault_orig_refuted.

(* two_writers: distinct pids, any interleaving of the two call sequences, any fault pattern in
   either: every intermediate state has the target in {old, d1, d2}; if at least one writer
   returned normally the final target is d1 or d2 *)
Theorem C08_two_writers_faults : forall v e p1 p2 c1 c2 f xs1 xs2 l,
  p1 <> p2 -> map fst xs1 = prog v c1 -> map fst xs2 = prog v c2 ->
  interleave (tag L xs1) (tag R xs2) l ->
  (forall k, target_in c1 c2 (content_of f Target) (sfs (srun v e p1 p2 (sys0 f) (firstn k l)))) /\
  (raised (loc1 (srun v e p1 p2 (sys0 f) l)) = false \/ raised (loc2 (srun v e p1 p2 (sys0 f) l)) = false ->
     target_new c1 c2 (sfs (srun v e p1 p2 (sys0 f) l))).
Proof. exact two_writers_faults. Qed.
Print Assumptions C08_two_writers_faults.

(* fault-free: both return normally and the final contents are one writer's complete output *)
Theorem C08_two_writers : forall v e p1 p2 c1 c2 f l,
  p1 <> p2 ->
  interleave (tag L (nofault (prog v c1))) (tag R (nofault (prog v c2))) l ->
  (forall k, target_in c1 c2 (content_of f Target) (sfs (srun v e p1 p2 (sys0 f) (firstn k l)))) /\
  target_new c1 c2 (sfs (srun v e p1 p2 (sys0 f) l)) /\
  raised (loc1 (srun v e p1 p2 (sys0 f) l)) = false /\ raised (loc2 (srun v e p1 p2 (sys0 f) l)) = false.
Proof. exact two_writers. Qed.
Print Assumptions C08_two_writers.

(* the schedules the harness steps real processes through are interleavings in the above sense *)
Theorem C08_schedules_are_interleavings : forall (sch : list bool) (a b : list (instr * fault)),
  interleave (tag L a) (tag R b) (merge sch a b).
Proof. exact (@merge_interleave (instr * fault)). Qed.
Print Assumptions C08_schedules_are_interleavings.

(* non-vacuity *)
Definition ex_env : env := mkEnv 420 0 (fun _ => true).
Definition ex_fs : fs := upd (fun _ => None) Target (Some (mkFile [1; 2; 3]%N 493 5)).
Example C08_nonvacuous_single :
  let r := atomic_write Fixed ex_env 9 ex_fs (nofault (prog Fixed [[7; 8]%N; [9]%N])) in
  fst r Target = Some (mkFile [7; 8; 9]%N 493 5) /\ fst r (Tmp 9) = None /\ raised (snd r) = false
  /\ content_of (fst (atomic_write Fixed ex_env 9 ex_fs (firstn 7 (nofault (prog Fixed [[7; 8]%N; [9]%N]))))) (Tmp 9) = Some [7; 8; 9]%N
  /\ fst (atomic_write Fixed ex_env 9 ex_fs (firstn 7 (nofault (prog Fixed [[7; 8]%N; [9]%N])))) Target = ex_fs Target.
Proof. vm_compute. repeat split. Qed.
Example C08_nonvacuous_fault_fixed :   (* the repaired code refuses instead of losing the mode *)
  let r := atomic_write Fixed f11_env 7 f11_fs (inject 4 FaultOther (prog Fixed [[110; 101; 119]%N])) in
  raised (snd r) = true /\ fst r Target = f11_fs Target.
Proof. vm_compute. repeat split. Qed.
Example C08_nonvacuous_two :
  let l := merge [true; false; true; false; false; false; false; false; false; true] (nofault (prog Fixed [[1]%N])) (nofault (prog Fixed [[2]%N; [3]%N])) in
  content_of (sfs (srun Fixed ex_env 1 2 (sys0 ex_fs) l)) Target = Some [2; 3]%N /\
  content_of (sfs (srun Fixed ex_env 1 2 (sys0 ex_fs) (firstn 14 l))) Target = Some [1]%N /\
  content_of (sfs (srun Fixed ex_env 1 2 (sys0 ex_fs) (firstn 13 l))) Target = Some [1; 2; 3]%N.
Proof. vm_compute. repeat split. Qed.
Example C08_nonvacuous_setuid_kept :   (* chown before chmod: 04755 stays 04755, also when the chown fails *)
  let f := upd (fun _ => None) Target (Some (mkFile [111]%N 2541 5)) in
  option_map fmode (fst (atomic_write Fixed2 (mkEnv 420 0 (fun _ => true)) 7 f (nofault (prog Fixed2 [[110]%N]))) Target) = Some 2541%N /\
  option_map fmode (fst (atomic_write Fixed2 (mkEnv 420 0 (fun _ => false)) 7 f (nofault (prog Fixed2 [[110]%N]))) Target) = Some 2541%N /\
  prog Fixed2 [] = [IOpen; IClose; IStat; IChown; IChmod; IRename] /\ prog Fixed [] = [IOpen; IClose; IStat; IChmod; IChown; IRename].
Proof. vm_compute. repeat split. Qed.
(* the hypothesis p1 <> p2 is needed: with one pid the two writers share the temporary file and
   the target ends up holding neither text *)
Example C08_same_pid_mixes :
  let l := merge [true; false; true; false] (nofault (prog Fixed [[1; 1; 1]%N])) (nofault (prog Fixed [[2]%N])) in
  content_of (sfs (srun Fixed ex_env 4 4 (sys0 ex_fs) l)) Target = Some [2; 1; 1]%N.
Proof. vm_compute. repeat split. Qed.

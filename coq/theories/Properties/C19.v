(* C19 - export lists and star-import replacements are exact and importable.
   Only statements, `exact`, and Print Assumptions here; proofs are in Exports/*Proofs.v.

   What is NOT proved here (no semantics of the import system / of arbitrary module code): that the
   export list agrees with what `from M import *` really binds.  That clause is decided by the
   correspondence check and the oracle of harness/c19.py only. *)
From Coq Require Import NArith List Bool String.
From Verif Require Import Base.Chars Base.StrX Exports.Scan Exports.StarReplace
                          Exports.ScanProofs Exports.StarReplaceProofs.
Import ListNotations.

(* with a literal __all__ - the last statement assigning __all__, plain (`__all__ = v`, also among several
   targets) or annotated (`__all__: T = v`, C19-a repair), has a literal value l0 and every later
   `__all__ += v` is a literal, together ls: exports = exactly the entries not starting with `_` (and
   without a dot), wherever they come from and whatever precedes the assignment *)
Theorem C19_all_literal : forall name is_init ex pre n l0 post ls entries,
  all_assign_of member_from_node n = Some (LitOK l0) ->
  no_all_assign member_from_node post ->
  aug_literals post = Some ls ->
  all_str (l0 ++ ls) = Some entries ->
  exists l, exports name is_init ex (pre ++ n :: post) = Some l /\
            forall x, In x l <-> (In x entries /\ is_private x = false /\ has_dot x = false).
Proof. exact all_literal. Qed.
Print Assumptions C19_all_literal.

(* the two statement forms that assign __all__ *)
Theorem C19_all_assign_forms : forall ts t v,
  (In all_name (flat_map target_names ts) -> all_assign_of member_from_node (NAssign ts v) = Some v) /\
  (In all_name (target_names t) -> all_assign_of member_from_node (NAnnAssign t (Some v)) = Some v).
Proof. exact all_assign_forms. Qed.
Print Assumptions C19_all_assign_forms.

(* a non-string entry: the scan raises (and the star import is then kept, C19_star_kept_on_failure) *)
Theorem C19_all_literal_nonstring : forall name is_init ex pre n l0 post ls,
  all_assign_of member_from_node n = Some (LitOK l0) ->
  no_all_assign member_from_node post ->
  aug_literals post = Some ls ->
  In None (l0 ++ ls) ->
  exports name is_init ex (pre ++ n :: post) = None.
Proof. exact all_literal_nonstring. Qed.
Print Assumptions C19_all_literal_nonstring.

(* the full statement "every name the real star import binds (every entry of a literal __all__)
   is exported" is false of the code - F19, known finding:
     forall ns e, In (Some e) (entries of __all__) -> In e exports                        *)
Theorem C19_all_entries_exported_refuted :
  exists ns e l, fst (all_scan member_from_node ns) = true /\
                 In (Some e) (snd (all_scan member_from_node ns)) /\ In e (bound_after ns) /\
                 exports s_m false (fun _ => false) ns = Some l /\ ~ In e l.
Proof. exact all_entries_exported_refuted. Qed.
Print Assumptions C19_all_entries_exported_refuted.

(* otherwise (no __all__, a non-literal one, or a non-literal `+=`): exports = exactly the public
   names bound by top-level assignments / annotated assignments with a value / def / async def /
   class, plus the names from-imported from the module's own package subtree that are not modules *)
Theorem C19_no_all : forall name is_init ex ns,
  fst (all_scan member_from_node ns) = false ->
  exists l, exports name is_init ex ns = Some l /\
            forall x, In x l <-> (is_private x = false /\ has_dot x = false /\
                                  (In x (members ns) \/ reexported name is_init ex ns x)).
Proof. exact no_all. Qed.
Print Assumptions C19_no_all.

(* the three ways of being in the "otherwise" case *)
Theorem C19_not_good_cases : forall ns,
  (~ In all_name (members ns) -> fst (all_scan member_from_node ns) = false) /\
  (forall pre n post, ns = pre ++ n :: post ->
     all_assign_of member_from_node n = Some LitFail -> no_all_assign member_from_node post ->
     fst (all_scan member_from_node ns) = false) /\
  (forall pre n l0 post, ns = pre ++ n :: post ->
     all_assign_of member_from_node n = Some (LitOK l0) -> no_all_assign member_from_node post ->
     aug_literals post = None ->
     fst (all_scan member_from_node ns) = false).
Proof. exact not_good_cases. Qed.
Print Assumptions C19_not_good_cases.

(* never a private name, in any case *)
Theorem C19_never_private : forall name is_init ex ns l x,
  exports name is_init ex ns = Some l -> In x l -> is_private x = false.
Proof. exact never_private. Qed.
Print Assumptions C19_never_private.

(* never a name merely imported from elsewhere: an export that no top-level binding statement of the
   module defines comes from `from F import ...` with F = the module itself or F below it
   (F = name or name.<...>; a relative import counts only in a package __init__), and F.x is not a module *)
Theorem C19_never_foreign : forall name is_init ex ns l x,
  fst (all_scan member_from_node ns) = false ->
  exports name is_init ex ns = Some l -> In x l -> ~ In x (members ns) ->
  exists level md names na fm,
    In (NImportFrom level md names) ns /\ In na names /\ local_name na = x /\ fst na <> c_star_name /\
    from_mod_of name is_init level md = Some fm /\
    (fm = name \/ exists r, fm = name ++ c_dot :: r) /\
    ex (dot_add fm x) = false.
Proof. exact never_foreign. Qed.
Print Assumptions C19_never_foreign.

(* importable: every export is bound in the module namespace after all top-level statements have
   run (mini-semantics bound_after), provided no later `del` removes it *)
Theorem C19_importable : forall name is_init ex ns l x,
  fst (all_scan member_from_node ns) = false ->
  exports name is_init ex ns = Some l -> In x l -> never_deleted x ns ->
  In x (bound_after ns).
Proof. exact importable. Qed.
Print Assumptions C19_importable.

Theorem C19_importable_all : forall name is_init ex ns l,
  exports name is_init ex ns = Some l ->
  fst (all_scan member_from_node ns) = true ->
  (forall e, In (Some e) (snd (all_scan member_from_node ns)) -> In e (bound_after ns)) ->
  forall x, In x l -> In x (bound_after ns).
Proof. exact importable_all. Qed.
Print Assumptions C19_importable_all.

(* star replacement is conservative: a star import whose module cannot be inspected (exports
   raised), exports nothing, or is relative, is kept; if that holds of every star import of the block
   the import list is verbatim the input and only last-wins shadowing applies *)
Theorem C19_star_kept_on_failure : forall ex imps m,
  In (Star m) imps -> star_fails ex m -> In (Star m) (replace_block ex imps).
Proof. exact star_kept_on_failure. Qed.
Print Assumptions C19_star_kept_on_failure.

Theorem C19_star_verbatim_when_all_fail : forall ex imps,
  (forall m, In (Star m) imps -> star_fails ex m) -> replace_stars ex imps = imps.
Proof. exact verbatim_when_all_fail. Qed.
Print Assumptions C19_star_verbatim_when_all_fail.

(* otherwise the star import is replaced by the export list, at its position: each exported name
   is bound by `from M import x` unless a later import of the block shadows it; the star is gone *)
Theorem C19_star_replaced : forall ex a m b l x,
  is_relative m = false -> ex m = Some l -> l <> [] -> In x l ->
  binding_of x (replace_block ex (a ++ Star m :: b)) =
    match binding_of x (replace_stars ex b) with
    | Some j => Some j
    | None => Some (export_import m x)
    end.
Proof. exact star_replaced. Qed.
Print Assumptions C19_star_replaced.

Theorem C19_star_gone : forall ex imps m l,
  is_relative m = false -> ex m = Some l -> l <> [] -> ~ In (Star m) (replace_block ex imps).
Proof. exact star_gone. Qed.
Print Assumptions C19_star_gone.

(* ImportSet(..., ignore_shadowed=True) is last-wins: the surviving import of a name is the one that
   binds it when the statements run in order; survivors have pairwise distinct keys *)
Theorem C19_shadow_last_wins : forall x l, binding_of x (shadow l) = binding_of x l.
Proof. exact shadow_last_wins. Qed.
Print Assumptions C19_shadow_last_wins.

Theorem C19_shadow_keys_distinct : forall l, keys_distinct (shadow l).
Proof. exact shadow_keys_distinct. Qed.
Print Assumptions C19_shadow_keys_distinct.

(* non-vacuity *)
Example C19_nonvacuous_all_literal :
  exports s_m false (fun _ => false)
    ([NFunctionDef s_c] ++ NAssign [TName all_name] (LitOK [Some s_a; Some s__x]) ::
     [NAugAssign (TName all_name) (LitOK [Some s_b])]) = Some [s_a; s_b]
  /\ aug_literals [NAugAssign (TName all_name) (LitOK [Some s_b])] = Some [Some s_b]
  /\ all_str ([Some s_a; Some s__x] ++ [Some s_b]) = Some [s_a; s__x; s_b].
Proof. vm_compute. repeat split. Qed.

Example C19_nonvacuous_annotated_all :
  exports s_m false (fun _ => false)
    [NAssign [TName s_a] LitFail; NAssign [TName s_b] LitFail;
     NAnnAssign (TName all_name) (Some (LitOK [Some s_a]))] = Some [s_a].
Proof. vm_compute. reflexivity. Qed.

Example C19_nonvacuous_no_all :
  let pk := [112; 107]%N in
  let ns := [NAssign [TName s_a] LitFail; NFunctionDef s__x;
             NImportFrom 1 (Some s_m) [(s_b, None); (s_c, Some s_y)];
             NImportFrom 0 (Some [111; 115]%N) [(s_af, None)]] in
  fst (all_scan member_from_node ns) = false /\
  exports pk true (fun d => str_eqb d (pk ++ c_dot :: s_m ++ c_dot :: s_b)) ns = Some [s_a; s_y] /\
  bound_after ns = [s_a; s__x; s_b; s_y; s_af].
Proof. vm_compute. repeat split. Qed.

Example C19_nonvacuous_star :
  let ex := fun m => if str_eqb m s_m then Some [s_a; s_b] else None in
  replace_block ex [Plain s_a s_a; Star s_m; Star s_y; Plain s_c s_b]
  = [Plain (s_m ++ [c_dot] ++ s_a) s_a; Star s_y; Plain s_c s_b].
Proof. vm_compute. reflexivity. Qed.

(* C14 - enabling and disabling the auto-importer is reversible and idempotent.
   Only statements, `exact`, and Print Assumptions here; proofs are in Interactive/EnableProofs.v.
   [E : env] = what the running IPython offers + which variant of the pyflyby code runs
   (f6_fixed / f14_fixed = fixes/F06, fixes/F14 applied); [clean s0] = a shell pyflyby has not touched. *)
From Coq Require Import NArith List Bool Lia.
From Verif Require Import Interactive.Enable Interactive.EnableProofs.
Import ListNotations.

(* after a Disable, at the end of ANY history of operations: every joinpoint and every hook list is back
   to its pre-enable value, nothing is left on the disabler stack (repaired code) *)
Theorem C14_disable_restores : forall (E : env) ops s0 ld esc at_,
  clean s0 -> f6_fixed E = true ->
  let s := ai (run E (ops ++ [Disable]) (mkShell s0 ld esc at_)) in
  st s = DISABLED /\ (forall j, slot s j = slot s0 j) /\
  ast_l s = ast_l s0 /\ cleanup_l s = cleanup_l s0 /\ line_l s = line_l s0 /\
  disablers s = [] /\ ast_tr s = None.
Proof. exact disable_restores. Qed.
Print Assumptions C14_disable_restores.

(* the same for every way of ending up DISABLED (unload, reload that failed, an enable that failed and
   withdrew); valid for both code variants: on the unrepaired code all but input_transformers_cleanup is
   restored and that list only grows at its end *)
Theorem C14_disable_restores_partial : forall (E : env) ops s0 ld esc at_,
  clean s0 ->
  let s := ai (run E ops (mkShell s0 ld esc at_)) in
  st s = DISABLED ->
  (forall j, slot s j = slot s0 j) /\ ast_l s = ast_l s0 /\ line_l s = line_l s0 /\
  (f6_fixed E = true -> cleanup_l s = cleanup_l s0) /\
  (exists extra, cleanup_l s = cleanup_l s0 ++ extra) /\
  disablers s = [] /\ ast_tr s = None.
Proof. exact disable_restores_any. Qed.
Print Assumptions C14_disable_restores_partial.

(* the full statement is false of the unrepaired code (F6): a terminal IPython >= 7, three
   load/unload cycles: input_transformers_cleanup has grown by three entries *)
Definition E_terminal (f6 f14 : bool) : env :=
  mkEnv RPost true AstTransformers true true ComplGlobal false PmMissing true true true true 40%N f6 f14 true.
Definition s_terminal : state := init_state (fun _ => VUnset) [] [0; 1; 2; 3]%N [] true 100%N.

Lemma s_terminal_clean : clean s_terminal.
Proof.
  unfold clean, s_terminal, init_state; cbn. repeat split.
  intros l x H. destruct l; cbn in H; try contradiction.
  repeat (destruct H as [H|H]; [subst; reflexivity|]). contradiction.
Qed.
Print Assumptions s_terminal_clean.

Theorem C14_disable_restores_refuted :
  exists (E : env) ops s0, clean s0 /\ f6_fixed E = false /\
    length (cleanup_l (ai (run E (ops ++ [Disable]) (init_shell s0)))) = length (cleanup_l s0) + 3.
Proof.
  exists (E_terminal false false), [LoadExt; UnloadExt; LoadExt; UnloadExt; LoadExt; UnloadExt], s_terminal.
  split; [exact s_terminal_clean|]. split; vm_compute; reflexivity.
Qed.
Print Assumptions C14_disable_restores_refuted.

(* in state ENABLED, after any history: exactly one unadvise for each advised joinpoint and none for the
   others (so no advice is ever stacked on advice), at most one remover per hook list *)
Theorem C14_enable_once : forall (E : env) ops s0 ld esc at_,
  clean s0 ->
  let s := ai (run E ops (mkShell s0 ld esc at_)) in
  st s = ENABLED ->
  (forall j, count_unadvise j (disablers s) = if is_advice (slot s j) then 1 else 0) /\
  (forall j, count_unadvise j (disablers s) <= 1) /\
  (forall l, count_remove l (disablers s) <= 1).
Proof. exact enable_once. Qed.
Print Assumptions C14_enable_once.

(* no accumulating residue: the snapshot of everything the property names (state, disabler stack, all
   fourteen joinpoints, the three hook lists, _ast_transformer) after ops ++ [Disable] is the initial one *)
Theorem C14_no_residue : forall (E : env) ops s0 ld esc at_,
  clean s0 -> f6_fixed E = true ->
  snapshot (ai (run E (ops ++ [Disable]) (mkShell s0 ld esc at_))) = snapshot s0.
Proof. exact no_residue. Qed.
Print Assumptions C14_no_residue.

(* between operations the importer is DISABLED or ENABLED; it is ENABLING only while it was enabled before the
   shell exists (ipython_config.py / `py` start-up order) and waits for app.init_shell(), which it has advised;
   ENABLED implies that a shell exists *)
Theorem C14_state_machine : forall (E : env) ops s0 ld esc at_,
  clean s0 -> let s := ai (run E ops (mkShell s0 ld esc at_)) in
  st s = DISABLED \/ (st s = ENABLED /\ has_shell s = true) \/
  (st s = ENABLING /\ has_shell s = false /\ is_advice (slot s JInitShell) = true).
Proof. exact state_machine. Qed.
Print Assumptions C14_state_machine.

(* the session-local import database (names registered with pyflyby.add_import) survives every operation:
   no enable / disable / load / unload / reload / initialize forgets a registered name *)
Theorem C14_registered_kept : forall (E : env) ops sh id,
  In id (registered (ai sh)) -> In id (registered (ai (run E ops sh))).
Proof. exact registered_kept. Qed.
Print Assumptions C14_registered_kept.

(* ENABLED -> every hook this IPython can take is installed (behavioural clause: while enabled, IPython
   reaches pyflyby's AST transformer / _ofind / completer advice; C06/C07 say what they then do) *)
Theorem C14_enabled_hooks_installed : forall (E : env) ops s0 ld esc at_,
  clean s0 -> let s := ai (run E ops (mkShell s0 ld esc at_)) in st s = ENABLED -> installed E s.
Proof. exact enabled_hooks_installed. Qed.
Print Assumptions C14_enabled_hooks_installed.

(* enabling succeeds from DISABLED unless this is the environment of F14 on the unrepaired code *)
Theorem C14_enable_succeeds : forall (E : env) force s,
  enable_ok E = true -> st s = DISABLED -> has_shell s = true -> (errored s = false \/ force = true) ->
  exists s', enable E force s = Ret s' tt /\ st s' = ENABLED /\ errored s' = false.
Proof. exact enable_succeeds. Qed.
Print Assumptions C14_enable_succeeds.

(* F14: under the jedi completer of IPython 9 (no `python_matches`) the unrepaired code never gets
   ENABLED - %load_ext leaves it DISABLED and errored; the repaired code enables *)
Theorem C14_enable_jedi_refuted :
  let E := mkEnv RPost true AstTransformers true true ComplGlobal true PmMissing true true true true 40%N true false true in
  let s := ai (run E [LoadExt] (init_shell s_terminal)) in
  st s = DISABLED /\ errored s = true.
Proof. vm_compute. split; reflexivity. Qed.
Print Assumptions C14_enable_jedi_refuted.

(* non-vacuity: the hypotheses are satisfiable and the interesting branches are taken *)
Example C14_nonvacuous_enabled :
  let s := ai (run (E_terminal true true) [Enable; Disable; LoadExt; EnableAgain] (init_shell s_terminal)) in
  st s = ENABLED /\ length (disablers s) = 9 /\ length (cleanup_l s) = 5 /\ length (ast_l s) = 1.
Proof. vm_compute. repeat split. Qed.
(* enabled before the shell exists: ENABLING with app.init_shell advised; app.initialize() completes it;
   a disable in between removes the init_shell advice, and the later initialize() installs nothing *)
Definition s_preshell : state := init_state (fun _ => VUnset) [] [0; 1; 2; 3]%N [] false 100%N.
Example C14_nonvacuous_preshell :
  let E := E_terminal true true in
  let a := ai (run E [Enable] (init_shell s_preshell)) in
  let b := ai (run E [Enable; Initialize] (init_shell s_preshell)) in
  let c := ai (run E [Enable; Disable; Initialize] (init_shell s_preshell)) in
  let d := ai (run E [Enable; Disable; Initialize; Enable; Disable] (init_shell s_preshell)) in
  (st a = ENABLING /\ is_advice (slot a JInitShell) = true /\ length (disablers a) = 2) /\
  (st b = ENABLED /\ length (disablers b) = 11 /\ length (ast_l b) = 1) /\
  (st c = DISABLED /\ slot c JInitShell = VUnset /\ disablers c = [] /\ has_shell c = true) /\
  snapshot d = snapshot s_preshell.
Proof. vm_compute. repeat split. Qed.
Example C14_nonvacuous_registered :
  let s := ai (run (E_terminal true true) [LoadExt; AddImport 6%N; UnloadExt; LoadExt; ReloadExt; Disable; Enable] (init_shell s_terminal)) in
  registered s = [6%N] /\ st s = ENABLED.
Proof. vm_compute. split; reflexivity. Qed.
Example C14_nonvacuous_jedi_repaired :
  let E := mkEnv RPost true AstTransformers true true ComplGlobal true PmMissing true true true true 40%N true true true in
  st (ai (run E [LoadExt] (init_shell s_terminal))) = ENABLED /\ enable_ok E = true.
Proof. vm_compute. split; reflexivity. Qed.

(* C03 - rewriter output always compiles and is a fixed point (the part decided on abstract blocks).
   Only statements, `exact`, and Print Assumptions here; proofs are in Tidy/FixProofs.v, Tidy/Witness.v. *)
From Coq Require Import String NArith List Bool Arith.
From Verif Require Import Base.Chars Base.StrX Tidy.Blocks Tidy.Fix Tidy.FixProofs Tidy.Witness.
Import ListNotations.

(* the shape of the file after insert_new_import_block: only non-import blocks in front of the new block *)
Theorem C03_insert_new_shape : forall c bs bs' nb,
  insert_new c bs = Ok (bs', nb) ->
  nb = new_ib (fresh_id bs) /\
  exists pro rest, bs' = (pro ++ Imps nb :: sep_block :: rest)%list /\ all_other pro /\ iblocks rest = iblocks bs.
Proof. exact insert_new_shape. Qed.
Print Assumptions C03_insert_new_shape.

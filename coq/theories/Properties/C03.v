(* C03 - rewriter output always compiles and is a fixed point: the part that is decided on abstract blocks
   (open mode, DESIGN 3.6).  Only statements, `exact`, and Print Assumptions here; proofs are in
   Tidy/ErrProofs.v, Tidy/FixProofs.v, Tidy/Witness.v.  `compile(output)` itself, the renderer (C11) and the
   statement splitter (C10) are tied by the correspondence and the oracle of harness/c03.py. *)
From Coq Require Import String NArith List Bool Arith.
From Verif Require Import Base.Chars Base.StrX Tidy.Blocks Tidy.Fix Tidy.FixProofs Tidy.ErrProofs Tidy.FutureProofs Tidy.Witness.
Import ListNotations.

(* no_internal_error.  Full statement (every configuration) is FALSE on the unchanged tree: F23
   (LineNumberAmbiguousError), F24 (ConflictingImportsError), F35 (TypeError from sorting (key, block) tuples),
   F37 (ImportAlreadyExistsError escapes the add-missing loop) - witnesses below.  With the four repairs: from a
   block list as the normalising first pass leaves it (non-empty; import blocks end with a newline and do not
   overlap; no import set binds a name twice; distinct block identities) and an analysis result that reports
   no star import as unused, the tool reaches its end and prints - every database, flag combination, renderer. *)
Theorem C03_no_internal_error : forall (R : list import -> str) (NC : str -> bool) c fl known mand bs ms us,
  f23 c = true -> f24 c = true -> f35 c = true -> f37 c = true ->
  inv bs -> ok_seq (iblocks bs) -> Forall (fun u => is_star (snd u) = false) us ->
  exists bs' log t, fix_blocks c fl known mand bs ms us = Ok (bs', log) /\ pp R NC c bs' = Ok t.
Proof. exact no_internal_error. Qed.
Print Assumptions C03_no_internal_error.

(* F23: with the repair find_import_block_by_lineno is never ambiguous on such a block list *)
Theorem C03_find_block_not_ambiguous : forall c bs l,
  f23 c = true -> ok_seq (iblocks bs) -> find_block c bs l <> Ambiguous.
Proof. exact find_block_not_ambiguous. Qed.
Print Assumptions C03_find_block_not_ambiguous.

Theorem C03_no_internal_error_refuted_F23 :
  ok_seq (iblocks w23_blocks) /\ inv w23_blocks /\
  find_block unchanged w23_blocks 2 = Ambiguous /\
  fix_blocks unchanged fl_all (fun _ => []) [] w23_blocks [] [(2, i_b)] = Err ELineAmbiguous.
Proof. exact F23_refuted. Qed.
Print Assumptions C03_no_internal_error_refuted_F23.

Theorem C03_no_internal_error_refuted_F24 :
  inv w24_blocks /\ exists bs' log,
    fix_blocks unchanged fl_all (fun _ => []) [i_np] w24_blocks [] [] = Ok (bs', log) /\
    forall R NC, pp R NC unchanged bs' = Err EConflict.
Proof. exact F24_refuted. Qed.
Print Assumptions C03_no_internal_error_refuted_F24.

Theorem C03_no_internal_error_refuted_F35 :
  inv wnv_blocks /\ ok_seq (iblocks wnv_blocks) /\
  fix_blocks unchanged fl_all (fun _ => []) [i_div; i_os] wnv_blocks [] [] = Err ESortTie.
Proof. exact F35_refuted. Qed.
Print Assumptions C03_no_internal_error_refuted_F35.

Theorem C03_no_internal_error_refuted_F37 :
  fix_blocks unchanged fl_all known_os [] w37_blocks [(4, dec "os.y"%string)] [] = Err EAlreadyExists.
Proof. exact F37_refuted. Qed.
Print Assumptions C03_no_internal_error_refuted_F37.

(* no_gluing.  An import block's print-out is empty or ends with a newline (given that the renderer's
   non-empty outputs do: C11's clause, evaluated on every captured rendering); with the F28 repair a block that
   shared its first line with other code never prints the empty string, so the line stays terminated; with the
   F38 repair a new block created behind a prologue-only first block starts a line. *)
Theorem C03_import_block_print_ends_nl : forall (R : list import -> str) c b t,
  (forall l, R l = [] \/ ends_nl (R l) = true) -> pp_iblock R c b = Ok t -> t = [] \/ ends_nl t = true.
Proof. exact import_block_print_ends_nl. Qed.
Print Assumptions C03_import_block_print_ends_nl.

Theorem C03_no_gluing_emptied_block : forall (R : list import -> str) c b t,
  f28 c = true -> (forall l, R l = [] \/ ends_nl (R l) = true) ->
  ib_col1 b = false -> ib_endnl b = true -> pp_iblock R c b = Ok t -> ends_nl t = true.
Proof. exact import_block_keeps_line_end. Qed.
Print Assumptions C03_no_gluing_emptied_block.

Theorem C03_no_gluing_refuted_F28 :
  pp_iblock (fun _ => []) unchanged (mkIB 1 1 false 2 true []) = Ok [] /\
  pp_iblock (fun _ => []) repaired (mkIB 1 1 false 2 true []) = Ok [c_nl].
Proof. exact F28_refuted. Qed.
Print Assumptions C03_no_gluing_refuted_F28.

Theorem C03_no_gluing_new_block_starts_a_line : forall (R : list import -> str) (NC : str -> bool) c ss rest bs' nb,
  f38 c = true -> first_nonprologue c ss false = None ->
  insert_new c (Other ss None :: rest) = Ok (bs', nb) ->
  exists pro t, bs' = (pro ++ Imps nb :: sep_block :: rest)%list /\ pp R NC c pro = Ok t /\ (t = [] \/ ends_nl t = true).
Proof. exact new_block_starts_a_line. Qed.
Print Assumptions C03_no_gluing_new_block_starts_a_line.

Theorem C03_no_gluing_refuted_F38 :
  exists nb, insert_new unchanged w38_blocks = Ok ((w38_blocks ++ [Imps nb; sep_block])%list, nb) /\
             forall R NC, pp R NC unchanged w38_blocks = Ok (dec "# c"%string) /\ ends_nl (dec "# c"%string) = false.
Proof. exact F38_refuted. Qed.
Print Assumptions C03_no_gluing_refuted_F38.

(* F45: an import block that continues a line really continued by a backslash (`x = 1; \` / `import foo`) never
   prints the empty string (which would leave the backslash dangling at the end of the logical line).  "Really
   continued" = the previous block's text ends with backslash-newline AND the tokenizer finds no comment ending on
   its last line (oracle NC; `prev` of pp_from is exactly ends_bsnl t && NC t); a backslash that ends a comment
   continues nothing and nothing is printed for it (third part of the witness theorem). *)
Theorem C03_no_gluing_after_backslash : forall (R : list import -> str) (NC : str -> bool) c b rest t,
  f45 c = true -> pp_from R NC c true (Imps b :: rest) = Ok t -> t <> [].
Proof. exact emptied_block_after_backslash. Qed.
Print Assumptions C03_no_gluing_after_backslash.

Theorem C03_no_gluing_refuted_F45 :
  pp (fun _ => []) (fun _ => true) unchanged w45_blocks = Ok (dec "x = 1; $5c;$a;"%string) /\
  pp (fun _ => []) (fun _ => true) repaired w45_blocks = Ok (dec "x = 1; $5c;$a;$a;"%string) /\
  pp (fun _ => []) (fun _ => false) repaired w45c_blocks = Ok (dec "    # c $5c;$a;"%string).
Proof. exact F45_refuted. Qed.
Print Assumptions C03_no_gluing_refuted_F45.

(* future_first.  A __future__ import joins only a block that already holds an import whose first component is
   __future__; otherwise a new block is created, in front of which there are only comment / blank / string
   statements - at most one string (the docstring) with the F9 repair.  (That the renderer prints the
   __future__ statements of a block first is C11's; that the whole output compiles is the oracle's.) *)
Theorem C03_future_joins_future_block : forall c bs imp L b,
  is_future imp = true -> select_block c bs imp L = Ok (Some b) ->
  exists o r, In o (ib_imps b) /\ i_full o = s_future :: r.
Proof. exact future_joins_future_block. Qed.
Print Assumptions C03_future_joins_future_block.

(* F46: with the repair the joined block holds a from-__future__ import (a compiler directive); on the tree before
   it a plain `import __future__` after code was enough (witness) *)
Theorem C03_future_joins_from_future_block : forall c bs imp L b,
  f46 c = true -> is_future imp = true -> select_block c bs imp L = Ok (Some b) ->
  exists o, In o (ib_imps b) /\ is_future o = true.
Proof. exact future_joins_from_future_block. Qed.
Print Assumptions C03_future_joins_from_future_block.

Theorem C03_future_first_refuted_F46 :
  is_future i_futmod = false /\
  select_block unchanged w46_blocks i_div None = Ok (Some (mkIB 1 2 true 3 true [i_futmod])) /\
  select_block repaired w46_blocks i_div None = Ok None.
Proof. exact F46_refuted. Qed.
Print Assumptions C03_future_first_refuted_F46.

Theorem C03_future_first_new_block : forall c bs bs' nb,
  insert_new c bs = Ok (bs', nb) ->
  exists pro rest, bs' = (pro ++ Imps nb :: sep_block :: rest)%list /\ iblocks pro = [] /\
    Forall noncode (stmts_of pro) /\ (f9 c = true -> n_strings (stmts_of pro) <= 1).
Proof. exact new_block_after_prologue. Qed.
Print Assumptions C03_future_first_new_block.

Theorem C03_future_first_refuted_F9 :
  exists pro rest nb, insert_new unchanged w9_blocks = Ok ((pro ++ Imps nb :: sep_block :: rest)%list, nb) /\
                      n_strings (stmts_of pro) = 2.
Proof. exact F9_refuted. Qed.
Print Assumptions C03_future_first_refuted_F9.

(* F40: a bytes literal is not a docstring; with the repair none is in front of a new import block *)
Theorem C03_future_first_not_after_bytes : forall c bs bs' nb,
  f40 c = true -> insert_new c bs = Ok (bs', nb) ->
  exists pro rest, bs' = (pro ++ Imps nb :: sep_block :: rest)%list /\ Forall nobytes (stmts_of pro).
Proof. exact new_block_not_after_bytes. Qed.
Print Assumptions C03_future_first_not_after_bytes.

Theorem C03_future_first_refuted_F40 :
  exists pro rest nb, insert_new unchanged w40_blocks = Ok ((pro ++ Imps nb :: sep_block :: rest)%list, nb) /\
                      exists s, In s (stmts_of pro) /\ is_bytes s = true.
Proof. exact F40_refuted. Qed.
Print Assumptions C03_future_first_refuted_F40.

(* future_first over the whole driver (F9, F40, F46 repaired), on abstract blocks: if only prologue statements
   (comments, blanks, at most one str literal, no bytes literal) stand in front of every import block that holds a
   from-__future__ import in the block list fix_unused_and_missing_imports edits, then the same holds of the block
   list it prints - for every analysis result, database, mandatory list, flag combination, and whichever of the other
   repairs are present.  `future_first bs` = `ffm nomark [] bs` (Tidy/FutureProofs.v).  Not part of this statement (see
   design.d/C03.md): that no import block WITHOUT from-__future__ imports stands in front of one with them, and that
   the renderer prints the __future__ statements of a block first (C11). *)
Theorem C03_future_first_tidy : forall c fl known mand bs ms us bs' log,
  f9 c = true -> f40 c = true -> f46 c = true ->
  ids_ok bs -> future_first bs ->
  fix_blocks c fl known mand bs ms us = Ok (bs', log) -> future_first bs'.
Proof. exact future_first_tidy. Qed.
Print Assumptions C03_future_first_tidy.

Example C03_future_first_tidy_nonvacuous :
  ids_ok wff_blocks /\ future_first wff_blocks /\ fut_block (mkIB 1 2 true 3 true [mkImp [s_future; [100%N]] [100%N]]).
Proof. exact future_first_nonvacuous. Qed.

(* the provable part of the tool-level fixed point.  Full statement  tidy (tidy x) = tidy x  is refuted on the
   real tool by C03:F34 (`class F:\n    d.x\n    (lambda b: {f for e in d})\nimport keyword as d` with
   `from m import d` in the database: the import added above the lambda changes how the next pass resolves its
   body read) and C03:F39 (a mandatory import shadowing a different import of another block) - the first a property
   of the scope analysis (C02), which is an oracle here.  (F16, the third witness of the design, is fixed in /repo.)
   Proved: the second-pass analysis and edit see exactly the text the first pass printed; and reformat is a fixed
   point whenever the statement splitter re-finds blocks that print alike in the printed text. *)
Theorem C03_tidy_analyses_first_pass_output :
  forall (R : list import -> str) (NC : str -> bool) (parse : str -> list block)
         (scan : str -> bool -> list (nat * str) * list (nat * import)) c fl known mand bs0 t1,
  pp R NC c bs0 = Ok t1 ->
  tidy R NC parse scan c fl known mand bs0 =
    match fix_blocks c fl known mand (parse t1) (fst (scan t1 (remove_unused fl))) (snd (scan t1 (remove_unused fl))) with
    | Err e => Err e
    | Ok (bs2, _) => pp R NC c bs2
    end.
Proof. exact tidy_analyses_first_pass_output. Qed.
Print Assumptions C03_tidy_analyses_first_pass_output.

Theorem C03_reformat_fixed_point_open : forall (R : list import -> str) (NC : str -> bool) (parse : str -> list block) c bs0 t,
  reformat R NC c bs0 = Ok t -> Forall2 (block_equiv R) (parse t) bs0 -> reformat R NC c (parse t) = Ok t.
Proof. exact reformat_fixed_point_open. Qed.
Print Assumptions C03_reformat_fixed_point_open.

Example C03_no_internal_error_nonvacuous :
  inv wnv_blocks /\ ok_seq (iblocks wnv_blocks) /\
  exists bs' log t, fix_blocks repaired fl_all known_np [i_div; i_os] wnv_blocks [(3, dec "np.alpha"%string)] [(1, i_qq)] = Ok (bs', log)
                    /\ pp (fun l => List.concat (map i_as l)) (fun _ => true) repaired bs' = Ok t.
Proof. exact no_internal_error_nonvacuous. Qed.
Example C03_repaired_witnesses :
  (exists bs', fix_blocks repaired fl_all (fun _ => []) [i_np] w24_blocks [] [] = Ok (bs', [(i_np, None, Refused)])) /\
  (exists bs', fix_blocks repaired fl_all known_os [] w37_blocks [(4, dec "os.y"%string)] [] = Ok (bs', [(i_os, Some 4, Exists)])).
Proof. split; [exact F24_repaired|exact F37_repaired]. Qed.

(* C06 - auto-import adds only needed names and never clobbers.
   Only statements, `exact`, and Print Assumptions here; proofs are in AutoImp/*Proofs.v.
   Model: AutoImp/World.v (import system, oracle), Needs.v, TryImport.v, AutoImport.v. *)
From Coq Require Import NArith List Bool.
From Verif Require Import AutoImp.World AutoImp.Needs AutoImp.TryImport AutoImp.AutoImport AutoImp.Spec
                          AutoImp.Wire AutoImp.WorldProofs AutoImp.AutoImportProofs AutoImp.TryImportProofs.
Import ListNotations.

(* frame: for every world, DB index, namespace stack and every SEQUENCE of calls (auto_import calls
   with any list of missing names or unparsable code, new cells, cache clears) sharing the attempt
   caches: a binding that exists is still there, with the identical object, afterwards *)
Theorem C06_frame_ns : forall w idx calls st st',
  run_calls w idx calls st = st' ->
  forall lvl k v, ns_get st lvl k = Some v -> ns_get st' lvl k = Some v.
Proof. exact frame_ns. Qed.
Print Assumptions C06_frame_ns.

Theorem C06_frame_levels : forall w idx calls st, length (nss (run_calls w idx calls st)) = length (nss st).
Proof. exact frame_levels. Qed.
Print Assumptions C06_frame_levels.

(* only_needed.  The design's wording "unbound in every given namespace" is FALSE of the code
   (C06_only_needed_strict_refuted below, finding F06a): a root that an outer namespace binds to the
   registered module is bound again, to that same object, in the target namespace.  What holds for
   every world / index / state: the new binding is at the last level, is the root of one of the
   missing names, every other binding of that key anywhere in the stack is the identical object
   (no shadowing by a different object), and the value is what executing the chosen import yields. *)
Theorem C06_only_needed_partial : forall w idx ms st st' ok,
  idx_ok idx ->
  auto_import w idx (Some ms) st = (st', ok) ->
  forall lvl k v, ns_get st lvl k = None -> ns_get st' lvl k = Some v ->
    lvl = last_level st /\
    exists m, In m ms /\ k = [root m] /\ agree st k v /\
              exists i, source_of idx m i /\ yields w i v.
Proof. exact only_needed. Qed.
Print Assumptions C06_only_needed_partial.

(* idx_ok is what by_fullname_or_import_as provides for any DB of well-formed imports *)
Theorem C06_index_ok : forall db forget de, Forall imp_wf db -> idx_ok (index db forget de).
Proof. exact index_ok. Qed.
Print Assumptions C06_index_ok.

Theorem C06_only_needed_strict_refuted :
  exists w idx ms st st' ok lvl k v,
    idx_ok idx /\ auto_import w idx (Some ms) st = (st', ok) /\
    ns_get st lvl k = None /\ ns_get st' lvl k = Some v /\
    exists lvl', ns_get st lvl' k <> None.
Proof. exact only_needed_strict_refuted. Qed.
Print Assumptions C06_only_needed_strict_refuted.

(* failure_atomic *)
Theorem C06_failure_atomic : forall w i st st',
  try_import w i st = (st', false) ->
  nss st' = nss st /\
  (In i (failed st') \/
   exists sB v pre, exec_import w i st = (sB, Some v) /\
                    assoc [root (snd i)] (last (nss st) []) = Some pre /\ pre <> v).
Proof. exact failure_atomic. Qed.
Print Assumptions C06_failure_atomic.

Theorem C06_failed_not_retried : forall w i st, In i (failed st) -> try_import w i st = (st, false).
Proof. exact failed_not_retried. Qed.
Print Assumptions C06_failed_not_retried.

Theorem C06_cell_not_retried : forall w idx m st b,
  assoc m (cell st) = Some b ->
  auto_import_symbol w idx m st = (st, if needs st m then RFalse else RTrue).
Proof. exact cell_not_retried. Qed.
Print Assumptions C06_cell_not_retried.

(* a symbol that fails leaves its mark in the cell map: the name itself, or a prefix marked false *)
Theorem C06_symbol_failure_recorded : forall w idx m st st',
  auto_import_symbol w idx m st = (st', RFalse) ->
  assoc m (cell st') <> None \/ exists pm, In pm (prefixes m) /\ assoc pm (cell st') = Some false.
Proof. exact symbol_failure_recorded. Qed.
Print Assumptions C06_symbol_failure_recorded.

(* over any history without clear_failed_imports_cache(): no import statement is executed again
   after it raised (the ghost log of executed statements has no duplicate among the failures) *)
Theorem C06_no_second_attempt : forall w idx calls st,
  elog st = [] -> forallb (fun o => negb (is_clear o)) calls = true ->
  NoDup (failed_tries (elog (run_calls w idx calls st))).
Proof. exact no_second_attempt. Qed.
Print Assumptions C06_no_second_attempt.

Theorem C06_unparsable_noop : forall w idx st, auto_import w idx None st = (st, RFalse).
Proof. exact unparsable_noop. Qed.
Print Assumptions C06_unparsable_noop.

(* non-vacuity: 1=pa 2=sa 3=xa 4=qa;  pa package {xa}, pa.sa module {xa}, qa raises;
   DB: from pa.sa import xa;  code reads xa, pa.sa.xa, qa *)
Definition ex_mods : list (dotted * (bool * list name * bool)) :=
  [([1], (true, [3], false)); ([1;2], (false, [3], false)); ([4], (false, [], true))]%N.
Definition ex_w := mk_world ex_mods.
Definition ex_idx := index [([1;2;3], [3])]%N [] false.
Definition ex_st := ST [[]; []] [] [] [] [] [] [].
Example C06_nonvacuous_binds :
  let (st', r) := auto_import ex_w ex_idx (Some [[1;2;3]; [4]; [3]])%N ex_st in
  r = RFalse /\ ns_get st' 1 [3%N] = Some (OVal [1;2]%N 3%N) /\ ns_get st' 1 [1%N] = Some (OMod [1%N])
  /\ ns_get st' 1 [4%N] = None /\ ns_get st' 0 [1%N] = None /\ In ([4], [4])%N (failed st').
Proof. vm_compute. repeat split; try reflexivity. left. reflexivity. Qed.
Example C06_nonvacuous_failure :
  exists st', try_import ex_w ([4], [4])%N ex_st = (st', false) /\ failed st' = [([4], [4])%N].
Proof. eexists. vm_compute. split; reflexivity. Qed.

From Coq Require Import NArith List Bool String.
From Verif Require Import Base.Chars Base.StrX Imports.Import Imports.ImportProofs.
Theorem C11_tmp : forall a, str_compare a a = Eq.
Proof. exact str_compare_refl. Qed.
Print Assumptions C11_tmp.

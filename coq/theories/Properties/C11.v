(* C11 - import formatting round-trips under every style configuration.
   Only statements, `exact`, and Print Assumptions here; proofs are in Imports/*Proofs.v.
   Domain: wf_set S = every import is one that Python's grammar can express with ASCII, non-keyword
   identifiers (wf_import: `import a.b`, `import a as b`, `from ..m import x [as y]`, `from ..m import *`)
   and the list is duplicate-free — which ImportSet construction guarantees (C11_from_imports_wf).
   print_set P S = Some out already says that S has no conflicting imports (None = ConflictingImportsError).
   The model prints the REPAIRED ImportStatement.pretty_print (fixes/F02-F25-*.diff). *)
From Coq Require Import NArith List Bool String.
From Verif Require Import Base.Chars Base.StrX Imports.Import Imports.ImportSet Imports.Format Imports.ImportLex
                          Imports.ImportProofs Imports.ImportLexProofs Imports.ImportSetProofs
                          Imports.FormatProofs Imports.RoundTripProofs Imports.WidthProofs Imports.FutureProofs Imports.CanonicalProofs Imports.Cli Imports.CliProofs.
Import ListNotations.

(* generic lexer lemma: rendering a token list with separators from {runs of >= 1 spaces, backslash-newline,
   newline (dropped inside parentheses)} lexes back to the token list *)
Theorem C11_lex_render : forall (l : list item) (ts : list tok),
  Forall item_wf l -> no_adjacent_names l = true -> toks 0 l = Some (0, ts) -> lex (render l) = Some ts.
Proof. exact lex_render. Qed.
Print Assumptions C11_lex_render.

(* print_lexes: the printed block lexes to the token lists of its statements, each with or without parentheses *)
Theorem C11_print_lexes : forall P S out, wf_set S -> print_set P S = Some out ->
  exists bl : list (bool * sstmt),
    map (fun ps => to_stmt (snd ps)) bl = get_statements (separate_from_imports P) S /\
    lex out = Some (block_toks bl).
Proof. exact print_lexes. Qed.
Print Assumptions C11_print_lexes.

(* print_lexes with the token list made explicit: the flag "printed with parentheses" of each statement is the
   computable pp_paren (a `from` statement other than a star import, exactly when pyfill's one-line test fails
   at the column chosen by choose_column); sss is the structured reading of get_statements *)
Theorem C11_print_lexes_explicit : forall P S out, wf_set S -> print_set P S = Some out ->
  exists (col : option nat) (sss : list sstmt),
    choose_column P (get_statements (separate_from_imports P) S) = inr col /\
    map to_stmt sss = get_statements (separate_from_imports P) S /\
    lex out = Some (block_toks (map (fun ss => (pp_paren P col (to_stmt ss), ss)) sss)).
Proof. exact print_lexes_explicit. Qed.
Print Assumptions C11_print_lexes_explicit.

(* round trip of one statement through pyfill, for every width / indent / hanging / column / from_spaces *)
Theorem C11_statement_roundtrip : forall P col fs ss, wf_sstmt ss -> fs <> 0 ->
  parse_stmts (print_statement P col fs (to_stmt ss)) = Some [to_stmt ss].
Proof. exact statement_roundtrip. Qed.
Print Assumptions C11_statement_roundtrip.

(* roundtrip: the printed set parses back to exactly the statements / imports that were printed *)
Theorem C11_roundtrip : forall P S out, wf_set S -> print_set P S = Some out ->
  parse_imports out = Some (canonical (separate_from_imports P) S).
Proof. exact roundtrip. Qed.
Print Assumptions C11_roundtrip.

Theorem C11_roundtrip_stmts : forall P S out, wf_set S -> print_set P S = Some out ->
  parse_stmts out = Some (get_statements (separate_from_imports P) S).
Proof. exact roundtrip_stmts. Qed.
Print Assumptions C11_roundtrip_stmts.

(* nothing lost, nothing added: the re-parsed imports are exactly the elements of S, and rebuilding the set
   from them gives S back (S strictly sorted, as every ImportSet is by construction) *)
Theorem C11_canonical_in : forall sep S x, wf_set S -> (In x (canonical sep S) <-> In x S).
Proof. exact canonical_in. Qed.
Print Assumptions C11_canonical_in.

(* nothing duplicated: the re-parsed imports are a permutation of the set *)
Theorem C11_canonical_NoDup : forall sep S, wf_set S -> NoDup (canonical sep S).
Proof. exact canonical_NoDup. Qed.
Print Assumptions C11_canonical_NoDup.

Theorem C11_canonical_Permutation : forall sep S, wf_set S -> Permutation.Permutation (canonical sep S) S.
Proof. exact canonical_Permutation. Qed.
Print Assumptions C11_canonical_Permutation.

(* reprint: formatting the re-parsed set reproduces the identical text (fixed point) *)
Theorem C11_reprint : forall P S out S', wf_set S -> sorted_set S -> print_set P S = Some out ->
  parse_imports out = Some S' -> print_set P (from_imports false S') = Some out.
Proof. exact reprint. Qed.
Print Assumptions C11_reprint.

(* both, for sets as the code builds them: ImportSet(l, ignore_shadowed=b) *)
Theorem C11_roundtrip_built : forall P b l out, Forall wf_import l -> print_set P (from_imports b l) = Some out ->
  exists S', parse_imports out = Some S' /\ (forall x, In x S' <-> In x (from_imports b l)) /\
             from_imports false S' = from_imports b l.
Proof. exact roundtrip_built. Qed.
Print Assumptions C11_roundtrip_built.

Theorem C11_reprint_built : forall P b l out S', Forall wf_import l -> print_set P (from_imports b l) = Some out ->
  parse_imports out = Some S' -> print_set P (from_imports false S') = Some out.
Proof. exact reprint_built. Qed.
Print Assumptions C11_reprint_built.

(* Import.split and Import.from_split are inverse on expressible imports *)
Theorem C11_from_split_split : forall i, wf_import i -> from_split (split i) = i.
Proof. exact from_split_split. Qed.
Print Assumptions C11_from_split_split.

(* ImportSet construction (with or without shadow filtering) of expressible imports is in the domain *)
Theorem C11_from_imports_wf : forall b l, Forall wf_import l -> wf_set (from_imports b l).
Proof. exact from_imports_wf. Qed.
Print Assumptions C11_from_imports_wf.

(* valid Python also means: the `from __future__ import ...` statement(s) come first in every printed block
   (ast.parse does not see a late __future__ import, the compiler rejects it).  For all sets and params. *)
Theorem C11_future_first_in_block : forall P S out, print_set P S = Some out ->
  exists col fut rest,
    get_statements (separate_from_imports P) S = fut ++ rest /\
    Forall is_future_stmt fut /\ Forall (fun st => ~ is_future_stmt st) rest /\
    out = List.concat (map (pp P col) fut) ++ List.concat (map (pp P col) rest).
Proof. exact future_first_in_block. Qed.
Print Assumptions C11_future_first_in_block.

(* width.  The literal clause of the property
     forall P S out l, print_set P S = Some out -> In l (lines_of out) -> length l > width_of P -> alias_tokens_on l = 1
   is FALSE of the code (F17, known finding): width_literal_refuted exhibits an over-long head line that carries
   no imported name.  width_partial is the exact disjunction: the text is exactly a list of physical lines
   (each tagged with the number of aliases it carries and with its statement), and a line longer than the width
   carries exactly one alias, or carries none and is a head line (ends with `(` or with a backslash), or belongs
   to a statement for which Python has no parenthesised form (plain `import ...`, `from m import *`). *)
Theorem C11_width_partial : forall P S out, print_set P S = Some out ->
  exists lines : list (pline * stmt),
    out = text_of (map fst lines) /\
    Forall (fun x => In (snd x) (get_statements (separate_from_imports P) S) /\
                     (width_of P < List.length (fst (fst x)) ->
                        snd (fst x) = 1 \/ (snd (fst x) = 0 /\ head_line_shape (fst (fst x))) \/ unwrappable (snd x))) lines.
Proof. exact width_partial. Qed.
Print Assumptions C11_width_partial.

Theorem C11_width_literal_refuted :
  exists P S out l, wf_set S /\ print_set P S = Some out /\ In l (split_on c_nl out) /\
    (width_of P < List.length l)%nat /\ l = dec "from aaaaaaaaaaaaaaaaaaaaaaaaaaaaaaa import ("%string.
Proof. exact width_literal_refuted. Qed.
Print Assumptions C11_width_literal_refuted.

(* ---- command line / pyproject folding of the pretty-printing options (Imports/Cli.v) ----
   an explicit --width / --hanging-indent / --align-future is final unless the same option follows it: whatever
   stands before it - shortcuts included - is irrelevant and a shortcut after it does not undo it *)
Theorem C11_cli_width_last_wins : forall v before n after, forallb (fun o => negb (sets_width o)) after = true ->
  v_width (fold_values v (before ++ OWidth n :: after)) = Some n.
Proof. exact width_last_wins. Qed.
Print Assumptions C11_cli_width_last_wins.

Theorem C11_cli_hanging_last_wins : forall v before h after, forallb (fun o => negb (sets_hanging o)) after = true ->
  v_hanging (fold_values v (before ++ OHanging h :: after)) = h.
Proof. exact hanging_last_wins. Qed.
Print Assumptions C11_cli_hanging_last_wins.

(* --align-imports survives everything before it; after it only --align-imports or a shortcut (which documents
   that it sets align_imports) replaces it *)
Theorem C11_cli_align_last_wins : forall v before c after, forallb (fun o => negb (sets_align o)) after = true ->
  v_align (fold_values v (before ++ OAlign c :: after)) = c.
Proof. exact align_last_wins. Qed.
Print Assumptions C11_cli_align_last_wins.

(* the shortcuts are exactly their documented expansion and leave width / hanging_indent / align_future alone *)
Theorem C11_cli_uniform_is_its_expansion : forall v,
  apply_option v OUniform = fold_values v [OSeparate false; OFromSpaces 3; OAlign [32]].
Proof. exact uniform_is_its_expansion. Qed.
Print Assumptions C11_cli_uniform_is_its_expansion.

Theorem C11_cli_unaligned_is_its_expansion : forall v,
  apply_option v OUnaligned = fold_values v [OSeparate true; OFromSpaces 1; OAlign [0]].
Proof. exact unaligned_is_its_expansion. Qed.
Print Assumptions C11_cli_unaligned_is_its_expansion.

Theorem C11_cli_shortcuts_keep_width_hanging_future : forall v opts, forallb is_shortcut opts = true ->
  v_width (fold_values v opts) = v_width v /\ v_hanging (fold_values v opts) = v_hanging v /\
  v_align_future (fold_values v opts) = v_align_future v.
Proof. exact shortcuts_keep_width_hanging_future. Qed.
Print Assumptions C11_cli_shortcuts_keep_width_hanging_future.

(* precedence command line > [tool.pyflyby] > defaults *)
Theorem C11_cli_cmdline_over_pyproject_width : forall py cmd n after before,
  cmd = before ++ OWidth n :: after -> forallb (fun o => negb (sets_width o)) after = true ->
  max_line_length (fold_format_options py cmd) = Some n.
Proof. exact cmdline_over_pyproject_width. Qed.
Print Assumptions C11_cli_cmdline_over_pyproject_width.

Theorem C11_cli_pyproject_when_cmdline_silent : forall py cmd,
  (forallb (fun o => negb (sets_width o)) cmd = true ->
     max_line_length (fold_format_options py cmd) = v_width (fold_values cli_defaults py)) /\
  (forallb (fun o => negb (sets_hanging o)) cmd = true ->
     hanging (fold_format_options py cmd) = v_hanging (fold_values cli_defaults py)).
Proof. exact pyproject_when_cmdline_silent. Qed.
Print Assumptions C11_cli_pyproject_when_cmdline_silent.

Example C11_cli_nonvacuous :
  fold_format_options [OWidth 60] [OWidth 40; OHanging Auto; OUniform] =
    mkParams (Some 40) 4 Auto (AlignCols [32]) 3 false false
  /\ fold_format_options [OWidth 60; OHanging Always] [OUnaligned] = mkParams (Some 60) 4 Always (AlignBool false) 1 true false.
Proof. split; reflexivity. Qed.

(* non-vacuity: a concrete set (from-imports with aliases, plain, aliased plain, relative star, __future__)
   satisfies the hypotheses and is printed with wrapped, parenthesised statements *)
Example C11_nonvacuous :
  wf_set (from_imports true ex_imports) /\
  print_set ex_params (from_imports true ex_imports) =
    Some (dec "from __future__ import ($a;    division)$a;import a.b.c$a;import numpy as np$a;from  ..pkg.mod import *$a;from  os        import ($a;    environ as env,$a;    path)$a;").
Proof. split; [exact ex_set_wf|vm_compute; reflexivity]. Qed.

(* C04 - tidy-imports leaves nothing fixable behind and never guesses.
   Only statements, `exact`, and Print Assumptions here; proofs are in Tidy/FixProofs.v, Tidy/Witness.v.
   Model: Tidy/Fix.v (open mode: block list, analysis result and database answers are arbitrary arguments). *)
From Coq Require Import String NArith List Bool Arith.
From Verif Require Import Base.Chars Base.StrX Tidy.Blocks Tidy.Fix Tidy.FixProofs Tidy.ErrProofs Tidy.Witness.
Import ListNotations.

(* Every import of the output blocks was in the input blocks, or is a mandatory import, or is the ONLY
   candidate the database holds for the first component of a missing name.  All configurations (repaired
   or not), all block lists, analysis results, databases, flag combinations. *)
Theorem C04_added_only_justified : forall c fl known mand bs ms us bs' log,
  fix_blocks c fl known mand bs ms us = Ok (bs', log) ->
  forall i, In i (all_imports bs') ->
    In i (all_imports bs) \/ In i mand \/ justified known ms i.
Proof. exact added_only_justified. Qed.
Print Assumptions C04_added_only_justified.

(* never_guess: a name with 0 or >= 2 candidates gets no import whose local name is that name
   (hypothesis: by_import_as answers carry the asked name - evaluated on every captured database answer) *)
Theorem C04_never_guess : forall c fl known mand bs ms us bs' log,
  (forall n i, In i (known n) -> i_as i = n) ->
  fix_blocks c fl known mand bs ms us = Ok (bs', log) ->
  forall n, length (known n) <> 1 ->
  forall i, In i (all_imports bs') -> i_as i = n -> In i (all_imports bs) \/ In i mand.
Proof. exact never_guess. Qed.
Print Assumptions C04_never_guess.

(* added_before_first_read.  Full statement (every configuration):
     forall c ..., fix_blocks c fl known mand bs ms us = Ok (bs', log) ->
       forall imp L o, In (imp, Some L, o) log -> log_ok known ms bs' (imp, Some L, o)
   is FALSE for the unchanged tree: F8 (the list is sorted by dotted name and the line of the alphabetically
   first use is taken) and F8b (a block that starts after the use on the same line is accepted).
   With fixes/F8-*.diff and fixes/F8b-*.diff (f8 = f8b = true) it holds: the import added for a missing name is
   THE candidate of that name, the line L it had to precede is <= the line of every read of the name, and it
   joined an import block whose text precedes line L (last line < L, or = L with nothing of that line in front
   of the block) or a block created at line 1, column 1 (see C04_new_block_after_prologue for where that is). *)
Theorem C04_added_before_first_read : forall c fl known mand bs ms us bs' log,
  f8 c = true -> f8b c = true ->
  fix_blocks c fl known mand bs ms us = Ok (bs', log) ->
  forall imp L o, In (imp, Some L, o) log -> log_ok known ms bs' (imp, Some L, o).
Proof. exact added_before_first_read. Qed.
Print Assumptions C04_added_before_first_read.

Theorem C04_added_before_first_read_refuted_F8 :
  exists bs' log imp L o,
    fix_blocks unchanged fl_all known_np [] w8_blocks w8_missing [] = Ok (bs', log) /\
    In (imp, Some L, o) log /\ ~ log_ok known_np w8_missing bs' (imp, Some L, o).
Proof. exact F8_refuted. Qed.
Print Assumptions C04_added_before_first_read_refuted_F8.

Theorem C04_added_before_first_read_refuted_F8b :
  exists bs' b,
    select_block unchanged w8b_blocks i_np (Some 1) = Ok (Some b) /\
    fix_blocks unchanged fl_all known_np [] w8b_blocks [(1, dec "np.x"%string)] [] = Ok (bs', [(i_np, Some 1, Added 1 false)]) /\
    ~ precedes b 1.
Proof. exact F8b_refuted. Qed.
Print Assumptions C04_added_before_first_read_refuted_F8b.

(* the block selection itself: whatever it returns precedes the line *)
Theorem C04_select_block_precedes : forall c bs imp l b,
  f8b c = true -> select_block c bs imp (Some l) = Ok (Some b) -> In b (iblocks bs) /\ precedes b l.
Proof. exact select_block_precedes. Qed.
Print Assumptions C04_select_block_precedes.

(* where a block created by add_import is: only non-import blocks are in front of it, their statements are
   comments / blanks / string literals, with the F9 repair at most one string literal (the docstring) *)
Theorem C04_new_block_after_prologue : forall c bs bs' nb,
  insert_new c bs = Ok (bs', nb) ->
  exists pro rest, bs' = (pro ++ Imps nb :: sep_block :: rest)%list /\ iblocks pro = [] /\
    Forall noncode (stmts_of pro) /\ (f9 c = true -> n_strings (stmts_of pro) <= 1).
Proof. exact new_block_after_prologue. Qed.
Print Assumptions C04_new_block_after_prologue.

(* no_unused_left.  Full statement "every top-level import in the output is read" needs completeness of the
   analysis (C02/C05) and is not provable in open mode.  Proved: every unused import the analysis reports is
   gone from every import block that covers its line, whenever the removal phase does not raise - for every
   configuration.  What stays behind: reports on lines no top-level import block covers ("not global"),
   __future__ and star imports (never reported), mandatory imports (added again afterwards), and everything in
   __init__.py / .pyflyby files (remove_unused = False there: the phase is skipped).
   That the phase does not raise is C03_no_internal_error. *)
Theorem C04_no_unused_left : forall c us bs bs',
  remove_all c bs us = Ok bs' ->
  forall l imp, In (l, imp) us ->
  forall b', In b' (iblocks bs') -> covers c l b' = true -> by_as (ib_imps b') (i_as imp) = [].
Proof. exact no_unused_left. Qed.
Print Assumptions C04_no_unused_left.

(* ... and removes nothing that was not there *)
Theorem C04_removal_only_removes : forall c us bs bs',
  remove_all c bs us = Ok bs' -> forall i, In i (all_imports bs') -> In i (all_imports bs).
Proof. exact remove_all_sub. Qed.
Print Assumptions C04_removal_only_removes.

Example C04_placement_nonvacuous :
  exists bs', fix_blocks repaired fl_all known_np [] wnv_blocks [(3, dec "np.alpha"%string)] [] = Ok (bs', [(i_np, Some 3, Added 1 false)])
              /\ all_imports bs' = [i_qq; i_np].
Proof. exact placement_nonvacuous. Qed.

Example C04_no_unused_left_nonvacuous :
  exists bs' log, fix_blocks repaired fl_all (fun _ => []) [] w23_blocks [] [(2, i_b)] = Ok (bs', log) /\ all_imports bs' = [i_a].
Proof. exact F23_repaired. Qed.

(* Facts about Python's call-binding rule (PyArgs/BindSpec.v): a call that passes every
   positional parameter positionally and every keyword-only parameter by name binds, and the
   binding gives each parameter the argument passed at its position or under its name. *)
From Coq Require Import NArith Arith List Bool Lia.
From Verif Require Import Base.Chars Base.StrX Base.StrXProofs PyArgs.Parse PyArgs.BindSpec PyArgs.DictProofs.
Import ListNotations.

Lemma distinct_keys_nodup {V} (d : dict V) : distinct_keys d = true <-> NoDup (keys d).
Proof.
  induction d as [|[k v] r IH]; simpl.
  - split; [constructor|reflexivity].
  - rewrite andb_true_iff, negb_true_iff, IH. split.
    + intros [H1 H2]. constructor; [|exact H2]. intros Hin. apply mem_str_In' in Hin. unfold keys in Hin. congruence.
    + intros H. inversion H; subst. split; [|assumption].
      destruct (mem_str k (map fst r)) eqn:E; [|reflexivity]. apply mem_str_In' in E. contradiction.
Qed.

Lemma bind_pos_full fd kw names : forall i pos,
  length names <= length pos ->
  exists n1, bind_pos fd i names pos kw = Some n1 /\ keys n1 = names /\
    forall j a v, nth_error names j = Some a -> nth_error pos j = Some v -> In (a, Given v) n1.
Proof.
  induction names as [|p names IH]; intros i pos Hl; simpl.
  - exists []. split; [reflexivity|split; [reflexivity|]]. intros j a v H. destruct j; discriminate.
  - destruct pos as [|v0 pos']; simpl in Hl; [lia|].
    destruct (IH (S i) pos') as [n1 [H1 [H2 H3]]]; [lia|]. simpl. rewrite H1.
    exists ((p, Given v0) :: n1). split; [reflexivity|split; [simpl; rewrite H2; reflexivity|]].
    intros j a v Ha Hv. destruct j as [|j]; simpl in *.
    + inversion Ha; inversion Hv; subst. left. reflexivity.
    + right. eapply H3; eassumption.
Qed.

Lemma bind_kwonly_full kd kw names :
  (forall k, In k names -> In k (keys kw)) ->
  exists n2, bind_kwonly kd names kw = Some n2 /\ keys n2 = names /\
    forall k, In k names -> exists v, dict_get k kw = Some v /\ In (k, Given v) n2.
Proof.
  induction names as [|p names IH]; intros Hk; simpl.
  - exists []. split; [reflexivity|split; [reflexivity|]]. intros k [].
  - destruct IH as [n2 [H1 [H2 H3]]]; [intros k Hin; apply Hk; right; exact Hin|].
    destruct (dict_get_key_some p kw (Hk p (or_introl eq_refl))) as [v Hv]. rewrite Hv, H1.
    exists ((p, Given v) :: n2). split; [reflexivity|split; [simpl; rewrite H2; reflexivity|]].
    intros k [<-|Hin].
    + exists v. split; [exact Hv|left; reflexivity].
    + destruct (H3 k Hin) as [v' [Hv' Hin']]. exists v'. split; [exact Hv'|right; exact Hin'].
Qed.

Lemma existsb_false_forall {A} (f : A -> bool) l : existsb f l = false <-> forall x, In x l -> f x = false.
Proof.
  induction l as [|a l IH]; simpl.
  - split; [intros _ x []|reflexivity].
  - rewrite orb_false_iff, IH. split.
    + intros [H1 H2] x [<-|Hx]; auto.
    + intros H. split; [apply H; left; reflexivity|intros x Hx; apply H; right; exact Hx].
Qed.

Lemma In_firstn {A} n (l : list A) x : In x (firstn n l) -> In x l.
Proof.
  revert l; induction n as [|n IH]; intros l H; simpl in H; [destruct H|].
  destruct l as [|a l]; [destruct H|]. destruct H as [H|H]; [left; exact H|right; apply IH; exact H].
Qed.

(* the call f( *pos, **kw ) of a caller that supplies everything explicitly *)
Theorem bind_full_call spec pos kw :
  NoDup (args spec ++ kwonly spec) ->
  length (args spec) <= length pos ->
  (length (args spec) < length pos -> varargs spec = true) ->
  NoDup (keys kw) ->
  (forall k, In k (keys kw) -> ~ In k (args spec)) ->
  (forall k, In k (kwonly spec) -> In k (keys kw)) ->
  (forall k, In k (keys kw) -> In k (args spec ++ kwonly spec) \/ varkw spec = true) ->
  exists b, bind spec pos kw = Some b /\
    (forall i a v, nth_error (args spec) i = Some a -> nth_error pos i = Some v -> bound_value b a = Some v) /\
    (forall n v, dict_get n kw = Some v -> bound_value b n = Some v) /\
    b_star b = skipn (length (args spec)) pos.
Proof.
  intros Hnd Hlen Hva Hkd Hka Hkk Hkv. unfold bind.
  assert (C1 : (length (args spec) <? length pos)%nat && negb (varargs spec) = false).
  { destruct (length (args spec) <? length pos)%nat eqn:E; [|reflexivity].
    apply Nat.ltb_lt in E. rewrite (Hva E). reflexivity. }
  rewrite C1.
  assert (C2 : distinct_keys kw = true) by (apply distinct_keys_nodup; exact Hkd).
  rewrite C2. simpl negb. cbv iota.
  assert (C3 : existsb (fun k => mem_str k (firstn (length pos) (args spec))) (map fst kw) = false).
  { apply existsb_false_forall. intros k Hk. destruct (mem_str k (firstn (length pos) (args spec))) eqn:E; [|reflexivity].
    apply mem_str_In' in E. apply In_firstn in E. exfalso. eapply Hka; eassumption. }
  rewrite C3.
  set (extra := filter (fun kv => negb (mem_str (fst kv) (args spec ++ kwonly spec))) kw).
  assert (C4 : (match extra with [] => false | _ => true end) && negb (varkw spec) = false).
  { destruct extra as [|[k v] r] eqn:Ee; [reflexivity|].
    assert (Hin : In (k, v) extra) by (rewrite Ee; left; reflexivity).
    unfold extra in Hin. apply filter_In in Hin as [Hin Hp]. simpl in Hp. apply negb_true_iff in Hp.
    destruct (Hkv k) as [H|H]; [apply (in_map fst) in Hin; exact Hin| |rewrite H; reflexivity].
    apply mem_str_In' in H. congruence. }
  rewrite C4.
  destruct (bind_pos_full (length (args spec) - ndefaults spec) kw (args spec) 0 pos Hlen) as [n1 [B1 [K1 P1]]].
  destruct (bind_kwonly_full (kwdefaults spec) kw (kwonly spec) Hkk) as [n2 [B2 [K2 P2]]].
  rewrite B1, B2. eexists. split; [reflexivity|].
  assert (Hnk : NoDup (keys (n1 ++ n2))) by (unfold keys; rewrite map_app; fold (keys n1); fold (keys n2); rewrite K1, K2; exact Hnd).
  split; [|split; [|reflexivity]].
  - intros i a v Ha Hv. unfold bound_value. simpl.
    rewrite (dict_get_nodup_in a (Given v) (n1 ++ n2) Hnk); [reflexivity|].
    apply in_or_app. left. eapply P1; eassumption.
  - intros n v Hn. unfold bound_value. simpl.
    assert (HnA : ~ In n (args spec)) by (apply Hka; eapply dict_get_some_key; exact Hn).
    destruct (in_dec str_eq_dec n (kwonly spec)) as [HK|HK].
    + destruct (P2 n HK) as [v' [Hv' Hin]]. rewrite Hn in Hv'. inversion Hv'; subst v'.
      rewrite (dict_get_nodup_in n (Given v) (n1 ++ n2) Hnk); [reflexivity|].
      apply in_or_app. right. exact Hin.
    + assert (Hnone : dict_get n (n1 ++ n2) = None).
      { apply dict_get_none_key. unfold keys. rewrite map_app. fold (keys n1). fold (keys n2). rewrite K1, K2.
        rewrite in_app_iff. intros [H|H]; contradiction. }
      rewrite Hnone. fold extra. unfold extra.
      rewrite (dict_get_filter_key (fun k => negb (mem_str k (args spec ++ kwonly spec)))); [exact Hn|].
      apply negb_true_iff. destruct (mem_str n (args spec ++ kwonly spec)) eqn:E; [|reflexivity].
      apply mem_str_In' in E. apply in_app_iff in E as [E|E]; contradiction.
Qed.

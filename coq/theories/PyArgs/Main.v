(* M13 (front end): pyflyby._py._PyMain as far as the delivery of arguments is concerned:
   _parse_global_opts (which arg_mode the command line selects), _run_action (which action the
   first remaining argument selects), eval / execfile / exec_stdin / apply / run_module /
   heuristic_cmd and the implied-eval "join" of the function name and the arguments into one
   program.  Model only; proofs are in MainProofs.v.

   What the front end obtains from outside its own logic is the record [env]:
     whether a first argument seems like a file name, whether a text parses and auto-imports,
     whether a name is a runnable module, what evaluating the function expression gives
     (callable with which signature / not callable / fails), whether stdin is a terminal.      *)
From Coq Require Import NArith Arith List Bool String.
From Verif Require Import Base.Chars Base.StrX PyArgs.Parse.
Import ListNotations.
Local Open Scope string_scope.
Local Open Scope list_scope.

(* ---------- small string functions ---------- *)

(* str.strip() / \s on the ASCII range *)
Definition is_space (c : ch) : bool :=
  (c =? 32)%N || ((9 <=? c)%N && (c <=? 13)%N) || ((28 <=? c)%N && (c <=? 31)%N).
Definition is_blank (s : str) : bool := forallb is_space s.
Fixpoint lstrip (s : str) : str :=
  match s with c :: r => if is_space c then lstrip r else s | [] => [] end.
Definition strip (s : str) : str := rev (lstrip (rev (lstrip s))).
Definition lower (s : str) : str := map (fun c => if is_upper c then (c + 32)%N else c) s.

Definition words (l : list string) : list str := map dec l.

(*  " ".join(l)  *)
Definition join_sp (l : list str) : str := join_with c_sp l.

(* ---------- _parse_global_opts ---------- *)

Inductive gres :=
| GOk (debug : bool) (md : option mode) (args : list str)
| GErr.                                   (* ValueError *)

(*  argname, equalsign, value  for the head argument; None: `break` (not an option)
      if arg in ["debug", "pdb", "ipdb", "dbg"]: argname = "debug"
      elif not arg.startswith("-"): break
      elif arg.startswith("--"): argname = arg[2:]   else: argname = arg[1:]
      argname, equalsign, value = argname.partition("=")                               *)
Definition global_name (a : str) : option (str * bool * str) :=
  if mem_str a (words ["debug"; "pdb"; "ipdb"; "dbg"]) then Some (dec "debug", false, [])
  else if negb (starts_with s_dash a) then None
  else Some (partition_eq (if starts_with s_dd a then skipn 2 a else skipn 1 a)).

(*  the `while args:` loop.  Options that do not concern arguments are consumed as the code
    consumes them (popvalue / novalue included); --interactive and --debug end the loop because
    their branch is followed by plain `if`s, none of which matches, and then `break`.          *)
Fixpoint global_opts (args : list str) (dbg : bool) (md : option mode) : gres :=
  match args with
  | [] => GOk dbg md []
  | a :: rest =>
      match global_name a with
      | None => GOk dbg md args
      | Some (n, eq, v) =>
          let novalue (k : gres) := if eq then GErr else k in
          if mem_str n (words ["interactive"; "i"]) then novalue (GOk dbg md rest)
          else if mem_str n (words ["debug"; "pdb"; "ipdb"; "dbg"; "d"]) then novalue (GOk true md rest)
          else if mem_str n (words ["verbose"; "quiet"; "q"]) then novalue (global_opts rest dbg md)
          else if mem_str n (words ["safe"]) then novalue (global_opts rest dbg (Some MString))
          else if mem_str n (words ["arguments"; "argument"; "args"; "arg"; "arg_mode"; "arg-mode"; "argmode"]) then
            (* self.arg_mode = _interpret_arg_mode(popvalue()) *)
            if eq then
              match interpret_arg_mode (Some (lower (strip v))) MAuto with
              | Some m => global_opts rest dbg (Some m)
              | None => GErr
              end
            else
              match rest with
              | [] => GErr
              | w :: rest' =>
                  match interpret_arg_mode (Some (lower (strip w))) MAuto with
                  | Some m => global_opts rest' dbg (Some m)
                  | None => GErr
                  end
              end
          else if mem_str n (words ["output"; "output_mode"; "output-mode"; "out"; "outmode"; "out_mode"; "out-mode"; "o"]) then
            (* self.output_mode = _interpret_output_mode(popvalue()): the value is consumed (its
               validity is not modelled) *)
            if eq then global_opts rest dbg md
            else match rest with [] => GErr | _ :: rest' => global_opts rest' dbg md end
          else if mem_str n (words ["print"; "pprint"; "silent"; "repr"]) then novalue (global_opts rest dbg md)
          else if mem_str n (words ["postmortem"]) then
            if mem_str (strip (lower v)) (words ["yes"; "y"; "always"; "true"; "t"; "1"; "enable"; "";
                                                  "no"; "n"; "never"; "false"; "f"; "0"; "disable";
                                                  "auto"; "automatic"; "default"; "if-tty"])
            then global_opts rest dbg md else GErr
          else if mem_str n (words ["no-postmortem"; "np"]) then novalue (global_opts rest dbg md)
          else if mem_str n (words ["add-deprecated-builtins"; "add_deprecated_builtins"]) then global_opts rest dbg md
          else GOk dbg md args
      end
  end.

(* ---------- the environment of _run_action ---------- *)

Inductive headres :=
| HCallable (k : callable_kind) (s : argspec)   (* the expression evaluates to a callable with this signature *)
| HNotCallable
| HFails.                                       (* evaluation raises / name not importable *)

Record env := mkEnv {
  e_isatty : bool;                     (* os.isatty(0) *)
  e_filename : str -> bool;            (* _as_filename_if_seems_like_filename(arg0) is not None *)
  e_join_ok : str -> bool;             (* PythonBlock(text).parsable and namespace.auto_import(text) *)
  e_parsable : str -> bool;            (* PythonBlock(arg0).parsable *)
  e_module : str -> bool;              (* _seems_like_runnable_module(arg0) *)
  e_head : str -> headres;             (* evaluating the function expression *)
  e_isdigit : str -> bool }.           (* arg0.isdigit() *)

Inductive pkind := PEval | PFile | PStdin.

Inductive outcome :=
| OCalls (l : list (str * list str * res (list val * dict val)))
     (* auto_apply(function, argv, mode) in turn: function text, the arguments handed over, what
        _parse_auto_apply_args delivers; the sequence ends at the first one that is not Ok *)
| OProgram (k : pkind) (what : str) (argv : res (list val))
     (* a program (text of --eval / a file / stdin) run with sys.argv[1:] = these values
        (for stdin: the whole sys.argv) *)
| OJoined (text : str)               (* implied eval of " ".join([arg0] + args); sys.argv = ["-c"] *)
| OModule (m : str) (args : list str)   (* python -m m args: always the strings *)
| ONotCallable                       (* the first argument is not callable: nothing is delivered *)
| OOther                             (* IPython, help, version, debugger...: no user function is called *)
| OError.                            (* ValueError, usage error, NotImplementedError, failing function expression *)

Section Action.
Variable idok : str -> bool.
Variable O : oracle.
Variable E : env.
Variable stdin : str.
Variable dbg : bool.                 (* --debug was given *)

Definition mode_or (md : option mode) (d : mode) : mode := match md with Some m => m | None => d end.

(*  auto_apply(function, cmd_args, namespace, arg_mode):
      arg_mode = _interpret_arg_mode(arg_mode, default="auto")
      argspec = _get_argspec(function.value)
      args, kwargs = _parse_auto_apply_args(argspec, commandline_args, namespace, arg_mode)      *)
Definition apply_one (md : option mode) (k : callable_kind) (s : argspec) (argv : list str)
  : res (list val * dict val) :=
  parse true idok (get_argspec k s) (mode_or md MAuto) O argv stdin.

(* calls made one after the other; a ParseError / help request / exit ends the command *)
Fixpoint run_calls (md : option mode) (fn : str) (k : callable_kind) (s : argspec) (avs : list (list str))
  : list (str * list str * res (list val * dict val)) :=
  match avs with
  | [] => []
  | av :: r =>
      let x := apply_one md k s av in
      match x with
      | Ok _ => (fn, av, x) :: run_calls md fn k s r
      | Err _ => [(fn, av, x)]
      end
  end.

(*  function = UserExpr(function_name, self.namespace, "eval"); self.apply(function, args)
    (auto_apply raises NotAFunctionError for a non-callable)                               *)
Definition apply_named (md : option mode) (fn : str) (avs : list (list str)) : outcome :=
  match avs with
  | [] => OCalls []                  (* --map without arguments: the function expression is never evaluated *)
  | _ =>
    match e_head E fn with
    | HCallable k s => OCalls (run_calls md fn k s avs)
    | HNotCallable => OError
    | HFails => OError
    end
  end.

(*  cmd_args = [UserExpr(a, self.namespace, arg_mode).value for a in cmd_args]
    with arg_mode = _interpret_arg_mode(self.arg_mode, default="string")                    *)
Definition program_args (md : option mode) (args : list str) : res (list val) :=
  values O (map (mk (mode_or md MString)) args).

(*  run_module: arg_mode = _interpret_arg_mode(self.arg_mode, default="string")
    if arg_mode != "string": raise NotImplementedError                                      *)
Definition run_module (md : option mode) (m : str) (args : list str) : outcome :=
  match mode_or md MString with
  | MString => OModule m args
  | _ => OError
  end.

(*  re.match(r"\s*$|-[a-zA-Z-]", a)  *)
Definition optionish (a : str) : bool :=
  is_blank a ||
  match a with
  | c :: d :: _ => (c =? c_dash)%N && (is_alpha d || (d =? c_dash)%N)
  | _ => false
  end.

(*  the `else:` branch of _run_action: heuristics on the first argument
      filename = _as_filename_if_seems_like_filename(arg0): implied --execfile
      if not args and arg0.isdigit(): ...
      if (args and self.arg_mode == None and not any(re.match(...) for a in args)):
          cmd = PythonBlock(" ".join([arg0]+args)); if cmd.parsable and self.namespace.auto_import(cmd): eval it
      cmd = PythonBlock(arg0); if not cmd.parsable: syntax()
      self.heuristic_cmd(cmd, args, function_name=arg0)                                    *)
Definition heuristic (md : option mode) (arg0 : str) (args : list str) : outcome :=
  if e_filename E arg0 then OProgram PFile arg0 (program_args md args)
  else if (match args with [] => true | _ => false end) && e_isdigit E arg0 then
    (if dbg then OOther else OError)   (* attach_debugger(int(arg0)) / "Use py -d ..." SystemExit(1) *)
  else
    let try_join :=
      match args, md with
      | _ :: _, None => negb (existsb optionish args) && e_join_ok E (join_sp (arg0 :: args))
      | _, _ => false
      end in
    if try_join then OJoined (join_sp (arg0 :: args))
    else if negb (e_parsable E arg0) then OError
    else if e_module E arg0 then
      (* heuristic_run_module *)
      match args with
      | [a] => if mem_str a (words ["--version"; "-version"; "--help"; "-help"; "--h"; "-h"; "--?"; "-?"; "?";
                                    "--source"; "-source"; "--??"; "-??"; "??"])
               then OOther else run_module md arg0 args
      | _ => run_module md arg0 args
      end
    else
      (* result = self.namespace.auto_eval(cmd); if callable(result): auto_apply(function, cmd_args,
         self.namespace, self.arg_mode) *)
      match e_head E arg0 with
      | HCallable k s => OCalls (run_calls md arg0 k s [args])
      | HNotCallable => ONotCallable
      | HFails => OError
      end.

(*  action, equalsign, cmdarg  from the first argument  *)
Definition action_of (arg0 : str) : option str * bool * str :=
  if starts_with s_dd arg0 then
    match partition_eq (skipn 2 arg0) with (a, eq, c) => (Some a, eq, c) end
  else if starts_with s_dash arg0 then
    match partition_eq (skipn 1 arg0) with (a, eq, c) => (Some a, eq, c) end
  else if starts_with [37%N] arg0 then (Some (skipn 1 arg0), false, [])
  else if Nat.ltb 1 (List.length arg0) || str_eqb arg0 [c_q] then (Some arg0, false, [])
  else (None, false, []).

Definition ends_with (suf s : str) : bool := starts_with (rev suf) (rev s).

(*  popcmdarg(): `--action=arg` gives arg, otherwise the next argument (ValueError if none);
    k receives the command argument and the remaining arguments                               *)
Definition pop (eq : bool) (cmdarg : str) (rest : list str) (k : str -> list str -> outcome) : outcome :=
  if eq then k cmdarg rest
  else match rest with [] => OError | c :: rest' => k c rest' end.

(*  --map:  if args and args[0] == '--': for arg in args[1:]: self.apply(function, ['--', arg])
            else: for arg in args: self.apply(function, [arg])                                *)
Definition map_action (md : option mode) (fn : str) (r : list str) : outcome :=
  match r with
  | d :: r' => if str_eqb d s_dd then apply_named md fn (map (fun a => [s_dd; a]) r')
               else apply_named md fn (map (fun a => [a]) r)
  | [] => apply_named md fn []
  end.

Definition isact (act : option str) (l : list string) : bool :=
  match act with Some a => mem_str a (words l) | None => false end.

(*  _run_action  *)
Definition run_action (md : option mode) (args : list str) : outcome :=
  match args with
  | [] => if e_isatty E then OOther else OProgram PStdin [] (program_args md [[]])
  | arg0 :: rest =>
    if str_eqb arg0 s_dash then
      if e_isatty E then OOther else OProgram PStdin [] (program_args md args)
    else if is_blank arg0 then OError
    else
      match action_of arg0 with
      | (act, eq, cmdarg) =>
        if isact act ["eval"; "c"; "e"] then
          pop eq cmdarg rest (fun cmd r => OProgram PEval cmd (program_args md r))
        else if isact act ["file"; "execfile"; "execf"; "runfile"; "run"; "f"; "python"] then
          pop eq cmdarg rest (fun cmd r => OProgram PFile cmd (program_args md r))
        else if isact act ["apply"; "call"] then pop eq cmdarg rest (fun fn r => apply_named md fn [r])
        else if isact act ["map"] then pop eq cmdarg rest (map_action md)
        else if isact act ["xargs"] then OError
        else if isact act ["module"; "m"; "runmodule"; "run_module"; "run-module"] then
          pop eq cmdarg rest (run_module md)
        else if starts_with [c_dash; 109%N] arg0 then run_module md (skipn 2 arg0) rest
        else if isact act ["attach"; "stack"; "stack_trace"; "stacktrace"; "backtrace"; "bt"; "ipython"; "ip";
                           "notebook"; "nb"; "kernel"; "qtconsole"; "qt"; "console"; "existing"; "nbconvert";
                           "timeit"; "time"; "version"; "help"; "h"; "?"; "pinfo"; "source"; "pinfo2"; "??"]
        then OOther
        else if starts_with s_dash arg0 then OError
        else if starts_with [c_q] arg0 || ends_with [c_q] arg0 then OOther
        else if starts_with [37%N] arg0 then OOther
        else heuristic md arg0 rest
      end
  end.

End Action.

(*  _PyMain(args).run(): _parse_global_opts, then _run_action  *)
Definition py_main (idok : str -> bool) (O : oracle) (E : env) (stdin : str) (main_args : list str) : outcome :=
  match global_opts main_args false None with
  | GErr => OError
  | GOk dbg md args => run_action idok O E stdin dbg md args
  end.

(* the arg_mode the command line selects *)
Definition selected_mode (main_args : list str) : option (option mode) :=
  match global_opts main_args false None with
  | GErr => None
  | GOk _ md _ => Some md
  end.

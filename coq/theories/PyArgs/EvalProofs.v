(* Evaluation: string mode never consults the oracle; the command terminates during argument
   parsing only when the oracle says the evaluation of an argument terminates it. *)
From Coq Require Import NArith Arith List Bool Lia.
From Verif Require Import Base.Chars Base.StrX Base.StrXProofs PyArgs.Parse PyArgs.DictProofs PyArgs.ParseProofs.
Import ListNotations.

Definition rawlike (e : uexpr) : Prop := match e with Raw _ | Dflt _ => True | _ => False end.

Lemma value_rawlike O1 O2 e : rawlike e -> value O1 e = value O2 e.
Proof. destruct e; simpl; intros H; try reflexivity; destruct H. Qed.

Lemma rbind_ext {A B} (r : res A) (f g : A -> res B) : (forall a, r = Ok a -> f a = g a) -> rbind r f = rbind r g.
Proof. destruct r; simpl; intros H; [apply H; reflexivity|reflexivity]. Qed.

Lemma Forall_map_snd_del {V} (P : V -> Prop) k (d : dict V) : Forall P (map snd d) -> Forall P (map snd (dict_del k d)).
Proof.
  intros H. apply Forall_forall. intros x Hx. apply in_map_iff in Hx as [[kk vv] [Hs Hin]]. simpl in Hs. subst.
  apply dict_del_In in Hin. eapply Forall_forall in H; [exact H|]. apply (in_map snd) in Hin. exact Hin.
Qed.

Section Ext.
Variable spec : argspec.
Variables O1 O2 : oracle.

Lemma fill_args_ext names : forall gp kw,
  Forall rawlike gp -> Forall rawlike (map snd kw) ->
  fill_args spec O1 names gp kw = fill_args spec O2 names gp kw.
Proof.
  induction names as [|a names IH]; intros gp kw Hg Hk; simpl; [reflexivity|].
  destruct gp as [|e gp'].
  - unfold dict_pop. destruct (dict_get a kw) as [e|] eqn:Eg.
    + assert (He : rawlike e) by (eapply Forall_forall in Hk; [exact Hk|eapply dict_get_In_snd; exact Eg]).
      rewrite (value_rawlike O1 O2 e He). apply rbind_ext. intros v _.
      rewrite (IH [] (dict_del a kw) Hg (Forall_map_snd_del _ _ _ Hk)). reflexivity.
    + destruct (has_default spec a); [|reflexivity]. simpl. rewrite (IH [] kw Hg Hk). reflexivity.
  - inversion Hg; subst. destruct (dict_mem a kw); [reflexivity|].
    rewrite (value_rawlike O1 O2 e H1). apply rbind_ext. intros v _. rewrite (IH gp' kw H2 Hk). reflexivity.
Qed.

Lemma fill_kwonly_ext names : forall kw acc,
  Forall rawlike (map snd kw) ->
  fill_kwonly spec O1 names kw acc = fill_kwonly spec O2 names kw acc.
Proof.
  induction names as [|a names IH]; intros kw acc Hk; simpl; [reflexivity|].
  unfold dict_pop. destruct (dict_get a kw) as [e|] eqn:Eg.
  - assert (He : rawlike e) by (eapply Forall_forall in Hk; [exact Hk|eapply dict_get_In_snd; exact Eg]).
    rewrite (value_rawlike O1 O2 e He). apply rbind_ext. intros v _.
    apply IH. apply Forall_map_snd_del. exact Hk.
  - destruct (has_default spec a); [|reflexivity]. simpl. apply IH. exact Hk.
Qed.

Lemma values_ext l : Forall rawlike l -> values O1 l = values O2 l.
Proof.
  induction l as [|e r IH]; intros H; simpl; [reflexivity|]. inversion H; subst.
  rewrite (value_rawlike O1 O2 e H2). apply rbind_ext. intros v _. rewrite (IH H3). reflexivity.
Qed.

Lemma fill_rest_ext items : forall acc, Forall rawlike (map snd items) -> fill_rest O1 items acc = fill_rest O2 items acc.
Proof.
  induction items as [|[n e] r IH]; intros acc H; simpl; [reflexivity|]. simpl in H. inversion H; subst.
  rewrite (value_rawlike O1 O2 e H2). apply rbind_ext. intros v _. apply IH. exact H3.
Qed.

Lemma Forall_incl {A} (P : A -> Prop) (a b : list A) : incl a b -> Forall P b -> Forall P a.
Proof. intros Hi Hb. apply Forall_forall. intros x Hx. eapply Forall_forall in Hb; [exact Hb|apply Hi; exact Hx]. Qed.

Lemma finish_ext gpos gkw :
  Forall rawlike gpos -> Forall rawlike (map snd gkw) ->
  finish spec O1 gpos gkw = finish spec O2 gpos gkw.
Proof.
  intros Hg Hk. unfold finish. rewrite (fill_args_ext _ _ _ Hg Hk).
  apply rbind_ext. intros [[pvals extra] kw1] H1.
  destruct (fill_args_prov spec O2 _ _ _ _ _ _ H1) as [_ [Ig Ik]].
  assert (Hk1 : Forall rawlike (map snd kw1)) by (eapply Forall_incl; [apply incl_map_snd; exact Ik|exact Hk]).
  rewrite (fill_kwonly_ext _ _ _ Hk1).
  apply rbind_ext. intros [kacc kw2] H2.
  destruct (fill_kwonly_prov spec O2 _ _ _ _ _ H2) as [_ Ik2].
  assert (He : Forall rawlike extra) by (eapply Forall_incl; [exact Ig|exact Hg]).
  rewrite (values_ext _ He).
  apply rbind_ext. intros evals _.
  rewrite (fill_rest_ext (sort_items kw2)); [reflexivity|].
  apply Forall_forall. intros x Hx. apply in_map_iff in Hx as [[kk vv] [Hs Hin]]. simpl in Hs. subst.
  apply sort_items_In in Hin. apply Ik2 in Hin. apply (in_map snd) in Hin.
  eapply Forall_forall in Hk1; [exact Hk1|exact Hin].
Qed.

End Ext.

(* string / --safe mode never evaluates anything: the result (values and errors alike) does not
   depend on what any string would evaluate to *)
Theorem string_mode_never_evaluates_proof fx idok spec O1 O2 argv stdin :
  parse fx idok spec MString O1 argv stdin = parse fx idok spec MString O2 argv stdin.
Proof.
  unfold parse. destruct (scan fx idok spec MString argv stdin) as [gpos evs|e] eqn:Es; [|reflexivity].
  apply scan_orig in Es as [F1 F2].
  apply finish_ext.
  - eapply Forall_impl; [|exact F1]. intros e [[s [-> _]]|[s [-> _]]]; exact I.
  - apply Forall_forall. intros e He. apply dict_of_In_snd in He. eapply Forall_forall in F2; [|exact He].
    destruct F2 as [[s [-> _]]|[s [-> _]]]; exact I.
Qed.

(* ---------- termination of the command while parsing ---------- *)

Section Exit.
Variable spec : argspec.
Variable O : oracle.

Definition exits (c : str) (e : uexpr) : Prop := value O e = Err (EExit c).

Lemma fill_args_exit names : forall gp kw c,
  fill_args spec O names gp kw = Err (EExit c) -> exists e, (In e gp \/ In e (map snd kw)) /\ exits c e.
Proof.
  induction names as [|a names IH]; intros gp kw c H; simpl in H; [discriminate|].
  destruct gp as [|e gp'].
  - unfold dict_pop in H. destruct (dict_get a kw) as [e|] eqn:Eg.
    + apply rbind_err in H as [H|[v [_ H]]].
      * exists e. split; [right; eapply dict_get_In_snd; exact Eg|exact H].
      * apply rbind_err in H as [H|[[[vs g] k] [_ H]]]; [|discriminate].
        destruct (IH _ _ _ H) as [e0 [[[]|Hin] He]]. exists e0. split; [|exact He]. right.
        apply in_map_iff in Hin as [[kk vv] [Hs Hin]]. simpl in Hs. subst.
        apply dict_del_In in Hin. apply (in_map snd) in Hin. exact Hin.
    + destruct (has_default spec a); [|discriminate]. simpl in H.
      apply rbind_err in H as [H|[[[vs g] k] [_ H]]]; [|discriminate].
      destruct (IH _ _ _ H) as [e0 [[[]|Hin] He]]. exists e0. split; [right; exact Hin|exact He].
  - destruct (dict_mem a kw); [discriminate|].
    apply rbind_err in H as [H|[v [_ H]]].
    + exists e. split; [left; left; reflexivity|exact H].
    + apply rbind_err in H as [H|[[[vs g] k] [_ H]]]; [|discriminate].
      destruct (IH _ _ _ H) as [e0 [[Hin|Hin] He]]; exists e0; (split; [|exact He]); [left; right; exact Hin|right; exact Hin].
Qed.

Lemma fill_kwonly_exit names : forall kw acc c,
  fill_kwonly spec O names kw acc = Err (EExit c) -> exists e, In e (map snd kw) /\ exits c e.
Proof.
  induction names as [|a names IH]; intros kw acc c H; simpl in H; [discriminate|].
  unfold dict_pop in H. destruct (dict_get a kw) as [e|] eqn:Eg.
  - apply rbind_err in H as [H|[v [_ H]]].
    + exists e. split; [eapply dict_get_In_snd; exact Eg|exact H].
    + destruct (IH _ _ _ H) as [e0 [Hin He]]. exists e0. split; [|exact He].
      apply in_map_iff in Hin as [[kk vv] [Hs Hin]]. simpl in Hs. subst.
      apply dict_del_In in Hin. apply (in_map snd) in Hin. exact Hin.
  - destruct (has_default spec a); [|discriminate]. simpl in H. apply IH in H. exact H.
Qed.

Lemma values_exit l c : values O l = Err (EExit c) -> exists e, In e l /\ exits c e.
Proof.
  induction l as [|e r IH]; intros H; simpl in H; [discriminate|].
  apply rbind_err in H as [H|[v [_ H]]]; [exists e; split; [left; reflexivity|exact H]|].
  apply rbind_err in H as [H|[vs [_ H]]]; [|discriminate].
  destruct (IH H) as [e0 [Hin He]]. exists e0. split; [right; exact Hin|exact He].
Qed.

Lemma fill_rest_exit items : forall acc c,
  fill_rest O items acc = Err (EExit c) -> exists e, In e (map snd items) /\ exits c e.
Proof.
  induction items as [|[n e] r IH]; intros acc c H; simpl in H; [discriminate|].
  apply rbind_err in H as [H|[v [_ H]]]; [exists e; split; [left; reflexivity|exact H]|].
  destruct (IH _ _ H) as [e0 [Hin He]]. exists e0. split; [right; exact Hin|exact He].
Qed.

Lemma finish_exit gpos gkw c :
  finish spec O gpos gkw = Err (EExit c) -> exists e, (In e gpos \/ In e (map snd gkw)) /\ exits c e.
Proof.
  unfold finish. intros H.
  apply rbind_err in H as [H|[[[pvals extra] kw1] [H1 H]]]; [eapply fill_args_exit; exact H|].
  destruct (fill_args_prov spec O _ _ _ _ _ _ H1) as [_ [Ig Ik]].
  apply rbind_err in H as [H|[[kacc kw2] [H2 H]]].
  { destruct (fill_kwonly_exit _ _ _ _ H) as [e [Hin He]]. exists e. split; [right; apply (incl_map_snd _ _ Ik); exact Hin|exact He]. }
  destruct (fill_kwonly_prov spec O _ _ _ _ _ H2) as [_ Ik2].
  apply rbind_err in H as [H|[evals [_ H]]].
  { destruct extra as [|x extra']; [discriminate|]. destruct (varargs spec); [|discriminate].
    destruct (values_exit _ _ H) as [e [Hin He]]. exists e. split; [left; apply Ig; exact Hin|exact He]. }
  apply rbind_err in H as [H|[kfinal [_ H]]]; [|discriminate].
  destruct (fill_rest_exit _ _ _ H) as [e [Hin He]]. exists e. split; [|exact He]. right.
  apply in_map_iff in Hin as [[kk vv] [Hs Hin]]. simpl in Hs. subst.
  apply sort_items_In in Hin. apply Ik2 in Hin. apply Ik in Hin. apply (in_map snd) in Hin. exact Hin.
Qed.

End Exit.

Section ScanNoExit.
Variable fx : bool.
Variable idok : str -> bool.
Variable spec : argspec.
Variable md : mode.

Lemma opt_target_no_exit n eq e : opt_target fx idok spec n eq = inl e -> forall c, e <> EExit c.
Proof.
  unfold opt_target. destruct (idok n); simpl; [|intros H; inversion H; discriminate].
  destruct (resolve fx spec n); [discriminate| |intros H; inversion H; discriminate].
  destruct (negb eq && (str_eqb n s_help || str_eqb n s_h)); [intros H; inversion H; discriminate|].
  destruct (negb eq && str_eqb n s_source); [intros H; inversion H; discriminate|].
  destruct (negb (varkw spec)); [intros H; inversion H; discriminate|discriminate].
Qed.

Lemma add_pos_stop e r x : add_pos e r = SStop x -> r = SStop x.
Proof. destruct r; simpl; intros H; [discriminate|exact H]. Qed.
Lemma add_ev_stop n e r x : add_ev n e r = SStop x -> r = SStop x.
Proof. destruct r; simpl; intros H; [discriminate|exact H]. Qed.

(* the loop itself never terminates the command: it only builds expressions *)
Lemma scan_no_exit argv : forall sd e, scan fx idok spec md argv sd = SStop e -> forall c, e <> EExit c.
Proof.
  induction argv as [argv IH] using (well_founded_induction (Wf_nat.well_founded_ltof _ (@length str))).
  unfold Wf_nat.ltof in IH.
  intros sd e H. destruct argv as [|a rest]; [simpl in H; discriminate|].
  rewrite scan_cons in H. cbv zeta in H.
  destruct (is_help_arg a); [inversion H; discriminate|]. destruct (is_source_arg a); [inversion H; discriminate|].
  destruct (starts_with s_dash a).
  - destruct (str_eqb a s_dash).
    + apply add_pos_stop in H. eapply IH; [|exact H]. simpl; lia.
    + destruct (str_eqb a s_dd); [discriminate|].
      destruct (partition_eq _) as [[n0 eq] v]. cbv beta iota in H.
      destruct (opt_target fx idok spec (dash_to_us n0) eq) as [e0|name] eqn:Eo.
      * inversion H; subst. eapply opt_target_no_exit; exact Eo.
      * destruct (take_next fx eq v).
        -- destruct rest as [|w rest']; [inversion H; discriminate|].
           destruct (starts_with s_dd w); [inversion H; discriminate|].
           apply add_ev_stop in H. eapply IH; [|exact H]. simpl; lia.
        -- apply add_ev_stop in H. eapply IH; [|exact H]. simpl; lia.
  - apply add_pos_stop in H. eapply IH; [|exact H]. simpl; lia.
Qed.

End ScanNoExit.

(* F22: the command terminates while the arguments are parsed (traceback, SystemExit) only if
   the mode evaluates and the oracle says that evaluating one of the original strings terminates
   it - and then no value at all is delivered *)
Theorem exit_only_from_evaluation_proof fx idok spec md O argv stdin c :
  parse fx idok spec md O argv stdin = Err (EExit c) ->
  md <> MString /\ exists s, orig argv s /\ snd (O s) = RExit c /\ (md = MAuto -> fst (O s) = Expr).
Proof.
  unfold parse. intros H. destruct (scan fx idok spec md argv stdin) as [gpos evs|e] eqn:Es.
  - apply finish_exit in H as [e [Hin He]]. apply scan_orig in Es as [F1 F2].
    assert (Ho : expr_orig md argv stdin e).
    { destruct Hin as [Hin|Hin]; [eapply Forall_forall in F1; eassumption|].
      apply dict_of_In_snd in Hin. eapply Forall_forall in F2; eassumption. }
    unfold exits in He. destruct Ho as [[s [-> Ho]]|[s [-> _]]]; [|simpl in He; discriminate].
    destruct md; simpl in He; [discriminate| |].
    + split; [discriminate|]. exists s. split; [exact Ho|].
      destruct (O s) as [sy rr]. destruct sy, rr; simpl in *; try discriminate; inversion He; subst; (split; [reflexivity|discriminate]).
    + split; [discriminate|]. exists s. split; [exact Ho|].
      destruct (O s) as [sy rr]. destruct sy, rr; simpl in *; try discriminate; inversion He; subst; (split; reflexivity).
  - inversion H; subst. exfalso. eapply scan_no_exit; [exact Es|reflexivity].
Qed.

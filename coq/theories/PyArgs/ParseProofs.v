(* Proofs about PyArgs/Parse.v: where every delivered value comes from (string identity,
   value-or-string in auto mode, termination only when an evaluation terminates), name
   resolution (exact name or unique prefix), the rejection clauses at the level of the
   command-line loop. *)
From Coq Require Import NArith List Bool Lia.
From Verif Require Import Base.Chars Base.StrX Base.StrXProofs PyArgs.Parse.
Import ListNotations.

(* ---------- small facts ---------- *)

Lemma mem_str_In s l : mem_str s l = true <-> In s l.
Proof.
  unfold mem_str. rewrite existsb_exists. split.
  - intros [x [Hx He]]. apply str_eqb_eq in He. subst. exact Hx.
  - intros H. exists s. split; [exact H|apply str_eqb_refl].
Qed.

Lemma mem_str_false s l : mem_str s l = false <-> ~ In s l.
Proof.
  rewrite <- mem_str_In. destruct (mem_str s l); split; intros H; congruence.
Qed.

Lemma partition_eq_found s b v : partition_eq s = (b, true, v) -> s = b ++ c_eq :: v.
Proof.
  revert b v. induction s as [|c r IH]; intros b v H; simpl in H; [discriminate|].
  destruct (c =? c_eq)%N eqn:E.
  - apply N.eqb_eq in E. inversion H; subst. reflexivity.
  - destruct (partition_eq r) as [[b' f'] a'] eqn:Ep. inversion H; subst.
    simpl. f_equal. apply IH. reflexivity.
Qed.

Lemma partition_eq_notfound s b v : partition_eq s = (b, false, v) -> v = [] /\ b = s.
Proof.
  revert b v. induction s as [|c r IH]; intros b v H; simpl in H.
  - inversion H. split; reflexivity.
  - destruct (c =? c_eq)%N eqn:E; [discriminate|].
    destruct (partition_eq r) as [[b' f'] a'] eqn:Ep. inversion H; subst.
    destruct (IH b' v eq_refl) as [-> ->]. split; reflexivity.
Qed.

(* ---------- dictionaries ---------- *)

Lemma dict_get_In {V} k (d : dict V) v : dict_get k d = Some v -> In (k, v) d.
Proof.
  induction d as [|[k' v'] r IH]; simpl; [discriminate|].
  destruct (str_eqb k k') eqn:E.
  - apply str_eqb_eq in E. intros H. inversion H; subst. left. reflexivity.
  - intros H. right. apply IH. exact H.
Qed.

Lemma dict_get_In_snd {V} k (d : dict V) v : dict_get k d = Some v -> In v (map snd d).
Proof. intros H. apply dict_get_In in H. apply (in_map snd) in H. exact H. Qed.

Lemma dict_get_In_fst {V} k (d : dict V) v : dict_get k d = Some v -> In k (map fst d).
Proof. intros H. apply dict_get_In in H. apply (in_map fst) in H. exact H. Qed.

Lemma dict_get_None {V} k (d : dict V) : dict_get k d = None <-> ~ In k (map fst d).
Proof.
  induction d as [|[k' v'] r IH]; simpl.
  - split; [intros _ []|reflexivity].
  - destruct (str_eqb k k') eqn:E.
    + apply str_eqb_eq in E. subst. split; [discriminate|]. intros H. exfalso. apply H. left. reflexivity.
    + rewrite IH. split.
      * intros H [H1|H1]; [subst; rewrite str_eqb_refl in E; discriminate|auto].
      * intros H H1. apply H. right. exact H1.
Qed.

Lemma dict_del_In {V} k (d : dict V) x : In x (dict_del k d) -> In x d.
Proof.
  induction d as [|[k' v'] r IH]; simpl; [auto|].
  destruct (str_eqb k k'); simpl; intros H; [right; exact H|].
  destruct H as [H|H]; [left; exact H|right; apply IH; exact H].
Qed.

Lemma dict_set_In_snd {V} k (v : V) d x : In x (map snd (dict_set k v d)) -> x = v \/ In x (map snd d).
Proof.
  induction d as [|[k' v'] r IH]; simpl.
  - intros [H|[]]. left. congruence.
  - destruct (str_eqb k k'); simpl; intros [H|H]; auto.
    destruct (IH H); auto.
Qed.

Lemma dict_of_In_snd {V} (evs : list (str * V)) x : In x (map snd (dict_of evs)) -> In x (map snd evs).
Proof.
  unfold dict_of.
  assert (G : forall d, In x (map snd (fold_left (fun d kv => dict_set (fst kv) (snd kv) d) evs d)) ->
                        In x (map snd d) \/ In x (map snd evs)).
  { induction evs as [|[k v] r IH]; intros d H; simpl in *; [left; exact H|].
    destruct (IH _ H) as [H1|H1]; [|right; right; exact H1].
    destruct (dict_set_In_snd _ _ _ _ H1) as [->|H2]; [right; left; reflexivity|left; exact H2]. }
  intros H. destruct (G [] H) as [[]|H1]. exact H1.
Qed.

Lemma insert_sorted_In {V} (kv : str * V) l x : In x (insert_sorted kv l) -> x = kv \/ In x l.
Proof.
  induction l as [|kv' r IH]; simpl.
  - intros [H|[]]. left. congruence.
  - destruct (str_ltb (fst kv') (fst kv)); simpl; intros [H|H]; auto.
    destruct (IH H); auto.
Qed.

Lemma sort_items_In {V} (d : dict V) x : In x (sort_items d) -> In x d.
Proof.
  induction d as [|kv r IH]; simpl; [auto|].
  intros H. destruct (insert_sorted_In _ _ _ H) as [->|H1]; [left; reflexivity|right; apply IH; exact H1].
Qed.

(* ---------- where delivered values come from ---------- *)

Section Provenance.
Variable fx : bool.
Variable idok : str -> bool.
Variable spec : argspec.
Variable md : mode.
Variable O : oracle.

(* e is one of the expressions in gpos, one of the expressions assigned to a keyword, or a default *)
Definition from_cmdline (gpos : list uexpr) (gkw : dict uexpr) (e : uexpr) : Prop :=
  In e gpos \/ In e (map snd gkw) \/ exists a, e = Dflt a.

Definition delivered_from (gpos : list uexpr) (gkw : dict uexpr) (v : val) : Prop :=
  exists e, from_cmdline gpos gkw e /\ value O e = Ok v.

Lemma rbind_ok {A B} (r : res A) (f : A -> res B) b :
  rbind r f = Ok b -> exists a, r = Ok a /\ f a = Ok b.
Proof. destruct r; simpl; [intros H; eexists; split; [reflexivity|exact H]|discriminate]. Qed.

Lemma rbind_err {A B} (r : res A) (f : A -> res B) e :
  rbind r f = Err e -> r = Err e \/ exists a, r = Ok a /\ f a = Err e.
Proof. destruct r; simpl; [intros H; right; eexists; split; [reflexivity|exact H]|intros H; left; congruence]. Qed.

Lemma fill_args_prov names : forall gp kw vs g k,
  fill_args spec O names gp kw = Ok (vs, g, k) ->
  Forall (delivered_from gp kw) vs /\ incl g gp /\ incl k kw.
Proof.
  induction names as [|a names IH]; intros gp kw vs g k H; simpl in H.
  - inversion H; subst. split; [constructor|split; apply incl_refl].
  - destruct gp as [|e gp'].
    + destruct (dict_pop a kw) as [[e kw']|] eqn:Ep.
      * unfold dict_pop in Ep. destruct (dict_get a kw) as [e0|] eqn:Eg; [|discriminate].
        inversion Ep; subst e0 kw'. clear Ep.
        apply rbind_ok in H as [v [Hv H]]. apply rbind_ok in H as [[[vs' g'] k'] [Hr H]].
        inversion H; subst. destruct (IH _ _ _ _ _ Hr) as [F [Ig Ik]].
        split; [|split].
        -- constructor.
           ++ exists e. split; [right; left; eapply dict_get_In_snd; eassumption|exact Hv].
           ++ eapply Forall_impl; [|exact F]. intros v0 [e0 [[[]|[H1|H1]] H2]]; exists e0; (split; [|exact H2]).
              ** right. left. apply in_map_iff in H1 as [[kk vv] [Hs Hin]]. simpl in Hs. subst.
                 apply dict_del_In in Hin. apply (in_map snd) in Hin. exact Hin.
              ** right. right. exact H1.
        -- exact Ig.
        -- intros x Hx. apply Ik in Hx. eapply dict_del_In. exact Hx.
      * destruct (has_default spec a); [|discriminate].
        apply rbind_ok in H as [[[vs' g'] k'] [Hr H]].
        inversion H; subst. destruct (IH _ _ _ _ _ Hr) as [F [Ig Ik]].
        split; [|split; assumption].
        constructor; [|exact F].
        exists (Dflt a). split; [right; right; eexists; reflexivity|reflexivity].
    + destruct (dict_mem a kw); [discriminate|].
      apply rbind_ok in H as [v [Hv H]]. apply rbind_ok in H as [[[vs' g'] k'] [Hr H]].
      inversion H; subst. destruct (IH _ _ _ _ _ Hr) as [F [Ig Ik]].
      split; [|split].
      * constructor.
        -- exists e. split; [left; left; reflexivity|exact Hv].
        -- eapply Forall_impl; [|exact F]. intros v0 [e0 [[H1|H1] H2]]; exists e0; (split; [|exact H2]).
           ++ left. right. exact H1.
           ++ right. exact H1.
      * intros x Hx. right. apply Ig. exact Hx.
      * exact Ik.
Qed.

Lemma fill_kwonly_prov names : forall kw acc acc' k,
  fill_kwonly spec O names kw acc = Ok (acc', k) ->
  (forall v, In v (map snd acc') -> In v (map snd acc) \/ delivered_from [] kw v) /\ incl k kw.
Proof.
  induction names as [|a names IH]; intros kw acc acc' k H; simpl in H.
  - inversion H; subst. split; [intros v Hv; left; exact Hv|apply incl_refl].
  - destruct (dict_pop a kw) as [[e kw']|] eqn:Ep.
    + unfold dict_pop in Ep. destruct (dict_get a kw) as [e0|] eqn:Eg; [|discriminate].
      inversion Ep; subst e0 kw'. clear Ep.
      apply rbind_ok in H as [v [Hv H]]. destruct (IH _ _ _ _ H) as [F Ik].
      split.
      * intros v0 Hv0. destruct (F v0 Hv0) as [H1|[e0 [[[]|[H1|H1]] H2]]].
        -- destruct (dict_set_In_snd _ _ _ _ H1) as [->|H3]; [|left; exact H3].
           right. exists e. split; [right; left; eapply dict_get_In_snd; eassumption|exact Hv].
        -- right. exists e0. split; [|exact H2]. right. left.
           apply in_map_iff in H1 as [[kk vv] [Hs Hin]]. simpl in Hs. subst.
           apply dict_del_In in Hin. apply (in_map snd) in Hin. exact Hin.
        -- right. exists e0. split; [right; right; exact H1|exact H2].
      * intros x Hx. apply Ik in Hx. eapply dict_del_In. exact Hx.
    + destruct (has_default spec a); [|discriminate].
      destruct (IH _ _ _ _ H) as [F Ik].
      split; [|exact Ik].
      intros v0 Hv0. destruct (F v0 Hv0) as [H1|H1]; [|right; exact H1].
      destruct (dict_set_In_snd _ _ _ _ H1) as [->|H3]; [|left; exact H3].
      right. exists (Dflt a). split; [right; right; eexists; reflexivity|reflexivity].
Qed.

Lemma values_prov l : forall vs, values O l = Ok vs -> Forall (fun v => exists e, In e l /\ value O e = Ok v) vs.
Proof.
  induction l as [|e r IH]; intros vs H; simpl in H.
  - inversion H. constructor.
  - apply rbind_ok in H as [v [Hv H]]. apply rbind_ok in H as [vs' [Hr H]]. inversion H; subst.
    constructor; [exists e; split; [left; reflexivity|exact Hv]|].
    eapply Forall_impl; [|apply IH; exact Hr]. intros v0 [e0 [H1 H2]]. exists e0. split; [right; exact H1|exact H2].
Qed.

Lemma fill_rest_prov items : forall acc acc',
  fill_rest O items acc = Ok acc' ->
  forall v, In v (map snd acc') -> In v (map snd acc) \/ exists e, In e (map snd items) /\ value O e = Ok v.
Proof.
  induction items as [|[n e] r IH]; intros acc acc' H v Hv; simpl in H.
  - inversion H; subst. left. exact Hv.
  - apply rbind_ok in H as [v1 [Hv1 H]]. destruct (IH _ _ H v Hv) as [H1|[e0 [H1 H2]]].
    + destruct (dict_set_In_snd _ _ _ _ H1) as [->|H3]; [|left; exact H3].
      right. exists e. split; [left; reflexivity|exact Hv1].
    + right. exists e0. split; [right; exact H1|exact H2].
Qed.

Lemma incl_map_snd {V} (a b : dict V) : incl a b -> incl (map snd a) (map snd b).
Proof. intros H x Hx. apply in_map_iff in Hx as [y [<- Hy]]. apply in_map. apply H. exact Hy. Qed.

(* every value finish delivers is the value of an expression of the command line or a default *)
Lemma finish_prov gpos gkw pos kw :
  finish spec O gpos gkw = Ok (pos, kw) -> Forall (delivered_from gpos gkw) (pos ++ map snd kw).
Proof.
  unfold finish. intros H.
  apply rbind_ok in H as [[[pvals extra] kw1] [H1 H]].
  apply rbind_ok in H as [[kacc kw2] [H2 H]].
  apply rbind_ok in H as [evals [H3 H]].
  apply rbind_ok in H as [kfinal [H4 H]]. inversion H; subst. clear H.
  destruct (fill_args_prov _ _ _ _ _ _ H1) as [F1 [Ig Ik1]].
  destruct (fill_kwonly_prov _ _ _ _ _ H2) as [F2 Ik2].
  apply Forall_app. split; [apply Forall_app; split|].
  - exact F1.
  - assert (F3 : Forall (fun v => exists e, In e extra /\ value O e = Ok v) evals).
    { destruct extra as [|x extra']; [inversion H3; constructor|].
      destruct (varargs spec); [apply values_prov; exact H3|discriminate]. }
    eapply Forall_impl; [|exact F3]. intros v [e [He Hv]]. exists e. split; [left; apply Ig; exact He|exact Hv].
  - apply Forall_forall. intros v Hv.
    destruct (fill_rest_prov _ _ _ H4 v Hv) as [Ha|[e [He Hv']]].
    + destruct (F2 v Ha) as [[]|[e [[[]|[He|He]] Hv']]]; exists e; (split; [|exact Hv']).
      * right. left. apply (incl_map_snd _ _ Ik1). exact He.
      * right. right. exact He.
    + exists e. split; [|exact Hv']. right. left.
      apply in_map_iff in He as [[kk vv] [Hs Hin]]. simpl in Hs. subst.
      apply sort_items_In in Hin. apply Ik2 in Hin. apply Ik1 in Hin. apply (in_map snd) in Hin. exact Hin.
Qed.

(* --- the loop: every expression it makes is built from an original string --- *)

(* s is the text after the first `=` of the option a *)
Definition value_part (a s : str) : Prop := exists pre, a = pre ++ c_eq :: s.

(* s is an argument of the command line, or the value part of one of its options *)
Definition orig (argv : list str) (s : str) : Prop :=
  In s argv \/ exists a, In a argv /\ starts_with s_dash a = true /\ value_part a s.

(* expressions of the loop: an original string under the mode of the command; or - `--` and `-` -
   a raw string: an original argument or what standard input held *)
Definition expr_orig (argv : list str) (stdin : str) (e : uexpr) : Prop :=
  (exists s, e = mk md s /\ orig argv s)
  \/ (exists s, e = Raw s /\ (In s argv \/ (In s_dash argv /\ (s = stdin \/ s = [])))).

Lemma orig_cons a argv s : orig argv s -> orig (a :: argv) s.
Proof.
  intros [H|[b [H1 H2]]]; [left; right; exact H|right; exists b; split; [right; exact H1|exact H2]].
Qed.

Lemma expr_orig_cons a argv sd e : expr_orig argv sd e -> expr_orig (a :: argv) sd e.
Proof.
  intros [[s [H1 H2]]|[s [H1 [H2|[H2 H3]]]]].
  - left. exists s. split; [exact H1|apply orig_cons; exact H2].
  - right. exists s. split; [exact H1|left; right; exact H2].
  - right. exists s. split; [exact H1|right; split; [right; exact H2|exact H3]].
Qed.

Lemma expr_orig_cons2 a b argv sd e : expr_orig argv sd e -> expr_orig (a :: b :: argv) sd e.
Proof. intros H. apply expr_orig_cons. apply expr_orig_cons. exact H. Qed.

Lemma expr_orig_nil_stdin argv sd e : expr_orig argv [] e -> expr_orig argv sd e.
Proof.
  intros [H|[s [H1 [H2|[H2 H3]]]]]; [left; exact H|right; exists s; split; [exact H1|left; exact H2]|].
  right. exists s. split; [exact H1|]. right. split; [exact H2|]. right. destruct H3; assumption.
Qed.

Lemma dashed_body a : starts_with s_dash a = true ->
  exists d, a = d ++ (if starts_with s_dd a then skipn 2 a else skipn 1 a).
Proof.
  intros H. destruct (starts_with s_dd a) eqn:E.
  - apply starts_with_iff in E as [r ->]. exists s_dd. reflexivity.
  - apply starts_with_iff in H as [r ->]. exists s_dash. reflexivity.
Qed.

Lemma add_pos_ok e r gpos evs : add_pos e r = SOk gpos evs -> exists g, r = SOk g evs /\ gpos = e :: g.
Proof. destruct r; simpl; intros H; inversion H; subst. eexists; split; reflexivity. Qed.

Lemma add_ev_ok n e r gpos evs : add_ev n e r = SOk gpos evs -> exists k, r = SOk gpos k /\ evs = (n, e) :: k.
Proof. destruct r; simpl; intros H; inversion H; subst. eexists; split; reflexivity. Qed.

Lemma scan_cons a rest stdin :
  scan fx idok spec md (a :: rest) stdin =
      if is_help_arg a then SStop EHelp
      else if is_source_arg a then SStop ESource
      else if starts_with s_dash a then
        if str_eqb a s_dash then add_pos (Raw stdin) (scan fx idok spec md rest [])
        else if str_eqb a s_dd then SOk (map Raw rest) []
        else
          let body := if starts_with s_dd a then skipn 2 a else skipn 1 a in
          match partition_eq body with
          | (n0, eq, v) =>
              match opt_target fx idok spec (dash_to_us n0) eq with
              | inl e => SStop e
              | inr name =>
                  if take_next fx eq v then
                    match rest with
                    | [] => SStop (EParse MissingArg)
                    | w :: rest' =>
                        if starts_with s_dd w then SStop (EParse MissingArg)
                        else add_ev name (mk md w) (scan fx idok spec md rest' stdin)
                    end
                  else add_ev name (mk md v) (scan fx idok spec md rest stdin)
              end
          end
      else add_pos (mk md a) (scan fx idok spec md rest stdin).
Proof. reflexivity. Qed.

Lemma scan_orig argv : forall sd gpos evs,
  scan fx idok spec md argv sd = SOk gpos evs ->
  Forall (expr_orig argv sd) gpos /\ Forall (expr_orig argv sd) (map snd evs).
Proof.
  induction argv as [argv IH] using (well_founded_induction (Wf_nat.well_founded_ltof _ (@length str))).
  unfold Wf_nat.ltof in IH.
  intros sd gpos evs H. destruct argv as [|a rest].
  - simpl in H. inversion H; subst. split; constructor.
  - rewrite scan_cons in H. cbv zeta in H.
    destruct (is_help_arg a); [discriminate|]. destruct (is_source_arg a); [discriminate|].
    destruct (starts_with s_dash a) eqn:Ed.
    + destruct (str_eqb a s_dash) eqn:E1.
      * apply str_eqb_eq in E1. subst a.
        apply add_pos_ok in H as [g [Hr ->]]. apply IH in Hr as [F1 F2]; [|simpl; lia].
        split.
        -- constructor.
           ++ right. exists sd. split; [reflexivity|]. right. split; [left; reflexivity|left; reflexivity].
           ++ eapply Forall_impl; [|exact F1]. intros e He. apply expr_orig_cons. apply expr_orig_nil_stdin. exact He.
        -- eapply Forall_impl; [|exact F2]. intros e He. apply expr_orig_cons. apply expr_orig_nil_stdin. exact He.
      * destruct (str_eqb a s_dd) eqn:E2.
        -- inversion H; subst. split; [|constructor].
           apply Forall_forall. intros e He. apply in_map_iff in He as [s [<- Hs]].
           right. exists s. split; [reflexivity|left; right; exact Hs].
        -- destruct (partition_eq _) as [[n0 eq] v] eqn:Ep.
           cbv beta iota in H.
           destruct (opt_target fx idok spec (dash_to_us n0) eq) as [e0|name]; [discriminate|].
           destruct (take_next fx eq v) eqn:Et.
           ++ destruct rest as [|w rest']; [discriminate|].
              destruct (starts_with s_dd w); [discriminate|].
              apply add_ev_ok in H as [k [Hr ->]]. apply IH in Hr as [F1 F2]; [|simpl; lia].
              split.
              ** eapply Forall_impl; [|exact F1]. intros e He. apply expr_orig_cons2. exact He.
              ** simpl. constructor.
                 --- left. exists w. split; [reflexivity|]. left. right. left. reflexivity.
                 --- eapply Forall_impl; [|exact F2]. intros e He. apply expr_orig_cons2. exact He.
           ++ assert (Heq : eq = true).
              { destruct eq; [reflexivity|]. apply partition_eq_notfound in Ep as [-> _].
                unfold take_next in Et. destruct fx; simpl in Et; discriminate. }
              subst eq. apply partition_eq_found in Ep.
              apply add_ev_ok in H as [k [Hr ->]]. apply IH in Hr as [F1 F2]; [|simpl; lia].
              split.
              ** eapply Forall_impl; [|exact F1]. intros e He. apply expr_orig_cons. exact He.
              ** simpl. constructor.
                 --- left. exists v. split; [reflexivity|]. right. exists a. split; [left; reflexivity|].
                     split; [exact Ed|]. destruct (dashed_body a Ed) as [d Hd].
                     exists (d ++ n0). rewrite Hd at 1. rewrite Ep. rewrite <- app_assoc. reflexivity.
                 --- eapply Forall_impl; [|exact F2]. intros e He. apply expr_orig_cons. exact He.
    + apply add_pos_ok in H as [g [Hr ->]]. apply IH in Hr as [F1 F2]; [|simpl; lia].
      split.
      * constructor.
        -- left. exists a. split; [reflexivity|left; left; reflexivity].
        -- eapply Forall_impl; [|exact F1]. intros e He. apply expr_orig_cons. exact He.
      * eapply Forall_impl; [|exact F2]. intros e He. apply expr_orig_cons. exact He.
Qed.

(* the delivered values of a successful parse *)
Definition delivered (argv : list str) (stdin : str) (v : val) : Prop :=
  (exists a, v = VDefault a) \/ exists e, expr_orig argv stdin e /\ value O e = Ok v.

Theorem parse_provenance argv stdin pos kw :
  parse fx idok spec md O argv stdin = Ok (pos, kw) ->
  Forall (delivered argv stdin) (pos ++ map snd kw).
Proof.
  unfold parse. intros H. destruct (scan fx idok spec md argv stdin) as [gpos evs|e] eqn:Es; [|discriminate].
  apply scan_orig in Es as [F1 F2]. apply finish_prov in H.
  eapply Forall_impl; [|exact H]. intros v [e [[He|[He|[a ->]]] Hv]].
  - right. exists e. split; [|exact Hv]. eapply Forall_forall in F1; eassumption.
  - right. exists e. split; [|exact Hv]. apply dict_of_In_snd in He. eapply Forall_forall in F2; eassumption.
  - left. exists a. simpl in Hv. inversion Hv. reflexivity.
Qed.

End Provenance.

(* ---------- string identity; value or string ---------- *)

(* an original string of the command line: an argument, the value part of an option, or -
   when `-` is on the command line - what standard input held ('' for a second `-`) *)
Definition original (argv : list str) (stdin s : str) : Prop :=
  orig argv s \/ (In s_dash argv /\ (s = stdin \/ s = [])).

(* string / --safe mode: every delivered value is the exact original string (or the function's
   own default); the oracle is irrelevant *)
Theorem string_mode_identity_proof fx idok spec O argv stdin pos kw :
  parse fx idok spec MString O argv stdin = Ok (pos, kw) ->
  Forall (fun v => (exists a, v = VDefault a) \/ exists s, v = VStr s /\ original argv stdin s)
         (pos ++ map snd kw).
Proof.
  intros H. apply parse_provenance in H. eapply Forall_impl; [|exact H].
  intros v [Hd|[e [He Hv]]]; [left; exact Hd|right].
  destruct He as [[s [-> Ho]]|[s [-> Ho]]]; simpl in Hv; inversion Hv; subst; exists s; (split; [reflexivity|]).
  - left. exact Ho.
  - destruct Ho as [Ho|Ho]; [left; left; exact Ho|right; exact Ho].
Qed.

(* auto mode: each delivered value is the value of evaluating an original string - and then the
   oracle says that string is an expression with that value - or the original string itself *)
Theorem auto_is_eval_or_raw_proof fx idok spec O argv stdin pos kw :
  parse fx idok spec MAuto O argv stdin = Ok (pos, kw) ->
  Forall (fun v => (exists a, v = VDefault a) \/
                   exists s, original argv stdin s /\
                             (v = VStr s \/ exists t, v = VObj t /\ O s = (Expr, RValue t)))
         (pos ++ map snd kw).
Proof.
  intros H. apply parse_provenance in H. eapply Forall_impl; [|exact H].
  intros v [Hd|[e [He Hv]]]; [left; exact Hd|right].
  destruct He as [[s [-> Ho]]|[s [-> Ho]]]; simpl in Hv; exists s.
  - split; [left; exact Ho|].
    destruct (O s) as [sy rr] eqn:Eo. destruct sy; try (inversion Hv; subst; left; reflexivity).
    destruct rr; inversion Hv; subst; [left; reflexivity|].
    right. exists v0. split; reflexivity.
  - inversion Hv; subst. split; [|left; reflexivity].
    destruct Ho as [Ho|Ho]; [left; left; exact Ho|right; exact Ho].
Qed.

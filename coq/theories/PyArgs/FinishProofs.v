(* What the part of _parse_auto_apply_args after the loop does with the positional expressions
   and the keyword dictionary: the delivered call binds under Python's rule, every keyword
   reaches the parameter of that name, positionals keep their places. *)
From Coq Require Import NArith Arith List Bool Lia.
From Verif Require Import Base.Chars Base.StrX Base.StrXProofs PyArgs.Parse PyArgs.BindSpec
                          PyArgs.DictProofs PyArgs.BindProofs PyArgs.ParseProofs.
Import ListNotations.

Section Finish.
Variable spec : argspec.
Variable O : oracle.

Lemma fill_args_spec names : forall gp kw vs g k,
  NoDup names -> NoDup (keys kw) ->
  fill_args spec O names gp kw = Ok (vs, g, k) ->
  length vs = length names /\ g = skipn (length names) gp /\ NoDup (keys k) /\
  (forall i e, nth_error gp i = Some e -> i < length names ->
               exists v, nth_error vs i = Some v /\ value O e = Ok v) /\
  (forall n e, dict_get n kw = Some e ->
       (In n names -> exists i v, nth_error names i = Some n /\ length gp <= i /\
                                  nth_error vs i = Some v /\ value O e = Ok v)
    /\ (~ In n names -> dict_get n k = Some e)) /\
  (forall n, In n (keys k) -> In n (keys kw) /\ ~ In n names).
Proof.
  induction names as [|a names IH]; intros gp kw vs g k Hnd Hkd H; simpl in H.
  - inversion H; subst. repeat split; auto.
    + intros i e _ Hi. simpl in Hi. lia.
    + intros [].
  - inversion Hnd as [|? ? Ha Hnd']; subst.
    destruct gp as [|e gp'].
    + destruct (dict_pop a kw) as [[e kw']|] eqn:Ep.
      * unfold dict_pop in Ep. destruct (dict_get a kw) as [e0|] eqn:Eg; [|discriminate].
        inversion Ep; subst e0 kw'. clear Ep.
        apply rbind_ok in H as [v [Hv H]]. apply rbind_ok in H as [[[vs' g'] k'] [Hr H]].
        inversion H; subst. clear H.
        destruct (IH _ _ _ _ _ Hnd' (keys_del_nodup a kw Hkd) Hr) as [L [G [K [P [D Q]]]]].
        split; [simpl; lia|]. split; [rewrite G; simpl; rewrite skipn_nil; reflexivity|]. split; [exact K|].
        split; [intros i e0 Hi; destruct i; discriminate|]. split.
        -- intros n e0 Hn. destruct (str_eq_dec n a) as [->|Hna].
           ++ rewrite Eg in Hn. inversion Hn; subst e0. split.
              ** intros _. exists 0, v. simpl. repeat split; auto.
              ** intros Hc. exfalso. apply Hc. left. reflexivity.
           ++ assert (Hn' : dict_get n (dict_del a kw) = Some e0) by (rewrite dict_get_del_other; assumption).
              destruct (D n e0 Hn') as [D1 D2]. split.
              ** intros [Hc|Hin]; [congruence|]. destruct (D1 Hin) as [i [v0 [H1 [H2 [H3 H4]]]]].
                 exists (S i), v0. simpl. repeat split; auto; simpl; lia.
              ** intros Hc. apply D2. intros Hin. apply Hc. right. exact Hin.
        -- intros n Hn. destruct (Q n Hn) as [Q1 Q2]. split; [apply (keys_del_incl a kw); exact Q1|].
           intros [<-|Hin]; [|contradiction].
           pose proof (dict_get_del_same a kw Hkd) as Hs. apply dict_get_none_key in Hs. contradiction.
      * destruct (has_default spec a); [|discriminate].
        apply rbind_ok in H as [[[vs' g'] k'] [Hr H]]. inversion H; subst. clear H.
        unfold dict_pop in Ep. destruct (dict_get a kw) as [e0|] eqn:Eg; [discriminate|].
        destruct (IH _ _ _ _ _ Hnd' Hkd Hr) as [L [G [K [P [D Q]]]]].
        split; [simpl; lia|]. split; [rewrite G; simpl; rewrite skipn_nil; reflexivity|]. split; [exact K|].
        split; [intros i e0 Hi; destruct i; discriminate|]. split.
        -- intros n e0 Hn. assert (Hna : n <> a) by (intros ->; congruence).
           destruct (D n e0 Hn) as [D1 D2]. split.
           ++ intros [Hc|Hin]; [congruence|]. destruct (D1 Hin) as [i [v0 [H1 [H2 [H3 H4]]]]].
              exists (S i), v0. simpl. repeat split; auto; simpl; lia.
           ++ intros Hc. apply D2. intros Hin. apply Hc. right. exact Hin.
        -- intros n Hn. destruct (Q n Hn) as [Q1 Q2]. split; [exact Q1|].
           intros [<-|Hin]; [|contradiction]. apply dict_get_none_key in Eg. contradiction.
    + destruct (dict_mem a kw) eqn:Em; [discriminate|]. apply dict_mem_false in Em.
      apply rbind_ok in H as [v [Hv H]]. apply rbind_ok in H as [[[vs' g'] k'] [Hr H]].
      inversion H; subst. clear H.
      destruct (IH _ _ _ _ _ Hnd' Hkd Hr) as [L [G [K [P [D Q]]]]].
      split; [simpl; lia|]. split; [rewrite G; reflexivity|]. split; [exact K|]. split; [|split].
      * intros i e0 Hi Hlt. destruct i as [|i]; simpl in *.
        -- inversion Hi; subst. exists v. split; [reflexivity|exact Hv].
        -- apply P; [exact Hi|lia].
      * intros n e0 Hn. assert (Hna : n <> a) by (intros ->; apply Em; eapply dict_get_some_key; exact Hn).
        destruct (D n e0 Hn) as [D1 D2]. split.
        -- intros [Hc|Hin]; [congruence|]. destruct (D1 Hin) as [i [v0 [H1 [H2 [H3 H4]]]]].
           exists (S i), v0. simpl. repeat split; auto; simpl; lia.
        -- intros Hc. apply D2. intros Hin. apply Hc. right. exact Hin.
      * intros n Hn. destruct (Q n Hn) as [Q1 Q2]. split; [exact Q1|].
        intros [<-|Hin]; contradiction.
Qed.

Lemma fill_kwonly_spec names : forall kw acc acc' k,
  NoDup names -> NoDup (keys kw) -> (forall n, In n names -> ~ In n (keys acc)) ->
  fill_kwonly spec O names kw acc = Ok (acc', k) ->
  keys acc' = keys acc ++ names /\ NoDup (keys k) /\
  (forall n v, dict_get n acc = Some v -> dict_get n acc' = Some v) /\
  (forall n e, dict_get n kw = Some e ->
       (In n names -> exists v, dict_get n acc' = Some v /\ value O e = Ok v)
    /\ (~ In n names -> dict_get n k = Some e)) /\
  (forall n, In n (keys k) -> In n (keys kw) /\ ~ In n names).
Proof.
  induction names as [|a names IH]; intros kw acc acc' k Hnd Hkd Hacc H; simpl in H.
  - inversion H; subst. rewrite app_nil_r. repeat split; auto. intros [].
  - inversion Hnd as [|? ? Ha Hnd']; subst.
    assert (Haa : ~ In a (keys acc)) by (apply Hacc; left; reflexivity).
    assert (Hks : forall v, keys (dict_set a v acc) = keys acc ++ [a]).
    { intros v. rewrite keys_set. destruct (mem_str a (keys acc)) eqn:E; [|reflexivity].
      apply mem_str_In' in E. contradiction. }
    assert (Hacc' : forall v n, In n names -> ~ In n (keys (dict_set a v acc))).
    { intros v n Hin. rewrite Hks. rewrite in_app_iff. intros [Hc|[Hc|[]]].
      - eapply Hacc; [right; exact Hin|exact Hc].
      - subst. contradiction. }
    assert (Hpres : forall v n v0, dict_get n acc = Some v0 -> dict_get n (dict_set a v acc) = Some v0).
    { intros v n v0 Hn. rewrite dict_get_set_other; [exact Hn|]. intros ->. apply Haa. eapply dict_get_some_key; exact Hn. }
    destruct (dict_pop a kw) as [[e kw']|] eqn:Ep.
    + unfold dict_pop in Ep. destruct (dict_get a kw) as [e0|] eqn:Eg; [|discriminate].
      inversion Ep; subst e0 kw'. clear Ep.
      apply rbind_ok in H as [v [Hv H]].
      destruct (IH _ _ _ _ Hnd' (keys_del_nodup a kw Hkd) (Hacc' v) H) as [K1 [K [Pr [D Q]]]].
      split; [rewrite K1, Hks, <- app_assoc; reflexivity|]. split; [exact K|]. split; [|split].
      * intros n v0 Hn. apply Pr. apply Hpres. exact Hn.
      * intros n e0 Hn. destruct (str_eq_dec n a) as [->|Hna].
        -- rewrite Eg in Hn. inversion Hn; subst e0. split.
           ++ intros _. exists v. split; [apply Pr; apply dict_get_set_same|exact Hv].
           ++ intros Hc. exfalso. apply Hc. left. reflexivity.
        -- assert (Hn' : dict_get n (dict_del a kw) = Some e0) by (rewrite dict_get_del_other; assumption).
           destruct (D n e0 Hn') as [D1 D2]. split.
           ++ intros [Hc|Hin]; [congruence|]. apply D1. exact Hin.
           ++ intros Hc. apply D2. intros Hin. apply Hc. right. exact Hin.
      * intros n Hn. destruct (Q n Hn) as [Q1 Q2]. split; [apply (keys_del_incl a kw); exact Q1|].
        intros [<-|Hin]; [|contradiction].
        pose proof (dict_get_del_same a kw Hkd) as Hs. apply dict_get_none_key in Hs. contradiction.
    + destruct (has_default spec a); [|discriminate].
      unfold dict_pop in Ep. destruct (dict_get a kw) as [e0|] eqn:Eg; [discriminate|].
      destruct (IH _ _ _ _ Hnd' Hkd (Hacc' (VDefault a)) H) as [K1 [K [Pr [D Q]]]].
      split; [rewrite K1, Hks, <- app_assoc; reflexivity|]. split; [exact K|]. split; [|split].
      * intros n v0 Hn. apply Pr. apply Hpres. exact Hn.
      * intros n e0 Hn. assert (Hna : n <> a) by (intros ->; congruence).
        destruct (D n e0 Hn) as [D1 D2]. split.
        -- intros [Hc|Hin]; [congruence|]. apply D1. exact Hin.
        -- intros Hc. apply D2. intros Hin. apply Hc. right. exact Hin.
      * intros n Hn. destruct (Q n Hn) as [Q1 Q2]. split; [exact Q1|].
        intros [<-|Hin]; [|contradiction]. apply dict_get_none_key in Eg. contradiction.
Qed.

Lemma fill_rest_spec items : forall acc acc',
  NoDup (keys items) ->
  fill_rest O items acc = Ok acc' ->
  (forall n, In n (keys acc') -> In n (keys acc) \/ In n (keys items)) /\
  (forall n, In n (keys acc) -> In n (keys acc')) /\
  (NoDup (keys acc) -> NoDup (keys acc')) /\
  (forall n e, dict_get n items = Some e -> exists v, dict_get n acc' = Some v /\ value O e = Ok v) /\
  (forall n, ~ In n (keys items) -> dict_get n acc' = dict_get n acc).
Proof.
  induction items as [|[n0 e0] r IH]; intros acc acc' Hnd H; simpl in H.
  - inversion H; subst. repeat split; auto. intros n e Hn. discriminate.
  - simpl in Hnd. inversion Hnd as [|? ? Hn0 Hnd']; subst.
    apply rbind_ok in H as [v0 [Hv0 H]].
    destruct (IH _ _ Hnd' H) as [K1 [K2 [K3 [D N]]]].
    assert (Hk : forall n, In n (keys (dict_set n0 v0 acc)) <-> In n (keys acc) \/ n = n0).
    { intros n. rewrite keys_set. destruct (mem_str n0 (keys acc)) eqn:E.
      - apply mem_str_In' in E. split; [auto|intros [Hc | -> ]; assumption].
      - rewrite in_app_iff. simpl. split; [intros [Hc|[Hc|[]]]; auto|intros [Hc|Hc]; auto]. }
    split; [|split; [|split; [|split]]].
    + intros n Hn. destruct (K1 n Hn) as [Hc|Hc]; [|right; right; exact Hc].
      apply Hk in Hc as [Hc | -> ]; [left; exact Hc|right; left; reflexivity].
    + intros n Hn. apply K2. apply Hk. left. exact Hn.
    + intros Hacc. apply K3. apply keys_set_nodup. exact Hacc.
    + intros n e Hn. simpl in Hn. destruct (str_eqb n n0) eqn:E.
      * apply str_eqb_eq in E. subst n. inversion Hn; subst e. exists v0. split; [|exact Hv0].
        rewrite (N n0 Hn0). apply dict_get_set_same.
      * apply D. exact Hn.
    + intros n Hn. simpl in Hn. rewrite N; [|intros Hc; apply Hn; right; exact Hc].
      apply dict_get_set_other. intros ->. apply Hn. left. reflexivity.
Qed.

Lemma values_spec l : forall vs, values O l = Ok vs ->
  length vs = length l /\
  forall i e, nth_error l i = Some e -> exists v, nth_error vs i = Some v /\ value O e = Ok v.
Proof.
  induction l as [|e r IH]; intros vs H; simpl in H.
  - inversion H. split; [reflexivity|]. intros i e Hi. destruct i; discriminate.
  - apply rbind_ok in H as [v [Hv H]]. apply rbind_ok in H as [vs' [Hr H]]. inversion H; subst.
    destruct (IH _ Hr) as [L P]. split; [simpl; lia|].
    intros i e0 Hi. destruct i as [|i]; simpl in *.
    + inversion Hi; subst. exists v. split; [reflexivity|exact Hv].
    + apply P. exact Hi.
Qed.

Lemma nth_error_skipn' {A} n (l : list A) j : nth_error (skipn n l) j = nth_error l (n + j).
Proof.
  revert l; induction n as [|n IH]; intros l; simpl; [reflexivity|].
  destruct l as [|a l]; [destruct j; reflexivity|apply IH].
Qed.

Lemma NoDup_app_l {A} (a b : list A) : NoDup (a ++ b) -> NoDup a.
Proof. induction a as [|x a IH]; simpl; intros H; [constructor|]. inversion H; subst. constructor; [intros Hc; apply H2; apply in_or_app; left; exact Hc|apply IH; assumption]. Qed.

Lemma NoDup_app_r {A} (a b : list A) : NoDup (a ++ b) -> NoDup b.
Proof. induction a as [|x a IH]; simpl; intros H; [exact H|]. inversion H; subst. apply IH. assumption. Qed.

Lemma NoDup_app_disj {A} (a b : list A) x : NoDup (a ++ b) -> In x a -> In x b -> False.
Proof.
  induction a as [|y a IH]; simpl; intros H Ha Hb; [destruct Ha|].
  inversion H; subst. destruct Ha as [->|Ha]; [apply H2; apply in_or_app; right; exact Hb|apply IH; assumption].
Qed.

(* The delivered call binds under Python's rule, keywords go to the parameter of their name
   (or into **kwargs), positionals keep their places. *)
Theorem finish_refines_bind gpos gkw pos kw :
  NoDup (args spec ++ kwonly spec) ->
  NoDup (keys gkw) ->
  (forall n, In n (keys gkw) -> In n (args spec ++ kwonly spec) \/ varkw spec = true) ->
  finish spec O gpos gkw = Ok (pos, kw) ->
  exists b, bind spec pos kw = Some b /\
    (forall n e, dict_get n gkw = Some e -> exists v, value O e = Ok v /\ bound_value b n = Some v) /\
    (forall i e, nth_error gpos i = Some e -> exists v, value O e = Ok v /\ nth_error pos i = Some v).
Proof.
  intros Hnd Hgk Hkv H. unfold finish in H.
  apply rbind_ok in H as [[[pvals extra] kw1] [H1 H]].
  apply rbind_ok in H as [[kacc kw2] [H2 H]].
  apply rbind_ok in H as [evals [H3 H]].
  apply rbind_ok in H as [kfinal [H4 H]]. inversion H; subst pos kw. clear H.
  pose proof (NoDup_app_l _ _ Hnd) as HndA. pose proof (NoDup_app_r _ _ Hnd) as HndK.
  destruct (fill_args_spec _ _ _ _ _ _ HndA Hgk H1) as [LA [GA [KA [PA [DA QA]]]]].
  assert (Hnil : forall n, In n (kwonly spec) -> ~ In n (@keys val [])) by (intros n _ []).
  destruct (fill_kwonly_spec _ _ _ _ _ HndK KA Hnil H2) as [KK [K2 [PrK [DK QK]]]].
  simpl in KK.
  pose proof (sort_items_keys_nodup kw2 K2) as Hsn.
  destruct (fill_rest_spec _ _ _ Hsn H4) as [R1 [R2 [R3 [DR NR]]]].
  assert (Hsk : forall n, In n (keys (sort_items kw2)) <-> In n (keys kw2)).
  { intros n. unfold keys. split; intros Hc.
    - eapply Permutation.Permutation_in; [apply Permutation.Permutation_map; apply sort_items_perm|exact Hc].
    - eapply Permutation.Permutation_in; [apply Permutation.Permutation_map; apply Permutation.Permutation_sym; apply sort_items_perm|exact Hc]. }
  assert (HE : (extra = [] /\ evals = []) \/ (varargs spec = true /\ values O extra = Ok evals)).
  { destruct extra as [|x extra']; [left; inversion H3; split; reflexivity|].
    right. destruct (varargs spec); [split; [reflexivity|exact H3]|discriminate]. }
  assert (HEV : length evals = length extra /\
                forall j e, nth_error extra j = Some e -> exists v, nth_error evals j = Some v /\ value O e = Ok v).
  { destruct HE as [[-> ->]|[_ Hv]]; [split; [reflexivity|intros j e Hj; destruct j; discriminate]|apply values_spec; exact Hv]. }
  destruct HEV as [LE PE].
  destruct (bind_full_call spec (pvals ++ evals) kfinal) as [b [Hb [B1 [B2 _]]]].
  - exact Hnd.
  - rewrite app_length. lia.
  - rewrite app_length. intros Hlt. destruct HE as [[_ ->]|[Hv _]]; [simpl in Hlt; lia|exact Hv].
  - apply R3. rewrite KK. exact HndK.
  - intros k Hk Hc. destruct (R1 k Hk) as [Hk1|Hk1].
    + rewrite KK in Hk1. eapply NoDup_app_disj; eassumption.
    + apply Hsk in Hk1. apply QK in Hk1 as [Hk1 _]. apply QA in Hk1 as [_ Hk1]. contradiction.
  - intros k Hk. apply R2. rewrite KK. exact Hk.
  - intros k Hk. destruct (R1 k Hk) as [Hk1|Hk1].
    + rewrite KK in Hk1. left. apply in_or_app. right. exact Hk1.
    + apply Hsk in Hk1. apply QK in Hk1 as [Hk1 _]. apply QA in Hk1 as [Hk1 _]. apply Hkv. exact Hk1.
  - exists b. split; [exact Hb|]. split.
    + intros n e Hn. destruct (DA n e Hn) as [DA1 DA2].
      destruct (in_dec str_eq_dec n (args spec)) as [HA|HA].
      * destruct (DA1 HA) as [i [v [Hi [_ [Hvi Hv]]]]]. exists v. split; [exact Hv|].
        eapply B1; [exact Hi|]. rewrite nth_error_app1; [exact Hvi|]. apply nth_error_Some. congruence.
      * pose proof (DA2 HA) as Hn1. destruct (DK n e Hn1) as [DK1 DK2].
        destruct (in_dec str_eq_dec n (kwonly spec)) as [HK|HK].
        -- destruct (DK1 HK) as [v [Hg Hv]]. exists v. split; [exact Hv|]. apply B2.
           rewrite NR; [exact Hg|]. intros Hc. apply Hsk in Hc. apply QK in Hc as [_ Hc]. contradiction.
        -- pose proof (DK2 HK) as Hn2. rewrite <- (sort_items_get kw2 n K2) in Hn2.
           destruct (DR n e Hn2) as [v [Hg Hv]]. exists v. split; [exact Hv|]. apply B2. exact Hg.
    + intros i e Hi. destruct (lt_dec i (length (args spec))) as [Hlt|Hge].
      * destruct (PA i e Hi Hlt) as [v [Hvi Hv]]. exists v. split; [exact Hv|].
        rewrite nth_error_app1; [exact Hvi|]. lia.
      * assert (Hj : nth_error extra (i - length (args spec)) = Some e).
        { rewrite GA, nth_error_skipn'. replace (length (args spec) + (i - length (args spec))) with i by lia. exact Hi. }
        destruct (PE _ _ Hj) as [v [Hvj Hv]]. exists v. split; [exact Hv|].
        rewrite nth_error_app2; [|lia]. rewrite LA. exact Hvj.
Qed.

End Finish.

(* C15 at the level of _parse_auto_apply_args as a whole: refinement of Python's binding rule,
   last occurrence wins, rejections. *)
From Coq Require Import NArith Arith List Bool Lia.
From Verif Require Import Base.Chars Base.StrX Base.StrXProofs PyArgs.Parse PyArgs.BindSpec
                          PyArgs.DictProofs PyArgs.BindProofs PyArgs.ParseProofs PyArgs.FinishProofs
                          PyArgs.ScanProofs.
Import ListNotations.

(* parameter names of a Python signature are pairwise different *)
Definition wf_spec (spec : argspec) : Prop := NoDup (args spec ++ kwonly spec).

Section Top.
Variable fx : bool.
Variable idok : str -> bool.
Variable spec : argspec.
Variable md : mode.
Variable O : oracle.

Notation scan' := (scan fx idok spec md).
Notation parse' := (parse fx idok spec md O).

Theorem refines_bind_proof argv stdin pos kw :
  wf_spec spec ->
  parse' argv stdin = Ok (pos, kw) ->
  exists gpos evs b,
    scan' argv stdin = SOk gpos evs /\
    bind spec pos kw = Some b /\
    (forall n e, dict_get n (dict_of evs) = Some e ->
                 exists v, value O e = Ok v /\ bound_value b n = Some v) /\
    (forall i e, nth_error gpos i = Some e -> exists v, value O e = Ok v /\ nth_error pos i = Some v).
Proof.
  intros Hwf H. unfold parse in H. destruct (scan' argv stdin) as [gpos evs|e] eqn:Es; [|discriminate].
  destruct (finish_refines_bind spec O gpos (dict_of evs) pos kw Hwf (dict_of_nodup evs)) as [b [Hb [H1 H2]]].
  - intros n Hn. apply dict_of_keys in Hn. eapply scan_keys; eassumption.
  - exact H.
  - exists gpos, evs, b. repeat split; assumption.
Qed.

(* the last assignment to a name is the one that reaches the parameter *)
Theorem last_occurrence_wins_proof argv stdin pos kw gpos evs1 p e evs2 :
  wf_spec spec ->
  parse' argv stdin = Ok (pos, kw) ->
  scan' argv stdin = SOk gpos (evs1 ++ (p, e) :: evs2) -> ~ In p (map fst evs2) ->
  exists b v, bind spec pos kw = Some b /\ value O e = Ok v /\ bound_value b p = Some v.
Proof.
  intros Hwf H Hs Hlast. destruct (refines_bind_proof argv stdin pos kw Hwf H) as [gpos' [evs' [b [Hs' [Hb [H1 _]]]]]].
  rewrite Hs in Hs'. inversion Hs'; subst gpos' evs'.
  destruct (H1 p e (dict_of_last evs1 evs2 p e Hlast)) as [v [Hv Hbv]].
  exists b, v. repeat split; assumption.
Qed.

(* the text of an option: (normalised name, has `=`, text after `=`) *)
Definition option_parts (a : str) : option (str * bool * str) :=
  if is_help_arg a || is_source_arg a || negb (starts_with s_dash a) || str_eqb a s_dash || str_eqb a s_dd
  then None
  else match partition_eq (if starts_with s_dd a then skipn 2 a else skipn 1 a) with
       | (n0, eq, v) => Some (dash_to_us n0, eq, v)
       end.

Lemma option_parts_name a n eq v : option_parts a = Some (n, eq, v) -> option_name a = Some (n, eq).
Proof.
  unfold option_parts, option_name.
  destruct (is_help_arg a || is_source_arg a || negb (starts_with s_dash a) || str_eqb a s_dash || str_eqb a s_dd); [discriminate|].
  destruct (partition_eq _) as [[n0 eq0] v0]. intros H. inversion H. reflexivity.
Qed.

(* `--name=value` (repaired code: also with an empty value): one assignment name := value,
   then the loop continues with the next argument *)
Theorem option_with_value_proof a rest sd n v p :
  fx = true ->
  option_parts a = Some (n, true, v) -> opt_target fx idok spec n true = inr p ->
  scan' (a :: rest) sd = add_ev p (mk md v) (scan' rest sd).
Proof.
  intros -> Ho Ht. unfold option_parts in Ho. rewrite scan_cons. cbv zeta.
  destruct (is_help_arg a); [discriminate|]. destruct (is_source_arg a); [discriminate|].
  destruct (starts_with s_dash a); [|discriminate].
  destruct (str_eqb a s_dash); [discriminate|]. destruct (str_eqb a s_dd); [discriminate|].
  simpl in Ho. destruct (partition_eq _) as [[n0 eq0] v0]. inversion Ho; subst. rewrite Ht. reflexivity.
Qed.

(* `--name value` / `-name value`: the next argument is the value, unless it starts with `--` *)
Theorem option_next_value_proof a w rest sd n v p :
  option_parts a = Some (n, false, v) -> opt_target fx idok spec n false = inr p ->
  scan' (a :: w :: rest) sd =
    if starts_with s_dd w then SStop (EParse MissingArg) else add_ev p (mk md w) (scan' rest sd).
Proof.
  intros Ho Ht. unfold option_parts in Ho. rewrite scan_cons. cbv zeta.
  destruct (is_help_arg a); [discriminate|]. destruct (is_source_arg a); [discriminate|].
  destruct (starts_with s_dash a); [|discriminate].
  destruct (str_eqb a s_dash); [discriminate|]. destruct (str_eqb a s_dd); [discriminate|].
  simpl in Ho. destruct (partition_eq _) as [[n0 eq0] v0] eqn:Ep. inversion Ho; subst.
  apply partition_eq_notfound in Ep as [-> _]. rewrite Ht.
  unfold take_next. destruct fx; reflexivity.
Qed.

(* where an option name goes *)
Theorem opt_target_sound n eq p :
  opt_target fx idok spec n eq = inr p ->
  (In p (params spec) /\ starts_with n p = true /\
     ((fx = true /\ p = n) \/ forall q, In q (params spec) -> starts_with n q = true -> q = p))
  \/ (p = n /\ varkw spec = true /\ forall q, n <> [] -> In q (params spec) -> starts_with n q = false).
Proof.
  unfold opt_target. destruct (idok n); simpl; [|discriminate].
  destruct (resolve fx spec n) as [p0| |] eqn:Er.
  - intros H. inversion H; subst. left. apply resolve_unique in Er as [_ [H1 [H2 H3]]]. repeat split; assumption.
  - destruct (negb eq && (str_eqb n s_help || str_eqb n s_h)); [discriminate|].
    destruct (negb eq && str_eqb n s_source); [discriminate|].
    destruct (varkw spec); simpl; [|discriminate]. intros H. inversion H; subst. right.
    repeat split. intros q Hn Hq. eapply resolve_none; eassumption.
  - discriminate.
Qed.

(* ---- rejections made by the loop ---- *)

Theorem rejects_option_proof pre a rest stdin g1 e1 n eq e :
  ~ In s_dd pre -> scan' pre stdin = SOk g1 e1 ->
  option_name a = Some (n, eq) -> opt_target fx idok spec n eq = inl e ->
  parse' (pre ++ a :: rest) stdin = Err e.
Proof.
  intros Hdd Hs Ho Ht. unfold parse.
  destruct (scan_app fx idok spec md pre stdin g1 e1 (a :: rest) Hdd Hs) as [sd' [_ Heq]].
  rewrite Heq. rewrite (scan_option_stop fx idok spec md a rest sd' n eq e Ho Ht). reflexivity.
Qed.

Lemma opt_target_ambiguous n eq p q :
  idok n = true -> n <> [] -> ~ In n (params spec) -> In p (params spec) -> In q (params spec) -> p <> q ->
  starts_with n p = true -> starts_with n q = true ->
  opt_target fx idok spec n eq = inl (EParse Ambiguous).
Proof.
  intros Hid Hn Hnot Hp Hq Hne Hsp Hsq. unfold opt_target. rewrite Hid. simpl.
  rewrite (resolve_ambiguous spec fx n p q); auto.
Qed.

Lemma filter_none {A} (f : A -> bool) l : (forall x, In x l -> f x = false) -> filter f l = [].
Proof.
  induction l as [|a l IH]; intros H; [reflexivity|]. simpl. rewrite (H a (or_introl eq_refl)).
  apply IH. intros x Hx. apply H. right. exact Hx.
Qed.

Lemma opt_target_unknown n eq :
  idok n = true -> (forall p, In p (params spec) -> starts_with n p = false) -> varkw spec = false ->
  (eq = true \/ (n <> s_help /\ n <> s_h /\ n <> s_source)) ->
  opt_target fx idok spec n eq = inl (EParse Unknown).
Proof.
  intros Hid Hnone Hvk Hh. unfold opt_target. rewrite Hid. simpl.
  assert (Hm : matches spec n = []) by (unfold matches; destruct n; [reflexivity|apply filter_none; exact Hnone]).
  unfold resolve. rewrite Hm. simpl. rewrite andb_false_r. rewrite Hvk. simpl.
  destruct Hh as [->|[H1 [H2 H3]]]; [reflexivity|].
  apply str_eqb_neq in H1, H2, H3. rewrite H1, H2, H3. simpl. rewrite !andb_false_r. reflexivity.
Qed.

Theorem rejects_ambiguous_prefix_proof pre a rest stdin g1 e1 n eq p q :
  ~ In s_dd pre -> scan' pre stdin = SOk g1 e1 ->
  option_name a = Some (n, eq) -> idok n = true -> n <> [] ->
  ~ In n (params spec) -> In p (params spec) -> In q (params spec) -> p <> q ->
  starts_with n p = true -> starts_with n q = true ->
  parse' (pre ++ a :: rest) stdin = Err (EParse Ambiguous).
Proof.
  intros Hdd Hs Ho Hid Hn Hnot Hp Hq Hne Hsp Hsq.
  eapply rejects_option_proof; [exact Hdd|exact Hs|exact Ho|].
  apply (opt_target_ambiguous n eq p q); assumption.
Qed.

Theorem rejects_unknown_option_proof pre a rest stdin g1 e1 n eq :
  ~ In s_dd pre -> scan' pre stdin = SOk g1 e1 ->
  option_name a = Some (n, eq) -> idok n = true ->
  (forall p, In p (params spec) -> starts_with n p = false) -> varkw spec = false ->
  (eq = true \/ (n <> s_help /\ n <> s_h /\ n <> s_source)) ->
  parse' (pre ++ a :: rest) stdin = Err (EParse Unknown).
Proof.
  intros Hdd Hs Ho Hid Hnone Hvk Hh.
  eapply rejects_option_proof; [exact Hdd|exact Hs|exact Ho|].
  apply opt_target_unknown; assumption.
Qed.

(* ---- rejections made after the loop ---- *)

Lemma rbind_not_ok {A B} (r : res A) (f : A -> res B) :
  (forall a, r = Ok a -> forall b, f a <> Ok b) -> forall b, rbind r f <> Ok b.
Proof. destruct r; simpl; intros H b; [apply H; reflexivity|discriminate]. Qed.

Lemma fill_args_both names : forall gp kw i a,
  nth_error names i = Some a -> i < length gp -> dict_mem a kw = true ->
  forall r, fill_args spec O names gp kw <> Ok r.
Proof.
  induction names as [|b names IH]; intros gp kw i a Hi Hlt Hm r; [destruct i; discriminate|].
  destruct gp as [|e gp']; [simpl in Hlt; lia|]. simpl.
  destruct i as [|i]; simpl in Hi.
  - inversion Hi; subst. rewrite Hm. discriminate.
  - destruct (dict_mem b kw); [discriminate|].
    apply rbind_not_ok. intros v _. apply rbind_not_ok. intros x Hx. exfalso.
    eapply IH; [exact Hi| |exact Hm|exact Hx]. simpl in Hlt. lia.
Qed.

Lemma fill_args_missing names : forall gp kw i a,
  NoDup names -> nth_error names i = Some a -> length gp <= i -> dict_get a kw = None -> has_default spec a = false ->
  forall r, fill_args spec O names gp kw <> Ok r.
Proof.
  induction names as [|b names IH]; intros gp kw i a Hnd Hi Hle Hg Hd r; [destruct i; discriminate|].
  inversion Hnd as [|? ? Hb Hnd']; subst. simpl.
  destruct gp as [|e gp'].
  - destruct i as [|i]; simpl in Hi.
    + inversion Hi; subst. unfold dict_pop. rewrite Hg, Hd. discriminate.
    + assert (Hab : a <> b) by (intros ->; apply Hb; eapply nth_error_In; exact Hi).
      unfold dict_pop. destruct (dict_get b kw) as [e|] eqn:Eg.
      * apply rbind_not_ok. intros v _. apply rbind_not_ok. intros x Hx. exfalso.
        eapply (IH [] (dict_del b kw) i a); [exact Hnd'|exact Hi|simpl; lia| |exact Hd|exact Hx].
        rewrite dict_get_del_other; assumption.
      * destruct (has_default spec b); [|discriminate]. simpl.
        apply rbind_not_ok. intros x Hx. exfalso.
        eapply (IH [] kw i a); [exact Hnd'|exact Hi|simpl; lia|exact Hg|exact Hd|exact Hx].
  - destruct i as [|i]; [simpl in Hle; lia|]. simpl in Hi, Hle.
    destruct (dict_mem b kw); [discriminate|].
    apply rbind_not_ok. intros v _. apply rbind_not_ok. intros x Hx. exfalso.
    eapply (IH gp' kw i a); [exact Hnd'|exact Hi|lia|exact Hg|exact Hd|exact Hx].
Qed.

Lemma fill_args_extra names : forall gp kw vs g k,
  fill_args spec O names gp kw = Ok (vs, g, k) -> g = skipn (length names) gp.
Proof.
  induction names as [|a names IH]; intros gp kw vs g k H; simpl in H.
  - inversion H. reflexivity.
  - destruct gp as [|e gp'].
    + destruct (dict_pop a kw) as [[e kw']|].
      * apply rbind_ok in H as [v [_ H]]. apply rbind_ok in H as [[[vs' g'] k'] [Hr H]]. inversion H; subst.
        apply IH in Hr. rewrite Hr. simpl. rewrite skipn_nil. reflexivity.
      * destruct (has_default spec a); [|discriminate].
        apply rbind_ok in H as [[[vs' g'] k'] [Hr H]]. inversion H; subst.
        apply IH in Hr. rewrite Hr. simpl. rewrite skipn_nil. reflexivity.
    + destruct (dict_mem a kw); [discriminate|].
      apply rbind_ok in H as [v [_ H]]. apply rbind_ok in H as [[[vs' g'] k'] [Hr H]]. inversion H; subst.
      apply IH in Hr. rewrite Hr. reflexivity.
Qed.

(* a parameter given both positionally and by name: never a successful call *)
Theorem rejects_both_proof argv stdin gpos evs i a :
  scan' argv stdin = SOk gpos evs ->
  nth_error (args spec) i = Some a -> i < length gpos -> dict_mem a (dict_of evs) = true ->
  forall r, parse' argv stdin <> Ok r.
Proof.
  intros Hs Hi Hlt Hm r. unfold parse. rewrite Hs. unfold finish.
  apply rbind_not_ok. intros x Hx. exfalso. eapply fill_args_both; eassumption.
Qed.

(* a required positional parameter that is given neither positionally nor by name *)
Theorem rejects_missing_proof argv stdin gpos evs i a :
  wf_spec spec ->
  scan' argv stdin = SOk gpos evs ->
  nth_error (args spec) i = Some a -> length gpos <= i -> dict_get a (dict_of evs) = None ->
  has_default spec a = false ->
  forall r, parse' argv stdin <> Ok r.
Proof.
  intros Hwf Hs Hi Hle Hg Hd r. unfold parse. rewrite Hs. unfold finish.
  apply rbind_not_ok. intros x Hx. exfalso.
  eapply fill_args_missing; [eapply NoDup_app_l; exact Hwf|exact Hi|exact Hle|exact Hg|exact Hd|exact Hx].
Qed.

(* more positional arguments than positional parameters and no *args *)
Theorem rejects_too_many_proof argv stdin gpos evs :
  scan' argv stdin = SOk gpos evs -> length (args spec) < length gpos -> varargs spec = false ->
  forall r, parse' argv stdin <> Ok r.
Proof.
  intros Hs Hlt Hv r. unfold parse. rewrite Hs. unfold finish.
  apply rbind_not_ok. intros [[pvals extra] kw1] Hx. apply rbind_not_ok. intros [kacc kw2] _.
  apply fill_args_extra in Hx. subst extra.
  destruct (skipn (length (args spec)) gpos) as [|x l] eqn:Es.
  - exfalso. assert (Hl : length (skipn (length (args spec)) gpos) = 0) by (rewrite Es; reflexivity).
    rewrite skipn_length in Hl. lia.
  - rewrite Hv. simpl. discriminate.
Qed.

End Top.

(* The command-line loop of _parse_auto_apply_args: name resolution (exact name, else unique
   prefix), the loop over a concatenation, `--`, the rejections raised by the loop, and the
   top-level refinement theorem. *)
From Coq Require Import NArith Arith List Bool Lia.
From Verif Require Import Base.Chars Base.StrX Base.StrXProofs PyArgs.Parse PyArgs.BindSpec
                          PyArgs.DictProofs PyArgs.BindProofs PyArgs.ParseProofs PyArgs.FinishProofs.
Import ListNotations.

(* ---------- name resolution ---------- *)

Section Resolve.
Variable spec : argspec.

Lemma matches_In n p : In p (matches spec n) <-> n <> [] /\ In p (params spec) /\ starts_with n p = true.
Proof.
  unfold matches. destruct n as [|c n].
  - split; [intros []|intros [H _]; congruence].
  - rewrite filter_In. split; [intros [H1 H2]; split; [discriminate|split; assumption]|intros [_ [H1 H2]]; split; assumption].
Qed.

Lemma starts_with_refl n : starts_with n n = true.
Proof. rewrite <- (app_nil_r n) at 2. apply starts_with_app. Qed.

(* an option name goes to a parameter only if it is that parameter's name (with the repair) or
   a prefix of it that no other parameter shares *)
Lemma resolve_unique fx n p :
  resolve fx spec n = TUnique p ->
  n <> [] /\ In p (params spec) /\ starts_with n p = true /\
  ((fx = true /\ p = n) \/ (forall q, In q (params spec) -> starts_with n q = true -> q = p)).
Proof.
  unfold resolve. destruct (fx && mem_str n (matches spec n)) eqn:E.
  - intros H. inversion H; subst p. apply andb_true_iff in E as [-> E]. apply mem_str_In in E.
    apply matches_In in E as [H1 [H2 H3]]. repeat split; auto.
  - destruct (matches spec n) as [|p0 [|q0 r]] eqn:Em; intros H; inversion H; subst p0.
    assert (Hin : In p (matches spec n)) by (rewrite Em; left; reflexivity).
    apply matches_In in Hin as [H1 [H2 H3]]. repeat split; auto. right.
    intros q Hq Hs. assert (Hq' : In q (matches spec n)) by (apply matches_In; repeat split; assumption).
    rewrite Em in Hq'. destruct Hq' as [->|[]]. reflexivity.
Qed.

(* with the repair, an exact parameter name always resolves to itself *)
Lemma resolve_exact n : In n (params spec) -> n <> [] -> resolve true spec n = TUnique n.
Proof.
  intros Hin Hn. unfold resolve.
  assert (Hm : mem_str n (matches spec n) = true).
  { apply mem_str_In. apply matches_In. repeat split; [exact Hn|exact Hin|apply starts_with_refl]. }
  rewrite Hm. reflexivity.
Qed.

Lemma filter_unique {A} (f : A -> bool) l p :
  NoDup l -> In p l -> f p = true -> (forall q, In q l -> f q = true -> q = p) -> filter f l = [p].
Proof.
  induction l as [|a l IH]; intros Hnd Hin Hp Hu; [destruct Hin|].
  inversion Hnd; subst. simpl. destruct Hin as [->|Hin].
  - rewrite Hp. f_equal.
    assert (G : forall l', (forall q, In q l' -> f q = true -> In q l) -> filter f l' = [] ).
    { induction l' as [|b l' IH']; intros Hl; [reflexivity|]. simpl. destruct (f b) eqn:Eb.
      - exfalso. assert (b = p) by (apply Hu; [right; apply Hl; [left; reflexivity|exact Eb]|exact Eb]).
        subst b. apply H1. apply Hl; [left; reflexivity|exact Eb].
      - apply IH'. intros q Hq Hfq. apply Hl; [right; exact Hq|exact Hfq]. }
    apply G. intros q Hq _. exact Hq.
  - destruct (f a) eqn:Ea.
    + exfalso. assert (a = p) by (apply Hu; [left; reflexivity|exact Ea]). subst a. contradiction.
    + apply IH; auto. intros q Hq. apply Hu. right. exact Hq.
Qed.

(* a prefix that exactly one parameter has resolves to that parameter *)
Lemma resolve_prefix fx n p :
  NoDup (params spec) -> n <> [] -> ~ In n (params spec) -> In p (params spec) -> starts_with n p = true ->
  (forall q, In q (params spec) -> starts_with n q = true -> q = p) ->
  resolve fx spec n = TUnique p.
Proof.
  intros Hnd Hn Hnot Hin Hs Hu. unfold resolve.
  assert (Hm : matches spec n = [p]).
  { unfold matches. destruct n as [|c n]; [congruence|]. apply filter_unique; assumption. }
  rewrite Hm. assert (Hf : mem_str n [p] = false).
  { apply mem_str_false. intros [->|[]]. contradiction. }
  rewrite Hf, andb_false_r. reflexivity.
Qed.

Lemma two_elements {A} (l : list A) p q : In p l -> In q l -> p <> q -> exists a b r, l = a :: b :: r.
Proof.
  intros Hp Hq Hne. destruct l as [|a [|b r]].
  - destruct Hp.
  - destruct Hp as [<-|[]]. destruct Hq as [<-|[]]. congruence.
  - exists a, b, r. reflexivity.
Qed.

(* a prefix shared by two different parameters, and not itself a parameter name, is ambiguous *)
Lemma resolve_ambiguous fx n p q :
  n <> [] -> ~ In n (params spec) -> In p (params spec) -> In q (params spec) -> p <> q ->
  starts_with n p = true -> starts_with n q = true ->
  resolve fx spec n = TAmbig.
Proof.
  intros Hn Hnot Hp Hq Hne Hsp Hsq. unfold resolve.
  assert (Hf : mem_str n (matches spec n) = false).
  { apply mem_str_false. intros Hc. apply matches_In in Hc as [_ [Hc _]]. contradiction. }
  rewrite Hf, andb_false_r.
  destruct (two_elements (matches spec n) p q) as [a [b [r ->]]]; auto; apply matches_In; repeat split; assumption.
Qed.

Lemma resolve_ambig_sound n :
  resolve true spec n = TAmbig -> ~ In n (params spec) /\ exists a b r, matches spec n = a :: b :: r.
Proof.
  unfold resolve. simpl. destruct (mem_str n (matches spec n)) eqn:E; [discriminate|].
  destruct (matches spec n) as [|a [|b r]] eqn:Em; try discriminate. intros _. split.
  - intros Hin. apply mem_str_false in E. apply E. rewrite <- Em. apply matches_In.
    assert (Hn : n <> []) by (intros ->; simpl in Em; discriminate).
    repeat split; [exact Hn|exact Hin|apply starts_with_refl].
  - exists a, b, r. reflexivity.
Qed.

Lemma resolve_none fx n p : resolve fx spec n = TNone -> n <> [] -> In p (params spec) -> starts_with n p = false.
Proof.
  unfold resolve. intros H Hn Hp. destruct (starts_with n p) eqn:Es; [|reflexivity]. exfalso.
  assert (Hin : In p (matches spec n)) by (apply matches_In; repeat split; assumption).
  destruct (fx && mem_str n (matches spec n)); [discriminate|].
  destruct (matches spec n) as [|a [|b r]]; [destruct Hin|discriminate|discriminate].
Qed.

End Resolve.

(* ---------- the loop ---------- *)

Section Scan.
Variable fx : bool.
Variable idok : str -> bool.
Variable spec : argspec.
Variable md : mode.

Notation scan' := (scan fx idok spec md).

Lemma opt_target_inr n eq name :
  opt_target fx idok spec n eq = inr name -> In name (params spec) \/ varkw spec = true.
Proof.
  unfold opt_target. destruct (idok n); simpl; [|discriminate].
  destruct (resolve fx spec n) as [p| |] eqn:Er.
  - intros H. inversion H; subst. left. apply resolve_unique in Er as [_ [Hin _]]. exact Hin.
  - destruct (negb eq && (str_eqb n s_help || str_eqb n s_h)); [discriminate|].
    destruct (negb eq && str_eqb n s_source); [discriminate|].
    destruct (varkw spec); simpl; [intros _; right; reflexivity|discriminate].
  - discriminate.
Qed.

(* every keyword the loop assigns is a parameter name, unless the function takes **kwargs *)
Lemma scan_keys argv : forall sd gpos evs,
  scan' argv sd = SOk gpos evs -> forall n, In n (map fst evs) -> In n (params spec) \/ varkw spec = true.
Proof.
  induction argv as [argv IH] using (well_founded_induction (Wf_nat.well_founded_ltof _ (@length str))).
  unfold Wf_nat.ltof in IH.
  intros sd gpos evs H. destruct argv as [|a rest].
  - simpl in H. inversion H; subst. intros n [].
  - rewrite scan_cons in H. cbv zeta in H.
    destruct (is_help_arg a); [discriminate|]. destruct (is_source_arg a); [discriminate|].
    destruct (starts_with s_dash a) eqn:Ed.
    + destruct (str_eqb a s_dash) eqn:E1.
      * apply add_pos_ok in H as [g [Hr ->]]. eapply IH; [|exact Hr]. simpl; lia.
      * destruct (str_eqb a s_dd) eqn:E2; [inversion H; subst; intros n []|].
        destruct (partition_eq _) as [[n0 eq] v] eqn:Ep. cbv beta iota in H.
        destruct (opt_target fx idok spec (dash_to_us n0) eq) as [e0|name] eqn:Eo; [discriminate|].
        apply opt_target_inr in Eo.
        destruct (take_next fx eq v) eqn:Et.
        -- destruct rest as [|w rest']; [discriminate|]. destruct (starts_with s_dd w); [discriminate|].
           apply add_ev_ok in H as [k [Hr ->]]. intros n [<-|Hn]; [exact Eo|].
           eapply IH; [|exact Hr|exact Hn]. simpl; lia.
        -- apply add_ev_ok in H as [k [Hr ->]]. intros n [<-|Hn]; [exact Eo|].
           eapply IH; [|exact Hr|exact Hn]. simpl; lia.
    + apply add_pos_ok in H as [g [Hr ->]]. eapply IH; [|exact Hr]. simpl; lia.
Qed.

Definition prepend (g1 : list uexpr) (e1 : list (str * uexpr)) (r : sres) : sres :=
  match r with SOk g e => SOk (g1 ++ g) (e1 ++ e) | SStop x => SStop x end.

Lemma add_pos_prepend e g1 e1 r : add_pos e (prepend g1 e1 r) = prepend (e :: g1) e1 r.
Proof. destruct r; reflexivity. Qed.
Lemma add_ev_prepend n e g1 e1 r : add_ev n e (prepend g1 e1 r) = prepend g1 ((n, e) :: e1) r.
Proof. destruct r; reflexivity. Qed.
Lemma prepend_nil r : prepend [] [] r = r.
Proof. destruct r; reflexivity. Qed.

(* reading a command line in two parts: if the first part has no `--` and is read completely,
   the loop carries on with the second part *)
Lemma scan_app pre : forall sd g1 e1 more,
  ~ In s_dd pre -> scan' pre sd = SOk g1 e1 ->
  exists sd', (sd' = sd \/ sd' = []) /\ scan' (pre ++ more) sd = prepend g1 e1 (scan' more sd').
Proof.
  induction pre as [pre IH] using (well_founded_induction (Wf_nat.well_founded_ltof _ (@length str))).
  unfold Wf_nat.ltof in IH.
  intros sd g1 e1 more Hdd H. destruct pre as [|a rest].
  - simpl in H. inversion H; subst. exists sd. split; [left; reflexivity|]. simpl. rewrite prepend_nil. reflexivity.
  - assert (Hdd' : ~ In s_dd rest) by (intros Hc; apply Hdd; right; exact Hc).
    assert (Ha : a <> s_dd) by (intros Hc; apply Hdd; left; exact Hc).
    rewrite <- app_comm_cons. rewrite scan_cons. rewrite scan_cons in H. cbv zeta in *.
    destruct (is_help_arg a); [discriminate|]. destruct (is_source_arg a); [discriminate|].
    destruct (starts_with s_dash a) eqn:Ed.
    + destruct (str_eqb a s_dash) eqn:E1.
      * apply add_pos_ok in H as [g [Hr ->]].
        destruct (IH rest ltac:(simpl; lia) [] g e1 more Hdd' Hr) as [sd' [Hsd Heq]].
        exists sd'. split; [right; destruct Hsd; assumption|]. rewrite Heq. apply add_pos_prepend.
      * destruct (str_eqb a s_dd) eqn:E2; [apply str_eqb_eq in E2; contradiction|].
        destruct (partition_eq _) as [[n0 eq] v] eqn:Ep. cbv beta iota in *.
        destruct (opt_target fx idok spec (dash_to_us n0) eq) as [e0|name] eqn:Eo; [discriminate|].
        destruct (take_next fx eq v) eqn:Et.
        -- destruct rest as [|w rest']; [discriminate|]. rewrite <- app_comm_cons.
           destruct (starts_with s_dd w); [discriminate|].
           apply add_ev_ok in H as [k [Hr ->]].
           assert (Hdd'' : ~ In s_dd rest') by (intros Hc; apply Hdd'; right; exact Hc).
           destruct (IH rest' ltac:(simpl; lia) sd g1 k more Hdd'' Hr) as [sd' [Hsd Heq]].
           exists sd'. split; [exact Hsd|]. rewrite Heq. apply add_ev_prepend.
        -- apply add_ev_ok in H as [k [Hr ->]].
           destruct (IH rest ltac:(simpl; lia) sd g1 k more Hdd' Hr) as [sd' [Hsd Heq]].
           exists sd'. split; [exact Hsd|]. rewrite Heq. apply add_ev_prepend.
    + apply add_pos_ok in H as [g [Hr ->]].
      destruct (IH rest ltac:(simpl; lia) sd g e1 more Hdd' Hr) as [sd' [Hsd Heq]].
      exists sd'. split; [exact Hsd|]. rewrite Heq. apply add_pos_prepend.
Qed.

(* everything after the first `--` becomes raw positional strings, in order, in every mode *)
Lemma scan_dashdash pre sd g1 e1 rest :
  ~ In s_dd pre -> scan' pre sd = SOk g1 e1 ->
  scan' (pre ++ s_dd :: rest) sd = SOk (g1 ++ map Raw rest) e1.
Proof.
  intros Hdd H. destruct (scan_app pre sd g1 e1 (s_dd :: rest) Hdd H) as [sd' [_ Heq]].
  rewrite Heq. rewrite scan_cons. cbv zeta.
  change (is_help_arg s_dd) with false. change (is_source_arg s_dd) with false.
  change (starts_with s_dash s_dd) with true. change (str_eqb s_dd s_dash) with false.
  change (str_eqb s_dd s_dd) with true. cbv iota. simpl. rewrite app_nil_r. reflexivity.
Qed.

(* the name part of an option argument (None: not an option) *)
Definition option_name (a : str) : option (str * bool) :=
  if is_help_arg a || is_source_arg a || negb (starts_with s_dash a) || str_eqb a s_dash || str_eqb a s_dd
  then None
  else match partition_eq (if starts_with s_dd a then skipn 2 a else skipn 1 a) with
       | (n0, eq, _) => Some (dash_to_us n0, eq)
       end.

Lemma scan_option_stop a rest sd n eq e :
  option_name a = Some (n, eq) -> opt_target fx idok spec n eq = inl e -> scan' (a :: rest) sd = SStop e.
Proof.
  unfold option_name. intros Ho Ht. rewrite scan_cons. cbv zeta.
  destruct (is_help_arg a); [discriminate|]. destruct (is_source_arg a); [discriminate|].
  destruct (starts_with s_dash a); [|discriminate].
  destruct (str_eqb a s_dash); [discriminate|]. destruct (str_eqb a s_dd); [discriminate|].
  simpl in Ho. destruct (partition_eq _) as [[n0 eq0] v]. inversion Ho; subst. rewrite Ht. reflexivity.
Qed.

End Scan.

(* C15 at the level of the `py` front end (PyArgs/Main.v): with an explicit arg mode the
   "function name + arguments" join is never tried; every call of a user function receives what
   _parse_auto_apply_args delivers for a sub-list of the command line; hence string identity
   (--safe / --args=string) and value-or-string (auto) end to end. *)
From Coq Require Import NArith Arith List Bool Lia String.
From Verif Require Import Base.Chars Base.StrX Base.StrXProofs PyArgs.Parse PyArgs.ParseProofs PyArgs.Main.
Local Open Scope list_scope.
Import ListNotations.

Section MainP.
Variable idok : str -> bool.
Variable O : oracle.
Variable E : env.
Variable stdin : str.

Lemma run_calls_in md fn k s avs c :
  In c (run_calls idok O stdin md fn k s avs) ->
  exists av, In av avs /\ c = (fn, av, apply_one idok O stdin md k s av).
Proof.
  induction avs as [|av r IH]; simpl; [intros []|].
  destruct (apply_one idok O stdin md k s av) eqn:Ea.
  - intros [<-|H]; [exists av; split; [left; reflexivity|rewrite Ea; reflexivity]|].
    destruct (IH H) as [av' [H1 H2]]. exists av'. split; [right; exact H1|exact H2].
  - intros [<-|[]]. exists av. split; [left; reflexivity|rewrite Ea; reflexivity].
Qed.

(* a case analysis principle for _run_action: a property of outcomes that holds for the leaves *)
Lemma pop_P (P : outcome -> Prop) eq cmdarg rest k :
  P OError -> (forall c r, incl r rest -> P (k c r)) -> P (pop eq cmdarg rest k).
Proof.
  intros He Hk. unfold pop. destruct eq; [apply Hk; apply incl_refl|].
  destruct rest as [|c r]; [exact He|apply Hk; apply incl_tl; apply incl_refl].
Qed.

Lemma run_module_P (P : outcome -> Prop) md m a :
  P OError -> P (OModule m a) -> P (run_module md m a).
Proof. intros He Hm. unfold run_module. destruct (mode_or md MString); auto. Qed.

Lemma run_action_cases (P : outcome -> Prop) dbg md args :
  (forall k w r, incl r args \/ r = [[]] -> P (OProgram k w (program_args O md r))) ->
  P OOther -> P OError -> (forall m a, incl a args -> P (OModule m a)) ->
  (forall fn r, incl r args -> P (apply_named idok O E stdin md fn [r])) ->
  (forall fn r, incl r args -> P (map_action idok O E stdin md fn r)) ->
  (forall arg0 rest, args = arg0 :: rest -> P (heuristic idok O E stdin dbg md arg0 rest)) ->
  P (run_action idok O E stdin dbg md args).
Proof.
  intros Hp Ho He Hm Ha Hmap Hh. unfold run_action. destruct args as [|arg0 rest].
  - destruct (e_isatty E); [exact Ho|apply Hp; right; reflexivity].
  - destruct (str_eqb arg0 s_dash); [destruct (e_isatty E); [exact Ho|apply Hp; left; apply incl_refl]|].
    destruct (is_blank arg0); [exact He|].
    destruct (action_of arg0) as [[act eq] cmdarg].
    destruct (isact act _); [apply pop_P; [exact He|intros c r Hr; apply Hp; left; apply incl_tl; exact Hr]|].
    destruct (isact act _); [apply pop_P; [exact He|intros c r Hr; apply Hp; left; apply incl_tl; exact Hr]|].
    destruct (isact act _); [apply pop_P; [exact He|intros c r Hr; apply Ha; apply incl_tl; exact Hr]|].
    destruct (isact act _); [apply pop_P; [exact He|intros c r Hr; apply Hmap; apply incl_tl; exact Hr]|].
    destruct (isact act _); [exact He|].
    destruct (isact act _); [apply pop_P; [exact He|intros c r Hr; apply run_module_P; [exact He|apply Hm; apply incl_tl; exact Hr]]|].
    destruct (starts_with _ arg0); [apply run_module_P; [exact He|apply Hm; apply incl_tl; apply incl_refl]|].
    destruct (isact act _); [exact Ho|].
    destruct (starts_with s_dash arg0); [exact He|].
    destruct (starts_with [c_q] arg0 || ends_with [c_q] arg0); [exact Ho|].
    destruct (starts_with _ arg0); [exact Ho|].
    apply Hh. reflexivity.
Qed.

(* ---- the join is tried only without an explicit arg mode ---- *)

Lemma apply_named_not_joined md fn avs t : apply_named idok O E stdin md fn avs <> OJoined t.
Proof. unfold apply_named. destruct avs; [discriminate|]. destruct (e_head E fn); discriminate. Qed.

Lemma map_action_not_joined md fn r t : map_action idok O E stdin md fn r <> OJoined t.
Proof.
  unfold map_action. destruct r as [|d r']; [apply apply_named_not_joined|].
  destruct (str_eqb d s_dd); apply apply_named_not_joined.
Qed.

Lemma apply_named_shape md fn avs :
  (exists l, apply_named idok O E stdin md fn avs = OCalls l) \/ apply_named idok O E stdin md fn avs = OError.
Proof.
  unfold apply_named. destruct avs; [left; eexists; reflexivity|].
  destruct (e_head E fn); [left; eexists; reflexivity|right; reflexivity|right; reflexivity].
Qed.

Lemma map_action_shape md fn r :
  (exists l, map_action idok O E stdin md fn r = OCalls l) \/ map_action idok O E stdin md fn r = OError.
Proof.
  unfold map_action. destruct r as [|d r']; [apply apply_named_shape|].
  destruct (str_eqb d s_dd); apply apply_named_shape.
Qed.

Lemma heuristic_joined dbg md arg0 args t :
  heuristic idok O E stdin dbg md arg0 args = OJoined t -> md = None.
Proof.
  unfold heuristic.
  destruct (e_filename E arg0); [discriminate|].
  destruct ((match args with [] => true | _ => false end) && e_isdigit E arg0); [destruct dbg; discriminate|].
  destruct md as [m|]; [|reflexivity].
  assert (Hf : (match args with [] => false | _ :: _ => false end) = false) by (destruct args; reflexivity).
  destruct args as [|a r]; cbv beta iota.
  - destruct (negb (e_parsable E arg0)); [discriminate|]. destruct (e_module E arg0).
    + unfold run_module. destruct (mode_or (Some m) MString); discriminate.
    + destruct (e_head E arg0); discriminate.
  - destruct (negb (e_parsable E arg0)); [discriminate|]. destruct (e_module E arg0).
    + unfold run_module. destruct r; [destruct (mem_str a _); [discriminate|]|]; destruct (mode_or (Some m) MString); discriminate.
    + destruct (e_head E arg0); discriminate.
Qed.

Theorem joined_only_without_mode_action dbg md args t :
  run_action idok O E stdin dbg md args = OJoined t -> md = None.
Proof.
  apply (run_action_cases (fun o => o = OJoined t -> md = None)); try discriminate.
  - intros fn r _ H. exfalso. eapply apply_named_not_joined; exact H.
  - intros fn r _ H. exfalso. eapply map_action_not_joined; exact H.
  - intros arg0 rest _ H. eapply heuristic_joined; exact H.
Qed.

(* ---- what is handed to _parse_auto_apply_args ---- *)

Definition calls_from (md : option mode) (args : list str) (o : outcome) : Prop :=
  match o with
  | OCalls l => forall fn av r, In (fn, av, r) l ->
                  incl av args /\ exists k s, r = apply_one idok O stdin md k s av
  | _ => True
  end.

Lemma apply_named_calls md fn avs args :
  (forall av, In av avs -> incl av args) -> calls_from md args (apply_named idok O E stdin md fn avs).
Proof.
  intros Hin. unfold apply_named. destruct avs as [|a0 r0]; [simpl; intros fn' av r []|].
  destruct (e_head E fn) as [k s| |]; unfold calls_from; auto.
  intros fn' av r Hc. apply run_calls_in in Hc as [av' [H1 H2]]. inversion H2; subst.
  split; [apply Hin; exact H1|exists k, s; reflexivity].
Qed.

Lemma map_action_calls md fn r args : incl r args -> calls_from md args (map_action idok O E stdin md fn r).
Proof.
  intros Hi. unfold map_action. destruct r as [|d r']; [apply apply_named_calls; intros av []|].
  destruct (str_eqb d s_dd) eqn:Ed; apply apply_named_calls; intros av Hav; apply in_map_iff in Hav as [x [<- Hx]].
  - apply str_eqb_eq in Ed. subst d. intros y [<-|[<-|[]]]; apply Hi; [left; reflexivity|right; exact Hx].
  - intros y [<-|[]]. apply Hi. exact Hx.
Qed.

Lemma heuristic_calls dbg md arg0 args : calls_from md args (heuristic idok O E stdin dbg md arg0 args).
Proof.
  unfold heuristic.
  destruct (e_filename E arg0); [exact I|].
  destruct ((match args with [] => true | _ => false end) && e_isdigit E arg0); [destruct dbg; exact I|].
  match goal with |- context[if ?b then OJoined _ else _] => destruct b end; [exact I|].
  destruct (negb (e_parsable E arg0)); [exact I|].
  destruct (e_module E arg0).
  - unfold run_module. destruct args as [|a [|b r]]; try (destruct (mode_or md MString); exact I).
    destruct (mem_str a _); [exact I|destruct (mode_or md MString); exact I].
  - destruct (e_head E arg0) as [k s| |]; try exact I. unfold calls_from.
    intros fn av r Hc. apply run_calls_in in Hc as [av' [[<-|[]] H2]]. inversion H2; subst.
    split; [apply incl_refl|exists k, s; reflexivity].
Qed.

Lemma calls_from_incl md a b o : incl a b -> calls_from md a o -> calls_from md b o.
Proof.
  intros Hi. destruct o; simpl; auto. intros H fn av r Hin. destruct (H fn av r Hin) as [H1 H2].
  split; [intros x Hx; apply Hi; apply H1; exact Hx|exact H2].
Qed.

Theorem run_action_calls dbg md args : calls_from md args (run_action idok O E stdin dbg md args).
Proof.
  apply (run_action_cases (calls_from md args)); try (intros; exact I).
  - intros fn r Hr. apply apply_named_calls. intros av [<-|[]]. exact Hr.
  - intros fn r Hr. apply map_action_calls. exact Hr.
  - intros arg0 rest ->. eapply calls_from_incl; [|apply heuristic_calls]. apply incl_tl. apply incl_refl.
Qed.

End MainP.

(* ---- _parse_global_opts ---- *)

Local Open Scope string_scope.
Local Open Scope list_scope.
Lemma global_opts_cons a rest dbg md :
  global_opts (a :: rest) dbg md =
      match global_name a with
      | None => GOk dbg md (a :: rest)
      | Some (n, eq, v) =>
          let novalue (k : gres) := if eq then GErr else k in
          if mem_str n (words ["interactive"; "i"]) then novalue (GOk dbg md rest)
          else if mem_str n (words ["debug"; "pdb"; "ipdb"; "dbg"; "d"]) then novalue (GOk true md rest)
          else if mem_str n (words ["verbose"; "quiet"; "q"]) then novalue (global_opts rest dbg md)
          else if mem_str n (words ["safe"]) then novalue (global_opts rest dbg (Some MString))
          else if mem_str n (words ["arguments"; "argument"; "args"; "arg"; "arg_mode"; "arg-mode"; "argmode"]) then
            (* self.arg_mode = _interpret_arg_mode(popvalue()) *)
            if eq then
              match interpret_arg_mode (Some (lower (strip v))) MAuto with
              | Some m => global_opts rest dbg (Some m)
              | None => GErr
              end
            else
              match rest with
              | [] => GErr
              | w :: rest' =>
                  match interpret_arg_mode (Some (lower (strip w))) MAuto with
                  | Some m => global_opts rest' dbg (Some m)
                  | None => GErr
                  end
              end
          else if mem_str n (words ["output"; "output_mode"; "output-mode"; "out"; "outmode"; "out_mode"; "out-mode"; "o"]) then
            (* self.output_mode = _interpret_output_mode(popvalue()): the value is consumed (its
               validity is not modelled) *)
            if eq then global_opts rest dbg md
            else match rest with [] => GErr | _ :: rest' => global_opts rest' dbg md end
          else if mem_str n (words ["print"; "pprint"; "silent"; "repr"]) then novalue (global_opts rest dbg md)
          else if mem_str n (words ["postmortem"]) then
            if mem_str (strip (lower v)) (words ["yes"; "y"; "always"; "true"; "t"; "1"; "enable"; "";
                                                  "no"; "n"; "never"; "false"; "f"; "0"; "disable";
                                                  "auto"; "automatic"; "default"; "if-tty"])
            then global_opts rest dbg md else GErr
          else if mem_str n (words ["no-postmortem"; "np"]) then novalue (global_opts rest dbg md)
          else if mem_str n (words ["add-deprecated-builtins"; "add_deprecated_builtins"]) then global_opts rest dbg md
          else GOk dbg md (a :: rest)
      end.
Proof. reflexivity. Qed.

Lemma global_opts_incl main : forall dbg md d m args,
  global_opts main dbg md = GOk d m args -> incl args main.
Proof.
  induction main as [main IH] using (well_founded_induction (Wf_nat.well_founded_ltof _ (@List.length str))).
  unfold Wf_nat.ltof in IH.
  intros dbg md d m args H. destruct main as [|a rest]; [simpl in H; inversion H; apply incl_refl|].
  rewrite global_opts_cons in H. destruct (global_name a) as [[[n eq] v]|]; [|inversion H; apply incl_refl].
  cbv zeta in H.
  assert (Hrest : forall dbg md, global_opts rest dbg md = GOk d m args -> incl args (a :: rest)).
  { intros dbg' md' H'. apply incl_tl. eapply IH; [|exact H']. simpl; lia. }
  assert (Hnov : forall k, (if eq then GErr else k) = GOk d m args -> k = GOk d m args).
  { intros k Hk. destruct eq; [discriminate|exact Hk]. }
  repeat match type of H with
         | (if mem_str n ?l then _ else _) = _ => destruct (mem_str n l)
         end.
  - apply Hnov in H. inversion H; subst. apply incl_tl. apply incl_refl.
  - apply Hnov in H. inversion H; subst. apply incl_tl. apply incl_refl.
  - apply Hnov in H. eapply Hrest; exact H.
  - apply Hnov in H. eapply Hrest; exact H.
  - destruct eq.
    + destruct (interpret_arg_mode _ _); [|discriminate]. eapply Hrest; exact H.
    + destruct rest as [|w rest']; [discriminate|].
      destruct (interpret_arg_mode _ _); [|discriminate].
      apply incl_tl. apply incl_tl. eapply IH; [|exact H]. simpl; lia.
  - destruct eq; [eapply Hrest; exact H|].
    destruct rest as [|w rest']; [discriminate|].
    apply incl_tl. apply incl_tl. eapply IH; [|exact H]. simpl; lia.
  - apply Hnov in H. eapply Hrest; exact H.
  - destruct (mem_str _ _); [|discriminate]. eapply Hrest; exact H.
  - apply Hnov in H. eapply Hrest; exact H.
  - eapply Hrest; exact H.
  - inversion H; subst. apply incl_refl.
Qed.

(* ---- end to end ---- *)

Lemma original_incl a b stdin s : incl a b -> original a stdin s -> original b stdin s.
Proof.
  intros Hi [[H|[x [H1 H2]]]|[H1 H2]].
  - left. left. apply Hi. exact H.
  - left. right. exists x. split; [apply Hi; exact H1|exact H2].
  - right. split; [apply Hi; exact H1|exact H2].
Qed.

Section EndToEnd.
Variable idok : str -> bool.
Variable O : oracle.
Variable E : env.
Variable stdin : str.

Lemma py_main_calls main l :
  py_main idok O E stdin main = OCalls l ->
  exists md, selected_mode main = Some md /\
    forall fn av r, In (fn, av, r) l -> incl av main /\ exists k s, r = apply_one idok O stdin md k s av.
Proof.
  unfold py_main, selected_mode. destruct (global_opts main false None) as [dbg md args|] eqn:Eg; [|discriminate].
  intros H. exists md. split; [reflexivity|]. intros fn av r Hin.
  pose proof (run_action_calls idok O E stdin dbg md args) as Hc. rewrite H in Hc.
  destruct (Hc fn av r Hin) as [H1 H2]. split; [|exact H2].
  intros x Hx. eapply global_opts_incl; [exact Eg|]. apply H1. exact Hx.
Qed.

(* --safe / --args=string: whatever form the command takes, every call of a user function receives
   the exact original strings of the command line (or the function's own defaults) *)
Theorem main_string_mode_identity_proof main l fn av pos kw :
  selected_mode main = Some (Some MString) ->
  py_main idok O E stdin main = OCalls l -> In (fn, av, Ok (pos, kw)) l ->
  Forall (fun v => (exists a, v = VDefault a) \/ exists s, v = VStr s /\ original main stdin s)
         (pos ++ map snd kw).
Proof.
  intros Hm H Hin. destruct (py_main_calls main l H) as [md [Hs Hc]]. rewrite Hm in Hs. inversion Hs; subst md.
  destruct (Hc fn av _ Hin) as [Hi [k [s Hr]]]. unfold apply_one in Hr. simpl in Hr. symmetry in Hr.
  apply string_mode_identity_proof in Hr. eapply Forall_impl; [|exact Hr].
  intros v [Hd|[x [Hv Ho]]]; [left; exact Hd|right]. exists x. split; [exact Hv|]. eapply original_incl; eassumption.
Qed.

(* auto mode (explicit --args=auto, or no arg mode and the command ends in a call): value or string *)
Theorem main_auto_mode_proof main md l fn av pos kw :
  selected_mode main = Some md -> md = None \/ md = Some MAuto ->
  py_main idok O E stdin main = OCalls l -> In (fn, av, Ok (pos, kw)) l ->
  Forall (fun v => (exists a, v = VDefault a) \/
                   exists s, original main stdin s /\
                             (v = VStr s \/ exists t, v = VObj t /\ O s = (Expr, RValue t)))
         (pos ++ map snd kw).
Proof.
  intros Hm Hmd H Hin. destruct (py_main_calls main l H) as [md' [Hs Hc]]. rewrite Hm in Hs. inversion Hs; subst md'.
  destruct (Hc fn av _ Hin) as [Hi [k [s Hr]]]. unfold apply_one in Hr.
  assert (Hmo : mode_or md MAuto = MAuto) by (destruct Hmd; subst; reflexivity).
  rewrite Hmo in Hr. symmetry in Hr.
  apply auto_is_eval_or_raw_proof in Hr. eapply Forall_impl; [|exact Hr].
  intros v [Hd|[x [Ho Hv]]]; [left; exact Hd|right]. exists x. split; [|exact Hv]. eapply original_incl; eassumption.
Qed.

(* with an explicit arg mode the command line is never glued into one program *)
Theorem joined_only_without_mode_proof main t :
  py_main idok O E stdin main = OJoined t -> selected_mode main = Some None.
Proof.
  unfold py_main, selected_mode. destruct (global_opts main false None) as [dbg md args|]; [|discriminate].
  intros H. apply joined_only_without_mode_action in H. subst. reflexivity.
Qed.

Lemma values_raw l : values O (map Raw l) = Ok (map VStr l).
Proof. induction l as [|a l IH]; simpl; [reflexivity|]. rewrite IH. reflexivity. Qed.

(* programs (--eval, a file, stdin) and modules run under a string mode (explicit, or none: string is
   their default) see the original strings as sys.argv *)
Ltac disc := let Hx := fresh in intros Hx; discriminate Hx.

Theorem main_string_programs_proof main md k w r :
  selected_mode main = Some md -> md = None \/ md = Some MString ->
  py_main idok O E stdin main = OProgram k w r ->
  exists args, r = Ok (map VStr args) /\ (incl args main \/ args = [[]]).
Proof.
  unfold py_main, selected_mode. destruct (global_opts main false None) as [dbg md' args|] eqn:Eg; [|discriminate].
  intros Hs Hmd H. inversion Hs; subst md'.
  assert (Hmo : mode_or md MString = MString) by (destruct Hmd; subst; reflexivity).
  assert (Hpa : forall a, program_args O md a = Ok (map VStr a)).
  { intros a. unfold program_args. rewrite Hmo. simpl. apply values_raw. }
  revert H.
  apply (run_action_cases idok O E stdin
           (fun o => o = OProgram k w r -> exists a, r = Ok (map VStr a) /\ (incl a main \/ a = [[]])));
    try discriminate.
  - intros k' w' r' Hr' H. inversion H; subst. exists r'. split; [apply Hpa|].
    destruct Hr' as [Hr'|Hr']; [left|right; exact Hr'].
    intros x Hx. eapply global_opts_incl; [exact Eg|]. apply Hr'. exact Hx.
  - intros fn r' _ H. destruct (apply_named_shape idok O E stdin md fn [r']) as [[l Hl]|Hl]; rewrite Hl in H; discriminate.
  - intros fn r' _ H. destruct (map_action_shape idok O E stdin md fn r') as [[l Hl]|Hl]; rewrite Hl in H; discriminate.
  - intros arg0 rest Ha H. revert H. unfold heuristic.
    destruct (e_filename E arg0).
    + intros H. inversion H; subst. exists rest. split; [apply Hpa|]. left.
      intros x Hx. eapply global_opts_incl; [exact Eg|]. right. exact Hx.
    + match goal with |- (if ?c then _ else _) = _ -> _ => destruct c end; [destruct dbg; disc|].
      match goal with |- context[if ?b then OJoined _ else _] => destruct b end; [disc|].
      destruct (negb (e_parsable E arg0)); [disc|].
      destruct (e_module E arg0).
      * unfold run_module. destruct rest as [|a [|b r0]]; try (destruct (mode_or md MString); disc).
        destruct (mem_str a _); [disc|destruct (mode_or md MString); disc].
      * destruct (e_head E arg0); disc.
Qed.

(* `python -m`-like runs always see the strings *)
Theorem main_module_args_proof main m a :
  py_main idok O E stdin main = OModule m a -> incl a main.
Proof.
  unfold py_main. destruct (global_opts main false None) as [dbg md args|] eqn:Eg; [|discriminate].
  apply (run_action_cases idok O E stdin (fun o => o = OModule m a -> incl a main)); try discriminate.
  - intros m' a' Hi H. inversion H; subst. intros x Hx. eapply global_opts_incl; [exact Eg|]. apply Hi. exact Hx.
  - intros fn r' _ H. destruct (apply_named_shape idok O E stdin md fn [r']) as [[l Hl]|Hl]; rewrite Hl in H; discriminate.
  - intros fn r' _ H. destruct (map_action_shape idok O E stdin md fn r') as [[l Hl]|Hl]; rewrite Hl in H; discriminate.
  - intros arg0 rest Ha. unfold heuristic.
    destruct (e_filename E arg0); [disc|].
    match goal with |- (if ?c then _ else _) = _ -> _ => destruct c end; [destruct dbg; disc|].
    match goal with |- context[if ?b then OJoined _ else _] => destruct b end; [disc|].
    destruct (negb (e_parsable E arg0)); [disc|].
    destruct (e_module E arg0).
    * assert (G : run_module md arg0 rest = OModule m a -> incl a main).
      { unfold run_module. destruct (mode_or md MString); try disc. intros H. inversion H; subst.
        intros x Hx. eapply global_opts_incl; [exact Eg|]. right. exact Hx. }
      destruct rest as [|a0 [|b r0]]; try exact G. destruct (mem_str a0 _); [discriminate|exact G].
    * destruct (e_head E arg0); disc.
Qed.

End EndToEnd.

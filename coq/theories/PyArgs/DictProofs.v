(* Facts about the insertion-ordered dictionaries of PyArgs/Parse.v. *)
From Coq Require Import NArith List Bool Lia Permutation.
From Verif Require Import Base.Chars Base.StrX Base.StrXProofs PyArgs.Parse.
Import ListNotations.

Definition keys {V} (d : dict V) : list str := map fst d.

Lemma str_eqb_neq a b : str_eqb a b = false <-> a <> b.
Proof.
  split.
  - intros H ->. rewrite str_eqb_refl in H. discriminate.
  - intros H. destruct (str_eqb a b) eqn:E; [|reflexivity]. apply str_eqb_eq in E. contradiction.
Qed.

Lemma str_eq_dec (a b : str) : {a = b} + {a <> b}.
Proof. destruct (str_eqb a b) eqn:E; [left; apply str_eqb_eq; exact E|right; apply str_eqb_neq; exact E]. Qed.

Lemma dict_get_some_key {V} k (d : dict V) v : dict_get k d = Some v -> In k (keys d).
Proof.
  induction d as [|[k' v'] r IH]; simpl; [discriminate|].
  destruct (str_eqb k k') eqn:E; [apply str_eqb_eq in E; subst; left; reflexivity|].
  intros H. right. apply IH. exact H.
Qed.

Lemma dict_get_none_key {V} k (d : dict V) : dict_get k d = None <-> ~ In k (keys d).
Proof.
  induction d as [|[k' v'] r IH]; simpl.
  - split; [intros _ []|reflexivity].
  - destruct (str_eqb k k') eqn:E.
    + apply str_eqb_eq in E. subst. split; [discriminate|]. intros H. exfalso. apply H. left. reflexivity.
    + apply str_eqb_neq in E. rewrite IH. split.
      * intros H [H1|H1]; [congruence|auto].
      * intros H H1. apply H. right. exact H1.
Qed.

Lemma dict_get_key_some {V} k (d : dict V) : In k (keys d) -> exists v, dict_get k d = Some v.
Proof.
  intros H. destruct (dict_get k d) as [v|] eqn:E; [exists v; reflexivity|].
  apply dict_get_none_key in E. contradiction.
Qed.

Lemma dict_mem_false {V} k (d : dict V) : dict_mem k d = false <-> ~ In k (keys d).
Proof. unfold dict_mem. rewrite <- dict_get_none_key. destruct (dict_get k d); split; congruence. Qed.

Lemma dict_get_nodup_in {V} k (v : V) d : NoDup (keys d) -> In (k, v) d -> dict_get k d = Some v.
Proof.
  induction d as [|[k' v'] r IH]; simpl; [intros _ []|].
  intros Hn [H|H].
  - inversion H; subst. rewrite str_eqb_refl. reflexivity.
  - inversion Hn; subst. destruct (str_eqb k k') eqn:E.
    + apply str_eqb_eq in E. subst. exfalso. apply H2. apply (in_map fst) in H. exact H.
    + apply IH; assumption.
Qed.

(* d[k] = v *)
Lemma dict_get_set_same {V} k (v : V) d : dict_get k (dict_set k v d) = Some v.
Proof.
  induction d as [|[k' v'] r IH]; simpl; [rewrite str_eqb_refl; reflexivity|].
  destruct (str_eqb k k') eqn:E; simpl; rewrite E; [reflexivity|exact IH].
Qed.

Lemma dict_get_set_other {V} k n (v : V) d : n <> k -> dict_get n (dict_set k v d) = dict_get n d.
Proof.
  intros Hn. induction d as [|[k' v'] r IH]; simpl.
  - apply str_eqb_neq in Hn. rewrite Hn. reflexivity.
  - destruct (str_eqb k k') eqn:E; simpl.
    + apply str_eqb_eq in E. subst. apply str_eqb_neq in Hn. rewrite Hn. reflexivity.
    + rewrite IH. reflexivity.
Qed.

Lemma keys_set {V} k (v : V) d :
  keys (dict_set k v d) = if mem_str k (keys d) then keys d else keys d ++ [k].
Proof.
  induction d as [|[k' v'] r IH]; simpl; [reflexivity|].
  destruct (str_eqb k k') eqn:E; simpl; [reflexivity|].
  rewrite IH. unfold mem_str. destruct (existsb (str_eqb k) (keys r)); reflexivity.
Qed.

Lemma NoDup_snoc {A} (l : list A) x : NoDup l -> ~ In x l -> NoDup (l ++ [x]).
Proof.
  induction l as [|y l IH]; simpl; intros Hn Hx.
  - constructor; [intros []|constructor].
  - inversion Hn; subst. constructor.
    + rewrite in_app_iff. intros [H|[H|[]]]; [contradiction|subst; apply Hx; left; reflexivity].
    + apply IH; [assumption|]. intros H. apply Hx. right. exact H.
Qed.

Lemma mem_str_In' s l : mem_str s l = true <-> In s l.
Proof.
  unfold mem_str. rewrite existsb_exists. split.
  - intros [x [Hx He]]. apply str_eqb_eq in He. subst. exact Hx.
  - intros H. exists s. split; [exact H|apply str_eqb_refl].
Qed.

Lemma keys_set_nodup {V} k (v : V) d : NoDup (keys d) -> NoDup (keys (dict_set k v d)).
Proof.
  intros H. rewrite keys_set. destruct (mem_str k (keys d)) eqn:E; [exact H|].
  apply NoDup_snoc; [exact H|]. intros Hin. apply mem_str_In' in Hin. congruence.
Qed.

Lemma dict_of_nodup {V} (evs : list (str * V)) : NoDup (keys (dict_of evs)).
Proof.
  unfold dict_of.
  assert (G : forall d, NoDup (keys d) -> NoDup (keys (fold_left (fun d kv => dict_set (fst kv) (snd kv) d) evs d))).
  { induction evs as [|[k v] r IH]; intros d Hd; simpl; [exact Hd|]. apply IH. apply keys_set_nodup. exact Hd. }
  apply G. constructor.
Qed.

(* the assignments replayed: the last one to a key is what the dictionary holds *)
Lemma dict_of_last {V} (evs1 evs2 : list (str * V)) n e :
  ~ In n (map fst evs2) -> dict_get n (dict_of (evs1 ++ (n, e) :: evs2)) = Some e.
Proof.
  unfold dict_of. intros Hn. rewrite fold_left_app. simpl.
  generalize (fold_left (fun d kv => dict_set (fst kv) (snd kv) d) evs1 []). intros d.
  assert (G : forall d, dict_get n d = Some e ->
              dict_get n (fold_left (fun d kv => dict_set (fst kv) (snd kv) d) evs2 d) = Some e).
  { induction evs2 as [|[k v] r IH]; intros d0 Hd; simpl; [exact Hd|].
    apply IH; [intros H; apply Hn; right; exact H|].
    rewrite dict_get_set_other; [exact Hd|]. intros ->. apply Hn. left. reflexivity. }
  apply G. apply dict_get_set_same.
Qed.

Lemma dict_of_keys {V} (evs : list (str * V)) n : In n (keys (dict_of evs)) -> In n (map fst evs).
Proof.
  unfold dict_of.
  assert (G : forall d, In n (keys (fold_left (fun d kv => dict_set (fst kv) (snd kv) d) evs d)) ->
                        In n (keys d) \/ In n (map fst evs)).
  { induction evs as [|[k v] r IH]; intros d H; simpl in *; [left; exact H|].
    destruct (IH _ H) as [H1|H1]; [|right; right; exact H1].
    rewrite keys_set in H1. destruct (mem_str k (keys d)); [left; exact H1|].
    apply in_app_iff in H1 as [H1|[H1|[]]]; [left; exact H1|right; left; exact H1]. }
  intros H. destruct (G [] H) as [[]|H1]. exact H1.
Qed.

(* del d[k] *)
Lemma dict_get_del_other {V} k n (d : dict V) : n <> k -> dict_get n (dict_del k d) = dict_get n d.
Proof.
  intros Hn. induction d as [|[k' v'] r IH]; simpl; [reflexivity|].
  destruct (str_eqb k k') eqn:E; simpl.
  - apply str_eqb_eq in E. subst. apply str_eqb_neq in Hn. rewrite Hn. reflexivity.
  - rewrite IH. reflexivity.
Qed.

Lemma keys_del_incl {V} k (d : dict V) : incl (keys (dict_del k d)) (keys d).
Proof.
  induction d as [|[k' v'] r IH]; simpl; [apply incl_refl|].
  destruct (str_eqb k k'); simpl; [apply incl_tl; apply incl_refl|].
  intros x [H|H]; [left; exact H|right; apply IH; exact H].
Qed.

Lemma keys_del_nodup {V} k (d : dict V) : NoDup (keys d) -> NoDup (keys (dict_del k d)).
Proof.
  induction d as [|[k' v'] r IH]; simpl; intros H; [exact H|].
  inversion H; subst. destruct (str_eqb k k'); simpl; [assumption|].
  constructor; [|apply IH; assumption]. intros Hin. apply H2. apply (keys_del_incl k r). exact Hin.
Qed.

Lemma dict_get_del_same {V} k (d : dict V) : NoDup (keys d) -> dict_get k (dict_del k d) = None.
Proof.
  induction d as [|[k' v'] r IH]; simpl; intros H; [reflexivity|].
  inversion H; subst. destruct (str_eqb k k') eqn:E; simpl.
  - apply str_eqb_eq in E. subst. apply dict_get_none_key. assumption.
  - rewrite E. apply IH. assumption.
Qed.

(* sorted(d.items()) *)
Lemma insert_sorted_perm {V} (kv : str * V) l : Permutation.Permutation (insert_sorted kv l) (kv :: l).
Proof.
  induction l as [|kv' r IH]; simpl; [apply Permutation.Permutation_refl|].
  destruct (str_ltb (fst kv') (fst kv)); [|apply Permutation.Permutation_refl].
  eapply Permutation.perm_trans; [apply Permutation.perm_skip; exact IH|apply Permutation.perm_swap].
Qed.

Lemma sort_items_perm {V} (d : dict V) : Permutation.Permutation (sort_items d) d.
Proof.
  induction d as [|kv r IH]; simpl; [constructor|].
  eapply Permutation.perm_trans; [apply insert_sorted_perm|apply Permutation.perm_skip; exact IH].
Qed.

Lemma sort_items_keys_nodup {V} (d : dict V) : NoDup (keys d) -> NoDup (keys (sort_items d)).
Proof.
  intros H. eapply Permutation.Permutation_NoDup; [|exact H].
  apply Permutation.Permutation_sym. apply Permutation.Permutation_map. apply sort_items_perm.
Qed.

Lemma sort_items_get {V} (d : dict V) n : NoDup (keys d) -> dict_get n (sort_items d) = dict_get n d.
Proof.
  intros Hn. destruct (dict_get n d) as [v|] eqn:E.
  - apply dict_get_nodup_in; [apply sort_items_keys_nodup; exact Hn|].
    eapply Permutation.Permutation_in; [apply Permutation.Permutation_sym; apply sort_items_perm|].
    clear Hn. induction d as [|[k' v'] r IH]; simpl in *; [discriminate|].
    destruct (str_eqb n k') eqn:E1; [apply str_eqb_eq in E1; inversion E; subst; left; reflexivity|right; apply IH; exact E].
  - apply dict_get_none_key. apply dict_get_none_key in E. intros H. apply E.
    unfold keys in *. eapply Permutation.Permutation_in; [apply Permutation.Permutation_map; apply sort_items_perm|exact H].
Qed.

Lemma dict_get_app {V} n (a b : dict V) :
  dict_get n (a ++ b) = match dict_get n a with Some v => Some v | None => dict_get n b end.
Proof.
  induction a as [|[k v] r IH]; simpl; [reflexivity|]. destruct (str_eqb n k); [reflexivity|exact IH].
Qed.

Lemma dict_get_filter_key {V} (p : str -> bool) n (d : dict V) :
  p n = true -> dict_get n (filter (fun kv => p (fst kv)) d) = dict_get n d.
Proof.
  intros Hp. induction d as [|[k v] r IH]; simpl; [reflexivity|].
  destruct (p k) eqn:E; simpl.
  - destruct (str_eqb n k); [reflexivity|exact IH].
  - destruct (str_eqb n k) eqn:E1; [apply str_eqb_eq in E1; congruence|exact IH].
Qed.

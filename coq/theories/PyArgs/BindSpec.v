(* M13 (specification side): Python's call-binding rule, i.e. what
   inspect.signature(f).bind( *pos, **kw ) followed by apply_defaults() computes for a signature
   made of positional-or-keyword parameters (the last ndefaults of them with defaults), an
   optional *args, keyword-only parameters (some with defaults) and an optional **kwargs.
   Written from the language reference ("Calls"), not from _parse_auto_apply_args: it is
   parameter-centred and declarative, and shares only the data types with Parse.v.
   Tied to CPython by the correspondence (harness/c15.py, kind "bind").  No proofs here. *)
From Coq Require Import NArith Arith List Bool.
From Verif Require Import Base.Chars Base.StrX PyArgs.Parse.
Import ListNotations.

Inductive slot :=
| Given (v : val)      (* bound to an argument of the call *)
| UseDefault.          (* not supplied: the function's own default applies *)

Record bound := mkBound {
  b_named : list (str * slot);   (* every named parameter, in signature order *)
  b_star : list val;             (* *args *)
  b_dstar : dict val }.          (* **kwargs, in call order *)

Fixpoint distinct_keys {V} (d : dict V) : bool :=
  match d with
  | [] => true
  | (k, _) :: r => negb (mem_str k (map fst r)) && distinct_keys r
  end.

(* positional-or-keyword parameters, the i-th one and onwards: the next positional argument,
   else the keyword of that name, else the default when the parameter has one *)
Fixpoint bind_pos (first_default i : nat) (names : list str) (pos : list val) (kw : dict val)
  : option (list (str * slot)) :=
  match names with
  | [] => Some []
  | p :: names' =>
      let s := match pos with
               | v :: _ => Some (Given v)
               | [] => match dict_get p kw with
                       | Some v => Some (Given v)
                       | None => if (first_default <=? i)%nat then Some UseDefault else None
                       end
               end in
      match s, bind_pos first_default (S i) names' (tl pos) kw with
      | Some s, Some r => Some ((p, s) :: r)
      | _, _ => None
      end
  end.

(* keyword-only parameters: the keyword of that name, else the default *)
Fixpoint bind_kwonly (withdefault : list str) (names : list str) (kw : dict val)
  : option (list (str * slot)) :=
  match names with
  | [] => Some []
  | p :: names' =>
      let s := match dict_get p kw with
               | Some v => Some (Given v)
               | None => if mem_str p withdefault then Some UseDefault else None
               end in
      match s, bind_kwonly withdefault names' kw with
      | Some s, Some r => Some ((p, s) :: r)
      | _, _ => None
      end
  end.

Definition bind (spec : argspec) (pos : list val) (kw : dict val) : option bound :=
  let a := args spec in
  let np := length pos in
  (* TypeError: too many positional arguments *)
  if (length a <? np)%nat && negb (varargs spec) then None
  (* a call cannot pass one keyword twice *)
  else if negb (distinct_keys kw) then None
  (* TypeError: multiple values for argument *)
  else if existsb (fun k => mem_str k (firstn np a)) (map fst kw) then None
  else
    let extra := filter (fun kv => negb (mem_str (fst kv) (a ++ kwonly spec))) kw in
    (* TypeError: got an unexpected keyword argument *)
    if (match extra with [] => false | _ => true end) && negb (varkw spec) then None
    else
      (* TypeError: missing a required argument *)
      match bind_pos (length a - ndefaults spec) 0 a pos kw,
            bind_kwonly (kwdefaults spec) (kwonly spec) kw with
      | Some n1, Some n2 => Some (mkBound (n1 ++ n2) (skipn (length a) pos) extra)
      | _, _ => None
      end.

(* the value parameter n ends up with (a **kwargs entry for other names) *)
Definition bound_value (b : bound) (n : str) : option val :=
  match dict_get n (b_named b) with
  | Some (Given v) => Some v
  | Some UseDefault => Some (VDefault n)
  | None => dict_get n (b_dstar b)
  end.

(* Entry points evaluated by the correspondence harness (harness/c15.py). *)
From Coq Require Import NArith List String Bool.
From Verif Require Import Base.Chars Base.StrX Base.Show PyArgs.Parse PyArgs.BindSpec.
Import ListNotations.
Local Open Scope string_scope.

Definition show_val (v : val) : string :=
  match v with
  | VStr s => show_obj [("s", show_str s)]
  | VObj t => show_obj [("v", show_str t)]
  | VDefault a => show_obj [("d", show_str a)]
  end.

Definition show_perr (k : perr) : string :=
  match k with
  | InvalidName => "invalid" | Unknown => "unknown" | Ambiguous => "ambiguous"
  | MissingArg => "missingarg" | Both => "both" | MissingRequired => "missing"
  | MissingKwonly => "missingkw" | TooMany => "toomany" | BadValue => "badvalue"
  end.

Definition show_err (e : err) : string :=
  match e with
  | EHelp => show_obj [("err", show_string "help")]
  | ESource => show_obj [("err", show_string "source")]
  | EParse k => show_obj [("err", show_string "parse"); ("kind", show_string (show_perr k))]
  | EExit c => show_obj [("err", show_string "exit"); ("code", show_str c)]
  end.

Definition show_kw (d : dict val) : string := show_list (show_pair show_str show_val) d.

Definition show_res (r : res (list val * dict val)) : string :=
  match r with
  | Ok (p, k) => show_obj [("pos", show_list show_val p); ("kw", show_kw k)]
  | Err e => show_err e
  end.

(* the oracle as a finite table (every string the case can ask about is in it; the harness
   checks that); a string outside the table shows as a recognisable value *)
Definition syn_of (n : N) : syn := match n with 0%N => Blank | 1%N => NotExpr | _ => Expr end.
Definition run_of (n : N) (payload : str) : runres :=
  match n with 0%N => RUnimportable | 1%N => RError | 2%N => RValue payload | _ => RExit payload end.
Fixpoint table_oracle (t : list (str * (N * N * str))) (s : str) : syn * runres :=
  match t with
  | [] => (Expr, RValue (dec "<not in the oracle table>"))
  | (k, (a, b, p)) :: r => if str_eqb s k then (syn_of a, run_of b p) else table_oracle r s
  end.

Definition mode_of (n : N) : mode := match n with 0%N => MString | 1%N => MEval | _ => MAuto end.
Definition kind_of (n : N) : callable_kind := match n with 0%N => KFunction | 1%N => KDropFirst | _ => KOpaque end.

(* _parse_auto_apply_args(_get_argspec(f), argv, ns, mode) *)
Definition run_parse (fx : bool) (xs xc : list ch) (k : N) (spec : argspec) (md : N) (argv : list str)
                     (stdin : str) (t : list (str * (N * N * str))) : string :=
  show_res (parse fx (is_identifier xs xc) (get_argspec (kind_of k) spec) (mode_of md)
                  (table_oracle t) argv stdin).

Definition val_of (p : N * str) : val :=
  match fst p with 0%N => VStr (snd p) | 1%N => VObj (snd p) | _ => VDefault (snd p) end.

Definition show_slot (s : slot) : string :=
  match s with Given v => show_val v | UseDefault => "null" end.

(* inspect.signature(f).bind( *pos, **kw ) *)
Definition run_bind (spec : argspec) (pos : list (N * str)) (kw : list (str * (N * str))) : string :=
  match bind spec (map val_of pos) (map (fun kv => (fst kv, val_of (snd kv))) kw) with
  | None => "null"
  | Some b => show_obj [("named", show_list (show_pair show_str show_slot) (b_named b));
                        ("star", show_list show_val (b_star b));
                        ("dstar", show_kw (b_dstar b))]
  end.

Definition run_arg_mode (arg : option str) (default : N) : string :=
  match interpret_arg_mode arg (mode_of default) with
  | None => "null"
  | Some MString => show_string "string"
  | Some MEval => show_string "eval"
  | Some MAuto => show_string "auto"
  end.

(* ---------- the _PyMain front end ---------- *)
From Verif Require Import PyArgs.Main.

Definition show_strs (l : list str) : string := show_list show_str l.

Definition show_vals (r : res (list val)) : string :=
  match r with
  | Ok vs => show_obj [("ok", show_list show_val vs)]
  | Err e => show_err e
  end.

Definition show_pkind (k : pkind) : string :=
  match k with PEval => "eval" | PFile => "file" | PStdin => "stdin" end.

Definition show_outcome (o : outcome) : string :=
  match o with
  | OCalls l => show_obj [("kind", show_string "calls");
                          ("calls", show_list (fun c => match c with (fn, av, r) =>
                              show_obj [("fn", show_str fn); ("argv", show_strs av); ("res", show_res r)] end) l)]
  | OProgram k w a => show_obj [("kind", show_string "program"); ("pk", show_string (show_pkind k));
                                ("what", show_str w); ("argv", show_vals a)]
  | OJoined t => show_obj [("kind", show_string "joined"); ("text", show_str t)]
  | OModule m a => show_obj [("kind", show_string "module"); ("m", show_str m); ("args", show_strs a)]
  | ONotCallable => show_obj [("kind", show_string "notcallable")]
  | OOther => show_obj [("kind", show_string "other")]
  | OError => show_obj [("kind", show_string "error")]
  end.

Fixpoint head_table (t : list (str * (N * N * argspec))) (s : str) : headres :=
  match t with
  | [] => HFails
  | (k, (tag, ck, sp)) :: r =>
      if str_eqb s k then match tag with 0%N => HCallable (kind_of ck) sp | 1%N => HNotCallable | _ => HFails end
      else head_table r s
  end.

(* _PyMain(main_args).run() *)
Definition run_main (xs xc : list ch) (isatty : bool) (filenames joinok parsable modules digits : list str)
                    (heads : list (str * (N * N * argspec))) (stdin : str)
                    (t : list (str * (N * N * str))) (main_args : list str) : string :=
  show_outcome (py_main (is_identifier xs xc) (table_oracle t)
                        (mkEnv isatty (fun s => mem_str s filenames) (fun s => mem_str s joinok)
                               (fun s => mem_str s parsable) (fun s => mem_str s modules)
                               (head_table heads) (fun s => mem_str s digits))
                        stdin main_args).

(* M13: pyflyby._py._parse_auto_apply_args + the mode logic of UserExpr (value / _infer_and_evaluate)
   + _Namespace.auto_eval's outcome classes.  Model only; proofs are in ParseProofs.v.

   What comes from outside the code's own logic is an argument:
     idok   : pyflyby._idents.is_identifier on the (normalised) option name
     O      : the expression-evaluation oracle (CPython's parser, the auto-importer, eval)
     stdin  : what sys.stdin.read() returns on the first `-`
   The flag [fx] selects the code after the F13 repair (fx = true: the tree the framework agrees
   on) or the code before it (fx = false; kept to state what the defect was, see legacy_* in
   ParseProofs.v). *)
From Coq Require Import NArith List Bool String.
From Verif Require Import Base.Chars Base.StrX.
Import ListNotations.
Local Open Scope list_scope.

(* ---------- signatures ---------- *)

(* inspect.getfullargspec(f): args, len(defaults or ()), varargs is not None, kwonlyargs,
   list(kwonlydefaults or {}), varkw is not None *)
Record argspec := mkSpec {
  args : list str;
  ndefaults : nat;
  varargs : bool;
  kwonly : list str;
  kwdefaults : list str;
  varkw : bool }.

(* ---------- expressions and values ---------- *)

Inductive mode := MString | MEval | MAuto.

(* UserExpr(arg, namespace, arg_mode): "string" is turned into "raw_value" by the constructor;
   Dflt a = make_expr(default, "raw_value") for the default object of parameter a. *)
Inductive uexpr :=
| Raw (s : str)
| Eval (s : str)
| Auto (s : str)
| Dflt (a : str).

(*  def make_expr(arg, arg_mode=arg_mode): return UserExpr(arg, namespace, arg_mode)  *)
Definition mk (m : mode) (s : str) : uexpr :=
  match m with MString => Raw s | MEval => Eval s | MAuto => Auto s end.

(* delivered value: the exact string, an evaluated object (opaque token supplied by the oracle),
   or the function's own default object for parameter a *)
Inductive val :=
| VStr (s : str)
| VObj (v : str)
| VDefault (a : str).

(* Oracle.  syn: `not str(block).strip()` => Blank; `block.parsable_as_expression` false => NotExpr.
   runres: what _Namespace.auto_eval(block) does: raises UnimportableNameError / raises another
   Exception before the user code runs (SyntaxError of a non-parsable block) / returns v /
   leaves through SystemExit(code) (user exception => _handle_user_exception => traceback,
   SystemExit(1); a SystemExit of the user code itself is re-raised). *)
Inductive syn := Blank | NotExpr | Expr.
Inductive runres :=
| RUnimportable
| RError
| RValue (v : str)
| RExit (code : str).
Definition oracle := str -> syn * runres.

Inductive perr :=
| InvalidName | Unknown | Ambiguous | MissingArg | Both | MissingRequired | MissingKwonly
| TooMany | BadValue.

Inductive err :=
| EHelp                (* _ParseInterruptedWantHelp *)
| ESource              (* _ParseInterruptedWantSource *)
| EParse (k : perr)    (* ParseError *)
| EExit (code : str).  (* SystemExit out of the evaluation of an argument *)

Inductive res (A : Type) :=
| Ok (a : A)
| Err (e : err).
Arguments Ok {A} a.
Arguments Err {A} e.

Definition rbind {A B} (r : res A) (f : A -> res B) : res B :=
  match r with Ok a => f a | Err e => Err e end.

(*  UserExpr.value  (via __getattr__ => _infer_and_evaluate):
      raw_value: self.value = self._original_arg
      eval:  if not str(block).strip(): raise ValueError("empty input")
             self.value = self._namespace.auto_eval(block)
      auto:  if not str(block).strip(): value = ERROR
             elif not block.parsable_as_expression: value = ERROR
             else: try: value = self._namespace.auto_eval(block)
                   except UnimportableNameError: value = ERROR
             if value is ERROR: self.value = self._original_arg  else: self.value = value
    and in _parse_auto_apply_args every access is wrapped as
      try: value = expr.value
      except Exception as e: raise ParseError("Error parsing value for ...")
    (SystemExit is not an Exception and passes through).                                       *)
Definition value (O : oracle) (e : uexpr) : res val :=
  match e with
  | Raw s => Ok (VStr s)
  | Dflt a => Ok (VDefault a)
  | Eval s =>
      match O s with
      | (Blank, _) => Err (EParse BadValue)
      | (_, RValue v) => Ok (VObj v)
      | (_, RExit c) => Err (EExit c)
      | (_, RUnimportable) => Err (EParse BadValue)
      | (_, RError) => Err (EParse BadValue)
      end
  | Auto s =>
      match O s with
      | (Blank, _) => Ok (VStr s)
      | (NotExpr, _) => Ok (VStr s)
      | (Expr, RValue v) => Ok (VObj v)
      | (Expr, RUnimportable) => Ok (VStr s)
      | (Expr, RExit c) => Err (EExit c)
      | (Expr, RError) => Err (EParse BadValue)
      end
  end.

(* ---------- dictionaries (insertion-ordered, like Python's) ---------- *)

Definition dict (V : Type) := list (str * V).

Fixpoint dict_get {V} (k : str) (d : dict V) : option V :=
  match d with
  | [] => None
  | (k', v) :: r => if str_eqb k k' then Some v else dict_get k r
  end.

Definition dict_mem {V} (k : str) (d : dict V) : bool :=
  match dict_get k d with Some _ => true | None => false end.

(* d[k] = v : an existing key keeps its place *)
Fixpoint dict_set {V} (k : str) (v : V) (d : dict V) : dict V :=
  match d with
  | [] => [(k, v)]
  | (k', v') :: r => if str_eqb k k' then (k', v) :: r else (k', v') :: dict_set k v r
  end.

Fixpoint dict_del {V} (k : str) (d : dict V) : dict V :=
  match d with
  | [] => []
  | (k', v') :: r => if str_eqb k k' then r else (k', v') :: dict_del k r
  end.

(* d.pop(k) : KeyError = None *)
Definition dict_pop {V} (k : str) (d : dict V) : option (V * dict V) :=
  match dict_get k d with
  | Some v => Some (v, dict_del k d)
  | None => None
  end.

(* the assignments  got_keyword_args[name] = expr  made by the loop, replayed in order *)
Definition dict_of {V} (evs : list (str * V)) : dict V :=
  fold_left (fun d kv => dict_set (fst kv) (snd kv) d) evs [].

(* sorted(d.items()) for distinct keys: by key, code-point order *)
Fixpoint str_ltb (a b : str) : bool :=
  match a, b with
  | [], [] => false
  | [], _ :: _ => true
  | _ :: _, [] => false
  | x :: a', y :: b' => if (x <? y)%N then true else if (y <? x)%N then false else str_ltb a' b'
  end.

Fixpoint insert_sorted {V} (kv : str * V) (l : dict V) : dict V :=
  match l with
  | [] => [kv]
  | kv' :: r => if str_ltb (fst kv') (fst kv) then kv' :: insert_sorted kv r else kv :: l
  end.

Definition sort_items {V} (d : dict V) : dict V := fold_right insert_sorted [] d.

(* ---------- string pieces ---------- *)

Definition c_q : ch := 63%N.        (* ? *)
Definition s_dash : str := [c_dash].
Definition s_dd : str := [c_dash; c_dash].

Definition mem_str (s : str) (l : list str) : bool := existsb (str_eqb s) l.

(*  arg in ["--?", "-?", "?"]      arg in ["--??", "-??", "??"]  *)
Definition is_help_arg (a : str) : bool :=
  mem_str a [[c_dash; c_dash; c_q]; [c_dash; c_q]; [c_q]].
Definition is_source_arg (a : str) : bool :=
  mem_str a [[c_dash; c_dash; c_q; c_q]; [c_dash; c_q; c_q]; [c_q; c_q]].

(*  s.partition("=")  ->  (before, "=" found?, after)  *)
Fixpoint partition_eq (s : str) : str * bool * str :=
  match s with
  | [] => ([], false, [])
  | c :: r => if (c =? c_eq)%N then ([], true, r)
              else match partition_eq r with (b, f, a) => (c :: b, f, a) end
  end.

(*  argname.replace("-", "_")  *)
Definition dash_to_us (s : str) : str := map (fun c => if (c =? c_dash)%N then c_us else c) s.

(* "help" "h" "source" *)
Definition s_help : str := [104; 101; 108; 112]%N.
Definition s_h : str := [104]%N.
Definition s_source : str := [115; 111; 117; 114; 99; 101]%N.

(* ---------- is_identifier (pyflyby._idents): s.isidentifier() and not keyword ---------- *)

Definition kwlist : list str := map dec
  ["False"; "None"; "True"; "and"; "as"; "assert"; "async"; "await"; "break"; "class"; "continue";
   "def"; "del"; "elif"; "else"; "except"; "finally"; "for"; "from"; "global"; "if"; "import";
   "in"; "is"; "lambda"; "nonlocal"; "not"; "or"; "pass"; "raise"; "return"; "try"; "while";
   "with"; "yield"]%string.

(* xs / xc: the non-ASCII characters of the run that str.isidentifier accepts as first /
   as later character (oracle argument; ASCII is decided here) *)
Definition id_start (xs : list ch) (c : ch) : bool :=
  if (c <? 128)%N then is_ident_start c else mem_ch c xs.
Definition id_cont (xc : list ch) (c : ch) : bool :=
  if (c <? 128)%N then is_ident_char c else mem_ch c xc.
Definition is_identifier (xs xc : list ch) (s : str) : bool :=
  match s with
  | [] => false
  | c :: r => id_start xs c && forallb (id_cont xc) r && negb (mem_str s kwlist)
  end.

(* ---------- the parser ---------- *)

Section Parser.
Variable fx : bool.                  (* true: with the F13 repair *)
Variable idok : str -> bool.
Variable spec : argspec.
Variable md : mode.

Definition params : list str := args spec ++ kwonly spec.

(*  prefix2argname = {}
    for argname in argspec.args:       for prefix in prefixes(argname): prefix2argname.setdefault(prefix, []).append(argname)
    for argname in argspec.kwonlyargs: (same)
    ...  matched_argnames = prefix2argname.get(argname, [])
    prefixes() yields the non-empty prefixes only.                                              *)
Definition matches (n : str) : list str :=
  match n with
  | [] => []
  | _ => filter (fun p => starts_with n p) params
  end.

Inductive target := TUnique (p : str) | TNone | TAmbig.

(*  [F13 repair]  if argname in matched_argnames: matched_argnames = [argname]
    if len(matched_argnames) == 1: argname, = matched_argnames
    elif len(matched_argnames) == 0: ...      elif len(matched_argnames) > 1: raise ParseError("Ambiguous ...") *)
Definition resolve (n : str) : target :=
  let m := matches n in
  let m := if fx && mem_str n m then [n] else m in
  match m with
  | [] => TNone
  | [p] => TUnique p
  | _ => TAmbig
  end.

Inductive sres :=
| SOk (gpos : list uexpr) (evs : list (str * uexpr))
| SStop (e : err).

Definition add_pos (e : uexpr) (r : sres) : sres :=
  match r with SOk p k => SOk (e :: p) k | SStop x => SStop x end.
Definition add_ev (n : str) (e : uexpr) (r : sres) : sres :=
  match r with SOk p k => SOk p ((n, e) :: k) | SStop x => SStop x end.

(*  the name an option goes to, or the way the loop is left:
      if not is_identifier(argname): raise ParseError("Invalid option name")
      1 match: that parameter
      0 matches: if equalsign == "": help / h => WantHelp ; source => WantSource
                 if not argspec.varkw: raise ParseError("Unknown option name")       (else: the name itself)
      >1: raise ParseError("Ambiguous")                                              *)
Definition opt_target (n : str) (eq : bool) : err + str :=
  if negb (idok n) then inl (EParse InvalidName)
  else match resolve n with
       | TUnique p => inr p
       | TAmbig => inl (EParse Ambiguous)
       | TNone =>
           if negb eq && (str_eqb n s_help || str_eqb n s_h) then inl EHelp
           else if negb eq && str_eqb n s_source then inl ESource
           else if negb (varkw spec) then inl (EParse Unknown)
           else inr n
       end.

(*  if not value:        [F13 repair:  if not equalsign: ]
        value = args.pop(0)  (IndexError => ParseError("Missing argument"))
        if value.startswith("--"): raise ParseError("Missing argument ...")            *)
Definition take_next (eq : bool) (v : str) : bool :=
  if fx then negb eq else match v with [] => true | _ => false end.

(*  the `while args:` loop.  The positional expressions and the keyword assignments are
    returned in the order they are made; an interruption is whatever is met first.
      "-"  : data = sys.stdin.read(); got_pos_args.append(make_expr(data, "string"))
      "--" : got_pos_args.extend([make_expr(x, "string") for x in args]); del args[:]
      "--x.." => arg[2:], "-x.." => arg[1:]; partition("="); replace("-", "_")            *)
Fixpoint scan (argv : list str) (stdin : str) : sres :=
  match argv with
  | [] => SOk [] []
  | a :: rest =>
      if is_help_arg a then SStop EHelp
      else if is_source_arg a then SStop ESource
      else if starts_with s_dash a then
        if str_eqb a s_dash then add_pos (Raw stdin) (scan rest [])
        else if str_eqb a s_dd then SOk (map Raw rest) []
        else
          let body := if starts_with s_dd a then skipn 2 a else skipn 1 a in
          match partition_eq body with
          | (n0, eq, v) =>
              match opt_target (dash_to_us n0) eq with
              | inl e => SStop e
              | inr name =>
                  if take_next eq v then
                    match rest with
                    | [] => SStop (EParse MissingArg)
                    | w :: rest' =>
                        if starts_with s_dd w then SStop (EParse MissingArg)
                        else add_ev name (mk md w) (scan rest' stdin)
                    end
                  else add_ev name (mk md v) (scan rest stdin)
              end
          end
      else add_pos (mk md a) (scan rest stdin)
  end.

(*  argname2default: zip(argspec.args[len(args)-len(defaults):], defaults) and kwonlydefaults.items()  *)
Definition defaulted : list str :=
  skipn (List.length (args spec) - ndefaults spec) (args spec) ++ kwdefaults spec.
Definition has_default (a : str) : bool := mem_str a defaulted.

Variable O : oracle.

(*  for i, argname in enumerate(argspec.args):
        if i < len(got_pos_args):
            if argname in got_keyword_args: raise ParseError("... both ...")
            expr = got_pos_args[i]
        else:
            try: expr = got_keyword_args.pop(argname)
            except KeyError:
                try: expr = argname2default[argname]
                except KeyError: raise ParseError("missing required argument")
        value = expr.value ; parsed_args.append(value)
    Returns the values, what is left of got_pos_args (= got_pos_args[len(argspec.args):]) and of
    got_keyword_args.                                                                          *)
Fixpoint fill_args (names : list str) (gp : list uexpr) (kw : dict uexpr)
  : res (list val * list uexpr * dict uexpr) :=
  match names with
  | [] => Ok ([], gp, kw)
  | a :: names' =>
      match gp with
      | e :: gp' =>
          if dict_mem a kw then Err (EParse Both)
          else rbind (value O e) (fun v =>
               rbind (fill_args names' gp' kw) (fun r =>
               match r with (vs, g, k) => Ok (v :: vs, g, k) end))
      | [] =>
          match dict_pop a kw with
          | Some (e, kw') =>
              rbind (value O e) (fun v =>
              rbind (fill_args names' [] kw') (fun r =>
              match r with (vs, g, k) => Ok (v :: vs, g, k) end))
          | None =>
              if has_default a then
                rbind (value O (Dflt a)) (fun v =>
                rbind (fill_args names' [] kw) (fun r =>
                match r with (vs, g, k) => Ok (v :: vs, g, k) end))
              else Err (EParse MissingRequired)
          end
      end
  end.

(*  for argname in argspec.kwonlyargs:
        try: expr = got_keyword_args.pop(argname)
        except KeyError:
            try: expr = argname2default[argname]
            except KeyError: raise ParseError("missing required keyword argument")
        parsed_kwargs[argname] = expr.value                                                  *)
Fixpoint fill_kwonly (names : list str) (kw : dict uexpr) (acc : dict val)
  : res (dict val * dict uexpr) :=
  match names with
  | [] => Ok (acc, kw)
  | a :: names' =>
      match dict_pop a kw with
      | Some (e, kw') =>
          rbind (value O e) (fun v => fill_kwonly names' kw' (dict_set a v acc))
      | None =>
          if has_default a then
            rbind (value O (Dflt a)) (fun v => fill_kwonly names' kw (dict_set a v acc))
          else Err (EParse MissingKwonly)
      end
  end.

(*  for expr in got_pos_args[len(argspec.args):]: parsed_args.append(expr.value)  *)
Fixpoint values (l : list uexpr) : res (list val) :=
  match l with
  | [] => Ok []
  | e :: r => rbind (value O e) (fun v => rbind (values r) (fun vs => Ok (v :: vs)))
  end.

(*  for argname, expr in sorted(got_keyword_args.items()): parsed_kwargs[argname] = expr.value  *)
Fixpoint fill_rest (items : dict uexpr) (acc : dict val) : res (dict val) :=
  match items with
  | [] => Ok acc
  | (n, e) :: r => rbind (value O e) (fun v => fill_rest r (dict_set n v acc))
  end.

(*  the part of _parse_auto_apply_args after the loop  *)
Definition finish (gpos : list uexpr) (gkw : dict uexpr) : res (list val * dict val) :=
  rbind (fill_args (args spec) gpos gkw) (fun r1 =>
  match r1 with (pvals, extra, kw1) =>
  rbind (fill_kwonly (kwonly spec) kw1 []) (fun r2 =>
  match r2 with (kacc, kw2) =>
  rbind (match extra with
         | [] => Ok []
         | _ => if varargs spec then values extra else Err (EParse TooMany)
         end) (fun evals =>
  rbind (fill_rest (sort_items kw2) kacc) (fun kfinal =>
  Ok (pvals ++ evals, kfinal)))
  end)
  end).

Definition parse (argv : list str) (stdin : str) : res (list val * dict val) :=
  match scan argv stdin with
  | SStop e => Err e
  | SOk gpos evs => finish gpos (dict_of evs)
  end.

End Parser.

(* ---------- _get_argspec: which signature the parser is given ---------- *)

(*  FunctionType: getfullargspec(arg)
    bound MethodType, type (via __new__ or __init__): the same with args[1:]
    other callables: ArgSpec([], "args", "kwargs", None, [], None, {})                         *)
Inductive callable_kind := KFunction | KDropFirst | KOpaque.
Definition get_argspec (k : callable_kind) (s : argspec) : argspec :=
  match k with
  | KFunction => s
  | KDropFirst => mkSpec (tl (args s)) (ndefaults s) (varargs s) (kwonly s) (kwdefaults s) (varkw s)
  | KOpaque => mkSpec [] 0 true [] [] true
  end.

(* ---------- _interpret_arg_mode ---------- *)

(*  if arg is None: arg = default
    rarg = str(arg).strip().lower()   (the harness passes the stripped, lower-cased text)
    eval/evaluate/exprs/expr/expressions/expression/e ; strings/string/str/strs/literal/literals/s ;
    auto/automatic/a ; (error: undocumented, not modelled) ; else ValueError                  *)
Definition interpret_arg_mode (arg : option str) (default : mode) : option mode :=
  match arg with
  | None => Some default
  | Some r =>
      if mem_str r (map dec ["eval"; "evaluate"; "exprs"; "expr"; "expressions"; "expression"; "e"]%string) then Some MEval
      else if mem_str r (map dec ["strings"; "string"; "str"; "strs"; "literal"; "literals"; "s"]%string) then Some MString
      else if mem_str r (map dec ["auto"; "automatic"; "a"]%string) then Some MAuto
      else None
  end.

(* M7, stage 2 - the initial state, the deferred checks at the end of the module, and the stage-2 theorems:
   on Fragment.s2_block (module-level code + function and lambda scopes)
     - every failing global lookup (NameError) of PySem is reported by pyflyby on that line      (sound)
     - every reported (line, name) is a failing lookup of PySem on that line: a NameError, or an
       UnboundLocalError-like failure of a local / free variable                                 (precise) *)
From Coq Require Import NArith List Bool Arith Lia.
From Verif Require Import Scope.PySyntax Scope.Finder Scope.PySem Scope.Fragment Scope.AuxProofs Scope.FinderProofs
                          Scope.Stage2Base Scope.Stage2Inv Scope.Stage2Steps Scope.Stage2Proofs Scope.Stage2Stmt.
Import ListNotations.

(* ---------- the initial state ---------- *)
Definition InitI (ids : list nat) (exp : expmap) (P : list name) (s : st) : Prop :=
  SInv s /\ missing s = [] /\ deferred s = [] /\ in_fd s = false /\ NoDup ids /\
  (forall i, In i ids -> i < next_id s /\ i <> delayed_id) /\
  (forall i x, has s i x = true <-> In x (exp i)) /\
  (forall x, ebound exp ids x = true <-> In x P).

Lemma plain_dict_raw : forall l k e, In (k, e) (plain_dict l) -> e = Plain.
Proof. intros l k e H. unfold plain_dict in H. apply in_map_iff in H as (n & E & _). congruence. Qed.

Lemma plain_dict_nostar : forall l, mem n_star l = false -> dict_has (plain_dict l) [n_star] = false.
Proof.
  intros l H. destruct (dict_has (plain_dict l) [n_star]) eqn:E; auto.
  apply plain_dict_has in E. apply mem_In in E. congruence.
Qed.

Lemma init_step2 : forall ids exp P s l, InitI ids exp P s -> mem n_star l = false ->
  InitI (ids ++ [next_id s]) (upd exp (next_id s) l) (P ++ l) (snd (new_scope s KNormal (plain_dict l))).
Proof.
  intros ids exp P s l (HS & Hm & Hd & Hfd & Hnd & Hlt & Hh & Hb) Hl.
  destruct (new_scope_fields s (plain_dict l)) as (_ & Enx & Em & Ed & Efd & _ & _).
  set (s' := snd (new_scope s KNormal (plain_dict l))) in *. set (n := next_id s) in *.
  assert (Hsd : forall i, scope_dict s' i = if Nat.eqb i n then plain_dict l else scope_dict s i)
    by (intro i; apply scope_dict_new; apply (sv_fresh s HS)).
  split. { apply SInv_new; auto. apply plain_dict_raw. apply plain_dict_rootclosed. apply plain_dict_nostar; auto. }
  split. congruence. split. congruence. split. congruence.
  split. { apply NoDup_app_inv'; auto. constructor; auto. constructor. intros x Hx [<-|[]]. destruct (Hlt _ Hx). lia. }
  split. { intros i Hi. rewrite Enx. apply in_app_iff in Hi as [Hi|[<-|[]]]. destruct (Hlt i Hi). split; auto.
           split. lia. pose proof (sv_next s HS). unfold delayed_id. fold n in H. lia. }
  split.
  - intros i x. unfold has. rewrite Hsd. unfold upd. destruct (Nat.eqb i n). apply plain_dict_has. apply Hh.
  - intro x. rewrite ebound_app, ebound_single, orb_true_iff, in_app_iff.
    rewrite (ebound_ext n exp (upd exp n l) ids x).
    + rewrite Hb. unfold upd. rewrite Nat.eqb_refl. rewrite mem_In. reflexivity.
    + apply ext_upd. lia.
    + intros i Hi. apply Hlt. exact Hi.
Qed.

Lemma init_fold2 : forall ns ids exp P s, InitI ids exp P s -> forallb (fun l => negb (mem n_star l)) ns = true ->
  exists ids' exp' s',
    fold_left (fun acc l => let '(ids, s) := acc in
                            let '(i, s') := new_scope s KNormal (plain_dict l) in (ids ++ [i], s')) ns (ids, s) = (ids', s') /\
    InitI ids' exp' (P ++ concat ns) s'.
Proof.
  induction ns as [|l ns IH]; intros ids exp P s HI Hns; cbn [fold_left concat].
  - exists ids, exp, s. rewrite app_nil_r. auto.
  - cbn in Hns. apply andb_true_iff in Hns as [H1 H2]. apply negb_true_iff in H1.
    pose proof (init_step2 ids exp P s l HI H1) as HI1.
    destruct (new_scope_fields s (plain_dict l)) as (Ei & _).
    destruct (new_scope s KNormal (plain_dict l)) as [i s1] eqn:E. cbn [fst snd] in *. subst i.
    destruct (IH _ _ _ _ HI1 H2) as (ids' & exp' & s' & Ef & HI'). exists ids', exp', s'. split. exact Ef.
    rewrite app_assoc. exact HI'.
Qed.

Lemma stack_of_one : forall l, stack_of [l] = l_as l ++ [l_b l].
Proof. intro l. unfold stack_of. cbn. apply app_nil_r. Qed.

Lemma init_inv2 : forall bi ns p, star_free bi ns = true ->
  exists exp l0, l_own l0 = [] /\ l_B l0 = binds_block false p /\
    fst (init_state bi ns) = stack_of [l0] /\
    Inv2 exp l0 [] [] [] [] (snd (init_state bi ns)) [module_frame bi ns p] [] /\
    missing (snd (init_state bi ns)) = [] /\
    scope_dict (snd (init_state bi ns)) (l_b l0) = [] /\ deferred (snd (init_state bi ns)) = [] /\
    (forall y, In y (l_P l0) -> In y (bi ++ concat ns)).
Proof.
  intros bi ns p Hsf. unfold star_free in Hsf. apply andb_true_iff in Hsf as [Hsb Hsn]. apply negb_true_iff in Hsb.
  unfold init_state.
  set (s0 := mkSt [(builtins_id, (KNormal, plain_dict bi)); (delayed_id, (KNormal, []))] 2 [] [] [] [] false 0 0).
  set (exp0 := fun i : nat => if Nat.eqb i 0 then bi else @nil name).
  assert (Hsd0 : forall i, scope_dict s0 i = if Nat.eqb i 0 then plain_dict bi else []).
  { intro i. unfold scope_dict, s0. cbn. unfold builtins_id, delayed_id. destruct i as [|[|i]]; reflexivity. }
  assert (H0 : InitI [builtins_id] exp0 bi s0).
  { split.
    { constructor.
      - intros i k e. rewrite Hsd0. destruct (Nat.eqb i 0). intro H. apply plain_dict_get in H as [H _]. exact H. cbn. discriminate.
      - intro i. rewrite Hsd0. destruct (Nat.eqb i 0). apply plain_dict_rootclosed. intros r q H. cbn in H. congruence.
      - intros j v Hin. cbn in Hin. destruct Hin as [Hin|[Hin|[]]]; injection Hin as <- _; cbn; unfold builtins_id, delayed_id; lia.
      - cbn. lia.
      - intro i. unfold has. rewrite Hsd0. destruct (Nat.eqb i 0). apply plain_dict_nostar. exact Hsb. reflexivity.
      - intro i. unfold scope_is_class, s0. cbn. destruct (Nat.eqb i builtins_id); auto. destruct (Nat.eqb i delayed_id); auto.
      - rewrite Hsd0. reflexivity.
      - reflexivity.
      - intros i k e. rewrite Hsd0. destruct (Nat.eqb i 0). apply plain_dict_raw. intros [].
      - cbn. unfold builtins_id, delayed_id. repeat constructor; cbn; intuition discriminate. }
    split. reflexivity. split. reflexivity. split. reflexivity.
    split. constructor. intros []. constructor.
    split. intros i [<-|[]]. cbn. unfold builtins_id, delayed_id. lia.
    split.
    - intros i x. unfold has. rewrite Hsd0. unfold exp0. destruct (Nat.eqb i 0). apply plain_dict_has. cbn. split. discriminate. intros [].
    - intro x. unfold builtins_id. rewrite ebound_single. unfold exp0. cbn. apply mem_In. }
  destruct (init_fold2 ns _ _ _ _ H0 Hsn) as (ids & exp1 & s1 & Ef & HS1 & Hm1 & Hd1 & Hfd1 & Hnd1 & Hlt1 & Hh1 & Hb1).
  rewrite Ef. rewrite push_S by exact HS1.
  set (T := next_id s1). set (s2 := snd (new_scope s1 KNormal [])).
  set (Bn := binds_block false p). set (P := bi ++ concat ns) in *.
  set (l0 := mkL ids T P [] Bn). set (exp := upd exp1 T Bn).
  exists exp, l0. split. reflexivity. split. reflexivity. cbn [fst snd]. split. { rewrite stack_of_one. reflexivity. }
  destruct (new_scope_fields s1 []) as (_ & Enx & Em & Ed & Efd & _ & _). fold s2 in Enx, Em, Ed, Efd. fold T in Enx.
  assert (Hsd : forall i, scope_dict s2 i = if Nat.eqb i T then [] else scope_dict s1 i)
    by (intro i; apply scope_dict_new; apply (sv_fresh s1 HS1)).
  assert (Hhas : forall i x, has s2 i x = if Nat.eqb i T then false else has s1 i x).
  { intros i x. unfold has. rewrite Hsd. destruct (Nat.eqb i T); reflexivity. }
  assert (HTids : ~ In T ids). { intro H. destruct (Hlt1 T H). unfold T in *. lia. }
  split; [|split; [congruence|split; [rewrite Hsd, Nat.eqb_refl; reflexivity|split; [congruence|auto]]]].
  constructor.
  - constructor.
    + apply SInv_new; auto. intros k e []. intros r q Hq. cbn in Hq. congruence.
    + rewrite stack_of_one. cbn [l_as l_b l0]. apply NoDup_app_inv'; auto. constructor; auto. constructor.
      intros x Hx [<-|[]]. contradiction.
    + intros i Hi. rewrite stack_of_one in Hi. cbn [l_as l_b l0] in Hi. rewrite Enx.
      apply in_app_iff in Hi as [Hi|[<-|[]]]. destruct (Hlt1 i Hi). split; auto.
      split. lia. pose proof (sv_next s1 HS1). unfold delayed_id. fold T in H. lia.
    + intros i x. rewrite Hhas. unfold exp, upd. destruct (Nat.eqb i T). discriminate. apply Hh1.
    + intros i Hi Hnb _ x. cbn [map l_b l0] in Hnb. rewrite Hhas. unfold exp, upd. destruct (Nat.eqb i T) eqn:E.
      * apply Nat.eqb_eq in E. exfalso. apply Hnb. left. auto.
      * apply Hh1.
    + constructor; [|constructor]. split.
      * intro x. cbn [l_b l_own l0 app]. rewrite Hhas, Nat.eqb_refl. split. discriminate. intros [].
      * intros x [].
    + intros n stk ln Hi. rewrite Ed, Hd1 in Hi. destruct Hi.
    + rewrite Efd, Hfd1. reflexivity.
  - constructor. intros i [].
  - intros i [].
  - constructor.
    + intros l [<-|[]] x. cbn [l_as l_P l0].
      rewrite (ebound_ext T exp1 exp ids x). apply Hb1. apply ext_upd. lia. intros i Hi. apply Hlt1. exact Hi.
    + intros l [<-|[]] x. cbn [l_b l_own l_B l0 app]. unfold exp, upd. rewrite Nat.eqb_refl. reflexivity.
    + reflexivity.
  - cbn [EnvI map]. unfold module_frame. cbn [ffinal fdyn l_P l_B l0]. split.
    + intro x. rewrite lookup_b_app_names, lookup_b_rev_names, lookup_b_names, lookup_b_others.
      unfold P, Bn, binds_block. rewrite !in_app_iff. tauto.
    + intro x. rewrite lookup_b_others. unfold P. rewrite app_nil_r, !in_app_iff. tauto.
  - constructor.
    + intros l n [].
    + intros l n [(a & m & Hin & _)|(a & stk & Hin & _)].
      * rewrite Em, Hm1 in Hin. destruct Hin.
      * rewrite Ed, Hd1 in Hin. destruct Hin.
Qed.

(* ---------- the deferred checks at the end of the module ---------- *)
Lemma forallb_const_true : forall A (l : list A), forallb (fun _ => true) l = true.
Proof. induction l; cbn; auto. Qed.

Lemma check_load_gen : forall s cur stk d ln, SInv s ->
  exists m', check_load s cur stk d ln = with_missing s m' /\
    forall l n a, InM l (n :: a) m' <-> InM l (n :: a) (missing s) \/ (d = n :: a /\ l = ln /\ bound s stk n = false).
Proof.
  intros s cur stk d ln HS. destruct d as [|n0 a0].
  - unfold check_load, needs. cbn [prefixes prefixes_from rev]. rewrite needs_stack_plain by apply (sv_plain s HS).
    cbn [first_present]. rewrite forallb_const_true. rewrite has_star_false by exact HS. cbn [andb negb].
    destruct (add_missing_spec s cur ln []) as (E & Hiff). exists (missing (add_missing s cur ln [])). split. exact E.
    intros l n a. rewrite Hiff. split. intros [H|[_ H]]; auto. discriminate. intros [H|[H _]]; auto. discriminate.
  - rewrite check_load_S by exact HS. destruct (bound s stk n0) eqn:Eb.
    + exists (missing s). split. symmetry. apply with_missing_id. intros l n a. split; auto.
      intros [H|(E & _ & Hb)]; auto. injection E as -> _. congruence.
    + destruct (add_missing_spec s cur ln (n0 :: a0)) as (E & Hiff). exists (missing (add_missing s cur ln (n0 :: a0))).
      split. exact E. intros l n a. rewrite Hiff. split.
      * intros [H|[-> E2]]; auto. right. injection E2 as -> ->. auto.
      * intros [H|(E2 & -> & _)]; auto.
Qed.

Lemma finish_fold : forall cur ds s, SInv s ->
  exists m', fold_left (fun s d => let '(n, stk, ln) := d in check_load s cur stk n ln) ds s = with_missing s m' /\
    forall l n a, InM l (n :: a) m' <->
                  InM l (n :: a) (missing s) \/ exists stk, In (n :: a, stk, l) ds /\ bound s stk n = false.
Proof.
  intros cur ds. induction ds as [|[[d stk] ln] ds IH]; intros s HS; cbn [fold_left].
  - exists (missing s). split. symmetry. apply with_missing_id. intros l n a. split; auto. intros [H|(stk & [] & _)]. exact H.
  - destruct (check_load_gen s cur stk d ln HS) as (m1 & E1 & H1). rewrite E1.
    destruct (IH (with_missing s m1) (SInv_with_missing _ _ HS)) as (m2 & E2 & H2).
    exists m2. split. rewrite E2. apply with_missing_twice.
    intros l n a. rewrite H2. change (missing (with_missing s m1)) with m1. rewrite H1.
    change (bound (with_missing s m1)) with (bound s). split.
    + intros [[H|(-> & -> & Hb)]|(stk' & Hin & Hb)]; auto.
      * right. exists stk. split; auto. left. reflexivity.
      * right. exists stk'. split; auto. right. exact Hin.
    + intros [H|(stk' & [E|Hin] & Hb)]; auto.
      * injection E as -> -> ->. left. right. auto.
      * right. exists stk'. auto.
Qed.

(* ---------- the stage-2 theorems ---------- *)
Lemma s2_reported : forall bi ns p, s2_block p = true -> star_free bi ns = true ->
  exists exp s, TrI exp s (pysem bi ns p) /\
    forall l n, (exists a, In (l, n :: a) (fst (finder bi ns false p))) <-> Rep exp s l n.
Proof.
  intros bi ns p Hp Hsf.
  destruct (init_inv2 bi ns p Hsf) as (exp0 & l0 & Hown & HB & Estk & HI & Hm0 & _).
  assert (Hiff : forall l d, In (l, d) (fst (finder bi ns false p)) <->
                             InM l d (missing (scan_node false p (fst (init_state bi ns)) (snd (init_state bi ns)))))
    by (intros; apply finder_missing_In).
  destruct (init_state bi ns) as [stk s0]. cbn [fst snd] in *. subst stk.
  unfold pysem. destruct (sem_block p [module_frame bi ns p]) as [e1 r1] eqn:Es. cbn [snd].
  assert (HF : Forall PS2 p) by (apply Forall_forall; intros x _; apply stmt_inv).
  destruct (block_inv p HF Hp _ _ _ _ _ _ _ _ _ HI) with (e' := e1) (rds := r1) as (exp & X & I1 & N1).
  { rewrite HB. apply incl_refl. } { exact Es. }
  cbn [app] in I1. set (s1 := vblock false p (stack_of [l0]) s0) in *.
  exists exp, s1. split. apply (i_tr _ _ _ _ _ _ _ _ _ I1).
  intros l n.
  pose proof (i_st _ _ _ _ _ _ _ _ _ I1) as HS. pose proof (st_sinv _ _ _ _ _ HS) as HS1.
  unfold scan_node, finish_deferred in Hiff.
  destruct (finish_fold (stack_of [l0]) (deferred s1) s1 HS1) as (m' & Ef & Hm').
  fold s1 in Hiff. rewrite Ef in Hiff.
  destruct (reports_shape (pending_dicts (with_missing s1 m') (top (stack_of [l0]))) (with_missing s1 m')) as (u0 & Eu0).
  rewrite Eu0 in Hiff. cbn [missing with_deferred with_missing with_unused] in Hiff.
  (* at the end of the module every scope holds its expected roots *)
  assert (Hclosed : forall i, i < next_id s1 -> forall y, has s1 i y = true <-> In y (exp i)).
  { intros i Hi y. destruct (Nat.eq_dec i (l_b l0)) as [->|Hne].
    - pose proof (st_top _ _ _ _ _ HS) as Ht. inversion Ht as [|? ? ? ? [Ht1 _] _]; subst.
      rewrite Ht1. rewrite (cx_b _ _ (i_cx _ _ _ _ _ _ _ _ _ I1) l0 (or_introl eq_refl)). rewrite HB. reflexivity.
    - apply (st_eq _ _ _ _ _ HS); auto. cbn. intros [E|[]]. auto. }
  assert (Hbe : forall stk ln d, In (d, stk, ln) (deferred s1) -> bound s1 stk n = ebound exp stk n).
  { intros stk ln d Hin. apply bound_closed. intros i Hi. apply Hclosed. apply (st_def _ _ _ _ _ HS _ _ _ Hin). exact Hi. }
  unfold Rep. split.
  - intros (a & Ha). apply Hiff, Hm' in Ha as [Ha|(stk & Hin & Hb)].
    + left. eauto.
    + right. exists a, stk. split. exact Hin. rewrite <- (Hbe _ _ _ Hin). exact Hb.
  - intros [(a & Ha)|(a & stk & Hin & Hb)]; exists a; apply Hiff, Hm'.
    + left. exact Ha.
    + right. exists stk. split. exact Hin. rewrite (Hbe _ _ _ Hin). exact Hb.
Qed.

Theorem s2_missing_sound : forall bi ns p, s2_block p = true -> star_free bi ns = true ->
  forall l n, In (l, n, Unbound) (pysem bi ns p) -> exists a, In (l, n :: a) (fst (finder bi ns false p)).
Proof.
  intros bi ns p Hp Hsf l n H. destruct (s2_reported bi ns p Hp Hsf) as (exp & s & HT & Hiff).
  apply Hiff. apply (tr_snd _ _ _ HT). exact H.
Qed.

Theorem s2_missing_precise : forall bi ns p, s2_block p = true -> star_free bi ns = true ->
  forall l n a, In (l, n :: a) (fst (finder bi ns false p)) ->
  In (l, n, Unbound) (pysem bi ns p) \/ In (l, n, UnboundLocal) (pysem bi ns p).
Proof.
  intros bi ns p Hp Hsf l n a H. destruct (s2_reported bi ns p Hp Hsf) as (exp & s & HT & Hiff).
  apply (tr_prc _ _ _ HT). apply Hiff. eauto.
Qed.

(* in the words of the property *)
Theorem s2_find_missing_sound : forall bi ns p l n, s2_block p = true -> star_free bi ns = true ->
  In (l, n, Unbound) (pysem bi ns p) -> exists a, In (n :: a) (find_missing bi ns p).
Proof.
  intros bi ns p l n Hp Hsf H. destruct (s2_missing_sound bi ns p Hp Hsf l n H) as (a & Ha).
  exists a. apply find_missing_In. eauto.
Qed.
Theorem s2_find_missing_precise : forall bi ns p n a, s2_block p = true -> star_free bi ns = true ->
  In (n :: a) (find_missing bi ns p) ->
  exists l, In (l, n, Unbound) (pysem bi ns p) \/ In (l, n, UnboundLocal) (pysem bi ns p).
Proof.
  intros bi ns p n a Hp Hsf H. apply find_missing_In in H as (l & Hl). exists l.
  apply (s2_missing_precise bi ns p Hp Hsf l n a Hl).
Qed.

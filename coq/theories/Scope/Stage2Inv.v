(* M7, stage 2 - the invariant of the simulation between Finder (scope store + deferred list) and PySem
   (static scope tree, function bodies evaluated in the finalised definition environment), and the pure
   "verdict" lemmas: the outcome of a deferred check against the final store, expressed with the expected final
   root sets [exp], agrees with PySem's resolution. *)
From Coq Require Import NArith List Bool Arith Lia.
From Verif Require Import Scope.PySyntax Scope.Finder Scope.PySem Scope.Fragment Scope.AuxProofs Scope.FinderProofs
                          Scope.Stage2Base.
Import ListNotations.

(* one open block: the scopes that hold its parameters (the namespaces for the module, scope A for a function), its
   own scope (the finder's top scope / scope B), the parameter names, the function's own name as the finder stores
   it inside B, and the names the block binds *)
Record lvl := mkL { l_as : list nat; l_b : nat; l_P : list name; l_own : list name; l_B : list name }.
Definition ids_of (l : lvl) : list nat := l_as l ++ [l_b l].
(* levels are listed innermost first, like PySem's environment *)
Definition stack_of (L : list lvl) : stack := flat_map ids_of (rev L).

Lemma stack_of_cons : forall l L, stack_of (l :: L) = stack_of L ++ l_as l ++ [l_b l].
Proof. intros. unfold stack_of. cbn [rev]. rewrite flat_map_app. cbn. rewrite app_nil_r. reflexivity. Qed.

(* expected final root names of every scope id *)
Definition expmap := nat -> list name.
Definition ebound (exp : expmap) (stk : stack) (x : name) : bool := existsb (fun i => mem x (exp i)) stk.
Definition ext (n : nat) (exp exp' : expmap) : Prop := forall i, i < n -> exp' i = exp i.
Definition upd (exp : expmap) (j : nat) (v : list name) : expmap := fun i => if Nat.eqb i j then v else exp i.

Lemma ext_refl : forall n exp, ext n exp exp.
Proof. intros n exp i _. reflexivity. Qed.
Lemma ext_trans : forall n m e1 e2 e3, n <= m -> ext n e1 e2 -> ext m e2 e3 -> ext n e1 e3.
Proof. intros n m e1 e2 e3 H A B i Hi. rewrite B by lia. apply A. exact Hi. Qed.
Lemma ext_upd : forall n exp j v, n <= j -> ext n exp (upd exp j v).
Proof. intros n exp j v H i Hi. unfold upd. destruct (Nat.eqb i j) eqn:E; auto. apply Nat.eqb_eq in E. lia. Qed.
Lemma ebound_ext : forall n exp exp' stk x, ext n exp exp' -> (forall i, In i stk -> i < n) -> ebound exp' stk x = ebound exp stk x.
Proof.
  intros n exp exp' stk x He Hs. unfold ebound. induction stk as [|i stk IH]; cbn. reflexivity.
  rewrite He by (apply Hs; left; reflexivity). f_equal. apply IH. intros j Hj. apply Hs. right. exact Hj.
Qed.
Lemma ebound_app : forall exp a b x, ebound exp (a ++ b) x = ebound exp a x || ebound exp b x.
Proof. intros. unfold ebound. apply existsb_app. Qed.

(* ---------- static facts about the open blocks ---------- *)
Definition names_eq (l : list (name * bsrc)) (R : list name) : Prop := forall x, lookup_b x l <> None <-> In x R.

Fixpoint owns_ok (L : list lvl) : Prop :=
  match L with
  | [] => True
  | [l] => l_own l = []
  | l :: ((l' :: _) as L') => incl (l_own l) (l_B l') /\ owns_ok L'
  end.

Record CtxI (exp : expmap) (L : list lvl) : Prop := mkCtxI {
  cx_as : forall l, In l L -> forall x, ebound exp (l_as l) x = true <-> In x (l_P l);
  cx_b : forall l, In l L -> forall x, In x (exp (l_b l)) <-> In x (l_own l ++ l_B l);
  cx_own : owns_ok L }.

(* ---------- the environment side ---------- *)
Definition frame_static (l : lvl) (f : frame) : Prop :=
  (forall x, mem x (flocals f) = true <-> In x (l_P l ++ l_B l)) /\ names_eq (ffinal f) (l_P l ++ l_B l).

(* [eaccs]: for every level the names bound so far in its PySem frame, beyond the parameters *)
Fixpoint EnvI (L : list lvl) (e : env) (eaccs : list (list name)) : Prop :=
  match L, e, eaccs with
  | [l], [f], [acc] => names_eq (ffinal f) (l_P l ++ l_B l) /\ names_eq (fdyn f) (l_P l ++ acc)
  | l :: ((_ :: _) as L'), f :: ((_ :: _) as e'), acc :: ((_ :: _) as accs') =>
      fk f = FFunction /\ frame_static l f /\ names_eq (fdyn f) (l_P l ++ acc) /\ incl acc (l_B l) /\ EnvI L' e' accs'
  | _, _, _ => False
  end.

Lemma EnvI_finalize : forall L e eaccs, EnvI L e eaccs -> EnvI L (finalize e) (map l_B L).
Proof.
  induction L as [|l L IH]; intros e eaccs H. destruct e; destruct eaccs; contradiction.
  destruct L as [|l' L'].
  - destruct e as [|f [|? ?]]; try contradiction. destruct eaccs as [|acc [|? ?]]; try contradiction.
    destruct H as [H1 H2]. cbn. split; exact H1.
  - destruct e as [|f [|f' e']]; try contradiction; destruct eaccs as [|acc [|acc' accs']]; try contradiction.
    destruct H as (Hk & Hs & Hd & Hi & Hr). specialize (IH (f' :: e') (acc' :: accs') Hr).
    change (finalize (f :: f' :: e')) with (mkFrame (fk f) (flocals f) (ffinal f) (ffinal f) :: finalize (f' :: e')).
    change (map l_B (l :: l' :: L')) with (l_B l :: map l_B (l' :: L')).
    cbn [finalize map] in IH |- *. cbn [EnvI fk flocals ffinal fdyn].
    split; [exact Hk | split; [exact Hs | split; [exact (proj2 Hs) | split; [apply incl_refl | exact IH]]]].
Qed.

(* the name is dynamically bound nowhere: not a parameter or a name bound so far at any level (for the finalised
   outer levels "so far" is "ever") *)
Fixpoint nowhere (L : list lvl) (eaccs : list (list name)) (x : name) : Prop :=
  match L, eaccs with
  | l :: L', acc :: accs' => ~ In x (l_P l ++ acc) /\ nowhere L' accs' x
  | _, _ => True
  end.
(* the name is static in no function level and unbound in the module *)
Fixpoint unb (L : list lvl) (eaccs : list (list name)) (x : name) : Prop :=
  match L, eaccs with
  | [l], [acc] => ~ In x (l_P l ++ acc)
  | l :: L', _ :: accs' => ~ In x (l_P l ++ l_B l) /\ unb L' accs' x
  | _, _ => True
  end.

Lemma lookup_none_iff : forall l R x, names_eq l R -> (lookup_b x l = None <-> ~ In x R).
Proof.
  intros l R x H. specialize (H x). destruct (lookup_b x l); split; intro A; try tauto; try discriminate.
  - exfalso. apply A. apply H. discriminate.
Qed.

Lemma resolve_outer_cons : forall x f f' e',
  resolve_outer x (f :: f' :: e') =
  match fk f with
  | FFunction | FComp =>
      if mem x (flocals f)
      then match lookup_b x (fdyn f) with Some b => Bound b | None => UnboundLocal end
      else resolve_outer x (f' :: e')
  | _ => resolve_outer x (f' :: e')
  end.
Proof. reflexivity. Qed.

Lemma resolve_outer_unbound : forall L e eaccs x, EnvI L e eaccs ->
  resolve_outer x e = Unbound -> unb L eaccs x.
Proof.
  induction L as [|l L IH]; intros e eaccs x H Hr. destruct e; destruct eaccs; contradiction.
  destruct L as [|l' L'].
  - destruct e as [|f [|? ?]]; try contradiction. destruct eaccs as [|acc [|? ?]]; try contradiction.
    destruct H as [_ H2]. cbn in Hr |- *. destruct (lookup_b x (fdyn f)) eqn:E; try discriminate.
    apply (lookup_none_iff _ _ _ H2). exact E.
  - destruct e as [|f [|f' e']]; try contradiction; destruct eaccs as [|acc [|acc' accs']]; try contradiction.
    destruct H as (Hk & Hs & Hd & Hi & Hrest).
    rewrite resolve_outer_cons, Hk in Hr.
    destruct (mem x (flocals f)) eqn:Em.
    + destruct (lookup_b x (fdyn f)); discriminate.
    + split.
      * intro Hin. apply (proj1 Hs) in Hin. congruence.
      * eapply IH; eauto.
Qed.

Lemma resolve_outer_failing : forall L e eaccs x, EnvI L e eaccs -> nowhere L eaccs x ->
  resolve_outer x e = Unbound \/ resolve_outer x e = UnboundLocal.
Proof.
  induction L as [|l L IH]; intros e eaccs x H Hn. destruct e; destruct eaccs; contradiction.
  destruct L as [|l' L'].
  - destruct e as [|f [|? ?]]; try contradiction. destruct eaccs as [|acc [|? ?]]; try contradiction.
    destruct H as [_ H2]. destruct Hn as [Hn _]. cbn.
    rewrite (proj2 (lookup_none_iff _ _ _ H2) Hn). auto.
  - destruct e as [|f [|f' e']]; try contradiction; destruct eaccs as [|acc [|acc' accs']]; try contradiction.
    destruct H as (Hk & Hs & Hd & Hi & Hrest). destruct Hn as [Hn Hn'].
    rewrite resolve_outer_cons, Hk. destruct (mem x (flocals f)).
    + rewrite (proj2 (lookup_none_iff _ _ _ Hd) Hn). auto.
    + eapply IH; eauto.
Qed.

(* no class frame: resolve is resolve_outer *)
Lemma resolve_EnvI : forall L e eaccs x, EnvI L e eaccs -> resolve x e = resolve_outer x e.
Proof.
  intros L e eaccs x H. destruct L as [|l [|l' L']]; destruct e as [|f [|f' e']]; destruct eaccs as [|a [|a' as']];
    try contradiction; try reflexivity.
  destruct H as (Hk & _). unfold resolve. rewrite Hk. reflexivity.
Qed.

(* ---------- expected roots over a stack of levels ---------- *)
Lemma ebound_single : forall exp i x, ebound exp [i] x = mem x (exp i).
Proof. intros. unfold ebound. cbn. apply orb_false_r. Qed.

Lemma ebound_levels : forall exp L x, CtxI exp L ->
  (ebound exp (stack_of L) x = true <-> exists l, In l L /\ (In x (l_P l) \/ In x (l_own l ++ l_B l))).
Proof.
  intros exp L x HC. destruct HC as [Has Hb _]. revert Has Hb. induction L as [|l L IH]; intros Has Hb.
  - cbn. split. discriminate. intros (l0 & H0 & _). destruct H0.
  - rewrite stack_of_cons, !ebound_app, ebound_single, !orb_true_iff.
    rewrite IH; [| intros; apply Has; right; auto | intros; apply Hb; right; auto].
    rewrite (Has l (or_introl eq_refl)), mem_In, (Hb l (or_introl eq_refl)). split.
    + intros [(l0 & Hin & H)|[H|H]]. exists l0. split; auto. right; auto. exists l; split; auto. left; auto. exists l; split; auto. left; auto.
    + intros (l0 & [<-|Hin] & H). destruct H; auto. left. exists l0. auto.
Qed.

(* every level: not a parameter, not a name the block binds *)
Definition allout (L : list lvl) (x : name) : Prop := forall l, In l L -> ~ In x (l_P l) /\ ~ In x (l_B l).

Lemma unb_allout : forall L x, unb L (map l_B L) x -> allout L x.
Proof.
  induction L as [|l L IH]; intros x H l0 Hin. contradiction.
  destruct L as [|l' L'].
  - destruct Hin as [<-|[]]. cbn in H. rewrite in_app_iff in H. tauto.
  - change (map l_B (l :: l' :: L')) with (l_B l :: map l_B (l' :: L')) in H. cbn [unb] in H. destruct H as [H1 H2].
    destruct Hin as [<-|Hin]. rewrite in_app_iff in H1. tauto. apply IH; auto.
Qed.

Lemma owns_out : forall L x, owns_ok L -> allout L x -> forall l, In l L -> ~ In x (l_own l).
Proof.
  induction L as [|l L IH]; intros x Ho Ha l0 Hin. contradiction.
  destruct L as [|l' L'].
  - destruct Hin as [<-|[]]. cbn in Ho. rewrite Ho. auto.
  - destruct Ho as [Ho1 Ho2]. destruct Hin as [<-|Hin].
    + intro Hx. apply Ho1 in Hx. destruct (Ha l' (or_intror (or_introl eq_refl))) as [_ H]. contradiction.
    + apply IH; auto. intros l1 H1. apply Ha. right. exact H1.
Qed.

(* the stack recorded by a deferred load: the current stack with its top replaced by the clone c *)
Definition dstack (L : list lvl) (c : nat) : stack :=
  match L with l :: L' => stack_of L' ++ l_as l ++ [c] | [] => [c] end.

Lemma verdict_sound : forall exp l L' e acc c x,
  CtxI exp (l :: L') -> EnvI (l :: L') e (acc :: map l_B L') ->
  (forall y, In y (exp c) <-> In y (l_own l ++ acc)) ->
  resolve_outer x e = Unbound -> ebound exp (dstack (l :: L') c) x = false.
Proof.
  intros exp l L' e acc c x HC HE Hc Hr.
  pose proof (resolve_outer_unbound _ _ _ _ HE Hr) as Hu.
  assert (HC' : CtxI exp L').
  { destruct HC as [A B C]. constructor. intros; apply A; right; auto. intros; apply B; right; auto.
    destruct L' as [|l' L'']. exact I. apply C. }
  assert (Hout : allout L' x /\ ~ In x (l_P l) /\ ~ In x acc /\ (L' <> [] -> ~ In x (l_B l))).
  { destruct L' as [|l' L''].
    - cbn in Hu. rewrite in_app_iff in Hu. split; [intros l0 []|]. split; [tauto|]. split; [tauto|].
      intro H. exfalso. apply H. reflexivity.
    - change (map l_B (l' :: L'')) with (l_B l' :: map l_B L'') in Hu. cbn [unb] in Hu.
      destruct Hu as [H1 H2]. rewrite in_app_iff in H1.
      destruct e as [|f [|f' e']]; try contradiction.
      destruct HE as (_ & _ & _ & Hi & _).
      split; [apply unb_allout; exact H2|]. split; [tauto|]. split; [intro Hx; apply Hi in Hx; tauto|]. intros _. tauto. }
  destruct Hout as (Ha & HP & Hacc & HB).
  cbn [dstack]. rewrite !ebound_app, ebound_single.
  assert (E1 : ebound exp (stack_of L') x = false).
  { destruct (ebound exp (stack_of L') x) eqn:E; auto. apply (ebound_levels exp L' x HC') in E as (l0 & Hin & H).
    destruct (Ha l0 Hin) as [A B].
    assert (Ho : ~ In x (l_own l0)).
    { assert (O : owns_ok L'). { destruct HC as [_ _ C]. destruct L' as [|l' L'']. exact I. apply C. }
      eapply owns_out; eauto. }
    rewrite in_app_iff in H. tauto. }
  assert (E2 : ebound exp (l_as l) x = false).
  { destruct (ebound exp (l_as l) x) eqn:E; auto. apply (cx_as _ _ HC l (or_introl eq_refl)) in E. contradiction. }
  assert (E3 : mem x (exp c) = false).
  { destruct (mem x (exp c)) eqn:E; auto. apply mem_In in E. apply Hc in E. apply in_app_iff in E as [E|E]; [|contradiction].
    exfalso. destruct HC as [_ _ C]. destruct L' as [|l' L''].
    - cbn in C. rewrite C in E. contradiction.
    - destruct C as [C _]. apply C in E. destruct (Ha l' (or_introl eq_refl)). contradiction. }
  rewrite E1, E2, E3. reflexivity.
Qed.

Lemma verdict_precise : forall exp l L' e acc c x,
  CtxI exp (l :: L') -> EnvI (l :: L') e (acc :: map l_B L') ->
  (forall y, In y (exp c) <-> In y (l_own l ++ acc)) ->
  ebound exp (dstack (l :: L') c) x = false ->
  resolve_outer x e = Unbound \/ resolve_outer x e = UnboundLocal.
Proof.
  intros exp l L' e acc c x HC HE Hc Hb.
  eapply resolve_outer_failing. exact HE.
  cbn [dstack] in Hb. rewrite !ebound_app, ebound_single in Hb.
  apply orb_false_iff in Hb as [H1 H23]. apply orb_false_iff in H23 as [H2 H3].
  assert (HC' : CtxI exp L').
  { destruct HC as [A B C]. constructor. intros; apply A; right; auto. intros; apply B; right; auto.
    destruct L' as [|l' L'']. exact I. apply C. }
  cbn [nowhere]. split.
  - rewrite in_app_iff. intros [H|H].
    + apply (cx_as _ _ HC l (or_introl eq_refl)) in H. congruence.
    + assert (In x (exp c)) by (apply Hc; apply in_app_iff; auto). apply mem_In in H0. congruence.
  - assert (G : forall l0, In l0 L' -> ~ In x (l_P l0 ++ l_B l0)).
    { intros l0 Hin Hx. assert (ebound exp (stack_of L') x = true).
      { apply (ebound_levels exp L' x HC'). exists l0. split; auto. rewrite in_app_iff in *. tauto. }
      congruence. }
    clear - G. induction L' as [|l' L'' IH]; cbn. exact I.
    split. apply G. left; reflexivity. apply IH. intros l0 Hin. apply G. right. exact Hin.
Qed.

(* in deferred mode a failing global lookup is not found in the (expected final) stack either *)
Lemma unbound_not_ebound : forall exp l l' L'' e acc x,
  CtxI exp (l :: l' :: L'') -> EnvI (l :: l' :: L'') e (acc :: map l_B (l' :: L'')) ->
  resolve_outer x e = Unbound -> ebound exp (stack_of (l :: l' :: L'')) x = false.
Proof.
  intros exp l l' L'' e acc x HC HE Hr.
  pose proof (resolve_outer_unbound _ _ _ _ HE Hr) as Hu.
  change (unb (l :: l' :: L'') (acc :: map l_B (l' :: L'')) x)
    with (~ In x (l_P l ++ l_B l) /\ unb (l' :: L'') (map l_B (l' :: L'')) x) in Hu. destruct Hu as [H1 H2].
  assert (Ha : allout (l :: l' :: L'') x).
  { intros l0 [<-|Hin]. rewrite in_app_iff in H1. tauto. apply (unb_allout _ _ H2). exact Hin. }
  destruct (ebound exp (stack_of (l :: l' :: L'')) x) eqn:E; auto.
  apply (ebound_levels _ _ _ HC) in E as (l0 & Hin & H).
  destruct (Ha l0 Hin) as [A B].
  assert (Ho : ~ In x (l_own l0)) by (eapply owns_out; eauto; apply (cx_own _ _ HC)).
  rewrite in_app_iff in H. tauto.
Qed.

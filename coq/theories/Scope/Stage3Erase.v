(* M7, stage 3, unused side - the erasure lemma and the checker-pair lemma of Stage2Erase.v for expressions with
   comprehensions (Fragment.c3_expr / s3_expr) and stage-3 statements. *)
From Coq Require Import NArith List Bool Arith Lia.
From Verif Require Import Scope.PySyntax Scope.Finder Scope.PySem Scope.Fragment Scope.AuxProofs Scope.FinderProofs
                          Scope.UnusedProofs Scope.Stage2Base Scope.Stage2Proofs Scope.Stage2Stmt Scope.Stage2Erase
                          Scope.Stage3Comp Scope.Stage3Proofs Scope.Stage3Stmt.
Import ListNotations.

Lemma vggo_eq_t : forall track stk l s,
  (fix go (l : list gen) (s : st) : st := match l with [] => s | g :: r => go r (vgen track g stk s) end) l s = vgens track l stk s.
Proof. intros track stk l. induction l as [|g l IH]; intro s. reflexivity. unfold vgens. cbn [fold_left]. apply IH. Qed.
Lemma vexpr_comp_eq_t : forall track gens elts stk s,
  vexpr track (EComp gens elts) stk s =
  (let '(stkK, s1) := push s stk true false false in
   let s2 := vgens track gens stkK s1 in
   let s3 := vexpr_list track elts stkK s2 in
   pop s3 (top stkK)).
Proof. intros. cbn [vexpr]. destruct (push s stk true false false) as [stkK s1]. rewrite vggo_eq_t, vgo_eq_t. reflexivity. Qed.
Lemma vgen_eq_t : forall track iter tgt ifs stk s,
  vgen track (Gen iter tgt ifs) stk s = vexpr_list track ifs stk (vtarget track tgt stk (vexpr track iter stk s)).
Proof. intros. cbn [vgen]. rewrite vgo_eq_t. reflexivity. Qed.

(* ---------- erasure ---------- *)
Definition EC (x : expr) : Prop := c3_expr x = true -> forall stk s, er (vexpr true x stk s) = vexpr false x stk (er s).
Definition EG (g : gen) : Prop := forall first, c3_gen first g = true -> forall stk s, er (vgen true g stk s) = vgen false g stk (er s).

Lemma er_clist : forall es, Forall EC es -> forallb c3_expr es = true ->
  forall stk s, er (vexpr_list true es stk s) = vexpr_list false es stk (er s).
Proof.
  intros es HF. induction HF as [|x es Hx HF IH]; intros Hs stk s. reflexivity.
  cbn in Hs. apply andb_true_iff in Hs as [H1 H2]. unfold vexpr_list in *. cbn [fold_left]. rewrite IH by exact H2.
  rewrite (Hx H1). reflexivity.
Qed.
Lemma er_cgens : forall gens, Forall EG gens -> forall first, cgens gens first = true ->
  forall stk s, er (vgens true gens stk s) = vgens false gens stk (er s).
Proof.
  intros gens HF. induction HF as [|g gens Hg HF IH]; intros first Hs stk s. reflexivity.
  cbn [cgens] in Hs. apply andb_true_iff in Hs as [H1 H2]. unfold vgens in *. cbn [fold_left]. rewrite (IH false H2).
  rewrite (Hg first H1). reflexivity.
Qed.

Lemma er_cexpr : forall x, EC x.
Proof.
  intro x. induction x using expr_ind' with (Q := EG); unfold EC.
  - intros Hs stk s. cbn [vexpr]. apply er_load.
  - intros Hs stk s. cbn [vexpr c3_expr] in *. rewrite !vgo_eq_t. rewrite c3go_eq in Hs. apply er_clist; auto.
  - intros Hs stk s. cbn [vexpr c3_expr] in *. apply IHx. exact Hs.
  - intros Hs stk s. cbn in Hs. discriminate.
  - intros Hs stk s. cbn [c3_expr] in Hs. rewrite cgens_eq, c3go_eq in Hs. apply andb_true_iff in Hs as [Hg He].
    rewrite !vexpr_comp_eq_t. rewrite er_push. destruct (push s stk true false false) as [stkK s1]. cbn [fst snd]. cbv zeta.
    rewrite <- (er_cgens gs H true Hg). rewrite <- (er_clist es H0 He). rewrite pop_er, er_pop. reflexivity.
  - intros first Hs stk s. cbn [c3_gen] in Hs. rewrite c3go_eq in Hs.
    apply andb_true_iff in Hs as [Hs Hifs]. apply andb_true_iff in Hs as [Hit Htg].
    rewrite !vgen_eq_t. rewrite (er_clist ifs H Hifs). rewrite er_vtarget by exact Htg.
    rewrite IHx. reflexivity. destruct first; auto. apply s1_c3. exact Hit.
Qed.

Definition EE3 (x : expr) : Prop := s3_expr x = true -> forall stk s, er (vexpr true x stk s) = vexpr false x stk (er s).
Lemma er_vexpr_list3 : forall es, Forall EE3 es -> forallb s3_expr es = true ->
  forall stk s, er (vexpr_list true es stk s) = vexpr_list false es stk (er s).
Proof.
  intros es HF. induction HF as [|x es Hx HF IH]; intros Hs stk s. reflexivity.
  cbn in Hs. apply andb_true_iff in Hs as [H1 H2]. unfold vexpr_list in *. cbn [fold_left]. rewrite IH by exact H2.
  rewrite (Hx H1). reflexivity.
Qed.
Lemma er_vexpr3 : forall x, EE3 x.
Proof.
  intro x. induction x using expr_ind' with (Q := fun _ => True); try exact I; unfold EE3; intros Hs stk s.
  - cbn [vexpr]. apply er_load.
  - cbn [vexpr s3_expr] in *. rewrite !vgo_eq_t. rewrite s3go_eq in Hs. apply er_vexpr_list3; auto.
  - cbn [vexpr s3_expr] in *. apply IHx. exact Hs.
  - cbn [s3_expr] in Hs. rewrite s3go_eq in Hs. apply andb_true_iff in Hs as [Hs Hbody]. apply andb_true_iff in Hs as [Hps Hds].
    rewrite !vexpr_lambda_eq_t. rewrite er_push. destruct (push s stk true false false) as [stkA s1]. cbn [fst snd].
    cbv zeta. rewrite <- (er_vexpr_list3 ds H Hds). rewrite <- er_store_names.
    set (s3 := fold_left (fun s p => store true s stkA [p] Plain) ps (vexpr_list true ds (removelast stkA) s1)).
    rewrite in_fd_er. rewrite <- er_with_fd. rewrite er_push.
    destruct (push (with_fd s3 true) stkA false false false) as [stkB s4]. cbn [fst snd].
    rewrite <- (IHx Hbody). rewrite pop_er. rewrite <- er_with_fd. rewrite pop_er.
    rewrite er_pop, er_with_fd, er_pop, <- er_with_fd. reflexivity.
  - cbn [s3_expr] in Hs. apply (er_cexpr (EComp gs es) Hs).
Qed.
Lemma all_EE3 : forall es, Forall EE3 es.
Proof. intro es. apply Forall_forall. intros x _. apply er_vexpr3. Qed.

(* ---------- the (line, import) pairs of the checker list ---------- *)
Definition PPC (x : expr) : Prop := c3_expr x = true -> forall stk s, pairs (vexpr true x stk s) = pairs s.
Definition PPG (g : gen) : Prop := forall first, c3_gen first g = true -> forall stk s, pairs (vgen true g stk s) = pairs s.
Lemma pairs_clist : forall es, Forall PPC es -> forallb c3_expr es = true -> forall stk s, pairs (vexpr_list true es stk s) = pairs s.
Proof.
  intros es HF. induction HF as [|x es Hx HF IH]; intros Hs stk s. reflexivity.
  cbn in Hs. apply andb_true_iff in Hs as [H1 H2]. unfold vexpr_list in *. cbn [fold_left]. rewrite IH by exact H2. apply (Hx H1).
Qed.
Lemma pairs_cgens : forall gens, Forall PPG gens -> forall first, cgens gens first = true ->
  forall stk s, pairs (vgens true gens stk s) = pairs s.
Proof.
  intros gens HF. induction HF as [|g gens Hg HF IH]; intros first Hs stk s. reflexivity.
  cbn [cgens] in Hs. apply andb_true_iff in Hs as [H1 H2]. unfold vgens in *. cbn [fold_left]. rewrite (IH false H2). apply (Hg first H1).
Qed.
Lemma pairs_cexpr : forall x, PPC x.
Proof.
  intro x. induction x using expr_ind' with (Q := PPG); unfold PPC.
  - intros Hs stk s. cbn [vexpr]. apply pairs_load.
  - intros Hs stk s. cbn [vexpr c3_expr] in *. rewrite vgo_eq_t. rewrite c3go_eq in Hs. apply pairs_clist; auto.
  - intros Hs stk s. cbn [vexpr c3_expr] in *. apply IHx. exact Hs.
  - intros Hs stk s. cbn in Hs. discriminate.
  - intros Hs stk s. cbn [c3_expr] in Hs. rewrite cgens_eq, c3go_eq in Hs. apply andb_true_iff in Hs as [Hg He].
    rewrite vexpr_comp_eq_t. pose proof (pairs_push s stk true false false) as E1.
    destruct (push s stk true false false) as [stkK s1]. cbn [snd] in E1. cbv zeta.
    rewrite pairs_pop, (pairs_clist es H0 He), (pairs_cgens gs H true Hg). exact E1.
  - intros first Hs stk s. cbn [c3_gen] in Hs. rewrite c3go_eq in Hs.
    apply andb_true_iff in Hs as [Hs Hifs]. apply andb_true_iff in Hs as [Hit Htg].
    rewrite vgen_eq_t. rewrite (pairs_clist ifs H Hifs). rewrite pairs_vtarget by exact Htg.
    apply IHx. destruct first; auto. apply s1_c3. exact Hit.
Qed.
Definition PPE3 (x : expr) : Prop := s3_expr x = true -> forall stk s, pairs (vexpr true x stk s) = pairs s.
Lemma pairs_vexpr_list3 : forall es, Forall PPE3 es -> forallb s3_expr es = true -> forall stk s, pairs (vexpr_list true es stk s) = pairs s.
Proof.
  intros es HF. induction HF as [|x es Hx HF IH]; intros Hs stk s. reflexivity.
  cbn in Hs. apply andb_true_iff in Hs as [H1 H2]. unfold vexpr_list in *. cbn [fold_left]. rewrite IH by exact H2. apply (Hx H1).
Qed.
Lemma pairs_vexpr3 : forall x, PPE3 x.
Proof.
  intro x. induction x using expr_ind' with (Q := fun _ => True); try exact I; unfold PPE3; intros Hs stk s.
  - cbn [vexpr]. apply pairs_load.
  - cbn [vexpr s3_expr] in *. rewrite vgo_eq_t. rewrite s3go_eq in Hs. apply pairs_vexpr_list3; auto.
  - cbn [vexpr s3_expr] in *. apply IHx. exact Hs.
  - cbn [s3_expr] in Hs. rewrite s3go_eq in Hs. apply andb_true_iff in Hs as [Hs Hbody]. apply andb_true_iff in Hs as [Hps Hds].
    rewrite vexpr_lambda_eq_t. pose proof (pairs_push s stk true false false) as E1.
    destruct (push s stk true false false) as [stkA s1]. cbn [snd] in E1. cbv zeta.
    set (s3 := fold_left (fun s p => store true s stkA [p] Plain) ps (vexpr_list true ds (removelast stkA) s1)).
    assert (E3 : pairs s3 = pairs s). { unfold s3. rewrite pairs_store_names, (pairs_vexpr_list3 ds H Hds). exact E1. }
    pose proof (pairs_push (with_fd s3 true) stkA false false false) as E4.
    destruct (push (with_fd s3 true) stkA false false false) as [stkB s4]. cbn [snd] in E4.
    rewrite pairs_pop, pairs_with_fd, pairs_pop, (IHx Hbody), E4, pairs_with_fd. exact E3.
  - cbn [s3_expr] in Hs. apply (pairs_cexpr (EComp gs es) Hs).
Qed.
Lemma all_PPE3 : forall es, Forall PPE3 es.
Proof. intro es. apply Forall_forall. intros x _. apply pairs_vexpr3. Qed.

(* ---------- statements (the lemmas of Stage2Erase.v restated for stage 3) ---------- *)
Lemma u3_top_split : forall x, u3_top x = true -> s3_stmt x = true /\ ui_stmt x = true.
Proof.
  intros x H. destruct x; cbn [u3_top] in H; try (apply andb_true_iff in H as [H1 H2]; split; [exact H1 | apply noimp_ui; exact H2]).
  - split. cbn. apply u1_s1_items. exact H. exact H.
  - split. cbn. apply andb_true_iff in H as [_ H]. exact H. exact H.
Qed.

Lemma er_vdecos3 : forall decos, forallb (fun d : nat * expr => s3_expr (snd d)) decos = true ->
  forall stk s, er (vdecos true decos stk s) = vdecos false decos stk (er s).
Proof.
  induction decos as [|[dl d] decos IH]; intros Hs stk s. reflexivity.
  cbn in Hs. apply andb_true_iff in Hs as [H1 H2]. unfold vdecos in *. cbn [fold_left fst snd].
  rewrite IH by exact H2. rewrite (er_vexpr3 d H1). reflexivity.
Qed.

Definition ES3 (x : stmt) : Prop := s3_stmt x = true -> ui_stmt x = true ->
  forall stk s, er (vstmt true x stk s) = vstmt false x stk (er s).

Definition EB3 (b : list stmt) : Prop := s3_block b = true -> ui_block b = true ->
  forall stk s, er (vblock true b stk s) = vblock false b stk (er s).

Lemma er_block3 : forall b, Forall ES3 b -> EB3 b.
Proof.
  induction b as [|x b IH]; intros HF Hs Hu stk s. reflexivity.
  inversion HF as [|? ? Hx HF']; subst. cbn in Hs, Hu. apply andb_true_iff in Hs as [H1 H2]. apply andb_true_iff in Hu as [U1 U2].
  unfold EB3, vblock in *. cbn [fold_left]. rewrite (IH HF' H2 U2). rewrite (Hx H1 U1). reflexivity.
Qed.

Lemma er_with_items3 : forall items, forallb s3_with_item items = true -> forall stk s,
  er (fold_left (with_item_step true stk) items s) = fold_left (with_item_step false stk) items (er s).
Proof.
  induction items as [|[x ot] items IH]; intros Hs stk s. reflexivity. cbn in Hs. apply andb_true_iff in Hs as [H12 H3].
  unfold s3_with_item in H12. cbn [fst snd] in H12. apply andb_true_iff in H12 as [H1 H2].
  cbn [fold_left]. rewrite IH by exact H3. unfold with_item_step at 2 4. cbn [fst snd].
  destruct ot as [t|]. rewrite er_vtarget by exact H2. rewrite (er_vexpr3 x H1). reflexivity. rewrite (er_vexpr3 x H1). reflexivity.
Qed.

Lemma er_stmt3 : forall x, ES3 x.
Proof.
  induction x using stmt_ind'; try (intros Hs; discriminate); try rename e into e0; intros Hs Hu stk s.
  - cbn [vstmt s3_stmt] in *. rewrite (er_vexpr3 e0 Hs). reflexivity.
  - cbn [vstmt s3_stmt] in *. apply andb_true_iff in Hs as [H1 H2]. rewrite er_targets by exact H2. rewrite (er_vexpr3 v H1). reflexivity.
  - cbn [vstmt s3_stmt] in *. apply andb_true_iff in Hs as [H12 H3]. apply andb_true_iff in H12 as [H1 H2].
    apply is_nil_true in H1. subst a. rewrite er_store_name. rewrite (er_vexpr3 v H3). rewrite er_load. reflexivity.
  - cbn [vstmt ui_stmt] in *. rewrite <- er_with_ln. generalize (with_ln s ln). clear Hs.
    induction items as [|it items IH]; intro s0. reflexivity. cbn in Hu. apply andb_true_iff in Hu as [U1 U2].
    cbn [fold_left]. rewrite IH by exact U2. rewrite er_import_item by exact U1. reflexivity.
  - cbn [vstmt ui_stmt] in *. apply andb_true_iff in Hu as [Um Hu]. rewrite <- er_with_ln. generalize (with_ln s ln). clear Hs.
    induction items as [|it items IH]; intro s0. reflexivity. cbn in Hu. apply andb_true_iff in Hu as [U1 U2].
    cbn [fold_left]. rewrite IH by exact U2. rewrite er_from_item by assumption. reflexivity.
  - (* SDef *)
    cbn [s3_stmt ui_stmt] in Hs, Hu. rewrite s3_blk_fix in Hs. rewrite ui_blk_fix in Hu.
    apply andb_true_iff in Hs as [Hs Hbody]. apply andb_true_iff in Hs as [Hs Hret].
    apply andb_true_iff in Hs as [Hs Hps]. apply andb_true_iff in Hs as [Hnm Hdecos].
    destruct (s3_params_facts ps Hps) as [Hhdr _].
    rewrite !vstmt_def_eq_t. cbv zeta.
    rewrite <- er_with_ln, <- (er_vdecos3 decos Hdecos). rewrite er_push.
    destruct (push (vdecos true decos stk (with_ln s ln)) stk true false false) as [stkA s1]. cbn [fst snd].
    rewrite in_cd_er.
    assert (E3 : er (if Nat.ltb 0 (in_cd s1) then set_in_scope s1 (top stkA) [n_class] Plain else s1)
                 = if Nat.ltb 0 (in_cd s1) then set_in_scope (er s1) (top stkA) [n_class] Plain else er s1).
    { destruct (Nat.ltb 0 (in_cd s1)). apply er_set_in_scope. reflexivity. }
    rewrite <- E3. set (s3 := if Nat.ltb 0 (in_cd s1) then set_in_scope s1 (top stkA) [n_class] Plain else s1).
    rewrite <- er_with_ln. rewrite !varguments_eq_t. rewrite <- (er_vexpr_list3 (hdr_finder ps) (all_EE3 _) Hhdr).
    rewrite <- er_store_names.
    set (s4 := fold_left (fun s n => store true s stkA [n] Plain) (pnames_finder ps) (vexpr_list true (hdr_finder ps) (removelast stkA) (with_ln s3 ln))).
    assert (E5 : er (voexpr true ret (removelast stkA) s4) = voexpr false ret (removelast stkA) (er s4)).
    { destruct ret as [r|]; cbn [voexpr s3_oexpr] in *. apply (er_vexpr3 r Hret). reflexivity. }
    rewrite <- E5. set (s5 := voexpr true ret (removelast stkA) s4).
    rewrite in_fd_er, <- er_with_fd, er_push.
    destruct (push (with_fd s5 true) stkA false false true) as [stkB s6]. cbn [fst snd].
    rewrite in_cd_er.
    assert (E7 : er (if Nat.eqb (in_cd s6) 0 then store true s6 stkB [nm] Plain else s6)
                 = if Nat.eqb (in_cd s6) 0 then store false (er s6) stkB [nm] Plain else er s6).
    { destruct (Nat.eqb (in_cd s6) 0). apply er_store_name. reflexivity. }
    rewrite <- E7. set (s7 := if Nat.eqb (in_cd s6) 0 then store true s6 stkB [nm] Plain else s6).
    rewrite <- (er_block3 body H Hbody Hu). rewrite !pop_er. rewrite <- er_with_fd, pop_er.
    rewrite er_store_name. rewrite er_pop, er_with_fd, er_pop, <- er_with_fd. reflexivity.
  - (* SFor *)
    cbn [s3_stmt ui_stmt] in Hs, Hu. rewrite !s3_blk_fix in Hs. rewrite !ui_blk_fix in Hu.
    apply andb_true_iff in Hs as [H123 H4]. apply andb_true_iff in H123 as [H12 H3]. apply andb_true_iff in H12 as [H1 H2].
    apply andb_true_iff in Hu as [U1 U2].
    rewrite !vstmt_for. rewrite (er_block3 o H0 H4 U2), (er_block3 b H H3 U1). rewrite er_vtarget by exact H1.
    rewrite (er_vexpr3 it H2). reflexivity.
  - (* SWhile *)
    cbn [s3_stmt ui_stmt] in Hs, Hu. rewrite !s3_blk_fix in Hs. rewrite !ui_blk_fix in Hu.
    apply andb_true_iff in Hs as [H12 H3]. apply andb_true_iff in H12 as [H1 H2]. apply is_nil_true in H3. subst o.
    apply andb_true_iff in Hu as [U1 U2].
    rewrite !vstmt_while. unfold vblock at 1 3. cbn [fold_left]. rewrite (er_block3 b H H2 U1). rewrite (er_vexpr3 t H1). reflexivity.
  - (* SIf *)
    cbn [s3_stmt ui_stmt] in Hs, Hu. rewrite !s3_blk_fix in Hs. rewrite !ui_blk_fix in Hu.
    apply andb_true_iff in Hs as [H12 H3]. apply andb_true_iff in H12 as [H1 H2]. apply is_nil_true in H3. subst o.
    apply andb_true_iff in Hu as [U1 U2].
    rewrite !vstmt_if. unfold vblock at 1 3. cbn [fold_left]. rewrite (er_block3 b H H2 U1). rewrite (er_vexpr3 t H1). reflexivity.
  - (* SWith *)
    cbn [s3_stmt ui_stmt] in Hs, Hu. rewrite !s3_blk_fix in Hs. rewrite !ui_blk_fix in Hu. apply andb_true_iff in Hs as [H1 H2].
    rewrite !vstmt_with. rewrite (er_block3 b H H2 Hu). rewrite er_with_items3 by exact H1. reflexivity.
  - (* STry *)
    cbn [s3_stmt ui_stmt] in Hs, Hu. rewrite !s3_blk_fix in Hs. rewrite !ui_blk_fix in Hu.
    apply andb_true_iff in Hs as [Habc Hd]. apply andb_true_iff in Habc as [Hab Hc]. apply andb_true_iff in Hab as [Ha Hb].
    apply is_nil_true in Hb. subst hs.
    apply andb_true_iff in Hu as [Hu Ud]. apply andb_true_iff in Hu as [Hu Uc]. apply andb_true_iff in Hu as [Ua _].
    rewrite !vstmt_try_nohandler. rewrite (er_block3 f H2 Hd Ud), (er_block3 o H1 Hc Uc), (er_block3 b H Ha Ua). reflexivity.
  - reflexivity.
  - reflexivity.
Qed.

Lemma er_vblock3 : forall b, s3_block b = true -> ui_block b = true ->
  forall stk s, er (vblock true b stk s) = vblock false b stk (er s).
Proof. intros b. apply er_block3. apply Forall_forall. intros x _. apply er_stmt3. Qed.

(* ---------- only import statements create use-checkers: the (line, import) pairs of the checker list are unchanged
   by everything else ---------- *)

Definition PPS3 (x : stmt) : Prop := s3_stmt x = true -> noimp_stmt x = true -> forall stk s, pairs (vstmt true x stk s) = pairs s.

Lemma pairs_block3 : forall b, Forall PPS3 b -> s3_block b = true -> forallb noimp_stmt b = true ->
  forall stk s, pairs (vblock true b stk s) = pairs s.
Proof.
  induction b as [|x b IH]; intros HF Hs Hn stk s. reflexivity.
  inversion HF as [|? ? Hx HF']; subst. cbn in Hs, Hn. apply andb_true_iff in Hs as [H1 H2]. apply andb_true_iff in Hn as [N1 N2].
  unfold vblock in *. cbn [fold_left]. rewrite (IH HF' H2 N2). apply (Hx H1 N1).
Qed.

Lemma pairs_vdecos3 : forall decos, forallb (fun d : nat * expr => s3_expr (snd d)) decos = true ->
  forall stk s, pairs (vdecos true decos stk s) = pairs s.
Proof.
  induction decos as [|[dl d] decos IH]; intros Hs stk s. reflexivity.
  cbn in Hs. apply andb_true_iff in Hs as [H1 H2]. unfold vdecos in *. cbn [fold_left fst snd].
  rewrite IH by exact H2. rewrite (pairs_vexpr3 d H1). reflexivity.
Qed.

Lemma pairs_with_items3 : forall items, forallb s3_with_item items = true -> forall stk s,
  pairs (fold_left (with_item_step true stk) items s) = pairs s.
Proof.
  induction items as [|[x ot] items IH]; intros Hs stk s. reflexivity. cbn in Hs. apply andb_true_iff in Hs as [H12 H3].
  unfold s3_with_item in H12. cbn [fst snd] in H12. apply andb_true_iff in H12 as [H1 H2].
  cbn [fold_left]. rewrite IH by exact H3. unfold with_item_step. cbn [fst snd].
  destruct ot as [t|]. rewrite pairs_vtarget by exact H2. apply (pairs_vexpr3 x H1). apply (pairs_vexpr3 x H1).
Qed.

Lemma pairs_stmt3 : forall x, PPS3 x.
Proof.
  induction x using stmt_ind'; try (intros Hs; discriminate); try (intros Hs Hn; discriminate); try rename e into e0; intros Hs Hn stk s.
  - cbn [vstmt s3_stmt] in *. rewrite (pairs_vexpr3 e0 Hs). reflexivity.
  - cbn [vstmt s3_stmt] in *. apply andb_true_iff in Hs as [H1 H2]. rewrite pairs_targets by exact H2. rewrite (pairs_vexpr3 v H1). reflexivity.
  - cbn [vstmt s3_stmt] in *. apply andb_true_iff in Hs as [H12 H3]. apply andb_true_iff in H12 as [H1 H2].
    apply is_nil_true in H1. subst a. rewrite pairs_store_name. rewrite (pairs_vexpr3 v H3). rewrite pairs_load. reflexivity.
  - (* SDef *)
    cbn [s3_stmt noimp_stmt] in Hs, Hn. rewrite s3_blk_fix in Hs. rewrite noimp_blk_fix in Hn.
    apply andb_true_iff in Hs as [Hs Hbody]. apply andb_true_iff in Hs as [Hs Hret].
    apply andb_true_iff in Hs as [Hs Hps]. apply andb_true_iff in Hs as [Hnm Hdecos].
    destruct (s3_params_facts ps Hps) as [Hhdr _].
    rewrite vstmt_def_eq_t. cbv zeta.
    pose proof (pairs_vdecos3 decos Hdecos stk (with_ln s ln)) as E0.
    pose proof (pairs_push (vdecos true decos stk (with_ln s ln)) stk true false false) as E1.
    destruct (push (vdecos true decos stk (with_ln s ln)) stk true false false) as [stkA s1]. cbn [snd] in E1.
    set (s3 := if Nat.ltb 0 (in_cd s1) then set_in_scope s1 (top stkA) [n_class] Plain else s1).
    assert (E3 : pairs s3 = pairs s1). { unfold s3. destruct (Nat.ltb 0 (in_cd s1)). apply pairs_set_in_scope. reflexivity. }
    rewrite varguments_eq_t.
    set (s4 := fold_left (fun s n => store true s stkA [n] Plain) (pnames_finder ps) (vexpr_list true (hdr_finder ps) (removelast stkA) (with_ln s3 ln))).
    assert (E4 : pairs s4 = pairs s3). { unfold s4. rewrite pairs_store_names, (pairs_vexpr_list3 (hdr_finder ps) (all_PPE3 _) Hhdr). reflexivity. }
    set (s5 := voexpr true ret (removelast stkA) s4).
    assert (E5 : pairs s5 = pairs s4). { unfold s5. destruct ret as [r|]; cbn [voexpr s3_oexpr] in *. apply (pairs_vexpr3 r Hret). reflexivity. }
    pose proof (pairs_push (with_fd s5 true) stkA false false true) as E6.
    destruct (push (with_fd s5 true) stkA false false true) as [stkB s6]. cbn [snd] in E6.
    set (s7 := if Nat.eqb (in_cd s6) 0 then store true s6 stkB [nm] Plain else s6).
    assert (E7 : pairs s7 = pairs s6). { unfold s7. destruct (Nat.eqb (in_cd s6) 0). apply pairs_store_name. reflexivity. }
    rewrite pairs_store_name, pairs_pop, pairs_with_fd, pairs_pop. rewrite (pairs_block3 body H Hbody Hn).
    rewrite E7, E6, pairs_with_fd, E5, E4, E3, E1, E0. reflexivity.
  - (* SFor *)
    cbn [s3_stmt noimp_stmt] in Hs, Hn. rewrite !s3_blk_fix in Hs. rewrite !noimp_blk_fix in Hn.
    apply andb_true_iff in Hs as [H123 H4]. apply andb_true_iff in H123 as [H12 H3]. apply andb_true_iff in H12 as [H1 H2].
    apply andb_true_iff in Hn as [U1 U2].
    rewrite vstmt_for. rewrite (pairs_block3 o H0 H4 U2), (pairs_block3 b H H3 U1). rewrite pairs_vtarget by exact H1.
    rewrite (pairs_vexpr3 it H2). reflexivity.
  - (* SWhile *)
    cbn [s3_stmt noimp_stmt] in Hs, Hn. rewrite !s3_blk_fix in Hs. rewrite !noimp_blk_fix in Hn.
    apply andb_true_iff in Hs as [H12 H3]. apply andb_true_iff in H12 as [H1 H2]. apply is_nil_true in H3. subst o.
    apply andb_true_iff in Hn as [U1 U2].
    rewrite vstmt_while. unfold vblock at 1. cbn [fold_left]. rewrite (pairs_block3 b H H2 U1). rewrite (pairs_vexpr3 t H1). reflexivity.
  - (* SIf *)
    cbn [s3_stmt noimp_stmt] in Hs, Hn. rewrite !s3_blk_fix in Hs. rewrite !noimp_blk_fix in Hn.
    apply andb_true_iff in Hs as [H12 H3]. apply andb_true_iff in H12 as [H1 H2]. apply is_nil_true in H3. subst o.
    apply andb_true_iff in Hn as [U1 U2].
    rewrite vstmt_if. unfold vblock at 1. cbn [fold_left]. rewrite (pairs_block3 b H H2 U1). rewrite (pairs_vexpr3 t H1). reflexivity.
  - (* SWith *)
    cbn [s3_stmt noimp_stmt] in Hs, Hn. rewrite !s3_blk_fix in Hs. rewrite !noimp_blk_fix in Hn. apply andb_true_iff in Hs as [H1 H2].
    rewrite vstmt_with. rewrite (pairs_block3 b H H2 Hn). rewrite pairs_with_items3 by exact H1. reflexivity.
  - (* STry *)
    cbn [s3_stmt noimp_stmt] in Hs, Hn. rewrite !s3_blk_fix in Hs. rewrite !noimp_blk_fix in Hn.
    apply andb_true_iff in Hs as [Habc Hd]. apply andb_true_iff in Habc as [Hab Hc]. apply andb_true_iff in Hab as [Ha Hb].
    apply is_nil_true in Hb. subst hs.
    apply andb_true_iff in Hn as [Hn Ud]. apply andb_true_iff in Hn as [Hn Uc]. apply andb_true_iff in Hn as [Ua _].
    rewrite vstmt_try_nohandler. rewrite (pairs_block3 f H2 Hd Ud), (pairs_block3 o H1 Hc Uc), (pairs_block3 b H Ha Ua). reflexivity.
  - reflexivity.
  - reflexivity.
Qed.

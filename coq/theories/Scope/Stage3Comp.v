(* M7, stage 3 - comprehensions on top of the stage-2 simulation.
   While a comprehension is being scanned the finder's stack is the stack of the open function levels (Stage2Inv.stack_of)
   followed by the scopes of the open comprehensions; PySem's environment is the comprehension frames followed by the
   environment of the levels.  Inside a comprehension of the fragment there are only loads, target stores and nested
   comprehensions (Fragment.c3_expr), so the levels below do not change: their invariant (Inv2) is kept with the open
   comprehension scopes listed among the scopes "being filled" ([ex]), and a second, small invariant describes the
   comprehension scopes themselves. *)
From Coq Require Import NArith List Bool Arith Lia.
From Verif Require Import Scope.PySyntax Scope.Finder Scope.PySem Scope.Fragment Scope.AuxProofs Scope.FinderProofs
                          Scope.Stage2Base Scope.Stage2Inv Scope.Stage2Steps Scope.Stage2Proofs Scope.Stage2Stmt.
Import ListNotations.

(* an open comprehension: its scope id, all its targets, the targets bound so far *)
Record cscope := mkCS { cs_id : nat; cs_T : list name; cs_acc : list name }.
(* comprehension contexts are listed innermost first; on the stack the outermost comes first *)
Definition cids (C : list cscope) : stack := rev (map cs_id C).

(* finder side *)
Definition cf_ok (exp : expmap) (s : st) (c : cscope) : Prop :=
  (forall x, has s (cs_id c) x = true <-> In x (cs_acc c)) /\ incl (cs_acc c) (cs_T c) /\
  (forall x, In x (exp (cs_id c)) <-> In x (cs_T c)) /\ cs_id c < next_id s.
Definition CF (exp : expmap) (s : st) (C : list cscope) : Prop := Forall (cf_ok exp s) C.
(* PySem side: one FComp frame per comprehension *)
Definition ce_ok (c : cscope) (k : frame) : Prop :=
  fk k = FComp /\ (forall x, mem x (flocals k) = true <-> In x (cs_T c)) /\ names_eq (fdyn k) (cs_acc c).
Definition CE (C : list cscope) (ks : list frame) : Prop := Forall2 ce_ok C ks.

Lemma bound_cids : forall exp s C x, CF exp s C -> (bound s (cids C) x = true <-> exists c, In c C /\ In x (cs_acc c)).
Proof.
  intros exp s C x H. unfold CF in H. unfold cids, bound. rewrite existsb_exists. split.
  - intros (i & Hi & Hh). apply in_rev in Hi. apply in_map_iff in Hi as (c & <- & Hc). exists c. split. exact Hc.
    rewrite Forall_forall in H. apply (proj1 (H c Hc)). exact Hh.
  - intros (c & Hc & Hx). exists (cs_id c). split. apply -> in_rev. apply in_map. exact Hc.
    rewrite Forall_forall in H. apply (proj1 (H c Hc)). exact Hx.
Qed.
Lemma ebound_cids : forall exp s C x, CF exp s C -> (ebound exp (cids C) x = true <-> exists c, In c C /\ In x (cs_T c)).
Proof.
  intros exp s C x H. unfold CF in H. unfold cids, ebound. rewrite existsb_exists. split.
  - intros (i & Hi & Hh). apply in_rev in Hi. apply in_map_iff in Hi as (c & <- & Hc). exists c. split. exact Hc.
    rewrite Forall_forall in H. destruct (H c Hc) as (_ & _ & E & _). apply E. apply mem_In. exact Hh.
  - intros (c & Hc & Hx). exists (cs_id c). split. apply -> in_rev. apply in_map. exact Hc.
    rewrite Forall_forall in H. destruct (H c Hc) as (_ & _ & E & _). apply mem_In. apply E. exact Hx.
Qed.

(* ---------- resolution through comprehension frames ---------- *)
Lemma resolve_outer_comp : forall x k f e',
  fk k = FComp ->
  resolve_outer x (k :: f :: e') =
  if mem x (flocals k) then match lookup_b x (fdyn k) with Some b => Bound b | None => UnboundLocal end
  else resolve_outer x (f :: e').
Proof. intros. rewrite resolve_outer_cons, H. reflexivity. Qed.

Lemma rc_unbound : forall C ks e x, CE C ks -> e <> [] ->
  resolve_outer x (ks ++ e) = Unbound -> (forall c, In c C -> ~ In x (cs_T c)) /\ resolve_outer x e = Unbound.
Proof.
  intros C ks e x H He. induction H as [|c k C ks (Hk & Hl & Hd) HF IH]; intro Hr.
  - split. intros c []. exact Hr.
  - cbn [app] in Hr. destruct (ks ++ e) as [|f e'] eqn:E. { destruct ks; cbn in E; congruence. }
    rewrite (resolve_outer_comp x k f e' Hk) in Hr.
    destruct (mem x (flocals k)) eqn:Em.
    + destruct (lookup_b x (fdyn k)); discriminate.
    + destruct (IH Hr) as [A B]. split; [|exact B]. intros c0 [<-|Hc0]. intro Hx. apply Hl in Hx. congruence. apply A. exact Hc0.
Qed.

Lemma rc_failing : forall C ks e x, CE C ks -> e <> [] ->
  (forall c, In c C -> ~ In x (cs_acc c)) ->
  (resolve_outer x e = Unbound \/ resolve_outer x e = UnboundLocal) ->
  resolve_outer x (ks ++ e) = Unbound \/ resolve_outer x (ks ++ e) = UnboundLocal.
Proof.
  intros C ks e x H He. induction H as [|c k C ks (Hk & Hl & Hd) HF IH]; intros Hacc Hr.
  - exact Hr.
  - cbn [app]. destruct (ks ++ e) as [|f e'] eqn:E. { destruct ks; cbn in E; congruence. }
    rewrite (resolve_outer_comp x k f e' Hk).
    destruct (mem x (flocals k)) eqn:Em.
    + rewrite (proj2 (lookup_none_iff _ _ _ Hd)). auto. apply Hacc. left. reflexivity.
    + apply IH. intros c0 Hc0. apply Hacc. right. exact Hc0. exact Hr.
Qed.

Lemma resolve_comp_outer : forall C ks L e eaccs x, CE C ks -> EnvI L e eaccs ->
  resolve x (ks ++ e) = resolve_outer x (ks ++ e).
Proof.
  intros C ks L e eaccs x H HE. destruct H as [|c k C ks (Hk & _) HF].
  - cbn. eapply resolve_EnvI; eauto.
  - cbn [app]. assert (He : e <> []) by (eapply EnvI_nonempty; eauto).
    destruct (ks ++ e) as [|f e'] eqn:E. { destruct ks; cbn in E; congruence. }
    unfold resolve. rewrite Hk. reflexivity.
Qed.

(* ---------- the finder-side facts survive what does not touch the comprehension scopes ---------- *)
Lemma CF_same : forall exp s s' C, (forall c, In c C -> forall x, has s' (cs_id c) x = has s (cs_id c) x) ->
  next_id s <= next_id s' -> CF exp s C -> CF exp s' C.
Proof.
  intros exp s s' C Hh Hn H. unfold CF in *. rewrite Forall_forall in *. intros c Hc.
  destruct (H c Hc) as (A & B & D & E). split. intro x. rewrite (Hh c Hc). apply A. split. exact B. split. exact D. lia.
Qed.
Lemma CF_ext : forall exp exp' s C n, ext n exp exp' -> n <= next_id s \/ True -> (forall c, In c C -> cs_id c < n) ->
  CF exp s C -> CF exp' s C.
Proof.
  intros exp exp' s C n He _ Hlt H. unfold CF in *. rewrite Forall_forall in *. intros c Hc.
  destruct (H c Hc) as (A & B & D & E). split. exact A. split. exact B. split. intro x. rewrite He. apply D. apply Hlt. exact Hc. exact E.
Qed.

(* ---------- a load inside a comprehension at module level (immediate check) ---------- *)
Lemma bound_module : forall exp l0 acc ex s n, StI exp [l0] [acc] ex s -> ExOK [l0] ex -> CtxI exp [l0] ->
  (bound s (stack_of [l0]) n = true <-> In n (l_P l0 ++ acc)).
Proof.
  intros exp l0 acc ex s n HS HX HC.
  assert (Hown : l_own l0 = []) by (apply (cx_own _ _ HC)).
  rewrite stack_of_cons. cbn [stack_of rev flat_map app]. rewrite bound_app, bound_single, orb_true_iff.
  rewrite (bound_closed exp s (l_as l0) n) by (intros i Hi; eapply as_closed; eauto; left; reflexivity).
  rewrite (cx_as _ _ HC l0 (or_introl eq_refl)).
  pose proof (st_top _ _ _ _ _ HS) as Ht. inversion Ht as [|? ? ? ? [Ht1 _] _]; subst.
  rewrite Ht1, Hown. cbn [app]. rewrite in_app_iff. reflexivity.
Qed.

Lemma cload_imm : forall exp l0 acc ex s e tr n a pre C ks,
  StI exp [l0] [acc] ex s -> ExOK [l0] ex -> CtxI exp [l0] -> EnvI [l0] e [acc] -> TrI exp s tr ->
  CF exp s (pre ++ C) -> Forall (fun c => cs_acc c = []) pre -> CE C ks ->
  let s' := load s (stack_of [l0] ++ cids (pre ++ C)) (n :: a) in
  StI exp [l0] [acc] ex s' /\ TrI exp s' (tr ++ [(lineno s, n, resolve n (ks ++ e))]) /\ CF exp s' (pre ++ C) /\
  lineno s' = lineno s /\ next_id s' = next_id s /\ in_fd s' = in_fd s.
Proof.
  intros exp l0 acc ex s e tr n a pre C ks HS HX HC HE HT HF Hpre HCE. cbv zeta.
  assert (Hfd : in_fd s = false) by (rewrite (st_fd _ _ _ _ _ HS); reflexivity).
  unfold load. rewrite Hfd.
  rewrite check_load_S by (apply (st_sinv _ _ _ _ _ HS)).
  rewrite (resolve_comp_outer C ks [l0] e [acc] n HCE HE).
  assert (He : e <> []) by (eapply EnvI_nonempty; eauto).
  pose proof (bound_module exp l0 acc ex s n HS HX HC) as Hb.
  pose proof (bound_cids exp s (pre ++ C) n HF) as Hbc.
  assert (Hmod : resolve_outer n e = match lookup_b n (fdyn (hd (mkFrame FModule [] [] []) e)) with Some b => Bound b | None => Unbound end).
  { destruct e as [|f [|? ?]]; try contradiction. reflexivity. }
  assert (Hdyn : forall y, lookup_b y (fdyn (hd (mkFrame FModule [] [] []) e)) <> None <-> In y (l_P l0 ++ acc)).
  { destruct e as [|f [|? ?]]; try contradiction. destruct HE as [_ HE2]. exact HE2. }
  rewrite bound_app.
  destruct (bound s (stack_of [l0]) n || bound s (cids (pre ++ C)) n) eqn:E.
  - (* found: nothing reported; the read is no failing global lookup *)
    split. exact HS. split; [|split; [exact HF|repeat split; auto]].
    destruct HT as [A B]. constructor.
    + intros l m Hin. apply in_app_iff in Hin as [Hin|[Hin|[]]]. auto.
      injection Hin as <- <- Hr. exfalso.
      destruct (rc_unbound C ks e n HCE He Hr) as [R1 R2].
      apply orb_true_iff in E as [E|E].
      * apply Hb in E. apply Hdyn in E. rewrite Hmod in R2. destruct (lookup_b n (fdyn (hd _ e))); congruence.
      * apply Hbc in E as (c & Hc & Hx). apply in_app_iff in Hc as [Hc|Hc].
        -- rewrite Forall_forall in Hpre. rewrite (Hpre c Hc) in Hx. destruct Hx.
        -- unfold CF in HF. rewrite Forall_forall in HF. destruct (HF c (proj2 (in_app_iff _ _ _) (or_intror Hc))) as (_ & Hi & _).
           apply (R1 c Hc). apply Hi. exact Hx.
    + intros l m Hr. destruct (B l m Hr); [left|right]; apply in_app_iff; auto.
  - apply orb_false_iff in E as [E1 E2].
    destruct (add_missing_spec s (stack_of [l0] ++ cids (pre ++ C)) (lineno s) (n :: a)) as [Em E3].
    split. rewrite Em. apply StI_with_missing. exact HS.
    split; [|rewrite Em; split; [|split; [reflexivity|split; [reflexivity|exact Hfd]]]].
    2:{ eapply CF_same; [| |exact HF]. intros; reflexivity. cbn. lia. }
    assert (Hfail : resolve_outer n (ks ++ e) = Unbound \/ resolve_outer n (ks ++ e) = UnboundLocal).
    { apply (rc_failing C ks e n HCE He).
      - intros c Hc Hx. assert (bound s (cids (pre ++ C)) n = true). { apply Hbc. exists c. split; auto. apply in_app_iff. auto. } congruence.
      - left. rewrite Hmod. destruct (lookup_b n (fdyn (hd _ e))) eqn:El; auto. exfalso.
        assert (In n (l_P l0 ++ acc)) by (apply Hdyn; congruence). apply Hb in H. congruence. }
    destruct HT as [A B]. constructor.
    + intros l m Hin. apply in_app_iff in Hin as [Hin|[Hin|[]]].
      * eapply Rep_grow; [| |apply A; exact Hin]. intros l1 d H1. apply E3. auto. rewrite Em. auto.
      * injection Hin as <- <- _. left. exists a. apply E3. auto.
    + intros l m [(a' & H)|(a' & stk & H & Hbb)].
      * apply E3 in H as [H|[-> H]]. destruct (B l m) as [X|X]; [left; eauto| |]; [left|right]; apply in_app_iff; auto.
        injection H as <- _. destruct Hfail as [X|X]; rewrite X; [left|right]; apply in_app_iff; right; left; reflexivity.
      * rewrite Em in H. cbn in H. destruct (B l m) as [X|X]. right; eauto. left; apply in_app_iff; auto. right; apply in_app_iff; auto.
Qed.

(* ---------- a load inside a comprehension inside a function (deferred check) ---------- *)
Lemma cids_cons : forall c C, cids (c :: C) = cids C ++ [cs_id c].
Proof. reflexivity. Qed.

Lemma ebound_base_failing : forall exp l l' L'' e acc x,
  CtxI exp (l :: l' :: L'') -> EnvI (l :: l' :: L'') e (acc :: map l_B (l' :: L'')) ->
  ebound exp (stack_of (l :: l' :: L'')) x = false -> resolve_outer x e = Unbound \/ resolve_outer x e = UnboundLocal.
Proof.
  intros exp l l' L'' e acc x HC HE Hb. eapply resolve_outer_failing. exact HE.
  assert (G : forall l0, In l0 (l :: l' :: L'') -> ~ In x (l_P l0 ++ l_B l0)).
  { intros l0 Hin Hx. assert (ebound exp (stack_of (l :: l' :: L'')) x = true).
    { apply (ebound_levels exp _ x HC). exists l0. split; auto. rewrite in_app_iff in *. tauto. }
    congruence. }
  destruct e as [|f [|f' e']]; try contradiction. destruct HE as (_ & _ & _ & Hi & _).
  change (nowhere (l :: l' :: L'') (acc :: map l_B (l' :: L'')) x)
    with (~ In x (l_P l ++ acc) /\ nowhere (l' :: L'') (map l_B (l' :: L'')) x).
  split.
  - intro Hx. apply (G l (or_introl eq_refl)). rewrite in_app_iff in *. destruct Hx as [Hx|Hx]; auto.
  - assert (G' : forall l0, In l0 (l' :: L'') -> ~ In x (l_P l0 ++ l_B l0)) by (intros l0 H0; apply G; right; exact H0).
    clear - G'. induction (l' :: L'') as [|k K IH]; cbn. exact I.
    split. apply G'. left; reflexivity. apply IH. intros l0 Hin. apply G'. right. exact Hin.
Qed.

Lemma cdefer_step : forall exp l l' L'' accs acc ex s e tr n a c0 C0 C ks,
  StI exp (l :: l' :: L'') (acc :: accs) ex s -> ExOK (l :: l' :: L'') ex -> CtxI exp (l :: l' :: L'') ->
  EnvI (l :: l' :: L'') e (acc :: map l_B (l' :: L'')) -> TrI exp s tr ->
  CF exp s (c0 :: C0) -> CE C ks ->
  (* the PySem frames stand for all the comprehension scopes, or for all but the innermost, which is still empty *)
  (C = c0 :: C0 \/ (C = C0 /\ cs_acc c0 = [])) ->
  let stkx := stack_of (l :: l' :: L'') ++ cids (c0 :: C0) in
  let s' := defer_load s stkx (n :: a) in
  exists exp', ext (next_id s) exp exp' /\ StI exp' (l :: l' :: L'') (acc :: accs) ex s' /\ CtxI exp' (l :: l' :: L'') /\
     TrI exp' s' (tr ++ [(lineno s, n, resolve n (ks ++ e))]) /\ CF exp' s' (c0 :: C0) /\
     lineno s' = lineno s /\ next_id s <= next_id s' /\ in_fd s' = in_fd s.
Proof.
  intros exp l l' L'' accs acc ex s e tr n a c0 C0 C ks HS HX HC HE HT HF HCE HCshape. cbv zeta.
  set (L := l :: l' :: L'') in *. set (stkx := stack_of L ++ cids (c0 :: C0)).
  pose proof (st_sinv _ _ _ _ _ HS) as HI.
  assert (He : e <> []) by (eapply EnvI_nonempty; eauto).
  rewrite defer_load_S by exact HI. rewrite (resolve_comp_outer C ks L e _ n HCE HE).
  pose proof (bound_cids exp s (c0 :: C0) n HF) as Hbc.
  pose proof HF as HF'. unfold CF in HF'. rewrite Forall_forall in HF'.
  (* facts about the comprehension scopes seen from PySem *)
  assert (HinC : forall c, In c C -> In c (c0 :: C0)).
  { intros c Hc. destruct HCshape as [->|[-> _]]. exact Hc. right. exact Hc. }
  assert (Hrest : forall c, In c C0 -> In c C).
  { intros c Hc. destruct HCshape as [->|[-> _]]. right. exact Hc. exact Hc. }
  unfold stkx. rewrite bound_app.
  destruct (bound s (stack_of L) n || bound s (cids (c0 :: C0)) n) eqn:Eb.
  - (* found now *)
    exists exp. split. apply ext_refl. split. exact HS. split. exact HC. split; [|split; [exact HF|auto]].
    destruct HT as [A B]. constructor.
    + intros l1 m Hin. apply in_app_iff in Hin as [Hin|[Hin|[]]]. auto.
      injection Hin as <- <- Hr. exfalso.
      destruct (rc_unbound C ks e n HCE He Hr) as [R1 R2].
      apply orb_true_iff in Eb as [Eb|Eb].
      * pose proof (unbound_not_ebound exp l l' L'' e acc n HC HE R2) as E1.
        pose proof (bound_sub _ _ _ _ _ _ _ HS Eb) as E2. fold L in E1. congruence.
      * apply Hbc in Eb as (c & Hc & Hx). destruct Hc as [<-|Hc].
        -- destruct HCshape as [->|[-> Hnil]]. apply (R1 c0 (or_introl eq_refl)). destruct (HF' c0 (or_introl eq_refl)) as (_ & Hi0 & _). apply Hi0. exact Hx.
           rewrite Hnil in Hx. destruct Hx.
        -- apply (R1 c (Hrest c Hc)). destruct (HF' c (or_intror Hc)) as (_ & Hi0 & _). apply Hi0. exact Hx.
    + intros l1 m Hr. destruct (B l1 m Hr); [left|right]; apply in_app_iff; auto.
  - apply orb_false_iff in Eb as [Eb1 Eb2].
    rewrite clone_top_S by exact HI. cbv zeta.
    assert (Etop : top (stack_of L ++ cids (c0 :: C0)) = cs_id c0).
    { rewrite cids_cons, app_assoc. apply top_snoc. }
    assert (Erl : removelast (stack_of L ++ cids (c0 :: C0)) = stack_of L ++ cids C0).
    { rewrite cids_cons, app_assoc. apply removelast_snoc. }
    rewrite Etop, Erl.
    set (j := next_id s). set (d := scope_dict s (cs_id c0)).
    set (s2 := snd (new_scope s KClone d)).
    set (stk' := (stack_of L ++ cids C0) ++ [j]).
    destruct (new_scope_fields_k s KClone d) as (_ & Enx & Em & Ed & Efd & Eln & _). fold s2 in Enx, Em, Ed, Efd, Eln.
    destruct (dict_has_rootclosed_copy s (cs_id c0) HI) as (P1 & P2 & P3). fold d in P1, P2, P3.
    assert (HI2 : SInv s2) by (apply SInv_new_k; auto; discriminate).
    assert (Hsd : forall i, scope_dict s2 i = if Nat.eqb i j then d else scope_dict s i)
      by (intro i; apply scope_dict_new_k; apply (sv_fresh s HI)).
    assert (Hhas : forall i x, has s2 i x = if Nat.eqb i j then has s (cs_id c0) x else has s i x).
    { intros i x. unfold has. rewrite Hsd. destruct (Nat.eqb i j); auto. }
    set (exp' := upd exp j (cs_acc c0)).
    destruct (HF' c0 (or_introl eq_refl)) as (Hc0has & Hc0inc & Hc0exp & Hc0lt).
    assert (Hlt : forall i, In i (stack_of L) -> i < j) by (intros i Hi; apply (st_ids _ _ _ _ _ HS); exact Hi).
    assert (Hext : ext j exp exp') by (apply ext_upd; lia).
    assert (HC' : CtxI exp' L) by (eapply CtxI_ext; eauto).
    exists exp'. split. exact Hext.
    set (s' := with_deferred s2 (deferred s2 ++ [(n :: a, stk', lineno s2)])).
    assert (HS' : StI exp' L (acc :: accs) ex s').
    { constructor.
      - apply SInv_with_deferred. exact HI2.
      - apply (st_nodup _ _ _ _ _ HS).
      - intros i Hi. unfold s'. rewrite wd_next, Enx. destruct (st_ids _ _ _ _ _ HS i Hi). split; auto.
      - intros i x. change (has s' i x) with (has s2 i x). rewrite Hhas. unfold exp', upd.
        destruct (Nat.eqb i j). intro H. apply Hc0has. exact H. apply (st_sub _ _ _ _ _ HS).
      - intros i Hi Hnb Hne x. change (has s' i x) with (has s2 i x). rewrite Hhas. unfold exp', upd.
        destruct (Nat.eqb i j) eqn:Ej. apply Hc0has.
        apply (st_eq _ _ _ _ _ HS); auto. unfold s' in Hi. rewrite wd_next, Enx in Hi. apply Nat.eqb_neq in Ej. fold j in Hi. lia.
      - pose proof (st_top _ _ _ _ _ HS) as Ht.
        assert (G : forall Ls As, Forall2 (top_ok s) Ls As -> (forall l0, In l0 Ls -> l_b l0 < j) -> Forall2 (top_ok s') Ls As).
        { induction 1 as [|l0 a0 Ls As [T1 T2] HF0 IHF]; intro Hb0; constructor.
          - split; auto. intro x. change (has s' (l_b l0) x) with (has s2 (l_b l0) x). rewrite Hhas.
            assert (Nat.eqb (l_b l0) j = false) by (apply Nat.eqb_neq; specialize (Hb0 l0 (or_introl eq_refl)); lia).
            rewrite H. apply T1.
          - apply IHF. intros l1 H1. apply Hb0. right. exact H1. }
        apply G. exact Ht. intros l0 H0. apply Hlt. apply in_stack_b. exact H0.
      - intros nm stk ln Hin i Hi. unfold s' in *. rewrite wd_next, Enx. rewrite wd_deferred, Ed in Hin.
        apply in_app_iff in Hin as [Hin|[Hin|[]]].
        + pose proof (st_def _ _ _ _ _ HS _ _ _ Hin i Hi). fold j in H. lia.
        + injection Hin as <- <- _. unfold stk' in Hi. apply in_app_iff in Hi as [Hi|[<-|[]]]; [|fold j; lia].
          apply in_app_iff in Hi as [Hi|Hi]. specialize (Hlt i Hi). fold j. lia.
          unfold cids in Hi. apply in_rev in Hi. apply in_map_iff in Hi as (c & <- & Hc).
          destruct (HF' c (or_intror Hc)) as (_ & _ & _ & Hl). fold j in Hl. lia.
      - unfold s'. rewrite wd_fd, Efd. apply (st_fd _ _ _ _ _ HS). }
    split. exact HS'. split. exact HC'.
    assert (HFnew : CF exp' s' (c0 :: C0)).
    { unfold CF. rewrite Forall_forall. intros c Hc. destruct (HF' c Hc) as (A1 & A2 & A3 & A4).
      assert (Hne : Nat.eqb (cs_id c) j = false) by (apply Nat.eqb_neq; fold j in A4; lia).
      split. intro x. change (has s' (cs_id c) x) with (has s2 (cs_id c) x). rewrite Hhas, Hne. apply A1.
      split. exact A2. split. intro x. unfold exp', upd. rewrite Hne. apply A3.
      unfold s'. rewrite wd_next, Enx. lia. }
    split; [|split; [exact HFnew|unfold s'; split; [rewrite wd_ln; exact Eln|split; [rewrite wd_next, Enx; fold j; lia|rewrite wd_fd; exact Efd]]]].
    (* the trace: the new entry's verdict against the expected final stack *)
    assert (Heb : ebound exp' stk' n = ebound exp (stack_of L) n || ebound exp (cids C0) n || mem n (cs_acc c0)).
    { unfold stk'. rewrite !ebound_app, ebound_single.
      rewrite (ebound_ext j exp exp' (stack_of L) n Hext Hlt).
      rewrite (ebound_ext j exp exp' (cids C0) n Hext).
      - unfold exp', upd. rewrite Nat.eqb_refl. reflexivity.
      - intros i Hi. unfold cids in Hi. apply in_rev in Hi. apply in_map_iff in Hi as (c & <- & Hc).
        destruct (HF' c (or_intror Hc)) as (_ & _ & _ & Hl). exact Hl. }
    assert (HFC0 : CF exp s C0) by (inversion HF; assumption).
    assert (HT1 : TrI exp' s tr).
    { eapply TrI_ext; [exact Hext| |exact HT]. intros nm stk ln Hin i Hi. apply (st_def _ _ _ _ _ HS _ _ _ Hin i Hi). }
    destruct HT1 as [A B]. rewrite Eln. constructor.
    + intros l1 m Hin. apply in_app_iff in Hin as [Hin|[Hin|[]]].
      * eapply Rep_grow; [| |apply A; exact Hin]. unfold s'. rewrite wd_missing, Em. auto.
        unfold s'. rewrite wd_deferred, Ed. intros d0 H0. apply in_app_iff. auto.
      * injection Hin as <- <- Hr. right. exists a, stk'. split. unfold s'. rewrite wd_deferred. apply in_app_iff. right. left. reflexivity.
        destruct (rc_unbound C ks e n HCE He Hr) as [R1 R2].
        rewrite Heb. pose proof (unbound_not_ebound exp l l' L'' e acc n HC HE R2) as E1. fold L in E1. rewrite E1. cbn [orb].
        assert (E2 : ebound exp (cids C0) n = false).
        { destruct (ebound exp (cids C0) n) eqn:E; auto. apply (ebound_cids exp s C0 n HFC0) in E as (c & Hc & Hx).
          exfalso. apply (R1 c (Hrest c Hc)). exact Hx. }
        rewrite E2. cbn [orb].
        destruct (mem n (cs_acc c0)) eqn:E3; auto. exfalso. apply mem_In in E3.
        destruct HCshape as [->|[-> Hnil]]. apply (R1 c0 (or_introl eq_refl)). apply Hc0inc. exact E3.
        rewrite Hnil in E3. destruct E3.
    + intros l1 m [(a' & H)|(a' & stk & H & Hbb)].
      * unfold s' in H. rewrite wd_missing, Em in H. destruct (B l1 m) as [X|X]. left; eauto. left; apply in_app_iff; auto. right; apply in_app_iff; auto.
      * unfold s' in H. rewrite wd_deferred, Ed in H. apply in_app_iff in H as [H|[H|[]]].
        -- destruct (B l1 m) as [X|X]. right; eauto. left; apply in_app_iff; auto. right; apply in_app_iff; auto.
        -- injection H as <- <- <- <-. rewrite Heb in Hbb.
           apply orb_false_iff in Hbb as [Hb12 Hb3]. apply orb_false_iff in Hb12 as [Hb1 Hb2].
           assert (Hfail : resolve_outer n (ks ++ e) = Unbound \/ resolve_outer n (ks ++ e) = UnboundLocal).
           { apply (rc_failing C ks e n HCE He).
             - intros c Hc Hx. apply HinC in Hc. destruct Hc as [<-|Hc].
               + apply mem_In in Hx. congruence.
               + assert (ebound exp (cids C0) n = true).
                 { apply (ebound_cids exp s C0 n HFC0). exists c. split; auto. destruct (HF' c (or_intror Hc)) as (_ & Hi0 & _). apply Hi0. exact Hx. }
                 congruence.
             - apply (ebound_base_failing exp l l' L'' e acc n HC HE). exact Hb1. }
           destruct Hfail as [X|X]; rewrite X; [left|right]; apply in_app_iff; right; left; reflexivity.
Qed.

(* ---------- the comprehension context as a package ---------- *)
Record CX (exp : expmap) (ex : list nat) (s : st) (Cf : list cscope) : Prop := mkCX {
  cx_f : CF exp s Cf;
  cx_in : forall c, In c Cf -> In (cs_id c) ex;
  cx_nd : NoDup (map cs_id Cf);
  cx_del : forall c, In c Cf -> cs_id c <> delayed_id }.
(* PySem's frames stand for every open comprehension, or for all but the innermost one, which is still empty (while
   the iterable of its first generator is evaluated) *)
Definition Shape (Cf C : list cscope) : Prop := C = Cf \/ exists c0, Cf = c0 :: C /\ cs_acc c0 = [].

Lemma cload : forall exp l L' acc accs ex s e tr Cf C ks n a,
  Inv2 exp l L' acc accs ex s e tr -> CX exp ex s Cf -> CE C ks -> Shape Cf C -> Cf <> [] ->
  let s' := load s (stack_of (l :: L') ++ cids Cf) (n :: a) in
  exists exp', ext (next_id s) exp exp' /\
     Inv2 exp' l L' acc accs ex s' e (tr ++ [(lineno s, n, resolve n (ks ++ e))]) /\
     CX exp' ex s' Cf /\ lineno s' = lineno s /\ next_id s <= next_id s'.
Proof.
  intros exp l L' acc accs ex s e tr Cf C ks n a [HS HX HL HC HE HT] [HF Hin Hnd Hdel] HCE Hsh Hne. cbv zeta.
  destruct L' as [|l' L''].
  - (* module level: immediate *)
    assert (accs = []). { pose proof (st_top _ _ _ _ _ HS) as Ht. inversion Ht as [|? ? ? ? _ Ht']; subst. inversion Ht'. reflexivity. }
    subst accs.
    assert (Hdec : exists pre, Cf = pre ++ C /\ Forall (fun c => cs_acc c = []) pre).
    { destruct Hsh as [->|(c0 & -> & Hnil)]. exists []. split; auto. exists [c0]. split; auto. }
    destruct Hdec as (pre & -> & Hpre).
    destruct (cload_imm exp l acc ex s e tr n a pre C ks HS HX HC HE HT HF Hpre HCE) as (S1 & T1 & F1 & Ln1 & N1 & Fd1).
    exists exp. split. apply ext_refl. split; [|split; [|split; [exact Ln1|lia]]].
    + constructor; auto. intros i Hi. rewrite N1. auto.
    + constructor; auto.
  - (* inside a function: two deferrals *)
    destruct Cf as [|c0 C0]. congruence.
    assert (Hsh' : C = c0 :: C0 \/ (C = C0 /\ cs_acc c0 = [])).
    { destruct Hsh as [->|(c1 & E & Hnil)]. left; reflexivity. injection E as <- <-. right. auto. }
    unfold load. rewrite (st_fd _ _ _ _ _ HS). cbn [length Nat.eqb negb].
    destruct (cdefer_step exp l l' L'' accs acc ex s e tr n a c0 C0 C ks HS HX HC HE HT HF HCE Hsh')
      as (exp1 & X1 & S1 & C1 & T1 & F1 & Ln1 & N1 & Fd1).
    cbv zeta in S1, T1, F1, Ln1, N1, Fd1.
    set (s1 := defer_load s (stack_of (l :: l' :: L'') ++ cids (c0 :: C0)) (n :: a)) in *.
    destruct (cdefer_step exp1 l l' L'' accs acc ex s1 e _ n a c0 C0 C ks S1 HX C1 HE T1 F1 HCE Hsh')
      as (exp2 & X2 & S2 & C2 & T2 & F2 & Ln2 & N2 & Fd2).
    cbv zeta in S2, T2, F2, Ln2, N2, Fd2.
    exists exp2. split. eapply ext_trans; [exact N1|exact X1|exact X2].
    split; [|split; [|split; [congruence|lia]]].
    + constructor; auto.
      * intros i Hi. specialize (HL i Hi). lia.
      * eapply TrI_perm; [|exact T2]. intro x. rewrite Ln1, !in_app_iff. cbn. tauto.
    + constructor; auto.
Qed.

(* ---------- storing a comprehension target ---------- *)
Lemma cstore : forall exp l L' acc accs ex s e tr c0 C0 x,
  Inv2 exp l L' acc accs ex s e tr -> CX exp ex s (c0 :: C0) -> x <> n_star -> In x (cs_T c0) ->
  let s' := store false s (stack_of (l :: L') ++ cids (c0 :: C0)) [x] Plain in
  Inv2 exp l L' acc accs ex s' e tr /\ CX exp ex s' (mkCS (cs_id c0) (cs_T c0) (cs_acc c0 ++ [x]) :: C0) /\
  lineno s' = lineno s /\ next_id s' = next_id s.
Proof.
  intros exp l L' acc accs ex s e tr c0 C0 x [HS HX HL HC HE HT] [HF Hin Hnd Hdel] Hx HxT. cbv zeta.
  rewrite store_false. rewrite cids_cons, app_assoc, top_snoc.
  pose proof HF as HF'. unfold CF in HF'. rewrite Forall_forall in HF'.
  destruct (HF' c0 (or_introl eq_refl)) as (A1 & A2 & A3 & A4).
  assert (Hoff : ~ In (cs_id c0) (stack_of (l :: L'))) by (apply (ex_off _ _ HX); apply Hin; left; reflexivity).
  destruct (store_off_stack exp (l :: L') (acc :: accs) ex s (cs_id c0) x HS (Hin c0 (or_introl eq_refl)) Hoff A4
              (Hdel c0 (or_introl eq_refl)) Hx (proj2 (A3 x) HxT)) as (S1 & Em & Ed & El & Enx & Efd & Hh).
  cbv zeta in S1, Em, Ed, El, Enx, Efd, Hh.
  split; [|split; [|split; [exact El|exact Enx]]].
  - constructor; auto. intros i Hi. rewrite Enx. auto. eapply TrI_same; eauto.
  - constructor; auto.
    + unfold CF. constructor.
      * cbn [cs_id cs_T cs_acc]. split.
        { intro y. rewrite Hh, orb_true_iff, A1, N.eqb_eq. rewrite (in_app_iff (cs_acc c0) [x] y). cbn [In]. intuition. }
        split. intros y Hy. apply in_app_iff in Hy as [Hy|[<-|[]]]; auto. split. exact A3. rewrite Enx. exact A4.
      * rewrite Forall_forall. intros c Hc. destruct (HF' c (or_intror Hc)) as (B1 & B2 & B3 & B4).
        assert (Hne : cs_id c <> cs_id c0).
        { cbn [map] in Hnd. inversion Hnd as [|? ? Hn _]; subst. intro E. apply Hn. rewrite <- E. apply in_map. exact Hc. }
        split. intro y. unfold has. rewrite scope_dict_set_in_scope.
        destruct (Nat.eqb (cs_id c0) (cs_id c)) eqn:E. apply Nat.eqb_eq in E. congruence. apply B1.
        split. exact B2. split. exact B3. rewrite Enx. exact B4.
    + intros c [<-|Hc]; cbn [cs_id]. apply Hin. left; reflexivity. apply Hin. right. exact Hc.
    + intros c [<-|Hc]; cbn [cs_id]. apply Hdel. left; reflexivity. apply Hdel. right. exact Hc.
Qed.

Lemma cnames : forall names exp l L' acc accs ex s e tr c0 C0,
  Inv2 exp l L' acc accs ex s e tr -> CX exp ex s (c0 :: C0) -> Forall (fun x => x <> n_star) names -> incl names (cs_T c0) ->
  let s' := fold_left (fun s x => store false s (stack_of (l :: L') ++ cids (c0 :: C0)) [x] Plain) names s in
  Inv2 exp l L' acc accs ex s' e tr /\ CX exp ex s' (mkCS (cs_id c0) (cs_T c0) (cs_acc c0 ++ names) :: C0) /\
  lineno s' = lineno s /\ next_id s' = next_id s.
Proof.
  induction names as [|x names IH]; intros exp l L' acc accs ex s e tr c0 C0 HI HX Hns Hin; cbn [fold_left].
  - rewrite app_nil_r. destruct c0. auto.
  - inversion Hns as [|? ? Hx Hns']; subst.
    destruct (cstore _ _ _ _ _ _ _ _ _ c0 C0 x HI HX Hx (Hin x (or_introl eq_refl))) as (I1 & X1 & Ln1 & N1).
    cbv zeta in I1, X1, Ln1, N1.
    destruct (IH _ _ _ _ _ _ _ _ _ (mkCS (cs_id c0) (cs_T c0) (cs_acc c0 ++ [x])) C0 I1 X1 Hns') as (I2 & X2 & Ln2 & N2).
    { intros y Hy. apply Hin. right. exact Hy. }
    cbv zeta in I2, X2, Ln2, N2. cbn [cs_id cs_T cs_acc] in *. rewrite <- app_assoc in X2. cbn [app] in X2.
    change (cids (mkCS (cs_id c0) (cs_T c0) (cs_acc c0 ++ [x]) :: C0)) with (cids (c0 :: C0)) in *.
    split. exact I2. split. exact X2. split; congruence.
Qed.

Lemma names_eq_bind_all : forall names f acc, names_eq (fdyn f) acc -> names_eq (fdyn (bind_all (others names) f)) (acc ++ names).
Proof.
  induction names as [|n names IH]; intros f acc H. rewrite app_nil_r. exact H.
  change (bind_all (others (n :: names)) f) with (bind_all (others names) (bind n BOther f)).
  assert (E : acc ++ n :: names = (acc ++ [n]) ++ names) by (rewrite <- app_assoc; reflexivity).
  rewrite E. apply IH. apply (names_eq_bind f [] acc n BOther H).
Qed.

Lemma bind_all_static : forall bs f, fk (bind_all bs f) = fk f /\ flocals (bind_all bs f) = flocals f.
Proof. induction bs as [|[x b] bs IH]; intro f. auto. cbn [bind_all fold_left]. apply (IH (bind x b f)). Qed.

(* entering and leaving a comprehension scope *)
Lemma center : forall exp l L' acc accs ex s e tr Cf T0,
  Inv2 exp l L' acc accs ex s e tr -> CX exp ex s Cf ->
  let K := next_id s in
  let s1 := snd (new_scope s KNormal []) in
  let cK := mkCS K T0 [] in
  Inv2 (upd exp K T0) l L' acc accs (K :: ex) s1 e tr /\ CX (upd exp K T0) (K :: ex) s1 (cK :: Cf) /\
  next_id s1 = S K /\ lineno s1 = lineno s /\ ext K exp (upd exp K T0) /\ ce_ok cK (comp_frame T0).
Proof.
  intros exp l L' acc accs ex s e tr Cf T0 HI [HF Hin Hnd Hdel]. cbv zeta.
  destruct (open_scope exp l L' acc accs ex s e tr T0 HI) as (I1 & Nx1 & Ln1 & Fd1 & Hempty & X1 & HAoff & HAd).
  cbv zeta in I1, Nx1, Ln1, Fd1, Hempty, X1, HAoff, HAd.
  set (K := next_id s) in *. set (s1 := snd (new_scope s KNormal [])) in *.
  pose proof (st_sinv _ _ _ _ _ (i_st _ _ _ _ _ _ _ _ _ HI)) as HS0.
  assert (Hsd : forall i, scope_dict s1 i = if Nat.eqb i K then [] else scope_dict s i)
    by (intro i; apply scope_dict_new; apply (sv_fresh s HS0)).
  pose proof HF as HF'. unfold CF in HF'. rewrite Forall_forall in HF'.
  split. exact I1. split; [|split; [exact Nx1|split; [exact Ln1|split; [exact X1|]]]].
  - constructor.
    + unfold CF. constructor.
      * cbn [cs_id cs_T cs_acc]. split. intro x. rewrite Hempty. cbn. split. discriminate. intros [].
        split. intros x []. split. intro x. unfold upd. rewrite Nat.eqb_refl. reflexivity. cbn [cs_id]. rewrite Nx1. lia.
      * rewrite Forall_forall. intros c Hc. destruct (HF' c Hc) as (B1 & B2 & B3 & B4). fold K in B4.
        assert (Hne : Nat.eqb (cs_id c) K = false) by (apply Nat.eqb_neq; lia).
        split. intro x. unfold has. rewrite Hsd, Hne. apply B1. split. exact B2.
        split. intro x. unfold upd. rewrite Hne. apply B3. rewrite Nx1. lia.
    + intros c [<-|Hc]. left. reflexivity. right. apply Hin. exact Hc.
    + cbn [map cs_id]. constructor; auto. intro Hk. apply in_map_iff in Hk as (c & E & Hc).
      destruct (HF' c Hc) as (_ & _ & _ & B4). fold K in B4. lia.
    + intros c [<-|Hc]. exact HAd. apply Hdel. exact Hc.
  - unfold ce_ok, comp_frame. cbn [fk flocals fdyn cs_T cs_acc]. split. reflexivity. split. intro x. apply mem_In.
    intro x. cbn. split. congruence. intros [].
Qed.

Lemma cleave : forall exp l L' acc accs ex s e tr cK Cf,
  Inv2 exp l L' acc accs (cs_id cK :: ex) s e tr -> CX exp (cs_id cK :: ex) s (cK :: Cf) ->
  (forall x, In x (cs_T cK) -> In x (cs_acc cK)) ->
  Inv2 exp l L' acc accs ex s e tr /\ CX exp ex s Cf.
Proof.
  intros exp l L' acc accs ex s e tr cK Cf [HS HX HL HC HE HT] [HF Hin Hnd Hdel] Hall.
  pose proof HF as HF'. unfold CF in HF'. rewrite Forall_forall in HF'.
  destruct (HF' cK (or_introl eq_refl)) as (A1 & A2 & A3 & A4).
  split.
  - constructor; auto.
    + eapply close_ex. exact HS. intro x. rewrite A1, A3. split; auto.
    + constructor. intros i Hi. apply (ex_off _ _ HX). right. exact Hi.
    + intros i Hi. apply HL. right. exact Hi.
  - cbn [map] in Hnd. inversion Hnd as [|? ? Hn Hnd']; subst.
    constructor.
    + inversion HF; assumption.
    + intros c Hc. destruct (Hin c (or_intror Hc)) as [E|E]; auto. exfalso. apply Hn. rewrite E. apply in_map. exact Hc.
    + exact Hnd'.
    + intros c Hc. apply Hdel. right. exact Hc.
Qed.

(* ---------- expressions inside a comprehension ---------- *)
Definition CPost (exp : expmap) (l : lvl) (L' : list lvl) (acc : list name) (accs : list (list name)) (ex : list nat)
                 (s : st) (e : env) (tr : list rd) (s' : st) (rds : list rd) (Cf' : list cscope) : Prop :=
  exists exp', ext (next_id s) exp exp' /\ Inv2 exp' l L' acc accs ex s' e (tr ++ rds) /\ CX exp' ex s' Cf' /\
               lineno s' = lineno s /\ next_id s <= next_id s'.

Lemma CPost_refl : forall exp l L' acc accs ex s e tr Cf,
  Inv2 exp l L' acc accs ex s e tr -> CX exp ex s Cf -> CPost exp l L' acc accs ex s e tr s [] Cf.
Proof. intros. exists exp. split. apply ext_refl. rewrite app_nil_r. auto. Qed.

Lemma CPost_seq : forall exp l L' acc accs ex s e tr s1 r1 Cf1 s2 r2 Cf2,
  CPost exp l L' acc accs ex s e tr s1 r1 Cf1 ->
  (forall exp1, Inv2 exp1 l L' acc accs ex s1 e (tr ++ r1) -> CX exp1 ex s1 Cf1 ->
                CPost exp1 l L' acc accs ex s1 e (tr ++ r1) s2 r2 Cf2) ->
  CPost exp l L' acc accs ex s e tr s2 (r1 ++ r2) Cf2.
Proof.
  intros exp l L' acc accs ex s e tr s1 r1 Cf1 s2 r2 Cf2 (exp1 & X1 & I1 & C1 & Ln1 & N1) H2.
  destruct (H2 exp1 I1 C1) as (exp2 & X2 & I2 & C2 & Ln2 & N2).
  exists exp2. split. eapply ext_trans; [exact N1|exact X1|exact X2].
  rewrite app_assoc. split. exact I2. split. exact C2. split. congruence. lia.
Qed.

Definition PC (x : expr) : Prop := c3_expr x = true ->
  forall exp l L' acc accs ex s e tr Cf C ks,
  Inv2 exp l L' acc accs ex s e tr -> CX exp ex s Cf -> CE C ks -> Shape Cf C -> Cf <> [] ->
  (C = Cf \/ s1_expr x = true) ->
  CPost exp l L' acc accs ex s e tr (vexpr false x (stack_of (l :: L') ++ cids Cf) s) (sem_expr (lineno s) (ks ++ e) x) Cf.

Lemma c3go_eq : forall l,
  (fix go (l : list expr) : bool := match l with [] => true | x :: r => c3_expr x && go r end) l = forallb c3_expr l.
Proof. reflexivity. Qed.
Lemma s1go_eq : forall l,
  (fix go (l : list expr) : bool := match l with [] => true | x :: r => s1_expr x && go r end) l = forallb s1_expr l.
Proof. reflexivity. Qed.

Lemma cexprs : forall es, Forall PC es -> forallb c3_expr es = true ->
  forall exp l L' acc accs ex s e tr Cf C ks,
  Inv2 exp l L' acc accs ex s e tr -> CX exp ex s Cf -> CE C ks -> Shape Cf C -> Cf <> [] ->
  (C = Cf \/ forallb s1_expr es = true) ->
  CPost exp l L' acc accs ex s e tr (vexpr_list false es (stack_of (l :: L') ++ cids Cf) s) (sem_exprs (lineno s) (ks ++ e) es) Cf.
Proof.
  intros es HF. induction HF as [|x es Hx HF IH]; intros Hs exp l L' acc accs ex s e tr Cf C ks HI HX HCE Hsh Hne H1.
  - apply CPost_refl; auto.
  - cbn in Hs. apply andb_true_iff in Hs as [Ha Hb].
    assert (H1x : C = Cf \/ s1_expr x = true).
    { destruct H1 as [H1|H1]; auto. cbn in H1. apply andb_true_iff in H1 as [A _]. auto. }
    assert (H1r : C = Cf \/ forallb s1_expr es = true).
    { destruct H1 as [H1|H1]; auto. cbn in H1. apply andb_true_iff in H1 as [_ B]. auto. }
    unfold vexpr_list, sem_exprs. cbn [fold_left flat_map].
    pose proof (Hx Ha _ _ _ _ _ _ _ _ _ _ _ _ HI HX HCE Hsh Hne H1x) as P1.
    assert (Eln : lineno (vexpr false x (stack_of (l :: L') ++ cids Cf) s) = lineno s).
    { destruct P1 as (? & _ & _ & _ & E & _). exact E. }
    eapply CPost_seq. exact P1. intros exp1 I1 X1.
    pose proof (IH Hb _ _ _ _ _ _ _ _ _ _ _ _ I1 X1 HCE Hsh Hne H1r) as P2. rewrite Eln in P2. exact P2.
Qed.

(* ---------- generators ---------- *)
Definition vgens (track : bool) (gens : list gen) (stk : stack) (s : st) : st :=
  fold_left (fun s g => vgen track g stk s) gens s.
Fixpoint sem_gens (ln : nat) (outer : env) (gens : list gen) (first : bool) (k : frame) : frame * list rd :=
  match gens with
  | [] => (k, [])
  | g :: r => let '(k1, ra) := sem_gen ln outer k first g in
              let '(k2, rb) := sem_gens ln outer r false k1 in (k2, ra ++ rb)
  end.

Lemma vggo_eq : forall track stk l s,
  (fix go (l : list gen) (s : st) : st := match l with [] => s | g :: r => go r (vgen track g stk s) end) l s = vgens track l stk s.
Proof. intros track stk l. induction l as [|g l IH]; intro s. reflexivity. unfold vgens. cbn [fold_left]. apply IH. Qed.
Lemma sggo_eq : forall ln e l first k,
  (fix go (l : list gen) (first : bool) (k : frame) : frame * list rd :=
     match l with
     | [] => (k, [])
     | g :: r => let '(k1, ra) := sem_gen ln e k first g in let '(k2, rb) := go r false k1 in (k2, ra ++ rb)
     end) l first k = sem_gens ln e l first k.
Proof.
  intros ln e l. induction l as [|g l IH]; intros first k. reflexivity.
  cbn [sem_gens]. destruct (sem_gen ln e k first g) as [k1 ra]. rewrite IH. reflexivity.
Qed.

Lemma vexpr_comp_eq : forall gens elts stk s,
  vexpr false (EComp gens elts) stk s =
  (let '(stkK, s1) := push s stk true false false in
   let s2 := vgens false gens stkK s1 in
   let s3 := vexpr_list false elts stkK s2 in
   pop s3 (top stkK)).
Proof. intros. cbn [vexpr]. destruct (push s stk true false false) as [stkK s1]. rewrite vggo_eq, vgo_eq. reflexivity. Qed.
Lemma sem_comp_eq : forall ln e gens elts,
  sem_expr ln e (EComp gens elts) =
  (let '(k, r1) := sem_gens ln e gens true (comp_frame (gen_targets gens)) in r1 ++ sem_exprs ln (k :: e) elts).
Proof. intros. cbn [sem_expr]. rewrite sggo_eq. destruct (sem_gens ln e gens true (comp_frame (gen_targets gens))) as [k r1]. rewrite sgo_eq. reflexivity. Qed.
Lemma vgen_eq : forall iter tgt ifs stk s,
  vgen false (Gen iter tgt ifs) stk s = vexpr_list false ifs stk (vtarget false tgt stk (vexpr false iter stk s)).
Proof. intros. cbn [vgen]. rewrite vgo_eq. reflexivity. Qed.
Lemma sem_gen_eq : forall ln outer k first iter tgt ifs,
  sem_gen ln outer k first (Gen iter tgt ifs) =
  (let r1 := sem_expr ln (if first then outer else k :: outer) iter in
   let '(k1, r2) := exec_target ln outer k tgt in
   (k1, r1 ++ r2 ++ sem_exprs ln (k1 :: outer) ifs)).
Proof. intros. cbn [sem_gen]. destruct (exec_target ln outer k tgt) as [k1 r2]. rewrite sgo_eq. reflexivity. Qed.

Lemma s1_c3 : forall x, s1_expr x = true -> c3_expr x = true.
Proof.
  intro x. induction x using expr_ind' with (Q := fun _ => True); try exact I; cbn [s1_expr c3_expr]; intro Hs; try discriminate; auto.
  rewrite s1go_eq in Hs. rewrite c3go_eq. induction H as [|y es Hy HF IH]. reflexivity.
  cbn in Hs |- *. apply andb_true_iff in Hs as [A B]. rewrite (Hy A). cbn. apply IH. exact B.
Qed.

Definition gen_tnames (g : gen) : list name := match g with Gen _ t _ => target_names t end.

Definition PG (g : gen) : Prop := forall first, c3_gen first g = true ->
  forall exp l L' acc accs ex s e tr c0 C0 k ks0,
  Inv2 exp l L' acc accs ex s e tr -> CX exp ex s (c0 :: C0) -> CE (c0 :: C0) (k :: ks0) ->
  (first = true -> cs_acc c0 = []) -> incl (gen_tnames g) (cs_T c0) ->
  let c0' := mkCS (cs_id c0) (cs_T c0) (cs_acc c0 ++ gen_tnames g) in
  CPost exp l L' acc accs ex s e tr (vgen false g (stack_of (l :: L') ++ cids (c0 :: C0)) s)
        (snd (sem_gen (lineno s) (ks0 ++ e) k first g)) (c0' :: C0) /\
  CE (c0' :: C0) (fst (sem_gen (lineno s) (ks0 ++ e) k first g) :: ks0).

Lemma gen_case : forall iter tgt ifs, PC iter -> Forall PC ifs -> PG (Gen iter tgt ifs).
Proof.
  intros iter tgt ifs Hiter Hifs first Hs exp l L' acc accs ex s e tr c0 C0 k ks0 HI HX HCE Hfirst Hin. cbv zeta.
  cbn [c3_gen] in Hs. rewrite c3go_eq in Hs. apply andb_true_iff in Hs as [Hs Hcifs]. apply andb_true_iff in Hs as [Hciter Htgt].
  cbn [gen_tnames] in *. rewrite vgen_eq, sem_gen_eq. cbv zeta.
  rewrite exec_target_s1 by exact Htgt.
  inversion HCE as [|? ? ? ? Hk0 HCE0]; subst.
  set (stkx := stack_of (l :: L') ++ cids (c0 :: C0)) in *.
  (* the iterable *)
  assert (P1 : CPost exp l L' acc accs ex s e tr (vexpr false iter stkx s)
                     (sem_expr (lineno s) (if first then ks0 ++ e else k :: ks0 ++ e) iter) (c0 :: C0)).
  { destruct first.
    - apply (Hiter (s1_c3 _ Hciter) _ _ _ _ _ _ _ _ _ (c0 :: C0) C0 ks0 HI HX HCE0).
      + right. exists c0. split. reflexivity. apply Hfirst. reflexivity.
      + discriminate.
      + right. exact Hciter.
    - apply (Hiter Hciter _ _ _ _ _ _ _ _ _ (c0 :: C0) (c0 :: C0) (k :: ks0) HI HX HCE).
      + left. reflexivity.
      + discriminate.
      + left. reflexivity. }
  destruct P1 as (exp1 & X1 & I1 & C1 & Ln1 & N1).
  set (s1 := vexpr false iter stkx s) in *.
  (* the target *)
  rewrite vtarget_s1 by exact Htgt.
  assert (Etop : top stkx = cs_id c0). { unfold stkx. rewrite cids_cons, app_assoc. apply top_snoc. }
  rewrite (fold_left_ext' _ _ _ (fun s n => store false s stkx [n] Plain)) by (intros; rewrite store_false; reflexivity).
  destruct (cnames (target_names tgt) _ _ _ _ _ _ _ _ _ c0 C0 I1 C1 (target_names_not_star tgt Htgt) Hin) as (I2 & C2 & Ln2 & N2).
  cbv zeta in I2, C2, Ln2, N2. fold stkx in I2, C2, Ln2, N2.
  set (s2 := fold_left (fun s n => store false s stkx [n] Plain) (target_names tgt) s1) in *.
  set (c0' := mkCS (cs_id c0) (cs_T c0) (cs_acc c0 ++ target_names tgt)) in *.
  set (k1 := bind_all (others (target_names tgt)) k).
  assert (HCE1 : CE (c0' :: C0) (k1 :: ks0)).
  { constructor; [|exact HCE0]. destruct Hk0 as (A & B & D). destruct (bind_all_static (others (target_names tgt)) k) as [E1 E2].
    split. unfold k1. rewrite E1. exact A. split. intro x. unfold k1. rewrite E2. apply B.
    apply names_eq_bind_all. exact D. }
  cbn [fst snd].
  split; [|exact HCE1].
  (* the conditions *)
  assert (P3 : CPost exp1 l L' acc accs ex s2 e (tr ++ sem_expr (lineno s) (if first then ks0 ++ e else k :: ks0 ++ e) iter)
                     (vexpr_list false ifs stkx s2) (sem_exprs (lineno s2) ((k1 :: ks0) ++ e) ifs) (c0' :: C0)).
  { change stkx with (stack_of (l :: L') ++ cids (c0' :: C0)).
    apply (cexprs ifs Hifs Hcifs _ _ _ _ _ _ _ _ _ (c0' :: C0) (c0' :: C0) (k1 :: ks0) I2 C2 HCE1).
    left; reflexivity. discriminate. left; reflexivity. }
  destruct P3 as (exp3 & X3 & I3 & C3 & Ln3 & N3).
  exists exp3. split. { eapply ext_trans; [exact N1|exact X1|]. intros i Hi. apply X3. lia. }
  assert (Eln2 : lineno s2 = lineno s) by congruence. rewrite Eln2 in I3.
  split. { cbn [app]. rewrite <- app_assoc in I3. exact I3. }
  split. exact C3. split. congruence. lia.
Qed.

Fixpoint cgens (gens : list gen) (first : bool) : bool :=
  match gens with [] => true | g :: r => c3_gen first g && cgens r false end.
Lemma cgens_eq : forall gens first,
  (fix go (l : list gen) (first : bool) : bool := match l with [] => true | g :: r => c3_gen first g && go r false end) gens first
  = cgens gens first.
Proof. induction gens as [|g r IH]; intro first. reflexivity. cbn [cgens]. rewrite IH. reflexivity. Qed.

Lemma gens_fold : forall gens, Forall PG gens -> forall first, cgens gens first = true ->
  forall exp l L' acc accs ex s e tr c0 C0 k ks0,
  Inv2 exp l L' acc accs ex s e tr -> CX exp ex s (c0 :: C0) -> CE (c0 :: C0) (k :: ks0) ->
  (first = true -> cs_acc c0 = []) -> incl (flat_map gen_tnames gens) (cs_T c0) ->
  let c0' := mkCS (cs_id c0) (cs_T c0) (cs_acc c0 ++ flat_map gen_tnames gens) in
  CPost exp l L' acc accs ex s e tr (vgens false gens (stack_of (l :: L') ++ cids (c0 :: C0)) s)
        (snd (sem_gens (lineno s) (ks0 ++ e) gens first k)) (c0' :: C0) /\
  CE (c0' :: C0) (fst (sem_gens (lineno s) (ks0 ++ e) gens first k) :: ks0).
Proof.
  intros gens HF. induction HF as [|g gens Hg HF IH]; intros first Hs exp l L' acc accs ex s e tr c0 C0 k ks0 HI HX HCE Hfirst Hin; cbv zeta.
  - cbn [flat_map vgens fold_left sem_gens fst snd]. rewrite app_nil_r. destruct c0 as [i T0 a0]. cbn [cs_id cs_T cs_acc].
    split. apply CPost_refl; auto. exact HCE.
  - cbn [cgens] in Hs. apply andb_true_iff in Hs as [H1 H2]. cbn [flat_map] in Hin |- *.
    destruct (Hg first H1 _ _ _ _ _ _ _ _ _ c0 C0 k ks0 HI HX HCE Hfirst) as [P1 HCE1].
    { intros y Hy. apply Hin. apply in_app_iff. auto. }
    cbv zeta in P1, HCE1.
    unfold vgens. cbn [fold_left sem_gens].
    destruct (sem_gen (lineno s) (ks0 ++ e) k first g) as [k1 ra] eqn:Eg. cbn [fst snd] in P1, HCE1.
    set (c1 := mkCS (cs_id c0) (cs_T c0) (cs_acc c0 ++ gen_tnames g)) in *.
    set (s1 := vgen false g (stack_of (l :: L') ++ cids (c0 :: C0)) s) in *.
    assert (Eln : lineno s1 = lineno s). { destruct P1 as (? & _ & _ & _ & E & _). exact E. }
    destruct (sem_gens (lineno s) (ks0 ++ e) gens false k1) as [k2 rb] eqn:Egs. cbn [fst snd].
    assert (G : forall exp1, Inv2 exp1 l L' acc accs ex s1 e (tr ++ ra) -> CX exp1 ex s1 (c1 :: C0) ->
                CPost exp1 l L' acc accs ex s1 e (tr ++ ra) (fold_left (fun s0 g0 => vgen false g0 (stack_of (l :: L') ++ cids (c0 :: C0)) s0) gens s1) rb
                      (mkCS (cs_id c0) (cs_T c0) (cs_acc c0 ++ gen_tnames g ++ flat_map gen_tnames gens) :: C0) /\
                CE (mkCS (cs_id c0) (cs_T c0) (cs_acc c0 ++ gen_tnames g ++ flat_map gen_tnames gens) :: C0) (k2 :: ks0)).
    { intros exp1 I1 X1.
      destruct (IH false H2 _ _ _ _ _ _ _ _ _ c1 C0 k1 ks0 I1 X1 HCE1) as [P2 HCE2].
      { discriminate. } { intros y Hy. apply Hin. apply in_app_iff. auto. }
      cbv zeta in P2, HCE2. rewrite Eln, Egs in P2, HCE2. cbn [fst snd cs_id cs_T cs_acc c1] in P2, HCE2.
      rewrite <- app_assoc in P2, HCE2. split. exact P2. exact HCE2. }
    split.
    + eapply CPost_seq. exact P1. intros exp1 I1 X1. apply (G exp1 I1 X1).
    + destruct P1 as (exp1 & _ & I1 & X1 & _). apply (G exp1 I1 X1).
Qed.

Lemma gen_targets_eq : forall gens, gen_targets gens = flat_map gen_tnames gens.
Proof. reflexivity. Qed.

Lemma comp_case : forall gens elts, Forall PG gens -> Forall PC elts -> c3_expr (EComp gens elts) = true ->
  forall exp l L' acc accs ex s e tr Cf ks,
  Inv2 exp l L' acc accs ex s e tr -> CX exp ex s Cf -> CE Cf ks ->
  CPost exp l L' acc accs ex s e tr (vexpr false (EComp gens elts) (stack_of (l :: L') ++ cids Cf) s)
        (sem_expr (lineno s) (ks ++ e) (EComp gens elts)) Cf.
Proof.
  intros gens elts HG HE Hs exp l L' acc accs ex s e tr Cf ks HI HX HCE.
  cbn [c3_expr] in Hs. rewrite cgens_eq, c3go_eq in Hs. apply andb_true_iff in Hs as [Hg He].
  rewrite vexpr_comp_eq, sem_comp_eq.
  pose proof (st_sinv _ _ _ _ _ (i_st _ _ _ _ _ _ _ _ _ HI)) as HS0.
  rewrite push_S by exact HS0. cbv beta iota zeta.
  set (K := next_id s). set (s1 := snd (new_scope s KNormal [])). set (T0 := gen_targets gens).
  destruct (center exp l L' acc accs ex s e tr Cf T0 HI HX) as (I1 & X1 & Nx1 & Ln1 & Xe & Hk).
  cbv zeta in I1, X1, Nx1, Ln1, Xe, Hk. fold K s1 in I1, X1, Nx1, Ln1, Xe, Hk.
  set (cK := mkCS K T0 []) in *.
  assert (Estk : (stack_of (l :: L') ++ cids Cf) ++ [K] = stack_of (l :: L') ++ cids (cK :: Cf)).
  { rewrite cids_cons, app_assoc. reflexivity. }
  rewrite Estk.
  assert (HCE1 : CE (cK :: Cf) (comp_frame T0 :: ks)) by (constructor; auto).
  destruct (gens_fold gens HG true Hg _ _ _ _ _ _ _ _ _ cK Cf (comp_frame T0) ks I1 X1 HCE1) as [P2 HCE2].
  { reflexivity. } { rewrite <- gen_targets_eq. apply incl_refl. }
  cbv zeta in P2, HCE2. rewrite Ln1 in P2, HCE2.
  destruct (sem_gens (lineno s) (ks ++ e) gens true (comp_frame T0)) as [k r1] eqn:Egs. cbn [fst snd] in P2, HCE2.
  cbn [cs_id cs_T cs_acc cK app] in P2, HCE2. rewrite <- gen_targets_eq in P2, HCE2. fold T0 in P2, HCE2.
  set (cK' := mkCS K T0 T0) in *.
  destruct P2 as (exp2 & X2 & I2 & C2 & Ln2 & N2).
  set (s2 := vgens false gens (stack_of (l :: L') ++ cids (cK :: Cf)) s1) in *.
  (* the elements *)
  assert (P3 : CPost exp2 l L' acc accs (K :: ex) s2 e (tr ++ r1)
                     (vexpr_list false elts (stack_of (l :: L') ++ cids (cK' :: Cf)) s2) (sem_exprs (lineno s2) ((k :: ks) ++ e) elts) (cK' :: Cf)).
  { apply (cexprs elts HE He _ _ _ _ _ _ _ _ _ (cK' :: Cf) (cK' :: Cf) (k :: ks) I2 C2 HCE2). left; reflexivity. discriminate. left; reflexivity. }
  change (cids (cK' :: Cf)) with (cids (cK :: Cf)) in P3.
  destruct P3 as (exp3 & X3 & I3 & C3 & Ln3 & N3).
  set (s3 := vexpr_list false elts (stack_of (l :: L') ++ cids (cK :: Cf)) s2) in *.
  rewrite pop_S by apply (st_sinv _ _ _ _ _ (i_st _ _ _ _ _ _ _ _ _ I3)).
  destruct (cleave exp3 l L' acc accs ex s3 e _ cK' Cf I3 C3) as [I4 C4]. { auto. }
  exists exp3. split.
  { intros i Hi. fold K in Hi. rewrite (X3 i), (X2 i), (Xe i) by lia. reflexivity. }
  assert (Eln2 : lineno s2 = lineno s) by congruence. rewrite Eln2 in I4.
  split. { rewrite <- app_assoc in I4. exact I4. }
  split. exact C4. split. congruence. lia.
Qed.

Lemma cexpr_inv : forall x, PC x.
Proof.
  intro x. induction x using expr_ind' with (Q := PG); unfold PC; try (intros Hs exp l L' acc accs ex s e tr Cf C ks HI HX HCE Hsh Hne H1).
  - (* ELoad *) cbn [vexpr sem_expr]. destruct (cload exp l L' acc accs ex s e tr Cf C ks n a HI HX HCE Hsh Hne) as (exp' & X & I' & C' & Ln & Nx).
    exists exp'. auto.
  - (* EOp *) cbn [vexpr sem_expr c3_expr s1_expr] in *. rewrite vgo_eq, sgo_eq. rewrite c3go_eq in Hs. rewrite s1go_eq in H1. apply (cexprs es H Hs _ _ _ _ _ _ _ _ _ Cf C ks); auto.
  - (* EAttr *) cbn [vexpr sem_expr c3_expr s1_expr] in *. apply (IHx Hs _ _ _ _ _ _ _ _ _ Cf C ks); auto.
  - (* ELambda *) cbn in Hs. discriminate.
  - (* EComp *)
    assert (EC : C = Cf). { destruct H1 as [H1|H1]; auto. cbn in H1. discriminate. } subst C.
    apply comp_case; auto.
  - (* a generator *) apply gen_case; auto.
Qed.

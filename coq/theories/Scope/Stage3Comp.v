(* M7, stage 3 - comprehensions on top of the stage-2 simulation.
   While a comprehension is being scanned the finder's stack is the stack of the open function levels (Stage2Inv.stack_of)
   followed by the scopes of the open comprehensions; PySem's environment is the comprehension frames followed by the
   environment of the levels.  Inside a comprehension of the fragment there are only loads, target stores and nested
   comprehensions (Fragment.c3_expr), so the levels below do not change: their invariant (Inv2) is kept with the open
   comprehension scopes listed among the scopes "being filled" ([ex]), and a second, small invariant describes the
   comprehension scopes themselves. *)
From Coq Require Import NArith List Bool Arith Lia.
From Verif Require Import Scope.PySyntax Scope.Finder Scope.PySem Scope.Fragment Scope.AuxProofs Scope.FinderProofs
                          Scope.Stage2Base Scope.Stage2Inv Scope.Stage2Steps Scope.Stage2Proofs Scope.Stage2Stmt.
Import ListNotations.

(* an open comprehension: its scope id, all its targets, the targets bound so far *)
Record cscope := mkCS { cs_id : nat; cs_T : list name; cs_acc : list name }.
(* comprehension contexts are listed innermost first; on the stack the outermost comes first *)
Definition cids (C : list cscope) : stack := rev (map cs_id C).

(* finder side *)
Definition cf_ok (exp : expmap) (s : st) (c : cscope) : Prop :=
  (forall x, has s (cs_id c) x = true <-> In x (cs_acc c)) /\ incl (cs_acc c) (cs_T c) /\
  (forall x, In x (exp (cs_id c)) <-> In x (cs_T c)) /\ cs_id c < next_id s.
Definition CF (exp : expmap) (s : st) (C : list cscope) : Prop := Forall (cf_ok exp s) C.
(* PySem side: one FComp frame per comprehension *)
Definition ce_ok (c : cscope) (k : frame) : Prop :=
  fk k = FComp /\ (forall x, mem x (flocals k) = true <-> In x (cs_T c)) /\ names_eq (fdyn k) (cs_acc c).
Definition CE (C : list cscope) (ks : list frame) : Prop := Forall2 ce_ok C ks.

Lemma bound_cids : forall exp s C x, CF exp s C -> (bound s (cids C) x = true <-> exists c, In c C /\ In x (cs_acc c)).
Proof.
  intros exp s C x H. unfold CF in H. unfold cids, bound. rewrite existsb_exists. split.
  - intros (i & Hi & Hh). apply in_rev in Hi. apply in_map_iff in Hi as (c & <- & Hc). exists c. split. exact Hc.
    rewrite Forall_forall in H. apply (proj1 (H c Hc)). exact Hh.
  - intros (c & Hc & Hx). exists (cs_id c). split. apply -> in_rev. apply in_map. exact Hc.
    rewrite Forall_forall in H. apply (proj1 (H c Hc)). exact Hx.
Qed.
Lemma ebound_cids : forall exp s C x, CF exp s C -> (ebound exp (cids C) x = true <-> exists c, In c C /\ In x (cs_T c)).
Proof.
  intros exp s C x H. unfold CF in H. unfold cids, ebound. rewrite existsb_exists. split.
  - intros (i & Hi & Hh). apply in_rev in Hi. apply in_map_iff in Hi as (c & <- & Hc). exists c. split. exact Hc.
    rewrite Forall_forall in H. destruct (H c Hc) as (_ & _ & E & _). apply E. apply mem_In. exact Hh.
  - intros (c & Hc & Hx). exists (cs_id c). split. apply -> in_rev. apply in_map. exact Hc.
    rewrite Forall_forall in H. destruct (H c Hc) as (_ & _ & E & _). apply mem_In. apply E. exact Hx.
Qed.

(* ---------- resolution through comprehension frames ---------- *)
Lemma resolve_outer_comp : forall x k f e',
  fk k = FComp ->
  resolve_outer x (k :: f :: e') =
  if mem x (flocals k) then match lookup_b x (fdyn k) with Some b => Bound b | None => UnboundLocal end
  else resolve_outer x (f :: e').
Proof. intros. rewrite resolve_outer_cons, H. reflexivity. Qed.

Lemma rc_unbound : forall C ks e x, CE C ks -> e <> [] ->
  resolve_outer x (ks ++ e) = Unbound -> (forall c, In c C -> ~ In x (cs_T c)) /\ resolve_outer x e = Unbound.
Proof.
  intros C ks e x H He. induction H as [|c k C ks (Hk & Hl & Hd) HF IH]; intro Hr.
  - split. intros c []. exact Hr.
  - cbn [app] in Hr. destruct (ks ++ e) as [|f e'] eqn:E. { destruct ks; cbn in E; congruence. }
    rewrite (resolve_outer_comp x k f e' Hk) in Hr.
    destruct (mem x (flocals k)) eqn:Em.
    + destruct (lookup_b x (fdyn k)); discriminate.
    + destruct (IH Hr) as [A B]. split; [|exact B]. intros c0 [<-|Hc0]. intro Hx. apply Hl in Hx. congruence. apply A. exact Hc0.
Qed.

Lemma rc_failing : forall C ks e x, CE C ks -> e <> [] ->
  (forall c, In c C -> ~ In x (cs_acc c)) ->
  (resolve_outer x e = Unbound \/ resolve_outer x e = UnboundLocal) ->
  resolve_outer x (ks ++ e) = Unbound \/ resolve_outer x (ks ++ e) = UnboundLocal.
Proof.
  intros C ks e x H He. induction H as [|c k C ks (Hk & Hl & Hd) HF IH]; intros Hacc Hr.
  - exact Hr.
  - cbn [app]. destruct (ks ++ e) as [|f e'] eqn:E. { destruct ks; cbn in E; congruence. }
    rewrite (resolve_outer_comp x k f e' Hk).
    destruct (mem x (flocals k)) eqn:Em.
    + rewrite (proj2 (lookup_none_iff _ _ _ Hd)). auto. apply Hacc. left. reflexivity.
    + apply IH. intros c0 Hc0. apply Hacc. right. exact Hc0. exact Hr.
Qed.

Lemma resolve_comp_outer : forall C ks L e eaccs x, CE C ks -> EnvI L e eaccs ->
  resolve x (ks ++ e) = resolve_outer x (ks ++ e).
Proof.
  intros C ks L e eaccs x H HE. destruct H as [|c k C ks (Hk & _) HF].
  - cbn. eapply resolve_EnvI; eauto.
  - cbn [app]. assert (He : e <> []) by (eapply EnvI_nonempty; eauto).
    destruct (ks ++ e) as [|f e'] eqn:E. { destruct ks; cbn in E; congruence. }
    unfold resolve. rewrite Hk. reflexivity.
Qed.

(* ---------- the finder-side facts survive what does not touch the comprehension scopes ---------- *)
Lemma CF_same : forall exp s s' C, (forall c, In c C -> forall x, has s' (cs_id c) x = has s (cs_id c) x) ->
  next_id s <= next_id s' -> CF exp s C -> CF exp s' C.
Proof.
  intros exp s s' C Hh Hn H. unfold CF in *. rewrite Forall_forall in *. intros c Hc.
  destruct (H c Hc) as (A & B & D & E). split. intro x. rewrite (Hh c Hc). apply A. split. exact B. split. exact D. lia.
Qed.
Lemma CF_ext : forall exp exp' s C n, ext n exp exp' -> n <= next_id s \/ True -> (forall c, In c C -> cs_id c < n) ->
  CF exp s C -> CF exp' s C.
Proof.
  intros exp exp' s C n He _ Hlt H. unfold CF in *. rewrite Forall_forall in *. intros c Hc.
  destruct (H c Hc) as (A & B & D & E). split. exact A. split. exact B. split. intro x. rewrite He. apply D. apply Hlt. exact Hc. exact E.
Qed.

(* ---------- a load inside a comprehension at module level (immediate check) ---------- *)
Lemma bound_module : forall exp l0 acc ex s n, StI exp [l0] [acc] ex s -> ExOK [l0] ex -> CtxI exp [l0] ->
  (bound s (stack_of [l0]) n = true <-> In n (l_P l0 ++ acc)).
Proof.
  intros exp l0 acc ex s n HS HX HC.
  assert (Hown : l_own l0 = []) by (apply (cx_own _ _ HC)).
  rewrite stack_of_cons. cbn [stack_of rev flat_map app]. rewrite bound_app, bound_single, orb_true_iff.
  rewrite (bound_closed exp s (l_as l0) n) by (intros i Hi; eapply as_closed; eauto; left; reflexivity).
  rewrite (cx_as _ _ HC l0 (or_introl eq_refl)).
  pose proof (st_top _ _ _ _ _ HS) as Ht. inversion Ht as [|? ? ? ? [Ht1 _] _]; subst.
  rewrite Ht1, Hown. cbn [app]. rewrite in_app_iff. reflexivity.
Qed.

Lemma cload_imm : forall exp l0 acc ex s e tr n a pre C ks,
  StI exp [l0] [acc] ex s -> ExOK [l0] ex -> CtxI exp [l0] -> EnvI [l0] e [acc] -> TrI exp s tr ->
  CF exp s (pre ++ C) -> Forall (fun c => cs_acc c = []) pre -> CE C ks ->
  let s' := load s (stack_of [l0] ++ cids (pre ++ C)) (n :: a) in
  StI exp [l0] [acc] ex s' /\ TrI exp s' (tr ++ [(lineno s, n, resolve n (ks ++ e))]) /\ CF exp s' (pre ++ C) /\
  lineno s' = lineno s /\ next_id s' = next_id s /\ in_fd s' = in_fd s.
Proof.
  intros exp l0 acc ex s e tr n a pre C ks HS HX HC HE HT HF Hpre HCE. cbv zeta.
  assert (Hfd : in_fd s = false) by (rewrite (st_fd _ _ _ _ _ HS); reflexivity).
  unfold load. rewrite Hfd.
  rewrite check_load_S by (apply (st_sinv _ _ _ _ _ HS)).
  rewrite (resolve_comp_outer C ks [l0] e [acc] n HCE HE).
  assert (He : e <> []) by (eapply EnvI_nonempty; eauto).
  pose proof (bound_module exp l0 acc ex s n HS HX HC) as Hb.
  pose proof (bound_cids exp s (pre ++ C) n HF) as Hbc.
  assert (Hmod : resolve_outer n e = match lookup_b n (fdyn (hd (mkFrame FModule [] [] []) e)) with Some b => Bound b | None => Unbound end).
  { destruct e as [|f [|? ?]]; try contradiction. reflexivity. }
  assert (Hdyn : forall y, lookup_b y (fdyn (hd (mkFrame FModule [] [] []) e)) <> None <-> In y (l_P l0 ++ acc)).
  { destruct e as [|f [|? ?]]; try contradiction. destruct HE as [_ HE2]. exact HE2. }
  rewrite bound_app.
  destruct (bound s (stack_of [l0]) n || bound s (cids (pre ++ C)) n) eqn:E.
  - (* found: nothing reported; the read is no failing global lookup *)
    split. exact HS. split; [|split; [exact HF|repeat split; auto]].
    destruct HT as [A B]. constructor.
    + intros l m Hin. apply in_app_iff in Hin as [Hin|[Hin|[]]]. auto.
      injection Hin as <- <- Hr. exfalso.
      destruct (rc_unbound C ks e n HCE He Hr) as [R1 R2].
      apply orb_true_iff in E as [E|E].
      * apply Hb in E. apply Hdyn in E. rewrite Hmod in R2. destruct (lookup_b n (fdyn (hd _ e))); congruence.
      * apply Hbc in E as (c & Hc & Hx). apply in_app_iff in Hc as [Hc|Hc].
        -- rewrite Forall_forall in Hpre. rewrite (Hpre c Hc) in Hx. destruct Hx.
        -- unfold CF in HF. rewrite Forall_forall in HF. destruct (HF c (proj2 (in_app_iff _ _ _) (or_intror Hc))) as (_ & Hi & _).
           apply (R1 c Hc). apply Hi. exact Hx.
    + intros l m Hr. destruct (B l m Hr); [left|right]; apply in_app_iff; auto.
  - apply orb_false_iff in E as [E1 E2].
    destruct (add_missing_spec s (stack_of [l0] ++ cids (pre ++ C)) (lineno s) (n :: a)) as [Em E3].
    split. rewrite Em. apply StI_with_missing. exact HS.
    split; [|rewrite Em; split; [|split; [reflexivity|split; [reflexivity|exact Hfd]]]].
    2:{ eapply CF_same; [| |exact HF]. intros; reflexivity. cbn. lia. }
    assert (Hfail : resolve_outer n (ks ++ e) = Unbound \/ resolve_outer n (ks ++ e) = UnboundLocal).
    { apply (rc_failing C ks e n HCE He).
      - intros c Hc Hx. assert (bound s (cids (pre ++ C)) n = true). { apply Hbc. exists c. split; auto. apply in_app_iff. auto. } congruence.
      - left. rewrite Hmod. destruct (lookup_b n (fdyn (hd _ e))) eqn:El; auto. exfalso.
        assert (In n (l_P l0 ++ acc)) by (apply Hdyn; congruence). apply Hb in H. congruence. }
    destruct HT as [A B]. constructor.
    + intros l m Hin. apply in_app_iff in Hin as [Hin|[Hin|[]]].
      * eapply Rep_grow; [| |apply A; exact Hin]. intros l1 d H1. apply E3. auto. rewrite Em. auto.
      * injection Hin as <- <- _. left. exists a. apply E3. auto.
    + intros l m [(a' & H)|(a' & stk & H & Hbb)].
      * apply E3 in H as [H|[-> H]]. destruct (B l m) as [X|X]; [left; eauto| |]; [left|right]; apply in_app_iff; auto.
        injection H as <- _. destruct Hfail as [X|X]; rewrite X; [left|right]; apply in_app_iff; right; left; reflexivity.
      * rewrite Em in H. cbn in H. destruct (B l m) as [X|X]. right; eauto. left; apply in_app_iff; auto. right; apply in_app_iff; auto.
Qed.

(* ---------- a load inside a comprehension inside a function (deferred check) ---------- *)
Lemma cids_cons : forall c C, cids (c :: C) = cids C ++ [cs_id c].
Proof. reflexivity. Qed.

Lemma ebound_base_failing : forall exp l l' L'' e acc x,
  CtxI exp (l :: l' :: L'') -> EnvI (l :: l' :: L'') e (acc :: map l_B (l' :: L'')) ->
  ebound exp (stack_of (l :: l' :: L'')) x = false -> resolve_outer x e = Unbound \/ resolve_outer x e = UnboundLocal.
Proof.
  intros exp l l' L'' e acc x HC HE Hb. eapply resolve_outer_failing. exact HE.
  assert (G : forall l0, In l0 (l :: l' :: L'') -> ~ In x (l_P l0 ++ l_B l0)).
  { intros l0 Hin Hx. assert (ebound exp (stack_of (l :: l' :: L'')) x = true).
    { apply (ebound_levels exp _ x HC). exists l0. split; auto. rewrite in_app_iff in *. tauto. }
    congruence. }
  destruct e as [|f [|f' e']]; try contradiction. destruct HE as (_ & _ & _ & Hi & _).
  change (nowhere (l :: l' :: L'') (acc :: map l_B (l' :: L'')) x)
    with (~ In x (l_P l ++ acc) /\ nowhere (l' :: L'') (map l_B (l' :: L'')) x).
  split.
  - intro Hx. apply (G l (or_introl eq_refl)). rewrite in_app_iff in *. destruct Hx as [Hx|Hx]; auto.
  - assert (G' : forall l0, In l0 (l' :: L'') -> ~ In x (l_P l0 ++ l_B l0)) by (intros l0 H0; apply G; right; exact H0).
    clear - G'. induction (l' :: L'') as [|k K IH]; cbn. exact I.
    split. apply G'. left; reflexivity. apply IH. intros l0 Hin. apply G'. right. exact Hin.
Qed.

Lemma cdefer_step : forall exp l l' L'' accs acc ex s e tr n a c0 C0 C ks,
  StI exp (l :: l' :: L'') (acc :: accs) ex s -> ExOK (l :: l' :: L'') ex -> CtxI exp (l :: l' :: L'') ->
  EnvI (l :: l' :: L'') e (acc :: map l_B (l' :: L'')) -> TrI exp s tr ->
  CF exp s (c0 :: C0) -> CE C ks ->
  (* the PySem frames stand for all the comprehension scopes, or for all but the innermost, which is still empty *)
  (C = c0 :: C0 \/ (C = C0 /\ cs_acc c0 = [])) ->
  let stkx := stack_of (l :: l' :: L'') ++ cids (c0 :: C0) in
  let s' := defer_load s stkx (n :: a) in
  exists exp', ext (next_id s) exp exp' /\ StI exp' (l :: l' :: L'') (acc :: accs) ex s' /\ CtxI exp' (l :: l' :: L'') /\
     TrI exp' s' (tr ++ [(lineno s, n, resolve n (ks ++ e))]) /\ CF exp' s' (c0 :: C0) /\
     lineno s' = lineno s /\ next_id s <= next_id s' /\ in_fd s' = in_fd s.
Proof.
  intros exp l l' L'' accs acc ex s e tr n a c0 C0 C ks HS HX HC HE HT HF HCE HCshape. cbv zeta.
  set (L := l :: l' :: L'') in *. set (stkx := stack_of L ++ cids (c0 :: C0)).
  pose proof (st_sinv _ _ _ _ _ HS) as HI.
  assert (He : e <> []) by (eapply EnvI_nonempty; eauto).
  rewrite defer_load_S by exact HI. rewrite (resolve_comp_outer C ks L e _ n HCE HE).
  pose proof (bound_cids exp s (c0 :: C0) n HF) as Hbc.
  pose proof HF as HF'. unfold CF in HF'. rewrite Forall_forall in HF'.
  (* facts about the comprehension scopes seen from PySem *)
  assert (HinC : forall c, In c C -> In c (c0 :: C0)).
  { intros c Hc. destruct HCshape as [->|[-> _]]. exact Hc. right. exact Hc. }
  assert (Hrest : forall c, In c C0 -> In c C).
  { intros c Hc. destruct HCshape as [->|[-> _]]. right. exact Hc. exact Hc. }
  unfold stkx. rewrite bound_app.
  destruct (bound s (stack_of L) n || bound s (cids (c0 :: C0)) n) eqn:Eb.
  - (* found now *)
    exists exp. split. apply ext_refl. split. exact HS. split. exact HC. split; [|split; [exact HF|auto]].
    destruct HT as [A B]. constructor.
    + intros l1 m Hin. apply in_app_iff in Hin as [Hin|[Hin|[]]]. auto.
      injection Hin as <- <- Hr. exfalso.
      destruct (rc_unbound C ks e n HCE He Hr) as [R1 R2].
      apply orb_true_iff in Eb as [Eb|Eb].
      * pose proof (unbound_not_ebound exp l l' L'' e acc n HC HE R2) as E1.
        pose proof (bound_sub _ _ _ _ _ _ _ HS Eb) as E2. fold L in E1. congruence.
      * apply Hbc in Eb as (c & Hc & Hx). destruct Hc as [<-|Hc].
        -- destruct HCshape as [->|[-> Hnil]]. apply (R1 c0 (or_introl eq_refl)). destruct (HF' c0 (or_introl eq_refl)) as (_ & Hi0 & _). apply Hi0. exact Hx.
           rewrite Hnil in Hx. destruct Hx.
        -- apply (R1 c (Hrest c Hc)). destruct (HF' c (or_intror Hc)) as (_ & Hi0 & _). apply Hi0. exact Hx.
    + intros l1 m Hr. destruct (B l1 m Hr); [left|right]; apply in_app_iff; auto.
  - apply orb_false_iff in Eb as [Eb1 Eb2].
    rewrite clone_top_S by exact HI. cbv zeta.
    assert (Etop : top (stack_of L ++ cids (c0 :: C0)) = cs_id c0).
    { rewrite cids_cons, app_assoc. apply top_snoc. }
    assert (Erl : removelast (stack_of L ++ cids (c0 :: C0)) = stack_of L ++ cids C0).
    { rewrite cids_cons, app_assoc. apply removelast_snoc. }
    rewrite Etop, Erl.
    set (j := next_id s). set (d := scope_dict s (cs_id c0)).
    set (s2 := snd (new_scope s KNormal d)).
    set (stk' := (stack_of L ++ cids C0) ++ [j]).
    destruct (new_scope_fields s d) as (_ & Enx & Em & Ed & Efd & Eln & _). fold s2 in Enx, Em, Ed, Efd, Eln.
    destruct (dict_has_rootclosed_copy s (cs_id c0) HI) as (P1 & P2 & P3). fold d in P1, P2, P3.
    assert (HI2 : SInv s2) by (apply SInv_new; auto).
    assert (Hsd : forall i, scope_dict s2 i = if Nat.eqb i j then d else scope_dict s i)
      by (intro i; apply scope_dict_new; apply (sv_fresh s HI)).
    assert (Hhas : forall i x, has s2 i x = if Nat.eqb i j then has s (cs_id c0) x else has s i x).
    { intros i x. unfold has. rewrite Hsd. destruct (Nat.eqb i j); auto. }
    set (exp' := upd exp j (cs_acc c0)).
    destruct (HF' c0 (or_introl eq_refl)) as (Hc0has & Hc0inc & Hc0exp & Hc0lt).
    assert (Hlt : forall i, In i (stack_of L) -> i < j) by (intros i Hi; apply (st_ids _ _ _ _ _ HS); exact Hi).
    assert (Hext : ext j exp exp') by (apply ext_upd; lia).
    assert (HC' : CtxI exp' L) by (eapply CtxI_ext; eauto).
    exists exp'. split. exact Hext.
    set (s' := with_deferred s2 (deferred s2 ++ [(n :: a, stk', lineno s2)])).
    assert (HS' : StI exp' L (acc :: accs) ex s').
    { constructor.
      - apply SInv_with_deferred. exact HI2.
      - apply (st_nodup _ _ _ _ _ HS).
      - intros i Hi. unfold s'. rewrite wd_next, Enx. destruct (st_ids _ _ _ _ _ HS i Hi). split; auto.
      - intros i x. change (has s' i x) with (has s2 i x). rewrite Hhas. unfold exp', upd.
        destruct (Nat.eqb i j). intro H. apply Hc0has. exact H. apply (st_sub _ _ _ _ _ HS).
      - intros i Hi Hnb Hne x. change (has s' i x) with (has s2 i x). rewrite Hhas. unfold exp', upd.
        destruct (Nat.eqb i j) eqn:Ej. apply Hc0has.
        apply (st_eq _ _ _ _ _ HS); auto. unfold s' in Hi. rewrite wd_next, Enx in Hi. apply Nat.eqb_neq in Ej. fold j in Hi. lia.
      - pose proof (st_top _ _ _ _ _ HS) as Ht.
        assert (G : forall Ls As, Forall2 (top_ok s) Ls As -> (forall l0, In l0 Ls -> l_b l0 < j) -> Forall2 (top_ok s') Ls As).
        { induction 1 as [|l0 a0 Ls As [T1 T2] HF0 IHF]; intro Hb0; constructor.
          - split; auto. intro x. change (has s' (l_b l0) x) with (has s2 (l_b l0) x). rewrite Hhas.
            assert (Nat.eqb (l_b l0) j = false) by (apply Nat.eqb_neq; specialize (Hb0 l0 (or_introl eq_refl)); lia).
            rewrite H. apply T1.
          - apply IHF. intros l1 H1. apply Hb0. right. exact H1. }
        apply G. exact Ht. intros l0 H0. apply Hlt. apply in_stack_b. exact H0.
      - intros nm stk ln Hin i Hi. unfold s' in *. rewrite wd_next, Enx. rewrite wd_deferred, Ed in Hin.
        apply in_app_iff in Hin as [Hin|[Hin|[]]].
        + pose proof (st_def _ _ _ _ _ HS _ _ _ Hin i Hi). fold j in H. lia.
        + injection Hin as <- <- _. unfold stk' in Hi. apply in_app_iff in Hi as [Hi|[<-|[]]]; [|fold j; lia].
          apply in_app_iff in Hi as [Hi|Hi]. specialize (Hlt i Hi). fold j. lia.
          unfold cids in Hi. apply in_rev in Hi. apply in_map_iff in Hi as (c & <- & Hc).
          destruct (HF' c (or_intror Hc)) as (_ & _ & _ & Hl). fold j in Hl. lia.
      - unfold s'. rewrite wd_fd, Efd. apply (st_fd _ _ _ _ _ HS). }
    split. exact HS'. split. exact HC'.
    assert (HFnew : CF exp' s' (c0 :: C0)).
    { unfold CF. rewrite Forall_forall. intros c Hc. destruct (HF' c Hc) as (A1 & A2 & A3 & A4).
      assert (Hne : Nat.eqb (cs_id c) j = false) by (apply Nat.eqb_neq; fold j in A4; lia).
      split. intro x. change (has s' (cs_id c) x) with (has s2 (cs_id c) x). rewrite Hhas, Hne. apply A1.
      split. exact A2. split. intro x. unfold exp', upd. rewrite Hne. apply A3.
      unfold s'. rewrite wd_next, Enx. lia. }
    split; [|split; [exact HFnew|unfold s'; split; [rewrite wd_ln; exact Eln|split; [rewrite wd_next, Enx; fold j; lia|rewrite wd_fd; exact Efd]]]].
    (* the trace: the new entry's verdict against the expected final stack *)
    assert (Heb : ebound exp' stk' n = ebound exp (stack_of L) n || ebound exp (cids C0) n || mem n (cs_acc c0)).
    { unfold stk'. rewrite !ebound_app, ebound_single.
      rewrite (ebound_ext j exp exp' (stack_of L) n Hext Hlt).
      rewrite (ebound_ext j exp exp' (cids C0) n Hext).
      - unfold exp', upd. rewrite Nat.eqb_refl. reflexivity.
      - intros i Hi. unfold cids in Hi. apply in_rev in Hi. apply in_map_iff in Hi as (c & <- & Hc).
        destruct (HF' c (or_intror Hc)) as (_ & _ & _ & Hl). exact Hl. }
    assert (HFC0 : CF exp s C0) by (inversion HF; assumption).
    assert (HT1 : TrI exp' s tr).
    { eapply TrI_ext; [exact Hext| |exact HT]. intros nm stk ln Hin i Hi. apply (st_def _ _ _ _ _ HS _ _ _ Hin i Hi). }
    destruct HT1 as [A B]. rewrite Eln. constructor.
    + intros l1 m Hin. apply in_app_iff in Hin as [Hin|[Hin|[]]].
      * eapply Rep_grow; [| |apply A; exact Hin]. unfold s'. rewrite wd_missing, Em. auto.
        unfold s'. rewrite wd_deferred, Ed. intros d0 H0. apply in_app_iff. auto.
      * injection Hin as <- <- Hr. right. exists a, stk'. split. unfold s'. rewrite wd_deferred. apply in_app_iff. right. left. reflexivity.
        destruct (rc_unbound C ks e n HCE He Hr) as [R1 R2].
        rewrite Heb. pose proof (unbound_not_ebound exp l l' L'' e acc n HC HE R2) as E1. fold L in E1. rewrite E1. cbn [orb].
        assert (E2 : ebound exp (cids C0) n = false).
        { destruct (ebound exp (cids C0) n) eqn:E; auto. apply (ebound_cids exp s C0 n HFC0) in E as (c & Hc & Hx).
          exfalso. apply (R1 c (Hrest c Hc)). exact Hx. }
        rewrite E2. cbn [orb].
        destruct (mem n (cs_acc c0)) eqn:E3; auto. exfalso. apply mem_In in E3.
        destruct HCshape as [->|[-> Hnil]]. apply (R1 c0 (or_introl eq_refl)). apply Hc0inc. exact E3.
        rewrite Hnil in E3. destruct E3.
    + intros l1 m [(a' & H)|(a' & stk & H & Hbb)].
      * unfold s' in H. rewrite wd_missing, Em in H. destruct (B l1 m) as [X|X]. left; eauto. left; apply in_app_iff; auto. right; apply in_app_iff; auto.
      * unfold s' in H. rewrite wd_deferred, Ed in H. apply in_app_iff in H as [H|[H|[]]].
        -- destruct (B l1 m) as [X|X]. right; eauto. left; apply in_app_iff; auto. right; apply in_app_iff; auto.
        -- injection H as <- <- <- <-. rewrite Heb in Hbb.
           apply orb_false_iff in Hbb as [Hb12 Hb3]. apply orb_false_iff in Hb12 as [Hb1 Hb2].
           assert (Hfail : resolve_outer n (ks ++ e) = Unbound \/ resolve_outer n (ks ++ e) = UnboundLocal).
           { apply (rc_failing C ks e n HCE He).
             - intros c Hc Hx. apply HinC in Hc. destruct Hc as [<-|Hc].
               + apply mem_In in Hx. congruence.
               + assert (ebound exp (cids C0) n = true).
                 { apply (ebound_cids exp s C0 n HFC0). exists c. split; auto. destruct (HF' c (or_intror Hc)) as (_ & Hi0 & _). apply Hi0. exact Hx. }
                 congruence.
             - apply (ebound_base_failing exp l l' L'' e acc n HC HE). exact Hb1. }
           destruct Hfail as [X|X]; rewrite X; [left|right]; apply in_app_iff; right; left; reflexivity.
Qed.

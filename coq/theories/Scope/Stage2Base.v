(* M7, stage 2 of the Finder / PySem simulation - basic facts about the scope store that hold whenever
   unused-import tracking is off and there is no class scope and no star import: every entry is Plain, every
   dictionary is root-closed, the operations reduce to simple equations. *)
From Coq Require Import NArith List Bool Arith Lia.
From Verif Require Import Scope.PySyntax Scope.Finder Scope.PySem Scope.Fragment Scope.AuxProofs Scope.FinderProofs.
Import ListNotations.

Definition has (s : st) (i : nat) (x : name) : bool := dict_has (scope_dict s i) [x].

Record SInv (s : st) : Prop := mkSInv {
  sv_plain : allplain s;
  sv_root : forall i, rootclosed (scope_dict s i);
  sv_fresh : fresh s;
  sv_next : 2 <= next_id s;
  sv_nostar : forall i, has s i n_star = false;
  sv_nocls : forall i, scope_is_class s i = false;
  sv_delayed : scope_dict s delayed_id = [];
  sv_cd : in_cd s = 0;
  sv_raw : forall i k e, In (k, e) (scope_dict s i) -> e = Plain;
  sv_uniq : NoDup (map fst (scopes s)) }.

Lemma NoDup_app_snoc : forall A (l : list A) x, NoDup l -> ~ In x l -> NoDup (l ++ [x]).
Proof.
  induction l as [|y l IH]; intros x H Hn; cbn. { constructor. intros []. constructor. }
  inversion H as [|? ? Hy Hl]; subst. constructor.
  - intro Hin. apply in_app_iff in Hin as [Hin|[Hin|[]]]. contradiction. subst. apply Hn. left. reflexivity.
  - apply IH; auto. intro Hin. apply Hn. right. exact Hin.
Qed.
(* with unique ids, a listed scope is the one get_scope finds *)
Lemma get_scope_In : forall l j v, NoDup (map fst l) -> In (j, v) l -> get_scope l j = v.
Proof.
  induction l as [|[i w] l IH]; intros j v Hnd Hin. contradiction.
  cbn [map fst] in Hnd. inversion Hnd as [|? ? Hni Hnd']; subst. cbn [get_scope]. destruct Hin as [Hin|Hin].
  - injection Hin as -> ->. rewrite Nat.eqb_refl. reflexivity.
  - destruct (Nat.eqb j i) eqn:E. apply Nat.eqb_eq in E. subst j. exfalso. apply Hni. apply in_map_iff. exists (i, v). auto.
    apply IH; auto.
Qed.
Lemma set_scope_fst : forall l i v, In i (map fst l) -> map fst (set_scope l i v) = map fst l.
Proof.
  induction l as [|[j w] l IH]; intros i v Hin. contradiction. cbn [set_scope]. destruct (Nat.eqb i j) eqn:E. reflexivity.
  cbn [map fst]. f_equal. apply IH. destruct Hin as [Hin|Hin]; auto. cbn in Hin. subst j. rewrite Nat.eqb_refl in E. discriminate.
Qed.
Lemma set_scope_fst_new : forall l i v, ~ In i (map fst l) -> map fst (set_scope l i v) = map fst l ++ [i].
Proof.
  induction l as [|[j w] l IH]; intros i v Hin. reflexivity. cbn [set_scope]. destruct (Nat.eqb i j) eqn:E.
  apply Nat.eqb_eq in E. subst j. exfalso. apply Hin. left. reflexivity.
  cbn [map fst app]. f_equal. apply IH. intro H. apply Hin. right. exact H.
Qed.
Lemma set_scope_uniq : forall l i v, NoDup (map fst l) -> NoDup (map fst (set_scope l i v)).
Proof.
  intros l i v H. destruct (in_dec Nat.eq_dec i (map fst l)) as [Hin|Hin].
  - rewrite set_scope_fst by exact Hin. exact H.
  - rewrite set_scope_fst_new by exact Hin. apply NoDup_app_snoc; auto.
Qed.

(* SInv does not look at missing / deferred / in_fd / lineno / unused *)
Lemma SInv_with_missing : forall s m, SInv s -> SInv (with_missing s m).
Proof. intros s m H. destruct H. constructor; assumption. Qed.
Lemma SInv_with_ln : forall s l, SInv s -> SInv (with_ln s l).
Proof. intros s m H. destruct H. constructor; assumption. Qed.
Lemma SInv_with_fd : forall s b, SInv s -> SInv (with_fd s b).
Proof. intros s m H. destruct H. constructor; assumption. Qed.
Lemma SInv_with_deferred : forall s d, SInv s -> SInv (with_deferred s d).
Proof. intros s m H. destruct H. constructor; assumption. Qed.

Lemma has_star_false : forall s stk, SInv s -> has_star s stk = false.
Proof.
  intros s stk H. unfold has_star. induction stk as [|i stk IH]; cbn. reflexivity.
  change (dict_has (scope_dict s i) [n_star]) with (has s i n_star). rewrite (sv_nostar s H i). exact IH.
Qed.

Lemma needs_S : forall s stk n a, SInv s -> needs s stk (n :: a) = (negb (bound s stk n), s).
Proof. intros s stk n a H. apply needs_bound. apply (sv_plain s H). apply (sv_root s H). Qed.

Lemma check_load_S : forall s cur stk n a ln, SInv s ->
  check_load s cur stk (n :: a) ln = if bound s stk n then s else add_missing s cur ln (n :: a).
Proof.
  intros s cur stk n a ln H. unfold check_load. rewrite needs_S by exact H. rewrite has_star_false by exact H.
  destruct (bound s stk n); reflexivity.
Qed.

Lemma defer_load_S : forall s stk n a, SInv s ->
  defer_load s stk (n :: a) =
  if bound s stk n then s
  else let '(stk', s2) := clone_top s stk in with_deferred s2 (deferred s2 ++ [(n :: a, stk', lineno s2)]).
Proof.
  intros s stk n a H. unfold defer_load. rewrite needs_S by exact H. destruct (bound s stk n); reflexivity.
Qed.

(* ---------- pop is a no-op ---------- *)
Lemma report_unused_plain : forall d s, (forall k e, In (k, e) d -> e = Plain) -> report_unused_of s d = s.
Proof.
  unfold report_unused_of. induction d as [|[k e] d IH]; intros s H; cbn [fold_left]. reflexivity.
  rewrite (H k e (or_introl eq_refl)). cbn [snd]. apply IH. intros k' e' Hin. eapply H. right. exact Hin.
Qed.
Lemma dict_get_of_In : forall d k e, In (k, e) d -> exists e', dict_get d k = Some e'.
Proof.
  induction d as [|[k0 e0] d IH]; intros k e H. contradiction.
  cbn. destruct (dotted_eqb k k0) eqn:E0; eauto. destruct H as [H|H].
  - injection H as -> ->. rewrite dotted_eqb_refl in E0. discriminate.
  - eapply IH. exact H.
Qed.
(* membership in a dict whose keys are unique is lookup; in general the first entry of a key decides.  For
   "all plain" we need every listed entry plain, which holds because entries are only written by dict_set with
   Plain values: keep it as a separate invariant on the raw lists *)
Lemma pop_S : forall s i, SInv s -> pop s i = s.
Proof. reflexivity. Qed.

Lemma dict_set_In : forall d k v k' e, In (k', e) (dict_set d k v) -> In (k', e) d \/ (k' = k /\ e = v) \/ (exists k0, dotted_eqb k k0 = true /\ k' = k0 /\ e = v).
Proof.
  induction d as [|[k0 v0] d IH]; intros k v k' e H; cbn in H.
  - destruct H as [H|[]]. injection H as <- <-. right; left; auto.
  - destruct (dotted_eqb k k0) eqn:E.
    + destruct H as [H|H]. injection H as <- <-. right; right. exists k0. auto. left. right. exact H.
    + destruct H as [H|H]. left; left; exact H.
      apply IH in H as [H|H]. left; right; exact H. right; exact H.
Qed.
Lemma dict_set_In_plain : forall d k k' e, (forall k0 e0, In (k0, e0) d -> e0 = Plain) ->
  In (k', e) (dict_set d k Plain) -> e = Plain.
Proof.
  intros d k k' e H Hin. apply dict_set_In in Hin as [Hin|[[_ ->]|(k0 & _ & _ & ->)]]; auto. eapply H. exact Hin.
Qed.

(* ---------- stack shapes ---------- *)
Lemma removelast_snoc : forall A (l : list A) x, removelast (l ++ [x]) = l.
Proof. intros. apply removelast_last. Qed.
Lemma top_snoc : forall l x, top (l ++ [x]) = x.
Proof. intros. unfold top. apply last_last. Qed.
Lemma filter_nocls : forall s stk, SInv s -> filter (fun i => negb (scope_is_class s i)) stk = stk.
Proof. intros s stk H. apply filter_all. intros x _. rewrite (sv_nocls s H). reflexivity. Qed.

(* push, whatever its flags, appends a fresh empty non-class scope (no class scope to filter, the delayed-class
   dictionary is empty) *)
Lemma push_S : forall s stk ic u, SInv s ->
  push s stk ic false u = (stk ++ [next_id s], snd (new_scope s KNormal [])).
Proof.
  intros s stk ic u H. unfold push. rewrite filter_nocls by exact H. rewrite (sv_delayed s H). cbn [negb andb].
  rewrite andb_false_r. destruct ic; reflexivity.
Qed.

(* ---------- SInv under the two store-changing primitives ---------- *)
Lemma scope_is_class_set : forall s i k v j, scope_is_class (set_in_scope s i k v) j = scope_is_class s j.
Proof.
  intros s i k v j. unfold scope_is_class, set_in_scope. destruct (get_scope (scopes s) i) as [c d] eqn:E. cbn.
  destruct (Nat.eq_dec i j) as [->|Hne].
  - rewrite get_set_scope_same, E. reflexivity.
  - rewrite get_set_scope_other by exact Hne. reflexivity.
Qed.

Lemma set_scope_In : forall l i v j w, In (j, w) (set_scope l i v) -> In (j, w) l \/ j = i.
Proof.
  induction l as [|[k u] l IH]; intros i v j w H; cbn in H.
  - destruct H as [H|[]]. injection H as <- _. auto.
  - destruct (Nat.eqb i k) eqn:E.
    + apply Nat.eqb_eq in E. subst k. destruct H as [H|H]. injection H as <- _. auto. left; right; exact H.
    + destruct H as [H|H]. left; left; exact H. apply IH in H as [H|H]; auto. left; right; exact H.
Qed.

Lemma has_set : forall s i k j x,
  has (set_in_scope s i k Plain) j x = if Nat.eqb i j then dotted_eqb [x] k || has s i x else has s j x.
Proof.
  intros. unfold has. rewrite scope_dict_set_in_scope. destruct (Nat.eqb i j). apply dict_has_set. reflexivity.
Qed.

(* storing the key r :: q (a name, or a dotted key whose root is already a key) into scope i *)
Lemma SInv_store : forall s i r q, SInv s -> i < next_id s -> i <> delayed_id ->
  (q = [] /\ r <> n_star) \/ has s i r = true ->
  SInv (set_in_scope s i (r :: q) Plain).
Proof.
  intros s i r q H Hi Hd Hk. destruct H.
  destruct (set_in_scope_fields s i (r :: q) Plain) as (_ & _ & _ & _ & Enx & Ecd).
  constructor.
  - intros j k e. rewrite scope_dict_set_in_scope. destruct (Nat.eqb i j); [|apply sv_plain0].
    rewrite dict_get_set. destruct (dotted_eqb k (r :: q)); [|apply sv_plain0]. congruence.
  - intros j r' q'. rewrite scope_dict_set_in_scope. destruct (Nat.eqb i j) eqn:E; [|apply sv_root0].
    rewrite !dict_get_set.
    destruct (dotted_eqb [r'] (r :: q)) eqn:E1. intros _; discriminate.
    destruct (dotted_eqb (r' :: q') (r :: q)) eqn:E2.
    + apply dotted_eqb_eq in E2. injection E2 as -> ->. intros _.
      destruct Hk as [[-> _]|Hk]. rewrite dotted_eqb_refl in E1. discriminate.
      apply dict_get_has. exact Hk.
    + apply sv_root0.
  - intros j w Hin. rewrite Enx. unfold set_in_scope in Hin. destruct (get_scope (scopes s) i). cbn in Hin.
    apply set_scope_In in Hin as [Hin|Hin]. eapply sv_fresh0. exact Hin. subst j. exact Hi.
  - congruence.
  - intro j. rewrite has_set. destruct (Nat.eqb i j); [|apply sv_nostar0].
    rewrite sv_nostar0, orb_false_r. apply dotted_eqb_neq. intro E. injection E as <- <-.
    destruct Hk as [[_ Hk]|Hk]. congruence. rewrite sv_nostar0 in Hk. discriminate.
  - intro j. rewrite scope_is_class_set. apply sv_nocls0.
  - rewrite scope_dict_set_in_scope. destruct (Nat.eqb i delayed_id) eqn:E; auto. apply Nat.eqb_eq in E. contradiction.
  - congruence.
  - intros j k e. rewrite scope_dict_set_in_scope. destruct (Nat.eqb i j); [|apply sv_raw0].
    intro Hin. eapply dict_set_In_plain; [|exact Hin]. intros k0 e0. apply sv_raw0.
  - unfold set_in_scope. destruct (get_scope (scopes s) i). cbn [scopes with_scopes]. apply set_scope_uniq. exact sv_uniq0.
Qed.

(* a new non-class scope whose content is harmless *)
Lemma scope_dict_new : forall s c j, fresh s ->
  scope_dict (snd (new_scope s KNormal c)) j = if Nat.eqb j (next_id s) then c else scope_dict s j.
Proof.
  intros s c j Hf. pose proof (new_scope_spec s KNormal c Hf) as H.
  destruct (new_scope s KNormal c) as [i s'] eqn:E. cbn [snd]. destruct H as (-> & _ & _ & Hg & _).
  unfold scope_dict. rewrite Hg. destruct (Nat.eqb j (next_id s)); reflexivity.
Qed.
Lemma new_scope_fields : forall s c,
  fst (new_scope s KNormal c) = next_id s /\
  next_id (snd (new_scope s KNormal c)) = S (next_id s) /\
  missing (snd (new_scope s KNormal c)) = missing s /\ deferred (snd (new_scope s KNormal c)) = deferred s /\
  in_fd (snd (new_scope s KNormal c)) = in_fd s /\ lineno (snd (new_scope s KNormal c)) = lineno s /\
  in_cd (snd (new_scope s KNormal c)) = in_cd s.
Proof. intros. unfold new_scope. cbn. auto 10. Qed.

Lemma SInv_new : forall s c, SInv s ->
  (forall k e, In (k, e) c -> e = Plain) -> rootclosed c -> dict_has c [n_star] = false ->
  SInv (snd (new_scope s KNormal c)).
Proof.
  intros s c H Hp Hr Hs. pose proof (new_scope_spec s KNormal c (sv_fresh s H)) as Hn.
  pose proof (scope_dict_new s c) as Hsd.
  destruct (new_scope_fields s c) as (_ & Enx & _ & _ & _ & _ & Ecd).
  destruct (new_scope s KNormal c) as [i s'] eqn:E. cbn [snd] in *. destruct Hn as (-> & Hf' & _ & Hg & _).
  destruct H. constructor; auto.
  - intros j k e. rewrite Hsd by assumption. destruct (Nat.eqb j (next_id s)); [|apply sv_plain0].
    intro Hg'. destruct (dict_get c k) eqn:E2; try discriminate. injection Hg' as <-.
    (* the entry found by dict_get is in the list *)
    clear - E2 Hp. induction c as [|[k0 v0] c IH]; cbn in E2. discriminate.
    destruct (dotted_eqb k k0). injection E2 as <-. eapply Hp. left; reflexivity.
    apply IH; auto. intros k' e' Hin. eapply Hp. right; exact Hin.
  - intro j. rewrite Hsd by assumption. destruct (Nat.eqb j (next_id s)); auto.
  - lia.
  - intro j. unfold has. rewrite Hsd by assumption. destruct (Nat.eqb j (next_id s)); auto. apply sv_nostar0.
  - intro j. unfold scope_is_class. rewrite Hg. destruct (Nat.eqb j (next_id s)). reflexivity. apply sv_nocls0.
  - rewrite Hsd by assumption. destruct (Nat.eqb delayed_id (next_id s)) eqn:E2; auto.
    apply Nat.eqb_eq in E2. unfold delayed_id in E2. lia.
  - congruence.
  - intros j k e. rewrite Hsd by assumption. destruct (Nat.eqb j (next_id s)). apply Hp. apply sv_raw0.
  - unfold new_scope in E. injection E as <-. cbn. rewrite map_app. cbn. apply NoDup_app_snoc; auto.
    intro Hin. apply in_map_iff in Hin as ([j w] & Ej & Hin). cbn in Ej. subst j. apply sv_fresh0 in Hin. lia.
Qed.


(* the same for a scope of any non-class kind (the copies made by clone_top have kind KClone) *)
Lemma scope_dict_new_k : forall s k c j, fresh s ->
  scope_dict (snd (new_scope s k c)) j = if Nat.eqb j (next_id s) then c else scope_dict s j.
Proof.
  intros s k c j Hf. pose proof (new_scope_spec s k c Hf) as H.
  destruct (new_scope s k c) as [i s'] eqn:E. cbn [snd]. destruct H as (-> & _ & _ & Hg & _).
  unfold scope_dict. rewrite Hg. destruct (Nat.eqb j (next_id s)); reflexivity.
Qed.
Lemma new_scope_fields_k : forall s k c,
  fst (new_scope s k c) = next_id s /\
  next_id (snd (new_scope s k c)) = S (next_id s) /\
  missing (snd (new_scope s k c)) = missing s /\ deferred (snd (new_scope s k c)) = deferred s /\
  in_fd (snd (new_scope s k c)) = in_fd s /\ lineno (snd (new_scope s k c)) = lineno s /\
  in_cd (snd (new_scope s k c)) = in_cd s.
Proof. intros. unfold new_scope. cbn. auto 10. Qed.
Lemma SInv_new_k : forall s k c, SInv s -> k <> KClass ->
  (forall key e, In (key, e) c -> e = Plain) -> rootclosed c -> dict_has c [n_star] = false ->
  SInv (snd (new_scope s k c)).
Proof.
  intros s k c H Hk Hp Hr Hs. pose proof (new_scope_spec s k c (sv_fresh s H)) as Hn.
  pose proof (scope_dict_new_k s k c) as Hsd.
  destruct (new_scope_fields_k s k c) as (_ & Enx & _ & _ & _ & _ & Ecd).
  destruct (new_scope s k c) as [i s'] eqn:E. cbn [snd] in *. destruct Hn as (-> & Hf' & _ & Hg & _).
  destruct H. constructor; auto.
  - intros j key e. rewrite Hsd by assumption. destruct (Nat.eqb j (next_id s)); [|apply sv_plain0].
    intro Hg'. destruct (dict_get c key) eqn:E2; try discriminate. injection Hg' as <-.
    clear - E2 Hp. induction c as [|[k0 v0] c IH]; cbn in E2. discriminate.
    destruct (dotted_eqb key k0). injection E2 as <-. eapply Hp. left; reflexivity.
    apply IH; auto. intros k' e' Hin. eapply Hp. right; exact Hin.
  - intro j. rewrite Hsd by assumption. destruct (Nat.eqb j (next_id s)); auto.
  - lia.
  - intro j. unfold has. rewrite Hsd by assumption. destruct (Nat.eqb j (next_id s)); auto. apply sv_nostar0.
  - intro j. unfold scope_is_class. rewrite Hg. destruct (Nat.eqb j (next_id s)). destruct k; cbn; congruence. apply sv_nocls0.
  - rewrite Hsd by assumption. destruct (Nat.eqb delayed_id (next_id s)) eqn:E2; auto.
    apply Nat.eqb_eq in E2. unfold delayed_id in E2. lia.
  - congruence.
  - intros j key e. rewrite Hsd by assumption. destruct (Nat.eqb j (next_id s)). apply Hp. apply sv_raw0.
  - unfold new_scope in E. injection E as <-. cbn. rewrite map_app. cbn. apply NoDup_app_snoc; auto.
    intro Hin. apply in_map_iff in Hin as ([j w] & Ej & Hin). cbn in Ej. subst j. apply sv_fresh0 in Hin. lia.
Qed.

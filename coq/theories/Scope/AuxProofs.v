(* M7 - generic lemmas: induction principles for the nested syntax, dictionaries, the scope store,
   sorting. *)
From Coq Require Import NArith List Bool Arith Lia.
From Verif Require Import Scope.PySyntax Scope.Finder Scope.PySem Scope.Fragment.
Import ListNotations.

(* ---------- induction principles for the nested inductives ---------- *)
Section ExprInd.
  Variables (P : expr -> Prop) (Q : gen -> Prop).
  Hypothesis HLoad : forall n a, P (ELoad n a).
  Hypothesis HOp : forall es, Forall P es -> P (EOp es).
  Hypothesis HAttr : forall e a, P e -> P (EAttr e a).
  Hypothesis HLam : forall ps ds b, Forall P ds -> P b -> P (ELambda ps ds b).
  Hypothesis HComp : forall gs es, Forall Q gs -> Forall P es -> P (EComp gs es).
  Hypothesis HGen : forall it t ifs, P it -> Forall P ifs -> Q (Gen it t ifs).
  Fixpoint expr_ind' (e : expr) : P e :=
    match e with
    | ELoad n a => HLoad n a
    | EOp es => HOp es ((fix go (l : list expr) : Forall P l :=
                           match l with [] => Forall_nil _ | x :: r => Forall_cons x (expr_ind' x) (go r) end) es)
    | EAttr e a => HAttr e a (expr_ind' e)
    | ELambda ps ds b => HLam ps ds b ((fix go (l : list expr) : Forall P l :=
                           match l with [] => Forall_nil _ | x :: r => Forall_cons x (expr_ind' x) (go r) end) ds)
                              (expr_ind' b)
    | EComp gs es => HComp gs es
                       ((fix go (l : list gen) : Forall Q l :=
                           match l with [] => Forall_nil _ | x :: r => Forall_cons x (gen_ind' x) (go r) end) gs)
                       ((fix go (l : list expr) : Forall P l :=
                           match l with [] => Forall_nil _ | x :: r => Forall_cons x (expr_ind' x) (go r) end) es)
    end
  with gen_ind' (g : gen) : Q g :=
    match g with
    | Gen it t ifs => HGen it t ifs (expr_ind' it)
                        ((fix go (l : list expr) : Forall P l :=
                            match l with [] => Forall_nil _ | x :: r => Forall_cons x (expr_ind' x) (go r) end) ifs)
    end.
End ExprInd.

Section TargetInd.
  Variable P : target -> Prop.
  Hypothesis HName : forall n, P (TName n).
  Hypothesis HAttr : forall n a, P (TAttr n a).
  Hypothesis HTuple : forall ts, Forall P ts -> P (TTuple ts).
  Fixpoint target_ind' (t : target) : P t :=
    match t with
    | TName n => HName n
    | TAttr n a => HAttr n a
    | TTuple ts => HTuple ts ((fix go (l : list target) : Forall P l :=
                                 match l with [] => Forall_nil _ | x :: r => Forall_cons x (target_ind' x) (go r) end) ts)
    end.
End TargetInd.

Section StmtInd.
  Variable P : stmt -> Prop.
  Definition PH (h : handler) : Prop := match h with Handler _ _ _ hb => Forall P hb end.
  Hypothesis HExpr : forall ln e, P (SExpr ln e).
  Hypothesis HAssign : forall ln ts v, P (SAssign ln ts v).
  Hypothesis HAug : forall ln n a v, P (SAugAssign ln n a v).
  Hypothesis HAll : forall ln ns, P (SAllAssign ln ns).
  Hypothesis HImport : forall ln items, P (SImport ln items).
  Hypothesis HFrom : forall ln m items, P (SImportFrom ln m items).
  Hypothesis HDef : forall ln nm decos ps ret body, Forall P body -> P (SDef ln nm decos ps ret body).
  Hypothesis HClass : forall ln nm bases decos kws body, Forall P body -> P (SClass ln nm bases decos kws body).
  Hypothesis HFor : forall ln t it b o, Forall P b -> Forall P o -> P (SFor ln t it b o).
  Hypothesis HWhile : forall ln t b o, Forall P b -> Forall P o -> P (SWhile ln t b o).
  Hypothesis HIf : forall ln t b o, Forall P b -> Forall P o -> P (SIf ln t b o).
  Hypothesis HWith : forall ln items b, Forall P b -> P (SWith ln items b).
  Hypothesis HTry : forall ln b hs o f, Forall P b -> Forall PH hs -> Forall P o -> Forall P f -> P (STry ln b hs o f).
  Hypothesis HPass : forall ln, P (SPass ln).
  Hypothesis HDoc : forall ln ex br, Forall P ex -> P (SDoc ln ex br).
  Fixpoint stmt_ind' (s : stmt) : P s :=
    let blk := fix blk (l : list stmt) : Forall P l :=
                 match l with [] => Forall_nil _ | x :: r => Forall_cons x (stmt_ind' x) (blk r) end in
    match s with
    | SExpr ln e => HExpr ln e
    | SAssign ln ts v => HAssign ln ts v
    | SAugAssign ln n a v => HAug ln n a v
    | SAllAssign ln ns => HAll ln ns
    | SImport ln items => HImport ln items
    | SImportFrom ln m items => HFrom ln m items
    | SDef ln nm decos ps ret body => HDef ln nm decos ps ret body (blk body)
    | SClass ln nm bases decos kws body => HClass ln nm bases decos kws body (blk body)
    | SFor ln t it b o => HFor ln t it b o (blk b) (blk o)
    | SWhile ln t b o => HWhile ln t b o (blk b) (blk o)
    | SIf ln t b o => HIf ln t b o (blk b) (blk o)
    | SWith ln items b => HWith ln items b (blk b)
    | STry ln b hs o f =>
        HTry ln b hs o f (blk b)
             ((fix go (l : list handler) : Forall PH l :=
                 match l with
                 | [] => Forall_nil _
                 | Handler hl ty nm hb :: r => Forall_cons (Handler hl ty nm hb) (blk hb) (go r)
                 end) hs)
             (blk o) (blk f)
    | SPass ln => HPass ln
    | SDoc ln ex br => HDoc ln ex br (blk ex)
    end.
End StmtInd.

(* ---------- names, dotted names ---------- *)
Lemma dotted_eqb_eq : forall a b, dotted_eqb a b = true <-> a = b.
Proof.
  induction a as [|x a IH]; destruct b as [|y b]; cbn; split; intro H; try discriminate; auto.
  - apply andb_true_iff in H as [H1 H2]. apply N.eqb_eq in H1. apply IH in H2. congruence.
  - injection H as -> ->. rewrite N.eqb_refl. cbn. apply IH. reflexivity.
Qed.
Lemma dotted_eqb_refl : forall a, dotted_eqb a a = true.
Proof. intro a. apply dotted_eqb_eq. reflexivity. Qed.
Lemma dotted_eqb_neq : forall a b, dotted_eqb a b = false <-> a <> b.
Proof.
  intros a b. split; intro H.
  - intro E. apply dotted_eqb_eq in E. congruence.
  - destruct (dotted_eqb a b) eqn:E; auto. apply dotted_eqb_eq in E. contradiction.
Qed.
Lemma dotted_eqb_sym : forall a b, dotted_eqb a b = dotted_eqb b a.
Proof.
  intros a b. destruct (dotted_eqb a b) eqn:E.
  - apply dotted_eqb_eq in E. subst. symmetry. apply dotted_eqb_refl.
  - symmetry. apply dotted_eqb_neq. apply dotted_eqb_neq in E. congruence.
Qed.

Lemma mem_In : forall x l, mem x l = true <-> In x l.
Proof.
  induction l as [|y l IH]; cbn; split; intro H; try discriminate; try contradiction.
  - apply orb_true_iff in H as [H|H]. left. apply N.eqb_eq in H. congruence. right. apply IH. exact H.
  - apply orb_true_iff. destruct H as [H|H]. left. subst. apply N.eqb_refl. right. apply IH. exact H.
Qed.

(* every prefix of n :: a starts with n *)
Lemma prefixes_from_shape : forall rest acc p, In p (prefixes_from acc rest) -> exists q, p = acc ++ q /\ q <> [].
Proof.
  induction rest as [|x r IH]; cbn; intros acc p H. contradiction.
  destruct H as [H|H].
  - subst. exists [x]. split; auto. discriminate.
  - apply IH in H as (q & -> & Hq). exists (x :: q). rewrite <- app_assoc. split; auto. discriminate.
Qed.
Lemma prefixes_head : forall n a p, In p (prefixes (n :: a)) -> exists q, p = n :: q.
Proof.
  intros n a p H. unfold prefixes in H. cbn in H. destruct H as [H|H].
  - subst. exists []. reflexivity.
  - apply prefixes_from_shape in H as (q & -> & _). exists q. reflexivity.
Qed.
Lemma prefixes_first : forall n a, In [n] (prefixes (n :: a)).
Proof. intros. unfold prefixes. cbn. left. reflexivity. Qed.

(* ---------- dictionaries ---------- *)
Lemma dict_get_set : forall d k v k',
  dict_get (dict_set d k v) k' = if dotted_eqb k' k then Some v else dict_get d k'.
Proof.
  induction d as [|[k0 v0] d IH]; intros k v k'; cbn.
  - destruct (dotted_eqb k' k); reflexivity.
  - destruct (dotted_eqb k k0) eqn:E; cbn.
    + apply dotted_eqb_eq in E. subst k0. destruct (dotted_eqb k' k); reflexivity.
    + rewrite IH. destruct (dotted_eqb k' k0) eqn:E0; auto.
      destruct (dotted_eqb k' k) eqn:E1; auto.
      apply dotted_eqb_eq in E0, E1. subst. rewrite dotted_eqb_refl in E. discriminate.
Qed.

Lemma get_set_scope_same : forall l i v, get_scope (set_scope l i v) i = v.
Proof.
  induction l as [|[j w] l IH]; intros i v; cbn.
  - rewrite Nat.eqb_refl. reflexivity.
  - destruct (Nat.eqb i j) eqn:E; cbn; rewrite ?E; auto.
Qed.
Lemma get_set_scope_other : forall l i j v, i <> j -> get_scope (set_scope l i v) j = get_scope l j.
Proof.
  induction l as [|[k w] l IH]; intros i j v Hij; cbn.
  - destruct (Nat.eqb j i) eqn:E; auto. apply Nat.eqb_eq in E. congruence.
  - destruct (Nat.eqb i k) eqn:E; cbn.
    + apply Nat.eqb_eq in E. subst k. destruct (Nat.eqb j i) eqn:E2; auto. apply Nat.eqb_eq in E2. congruence.
    + destruct (Nat.eqb j k); auto.
Qed.

Lemma scope_dict_set_in_scope : forall s i k v j,
  scope_dict (set_in_scope s i k v) j = if Nat.eqb i j then dict_set (scope_dict s i) k v else scope_dict s j.
Proof.
  intros s i k v j. unfold set_in_scope, scope_dict.
  destruct (get_scope (scopes s) i) as [c d] eqn:E. cbn.
  destruct (Nat.eqb i j) eqn:Eij.
  - apply Nat.eqb_eq in Eij. subst j. rewrite get_set_scope_same. reflexivity.
  - rewrite get_set_scope_other; auto. apply Nat.eqb_neq. exact Eij.
Qed.

(* ---------- sorting keeps the elements ---------- *)
Lemma insert_by_In : forall A (leb : A -> A -> bool) x y l, In y (insert_by leb x l) <-> y = x \/ In y l.
Proof.
  induction l as [|z l IH]; cbn.
  - intuition.
  - destruct (leb x z); cbn; rewrite ?IH; intuition.
Qed.
Lemma sort_by_In : forall A (leb : A -> A -> bool) l y, In y (sort_by leb l) <-> In y l.
Proof.
  induction l as [|x l IH]; cbn; intro y. reflexivity.
  rewrite insert_by_In, IH. intuition.
Qed.

(* C02 - remove_preserves_trace, on PySem, for the whole mini-language. *)
From Coq Require Import NArith List Bool Arith Lia.
From Verif Require Import Scope.PySyntax Scope.PySem Scope.Fragment Scope.AuxProofs Scope.Finder Scope.FinderProofs Scope.Remove.
Import ListNotations.

Section Remove.
Variable R : nat -> import -> bool.

(* A' is A with some entries deleted, all of them bindings made by removed imports *)
Inductive SubR : list (name * bsrc) -> list (name * bsrc) -> Prop :=
| SubNil : SubR [] []
| SubKeep e a' a : SubR a' a -> SubR (e :: a') (e :: a)
| SubSkip e a' a : SubR a' a -> removed_src R (snd e) = true -> SubR a' (e :: a).

Lemma SubR_refl : forall a, SubR a a.
Proof. induction a; constructor; auto. Qed.
Lemma SubR_app : forall a' a b' b, SubR a' a -> SubR b' b -> SubR (a' ++ b') (a ++ b).
Proof. intros a' a b' b H. induction H; cbn; intros; auto; constructor; auto. Qed.
Lemma SubR_rev : forall a' a, SubR a' a -> SubR (rev a') (rev a).
Proof.
  intros a' a H. induction H; cbn. constructor.
  - apply SubR_app; auto. repeat constructor.
  - rewrite <- (app_nil_r (rev a')). apply SubR_app; auto. apply SubSkip; auto. constructor.
Qed.

Definition ok_res (r : res) : Prop := match r with Bound b => removed_src R b = false | _ => True end.
Definition oks (l : list rd) : Prop := Forall (fun r => ok_res (snd r)) l.

Lemma lookup_sub : forall x a' a, SubR a' a ->
  (forall b, lookup_b x a = Some b -> removed_src R b = false -> lookup_b x a' = Some b) /\
  (lookup_b x a = None -> lookup_b x a' = None).
Proof.
  intros x a' a H. induction H as [|[y c] a' a H [IH1 IH2]|[y c] a' a H [IH1 IH2] Hr]; cbn.
  - split; auto.
  - destruct (N.eqb x y); auto.
  - cbn in Hr. destruct (N.eqb x y); auto. split. intros b E Hb. injection E as <-. congruence. discriminate.
Qed.

(* frames related: same shape, the primed one lacks only bindings made by removed imports *)
Definition FS (f' f : frame) : Prop :=
  fk f' = fk f /\ flocals f' = flocals f /\ SubR (fdyn f') (fdyn f) /\ SubR (ffinal f') (ffinal f).
Definition ES (e' e : env) : Prop := Forall2 FS e' e.

Lemma FS_refl : forall f, FS f f.
Proof. intro f. repeat split; apply SubR_refl. Qed.
Lemma ES_refl : forall e, ES e e.
Proof. induction e; constructor; auto using FS_refl. Qed.
Lemma FS_bind : forall f' f n b, FS f' f -> FS (bind n b f') (bind n b f).
Proof. intros f' f n b (A & B & C & D). repeat split; auto. cbn. constructor. exact C. Qed.
Lemma FS_bind_removed : forall f' f n b, FS f' f -> removed_src R b = true -> FS f' (bind n b f).
Proof. intros f' f n b (A & B & C & D) H. repeat split; auto. cbn. apply SubSkip; auto. Qed.
Lemma ES_finalize : forall e' e, ES e' e -> ES (finalize e') (finalize e).
Proof.
  intros e' e H. induction H as [|f' f e' e (A & B & C & D) H IH]; cbn; constructor; auto.
  repeat split; auto.
Qed.
Lemma ES_head : forall e' e, ES e' e -> FS (head e') (head e).
Proof. intros e' e H. destruct H; cbn. apply FS_refl. assumption. Qed.
Lemma ES_with_head : forall e' e f' f, ES e' e -> FS f' f -> ES (with_head e' f') (with_head e f).
Proof. intros e' e f' f H Hf. destruct H; cbn; constructor; auto. Qed.
Lemma ES_tl : forall e' e, ES e' e -> ES (tl e') (tl e).
Proof. intros e' e H. destruct H; cbn; auto. constructor. Qed.
Lemma ES_last : forall e' e, ES e' e -> FS (last e' (mkFrame FModule [] [] [])) (last e (mkFrame FModule [] [] [])).
Proof.
  intros e' e H. induction H as [|f' f e' e Hf H IH]; cbn. apply FS_refl.
  destruct H; auto.
Qed.

Lemma lookup_FS : forall x f' f r, FS f' f ->
  match lookup_b x (fdyn f) with Some b => Bound b | None => r end = match lookup_b x (fdyn f) with Some b => Bound b | None => r end.
Proof. reflexivity. Qed.

(* the result of a resolution that is not a removed binding is the same in the primed environment *)
Lemma resolve_outer_ES : forall x e' e, ES e' e -> ok_res (resolve_outer x e) -> resolve_outer x e' = resolve_outer x e.
Proof.
  intros x e' e H. induction H as [|f' f e' e Hf H IH]; intro Hok. reflexivity.
  destruct Hf as (A & B & C & D). cbn [resolve_outer] in *.
  destruct (lookup_sub x _ _ C) as [L1 L2].
  destruct H as [|g' g e2' e2 Hg H2].
  - destruct (lookup_b x (fdyn f)) eqn:E. rewrite (L1 _ eq_refl Hok). reflexivity. rewrite (L2 eq_refl). reflexivity.
  - rewrite A, B. destruct (fk f); auto.
    + destruct (mem x (flocals f)); auto.
      destruct (lookup_b x (fdyn f)) eqn:E. rewrite (L1 _ eq_refl Hok). reflexivity. rewrite (L2 eq_refl). reflexivity.
    + destruct (mem x (flocals f)); auto.
      destruct (lookup_b x (fdyn f)) eqn:E. rewrite (L1 _ eq_refl Hok). reflexivity. rewrite (L2 eq_refl). reflexivity.
Qed.

Lemma global_lookup_ES : forall x e' e, ES e' e -> ok_res (global_lookup x e) -> global_lookup x e' = global_lookup x e.
Proof.
  intros x e' e H Hok. unfold global_lookup in *. destruct (ES_last _ _ H) as (_ & _ & C & _).
  destruct (lookup_sub x _ _ C) as [L1 L2].
  destruct (lookup_b x (fdyn (last e _))) eqn:E. rewrite (L1 _ eq_refl Hok). reflexivity. rewrite (L2 eq_refl). reflexivity.
Qed.

Lemma resolve_ES : forall x e' e, ES e' e -> ok_res (resolve x e) -> resolve x e' = resolve x e.
Proof.
  intros x e' e H Hok. unfold resolve in *.
  destruct H as [|f' f e1' e1 Hf H]. reflexivity.
  destruct H as [|g' g e2' e2 Hg H2].
  - apply resolve_outer_ES; [constructor; [exact Hf|constructor]|exact Hok].
  - assert (Hall : ES (f' :: g' :: e2') (f :: g :: e2)) by (constructor; [exact Hf|constructor; [exact Hg|exact H2]]).
    assert (Htl : ES (g' :: e2') (g :: e2)) by (constructor; [exact Hg|exact H2]).
    pose proof Hf as (A & B & C & D). rewrite A. destruct (fk f).
    + apply resolve_outer_ES; assumption.
    + apply resolve_outer_ES; assumption.
    + destruct (lookup_sub x _ _ C) as [L1 L2].
      destruct (lookup_b x (fdyn f)) eqn:E.
      * rewrite (L1 _ eq_refl Hok). reflexivity.
      * rewrite (L2 eq_refl), B. destruct (mem x (flocals f)).
        -- apply global_lookup_ES; assumption.
        -- apply resolve_outer_ES; assumption.
    + apply resolve_outer_ES; assumption.
Qed.

Lemma oks_app : forall a b, oks (a ++ b) <-> oks a /\ oks b.
Proof. intros. unfold oks. apply Forall_app. Qed.

Lemma exec_target_ES : forall t ln outer' outer f' f, ES outer' outer -> FS f' f ->
  oks (snd (exec_target ln outer f t)) ->
  exists f1', exec_target ln outer' f' t = (f1', snd (exec_target ln outer f t)) /\ FS f1' (fst (exec_target ln outer f t)).
Proof.
  intro t. induction t using target_ind'; intros ln outer' outer f' f HE HF Hok; cbn [exec_target] in *.
  - eexists. split. reflexivity. cbn. apply FS_bind. exact HF.
  - eexists. split; [|exact HF]. cbn [snd] in Hok. inversion Hok as [|? ? Hr _]; subst. cbn [snd] in Hr.
    rewrite (resolve_ES n (f' :: outer') (f :: outer)); auto. constructor; auto.
  - revert f' f HF Hok. induction H as [|x ts Hx Hts IH]; intros f' f HF Hok.
    + eexists. split. reflexivity. exact HF.
    + destruct (exec_target ln outer f x) as [f1 r1] eqn:E1.
      destruct ((fix go (l : list target) (f : frame) : frame * list rd :=
                   match l with
                   | [] => (f, [])
                   | x :: r => let '(f1, r1) := exec_target ln outer f x in let '(f2, r2) := go r f1 in (f2, r1 ++ r2)
                   end) ts f1) as [f2 r2] eqn:E2.
      cbn [snd fst] in *. apply oks_app in Hok as [Hok1 Hok2].
      destruct (Hx ln outer' outer f' f HE HF) as (g1 & Eg1 & HF1). rewrite E1. exact Hok1.
      rewrite E1 in Eg1, HF1. cbn [snd fst] in Eg1, HF1. rewrite Eg1.
      destruct (IH g1 f1 HF1) as (g2 & Eg2 & HF2). rewrite E2. exact Hok2.
      rewrite E2 in Eg2, HF2. cbn [snd fst] in Eg2, HF2. rewrite Eg2. eexists. split. reflexivity. exact HF2.
Qed.

Definition PE (x : expr) : Prop := forall ln e' e, ES e' e -> oks (sem_expr ln e x) -> sem_expr ln e' x = sem_expr ln e x.
Definition PG (g : gen) : Prop := forall ln outer' outer k' k first, ES outer' outer -> FS k' k ->
  oks (snd (sem_gen ln outer k first g)) ->
  exists k1', sem_gen ln outer' k' first g = (k1', snd (sem_gen ln outer k first g)) /\ FS k1' (fst (sem_gen ln outer k first g)).

Lemma exprs_ES : forall es, Forall PE es -> forall ln e' e, ES e' e ->
  oks ((fix go (l : list expr) : list rd := match l with [] => [] | y :: r => sem_expr ln e y ++ go r end) es) ->
  (fix go (l : list expr) : list rd := match l with [] => [] | y :: r => sem_expr ln e' y ++ go r end) es =
  (fix go (l : list expr) : list rd := match l with [] => [] | y :: r => sem_expr ln e y ++ go r end) es.
Proof.
  intros es H ln e' e HE. induction H as [|x es Hx Hes IH]; intro Hok. reflexivity.
  apply oks_app in Hok as [H1 H2]. rewrite (Hx ln e' e HE H1), (IH H2). reflexivity.
Qed.

Lemma FS_fun_frame : forall ps bs st, FS (fun_frame ps bs st) (fun_frame ps bs st).
Proof. intros. apply FS_refl. Qed.

Lemma sem_expr_ES : forall x, PE x.
Proof.
  intro x. induction x using expr_ind' with (Q := PG); unfold PE, PG in *.
  - (* ELoad *) intros ln e' e HE Hok. cbn in *. inversion Hok as [|? ? Hr _]; subst. cbn in Hr.
    rewrite (resolve_ES n e' e HE Hr). reflexivity.
  - (* EOp *) intros ln e' e HE Hok. cbn [sem_expr] in *. apply exprs_ES; auto.
  - (* EAttr *) intros ln e' e HE Hok. cbn [sem_expr] in *. apply IHx; auto.
  - (* ELambda *) intros ln e' e HE Hok. cbn [sem_expr] in *. apply oks_app in Hok as [H1 H2].
    rewrite (exprs_ES ds H ln e' e HE H1). f_equal.
    apply IHx; auto. constructor. apply FS_refl. apply ES_finalize. exact HE.
  - (* EComp *) intros ln e' e HE Hok. cbn [sem_expr] in *.
    set (k0 := comp_frame (gen_targets gs)) in *.
    assert (G : forall gs0, Forall PG gs0 -> forall first k' k, FS k' k ->
              oks (snd ((fix go (l : list gen) (first : bool) (k : frame) : frame * list rd :=
                         match l with
                         | [] => (k, [])
                         | g :: r => let '(k1, ra) := sem_gen ln e k first g in let '(k2, rb) := go r false k1 in (k2, ra ++ rb)
                         end) gs0 first k)) ->
              exists k1', (fix go (l : list gen) (first : bool) (k : frame) : frame * list rd :=
                         match l with
                         | [] => (k, [])
                         | g :: r => let '(k1, ra) := sem_gen ln e' k first g in let '(k2, rb) := go r false k1 in (k2, ra ++ rb)
                         end) gs0 first k' =
                        (k1', snd ((fix go (l : list gen) (first : bool) (k : frame) : frame * list rd :=
                         match l with
                         | [] => (k, [])
                         | g :: r => let '(k1, ra) := sem_gen ln e k first g in let '(k2, rb) := go r false k1 in (k2, ra ++ rb)
                         end) gs0 first k)) /\
                        FS k1' (fst ((fix go (l : list gen) (first : bool) (k : frame) : frame * list rd :=
                         match l with
                         | [] => (k, [])
                         | g :: r => let '(k1, ra) := sem_gen ln e k first g in let '(k2, rb) := go r false k1 in (k2, ra ++ rb)
                         end) gs0 first k))).
    { intros gs0 HG. induction HG as [|g gs0 Hg HG IH]; intros first k' k HF Hk.
      - eexists. split. reflexivity. exact HF.
      - destruct (sem_gen ln e k first g) as [k1 ra] eqn:E1.
        destruct ((fix go (l : list gen) (first : bool) (k : frame) : frame * list rd :=
                         match l with
                         | [] => (k, [])
                         | g :: r => let '(k1, ra) := sem_gen ln e k first g in let '(k2, rb) := go r false k1 in (k2, ra ++ rb)
                         end) gs0 false k1) as [k2 rb] eqn:E2.
        cbn [snd fst] in *. apply oks_app in Hk as [Hk1 Hk2].
        destruct (Hg ln e' e k' k first HE HF) as (j1 & Ej1 & HF1). rewrite E1. exact Hk1.
        rewrite E1 in Ej1, HF1. cbn [snd fst] in Ej1, HF1. rewrite Ej1.
        destruct (IH false j1 k1 HF1) as (j2 & Ej2 & HF2). rewrite E2. exact Hk2.
        rewrite E2 in Ej2, HF2. cbn [snd fst] in Ej2, HF2. rewrite Ej2. eexists. split. reflexivity. exact HF2. }
    destruct ((fix go (l : list gen) (first : bool) (k : frame) : frame * list rd :=
                         match l with
                         | [] => (k, [])
                         | g :: r => let '(k1, ra) := sem_gen ln e k first g in let '(k2, rb) := go r false k1 in (k2, ra ++ rb)
                         end) gs true k0) as [kf r1] eqn:E.
    apply oks_app in Hok as [Hk1 Hk2].
    destruct (G gs H true k0 k0 (FS_refl k0)) as (jf & Ej & HFj). rewrite E. exact Hk1.
    rewrite E in Ej, HFj. cbn [snd fst] in Ej, HFj. rewrite Ej. f_equal.
    apply exprs_ES; auto. constructor; auto.
  - (* Gen *) intros ln outer' outer k' k first HE HF Hok. cbn [sem_gen] in *.
    destruct (exec_target ln outer k t) as [k1 r2] eqn:E1. cbn [snd fst] in *.
    apply oks_app in Hok as [Hi Hok]. apply oks_app in Hok as [Ht Hifs].
    destruct (exec_target_ES t ln outer' outer k' k HE HF) as (j1 & Ej & HF1). rewrite E1. exact Ht.
    rewrite E1 in Ej, HF1. cbn [snd fst] in Ej, HF1. rewrite Ej.
    eexists. split; [|exact HF1]. f_equal. f_equal.
    + apply IHx. destruct first; auto. constructor; auto. exact Hi.
    + f_equal. apply exprs_ES; auto. constructor; auto.
Qed.

(* ---------- statements ---------- *)
Lemma sem_exprs_ES : forall l ln e' e, ES e' e -> oks (sem_exprs ln e l) -> sem_exprs ln e' l = sem_exprs ln e l.
Proof.
  induction l as [|x l IH]; intros ln e' e HE Hok. reflexivity.
  unfold sem_exprs in *. cbn [flat_map] in *. apply oks_app in Hok as [H1 H2].
  rewrite (sem_expr_ES x ln e' e HE H1), (IH ln e' e HE H2). reflexivity.
Qed.
Lemma sem_decos_ES : forall l e' e, ES e' e -> oks (sem_decos e l) -> sem_decos e' l = sem_decos e l.
Proof.
  induction l as [|[dl x] l IH]; intros e' e HE Hok. reflexivity.
  unfold sem_decos in *. cbn [flat_map fst snd] in *. apply oks_app in Hok as [H1 H2].
  rewrite (sem_expr_ES x dl e' e HE H1), (IH e' e HE H2). reflexivity.
Qed.

Lemma exec_target_env_ES : forall t ln e' e, ES e' e -> oks (snd (exec_target_env ln e t)) ->
  exists e1', exec_target_env ln e' t = (e1', snd (exec_target_env ln e t)) /\ ES e1' (fst (exec_target_env ln e t)).
Proof.
  intros t ln e' e HE Hok. unfold exec_target_env in *.
  destruct (exec_target ln (tl e) (head e) t) as [f r] eqn:E. cbn [snd fst] in *.
  destruct (exec_target_ES t ln (tl e') (tl e) (head e') (head e) (ES_tl _ _ HE) (ES_head _ _ HE)) as (f1 & Ef & HF).
  rewrite E. exact Hok. rewrite E in Ef, HF. cbn [snd fst] in Ef, HF. rewrite Ef.
  eexists. split. reflexivity. apply ES_with_head; auto.
Qed.

Definition sem_target_step (ln : nat) (acc : env * list rd) (t : target) : env * list rd :=
  let '(e, r) := acc in let '(e', r') := exec_target_env ln e t in (e', r ++ r').
Lemma sem_stmt_assign : forall e ln ts v,
  sem_stmt e (SAssign ln ts v) =
  (let r0 := sem_expr ln e v in let '(e1, r1) := fold_left (sem_target_step ln) ts (e, []) in (e1, r0 ++ r1)).
Proof. reflexivity. Qed.

Lemma target_fold_cons : forall ln t ts e acc,
  fold_left (sem_target_step ln) (t :: ts) (e, acc) =
  fold_left (sem_target_step ln) ts (let '(e1, r1) := exec_target_env ln e t in (e1, acc ++ r1)).
Proof. reflexivity. Qed.
Lemma with_fold_cons : forall ln x ot items e acc,
  fold_left (sem_with_step ln) ((x, ot) :: items) (e, acc) =
  fold_left (sem_with_step ln) items
    (match ot with
     | Some t => let '(e1, r1) := exec_target_env ln e t in (e1, acc ++ sem_expr ln e x ++ r1)
     | None => (e, acc ++ sem_expr ln e x)
     end).
Proof. reflexivity. Qed.

Lemma target_fold_prefix : forall ln ts e acc, exists r, snd (fold_left (sem_target_step ln) ts (e, acc)) = acc ++ r.
Proof.
  intros ln ts. induction ts as [|t ts IH]; intros e acc. exists []. cbn. rewrite app_nil_r. reflexivity.
  rewrite target_fold_cons. destruct (exec_target_env ln e t) as [e1 r1].
  destruct (IH e1 (acc ++ r1)) as (r & Hr). exists (r1 ++ r). rewrite Hr, app_assoc. reflexivity.
Qed.
Lemma target_fold_ES : forall ln ts e' e acc, ES e' e -> oks (snd (fold_left (sem_target_step ln) ts (e, acc))) ->
  exists e1', fold_left (sem_target_step ln) ts (e', acc) = (e1', snd (fold_left (sem_target_step ln) ts (e, acc))) /\
              ES e1' (fst (fold_left (sem_target_step ln) ts (e, acc))).
Proof.
  intros ln ts. induction ts as [|t ts IH]; intros e' e acc HE Hok.
  - eexists. split. reflexivity. exact HE.
  - rewrite !target_fold_cons in *.
    destruct (exec_target_env ln e t) as [e1 r1] eqn:E1.
    destruct (target_fold_prefix ln ts e1 (acc ++ r1)) as (r & Hr).
    assert (Hr1 : oks r1). { rewrite Hr in Hok. apply oks_app in Hok as [Hok _]. apply oks_app in Hok as [_ Hok]. exact Hok. }
    destruct (exec_target_env_ES t ln e' e HE) as (j1 & Ej & HE1). rewrite E1. exact Hr1.
    rewrite E1 in Ej, HE1. cbn [snd fst] in Ej, HE1. rewrite Ej. apply IH; auto.
Qed.

Lemma with_fold_prefix : forall ln items e acc, exists r, snd (fold_left (sem_with_step ln) items (e, acc)) = acc ++ r.
Proof.
  intros ln items. induction items as [|[x ot] items IH]; intros e acc. exists []. cbn. rewrite app_nil_r. reflexivity.
  rewrite with_fold_cons. destruct ot as [t|].
  - destruct (exec_target_env ln e t) as [e1 r1].
    destruct (IH e1 (acc ++ sem_expr ln e x ++ r1)) as (r & Hr). exists ((sem_expr ln e x ++ r1) ++ r). rewrite Hr, !app_assoc. reflexivity.
  - destruct (IH e (acc ++ sem_expr ln e x)) as (r & Hr). exists (sem_expr ln e x ++ r). rewrite Hr, app_assoc. reflexivity.
Qed.
Lemma with_fold_ES : forall ln items e' e acc, ES e' e -> oks (snd (fold_left (sem_with_step ln) items (e, acc))) ->
  exists e1', fold_left (sem_with_step ln) items (e', acc) = (e1', snd (fold_left (sem_with_step ln) items (e, acc))) /\
              ES e1' (fst (fold_left (sem_with_step ln) items (e, acc))).
Proof.
  intros ln items. induction items as [|[x ot] items IH]; intros e' e acc HE Hok.
  - eexists. split. reflexivity. exact HE.
  - rewrite !with_fold_cons in *. destruct ot as [t|].
    + destruct (exec_target_env ln e t) as [e1 r1] eqn:E1.
      destruct (with_fold_prefix ln items e1 (acc ++ sem_expr ln e x ++ r1)) as (r & Hr).
      assert (Hx : oks (sem_expr ln e x) /\ oks r1).
      { rewrite Hr in Hok. apply oks_app in Hok as [Hok _]. apply oks_app in Hok as [_ Hok]. apply oks_app in Hok. exact Hok. }
      destruct Hx as [Hx Hr1]. rewrite (sem_expr_ES x ln e' e HE Hx).
      destruct (exec_target_env_ES t ln e' e HE) as (j1 & Ej & HE1). rewrite E1. exact Hr1.
      rewrite E1 in Ej, HE1. cbn [snd fst] in Ej, HE1. rewrite Ej. apply IH; auto.
    + destruct (with_fold_prefix ln items e (acc ++ sem_expr ln e x)) as (r & Hr).
      assert (Hx : oks (sem_expr ln e x)).
      { rewrite Hr in Hok. apply oks_app in Hok as [Hok _]. apply oks_app in Hok as [_ Hok]. exact Hok. }
      rewrite (sem_expr_ES x ln e' e HE Hx). apply IH; auto.
Qed.

Lemma sem_stmt_def : forall e ln nm decos ps ret body,
  sem_stmt e (SDef ln nm decos ps ret body) =
  (let r0 := sem_decos e decos ++ sem_exprs ln e (header_exprs ps ret) in
   let f := fun_frame (params_names ps) (bsrcs_block false body) (binds_block true body) in
   let '(_, r1) := sem_block body (f :: finalize e) in
   (with_head e (bind nm BOther (head e)), r0 ++ r1)).
Proof. intros. cbn [sem_stmt]. cbv zeta. rewrite !sem_block_fix. reflexivity. Qed.
Lemma sem_stmt_class : forall e ln nm bases decos kws body,
  sem_stmt e (SClass ln nm bases decos kws body) =
  (let r0 := sem_decos e decos ++ sem_exprs ln e bases ++ sem_exprs ln e kws in
   let c := mkFrame FClass (binds_block true body) (rev (bsrcs_block false body)) [] in
   let '(_, r1) := sem_block body (c :: e) in
   (with_head e (bind nm BOther (head e)), r0 ++ r1)).
Proof. intros. cbn [sem_stmt]. cbv zeta. rewrite !sem_block_fix. reflexivity. Qed.

Definition PS (s : stmt) : Prop := forall e' e, ES e' e -> oks (snd (sem_stmt e s)) ->
  exists e1', sem_stmt e' s = (e1', snd (sem_stmt e s)) /\ ES e1' (fst (sem_stmt e s)).
Definition PB (l : list stmt) : Prop := forall e' e, ES e' e -> oks (snd (sem_block l e)) ->
  exists e1', sem_block l e' = (e1', snd (sem_block l e)) /\ ES e1' (fst (sem_block l e)).

Lemma block_ES : forall l, Forall PS l -> PB l.
Proof.
  induction l as [|x l IH]; intros HF e' e HE Hok.
  - eexists. split. reflexivity. exact HE.
  - inversion HF as [|? ? Hx HF']; subst. cbn [sem_block] in *.
    destruct (sem_stmt e x) as [e1 r1] eqn:E1. destruct (sem_block l e1) as [e2 r2] eqn:E2. cbn [snd fst] in *.
    apply oks_app in Hok as [H1 H2].
    destruct (Hx e' e HE) as (j1 & Ej1 & HE1). rewrite E1. exact H1. rewrite E1 in Ej1, HE1. cbn [snd fst] in Ej1, HE1. rewrite Ej1.
    destruct (IH HF' j1 e1 HE1) as (j2 & Ej2 & HE2). rewrite E2. exact H2. rewrite E2 in Ej2, HE2. cbn [snd fst] in Ej2, HE2. rewrite Ej2.
    eexists. split. reflexivity. exact HE2.
Qed.

Lemma ES_bind_head : forall e' e n b, ES e' e -> ES (with_head e' (bind n b (head e'))) (with_head e (bind n b (head e))).
Proof. intros. apply ES_with_head; auto. apply FS_bind. apply ES_head. assumption. Qed.
Lemma FS_bind_all : forall l f' f, FS f' f -> FS (bind_all l f') (bind_all l f).
Proof. unfold bind_all. induction l as [|[n b] l IH]; intros f' f H; cbn [fold_left fst snd]. exact H. apply IH. apply FS_bind. exact H. Qed.

Ltac use_block H e' e HE Hk :=
  let j := fresh "j" in let Ej := fresh "Ej" in let HEj := fresh "HEj" in
  destruct (H e' e HE Hk) as (j & Ej & HEj).

Lemma stmt_ES : forall s, PS s.
Proof.
  induction s using stmt_ind'; unfold PS; intros env' env HE Hok.
  - (* SExpr *) cbn [sem_stmt snd fst] in *. rewrite (sem_expr_ES e ln env' env HE Hok). eexists. split. reflexivity. exact HE.
  - (* SAssign *) rewrite !sem_stmt_assign in *. cbv zeta in *.
    destruct (fold_left (sem_target_step ln) ts (env, [])) as [e1 r1] eqn:E1. cbn [snd fst] in *.
    apply oks_app in Hok as [H1 H2]. rewrite (sem_expr_ES v ln env' env HE H1).
    destruct (target_fold_ES ln ts env' env [] HE) as (j & Ej & HEj). rewrite E1. exact H2.
    rewrite E1 in Ej, HEj. cbn [snd fst] in Ej, HEj. rewrite Ej. eexists. split. reflexivity. exact HEj.
  - (* SAugAssign *) cbn [sem_stmt snd fst] in *. apply oks_app in Hok as [H1 H2].
    inversion H1 as [|? ? Hr _]; subst. cbn [snd] in Hr. rewrite (resolve_ES n env' env HE Hr), (sem_expr_ES v ln env' env HE H2).
    eexists. split. reflexivity. destruct a. apply ES_bind_head; auto. exact HE.
  - (* SAllAssign *) cbn [sem_stmt snd fst] in *. eexists. split. reflexivity. apply ES_bind_head; auto.
  - (* SImport *) cbn [sem_stmt snd fst] in *. eexists. split. reflexivity.
    apply ES_with_head; auto. apply FS_bind_all. apply ES_head. exact HE.
  - (* SImportFrom *) cbn [sem_stmt snd fst] in *. eexists. split. reflexivity.
    apply ES_with_head; auto. apply FS_bind_all. apply ES_head. exact HE.
  - (* SDef *) rewrite !sem_stmt_def in *. cbv zeta in *.
    set (f := fun_frame (params_names ps) (bsrcs_block false body) (binds_block true body)) in *.
    destruct (sem_block body (f :: finalize env)) as [ef r1] eqn:E1. cbn [snd fst] in *.
    apply oks_app in Hok as [H0 H1]. apply oks_app in H0 as [Hd Hh].
    rewrite (sem_decos_ES decos env' env HE Hd), (sem_exprs_ES _ ln env' env HE Hh).
    destruct (block_ES body H (f :: finalize env') (f :: finalize env)) as (j & Ej & _).
    constructor. apply FS_refl. apply ES_finalize. exact HE. rewrite E1. exact H1.
    rewrite E1 in Ej. cbn [snd] in Ej. rewrite Ej. eexists. split. reflexivity. apply ES_bind_head; auto.
  - (* SClass *) rewrite !sem_stmt_class in *. cbv zeta in *.
    set (c := mkFrame FClass (binds_block true body) (rev (bsrcs_block false body)) []) in *.
    destruct (sem_block body (c :: env)) as [ef r1] eqn:E1. cbn [snd fst] in *.
    apply oks_app in Hok as [H0 H1]. apply oks_app in H0 as [Hd H0]. apply oks_app in H0 as [Hb Hk].
    rewrite (sem_decos_ES decos env' env HE Hd), (sem_exprs_ES _ ln env' env HE Hb), (sem_exprs_ES _ ln env' env HE Hk).
    destruct (block_ES body H (c :: env') (c :: env)) as (j & Ej & _).
    constructor. apply FS_refl. exact HE. rewrite E1. exact H1.
    rewrite E1 in Ej. cbn [snd] in Ej. rewrite Ej. eexists. split. reflexivity. apply ES_bind_head; auto.
  - (* SFor *) rewrite !sem_stmt_for in *. cbv zeta in *.
    destruct (exec_target_env ln env t) as [e1 r1] eqn:E1. destruct (sem_block b e1) as [e2 r2] eqn:E2.
    destruct (sem_block o e2) as [e3 r3] eqn:E3. cbn [snd fst] in *.
    apply oks_app in Hok as [Hi Hok]. apply oks_app in Hok as [Ht Hok]. apply oks_app in Hok as [Hb Ho].
    rewrite (sem_expr_ES it ln env' env HE Hi).
    destruct (exec_target_env_ES t ln env' env HE) as (j1 & Ej1 & HE1). rewrite E1. exact Ht.
    rewrite E1 in Ej1, HE1. cbn [snd fst] in Ej1, HE1. rewrite Ej1.
    destruct (block_ES b H j1 e1 HE1) as (j2 & Ej2 & HE2). rewrite E2. exact Hb. rewrite E2 in Ej2, HE2. cbn [snd fst] in Ej2, HE2. rewrite Ej2.
    destruct (block_ES o H0 j2 e2 HE2) as (j3 & Ej3 & HE3). rewrite E3. exact Ho. rewrite E3 in Ej3, HE3. cbn [snd fst] in Ej3, HE3. rewrite Ej3.
    eexists. split. reflexivity. exact HE3.
  - (* SWhile *) rewrite !sem_stmt_while in *. cbv zeta in *.
    destruct (sem_block b env) as [e2 r2] eqn:E2. cbn [snd fst] in *. apply oks_app in Hok as [Hi Hb].
    rewrite (sem_expr_ES t ln env' env HE Hi).
    destruct (block_ES b H env' env HE) as (j2 & Ej2 & HE2). rewrite E2. exact Hb. rewrite E2 in Ej2, HE2. cbn [snd fst] in Ej2, HE2. rewrite Ej2.
    eexists. split. reflexivity. exact HE2.
  - (* SIf *) rewrite !sem_stmt_if in *. cbv zeta in *.
    destruct (sem_block b env) as [e2 r2] eqn:E2. cbn [snd fst] in *. apply oks_app in Hok as [Hi Hb].
    rewrite (sem_expr_ES t ln env' env HE Hi).
    destruct (block_ES b H env' env HE) as (j2 & Ej2 & HE2). rewrite E2. exact Hb. rewrite E2 in Ej2, HE2. cbn [snd fst] in Ej2, HE2. rewrite Ej2.
    eexists. split. reflexivity. exact HE2.
  - (* SWith *) rewrite !sem_stmt_with in *.
    destruct (fold_left (sem_with_step ln) items (env, [])) as [e1 r1] eqn:E1. destruct (sem_block b e1) as [e2 r2] eqn:E2.
    cbn [snd fst] in *. apply oks_app in Hok as [Hi Hb].
    destruct (with_fold_ES ln items env' env [] HE) as (j1 & Ej1 & HE1). rewrite E1. exact Hi.
    rewrite E1 in Ej1, HE1. cbn [snd fst] in Ej1, HE1. rewrite Ej1.
    destruct (block_ES b H j1 e1 HE1) as (j2 & Ej2 & HE2). rewrite E2. exact Hb. rewrite E2 in Ej2, HE2. cbn [snd fst] in Ej2, HE2. rewrite Ej2.
    eexists. split. reflexivity. exact HE2.
  - (* STry *) rewrite !sem_stmt_try in *.
    destruct (sem_block b env) as [e1 r1] eqn:E1. destruct (sem_block o e1) as [e2 r2] eqn:E2.
    destruct (sem_block f e2) as [e3 r3] eqn:E3. cbn [snd fst] in *.
    apply oks_app in Hok as [Hb Hok]. apply oks_app in Hok as [Ho Hf].
    destruct (block_ES b H env' env HE) as (j1 & Ej1 & HE1). rewrite E1. exact Hb. rewrite E1 in Ej1, HE1. cbn [snd fst] in Ej1, HE1. rewrite Ej1.
    destruct (block_ES o H1 j1 e1 HE1) as (j2 & Ej2 & HE2). rewrite E2. exact Ho. rewrite E2 in Ej2, HE2. cbn [snd fst] in Ej2, HE2. rewrite Ej2.
    destruct (block_ES f H2 j2 e2 HE2) as (j3 & Ej3 & HE3). rewrite E3. exact Hf. rewrite E3 in Ej3, HE3. cbn [snd fst] in Ej3, HE3. rewrite Ej3.
    eexists. split. reflexivity. exact HE3.
  - (* SPass *) cbn [sem_stmt snd fst] in *. eexists. split. reflexivity. exact HE.
  - (* SDoc *) cbn [sem_stmt snd fst] in *. eexists. split. reflexivity. exact HE.
Qed.

(* ---------- the top level ---------- *)
Lemma SubR_skip_all : forall l a' a, Forall (fun e => removed_src R (snd e) = true) l -> SubR a' a -> SubR a' (l ++ a).
Proof. induction l as [|x l IH]; intros a' a H Hs; cbn. exact Hs. inversion H; subst. apply SubSkip; auto. Qed.

Lemma drops_import : forall ln it, drops R (import_bsrcs ln it) = true ->
  Forall (fun e => removed_src R (snd e) = true) (import_bsrcs ln it).
Proof.
  intros ln [d a]. unfold import_bsrcs, drops. cbn [fst snd]. destruct a as [a|].
  - cbn. rewrite orb_false_r. intro H. repeat constructor. exact H.
  - destruct d as [|r d]; cbn. discriminate. rewrite orb_false_r. intro H. repeat constructor. exact H.
Qed.
Lemma drops_from : forall ln m it, drops R (importfrom_bsrcs ln m it) = true ->
  Forall (fun e => removed_src R (snd e) = true) (importfrom_bsrcs ln m it).
Proof.
  intros ln m [n a]. unfold importfrom_bsrcs, drops. cbn [fst snd]. destruct (N.eqb n n_star); cbn. discriminate.
  rewrite orb_false_r. intro H. repeat constructor. exact H.
Qed.

Lemma FS_bind_all_removed : forall l f' f, Forall (fun e => removed_src R (snd e) = true) l -> FS f' f -> FS f' (bind_all l f).
Proof.
  unfold bind_all. induction l as [|[n b] l IH]; intros f' f H HF; cbn [fold_left fst snd]. exact HF.
  inversion H; subst. apply IH; auto. apply FS_bind_removed; auto.
Qed.

Section Items.
  Context {A : Type} (g : A -> list (name * bsrc)).
  Hypothesis g_drops : forall it, drops R (g it) = true -> Forall (fun e => removed_src R (snd e) = true) (g it).
  Lemma FS_items : forall items f' f, FS f' f ->
    FS (bind_all (flat_map g (filter (fun it => negb (drops R (g it))) items)) f') (bind_all (flat_map g items) f).
  Proof.
    induction items as [|it items IH]; intros f' f HF; cbn [filter flat_map]. exact HF.
    destruct (drops R (g it)) eqn:E; cbn [negb].
    - rewrite bind_all_app. apply IH. apply FS_bind_all_removed; auto.
    - cbn [flat_map]. rewrite !bind_all_app. apply IH. apply FS_bind_all. exact HF.
  Qed.
  Lemma SubR_items : forall items,
    SubR (flat_map g (filter (fun it => negb (drops R (g it))) items)) (flat_map g items).
  Proof.
    induction items as [|it items IH]; cbn [filter flat_map]. constructor.
    destruct (drops R (g it)) eqn:E; cbn [negb].
    - apply SubR_skip_all; auto.
    - cbn [flat_map]. apply SubR_app; auto. apply SubR_refl.
  Qed.
End Items.

Lemma top_stmt_ES : forall s e' e, ES e' e -> oks (snd (sem_stmt e s)) ->
  exists e1', sem_stmt e' (remove_stmt R s) = (e1', snd (sem_stmt e s)) /\ ES e1' (fst (sem_stmt e s)).
Proof.
  intros s e' e HE Hok. destruct s; try (apply stmt_ES; assumption).
  - cbn [remove_stmt sem_stmt fst snd]. eexists. split. reflexivity. apply ES_with_head; auto.
    apply (FS_items (import_bsrcs ln) (drops_import ln)). apply ES_head. exact HE.
  - cbn [remove_stmt sem_stmt fst snd]. eexists. split. reflexivity. apply ES_with_head; auto.
    apply (FS_items (importfrom_bsrcs ln modname) (drops_from ln modname)). apply ES_head. exact HE.
Qed.

Lemma top_block_ES : forall p e' e, ES e' e -> oks (snd (sem_block p e)) ->
  exists e1', sem_block (remove_top R p) e' = (e1', snd (sem_block p e)) /\ ES e1' (fst (sem_block p e)).
Proof.
  induction p as [|x l IH]; intros e' e HE Hok.
  - eexists. split. reflexivity. exact HE.
  - cbn [remove_top map sem_block] in *.
    destruct (sem_stmt e x) as [e1 r1] eqn:E1. destruct (sem_block l e1) as [e2 r2] eqn:E2. cbn [snd fst] in *.
    apply oks_app in Hok as [H1 H2].
    destruct (top_stmt_ES x e' e HE) as (j1 & Ej1 & HE1). rewrite E1. exact H1. rewrite E1 in Ej1, HE1. cbn [snd fst] in Ej1, HE1. rewrite Ej1.
    destruct (IH j1 e1 HE1) as (j2 & Ej2 & HE2). rewrite E2. exact H2. rewrite E2 in Ej2, HE2. cbn [snd fst] in Ej2, HE2.
    fold (remove_top R l). rewrite Ej2. eexists. split. reflexivity. exact HE2.
Qed.

Lemma bsrcs_remove_SubR : forall p, SubR (bsrcs_block false (remove_top R p)) (bsrcs_block false p).
Proof.
  induction p as [|s p IH]; cbn. constructor.
  apply SubR_app; auto. destruct s; try apply SubR_refl; cbn [remove_stmt bsrcs].
  - apply (SubR_items (import_bsrcs ln) (drops_import ln)).
  - apply (SubR_items (importfrom_bsrcs ln modname) (drops_from ln modname)).
Qed.

Theorem remove_preserves_trace_R : forall bi ns p,
  (forall ln n l i, In (ln, n, Bound (BImp l i)) (pysem bi ns p) -> R l i = false) ->
  pysem bi ns (remove_top R p) = pysem bi ns p /\
  forall x b, lookup_b x (final_globals bi ns p) = Some b -> removed_src R b = false ->
              lookup_b x (final_globals bi ns (remove_top R p)) = Some b.
Proof.
  intros bi ns p H.
  assert (Hok : oks (pysem bi ns p)).
  { apply Forall_forall. intros [[ln n] r] Hin. cbn. destruct r as [[l i|]| |]; cbn; auto. eapply H. exact Hin. }
  assert (HE : ES [module_frame bi ns (remove_top R p)] [module_frame bi ns p]).
  { constructor; [|constructor]. unfold module_frame. repeat split; cbn; try apply SubR_refl.
    apply SubR_app. apply SubR_rev. apply bsrcs_remove_SubR. apply SubR_refl. }
  unfold pysem in *. destruct (top_block_ES p _ _ HE Hok) as (e1' & E & HE1).
  unfold final_globals. rewrite E. cbn [snd fst]. split. reflexivity.
  intros x b Hl Hb. destruct (ES_head _ _ HE1) as (_ & _ & C & _).
  destruct (lookup_sub x _ _ C) as [L1 _]. apply L1; assumption.
Qed.

(* ---------- with the doctest examples ---------- *)
Lemma doc_of_remove : forall s, doc_of (remove_stmt R s) = doc_of s.
Proof. destruct s; reflexivity. Qed.
Lemma is_assign_remove : forall s, is_assign (remove_stmt R s) = is_assign s.
Proof. destruct s; reflexivity. Qed.
Lemma epydoc_cons2 : forall a b r, epydoc (a :: b :: r) = (if is_assign a then doc_of b else []) ++ epydoc (b :: r).
Proof. reflexivity. Qed.
Lemma epydoc_remove : forall l, epydoc (map (remove_stmt R) l) = epydoc l.
Proof.
  induction l as [|a l IH]. reflexivity. destruct l as [|b r]. reflexivity.
  cbn [map] in *. rewrite !epydoc_cons2, is_assign_remove, doc_of_remove, IH. reflexivity.
Qed.
Lemma docs_stmt_remove : forall s, docs_stmt (remove_stmt R s) = docs_stmt s.
Proof. destruct s; reflexivity. Qed.
Lemma docstrings_remove : forall p, docstrings_of (remove_top R p) = docstrings_of p.
Proof.
  intro p. unfold docstrings_of, remove_top. f_equal.
  - destruct p as [|x r]; cbn [map container_docs]. reflexivity. rewrite doc_of_remove, epydoc_remove. reflexivity.
  - induction p as [|x r IH]; cbn [map flat_map]. reflexivity. rewrite docs_stmt_remove, IH. reflexivity.
Qed.

Theorem remove_preserves_trace_doc_R : forall bi ns p,
  (forall ln n l i, In (ln, n, Bound (BImp l i)) (pysem_doc bi ns p) -> R l i = false) ->
  pysem_doc bi ns (remove_top R p) = pysem_doc bi ns p.
Proof.
  intros bi ns p H. unfold pysem_doc in *.
  assert (Hok : oks (pysem bi ns p ++ flat_map (sem_docstring (final_frame bi ns p)) (docstrings_of p))).
  { apply Forall_forall. intros [[ln n] r] Hin. cbn. destruct r as [[l i|]| |]; cbn; auto. eapply H. exact Hin. }
  apply oks_app in Hok as [Hok1 Hok2].
  assert (HE : ES [module_frame bi ns (remove_top R p)] [module_frame bi ns p]).
  { constructor; [|constructor]. unfold module_frame. repeat split; cbn; try apply SubR_refl.
    apply SubR_app. apply SubR_rev. apply bsrcs_remove_SubR. apply SubR_refl. }
  unfold pysem in *. destruct (top_block_ES p _ _ HE Hok1) as (e1' & E & HE1).
  rewrite E. cbn [snd]. f_equal. rewrite docstrings_remove.
  unfold final_frame. rewrite E. cbn [fst].
  pose proof (ES_head _ _ HE1) as HF.
  set (M' := head e1') in *. set (M := head (fst (sem_block p [module_frame bi ns p]))) in *.
  clear - HF Hok2. induction (docstrings_of p) as [|d ds IH]; cbn [flat_map] in *. reflexivity.
  apply oks_app in Hok2 as [H1 H2]. rewrite (IH H2). f_equal.
  unfold sem_docstring in *.
  assert (HB : PB (fst d)) by (apply block_ES; apply Forall_forall; intros x _; apply stmt_ES).
  destruct (HB [M'] [M]) as (j & Ej & _). constructor; [exact HF|constructor]. exact H1.
  rewrite Ej. reflexivity.
Qed.
End Remove.

Theorem remove_preserves_trace : forall bi ns p R,
  (forall ln n l i, In (ln, n, Bound (BImp l i)) (pysem bi ns p) -> R l i = false) ->
  pysem bi ns (remove_top R p) = pysem bi ns p /\
  forall x b, lookup_b x (final_globals bi ns p) = Some b -> removed_src R b = false ->
              lookup_b x (final_globals bi ns (remove_top R p)) = Some b.
Proof. intros bi ns p R. apply remove_preserves_trace_R. Qed.

Theorem remove_preserves_trace_doc : forall bi ns p R,
  (forall ln n l i, In (ln, n, Bound (BImp l i)) (pysem_doc bi ns p) -> R l i = false) ->
  pysem_doc bi ns (remove_top R p) = pysem_doc bi ns p.
Proof. intros bi ns p R. apply remove_preserves_trace_doc_R. Qed.

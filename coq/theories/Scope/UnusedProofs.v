(* M7 - the unused-import side on the stage-1 fragment (for C02): an import reported unused is the
   binding of no read.  Simulation with unused-import tracking on (track = true). *)
From Coq Require Import NArith List Bool Arith Lia.
From Verif Require Import Scope.PySyntax Scope.Finder Scope.PySem Scope.Fragment Scope.AuxProofs Scope.FinderProofs.
Import ListNotations.

Definition pairs (s : st) : list (nat * import) := map (fun ck => (c_line ck, c_imp ck)) (checkers s).
Definition referenced (s : st) (c : nat) : Prop := exists j k, dict_get (scope_dict s j) k = Some (Chk c).

Record URel (stk : stack) (s : st) (M : frame) (tr : list rd) (ev : list (nat * import)) : Prop := mkURel {
  u_keys : forall i k, dict_get (scope_dict s i) k <> None -> exists n, k = [n];
  u_chk : forall i k c, dict_get (scope_dict s i) k = Some (Chk c) -> i = top stk /\ c < length (checkers s);
  u_uniq : forall k k' c, dict_get (scope_dict s (top stk)) k = Some (Chk c) ->
                          dict_get (scope_dict s (top stk)) k' = Some (Chk c) -> k = k';
  u_nopfx : forall i k cs, dict_get (scope_dict s i) k <> Some (Pfx cs);
  u_fd : in_fd s = false;
  u_top : exists pre, stk = pre ++ [top stk];
  u_def : deferred s = [];
  u_bind : forall n, match dict_get (scope_dict s (top stk)) [n] with
                     | Some (Chk c) => lookup_b n (fdyn M) = Some (BImp (c_line (checker_at s c)) (c_imp (checker_at s c)))
                     | _ => forall l i, lookup_b n (fdyn M) <> Some (BImp l i)
                     end;
  u_reads : forall ln n l i, In (ln, n, Bound (BImp l i)) tr ->
            exists c, c < length (checkers s) /\ c_line (checker_at s c) = l /\ c_imp (checker_at s c) = i /\
                      c_used (checker_at s c) = true;
  u_unused : forall l i, In (l, i) (unused s) ->
             exists c, c < length (checkers s) /\ c_line (checker_at s c) = l /\ c_imp (checker_at s c) = i /\
                       c_used (checker_at s c) = false /\ ~ referenced s c;
  u_ev : pairs s = ev }.

(* ---------- marking ---------- *)
Lemma mark_length : forall l c, length (mark l c) = length l.
Proof. induction l as [|x l IH]; intros [|c]; cbn; auto. Qed.
Lemma mark_nth_other : forall l c c' d, c' <> c -> nth c' (mark l c) d = nth c' l d.
Proof.
  induction l as [|x l IH]; intros [|c] [|c'] d H; cbn; auto; try congruence.
Qed.
Lemma mark_nth_same : forall l c d, c < length l ->
  nth c (mark l c) d = mkChecker (c_imp (nth c l d)) (c_line (nth c l d)) true.
Proof.
  induction l as [|x l IH]; intros [|c] d H; cbn in *; try lia; auto. apply IH. lia.
Qed.
Lemma mark_pairs : forall l c, map (fun ck => (c_line ck, c_imp ck)) (mark l c) = map (fun ck => (c_line ck, c_imp ck)) l.
Proof. induction l as [|x l IH]; intros [|c]; cbn; auto. f_equal. apply IH. Qed.

Lemma checker_at_mark : forall s c c',
  c_line (checker_at (mark_used s c) c') = c_line (checker_at s c') /\
  c_imp (checker_at (mark_used s c) c') = c_imp (checker_at s c') /\
  (c_used (checker_at s c') = true -> c_used (checker_at (mark_used s c) c') = true) /\
  (c' <> c -> checker_at (mark_used s c) c' = checker_at s c').
Proof.
  intros s c c'. unfold checker_at, mark_used. cbn [checkers with_checkers].
  destruct (Nat.eq_dec c' c) as [->|Hne].
  - destruct (Nat.lt_ge_cases c (length (checkers s))) as [Hlt|Hge].
    + rewrite mark_nth_same by exact Hlt. cbn. repeat split; auto. congruence.
    + rewrite !nth_overflow; try (rewrite ?mark_length; lia). repeat split; auto.
  - rewrite mark_nth_other by exact Hne. repeat split; auto.
Qed.

(* ---------- symbol_needs_import under the invariant ---------- *)
Lemma first_present_in : forall d ps e, first_present d ps = Some e -> exists p, dict_get d p = Some e.
Proof.
  induction ps as [|p ps IH]; cbn; intros e H. discriminate.
  destruct (dict_get d p) eqn:E. injection H as <-. eauto. apply IH. exact H.
Qed.

Lemma first_present_single : forall d n a, (forall k, dict_get d k <> None -> exists m, k = [m]) ->
  first_present d (rev (prefixes (n :: a))) = dict_get d [n].
Proof.
  intros d n a Hk.
  assert (G : forall ps, (forall p, In p ps -> exists q, p = n :: q) -> In [n] ps ->
                         first_present d ps = dict_get d [n]).
  { induction ps as [|p ps IH]; intros Hall Hin. contradiction.
    cbn. destruct (dict_get d p) eqn:E.
    - destruct (Hall p (or_introl eq_refl)) as (q & ->).
      destruct (Hk (n :: q)) as (m & Hm). congruence. injection Hm as <- ->. symmetry. exact E.
    - destruct Hin as [->|Hin].
      + rewrite E. apply first_present_none. intros p' Hp'.
        destruct (dict_get d p') eqn:E2; auto.
        destruct (Hall p' (or_intror Hp')) as (q & ->).
        destruct (Hk (n :: q)) as (m & Hm). congruence. injection Hm as <- ->. congruence.
      + apply IH; auto. intros p' Hp'. apply Hall. right. exact Hp'. }
  apply G.
  - intros p Hp. apply in_rev in Hp. apply prefixes_head in Hp. exact Hp.
  - apply -> in_rev. apply prefixes_first.
Qed.

Lemma needs_stack_nochk : forall s r ps,
  (forall i e, In i r -> first_present (scope_dict s i) ps = Some e -> e = Plain) ->
  exists b, needs_stack s r ps = (b, s).
Proof.
  intros s r ps. induction r as [|i r IH]; intro H; cbn. eauto.
  destruct (first_present (scope_dict s i) ps) as [e|] eqn:E.
  - rewrite (H i e (or_introl eq_refl) E). eauto.
  - apply IH. intros j e Hj. apply H. right. exact Hj.
Qed.

Lemma needs_u : forall stk s M tr ev n a, URel stk s M tr ev ->
  exists b, needs s stk (n :: a) =
            (b, match dict_get (scope_dict s (top stk)) [n] with Some (Chk c) => mark_used s c | _ => s end).
Proof.
  intros stk s M tr ev n a U. destruct (u_top _ _ _ _ _ U) as (pre & Hstk).
  unfold needs.
  assert (Hrev : rev stk = top stk :: rev pre).
  { remember (top stk) as t. rewrite Hstk. rewrite rev_app_distr. reflexivity. }
  rewrite Hrev. cbn [needs_stack].
  rewrite first_present_single by (apply (u_keys _ _ _ _ _ U)).
  destruct (dict_get (scope_dict s (top stk)) [n]) as [[|c|cs]|] eqn:E; eauto.
  { exfalso. eapply (u_nopfx _ _ _ _ _ U). exact E. }
  apply needs_stack_nochk. intros i e _ Hfp.
  rewrite first_present_single in Hfp by (apply (u_keys _ _ _ _ _ U)).
  destruct e as [|c|cs]; auto.
  - destruct (u_chk _ _ _ _ _ U _ _ _ Hfp) as [-> _]. congruence.
  - exfalso. eapply (u_nopfx _ _ _ _ _ U). exact Hfp.
Qed.

(* URel does not look at the missing list or the line *)
Lemma URel_with_missing : forall stk s M tr ev m, URel stk s M tr ev -> URel stk (with_missing s m) M tr ev.
Proof. intros stk s M tr ev m U. destruct U. constructor; assumption. Qed.
Lemma URel_with_ln : forall stk s M tr ev l, URel stk s M tr ev -> URel stk (with_ln s l) M tr ev.
Proof. intros stk s M tr ev m U. destruct U. constructor; assumption. Qed.

Lemma URel_mark : forall stk s M tr ev c, URel stk s M tr ev -> referenced s c -> URel stk (mark_used s c) M tr ev.
Proof.
  intros stk s M tr ev c U Hrefd. destruct U.
  assert (Hsd : forall i, scope_dict (mark_used s c) i = scope_dict s i) by reflexivity.
  assert (Hlen : length (checkers (mark_used s c)) = length (checkers s)) by (cbn; apply mark_length).
  constructor; auto.
  - intros i k c0 H. rewrite Hlen. eapply u_chk0. exact H.
  - intro n. specialize (u_bind0 n). rewrite Hsd. destruct (dict_get (scope_dict s (top stk)) [n]) as [[|c0|cs0]|]; auto.
    destruct (checker_at_mark s c c0) as (-> & -> & _). exact u_bind0.
  - intros ln n l i H. destruct (u_reads0 _ _ _ _ H) as (c0 & Hl & H1 & H2 & H3).
    exists c0. rewrite Hlen. destruct (checker_at_mark s c c0) as (-> & -> & Hu & _). auto.
  - intros l i H. destruct (u_unused0 _ _ H) as (c0 & Hl & H1 & H2 & H3 & H4).
    exists c0. rewrite Hlen. destruct (checker_at_mark s c c0) as (E1 & E2 & _ & Hne).
    assert (c0 <> c) by (intro; subst; contradiction).
    rewrite (Hne H0). repeat split; auto.
  - unfold pairs in *. cbn. rewrite mark_pairs. exact u_ev0.
Qed.

(* one load, whatever the line *)
Lemma load_u : forall stk s M tr ev n a ln, URel stk s M tr ev ->
  URel stk (load s stk (n :: a)) M (tr ++ [(ln, n, resolve n [M])]) ev.
Proof.
  intros stk s M tr ev n a ln U. unfold load. rewrite (u_fd _ _ _ _ _ U). unfold check_load.
  destruct (needs_u stk s M tr ev n a U) as (b & ->).
  set (s1 := match dict_get (scope_dict s (top stk)) [n] with Some (Chk c) => mark_used s c | _ => s end).
  assert (U1 : URel stk s1 M (tr ++ [(ln, n, resolve n [M])]) ev).
  { pose proof (u_bind _ _ _ _ _ U n) as Hb. subst s1. rewrite resolve_module.
    destruct (dict_get (scope_dict s (top stk)) [n]) as [[|c|cs]|] eqn:E.
    3:{ exfalso. eapply (u_nopfx _ _ _ _ _ U). exact E. }
    - destruct U. constructor; auto. intros ln' n' l i H. apply in_app_iff in H as [H|[H|[]]]. eauto.
      injection H as _ _ H. destruct (lookup_b n (fdyn M)); try discriminate. injection H as ->. exfalso. eapply Hb. reflexivity.
    - assert (Hrefd : referenced s c) by (exists (top stk), [n]; exact E).
      pose proof (URel_mark _ _ _ _ _ c U Hrefd) as U'. destruct U'. constructor; auto.
      intros ln' n' l i H. apply in_app_iff in H as [H|[H|[]]]. eauto.
      injection H as _ _ H. rewrite Hb in H. injection H as <- <-.
      destruct (u_chk _ _ _ _ _ U _ _ _ E) as [_ Hlt].
      exists c. cbn [checkers mark_used with_checkers]. rewrite mark_length. split. exact Hlt.
      destruct (checker_at_mark s c c) as (-> & -> & _ & _). repeat split; auto.
      unfold checker_at, mark_used. cbn [checkers with_checkers]. rewrite mark_nth_same by exact Hlt. reflexivity.
    - destruct U. constructor; auto. intros ln' n' l i H. apply in_app_iff in H as [H|[H|[]]]. eauto.
      injection H as _ _ H. destruct (lookup_b n (fdyn M)); try discriminate. injection H as ->. exfalso. eapply Hb. reflexivity. }
  destruct (b && negb (has_star s1 stk)); auto.
  destruct (add_missing_spec s1 stk (lineno s) (n :: a)) as [-> _]. apply URel_with_missing. exact U1.
Qed.

Lemma loads_u : forall stk M ev ln ds s tr, URel stk s M tr ev -> Forall (fun d => d <> []) ds ->
  URel stk (fold_left (fun s d => load s stk d) ds s) M
       (tr ++ map (fun d => (ln, hd 0%N d, resolve (hd 0%N d) [M])) ds) ev.
Proof.
  intros stk M ev ln ds. induction ds as [|d ds IH]; intros s tr U HF; cbn.
  - rewrite app_nil_r. exact U.
  - inversion HF as [|? ? Hd HF']; subst. destruct d as [|n a]. congruence.
    specialize (IH _ _ (load_u stk s M tr ev n a ln U) HF'). rewrite <- app_assoc in IH. exact IH.
Qed.

Lemma expr_u : forall stk s M tr ev ln e, URel stk s M tr ev -> s1_expr e = true ->
  URel stk (vexpr true e stk s) M (tr ++ sem_expr ln [M] e) ev.
Proof.
  intros. rewrite vexpr_s1 by assumption. rewrite sem_expr_s1 by assumption.
  apply loads_u. assumption. apply loads_nonempty.
Qed.

(* ---------- stores of a one-component key ---------- *)
Definition drop_old (s : st) (t : nat) (n : name) : st :=
  match dict_get (scope_dict s t) [n] with
  | Some (Chk c) => let ck := checker_at s c in
                    if c_used ck then s else with_unused s (unused s ++ [(c_line ck, c_imp ck)])
  | _ => s
  end.
Lemma store_true_name : forall s stk n v,
  store true s stk [n] v = set_in_scope (drop_old s (top stk) n) (top stk) [n] v.
Proof. reflexivity. Qed.

Lemma drop_old_fields : forall s t n,
  scopes (drop_old s t n) = scopes s /\ checkers (drop_old s t n) = checkers s /\ in_fd (drop_old s t n) = in_fd s /\
  deferred (drop_old s t n) = deferred s /\ lineno (drop_old s t n) = lineno s.
Proof.
  intros. unfold drop_old. destruct (dict_get (scope_dict s t) [n]) as [[|c|cs]|]; auto.
  cbv zeta. destruct (c_used (checker_at s c)); auto.
Qed.

Lemma set_in_scope_more : forall s i k v,
  checkers (set_in_scope s i k v) = checkers s /\ unused (set_in_scope s i k v) = unused s.
Proof. intros. unfold set_in_scope. destruct (get_scope (scopes s) i). cbn. auto. Qed.

(* the state after `top[[n]] = v`, v plain or a checker nobody references yet *)
Lemma store_u : forall stk s M tr ev n v b, URel stk s M tr ev ->
  (v = Plain /\ b = BOther) \/
  (exists c, v = Chk c /\ c < length (checkers s) /\ ~ referenced s c /\
             b = BImp (c_line (checker_at s c)) (c_imp (checker_at s c)) /\
             (forall l i, In (l, i) (unused s) ->
                exists c0, c0 <> c /\ c0 < length (checkers s) /\ c_line (checker_at s c0) = l /\ c_imp (checker_at s c0) = i /\
                           c_used (checker_at s c0) = false /\ ~ referenced s c0)) ->
  URel stk (store true s stk [n] v) (bind n b M) tr ev.
Proof.
  intros stk s M tr ev n v b U Hv. rewrite store_true_name.
  set (t := top stk). set (s1 := drop_old s t n).
  destruct (drop_old_fields s t n) as (Esc & Eck & Efd & Edf & Eln). fold s1 in Esc, Eck, Efd, Edf, Eln.
  destruct (set_in_scope_fields s1 t [n] v) as (_ & _ & Efd2 & Edf2 & _).
  destruct (set_in_scope_more s1 t [n] v) as (Eck2 & Eun2).
  assert (Hsd1 : forall j, scope_dict s1 j = scope_dict s j) by (intro j; unfold scope_dict; rewrite Esc; reflexivity).
  assert (Hca : forall c, checker_at (set_in_scope s1 t [n] v) c = checker_at s c)
    by (intro c; unfold checker_at; rewrite Eck2, Eck; reflexivity).
  assert (Hsd : forall j k, dict_get (scope_dict (set_in_scope s1 t [n] v) j) k =
                            if Nat.eqb t j then (if dotted_eqb k [n] then Some v else dict_get (scope_dict s t) k)
                            else dict_get (scope_dict s j) k).
  { intros j k. rewrite scope_dict_set_in_scope. destruct (Nat.eqb t j). rewrite dict_get_set, Hsd1. reflexivity.
    rewrite Hsd1. reflexivity. }
  assert (Hrefd : forall c, referenced (set_in_scope s1 t [n] v) c -> referenced s c \/ v = Chk c).
  { intros c (j & k & H). rewrite Hsd in H. destruct (Nat.eqb t j) eqn:Ej.
    - apply Nat.eqb_eq in Ej. subst j. destruct (dotted_eqb k [n]). right; congruence. left. exists t, k. exact H.
    - left. exists j, k. exact H. }
  destruct U. constructor.
  - (* keys *) intros i k H. rewrite Hsd in H. destruct (Nat.eqb t i); [|eapply u_keys0; exact H].
    destruct (dotted_eqb k [n]) eqn:E. apply dotted_eqb_eq in E. eauto. eapply u_keys0. exact H.
  - (* chk *) intros i k c H. rewrite Eck2, Eck. rewrite Hsd in H. destruct (Nat.eqb t i) eqn:Ei.
    + apply Nat.eqb_eq in Ei. subst i. split; auto. destruct (dotted_eqb k [n]).
      * destruct Hv as [[-> _]|(c' & -> & Hlt & _)]. discriminate. injection H as <-. exact Hlt.
      * eapply u_chk0. exact H.
    + eapply u_chk0. exact H.
  - (* uniq *) intros k k' c H H'. rewrite Hsd in H, H'. fold t in H, H'. rewrite Nat.eqb_refl in H, H'.
    destruct (dotted_eqb k [n]) eqn:E; destruct (dotted_eqb k' [n]) eqn:E'.
    + apply dotted_eqb_eq in E, E'. congruence.
    + exfalso. destruct Hv as [[-> _]|(c' & -> & _ & Hnr & _)]. discriminate. injection H as <-. apply Hnr. exists t, k'. exact H'.
    + exfalso. destruct Hv as [[-> _]|(c' & -> & _ & Hnr & _)]. discriminate. injection H' as <-. apply Hnr. exists t, k. exact H.
    + eapply u_uniq0; eassumption.
  - (* no prefix-use entry *) intros i k cs H. rewrite Hsd in H. destruct (Nat.eqb t i).
    + destruct (dotted_eqb k [n]). destruct Hv as [[-> _]|(c' & -> & _)]; discriminate. eapply u_nopfx0; exact H.
    + eapply u_nopfx0; exact H.
  - congruence.
  - exact u_top0.
  - congruence.
  - (* bind *) intro n'. rewrite Hsd. fold t. rewrite Nat.eqb_refl. cbn [dotted_eqb]. rewrite andb_true_r. rewrite lookup_b_bind.
    destruct (N.eqb n' n) eqn:E.
    + destruct Hv as [[-> ->]|(c' & -> & _ & _ & -> & _)]. intros l i; discriminate. rewrite Hca. reflexivity.
    + specialize (u_bind0 n'). fold t in u_bind0.
      destruct (dict_get (scope_dict s t) [n']) as [[|c|cs]|]; auto. rewrite Hca. exact u_bind0.
  - (* reads *) intros ln n' l i H. destruct (u_reads0 _ _ _ _ H) as (c & H1 & H2 & H3 & H4).
    exists c. rewrite Eck2, Eck, Hca. auto.
  - (* unused *) intros l i H. rewrite Eun2 in H. rewrite Eck2, Eck.
    assert (Hold : forall l i, In (l, i) (unused s) ->
              exists c0, c0 < length (checkers s) /\ c_line (checker_at s c0) = l /\ c_imp (checker_at s c0) = i /\
                         c_used (checker_at s c0) = false /\ ~ referenced (set_in_scope s1 t [n] v) c0).
    { intros l0 i0 H0. destruct Hv as [[-> _]|(c' & -> & _ & _ & _ & Hun)].
      - destruct (u_unused0 _ _ H0) as (c0 & A & B & C & D & E). exists c0. repeat split; auto.
        intro R. apply Hrefd in R as [R|R]. contradiction. discriminate.
      - destruct (Hun _ _ H0) as (c0 & Hne & A & B & C & D & E). exists c0. repeat split; auto.
        intro R. apply Hrefd in R as [R|R]. contradiction. congruence. }
    assert (G : In (l, i) (unused s) \/
                exists c, dict_get (scope_dict s t) [n] = Some (Chk c) /\ c_used (checker_at s c) = false /\
                          l = c_line (checker_at s c) /\ i = c_imp (checker_at s c)).
    { subst s1. unfold drop_old in H. destruct (dict_get (scope_dict s t) [n]) as [[|c|cs]|] eqn:E; auto.
      cbv zeta in H. destruct (c_used (checker_at s c)) eqn:Eu; auto.
      cbn in H. apply in_app_iff in H as [H|[H|[]]]; auto. injection H as <- <-. right. exists c. auto. }
    destruct G as [G|(c & E & Eu & -> & ->)].
    + destruct (Hold _ _ G) as (c0 & A & B & C & D & F). exists c0. rewrite Hca. auto.
    + destruct (u_chk0 _ _ _ E) as [_ Hlt]. exists c. rewrite Hca. repeat split; auto.
      intro R. destruct R as (j & k & R). rewrite Hsd in R. destruct (Nat.eqb t j) eqn:Ej.
      * destruct (dotted_eqb k [n]) eqn:Ek.
        -- destruct Hv as [[-> _]|(c' & -> & _ & Hnr & _)]. discriminate. injection R as ->. apply Hnr. exists t, [n]. exact E.
        -- assert (k = [n]) by (eapply u_uniq0; eassumption). subst k. rewrite dotted_eqb_refl in Ek. discriminate.
      * destruct (u_chk0 _ _ _ R) as [Hj _]. fold t in Hj. subst j. rewrite Nat.eqb_refl in Ej. discriminate.
  - unfold pairs. rewrite Eck2, Eck. exact u_ev0.
Qed.

Lemma store_name_u : forall stk s M tr ev n, URel stk s M tr ev ->
  URel stk (store true s stk [n] Plain) (bind n BOther M) tr ev.
Proof. intros. apply store_u. assumption. left. auto. Qed.

Lemma store_true_lineno : forall s stk n v, lineno (store true s stk [n] v) = lineno s.
Proof.
  intros. rewrite store_true_name.
  destruct (set_in_scope_fields (drop_old s (top stk) n) (top stk) [n] v) as (_ & -> & _).
  apply (drop_old_fields s (top stk) n).
Qed.

(* an import item: a fresh checker, then the store *)
Lemma import_store_u : forall stk s M tr ev a imp, URel stk s M tr ev ->
  URel stk (store true (with_checkers s (checkers s ++ [mkChecker imp (lineno s) false])) stk [a] (Chk (length (checkers s))))
       (bind a (BImp (lineno s) imp) M) tr (ev ++ [(lineno s, imp)]).
Proof.
  intros stk s M tr ev a imp U.
  set (ck := mkChecker imp (lineno s) false). set (s' := with_checkers s (checkers s ++ [ck])).
  assert (Hsd : forall j, scope_dict s' j = scope_dict s j) by reflexivity.
  assert (Hlen : length (checkers s') = S (length (checkers s))) by (cbn; rewrite app_length; cbn; lia).
  assert (Hold : forall c, c < length (checkers s) -> checker_at s' c = checker_at s c).
  { intros c Hc. unfold checker_at. cbn. apply app_nth1. exact Hc. }
  assert (Hnew : checker_at s' (length (checkers s)) = ck).
  { unfold checker_at. cbn. rewrite app_nth2 by lia. rewrite Nat.sub_diag. reflexivity. }
  assert (U' : URel stk s' M tr (ev ++ [(lineno s, imp)])).
  { destruct U. constructor; auto.
    - intros i k c H. destruct (u_chk0 _ _ _ H). split; auto. lia.
    - intro n. specialize (u_bind0 n). rewrite Hsd. destruct (dict_get (scope_dict s (top stk)) [n]) as [[|c|cs]|] eqn:E; auto.
      destruct (u_chk0 _ _ _ E) as [_ Hlt]. rewrite (Hold c Hlt). exact u_bind0.
    - intros ln n l i H. destruct (u_reads0 _ _ _ _ H) as (c & A & B & C & D). exists c. rewrite (Hold c A). repeat split; auto. lia.
    - intros l i H. destruct (u_unused0 _ _ H) as (c & A & B & C & D & E). exists c. rewrite (Hold c A). repeat split; auto. lia.
    - unfold pairs in *. cbn. rewrite map_app. cbn. rewrite u_ev0. reflexivity. }
  apply store_u. exact U'. right. exists (length (checkers s)). split. reflexivity. split. lia.
  split.
  { intros (j & k & R). rewrite Hsd in R. destruct (u_chk _ _ _ _ _ U _ _ _ R) as [_ Hlt]. lia. }
  split. rewrite Hnew. reflexivity.
  intros l i H. destruct (u_unused _ _ _ _ _ U _ _ H) as (c & A & B & C & D & E).
  exists c. rewrite (Hold c A). repeat split; auto. lia. lia.
Qed.

Lemma import_item_u : forall stk s M tr ev it, URel stk s M tr ev -> u1_import_item it = true ->
  let s' := store_import true s stk (fst it) (snd it) None in
  URel stk s' (bind_all (import_bsrcs (lineno s) it) M) tr (ev ++ imp_events (import_bsrcs (lineno s) it)) /\
  lineno s' = lineno s.
Proof.
  intros stk s M tr ev [aname asname] U Hs. unfold u1_import_item, s1_import_item in Hs. cbn [fst snd] in *.
  apply andb_true_iff in Hs as [Hs H3]. apply andb_true_iff in Hs as [H1 H2].
  destruct aname as [|r rest]; try discriminate. apply not_star_neq in H1.
  assert (Estar : dotted_eqb (r :: rest) [n_star] = false).
  { apply dotted_eqb_neq. intro E. injection E as E _. contradiction. }
  unfold store_import, import_bsrcs. cbn [fst snd negb orb]. rewrite Estar.
  destruct asname as [a|].
  - cbn [orb bind_all fold_left fst snd imp_events flat_map app map combine]. split. apply import_store_u. exact U.
    rewrite store_true_lineno. reflexivity.
  - destruct rest as [|x rest']; try discriminate.
    cbn [orb bind_all fold_left fst snd imp_events flat_map app proper_prefixes prefixes prefixes_from removelast map combine].
    split. apply import_store_u. exact U. rewrite store_true_lineno. reflexivity.
Qed.

Lemma from_item_u : forall stk s M tr ev m it, URel stk s M tr ev -> not_future m = true -> s1_from_item it = true ->
  let s' := store_import true s stk [fst it] (snd it) (Some m) in
  URel stk s' (bind_all (importfrom_bsrcs (lineno s) m it) M) tr (ev ++ imp_events (importfrom_bsrcs (lineno s) m it)) /\
  lineno s' = lineno s.
Proof.
  intros stk s M tr ev m [nm asname] U Hf Hs. unfold s1_from_item in Hs. cbn [fst snd] in *.
  apply andb_true_iff in Hs as [H1 H2]. apply not_star_neq in H1.
  assert (E : N.eqb nm n_star = false) by (apply N.eqb_neq; exact H1).
  unfold not_future in Hf. apply negb_true_iff in Hf.
  unfold store_import, importfrom_bsrcs. cbn [fst snd negb orb dotted_eqb]. rewrite E, Hf. cbn [andb orb].
  destruct asname as [a|].
  - cbn [bind_all fold_left fst snd imp_events flat_map app map combine]. split. apply import_store_u. exact U.
    rewrite store_true_lineno. reflexivity.
  - cbn [bind_all fold_left fst snd imp_events flat_map app proper_prefixes prefixes prefixes_from removelast map combine].
    split. apply import_store_u. exact U. rewrite store_true_lineno. reflexivity.
Qed.

Lemma imp_events_app : forall a b, imp_events (a ++ b) = imp_events a ++ imp_events b.
Proof. intros. unfold imp_events. apply flat_map_app. Qed.
Lemma imp_events_others : forall l, imp_events (others l) = [].
Proof. induction l; cbn; auto. Qed.

Lemma import_items_u : forall stk ln items s M tr ev, URel stk s M tr ev -> lineno s = ln ->
  forallb u1_import_item items = true ->
  let s' := fold_left (fun s it => store_import true s stk (fst it) (snd it) None) items s in
  URel stk s' (bind_all (flat_map (import_bsrcs ln) items) M) tr (ev ++ imp_events (flat_map (import_bsrcs ln) items)).
Proof.
  intros stk ln items. induction items as [|it items IH]; intros s M tr ev U Hl Hs; cbn [fold_left flat_map].
  - cbn. rewrite app_nil_r. exact U.
  - cbn in Hs. apply andb_true_iff in Hs as [H1 H2].
    destruct (import_item_u stk s M tr ev it U H1) as (U1 & El). cbv zeta in U1, El. rewrite Hl in U1.
    rewrite bind_all_app, imp_events_app, app_assoc. apply IH; auto. congruence.
Qed.
Lemma from_items_u : forall stk ln m items s M tr ev, URel stk s M tr ev -> lineno s = ln -> not_future m = true ->
  forallb s1_from_item items = true ->
  let s' := fold_left (fun s it => store_import true s stk [fst it] (snd it) (Some m)) items s in
  URel stk s' (bind_all (flat_map (importfrom_bsrcs ln m) items) M) tr (ev ++ imp_events (flat_map (importfrom_bsrcs ln m) items)).
Proof.
  intros stk ln m items. induction items as [|it items IH]; intros s M tr ev U Hl Hf Hs; cbn [fold_left flat_map].
  - cbn. rewrite app_nil_r. exact U.
  - cbn in Hs. apply andb_true_iff in Hs as [H1 H2].
    destruct (from_item_u stk s M tr ev m it U Hf H1) as (U1 & El). cbv zeta in U1, El. rewrite Hl in U1.
    rewrite bind_all_app, imp_events_app, app_assoc. apply IH; auto. congruence.
Qed.

(* ---------- targets ---------- *)
Lemma vtarget_u1 : forall t, s1_target t = true -> forall stk s,
  vtarget true t stk s = fold_left (fun s n => store true s stk [n] Plain) (target_names t) s.
Proof.
  intro t. induction t using target_ind'; cbn [vtarget target_names s1_target]; intros Hs stk s; try discriminate; auto.
  revert s. induction H as [|x ts Hx Hts IH]; intro s. reflexivity.
  apply andb_true_iff in Hs as [H1 H2]. rewrite fold_left_app. rewrite <- (Hx H1). apply IH. exact H2.
Qed.

Lemma names_u : forall stk names s M tr ev, URel stk s M tr ev ->
  URel stk (fold_left (fun s n => store true s stk [n] Plain) names s) (bind_all (others names) M) tr ev.
Proof.
  intros stk names. induction names as [|n names IH]; intros s M tr ev U; cbn [fold_left]. exact U.
  apply (IH _ (bind n BOther M)). apply store_name_u. exact U.
Qed.

Lemma target_u : forall stk s M tr ev ln t, URel stk s M tr ev -> s1_target t = true ->
  exists M', exec_target_env ln [M] t = ([M'], []) /\ URel stk (vtarget true t stk s) M' tr ev.
Proof.
  intros stk s M tr ev ln t U Hs. rewrite vtarget_u1 by exact Hs.
  unfold exec_target_env. cbn [tl head hd]. rewrite exec_target_s1 by exact Hs. cbn [with_head].
  eexists. split. reflexivity. apply names_u. exact U.
Qed.

(* ---------- statements ---------- *)
Definition USimS (x : stmt) : Prop :=
  u1_stmt x = true -> forall stk s M tr ev, URel stk s M tr ev ->
  exists M' rds, sem_stmt [M] x = ([M'], rds) /\
                 URel stk (vstmt true x stk s) M' (tr ++ rds) (ev ++ imp_events (bsrcs false x)).
Definition USimB (l : list stmt) : Prop :=
  u1_block l = true -> forall stk s M tr ev, URel stk s M tr ev ->
  exists M' rds, sem_block l [M] = ([M'], rds) /\
                 URel stk (vblock true l stk s) M' (tr ++ rds) (ev ++ imp_events (bsrcs_block false l)).

Lemma u1_blk_fix : forall l,
  (fix blk (l : list stmt) : bool := match l with [] => true | y :: r => u1_stmt y && blk r end) l = u1_block l.
Proof. reflexivity. Qed.
Lemma bsrcs_blk_fix : forall all l,
  (fix block (l : list stmt) : list (name * bsrc) := match l with [] => [] | x :: r => bsrcs all x ++ block r end) l
  = bsrcs_block all l.
Proof. reflexivity. Qed.

Lemma ublock_sim : forall l, Forall USimS l -> USimB l.
Proof.
  induction l as [|x l IH]; intros HF Hs stk s M tr ev U.
  - exists M, []. split. reflexivity. cbn. rewrite !app_nil_r. exact U.
  - inversion HF as [|? ? Hx HF']; subst. cbn in Hs. apply andb_true_iff in Hs as [H1 H2].
    destruct (Hx H1 stk s M tr ev U) as (M1 & r1 & E1 & U1).
    destruct (IH HF' H2 stk _ M1 _ _ U1) as (M2 & r2 & E2 & U2).
    exists M2, (r1 ++ r2). cbn [sem_block]. rewrite E1, E2. split. reflexivity.
    unfold vblock in *. cbn [fold_left]. unfold bsrcs_block in *. cbn [flat_map].
    rewrite imp_events_app, !app_assoc. exact U2.
Qed.

Lemma utargets_sim : forall stk ln ts s M tr ev acc, URel stk s M tr ev -> forallb s1_target ts = true ->
  exists M', fold_left (fun acc t => let '(e, r) := acc in let '(e', r') := exec_target_env ln e t in (e', r ++ r')) ts
                       (@pair env (list rd) [M] acc) = ([M'], acc) /\
             URel stk (fold_left (fun s t => vtarget true t stk s) ts s) M' tr ev.
Proof.
  intros stk ln ts. induction ts as [|t ts IH]; intros s M tr ev acc U Hs; cbn [fold_left].
  - exists M. auto.
  - cbn in Hs. apply andb_true_iff in Hs as [H1 H2].
    destruct (target_u stk s M tr ev ln t U H1) as (M1 & E1 & U1). rewrite E1, app_nil_r. apply IH; auto.
Qed.

Lemma uwith_items_sim : forall stk ln items s M tr ev acc, URel stk s M tr ev ->
  forallb s1_with_item items = true ->
  exists M' rds, fold_left (sem_with_step ln) items (@pair env (list rd) [M] acc) = ([M'], acc ++ rds) /\
                 URel stk (fold_left (with_item_step true stk) items s) M' (tr ++ rds) ev.
Proof.
  intros stk ln items. induction items as [|[e ot] items IH]; intros s M tr ev acc U Hs; cbn [fold_left].
  - exists M, []. rewrite !app_nil_r. auto.
  - cbn in Hs. apply andb_true_iff in Hs as [H1 H2]. unfold s1_with_item in H1. cbn [fst snd] in H1.
    apply andb_true_iff in H1 as [He Ht].
    pose proof (expr_u stk s M tr ev ln e U He) as U1.
    destruct ot as [t|].
    + change (with_item_step true stk s (e, Some t)) with (vtarget true t stk (vexpr true e stk s)).
      destruct (target_u stk _ M _ ev ln t U1 Ht) as (M1 & E1 & U2).
      destruct (IH _ M1 _ ev (acc ++ sem_expr ln [M] e) U2 H2) as (M2 & r2 & E2 & U3).
      exists M2, (sem_expr ln [M] e ++ r2). split.
      { unfold sem_with_step at 2. cbn [fst snd]. rewrite E1. rewrite !app_nil_r. rewrite <- app_assoc in E2. exact E2. }
      rewrite app_assoc. exact U3.
    + change (with_item_step true stk s (e, None)) with (vexpr true e stk s).
      destruct (IH _ M _ ev (acc ++ sem_expr ln [M] e) U1 H2) as (M2 & r2 & E2 & U3).
      exists M2, (sem_expr ln [M] e ++ r2). split.
      { unfold sem_with_step at 2. cbn [fst snd]. rewrite <- app_assoc in E2. exact E2. }
      rewrite app_assoc. exact U3.
Qed.

Lemma ustmt_sim : forall x, USimS x.
Proof.
  induction x using stmt_ind'; unfold USimS; intros Hs stk s M tr ev U; try discriminate.
  - (* SExpr *) cbn in Hs. exists M, (sem_expr ln [M] e). split. reflexivity. cbn [bsrcs imp_events flat_map]. rewrite app_nil_r.
    apply expr_u; auto. apply URel_with_ln. exact U.
  - (* SAssign *) cbn in Hs. apply andb_true_iff in Hs as [H1 H2].
    pose proof (expr_u stk _ M tr ev ln v (URel_with_ln _ _ _ _ _ ln U) H1) as U1.
    destruct (utargets_sim stk ln ts _ M _ ev [] U1 H2) as (M' & E & U2).
    exists M', (sem_expr ln [M] v ++ []). cbn [sem_stmt vstmt]. rewrite E. split. reflexivity.
    cbn [bsrcs]. rewrite imp_events_others, !app_nil_r. exact U2.
  - (* SAugAssign *) cbn in Hs. apply andb_true_iff in Hs as [H12 H3]. apply andb_true_iff in H12 as [H1 H2].
    apply is_nil_true in H1. subst a.
    assert (He : s1_expr (EOp [ELoad n []; v]) = true) by (cbn; rewrite H3; reflexivity).
    pose proof (expr_u stk _ M tr ev ln _ (URel_with_ln _ _ _ _ _ ln U) He) as U1.
    exists (bind n BOther M), ([(ln, n, resolve n [M])] ++ sem_expr ln [M] v). cbn [sem_stmt vstmt with_head head hd].
    split. reflexivity. cbn [bsrcs imp_events flat_map snd app]. rewrite app_nil_r.
    apply store_name_u. cbn [sem_expr] in U1. rewrite app_nil_r in U1. exact U1.
  - (* SImport *) cbn in Hs.
    eexists _, []. cbn [sem_stmt vstmt with_head head hd]. split. reflexivity. rewrite app_nil_r. cbn [bsrcs].
    apply import_items_u; auto. apply URel_with_ln. exact U.
  - (* SImportFrom *) cbn in Hs. apply andb_true_iff in Hs as [H1 H2].
    eexists _, []. cbn [sem_stmt vstmt with_head head hd]. split. reflexivity. rewrite app_nil_r. cbn [bsrcs].
    apply from_items_u; auto. apply URel_with_ln. exact U.
  - (* SFor *) cbn [u1_stmt] in Hs. rewrite !u1_blk_fix in Hs.
    apply andb_true_iff in Hs as [H123 H4]. apply andb_true_iff in H123 as [H12 H3]. apply andb_true_iff in H12 as [H1 H2].
    rewrite vstmt_for, sem_stmt_for. cbv zeta.
    pose proof (expr_u stk _ M tr ev ln it (URel_with_ln _ _ _ _ _ ln U) H2) as U1.
    destruct (target_u stk _ M _ ev ln t U1 H1) as (M1 & E1 & U2). rewrite E1.
    destruct (ublock_sim b H H3 stk _ M1 _ _ U2) as (M2 & r2 & E2 & U3). rewrite E2.
    destruct (ublock_sim o H0 H4 stk _ M2 _ _ U3) as (M3 & r3 & E3 & U4). rewrite E3.
    exists M3, (sem_expr ln [M] it ++ [] ++ r2 ++ r3). split. reflexivity.
    cbn [bsrcs]. rewrite !bsrcs_blk_fix, !imp_events_app, imp_events_others. cbn [app].
    rewrite !app_assoc in *. exact U4.
  - (* SWhile *) cbn [u1_stmt] in Hs. rewrite !u1_blk_fix in Hs.
    apply andb_true_iff in Hs as [H12 H3]. apply andb_true_iff in H12 as [H1 H2]. apply is_nil_true in H3. subst o.
    rewrite vstmt_while, sem_stmt_while. cbv zeta.
    pose proof (expr_u stk _ M tr ev ln t (URel_with_ln _ _ _ _ _ ln U) H1) as U1.
    destruct (ublock_sim b H H2 stk _ M _ _ U1) as (M2 & r2 & E2 & U3). rewrite E2.
    exists M2, (sem_expr ln [M] t ++ r2). split. reflexivity.
    cbn [bsrcs]. rewrite !bsrcs_blk_fix, app_nil_r. rewrite !app_assoc in *. exact U3.
  - (* SIf *) cbn [u1_stmt] in Hs. rewrite !u1_blk_fix in Hs.
    apply andb_true_iff in Hs as [H12 H3]. apply andb_true_iff in H12 as [H1 H2]. apply is_nil_true in H3. subst o.
    rewrite vstmt_if, sem_stmt_if. cbv zeta.
    pose proof (expr_u stk _ M tr ev ln t (URel_with_ln _ _ _ _ _ ln U) H1) as U1.
    destruct (ublock_sim b H H2 stk _ M _ _ U1) as (M2 & r2 & E2 & U3). rewrite E2.
    exists M2, (sem_expr ln [M] t ++ r2). split. reflexivity.
    cbn [bsrcs]. rewrite !bsrcs_blk_fix, app_nil_r. rewrite !app_assoc in *. exact U3.
  - (* SWith *) cbn [u1_stmt] in Hs. rewrite !u1_blk_fix in Hs. apply andb_true_iff in Hs as [H1 H2].
    rewrite vstmt_with, sem_stmt_with.
    destruct (uwith_items_sim stk ln items _ M tr ev [] (URel_with_ln _ _ _ _ _ ln U) H1) as (M1 & r1 & E1 & U1).
    cbn [app] in E1. rewrite E1.
    destruct (ublock_sim b H H2 stk _ M1 _ _ U1) as (M2 & r2 & E2 & U2). rewrite E2.
    exists M2, (r1 ++ r2). split. reflexivity.
    cbn [bsrcs]. rewrite !bsrcs_blk_fix, imp_events_app, imp_events_others. cbn [app]. rewrite !app_assoc in *. exact U2.
  - (* STry *) cbn [u1_stmt] in Hs. rewrite !u1_blk_fix in Hs.
    apply andb_true_iff in Hs as [Habc Hd]. apply andb_true_iff in Habc as [Hab Hc]. apply andb_true_iff in Hab as [Ha Hb].
    apply is_nil_true in Hb. subst hs.
    rewrite vstmt_try_nohandler, sem_stmt_try.
    destruct (ublock_sim b H Ha stk _ M _ _ (URel_with_ln _ _ _ _ _ ln U)) as (M1 & r1 & E1 & U1). rewrite E1.
    destruct (ublock_sim o H1 Hc stk _ M1 _ _ U1) as (M2 & r2 & E2 & U2). rewrite E2.
    destruct (ublock_sim f H2 Hd stk _ M2 _ _ U2) as (M3 & r3 & E3 & U3). rewrite E3.
    exists M3, (r1 ++ r2 ++ r3). split. reflexivity.
    cbn [bsrcs]. rewrite !bsrcs_blk_fix, !imp_events_app. cbn [app imp_events flat_map]. rewrite !app_assoc in *. exact U3.
  - (* SPass *) exists M, []. split. reflexivity. cbn. rewrite !app_nil_r. apply URel_with_ln. exact U.
Qed.

(* ---------- the initial state and the end of the module ---------- *)
Lemma lookup_b_others_other : forall x l b, lookup_b x (others l) = Some b -> b = BOther.
Proof.
  induction l as [|y l IH]; cbn; intros b H. discriminate.
  destruct (N.eqb x y). congruence. apply IH. exact H.
Qed.

Lemma init_state_u : forall bi ns p, star_free bi ns = true ->
  let '(stk, s) := init_state bi ns in URel stk s (module_frame bi ns p) [] [].
Proof.
  intros bi ns p Hsf. pose proof (init_state_rel bi ns p Hsf) as H.
  destruct (init_state bi ns) as [stk s]. destruct H as (HR & Hm & Hck & Hun & Hks).
  destruct HR as [(Hp & Hr & Hs & Hfd & Ht & Hd) HB].
  constructor; auto.
  - intros i k c H. apply Hp in H. discriminate.
  - intros k k' c H. apply Hp in H. discriminate.
  - intros i k cs H. apply Hp in H. discriminate.
  - exists (removelast stk). unfold top. apply app_removelast_last. intro E. rewrite E in Ht. contradiction.
  - intro n. destruct (dict_get (scope_dict s (top stk)) [n]) as [[|c|cs]|] eqn:E.
    + intros l i H. apply lookup_b_others_other in H. discriminate.
    + apply Hp in E. discriminate.
    + apply Hp in E. discriminate.
    + intros l i H. apply lookup_b_others_other in H. discriminate.
  - intros ln n l i [].
  - intros l i H. rewrite Hun in H. contradiction.
  - unfold pairs. rewrite Hck. reflexivity.
Qed.

(* every entry of the final unused list is the (line, import) of a checker that is still unused *)
Lemma report_unused_spec : forall d s l i,
  In (l, i) (unused (report_unused_of s d)) ->
  In (l, i) (unused s) \/
  exists k c, In (k, Chk c) d /\ c_used (checker_at s c) = false /\ c_line (checker_at s c) = l /\ c_imp (checker_at s c) = i.
Proof.
  unfold report_unused_of. induction d as [|[k e] d IH]; intros s l i H; cbn [fold_left] in H. auto.
  cbn [snd] in H. destruct e as [|c|cs].
  3:{ apply IH in H as [H|(k' & c' & A & B)]; auto. right. exists k', c'. split; auto. right. exact A. }
  - apply IH in H as [H|(k' & c' & A & B)]; auto. right. exists k', c'. split; auto. right. exact A.
  - destruct (c_used (checker_at s c)) eqn:Eu.
    + apply IH in H as [H|(k' & c' & A & B)]; auto. right. exists k', c'. split; auto. right. exact A.
    + apply IH in H as [H|(k' & c' & A & B)].
      * cbn in H. apply in_app_iff in H as [H|[H|[]]]; auto. injection H as <- <-.
        right. exists k, c. split. left; reflexivity. auto.
      * right. exists k', c'. split. right; exact A. exact B.
Qed.

Lemma dict_get_In : forall d k e, In (k, e) d -> exists e', dict_get d k = Some e'.
Proof.
  induction d as [|[k0 e0] d IH]; intros k e H. contradiction.
  cbn. destruct (dotted_eqb k k0) eqn:E0; eauto. destruct H as [H|H].
  - injection H as -> ->. rewrite dotted_eqb_refl in E0. discriminate.
  - eapply IH. exact H.
Qed.

Lemma NoDup_map_nth : forall A B (f : A -> B) (l : list A) d i j,
  NoDup (map f l) -> i < length l -> j < length l -> f (nth i l d) = f (nth j l d) -> i = j.
Proof.
  intros A B f l d i j Hnd Hi Hj E.
  rewrite <- (map_nth f l d i), <- (map_nth f l d j) in E.
  eapply NoDup_nth; eauto; rewrite map_length; assumption.
Qed.

(* the same for the scopes reported by _finish_deferred_load_checks *)
Lemma report_unused_checkers : forall d s, checkers (report_unused_of s d) = checkers s.
Proof. intros d s. destruct (report_unused_shape0 d s) as (u & E). rewrite E. reflexivity. Qed.
Lemma reports_spec : forall ds s l i,
  In (l, i) (unused (fold_left report_unused_of ds s)) ->
  In (l, i) (unused s) \/
  exists d k c, In d ds /\ In (k, Chk c) d /\ c_used (checker_at s c) = false /\ c_line (checker_at s c) = l /\ c_imp (checker_at s c) = i.
Proof.
  induction ds as [|d ds IH]; intros s l i H; cbn [fold_left] in H. auto.
  apply IH in H as [H|(d' & k & c & Hd & Hk & Hu & Hl & Hi)].
  - apply report_unused_spec in H as [H|(k & c & Hk & Hu & Hl & Hi)]. auto.
    right. exists d, k, c. split. left; reflexivity. auto.
  - right. exists d', k, c. split. right; exact Hd. unfold checker_at in *. rewrite report_unused_checkers in Hu, Hl, Hi. auto.
Qed.

(* unused_sound on stage 1: an import reported unused is the binding of no read *)
Theorem u1_unused_sound : forall bi ns p, u1_block p = true -> star_free bi ns = true ->
  NoDup (imp_events (bsrcs_block false p)) ->
  forall l i, In (l, i) (snd (finder bi ns true p)) ->
  forall ln n, ~ In (ln, n, Bound (BImp l i)) (pysem bi ns p).
Proof.
  intros bi ns p Hp Hsf Hnd l i Hin ln n Hrd.
  pose proof (init_state_u bi ns p Hsf) as U0. unfold finder in Hin.
  destruct (init_state bi ns) as [stk s0].
  assert (HF : Forall USimS p) by (apply Forall_forall; intros x _; apply ustmt_sim).
  destruct (ublock_sim p HF Hp stk s0 _ _ _ U0) as (M' & rds & E & U). cbn [app] in U.
  unfold pysem in Hrd. rewrite E in Hrd. cbn [snd] in Hrd.
  cbn [snd] in Hin. rewrite sort_by_In in Hin.
  set (s1 := vblock true p stk s0) in *.
  assert (Hsc : scan_node true p stk s0 = with_deferred (fold_left report_unused_of (pending_dicts s1 (top stk)) s1) []).
  { unfold scan_node, finish_deferred. fold s1. rewrite (u_def _ _ _ _ _ U). reflexivity. }
  rewrite Hsc in Hin. unfold scan_unused in Hin.
  apply report_unused_spec in Hin.
  assert (Hck : checkers (fold_left report_unused_of (pending_dicts s1 (top stk)) s1) = checkers s1).
  { destruct (reports_shape (pending_dicts s1 (top stk)) s1) as (u & E0). rewrite E0. reflexivity. }
  assert (Hin' : In (l, i) (unused s1) \/ exists c, c_used (checker_at s1 c) = false /\ c_line (checker_at s1 c) = l /\ c_imp (checker_at s1 c) = i).
  { destruct Hin as [Hin|(k & c & Hk & Hu & Hl & Hi)].
    - cbn [unused with_deferred] in Hin. apply reports_spec in Hin as [Hin|(d & k & c & _ & _ & Hu & Hl & Hi)]; eauto.
    - right. exists c. unfold checker_at in *. cbn [checkers with_deferred] in Hu, Hl, Hi. rewrite Hck in Hu, Hl, Hi. auto. }
  clear Hin. rename Hin' into Hin.
  (* the checker that was marked by the read *)
  destruct (u_reads _ _ _ _ _ U _ _ _ _ Hrd) as (c1 & Hlt1 & Hl1 & Hi1 & Hu1).
  assert (Hpairs : NoDup (map (fun ck => (c_line ck, c_imp ck)) (checkers s1))).
  { pose proof (u_ev _ _ _ _ _ U) as Hev. unfold pairs in Hev. rewrite Hev. exact Hnd. }
  assert (Hsame : forall c0, c0 < length (checkers s1) -> c_line (checker_at s1 c0) = l -> c_imp (checker_at s1 c0) = i -> c0 = c1).
  { intros c0 Hlt0 Hl0 Hi0. unfold checker_at in *.
    apply (NoDup_map_nth _ _ (fun ck => (c_line ck, c_imp ck)) (checkers s1) (mkChecker ([], []) 0 true)); auto.
    cbn. rewrite Hl0, Hi0, Hl1, Hi1. reflexivity. }
  destruct Hin as [Hin|(c & Hu & Hl & Hi)].
  - destruct (u_unused _ _ _ _ _ U _ _ Hin) as (c0 & Hlt0 & Hl0 & Hi0 & Hu0 & _).
    assert (c0 = c1) by (apply Hsame; auto). subst c0. congruence.
  - assert (Hlt : c < length (checkers s1)).
    { destruct (Nat.lt_ge_cases c (length (checkers s1))) as [H|H]; auto.
      exfalso. unfold checker_at in Hu. rewrite nth_overflow in Hu by exact H. discriminate. }
    assert (c = c1) by (apply Hsame; auto). subst c. congruence.
Qed.

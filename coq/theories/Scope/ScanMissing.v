(* C05 for scan_for_import_issues (unused-import tracking ON - what tidy-imports and the import adder use): on programs
   of stage 2 / 3 whose import statements (anywhere) bind one-component keys and are no __future__ imports
   (Stage2Erase.ui_block) the missing list is the one of the tracking-off run - the erasure of the tracking-on run is the
   tracking-off run - so the stage-2 / stage-3 soundness and precision theorems hold of it too. *)
From Coq Require Import NArith List Bool Arith Lia.
From Verif Require Import Scope.PySyntax Scope.Finder Scope.PySem Scope.Fragment Scope.AuxProofs Scope.FinderProofs
                          Scope.Stage2Base Scope.Stage2Final Scope.Stage3Final Scope.Stage2Erase Scope.Stage3Erase
                          Scope.UnusedProofs Scope.Stage2Unused.
Import ListNotations.

Lemma er_fold_check : forall cur ds s,
  er (fold_left (fun s d => let '(n, stk, ln) := d in check_load s cur stk n ln) ds s) =
  fold_left (fun s d => let '(n, stk, ln) := d in check_load s cur stk n ln) ds (er s).
Proof.
  intros cur ds. induction ds as [|[[n stk] ln] ds IH]; intro s; cbn [fold_left]. reflexivity.
  rewrite IH, er_check_load. reflexivity.
Qed.

Lemma missing_finish : forall cur s,
  missing (finish_deferred cur s) =
  missing (fold_left (fun s d => let '(n, stk, ln) := d in check_load s cur stk n ln) (deferred s) s).
Proof.
  intros cur s. unfold finish_deferred.
  destruct (reports_shape (pending_dicts (fold_left (fun s d => let '(n, stk, ln) := d in check_load s cur stk n ln) (deferred s) s) (top cur))
                          (fold_left (fun s d => let '(n, stk, ln) := d in check_load s cur stk n ln) (deferred s) s)) as (u & E).
  rewrite E. reflexivity.
Qed.

Lemma missing_scan_er : forall p stk s0, er s0 = s0 ->
  (forall stk s, er (vblock true p stk s) = vblock false p stk (er s)) ->
  missing (scan_node true p stk s0) = missing (scan_node false p stk s0).
Proof.
  intros p stk s0 E0 Hb. unfold scan_node. rewrite !missing_finish.
  set (st := vblock true p stk s0). set (sf := vblock false p stk s0).
  assert (Est : er st = sf) by (unfold st, sf; rewrite Hb, E0; reflexivity).
  assert (Ed : deferred st = deferred sf) by (rewrite <- Est; reflexivity).
  change (missing (fold_left (fun s d => let '(n, stk0, ln) := d in check_load s stk stk0 n ln) (deferred st) st))
    with (missing (er (fold_left (fun s d => let '(n, stk0, ln) := d in check_load s stk stk0 n ln) (deferred st) st))).
  rewrite er_fold_check, Est, Ed. reflexivity.
Qed.

Theorem scan_missing_stage2 : forall bi ns p, s2_block p = true -> ui_block p = true ->
  fst (finder bi ns true p) = fst (finder bi ns false p).
Proof.
  intros bi ns p Hs Hu. unfold finder. pose proof (er_init bi ns) as E0. destruct (init_state bi ns) as [stk s0]. cbn [snd] in E0.
  cbn [fst]. rewrite (missing_scan_er p stk s0 E0 (er_vblock p Hs Hu)). reflexivity.
Qed.
Theorem scan_missing_stage3 : forall bi ns p, s3_block p = true -> ui_block p = true ->
  fst (finder bi ns true p) = fst (finder bi ns false p).
Proof.
  intros bi ns p Hs Hu. unfold finder. pose proof (er_init bi ns) as E0. destruct (init_state bi ns) as [stk s0]. cbn [snd] in E0.
  cbn [fst]. rewrite (missing_scan_er p stk s0 E0 (er_vblock3 p Hs Hu)). reflexivity.
Qed.

(* per-occurrence soundness and precision of the missing list of scan_for_import_issues *)
Theorem s2_scan_missing_sound : forall bi ns p, s2_block p = true -> ui_block p = true -> star_free bi ns = true ->
  forall l n, In (l, n, Unbound) (pysem bi ns p) -> exists a, In (l, n :: a) (fst (finder bi ns true p)).
Proof. intros bi ns p Hs Hu Hsf. rewrite (scan_missing_stage2 bi ns p Hs Hu). apply s2_missing_sound; assumption. Qed.
Theorem s2_scan_missing_precise : forall bi ns p, s2_block p = true -> ui_block p = true -> star_free bi ns = true ->
  forall l n a, In (l, n :: a) (fst (finder bi ns true p)) ->
  In (l, n, Unbound) (pysem bi ns p) \/ In (l, n, UnboundLocal) (pysem bi ns p).
Proof. intros bi ns p Hs Hu Hsf. rewrite (scan_missing_stage2 bi ns p Hs Hu). apply s2_missing_precise; assumption. Qed.
Theorem s3_scan_missing_sound : forall bi ns p, s3_block p = true -> ui_block p = true -> star_free bi ns = true ->
  forall l n, In (l, n, Unbound) (pysem bi ns p) -> exists a, In (l, n :: a) (fst (finder bi ns true p)).
Proof. intros bi ns p Hs Hu Hsf. rewrite (scan_missing_stage3 bi ns p Hs Hu). apply s3_missing_sound; assumption. Qed.
Theorem s3_scan_missing_precise : forall bi ns p, s3_block p = true -> ui_block p = true -> star_free bi ns = true ->
  forall l n a, In (l, n :: a) (fst (finder bi ns true p)) ->
  In (l, n, Unbound) (pysem bi ns p) \/ In (l, n, UnboundLocal) (pysem bi ns p).
Proof. intros bi ns p Hs Hu Hsf. rewrite (scan_missing_stage3 bi ns p Hs Hu). apply s3_missing_precise; assumption. Qed.

(* M7, stage 3 - expressions of Fragment.s3_expr: stage 2 + comprehensions (Stage3Comp.v). *)
From Coq Require Import NArith List Bool Arith Lia.
From Verif Require Import Scope.PySyntax Scope.Finder Scope.PySem Scope.Fragment Scope.AuxProofs Scope.FinderProofs
                          Scope.Stage2Base Scope.Stage2Inv Scope.Stage2Steps Scope.Stage2Proofs Scope.Stage2Stmt Scope.Stage3Comp.
Import ListNotations.

Lemma all_PC : forall es, Forall PC es.
Proof. intro es. apply Forall_forall. intros x _. apply cexpr_inv. Qed.
Lemma all_PG : forall gs, Forall PG gs.
Proof. intro gs. apply Forall_forall. intros [iter tgt ifs] _. apply gen_case. apply cexpr_inv. apply all_PC. Qed.

(* a comprehension met outside any comprehension *)
Lemma comp_top : forall gens elts, c3_expr (EComp gens elts) = true ->
  forall exp l L' acc accs ex s e tr, Inv2 exp l L' acc accs ex s e tr ->
  Post exp l L' acc accs ex s e tr (vexpr false (EComp gens elts) (stack_of (l :: L')) s) (sem_expr (lineno s) e (EComp gens elts)).
Proof.
  intros gens elts Hs exp l L' acc accs ex s e tr HI.
  assert (HX : CX exp ex s []). { constructor. constructor. intros c []. constructor. intros c []. }
  destruct (comp_case gens elts (all_PG gens) (all_PC elts) Hs exp l L' acc accs ex s e tr [] [] HI HX (Forall2_nil _))
    as (exp' & X & I' & _ & Ln & Nx).
  cbn [cids map rev app] in *. rewrite app_nil_r in *.
  exists exp'. split. exact X. split. exact I'. split. exact Ln. split. exact Nx.
  rewrite (Inv2_fd _ _ _ _ _ _ _ _ _ I'), (Inv2_fd _ _ _ _ _ _ _ _ _ HI). reflexivity.
Qed.

Definition PE3 (x : expr) : Prop := s3_expr x = true ->
  forall exp l L' acc accs ex s e tr, Inv2 exp l L' acc accs ex s e tr ->
  Post exp l L' acc accs ex s e tr (vexpr false x (stack_of (l :: L')) s) (sem_expr (lineno s) e x).
Lemma s3go_eq : forall l,
  (fix go (l : list expr) : bool := match l with [] => true | x :: r => s3_expr x && go r end) l = forallb s3_expr l.
Proof. reflexivity. Qed.

Lemma exprs_inv3 : forall es, Forall PE3 es -> forallb s3_expr es = true ->
  forall exp l L' acc accs ex s e tr, Inv2 exp l L' acc accs ex s e tr ->
  Post exp l L' acc accs ex s e tr (vexpr_list false es (stack_of (l :: L')) s) (sem_exprs (lineno s) e es).
Proof.
  intros es HF. induction HF as [|x es Hx HF IH]; intros Hs exp l L' acc accs ex s e tr HI.
  - apply Post_refl. exact HI.
  - cbn in Hs. apply andb_true_iff in Hs as [H1 H2].
    unfold vexpr_list, sem_exprs. cbn [fold_left flat_map].
    assert (Eln : lineno (vexpr false x (stack_of (l :: L')) s) = lineno s).
    { destruct (Hx H1 _ _ _ _ _ _ _ _ _ HI) as (? & _ & _ & E & _). exact E. }
    eapply Post_seq.
    + apply (Hx H1 _ _ _ _ _ _ _ _ _ HI).
    + intros exp1 I1. pose proof (IH H2 _ _ _ _ _ _ _ _ _ I1) as P. rewrite Eln in P. exact P.
Qed.


Lemma expr_inv3 : forall x, PE3 x.
Proof.
  intro x. induction x using expr_ind' with (Q := fun _ => True); try exact I; unfold PE3; intros Hs exp l L' acc accs ex s e tr HI.
  - (* ELoad *)
    cbn [vexpr sem_expr]. exact (load_inv exp l L' acc accs ex s e tr n a HI).
  - (* EOp *)
    cbn [vexpr sem_expr s3_expr] in *. rewrite vgo_eq, sgo_eq. rewrite s3go_eq in Hs. apply exprs_inv3; auto.
  - (* EAttr *)
    cbn [vexpr sem_expr s3_expr] in *. apply IHx; auto.
  - (* ELambda *)
    cbn [s3_expr] in Hs. rewrite s3go_eq in Hs. apply andb_true_iff in Hs as [Hs Hbody]. apply andb_true_iff in Hs as [Hps Hds].
    rewrite vexpr_lambda_eq, sem_lambda_eq.
    pose proof (i_st _ _ _ _ _ _ _ _ _ HI) as HS.
    pose proof (st_sinv _ _ _ _ _ HS) as HS0.
    rewrite push_S by exact HS0.
    set (stk := stack_of (l :: L')). set (A := next_id s). set (s1 := snd (new_scope s KNormal [])).
    cbv beta iota zeta. rewrite removelast_snoc.
    destruct (open_scope exp l L' acc accs ex s e tr ps HI) as (I1 & Nx1 & Ln1 & Fd1 & Hempty & X1 & HAoff & HAd).
    fold A in I1, Nx1, X1, HAoff, HAd. fold s1 in I1, Nx1, Ln1, Fd1.
    (* defaults, in the enclosing scope *)
    destruct (exprs_inv3 ds H Hds _ _ _ _ _ _ _ _ _ I1) as (exp2 & X2 & I2 & Ln2 & Nx2 & Fd2).
    fold stk in I2, Ln2, Nx2, Fd2. set (s2 := vexpr_list false ds stk s1) in *.
    (* parameters *)
    assert (HexpA : forall y, In y (exp2 A) <-> In y ps).
    { intro y. rewrite X2 by lia. unfold upd. rewrite Nat.eqb_refl. reflexivity. }
    assert (Hnsps : Forall (fun p => p <> n_star) ps).
    { apply Forall_forall. intros p Hp. rewrite forallb_forall in Hps. apply not_star_neq. apply Hps. exact Hp. }
    destruct (params_close exp2 l L' acc accs ex s2 _ _ A stk ps I2) as (I3 & Ln3 & Nx3 & Fd3); auto; try lia.
    fold stk. set (s3 := fold_left (fun s p => store false s (stk ++ [A]) [p] Plain) ps s2) in *.
    (* the body scope *)
    destruct I3 as [S3 X3 L3 C3 E3 T3].
    assert (HS3 : SInv (with_fd s3 true)) by (apply SInv_with_fd; apply (st_sinv _ _ _ _ _ S3)).
    rewrite push_S by exact HS3. cbv beta iota zeta. change (next_id (with_fd s3 true)) with (next_id s3).
    set (B := next_id s3).
    assert (HAex : ~ In A ex). { intro Hin. pose proof (i_exlt _ _ _ _ _ _ _ _ _ HI A Hin). unfold A in H0. lia. }
    destruct (fun_frame_ok A B ps [] [] []) as (HFk & HFs & HFd). { intro y. reflexivity. }
    cbn [map] in HFs.
    destruct (enter_level exp2 l L' acc accs ex s3 e (tr ++ sem_exprs (lineno s1) e ds) A ps [] [] (fun_frame ps [] []) S3 X3 C3 E3 T3 L3)
      as (S4 & X4 & C4 & E4 & T4 & Xe & Ln4 & Nx4); auto. lia. intros y [].
    cbv zeta in S4, X4, C4, E4, T4, Xe, Ln4, Nx4. fold B in S4, X4, C4, E4, T4, Xe, Ln4, Nx4.
    set (lv := mkL [A] B ps [] []) in *. set (s4 := snd (new_scope (with_fd s3 true) KNormal [])) in *.
    set (exp4 := upd exp2 B ([] ++ [])) in *.
    unfold stk at 1. rewrite stackB_eq with (P := ps) (own := []) (Bn := []). fold lv.
    assert (I4 : Inv2 exp4 lv (l :: L') [] (acc :: accs) ex s4 (fun_frame ps [] [] :: finalize e) (tr ++ sem_exprs (lineno s1) e ds)).
    { constructor; auto. intros i Hi. rewrite Nx4. specialize (L3 i Hi). lia. }
    destruct (IHx Hbody _ _ _ _ _ _ _ _ _ I4) as (exp5 & X5 & I5 & Ln5 & Nx5 & Fd5).
    set (s5 := vexpr false x (stack_of (lv :: l :: L')) s4) in *.
    (* leaving *)
    assert (HS5 : SInv s5) by apply (st_sinv _ _ _ _ _ (i_st _ _ _ _ _ _ _ _ _ I5)).
    rewrite (pop_S s5) by exact HS5. rewrite pop_S by (apply SInv_with_fd; exact HS5).
    destruct (leave_level exp5 lv l L' accs acc ex s5 (i_st _ _ _ _ _ _ _ _ _ I5) (i_cx _ _ _ _ _ _ _ _ _ I5)) as (S6 & C6).
    assert (Efd : in_fd s3 = negb (Nat.eqb (length (l :: L')) 1)).
    { rewrite Fd3, Fd2, Fd1. apply (st_fd _ _ _ _ _ HS). }
    rewrite Efd.
    assert (Eln : lineno s4 = lineno s) by congruence.
    exists exp5. split.
    { intros i Hi. fold A in Hi. rewrite (X5 i), (Xe i), (X2 i), (X1 i) by lia. reflexivity. }
    split.
    { rewrite Ln1 in *. rewrite Eln in I5. rewrite app_assoc.
      constructor.
      - exact S6.
      - apply (i_ex _ _ _ _ _ _ _ _ _ HI).
      - intros i Hi. pose proof (i_exlt _ _ _ _ _ _ _ _ _ HI i Hi). cbn [next_id with_fd]. lia.
      - exact C6.
      - apply (i_env _ _ _ _ _ _ _ _ _ HI).
      - eapply TrI_same; [| |apply (i_tr _ _ _ _ _ _ _ _ _ I5)]; reflexivity. }
    split. cbn [lineno with_fd]. congruence. split. cbn [next_id with_fd]. lia.
    cbn [in_fd with_fd]. symmetry. apply (st_fd _ _ _ _ _ HS).
  - (* EComp *) cbn [s3_expr] in Hs. apply comp_top; auto.
Qed.

(* M7, stage 2 - the simulation for programs with function and lambda scopes (Fragment.s2_block):
   every failing global lookup of PySem is reported by pyflyby's analysis on that line, and every reported
   (line, name) is a failing lookup (NameError, or UnboundLocalError-like) of PySem on that line. *)
From Coq Require Import NArith List Bool Arith Lia.
From Verif Require Import Scope.PySyntax Scope.Finder Scope.PySem Scope.Fragment Scope.AuxProofs Scope.FinderProofs
                          Scope.Stage2Base Scope.Stage2Inv Scope.Stage2Steps.
Import ListNotations.

Record Inv2 (exp : expmap) (l : lvl) (L' : list lvl) (acc : list name) (accs : list (list name)) (ex : list nat)
            (s : st) (e : env) (tr : list rd) : Prop := mkInv2 {
  i_st : StI exp (l :: L') (acc :: accs) ex s;
  i_ex : ExOK (l :: L') ex;
  i_exlt : forall i, In i ex -> i < next_id s;
  i_cx : CtxI exp (l :: L');
  i_env : EnvI (l :: L') e (acc :: map l_B L');
  i_tr : TrI exp s tr }.

Lemma Inv2_with_ln : forall exp l L' acc accs ex s e tr ln,
  Inv2 exp l L' acc accs ex s e tr -> Inv2 exp l L' acc accs ex (with_ln s ln) e tr.
Proof.
  intros. destruct H. constructor; auto. apply StI_with_ln; auto. apply TrI_with_ln; auto.
Qed.

Lemma Inv2_perm : forall exp l L' acc accs ex s e tr tr', (forall x, In x tr <-> In x tr') ->
  Inv2 exp l L' acc accs ex s e tr -> Inv2 exp l L' acc accs ex s e tr'.
Proof. intros. destruct H0. constructor; auto. eapply TrI_perm; eauto. Qed.

(* ---------- a load ---------- *)
Lemma load_inv : forall exp l L' acc accs ex s e tr n a,
  Inv2 exp l L' acc accs ex s e tr ->
  let s' := load s (stack_of (l :: L')) (n :: a) in
  exists exp', ext (next_id s) exp exp' /\ Inv2 exp' l L' acc accs ex s' e (tr ++ [(lineno s, n, resolve n e)]) /\
               lineno s' = lineno s /\ next_id s <= next_id s' /\ in_fd s' = in_fd s.
Proof.
  intros exp l L' acc accs ex s e tr n a [HS HX HL HC HE HT]. cbv zeta.
  destruct (load_step exp l L' accs acc ex s e tr n a HS HX HC HE HT) as (exp' & X & S' & C' & T' & Ln & Nx & Fd).
  exists exp'. split. exact X. split; [|auto]. constructor; auto. intros i Hi. specialize (HL i Hi). lia.
Qed.

(* ---------- a fresh empty scope that is not (yet) on the stack ---------- *)
Lemma open_scope : forall exp l L' acc accs ex s e tr R,
  Inv2 exp l L' acc accs ex s e tr ->
  let A := next_id s in
  let s1 := snd (new_scope s KNormal []) in
  Inv2 (upd exp A R) l L' acc accs (A :: ex) s1 e tr /\ next_id s1 = S A /\ lineno s1 = lineno s /\
  in_fd s1 = in_fd s /\ (forall x, has s1 A x = false) /\ ext A exp (upd exp A R) /\
  ~ In A (stack_of (l :: L')) /\ A <> delayed_id.
Proof.
  intros exp l L' acc accs ex s e tr R [HS HX HL HC HE HT]. cbv zeta.
  set (A := next_id s). set (s1 := snd (new_scope s KNormal [])).
  pose proof (st_sinv _ _ _ _ _ HS) as HI.
  destruct (new_scope_fields s []) as (_ & Enx & Em & Ed & Efd & Eln & _). fold s1 in Enx, Em, Ed, Efd, Eln. fold A in Enx.
  assert (Hsd : forall i, scope_dict s1 i = if Nat.eqb i A then [] else scope_dict s i)
    by (intro i; apply scope_dict_new; apply (sv_fresh s HI)).
  assert (Hhas : forall i x, has s1 i x = if Nat.eqb i A then false else has s i x).
  { intros i x. unfold has. rewrite Hsd. destruct (Nat.eqb i A); reflexivity. }
  assert (Hlt : forall i, In i (stack_of (l :: L')) -> i < A /\ i <> delayed_id) by (intros i Hi; apply (st_ids _ _ _ _ _ HS); exact Hi).
  assert (Hext : ext A exp (upd exp A R)) by (apply ext_upd; lia).
  assert (HexpO : forall i, i <> A -> upd exp A R i = exp i).
  { intros i Hi. unfold upd. destruct (Nat.eqb i A) eqn:E; auto. apply Nat.eqb_eq in E. contradiction. }
  assert (Hoff : ~ In A (stack_of (l :: L'))) by (intro H; destruct (Hlt A H); lia).
  assert (HAd : A <> delayed_id) by (pose proof (sv_next s HI) as Hn; unfold delayed_id; fold A in Hn; lia).
  split; [|repeat split; auto; intro x; rewrite Hhas, Nat.eqb_refl; reflexivity].
  constructor.
  - constructor.
    + apply SInv_new; auto. intros k e0 []. intros r q Hq. cbn in Hq. congruence.
    + apply (st_nodup _ _ _ _ _ HS).
    + intros i Hi. rewrite Enx. destruct (Hlt i Hi). split; auto.
    + intros i x. rewrite Hhas. destruct (Nat.eqb i A) eqn:E. discriminate.
      apply Nat.eqb_neq in E. rewrite (HexpO i E). apply (st_sub _ _ _ _ _ HS).
    + intros i Hi Hnb Hne x. rewrite Hhas. destruct (Nat.eqb i A) eqn:E.
      * exfalso. apply Nat.eqb_eq in E. apply Hne. left. auto.
      * apply Nat.eqb_neq in E. rewrite (HexpO i E). apply (st_eq _ _ _ _ _ HS); auto. rewrite Enx in Hi. fold A. lia.
        intro H. apply Hne. right. exact H.
    + eapply Forall2_top_other; [|apply (st_top _ _ _ _ _ HS)]. intros l0 H0 x. rewrite Hhas.
      assert (Nat.eqb (l_b l0) A = false).
      { apply Nat.eqb_neq. destruct (Hlt (l_b l0)). apply in_stack_b. exact H0. lia. }
      rewrite H. reflexivity.
    + intros nm stk ln Hi i Hii. rewrite Enx. rewrite Ed in Hi. pose proof (st_def _ _ _ _ _ HS _ _ _ Hi i Hii). fold A in H. lia.
    + rewrite Efd. apply (st_fd _ _ _ _ _ HS).
  - constructor. intros i [<-|Hi]. exact Hoff. apply (ex_off _ _ HX). exact Hi.
  - intros i [<-|Hi]. rewrite Enx. lia. rewrite Enx. specialize (HL i Hi). fold A in HL. lia.
  - eapply CtxI_ext; [exact Hext| |exact HC]. intros i Hi. apply Hlt. exact Hi.
  - exact HE.
  - eapply TrI_same; [exact Em|exact Ed|]. eapply TrI_ext; [exact Hext| |exact HT].
    intros nm stk ln Hi i Hii. apply (st_def _ _ _ _ _ HS _ _ _ Hi i Hii).
Qed.

(* ---------- the parameters are stored, the parameter scope is closed ---------- *)
Lemma params_close : forall exp l L' acc accs ex s e tr A stk ps,
  Inv2 exp l L' acc accs (A :: ex) s e tr -> A < next_id s -> A <> delayed_id -> ~ In A (stack_of (l :: L')) ->
  (forall x, In x (exp A) <-> In x ps) -> Forall (fun p => p <> n_star) ps ->
  let s' := fold_left (fun s p => store false s (stk ++ [A]) [p] Plain) ps s in
  Inv2 exp l L' acc accs ex s' e tr /\ lineno s' = lineno s /\ next_id s' = next_id s /\ in_fd s' = in_fd s.
Proof.
  intros exp l L' acc accs ex s e tr A stk ps [HS HX HL HC HE HT] HA HAd Hoff Hexp Hns. cbv zeta.
  destruct (store_params exp (l :: L') (acc :: accs) (A :: ex) A stk ps s HS (or_introl eq_refl) Hoff HA HAd Hns)
    as (S1 & Em & Ed & El & Enx & Efd & Hh).
  { intros y Hy. apply Hexp. exact Hy. }
  split; [|auto]. constructor.
  - eapply close_ex. exact S1. intro x. rewrite Hh. split.
    + intros [H|H]. eapply (st_sub _ _ _ _ _ HS). exact H. apply Hexp. exact H.
    + intro H. right. apply Hexp. exact H.
  - constructor. intros i Hi. apply (ex_off _ _ HX). right. exact Hi.
  - intros i Hi. rewrite Enx. apply HL. right. exact Hi.
  - exact HC.
  - exact HE.
  - eapply TrI_same; eauto.
Qed.

(* ---------- frames of function and lambda bodies ---------- *)
Lemma names_eq_others : forall ps, names_eq (others ps) (ps ++ []).
Proof. intros ps x. rewrite app_nil_r. apply lookup_b_others. Qed.

Lemma lookup_b_app_names : forall x a b, lookup_b x (a ++ b) <> None <-> lookup_b x a <> None \/ lookup_b x b <> None.
Proof.
  induction a as [|[y c] a IH]; intros b; cbn. split; [auto|intros [H|H]; [congruence|auto]].
  destruct (N.eqb x y). split; [left; discriminate|discriminate]. apply IH.
Qed.
Lemma lookup_b_rev_names : forall x a, lookup_b x (rev a) <> None <-> lookup_b x a <> None.
Proof.
  induction a as [|[y c] a IH]; cbn. reflexivity.
  rewrite lookup_b_app_names, IH. cbn. destruct (N.eqb x y); split; intros; try tauto; try discriminate.
Qed.
Lemma lookup_b_names : forall x l, lookup_b x l <> None <-> In x (map fst l).
Proof.
  induction l as [|[y c] l IH]; cbn. split; auto.
  destruct (N.eqb x y) eqn:E. apply N.eqb_eq in E. subst. split; auto. discriminate.
  rewrite IH. apply N.eqb_neq in E. split; auto. intros [H|H]; auto. congruence.
Qed.

Lemma fun_frame_ok : forall A B ps own body_bs static,
  (forall x, In x static <-> In x (map fst body_bs)) ->
  let F := fun_frame ps body_bs static in
  fk F = FFunction /\ frame_static (mkL [A] B ps own (map fst body_bs)) F /\ names_eq (fdyn F) (ps ++ []).
Proof.
  intros A B ps own body_bs static Hst. cbv zeta. unfold fun_frame. cbn [fk flocals ffinal fdyn].
  split. reflexivity. split; [|apply names_eq_others].
  split; cbn [l_P l_B].
  - intro x. cbn [flocals]. rewrite mem_In, !in_app_iff. specialize (Hst x). tauto.
  - intro x. cbn [ffinal]. rewrite lookup_b_app_names, lookup_b_rev_names, lookup_b_names, lookup_b_others, in_app_iff. tauto.
Qed.

(* ---------- expressions ---------- *)
Definition vexpr_list (track : bool) (l : list expr) (stk : stack) (s : st) : st :=
  fold_left (fun s x => vexpr track x stk s) l s.
Lemma vgo_eq : forall track stk l s,
  (fix go (l : list expr) (s : st) : st := match l with [] => s | x :: r => go r (vexpr track x stk s) end) l s
  = vexpr_list track l stk s.
Proof. intros track stk l. induction l as [|x l IH]; intro s. reflexivity. unfold vexpr_list. cbn [fold_left]. apply IH. Qed.
Lemma sgo_eq : forall ln e l,
  (fix go (l : list expr) : list rd := match l with [] => [] | y :: r => sem_expr ln e y ++ go r end) l = sem_exprs ln e l.
Proof. intros ln e l. induction l as [|x l IH]. reflexivity. unfold sem_exprs in *. cbn [flat_map]. rewrite IH. reflexivity. Qed.
Lemma s2go_eq : forall l,
  (fix go (l : list expr) : bool := match l with [] => true | x :: r => s2_expr x && go r end) l = forallb s2_expr l.
Proof. reflexivity. Qed.

Lemma vexpr_lambda_eq : forall track ps ds body stk s,
  vexpr track (ELambda ps ds body) stk s =
  (let '(stkA, s1) := push s stk true false false in
   let s2 := vexpr_list track ds (removelast stkA) s1 in
   let s3 := fold_left (fun s p => store track s stkA [p] Plain) ps s2 in
   let fd := in_fd s3 in
   let '(stkB, s4) := push (with_fd s3 true) stkA false false false in
   let s5 := vexpr track body stkB s4 in
   let s6 := with_fd (pop s5 (top stkB)) fd in
   pop s6 (top stkA)).
Proof. intros. cbn [vexpr]. destruct (push s stk true false false) as [stkA s1]. rewrite vgo_eq. reflexivity. Qed.
Lemma sem_lambda_eq : forall ln e ps ds body,
  sem_expr ln e (ELambda ps ds body) = sem_exprs ln e ds ++ sem_expr ln (fun_frame ps [] [] :: finalize e) body.
Proof. intros. cbn [sem_expr]. rewrite sgo_eq. reflexivity. Qed.

Definition Post (exp : expmap) (l : lvl) (L' : list lvl) (acc : list name) (accs : list (list name)) (ex : list nat)
                (s : st) (e : env) (tr : list rd) (s' : st) (rds : list rd) : Prop :=
  exists exp', ext (next_id s) exp exp' /\ Inv2 exp' l L' acc accs ex s' e (tr ++ rds) /\
               lineno s' = lineno s /\ next_id s <= next_id s' /\ in_fd s' = in_fd s.

Definition PE2 (x : expr) : Prop := s2_expr x = true ->
  forall exp l L' acc accs ex s e tr, Inv2 exp l L' acc accs ex s e tr ->
  Post exp l L' acc accs ex s e tr (vexpr false x (stack_of (l :: L')) s) (sem_expr (lineno s) e x).

Lemma Post_refl : forall exp l L' acc accs ex s e tr, Inv2 exp l L' acc accs ex s e tr -> Post exp l L' acc accs ex s e tr s [].
Proof. intros. exists exp. split. apply ext_refl. rewrite app_nil_r. auto. Qed.

(* sequencing two steps *)
Lemma Post_seq : forall exp l L' acc accs ex s e tr s1 r1 s2 r2,
  Post exp l L' acc accs ex s e tr s1 r1 ->
  (forall exp1, Inv2 exp1 l L' acc accs ex s1 e (tr ++ r1) -> Post exp1 l L' acc accs ex s1 e (tr ++ r1) s2 r2) ->
  Post exp l L' acc accs ex s e tr s2 (r1 ++ r2).
Proof.
  intros exp l L' acc accs ex s e tr s1 r1 s2 r2 (exp1 & X1 & I1 & Ln1 & N1 & F1) H2.
  destruct (H2 exp1 I1) as (exp2 & X2 & I2 & Ln2 & N2 & F2).
  exists exp2. split. eapply ext_trans; [exact N1|exact X1|exact X2].
  rewrite app_assoc. split. exact I2. split. congruence. split. lia. congruence.
Qed.

Lemma exprs_inv : forall es, Forall PE2 es -> forallb s2_expr es = true ->
  forall exp l L' acc accs ex s e tr, Inv2 exp l L' acc accs ex s e tr ->
  Post exp l L' acc accs ex s e tr (vexpr_list false es (stack_of (l :: L')) s) (sem_exprs (lineno s) e es).
Proof.
  intros es HF. induction HF as [|x es Hx HF IH]; intros Hs exp l L' acc accs ex s e tr HI.
  - apply Post_refl. exact HI.
  - cbn in Hs. apply andb_true_iff in Hs as [H1 H2].
    unfold vexpr_list, sem_exprs. cbn [fold_left flat_map].
    assert (Eln : lineno (vexpr false x (stack_of (l :: L')) s) = lineno s).
    { destruct (Hx H1 _ _ _ _ _ _ _ _ _ HI) as (? & _ & _ & E & _). exact E. }
    eapply Post_seq.
    + apply (Hx H1 _ _ _ _ _ _ _ _ _ HI).
    + intros exp1 I1. pose proof (IH H2 _ _ _ _ _ _ _ _ _ I1) as P. rewrite Eln in P. exact P.
Qed.

Lemma stackB_eq : forall A B P own Bn l L',
  (stack_of (l :: L') ++ [A]) ++ [B] = stack_of (mkL [A] B P own Bn :: l :: L').
Proof. intros. rewrite (stack_of_cons (mkL [A] B P own Bn)). cbn [l_as l_b]. rewrite app_assoc. reflexivity. Qed.

Lemma expr_inv : forall x, PE2 x.
Proof.
  intro x. induction x using expr_ind' with (Q := fun _ => True); try exact I; unfold PE2; intros Hs exp l L' acc accs ex s e tr HI.
  - (* ELoad *)
    cbn [vexpr sem_expr]. exact (load_inv exp l L' acc accs ex s e tr n a HI).
  - (* EOp *)
    cbn [vexpr sem_expr s2_expr] in *. rewrite vgo_eq, sgo_eq. rewrite s2go_eq in Hs. apply exprs_inv; auto.
  - (* EAttr *)
    cbn [vexpr sem_expr s2_expr] in *. apply IHx; auto.
  - (* ELambda *)
    cbn [s2_expr] in Hs. rewrite s2go_eq in Hs. apply andb_true_iff in Hs as [Hs Hbody]. apply andb_true_iff in Hs as [Hps Hds].
    rewrite vexpr_lambda_eq, sem_lambda_eq.
    pose proof (i_st _ _ _ _ _ _ _ _ _ HI) as HS.
    pose proof (st_sinv _ _ _ _ _ HS) as HS0.
    rewrite push_S by exact HS0.
    set (stk := stack_of (l :: L')). set (A := next_id s). set (s1 := snd (new_scope s KNormal [])).
    cbv beta iota zeta. rewrite removelast_snoc.
    destruct (open_scope exp l L' acc accs ex s e tr ps HI) as (I1 & Nx1 & Ln1 & Fd1 & Hempty & X1 & HAoff & HAd).
    fold A in I1, Nx1, X1, HAoff, HAd. fold s1 in I1, Nx1, Ln1, Fd1.
    (* defaults, in the enclosing scope *)
    destruct (exprs_inv ds H Hds _ _ _ _ _ _ _ _ _ I1) as (exp2 & X2 & I2 & Ln2 & Nx2 & Fd2).
    fold stk in I2, Ln2, Nx2, Fd2. set (s2 := vexpr_list false ds stk s1) in *.
    (* parameters *)
    assert (HexpA : forall y, In y (exp2 A) <-> In y ps).
    { intro y. rewrite X2 by lia. unfold upd. rewrite Nat.eqb_refl. reflexivity. }
    assert (Hnsps : Forall (fun p => p <> n_star) ps).
    { apply Forall_forall. intros p Hp. rewrite forallb_forall in Hps. apply not_star_neq. apply Hps. exact Hp. }
    destruct (params_close exp2 l L' acc accs ex s2 _ _ A stk ps I2) as (I3 & Ln3 & Nx3 & Fd3); auto; try lia.
    fold stk. set (s3 := fold_left (fun s p => store false s (stk ++ [A]) [p] Plain) ps s2) in *.
    (* the body scope *)
    destruct I3 as [S3 X3 L3 C3 E3 T3].
    assert (HS3 : SInv (with_fd s3 true)) by (apply SInv_with_fd; apply (st_sinv _ _ _ _ _ S3)).
    rewrite push_S by exact HS3. cbv beta iota zeta. change (next_id (with_fd s3 true)) with (next_id s3).
    set (B := next_id s3).
    assert (HAex : ~ In A ex). { intro Hin. pose proof (i_exlt _ _ _ _ _ _ _ _ _ HI A Hin). unfold A in H0. lia. }
    destruct (fun_frame_ok A B ps [] [] []) as (HFk & HFs & HFd). { intro y. reflexivity. }
    cbn [map] in HFs.
    destruct (enter_level exp2 l L' acc accs ex s3 e (tr ++ sem_exprs (lineno s1) e ds) A ps [] [] (fun_frame ps [] []) S3 X3 C3 E3 T3 L3)
      as (S4 & X4 & C4 & E4 & T4 & Xe & Ln4 & Nx4); auto. lia. intros y [].
    cbv zeta in S4, X4, C4, E4, T4, Xe, Ln4, Nx4. fold B in S4, X4, C4, E4, T4, Xe, Ln4, Nx4.
    set (lv := mkL [A] B ps [] []) in *. set (s4 := snd (new_scope (with_fd s3 true) KNormal [])) in *.
    set (exp4 := upd exp2 B ([] ++ [])) in *.
    unfold stk at 1. rewrite stackB_eq with (P := ps) (own := []) (Bn := []). fold lv.
    assert (I4 : Inv2 exp4 lv (l :: L') [] (acc :: accs) ex s4 (fun_frame ps [] [] :: finalize e) (tr ++ sem_exprs (lineno s1) e ds)).
    { constructor; auto. intros i Hi. rewrite Nx4. specialize (L3 i Hi). lia. }
    destruct (IHx Hbody _ _ _ _ _ _ _ _ _ I4) as (exp5 & X5 & I5 & Ln5 & Nx5 & Fd5).
    set (s5 := vexpr false x (stack_of (lv :: l :: L')) s4) in *.
    (* leaving *)
    assert (HS5 : SInv s5) by apply (st_sinv _ _ _ _ _ (i_st _ _ _ _ _ _ _ _ _ I5)).
    rewrite (pop_S s5) by exact HS5. rewrite pop_S by (apply SInv_with_fd; exact HS5).
    destruct (leave_level exp5 lv l L' accs acc ex s5 (i_st _ _ _ _ _ _ _ _ _ I5) (i_cx _ _ _ _ _ _ _ _ _ I5)) as (S6 & C6).
    assert (Efd : in_fd s3 = negb (Nat.eqb (length (l :: L')) 1)).
    { rewrite Fd3, Fd2, Fd1. apply (st_fd _ _ _ _ _ HS). }
    rewrite Efd.
    assert (Eln : lineno s4 = lineno s) by congruence.
    exists exp5. split.
    { intros i Hi. fold A in Hi. rewrite (X5 i), (Xe i), (X2 i), (X1 i) by lia. reflexivity. }
    split.
    { rewrite Ln1 in *. rewrite Eln in I5. rewrite app_assoc.
      constructor.
      - exact S6.
      - apply (i_ex _ _ _ _ _ _ _ _ _ HI).
      - intros i Hi. pose proof (i_exlt _ _ _ _ _ _ _ _ _ HI i Hi). cbn [next_id with_fd]. lia.
      - exact C6.
      - apply (i_env _ _ _ _ _ _ _ _ _ HI).
      - eapply TrI_same; [| |apply (i_tr _ _ _ _ _ _ _ _ _ I5)]; reflexivity. }
    split. cbn [lineno with_fd]. congruence. split. cbn [next_id with_fd]. lia.
    cbn [in_fd with_fd]. symmetry. apply (st_fd _ _ _ _ _ HS).
  - (* EComp *) cbn in Hs. discriminate.
Qed.

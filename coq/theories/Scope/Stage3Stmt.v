(* M7, stage 3 - statements and blocks of Fragment.s3_block: the statement-level simulation of Stage2Stmt.v with the
   stage-3 expression lemma (Stage3Proofs.expr_inv3).  The binding steps, import items, targets, headers and the
   postconditions are those of Stage2Stmt.v; the lemmas below are its fragment-specific ones, restated for s3. *)
From Coq Require Import NArith List Bool Arith Lia.
From Verif Require Import Scope.PySyntax Scope.Finder Scope.PySem Scope.Fragment Scope.AuxProofs Scope.FinderProofs
                          Scope.Stage2Base Scope.Stage2Inv Scope.Stage2Steps Scope.Stage2Proofs Scope.Stage2Stmt
                          Scope.Stage3Comp Scope.Stage3Proofs.
Import ListNotations.

Lemma expr_ln3 : forall x ln exp l L' acc accs ex s e tr, s3_expr x = true -> Inv2 exp l L' acc accs ex s e tr ->
  let s' := vexpr false x (stack_of (l :: L')) (with_ln s ln) in
  PostS exp l L' acc accs ex s e tr s' e (sem_expr ln e x) [] /\ lineno s' = ln.
Proof.
  intros x ln exp l L' acc accs ex s e tr Hx HI. cbv zeta.
  destruct (expr_inv3 x Hx _ _ _ _ _ _ _ _ _ (Inv2_with_ln _ _ _ _ _ _ _ _ _ ln HI)) as (exp' & X & I' & Ln & Nx & _).
  split; [|exact Ln]. exists exp'. rewrite app_nil_r. auto.
Qed.

Lemma expr_cur3 : forall x exp l L' acc accs ex s e tr, s3_expr x = true -> Inv2 exp l L' acc accs ex s e tr ->
  let s' := vexpr false x (stack_of (l :: L')) s in
  PostS exp l L' acc accs ex s e tr s' e (sem_expr (lineno s) e x) [] /\ lineno s' = lineno s.
Proof.
  intros x exp l L' acc accs ex s e tr Hx HI. cbv zeta.
  destruct (expr_inv3 x Hx _ _ _ _ _ _ _ _ _ HI) as (exp' & X & I' & Ln & Nx & _).
  split; [|exact Ln]. exists exp'. rewrite app_nil_r. auto.
Qed.

Lemma with_items_inv3 : forall ln items exp l L' acc accs ex s e tr r,
  Inv2 exp l L' acc accs ex s e tr -> lineno s = ln -> forallb s3_with_item items = true ->
  incl (flat_map wnames items) (l_B l) ->
  let s' := fold_left (with_item_step false (stack_of (l :: L'))) items s in
  exists e' r', fold_left (sem_with_step ln) items (e, r) = (e', r ++ r') /\
    PostS exp l L' acc accs ex s e tr s' e' r' (flat_map wnames items).
Proof.
  intros ln items. induction items as [|[x ot] items IH]; intros exp l L' acc accs ex s e tr r HI Hln Hs Hin;
    cbn [flat_map fold_left] in *.
  - exists e, []. rewrite app_nil_r. split. reflexivity. apply PostS_refl. exact HI.
  - cbn in Hs. apply andb_true_iff in Hs as [H12 H3]. unfold s3_with_item in H12. cbn [fst snd] in H12.
    apply andb_true_iff in H12 as [H1 H2].
    unfold with_item_step at 2. cbn [fst snd]. unfold sem_with_step at 2. cbn [fst snd].
    destruct (expr_cur3 x _ _ _ _ _ _ _ _ _ H1 HI) as (P1 & Ln1). cbv zeta in P1, Ln1. rewrite Hln in P1.
    change (wnames (x, ot)) with (match ot with Some t => target_names t | None => [] end) in *.
    destruct ot as [t|].
    + set (s1 := vexpr false x (stack_of (l :: L')) s) in *.
      assert (Hin1 : incl (target_names t) (l_B l)) by (intros y Hy; apply Hin; apply in_app_iff; auto).
      assert (Et : exec_target_env ln e t = (ebind_all (others (target_names t)) e, [])).
      { unfold exec_target_env. rewrite exec_target_s1 by exact H2. reflexivity. }
      rewrite Et.
      assert (P2 : PostS exp l L' acc accs ex s e tr (vtarget false t (stack_of (l :: L')) s1)
                         (ebind_all (others (target_names t)) e) (sem_expr ln e x ++ []) ([] ++ target_names t)).
      { eapply PostS_seq. exact P1. intros exp1 I1.
        destruct (target_inv t ln _ _ _ _ _ _ _ _ _ I1 H2 Hin1) as (_ & I2 & N2 & _). cbv zeta in I2, N2.
        apply PostS_bind; auto. }
      cbn [app] in P2.
      destruct P2 as (exp2 & X2 & I2 & N2).
      assert (Ln2 : lineno (vtarget false t (stack_of (l :: L')) s1) = ln).
      { destruct P1 as (expa & _ & Ia & _). rewrite app_nil_r in Ia.
        destruct (target_inv t ln _ _ _ _ _ _ _ _ _ Ia H2 Hin1) as (_ & _ & _ & Lnx). cbv zeta in Lnx. rewrite Lnx. rewrite Ln1. exact Hln. }
      destruct (IH _ _ _ _ _ _ _ _ _ (r ++ sem_expr ln e x ++ []) I2 Ln2 H3) as (e' & r' & E' & P').
      { intros y Hy. apply Hin. apply in_app_iff. auto. }
      exists e', ((sem_expr ln e x ++ []) ++ r'). rewrite E'. split. rewrite !app_assoc. reflexivity.
      eapply PostS_seq. exists exp2. split. exact X2. split. exact I2. exact N2. intros exp3 I3.
      destruct P' as (exp4 & X4 & I4 & N4).
      cbv zeta in I4.
      (* the continuation is independent of the expected map: re-run it from exp3 *)
      destruct (IH _ _ _ _ _ _ _ _ _ (r ++ sem_expr ln e x ++ []) I3 Ln2 H3) as (e'' & r'' & E'' & P'').
      { intros y Hy. apply Hin. apply in_app_iff. auto. }
      rewrite E' in E''. injection E'' as <- Er. apply app_inv_head in Er. subst r''. exact P''.
    + destruct P1 as (exp2 & X2 & I2 & N2). rewrite app_nil_r in I2.
      assert (Ln2 : lineno (vexpr false x (stack_of (l :: L')) s) = ln) by congruence.
      destruct (IH _ _ _ _ _ _ _ _ _ (r ++ sem_expr ln e x) I2 Ln2 H3 Hin) as (e' & r' & E' & P').
      exists e', (sem_expr ln e x ++ r'). rewrite E'. split. rewrite !app_assoc. reflexivity.
      change (flat_map wnames items) with ([] ++ flat_map wnames items).
      eapply PostS_seq. exists exp2. split. exact X2. rewrite app_nil_r. split. exact I2. exact N2. intros exp3 I3.
      rewrite app_nil_r in I3 |- *.
      destruct (IH _ _ _ _ _ _ _ _ _ (r ++ sem_expr ln e x) I3 Ln2 H3 Hin) as (e'' & r'' & E'' & P'').
      rewrite E' in E''. injection E'' as <- Er. apply app_inv_head in Er. subst r''. exact P''.
Qed.

Lemma decos_inv3 : forall decos exp l L' acc accs ex s e tr,
  Inv2 exp l L' acc accs ex s e tr -> forallb (fun d : nat * expr => s3_expr (snd d)) decos = true ->
  PostS exp l L' acc accs ex s e tr (vdecos false decos (stack_of (l :: L')) s) e (sem_decos e decos) [].
Proof.
  induction decos as [|[dl d] decos IH]; intros exp l L' acc accs ex s e tr HI Hs.
  - apply PostS_refl. exact HI.
  - cbn in Hs. apply andb_true_iff in Hs as [H1 H2]. unfold vdecos, sem_decos. cbn [fold_left flat_map fst snd].
    change (@nil name) with (@nil name ++ []).
    eapply PostS_seq. apply (expr_ln3 d dl); eauto. intros exp1 I1. apply IH; auto.
Qed.

Lemma s3_param_list : forall l, forallb s3_param l = true ->
  forallb s3_expr (param_anns l) = true /\ Forall (fun n => n <> n_star) (param_names l).
Proof.
  induction l as [|[n o] l IH]; cbn; intro H. split; [reflexivity|constructor].
  apply andb_true_iff in H as [H1 H2]. unfold s3_param in H1. cbn [fst snd] in H1. apply andb_true_iff in H1 as [Ha Hb].
  destruct (IH H2) as [I1 I2]. split.
  - destruct o; cbn in *; auto. rewrite Hb. exact I1.
  - constructor; auto. apply not_star_neq. exact Ha.
Qed.

Lemma s3_oparam_one : forall o, s3_oparam o = true ->
  forallb s3_expr (oparam_ann o) = true /\ Forall (fun n => n <> n_star) (oparam_names o).
Proof.
  intros [[n o]|]; cbn; intro H. 2: split; [reflexivity|constructor].
  unfold s3_param in H. cbn [fst snd] in H. apply andb_true_iff in H as [Ha Hb]. split.
  - destruct o; cbn in *; auto. rewrite Hb. reflexivity.
  - constructor; [|constructor]. apply not_star_neq. exact Ha.
Qed.

Lemma s3_optl : forall l, forallb s3_oexpr l = true -> forallb s3_expr (optl l) = true.
Proof.
  induction l as [|[x|] l IH]; cbn; intro H; auto. apply andb_true_iff in H as [H1 H2]. rewrite H1. cbn. auto.
Qed.

Lemma s3_params_facts : forall p, s3_params p = true ->
  forallb s3_expr (hdr_finder p) = true /\ Forall (fun n => n <> n_star) (pnames_finder p).
Proof.
  intros p H. unfold s3_params in H.
  apply andb_true_iff in H as [H Hkd]. apply andb_true_iff in H as [H Hd]. apply andb_true_iff in H as [H Hkw].
  apply andb_true_iff in H as [H Hko]. apply andb_true_iff in H as [H Hva]. apply andb_true_iff in H as [Hpo Har].
  destruct (s3_param_list _ Hpo) as [A1 B1]. destruct (s3_param_list _ Har) as [A2 B2].
  destruct (s3_param_list _ Hko) as [A3 B3]. destruct (s3_oparam_one _ Hva) as [A4 B4]. destruct (s3_oparam_one _ Hkw) as [A5 B5].
  split.
  - unfold hdr_finder, annotations_of. rewrite !forallb_app.
    fold (param_anns (p_posonly p)) (param_anns (p_args p)) (param_anns (p_kwonly p)).
    fold (oparam_ann (p_vararg p)) (oparam_ann (p_kwarg p)).
    rewrite Hd, (s3_optl _ Hkd), A1, A2, A3, A4, A5. reflexivity.
  - unfold pnames_finder. repeat (apply Forall_app; split); auto.
Qed.

Lemma s3_blk_fix : forall l,
  (fix blk (l : list stmt) : bool := match l with [] => true | y :: r => s3_stmt y && blk r end) l = s3_block l.
Proof. reflexivity. Qed.

Lemma s3_bsrcs_block_all : forall l, Forall (fun x => s3_stmt x = true -> bsrcs true x = bsrcs false x) l ->
  s3_block l = true -> bsrcs_block true l = bsrcs_block false l.
Proof.
  induction l as [|x l IH]; intros HF Hs. reflexivity.
  inversion HF as [|? ? Hx HF']; subst. cbn in Hs. apply andb_true_iff in Hs as [H1 H2].
  unfold bsrcs_block in *. cbn [flat_map]. rewrite (Hx H1), (IH HF' H2). reflexivity.
Qed.

Lemma s3_bsrcs_all : forall x, s3_stmt x = true -> bsrcs true x = bsrcs false x.
Proof.
  induction x using stmt_ind'; intro Hs; try reflexivity; try discriminate.
  - (* SFor *) cbn [s3_stmt] in Hs. rewrite !s3_blk_fix in Hs.
    apply andb_true_iff in Hs as [H123 H4]. apply andb_true_iff in H123 as [H12 H3].
    cbn [bsrcs]. rewrite !bsrcs_blk_fix. rewrite (s3_bsrcs_block_all b H H3), (s3_bsrcs_block_all o H0 H4). reflexivity.
  - (* SWhile *) cbn [s3_stmt] in Hs. rewrite !s3_blk_fix in Hs.
    apply andb_true_iff in Hs as [H12 H3]. apply andb_true_iff in H12 as [H1 H2]. apply is_nil_true in H3. subst o.
    cbn [bsrcs]. rewrite !bsrcs_blk_fix. rewrite (s3_bsrcs_block_all b H H2). reflexivity.
  - (* SIf *) cbn [s3_stmt] in Hs. rewrite !s3_blk_fix in Hs.
    apply andb_true_iff in Hs as [H12 H3]. apply andb_true_iff in H12 as [H1 H2]. apply is_nil_true in H3. subst o.
    cbn [bsrcs]. rewrite !bsrcs_blk_fix. rewrite (s3_bsrcs_block_all b H H2). reflexivity.
  - (* SWith *) cbn [s3_stmt] in Hs. rewrite !s3_blk_fix in Hs. apply andb_true_iff in Hs as [H1 H2].
    cbn [bsrcs]. rewrite !bsrcs_blk_fix. rewrite (s3_bsrcs_block_all b H H2). reflexivity.
  - (* STry *) cbn [s3_stmt] in Hs. rewrite !s3_blk_fix in Hs.
    apply andb_true_iff in Hs as [Habc Hd]. apply andb_true_iff in Habc as [Hab Hc]. apply andb_true_iff in Hab as [Ha Hb].
    apply is_nil_true in Hb. subst hs.
    cbn [bsrcs]. rewrite !bsrcs_blk_fix.
    rewrite (s3_bsrcs_block_all b H Ha), (s3_bsrcs_block_all o H1 Hc), (s3_bsrcs_block_all f H2 Hd). reflexivity.
Qed.

Lemma s3_binds_all : forall l, s3_block l = true -> binds_block true l = binds_block false l.
Proof.
  intros l H. unfold binds_block. f_equal. apply s3_bsrcs_block_all; auto.
  apply Forall_forall. intros x _. apply s3_bsrcs_all.
Qed.

Definition PS3 (x : stmt) : Prop := s3_stmt x = true ->
  forall exp l L' acc accs ex s e tr, Inv2 exp l L' acc accs ex s e tr -> incl (NS x) (l_B l) ->
  forall e' rds, sem_stmt e x = (e', rds) ->
  PostS exp l L' acc accs ex s e tr (vstmt false x (stack_of (l :: L')) s) e' rds (NS x).

Definition PB3 (b : list stmt) : Prop := s3_block b = true ->
  forall exp l L' acc accs ex s e tr, Inv2 exp l L' acc accs ex s e tr -> incl (binds_block false b) (l_B l) ->
  forall e' rds, sem_block b e = (e', rds) ->
  PostS exp l L' acc accs ex s e tr (vblock false b (stack_of (l :: L')) s) e' rds (binds_block false b).

Lemma block_inv3 : forall b, Forall PS3 b -> PB3 b.
Proof.
  induction b as [|x b IH]; intros HF Hs exp l L' acc accs ex s e tr HI Hin e' rds E.
  - cbn in E. injection E as <- <-. apply PostS_refl. exact HI.
  - inversion HF as [|? ? Hx HF']; subst. cbn in Hs. apply andb_true_iff in Hs as [H1 H2].
    cbn [sem_block] in E. destruct (sem_stmt e x) as [e1 r1] eqn:E1. destruct (sem_block b e1) as [e2 r2] eqn:E2.
    injection E as <- <-.
    unfold binds_block, bsrcs_block in *. cbn [flat_map] in *. rewrite map_app in *. fold (NS x) in *.
    unfold vblock. cbn [fold_left]. eapply PostS_seq.
    + apply (Hx H1 _ _ _ _ _ _ _ _ _ HI). intros y Hy. apply Hin. apply in_app_iff. auto. exact E1.
    + intros exp1 I1. apply (IH HF' H2 _ _ _ _ _ _ _ _ _ I1). intros y Hy. apply Hin. apply in_app_iff. auto. exact E2.
Qed.

Lemma all_PE3 : forall es, Forall PE3 es.
Proof. intro es. apply Forall_forall. intros x _. apply expr_inv3. Qed.

Lemma def_inv3 : forall ln nm decos ps ret body, PB3 body -> PS3 (SDef ln nm decos ps ret body).
Proof.
  intros ln nm decos ps ret body IHb Hs exp l L' acc accs ex s e tr HI Hin e' rds Esem.
  cbn [s3_stmt] in Hs. rewrite s3_blk_fix in Hs.
  apply andb_true_iff in Hs as [Hs Hbody]. apply andb_true_iff in Hs as [Hs Hret].
  apply andb_true_iff in Hs as [Hs Hps]. apply andb_true_iff in Hs as [Hnm Hdecos].
  apply not_star_neq in Hnm.
  destruct (s3_params_facts ps Hps) as [Hhdr Hpn].
  rewrite sem_stmt_def in Esem. cbv zeta in Esem.
  destruct (sem_block body (fun_frame (params_names ps) (bsrcs_block false body) (binds_block true body) :: finalize e))
    as [eb r1] eqn:Eb. injection Esem as <- <-.
  unfold NS in *. cbn [bsrcs map fst] in *.
  rewrite vstmt_def_eq. cbv zeta.
  set (stk := stack_of (l :: L')).
  (* decorators *)
  destruct (decos_inv3 decos _ _ _ _ _ _ _ _ _ (Inv2_with_ln _ _ _ _ _ _ _ _ _ ln HI) Hdecos) as (exp0 & X0 & I0 & N0).
  fold stk in I0, N0. rewrite app_nil_r in I0. set (s0 := vdecos false decos stk (with_ln s ln)) in *.
  change (next_id (with_ln s ln)) with (next_id s) in X0, N0.
  pose proof (st_sinv _ _ _ _ _ (i_st _ _ _ _ _ _ _ _ _ I0)) as HS0.
  rewrite push_S by exact HS0. set (A := next_id s0). set (s1 := snd (new_scope s0 KNormal [])).
  cbv beta iota zeta. rewrite removelast_snoc.
  set (P := params_names ps).
  destruct (open_scope exp0 l L' acc accs ex s0 e _ P I0) as (I1 & Nx1 & Ln1 & Fd1 & Hempty & X1 & HAoff & HAd).
  fold A in I1, Nx1, X1, HAoff, HAd. fold s1 in I1, Nx1, Ln1, Fd1. fold stk in HAoff.
  assert (Hcd1 : in_cd s1 = 0) by apply (sv_cd _ (st_sinv _ _ _ _ _ (i_st _ _ _ _ _ _ _ _ _ I1))).
  rewrite Hcd1. change (Nat.ltb 0 0) with false. cbv iota.
  (* header expressions, in the enclosing scope *)
  rewrite varguments_eq, removelast_snoc.
  destruct (exprs_inv3 (hdr_finder ps) (all_PE3 _) Hhdr _ _ _ _ _ _ _ _ _ (Inv2_with_ln _ _ _ _ _ _ _ _ _ ln I1))
    as (exp2 & X2 & I2 & Ln2 & Nx2 & Fd2).
  fold stk in I2, Ln2, Nx2, Fd2. set (s2 := vexpr_list false (hdr_finder ps) stk (with_ln s1 ln)) in *.
  change (next_id (with_ln s1 ln)) with (next_id s1) in X2, Nx2.
  change (lineno (with_ln s1 ln)) with ln in Ln2, I2.
  (* parameters *)
  assert (HexpA : forall y, In y (exp2 A) <-> In y (pnames_finder ps)).
  { intro y. rewrite X2 by lia. unfold upd. rewrite Nat.eqb_refl. symmetry. apply pnames_perm. }
  destruct (params_close exp2 l L' acc accs ex s2 _ _ A stk (pnames_finder ps) I2) as (I3 & Ln3 & Nx3 & Fd3); auto; try lia.
  fold stk. set (s3 := fold_left (fun s p => store false s (stk ++ [A]) [p] Plain) (pnames_finder ps) s2) in *.
  (* the return annotation *)
  assert (Pret : Post exp2 l L' acc accs ex s3 e ((tr ++ sem_decos e decos) ++ sem_exprs ln e (hdr_finder ps)) (voexpr false ret stk s3) (sem_oexpr (lineno s3) e ret)).
  { destruct ret as [r|]; cbn [voexpr sem_oexpr s3_oexpr] in *. apply expr_inv3; auto. apply Post_refl; auto. }
  destruct Pret as (exp4 & X4 & I4 & Ln4 & Nx4 & Fd4). set (s4 := voexpr false ret stk s3) in *.
  rewrite Ln3, Ln2 in I4.
  (* the body scope *)
  destruct I4 as [S4 X4' L4 C4 E4 T4].
  assert (HS4 : SInv (with_fd s4 true)) by (apply SInv_with_fd; apply (st_sinv _ _ _ _ _ S4)).
  rewrite push_S by exact HS4. cbv beta iota zeta. change (next_id (with_fd s4 true)) with (next_id s4).
  set (B := next_id s4). set (s6 := snd (new_scope (with_fd s4 true) KNormal [])).
  assert (Hcd6 : in_cd s6 = 0). { apply sv_cd. apply StI_with_fd_new. apply (st_sinv _ _ _ _ _ S4). }
  rewrite Hcd6. change (Nat.eqb 0 0) with true. cbv iota. rewrite (store_false s6), !top_snoc.
  set (Bn := binds_block false body).
  set (F := fun_frame P (bsrcs_block false body) (binds_block true body)) in *.
  destruct (fun_frame_ok A B P [nm] (bsrcs_block false body) (binds_block true body)) as (HFk & HFs & HFd).
  { intro y. rewrite (s3_binds_all body Hbody). reflexivity. }
  fold F in HFk, HFs, HFd. change (map fst (bsrcs_block false body)) with Bn in HFs.
  assert (HAex : ~ In A ex). { intro Hi. pose proof (i_exlt _ _ _ _ _ _ _ _ _ I0 A Hi) as Hlt. unfold A in Hlt. lia. }
  assert (HexpA4 : forall y, In y (exp4 A) <-> In y P).
  { intro y. rewrite X4 by lia. rewrite X2 by lia. unfold upd. rewrite Nat.eqb_refl. reflexivity. }
  destruct (enter_level exp4 l L' acc accs ex s4 e _ A P [nm] Bn F S4 X4' C4 E4 T4 L4)
    as (S7 & X7 & C7 & E7 & T7 & Xe & Ln7 & Nx7); auto; try lia.
  { right. exists nm. auto. }
  cbv zeta in S7, X7, C7, E7, T7, Xe, Ln7, Nx7. cbv iota in S7, T7, Ln7, Nx7.
  fold B s6 in S7, X7, C7, E7, T7, Xe, Ln7, Nx7.
  set (lv := mkL [A] B P [nm] Bn) in *. set (s7 := set_in_scope s6 B [nm] Plain) in *.
  set (exp7 := upd exp4 B ([nm] ++ Bn)) in *.
  unfold stk at 1. rewrite stackB_eq with (P := P) (own := [nm]) (Bn := Bn). fold lv.
  assert (I7 : Inv2 exp7 lv (l :: L') [] (acc :: accs) ex s7 (F :: finalize e)
                    (((tr ++ sem_decos e decos) ++ sem_exprs ln e (hdr_finder ps)) ++ sem_oexpr ln e ret)).
  { constructor; auto. intros i Hi. rewrite Nx7. specialize (L4 i Hi). lia. }
  destruct (IHb Hbody _ _ _ _ _ _ _ _ _ I7 (incl_refl _) _ _ Eb) as (exp8 & X8 & I8 & N8).
  cbn [app] in I8. set (s8 := vblock false body (stack_of (lv :: l :: L')) s7) in *.
  (* leaving *)
  assert (HS8 : SInv s8) by apply (st_sinv _ _ _ _ _ (i_st _ _ _ _ _ _ _ _ _ I8)).
  rewrite (pop_S s8) by exact HS8. rewrite pop_S by (apply SInv_with_fd; exact HS8).
  destruct (leave_level exp8 lv l L' accs acc ex s8 (i_st _ _ _ _ _ _ _ _ _ I8) (i_cx _ _ _ _ _ _ _ _ _ I8)) as (S9 & C9).
  rewrite (st_fd _ _ _ _ _ S4).
  set (s9 := with_fd s8 (negb (Nat.eqb (length (l :: L')) 1))) in *.
  assert (I9 : Inv2 exp8 l L' acc accs ex s9 e
                 ((((tr ++ sem_decos e decos) ++ sem_exprs ln e (hdr_finder ps)) ++ sem_oexpr ln e ret) ++ r1)).
  { constructor.
    - exact S9.
    - apply (i_ex _ _ _ _ _ _ _ _ _ HI).
    - intros i Hi. pose proof (i_exlt _ _ _ _ _ _ _ _ _ HI i Hi). change (next_id s9) with (next_id s8). lia.
    - exact C9.
    - apply (i_env _ _ _ _ _ _ _ _ _ HI).
    - eapply TrI_same; [| |apply (i_tr _ _ _ _ _ _ _ _ _ I8)]; reflexivity. }
  destruct (store_name_inv _ _ _ _ _ _ _ _ _ nm BOther I9 Hnm (Hin nm (or_introl eq_refl))) as (I10 & N10 & _).
  cbv zeta in I10, N10. fold stk in I10, N10.
  exists exp8. split.
  { intros i Hi. rewrite (X8 i), (Xe i), (X4 i), (X2 i), (X1 i), (X0 i) by lia. reflexivity. }
  split; [|change (next_id s9) with (next_id s8) in N10; lia].
  eapply Inv2_perm; [|exact I10].
  intro x. pose proof (sem_exprs_perm ln e _ _ (hdr_perm ps ret) x) as Hp.
  rewrite sem_exprs_app, in_app_iff in Hp. rewrite sem_oexpr_eq. rewrite !in_app_iff. tauto.
Qed.

Lemma stmt_inv3 : forall x, PS3 x.
Proof.
  induction x using stmt_ind'; try (intros Hs; discriminate); try rename e into e0; try rename ex into exs;
    intros Hs exp l L' acc accs ex s e tr HI Hin e' rds Esem; unfold NS in *.
  - (* SExpr *)
    cbn in Esem. injection Esem as <- <-. cbn [s3_stmt vstmt bsrcs map] in *.
    apply (expr_ln3 e0 ln); auto.
  - (* SAssign *)
    cbn [s3_stmt] in Hs. apply andb_true_iff in Hs as [H1 H2].
    rewrite sem_stmt_assign in Esem. cbv zeta in Esem. cbn [vstmt bsrcs] in *. rewrite tgo_eq, map_fst_others in *.
    destruct (expr_ln3 v ln _ _ _ _ _ _ _ _ _ H1 HI) as (P1 & Ln1). cbv zeta in P1, Ln1.
    assert (Et : fold_left (sem_target_step ln) ts (e, []) = (ebind_all (others (flat_map target_names ts)) e, [])).
    { destruct P1 as (expa & _ & Ia & _). rewrite app_nil_r in Ia.
      destruct (targets_inv ln ts _ _ _ _ _ _ _ _ _ [] Ia H2 Hin) as (E & _). exact E. }
    rewrite Et in Esem. injection Esem as <- <-. rewrite app_nil_r.
    change (flat_map target_names ts) with ([] ++ flat_map target_names ts) at 2.
    eapply PostS_then_bind. exact P1. intros exp1 I1.
    destruct (targets_inv ln ts _ _ _ _ _ _ _ _ _ [] I1 H2) as (_ & I2 & N2 & _).
    { exact Hin. }
    cbv zeta in I2, N2. split. exact I2. exact N2.
  - (* SAugAssign *)
    cbn [s3_stmt] in Hs. apply andb_true_iff in Hs as [H12 H3]. apply andb_true_iff in H12 as [H1 H2].
    apply is_nil_true in H1. subst a. apply not_star_neq in H2.
    cbn in Esem. injection Esem as <- <-. cbn [vstmt bsrcs map fst] in *.
    change [n] with ([] ++ [n]).
    change ((ln, n, resolve n e) :: sem_expr ln e v) with ([(ln, n, resolve n e)] ++ sem_expr ln e v).
    eapply PostS_then_bind.
    2:{ intros exp2 I2.
        destruct (store_name_inv _ _ _ _ _ _ _ _ _ n BOther I2 H2 (Hin n (or_introl eq_refl))) as (I3 & N3 & _).
        cbv zeta in I3, N3. split. exact I3. exact N3. }
    change (@nil name) with (@nil name ++ []).
    eapply PostS_seq.
    { destruct (load_inv _ _ _ _ _ _ _ _ _ n [] (Inv2_with_ln _ _ _ _ _ _ _ _ _ ln HI)) as (exp1 & X1 & I1 & Ln1 & N1 & _).
      cbv zeta in I1, Ln1, N1. exists exp1. rewrite app_nil_r. split. exact X1. split. exact I1. exact N1. }
    intros exp1 I1.
    assert (Ln1 : lineno (load (with_ln s ln) (stack_of (l :: L')) [n]) = ln).
    { destruct (load_inv _ _ _ _ _ _ _ _ _ n [] (Inv2_with_ln _ _ _ _ _ _ _ _ _ ln HI)) as (? & _ & _ & Lnx & _). exact Lnx. }
    destruct (expr_cur3 v _ _ _ _ _ _ _ _ _ H3 I1) as (P2 & _). cbv zeta in P2. rewrite Ln1 in P2. exact P2.
  - (* SImport *)
    cbn [s3_stmt] in Hs. cbn in Esem. injection Esem as <- <-. cbn [vstmt bsrcs] in *.
    destruct (import_items_inv ln items _ _ _ _ _ _ _ _ _ (Inv2_with_ln _ _ _ _ _ _ _ _ _ ln HI) Hs Hin) as (I1 & N1).
    cbv zeta in I1, N1. apply PostS_bind; auto.
  - (* SImportFrom *)
    cbn [s3_stmt] in Hs. cbn in Esem. injection Esem as <- <-. cbn [vstmt bsrcs] in *.
    destruct (from_items_inv ln m items _ _ _ _ _ _ _ _ _ (Inv2_with_ln _ _ _ _ _ _ _ _ _ ln HI) Hs Hin) as (I1 & N1).
    cbv zeta in I1, N1. apply PostS_bind; auto.
  - (* SDef *)
    apply (def_inv3 ln nm decos ps ret body (block_inv3 body H) Hs _ _ _ _ _ _ _ _ _ HI Hin _ _ Esem).
  - (* SFor *)
    cbn [s3_stmt] in Hs. rewrite !s3_blk_fix in Hs.
    apply andb_true_iff in Hs as [H123 H4]. apply andb_true_iff in H123 as [H12 H3]. apply andb_true_iff in H12 as [H1 H2].
    rewrite vstmt_for. rewrite sem_stmt_for in Esem. cbv zeta in Esem.
    cbn [bsrcs] in *. rewrite !bsrcs_blk_fix in *. rewrite !map_app, map_fst_others in *.
    fold (binds_block false b) (binds_block false o) in *.
    assert (Et : exec_target_env ln e t = (ebind_all (others (target_names t)) e, [])).
    { unfold exec_target_env. rewrite exec_target_s1 by exact H1. reflexivity. }
    rewrite Et in Esem.
    destruct (sem_block b (ebind_all (others (target_names t)) e)) as [e2 r2] eqn:E2.
    destruct (sem_block o e2) as [e3 r3] eqn:E3. injection Esem as <- <-.
    change (target_names t ++ binds_block false b ++ binds_block false o)
      with (([] ++ target_names t) ++ binds_block false b ++ binds_block false o).
    eapply PostS_seq.
    { eapply PostS_then_bind. apply (expr_ln3 it ln); eauto. intros exp1 I1.
      destruct (target_inv t ln _ _ _ _ _ _ _ _ _ I1 H1) as (_ & I2 & N2 & _).
      { exact (NS_incl_l _ _ _ Hin). }
      cbv zeta in I2, N2. split. exact I2. exact N2. }
    intros exp2 I2.
    eapply PostS_seq.
    { apply (block_inv3 b H H3 _ _ _ _ _ _ _ _ _ I2 (NS_incl_l _ _ _ (NS_incl_r _ _ _ Hin)) _ _ E2). }
    intros exp3 I3.
    apply (block_inv3 o H0 H4 _ _ _ _ _ _ _ _ _ I3 (NS_incl_r _ _ _ (NS_incl_r _ _ _ Hin)) _ _ E3).
  - (* SWhile *)
    cbn [s3_stmt] in Hs. rewrite !s3_blk_fix in Hs.
    apply andb_true_iff in Hs as [H12 H3]. apply andb_true_iff in H12 as [H1 H2]. apply is_nil_true in H3. subst o.
    rewrite vstmt_while. rewrite sem_stmt_while in Esem. cbv zeta in Esem.
    cbn [bsrcs] in *. rewrite !bsrcs_blk_fix in *. rewrite app_nil_r in *. fold (binds_block false b) in *.
    destruct (sem_block b e) as [e2 r2] eqn:E2. injection Esem as <- <-.
    change (binds_block false b) with ([] ++ binds_block false b). unfold vblock at 1. cbn [fold_left].
    eapply PostS_seq. apply (expr_ln3 t ln); eauto. intros exp1 I1.
    apply (block_inv3 b H H2 _ _ _ _ _ _ _ _ _ I1 Hin _ _ E2).
  - (* SIf *)
    cbn [s3_stmt] in Hs. rewrite !s3_blk_fix in Hs.
    apply andb_true_iff in Hs as [H12 H3]. apply andb_true_iff in H12 as [H1 H2]. apply is_nil_true in H3. subst o.
    rewrite vstmt_if. rewrite sem_stmt_if in Esem. cbv zeta in Esem.
    cbn [bsrcs] in *. rewrite !bsrcs_blk_fix in *. rewrite app_nil_r in *. fold (binds_block false b) in *.
    destruct (sem_block b e) as [e2 r2] eqn:E2. injection Esem as <- <-.
    change (binds_block false b) with ([] ++ binds_block false b). unfold vblock at 1. cbn [fold_left].
    eapply PostS_seq. apply (expr_ln3 t ln); eauto. intros exp1 I1.
    apply (block_inv3 b H H2 _ _ _ _ _ _ _ _ _ I1 Hin _ _ E2).
  - (* SWith *)
    cbn [s3_stmt] in Hs. rewrite !s3_blk_fix in Hs. apply andb_true_iff in Hs as [H1 H2].
    rewrite vstmt_with. rewrite sem_stmt_with in Esem.
    cbn [bsrcs] in *. rewrite !bsrcs_blk_fix in *. rewrite map_app, map_fst_others in *. fold (binds_block false b) in *.
    change (flat_map (fun it : expr * option target => match snd it with Some t => target_names t | None => [] end) items)
      with (flat_map wnames items) in *.
    destruct (with_items_inv3 ln items _ _ _ _ _ _ _ _ _ [] (Inv2_with_ln _ _ _ _ _ _ _ _ _ ln HI) eq_refl H1 (NS_incl_l _ _ _ Hin))
      as (e1 & r1 & E1 & P1).
    cbv zeta in P1. rewrite E1 in Esem. cbn [app] in Esem.
    destruct (sem_block b e1) as [e2 r2] eqn:E2. injection Esem as <- <-.
    eapply PostS_seq.
    { destruct P1 as (exp1 & X1 & I1 & N1). exists exp1. split. exact X1. split. exact I1. exact N1. }
    intros exp1 I1. apply (block_inv3 b H H2 _ _ _ _ _ _ _ _ _ I1 (NS_incl_r _ _ _ Hin) _ _ E2).
  - (* STry *)
    cbn [s3_stmt] in Hs. rewrite !s3_blk_fix in Hs.
    apply andb_true_iff in Hs as [Habc Hd]. apply andb_true_iff in Habc as [Hab Hc]. apply andb_true_iff in Hab as [Ha Hb].
    apply is_nil_true in Hb. subst hs.
    rewrite vstmt_try_nohandler. rewrite sem_stmt_try in Esem.
    cbn [bsrcs] in *. rewrite !bsrcs_blk_fix in *. cbn [app] in *. rewrite !map_app in *.
    fold (binds_block false b) (binds_block false o) (binds_block false f) in *.
    destruct (sem_block b e) as [e1 r1] eqn:E1. destruct (sem_block o e1) as [e2 r2] eqn:E2.
    destruct (sem_block f e2) as [e3 r3] eqn:E3. injection Esem as <- <-.
    eapply PostS_seq.
    { destruct (block_inv3 b H Ha _ _ _ _ _ _ _ _ _ (Inv2_with_ln _ _ _ _ _ _ _ _ _ ln HI) (NS_incl_l _ _ _ Hin) _ _ E1)
        as (exp1 & X1 & I1 & N1). exists exp1. split. exact X1. split. exact I1. exact N1. }
    intros exp1 I1. eapply PostS_seq.
    { apply (block_inv3 o H1 Hc _ _ _ _ _ _ _ _ _ I1 (NS_incl_l _ _ _ (NS_incl_r _ _ _ Hin)) _ _ E2). }
    intros exp2 I2.
    apply (block_inv3 f H2 Hd _ _ _ _ _ _ _ _ _ I2 (NS_incl_r _ _ _ (NS_incl_r _ _ _ Hin)) _ _ E3).
  - (* SPass *)
    cbn in Esem. injection Esem as <- <-. cbn [vstmt bsrcs map].
    destruct (PostS_refl _ _ _ _ _ _ _ _ _ (Inv2_with_ln _ _ _ _ _ _ _ _ _ ln HI)) as (exp1 & X1 & I1 & N1).
    exists exp1. split. exact X1. split. exact I1. exact N1.
  - (* SDoc: a plain string statement *)
    cbn in Esem. injection Esem as <- <-. cbn [vstmt bsrcs map].
    destruct (PostS_refl _ _ _ _ _ _ _ _ _ (Inv2_with_ln _ _ _ _ _ _ _ _ _ ln HI)) as (exp1 & X1 & I1 & N1).
    exists exp1. split. exact X1. split. exact I1. exact N1.
Qed.

(* M7, stage 2 - the simulation for statements and blocks of Fragment.s2_block. *)
From Coq Require Import NArith List Bool Arith Lia.
From Verif Require Import Scope.PySyntax Scope.Finder Scope.PySem Scope.Fragment Scope.AuxProofs Scope.FinderProofs
                          Scope.Stage2Base Scope.Stage2Inv Scope.Stage2Steps Scope.Stage2Proofs.
Import ListNotations.

(* ---------- binding names in the innermost frame ---------- *)
Definition ebind (n : name) (b : bsrc) (e : env) : env := with_head e (bind n b (head e)).
Definition ebind_all (l : list (name * bsrc)) (e : env) : env := with_head e (bind_all l (head e)).

Lemma with_head_twice : forall e f g, with_head (with_head e f) g = with_head e g.
Proof. intros e f g; destruct e; reflexivity. Qed.
Lemma head_with_head : forall e f, head (with_head e f) = f.
Proof. intros e f; destruct e; reflexivity. Qed.
Lemma ebind_all_cons : forall x b l e, ebind_all ((x, b) :: l) e = ebind_all l (ebind x b e).
Proof. intros. unfold ebind_all, ebind. rewrite with_head_twice, head_with_head. reflexivity. Qed.
Lemma ebind_all_app : forall a b e, ebind_all (a ++ b) e = ebind_all b (ebind_all a e).
Proof. intros. unfold ebind_all. rewrite with_head_twice, head_with_head, bind_all_app. reflexivity. Qed.
Lemma ebind_all_nil : forall e, e <> [] -> ebind_all [] e = e.
Proof. intros e H. destruct e. contradiction. reflexivity. Qed.
Lemma ebind_all_one : forall x b e, ebind_all [(x, b)] e = ebind x b e.
Proof. reflexivity. Qed.

Lemma EnvI_nonempty : forall L e eaccs, EnvI L e eaccs -> e <> [].
Proof. intros L e eaccs H E. subst e. destruct L as [|l [|? ?]]; cbn in H; auto; destruct eaccs; auto. Qed.

Lemma Inv2_nonempty : forall exp l L' acc accs ex s e tr, Inv2 exp l L' acc accs ex s e tr -> e <> [].
Proof. intros. eapply EnvI_nonempty. apply (i_env _ _ _ _ _ _ _ _ _ H). Qed.

Lemma Inv2_fd : forall exp l L' acc accs ex s e tr, Inv2 exp l L' acc accs ex s e tr ->
  in_fd s = negb (Nat.eqb (length (l :: L')) 1).
Proof. intros. apply (st_fd _ _ _ _ _ (i_st _ _ _ _ _ _ _ _ _ H)). Qed.

(* a store of a plain name at the innermost level *)
Lemma store_name_inv : forall exp l L' acc accs ex s e tr n b,
  Inv2 exp l L' acc accs ex s e tr -> n <> n_star -> In n (l_B l) ->
  let s' := store false s (stack_of (l :: L')) [n] Plain in
  Inv2 exp l L' (acc ++ [n]) accs ex s' (ebind n b e) tr /\ next_id s' = next_id s /\ lineno s' = lineno s /\
  has s' (l_b l) n = true.
Proof.
  intros exp l L' acc accs ex s e tr n b [HS HX HL HC HE HT] Hn Hin. cbv zeta.
  destruct (store_key_step exp l L' acc accs ex s n [] [n] HS HC) as (S1 & Em & Ed & El & Enx & Hh).
  { left. auto. }
  cbv zeta in S1, Em, Ed, El, Enx, Hh. split; [|auto].
  constructor; auto.
  - intros i Hi. rewrite Enx. auto.
  - apply EnvI_bind; auto.
  - eapply TrI_same; eauto.
Qed.

(* a store of a dotted key whose root is already bound at the innermost level *)
Lemma store_sub_inv : forall exp l L' acc accs ex s e tr r q,
  Inv2 exp l L' acc accs ex s e tr -> has s (l_b l) r = true ->
  let s' := store false s (stack_of (l :: L')) (r :: q) Plain in
  Inv2 exp l L' acc accs ex s' e tr /\ next_id s' = next_id s /\ lineno s' = lineno s /\ has s' (l_b l) r = true.
Proof.
  intros exp l L' acc accs ex s e tr r q [HS HX HL HC HE HT] Hh0. cbv zeta.
  destruct (store_key_step exp l L' acc accs ex s r q [] HS HC) as (S1 & Em & Ed & El & Enx & Hh).
  { right. auto. }
  cbv zeta in S1, Em, Ed, El, Enx, Hh. rewrite app_nil_r in S1. split; [|auto].
  constructor; auto.
  - intros i Hi. rewrite Enx. auto.
  - eapply TrI_same; eauto.
Qed.

Lemma store_subs_inv : forall r ks exp l L' acc accs ex s e tr,
  Inv2 exp l L' acc accs ex s e tr -> has s (l_b l) r = true -> (forall k, In k ks -> exists q, k = r :: q) ->
  let s' := fold_left (fun s k => store false s (stack_of (l :: L')) k Plain) ks s in
  Inv2 exp l L' acc accs ex s' e tr /\ next_id s' = next_id s /\ lineno s' = lineno s /\ has s' (l_b l) r = true.
Proof.
  intros r ks. induction ks as [|k ks IH]; intros exp l L' acc accs ex s e tr HI Hh Hk; cbn [fold_left]. auto.
  destruct (Hk k (or_introl eq_refl)) as (q & ->).
  destruct (store_sub_inv _ _ _ _ _ _ _ _ _ r q HI Hh) as (I1 & E1 & E2 & H1). cbv zeta in I1, E1, E2, H1.
  destruct (IH _ _ _ _ _ _ _ _ _ I1 H1) as (I2 & E3 & E4 & H2). intros k Hkk. apply Hk. right. exact Hkk.
  cbv zeta in I2, E3, E4, H2. split. exact I2. split. congruence. split. congruence. exact H2.
Qed.

(* a list of plain-name bindings *)
Lemma binds_inv : forall bs exp l L' acc accs ex s e tr,
  Inv2 exp l L' acc accs ex s e tr -> Forall (fun n => n <> n_star) (map fst bs) -> incl (map fst bs) (l_B l) ->
  let s' := fold_left (fun s n => store false s (stack_of (l :: L')) [n] Plain) (map fst bs) s in
  Inv2 exp l L' (acc ++ map fst bs) accs ex s' (ebind_all bs e) tr /\ next_id s' = next_id s /\ lineno s' = lineno s.
Proof.
  induction bs as [|[x b] bs IH]; intros exp l L' acc accs ex s e tr HI Hns Hin; cbn [map fst fold_left].
  - rewrite app_nil_r, ebind_all_nil. auto. eapply Inv2_nonempty; eauto.
  - inversion Hns as [|? ? Hx Hns']; subst.
    destruct (store_name_inv _ _ _ _ _ _ _ _ _ x b HI Hx (Hin x (or_introl eq_refl))) as (I1 & E1 & E2 & _).
    cbv zeta in I1, E1, E2.
    destruct (IH _ _ _ _ _ _ _ _ _ I1 Hns') as (I2 & E3 & E4). intros y Hy. apply Hin. right. exact Hy.
    cbv zeta in I2, E3, E4. rewrite ebind_all_cons. rewrite <- app_assoc in I2. cbn [app] in I2.
    split. exact I2. split; congruence.
Qed.

Lemma map_fst_others : forall l, map fst (others l) = l.
Proof. intro l. unfold others. rewrite map_map. cbn. apply map_id. Qed.

Lemma fold_left_ext' : forall A B (f g : A -> B -> A) l a, (forall a b, f a b = g a b) -> fold_left f l a = fold_left g l a.
Proof. intros A B f g l. induction l as [|x l IH]; intros a H; cbn. reflexivity. rewrite H. apply IH. exact H. Qed.

(* ---------- targets ---------- *)
Lemma target_inv : forall t ln exp l L' acc accs ex s e tr,
  Inv2 exp l L' acc accs ex s e tr -> s1_target t = true -> incl (target_names t) (l_B l) ->
  let s' := vtarget false t (stack_of (l :: L')) s in
  exec_target_env ln e t = (ebind_all (others (target_names t)) e, []) /\
  Inv2 exp l L' (acc ++ target_names t) accs ex s' (ebind_all (others (target_names t)) e) tr /\
  next_id s' = next_id s /\ lineno s' = lineno s.
Proof.
  intros t ln exp l L' acc accs ex s e tr HI Ht Hin. cbv zeta.
  split. { unfold exec_target_env. rewrite exec_target_s1 by exact Ht. reflexivity. }
  rewrite vtarget_s1 by exact Ht.
  pose proof (binds_inv (others (target_names t)) _ _ _ _ _ _ _ _ _ HI) as H. rewrite map_fst_others in H.
  rewrite (fold_left_ext' _ _ _ (fun s n => store false s (stack_of (l :: L')) [n] Plain)).
  apply H. apply target_names_not_star. exact Ht. exact Hin.
  intros. rewrite store_false. reflexivity.
Qed.

(* ---------- import items ---------- *)
Lemma import_item_inv : forall ln it exp l L' acc accs ex s e tr,
  Inv2 exp l L' acc accs ex s e tr -> s1_import_item it = true -> incl (map fst (import_bsrcs ln it)) (l_B l) ->
  let s' := store_import false s (stack_of (l :: L')) (fst it) (snd it) None in
  Inv2 exp l L' (acc ++ map fst (import_bsrcs ln it)) accs ex s' (ebind_all (import_bsrcs ln it) e) tr /\
  next_id s' = next_id s /\ lineno s' = lineno s.
Proof.
  intros ln [aname asname] exp l L' acc accs ex s e tr HI Hs Hin. unfold s1_import_item in Hs. cbn [fst snd] in *.
  apply andb_true_iff in Hs as [H1 H2].
  destruct aname as [|r rest]; try discriminate. apply not_star_neq in H1.
  unfold store_import, import_bsrcs in *. cbn [fst snd negb orb] in *.
  destruct asname as [a|].
  - apply not_star_neq in H2. cbn [map fst] in *. cbn [fold_left].
    destruct (store_name_inv _ _ _ _ _ _ _ _ _ a (BImp ln (r :: rest, [a])) HI H2 (Hin a (or_introl eq_refl))) as (I1 & E1 & E2 & _).
    rewrite ebind_all_one. auto.
  - assert (Estar : dotted_eqb (r :: rest) [n_star] = false).
    { apply dotted_eqb_neq. intro E. injection E as E _. contradiction. }
    rewrite Estar. cbn [map fst] in *. rewrite ebind_all_one.
    destruct rest as [|x rest'].
    + cbn. destruct (store_name_inv _ _ _ _ _ _ _ _ _ r (BImp ln ([r], [r])) HI H1 (Hin r (or_introl eq_refl))) as (I1 & E1 & E2 & _).
      auto.
    + assert (Epp : proper_prefixes (r :: x :: rest') = [r] :: removelast (prefixes_from [r] (x :: rest'))).
      { unfold proper_prefixes, prefixes. cbn. reflexivity. }
      rewrite Epp. cbn [fold_left].
      destruct (store_name_inv _ _ _ _ _ _ _ _ _ r (BImp ln (r :: x :: rest', r :: x :: rest')) HI H1 (Hin r (or_introl eq_refl)))
        as (I1 & E1 & E2 & Hh1). cbv zeta in I1, E1, E2, Hh1.
      destruct (store_subs_inv r (removelast (prefixes_from [r] (x :: rest'))) _ _ _ _ _ _ _ _ _ I1 Hh1) as (I2 & E3 & E4 & Hh2).
      { intros k Hk. apply removelast_In in Hk. apply prefixes_from_shape in Hk as (q & -> & _). exists q. reflexivity. }
      cbv zeta in I2, E3, E4, Hh2.
      destruct (store_sub_inv _ _ _ _ _ _ _ _ _ r (x :: rest') I2 Hh2) as (I3 & E5 & E6 & _). cbv zeta in I3, E5, E6.
      split. exact I3. split; congruence.
Qed.

Lemma from_item_inv : forall ln m it exp l L' acc accs ex s e tr,
  Inv2 exp l L' acc accs ex s e tr -> s1_from_item it = true -> incl (map fst (importfrom_bsrcs ln m it)) (l_B l) ->
  let s' := store_import false s (stack_of (l :: L')) [fst it] (snd it) (Some m) in
  Inv2 exp l L' (acc ++ map fst (importfrom_bsrcs ln m it)) accs ex s' (ebind_all (importfrom_bsrcs ln m it) e) tr /\
  next_id s' = next_id s /\ lineno s' = lineno s.
Proof.
  intros ln m [nm asname] exp l L' acc accs ex s e tr HI Hs Hin. unfold s1_from_item in Hs. cbn [fst snd] in *.
  apply andb_true_iff in Hs as [H1 H2].
  assert (Hn : nm <> n_star) by (apply not_star_neq; exact H1).
  unfold store_import, importfrom_bsrcs in *. cbn [fst snd negb orb] in *.
  assert (E : N.eqb nm n_star = false) by (apply N.eqb_neq; exact Hn). rewrite E in *.
  cbn [map fst] in *. rewrite ebind_all_one.
  destruct asname as [a|].
  - apply not_star_neq in H2. cbn [fold_left].
    destruct (store_name_inv _ _ _ _ _ _ _ _ _ a (BImp ln (m ++ [nm], [a])) HI H2 (Hin a (or_introl eq_refl))) as (I1 & E1 & E2 & _).
    auto.
  - cbn [dotted_eqb]. rewrite E. cbn [andb proper_prefixes prefixes prefixes_from app removelast fold_left].
    destruct (store_name_inv _ _ _ _ _ _ _ _ _ nm (BImp ln (m ++ [nm], [nm])) HI Hn (Hin nm (or_introl eq_refl))) as (I1 & E1 & E2 & _).
    auto.
Qed.

Lemma import_items_inv : forall ln items exp l L' acc accs ex s e tr,
  Inv2 exp l L' acc accs ex s e tr -> forallb s1_import_item items = true ->
  incl (map fst (flat_map (import_bsrcs ln) items)) (l_B l) ->
  let s' := fold_left (fun s it => store_import false s (stack_of (l :: L')) (fst it) (snd it) None) items s in
  Inv2 exp l L' (acc ++ map fst (flat_map (import_bsrcs ln) items)) accs ex s' (ebind_all (flat_map (import_bsrcs ln) items) e) tr /\
  next_id s' = next_id s.
Proof.
  intros ln items. induction items as [|it items IH]; intros exp l L' acc accs ex s e tr HI Hs Hin; cbn [flat_map fold_left map] in *.
  - rewrite app_nil_r, ebind_all_nil. auto. eapply Inv2_nonempty; eauto.
  - cbn in Hs. apply andb_true_iff in Hs as [H1 H2]. rewrite map_app in Hin |- *.
    destruct (import_item_inv ln it _ _ _ _ _ _ _ _ _ HI H1) as (I1 & E1 & _).
    { intros y Hy. apply Hin. apply in_app_iff. auto. }
    cbv zeta in I1, E1.
    destruct (IH _ _ _ _ _ _ _ _ _ I1 H2) as (I2 & E2).
    { intros y Hy. apply Hin. apply in_app_iff. auto. }
    cbv zeta in I2, E2. rewrite ebind_all_app, app_assoc. split. exact I2. congruence.
Qed.

Lemma from_items_inv : forall ln m items exp l L' acc accs ex s e tr,
  Inv2 exp l L' acc accs ex s e tr -> forallb s1_from_item items = true ->
  incl (map fst (flat_map (importfrom_bsrcs ln m) items)) (l_B l) ->
  let s' := fold_left (fun s it => store_import false s (stack_of (l :: L')) [fst it] (snd it) (Some m)) items s in
  Inv2 exp l L' (acc ++ map fst (flat_map (importfrom_bsrcs ln m) items)) accs ex s' (ebind_all (flat_map (importfrom_bsrcs ln m) items) e) tr /\
  next_id s' = next_id s.
Proof.
  intros ln m items. induction items as [|it items IH]; intros exp l L' acc accs ex s e tr HI Hs Hin; cbn [flat_map fold_left map] in *.
  - rewrite app_nil_r, ebind_all_nil. auto. eapply Inv2_nonempty; eauto.
  - cbn in Hs. apply andb_true_iff in Hs as [H1 H2]. rewrite map_app in Hin |- *.
    destruct (from_item_inv ln m it _ _ _ _ _ _ _ _ _ HI H1) as (I1 & E1 & _).
    { intros y Hy. apply Hin. apply in_app_iff. auto. }
    cbv zeta in I1, E1.
    destruct (IH _ _ _ _ _ _ _ _ _ I1 H2) as (I2 & E2).
    { intros y Hy. apply Hin. apply in_app_iff. auto. }
    cbv zeta in I2, E2. rewrite ebind_all_app, app_assoc. split. exact I2. congruence.
Qed.

(* ---------- the statement-level postcondition ---------- *)
Definition PostS (exp : expmap) (l : lvl) (L' : list lvl) (acc : list name) (accs : list (list name)) (ex : list nat)
                 (s : st) (e : env) (tr : list rd) (s' : st) (e' : env) (rds : list rd) (add : list name) : Prop :=
  exists exp', ext (next_id s) exp exp' /\ Inv2 exp' l L' (acc ++ add) accs ex s' e' (tr ++ rds) /\ next_id s <= next_id s'.

Lemma PostS_refl : forall exp l L' acc accs ex s e tr, Inv2 exp l L' acc accs ex s e tr -> PostS exp l L' acc accs ex s e tr s e [] [].
Proof. intros. exists exp. split. apply ext_refl. rewrite !app_nil_r. auto. Qed.

Lemma PostS_seq : forall exp l L' acc accs ex s e tr s1 e1 r1 a1 s2 e2 r2 a2,
  PostS exp l L' acc accs ex s e tr s1 e1 r1 a1 ->
  (forall exp1, Inv2 exp1 l L' (acc ++ a1) accs ex s1 e1 (tr ++ r1) -> PostS exp1 l L' (acc ++ a1) accs ex s1 e1 (tr ++ r1) s2 e2 r2 a2) ->
  PostS exp l L' acc accs ex s e tr s2 e2 (r1 ++ r2) (a1 ++ a2).
Proof.
  intros exp l L' acc accs ex s e tr s1 e1 r1 a1 s2 e2 r2 a2 (exp1 & X1 & I1 & N1) H2.
  destruct (H2 exp1 I1) as (exp2 & X2 & I2 & N2).
  exists exp2. split. eapply ext_trans; [exact N1|exact X1|exact X2].
  rewrite !app_assoc. split. exact I2. lia.
Qed.

(* an expression evaluated on line ln *)
Lemma expr_ln : forall x ln exp l L' acc accs ex s e tr, s2_expr x = true -> Inv2 exp l L' acc accs ex s e tr ->
  let s' := vexpr false x (stack_of (l :: L')) (with_ln s ln) in
  PostS exp l L' acc accs ex s e tr s' e (sem_expr ln e x) [] /\ lineno s' = ln.
Proof.
  intros x ln exp l L' acc accs ex s e tr Hx HI. cbv zeta.
  destruct (expr_inv x Hx _ _ _ _ _ _ _ _ _ (Inv2_with_ln _ _ _ _ _ _ _ _ _ ln HI)) as (exp' & X & I' & Ln & Nx & _).
  split; [|exact Ln]. exists exp'. rewrite app_nil_r. auto.
Qed.

(* an expression evaluated on the current line *)
Lemma expr_cur : forall x exp l L' acc accs ex s e tr, s2_expr x = true -> Inv2 exp l L' acc accs ex s e tr ->
  let s' := vexpr false x (stack_of (l :: L')) s in
  PostS exp l L' acc accs ex s e tr s' e (sem_expr (lineno s) e x) [] /\ lineno s' = lineno s.
Proof.
  intros x exp l L' acc accs ex s e tr Hx HI. cbv zeta.
  destruct (expr_inv x Hx _ _ _ _ _ _ _ _ _ HI) as (exp' & X & I' & Ln & Nx & _).
  split; [|exact Ln]. exists exp'. rewrite app_nil_r. auto.
Qed.

(* a binding step with no reads *)
Lemma PostS_bind : forall exp l L' acc accs ex s e tr s' e' add,
  Inv2 exp l L' (acc ++ add) accs ex s' e' tr -> next_id s' = next_id s -> PostS exp l L' acc accs ex s e tr s' e' [] add.
Proof. intros. exists exp. split. apply ext_refl. rewrite app_nil_r. split. auto. lia. Qed.

(* ---------- assignment targets, with items, decorators ---------- *)
Definition sem_target_step (ln : nat) (acc : env * list rd) (t : target) : env * list rd :=
  let '(e, r) := acc in let '(e', r') := exec_target_env ln e t in (e', r ++ r').
Lemma sem_stmt_assign : forall e ln ts v,
  sem_stmt e (SAssign ln ts v) =
  (let r0 := sem_expr ln e v in let '(e1, r1) := fold_left (sem_target_step ln) ts (e, []) in (e1, r0 ++ r1)).
Proof. reflexivity. Qed.
Lemma tgo_eq : forall ts,
  (fix go (l : list target) : list name := match l with [] => [] | x :: r => target_names x ++ go r end) ts
  = flat_map target_names ts.
Proof. reflexivity. Qed.

Lemma targets_inv : forall ln ts exp l L' acc accs ex s e tr r,
  Inv2 exp l L' acc accs ex s e tr -> forallb s1_target ts = true -> incl (flat_map target_names ts) (l_B l) ->
  let s' := fold_left (fun s t => vtarget false t (stack_of (l :: L')) s) ts s in
  fold_left (sem_target_step ln) ts (e, r) = (ebind_all (others (flat_map target_names ts)) e, r) /\
  Inv2 exp l L' (acc ++ flat_map target_names ts) accs ex s' (ebind_all (others (flat_map target_names ts)) e) tr /\
  next_id s' = next_id s /\ lineno s' = lineno s.
Proof.
  intros ln ts. induction ts as [|t ts IH]; intros exp l L' acc accs ex s e tr r HI Hs Hin; cbn [flat_map fold_left] in *.
  - rewrite app_nil_r. cbn [others map]. rewrite ebind_all_nil by (eapply Inv2_nonempty; eauto). auto.
  - cbn in Hs. apply andb_true_iff in Hs as [H1 H2].
    destruct (target_inv t ln _ _ _ _ _ _ _ _ _ HI H1) as (E1 & I1 & N1 & Ln1).
    { intros y Hy. apply Hin. apply in_app_iff. auto. }
    cbv zeta in I1, N1, Ln1.
    destruct (IH _ _ _ _ _ _ _ _ _ (r ++ []) I1 H2) as (E2 & I2 & N2 & Ln2).
    { intros y Hy. apply Hin. apply in_app_iff. auto. }
    cbv zeta in I2, N2, Ln2.
    unfold sem_target_step at 2. rewrite E1. fold (sem_target_step ln). rewrite E2.
    rewrite others_app, ebind_all_app, app_assoc, app_nil_r. split. reflexivity. split. exact I2. split; congruence.
Qed.

Definition wnames (it : expr * option target) : list name :=
  match snd it with Some t => target_names t | None => [] end.

Lemma with_items_inv : forall ln items exp l L' acc accs ex s e tr r,
  Inv2 exp l L' acc accs ex s e tr -> lineno s = ln -> forallb s2_with_item items = true ->
  incl (flat_map wnames items) (l_B l) ->
  let s' := fold_left (with_item_step false (stack_of (l :: L'))) items s in
  exists e' r', fold_left (sem_with_step ln) items (e, r) = (e', r ++ r') /\
    PostS exp l L' acc accs ex s e tr s' e' r' (flat_map wnames items).
Proof.
  intros ln items. induction items as [|[x ot] items IH]; intros exp l L' acc accs ex s e tr r HI Hln Hs Hin;
    cbn [flat_map fold_left] in *.
  - exists e, []. rewrite app_nil_r. split. reflexivity. apply PostS_refl. exact HI.
  - cbn in Hs. apply andb_true_iff in Hs as [H12 H3]. unfold s2_with_item in H12. cbn [fst snd] in H12.
    apply andb_true_iff in H12 as [H1 H2].
    unfold with_item_step at 2. cbn [fst snd]. unfold sem_with_step at 2. cbn [fst snd].
    destruct (expr_cur x _ _ _ _ _ _ _ _ _ H1 HI) as (P1 & Ln1). cbv zeta in P1, Ln1. rewrite Hln in P1.
    change (wnames (x, ot)) with (match ot with Some t => target_names t | None => [] end) in *.
    destruct ot as [t|].
    + set (s1 := vexpr false x (stack_of (l :: L')) s) in *.
      assert (Hin1 : incl (target_names t) (l_B l)) by (intros y Hy; apply Hin; apply in_app_iff; auto).
      assert (Et : exec_target_env ln e t = (ebind_all (others (target_names t)) e, [])).
      { unfold exec_target_env. rewrite exec_target_s1 by exact H2. reflexivity. }
      rewrite Et.
      assert (P2 : PostS exp l L' acc accs ex s e tr (vtarget false t (stack_of (l :: L')) s1)
                         (ebind_all (others (target_names t)) e) (sem_expr ln e x ++ []) ([] ++ target_names t)).
      { eapply PostS_seq. exact P1. intros exp1 I1.
        destruct (target_inv t ln _ _ _ _ _ _ _ _ _ I1 H2 Hin1) as (_ & I2 & N2 & _). cbv zeta in I2, N2.
        apply PostS_bind; auto. }
      cbn [app] in P2.
      destruct P2 as (exp2 & X2 & I2 & N2).
      assert (Ln2 : lineno (vtarget false t (stack_of (l :: L')) s1) = ln).
      { destruct P1 as (expa & _ & Ia & _). rewrite app_nil_r in Ia.
        destruct (target_inv t ln _ _ _ _ _ _ _ _ _ Ia H2 Hin1) as (_ & _ & _ & Lnx). cbv zeta in Lnx. rewrite Lnx. rewrite Ln1. exact Hln. }
      destruct (IH _ _ _ _ _ _ _ _ _ (r ++ sem_expr ln e x ++ []) I2 Ln2 H3) as (e' & r' & E' & P').
      { intros y Hy. apply Hin. apply in_app_iff. auto. }
      exists e', ((sem_expr ln e x ++ []) ++ r'). rewrite E'. split. rewrite !app_assoc. reflexivity.
      eapply PostS_seq. exists exp2. split. exact X2. split. exact I2. exact N2. intros exp3 I3.
      destruct P' as (exp4 & X4 & I4 & N4).
      cbv zeta in I4.
      (* the continuation is independent of the expected map: re-run it from exp3 *)
      destruct (IH _ _ _ _ _ _ _ _ _ (r ++ sem_expr ln e x ++ []) I3 Ln2 H3) as (e'' & r'' & E'' & P'').
      { intros y Hy. apply Hin. apply in_app_iff. auto. }
      rewrite E' in E''. injection E'' as <- Er. apply app_inv_head in Er. subst r''. exact P''.
    + destruct P1 as (exp2 & X2 & I2 & N2). rewrite app_nil_r in I2.
      assert (Ln2 : lineno (vexpr false x (stack_of (l :: L')) s) = ln) by congruence.
      destruct (IH _ _ _ _ _ _ _ _ _ (r ++ sem_expr ln e x) I2 Ln2 H3 Hin) as (e' & r' & E' & P').
      exists e', (sem_expr ln e x ++ r'). rewrite E'. split. rewrite !app_assoc. reflexivity.
      change (flat_map wnames items) with ([] ++ flat_map wnames items).
      eapply PostS_seq. exists exp2. split. exact X2. rewrite app_nil_r. split. exact I2. exact N2. intros exp3 I3.
      rewrite app_nil_r in I3 |- *.
      destruct (IH _ _ _ _ _ _ _ _ _ (r ++ sem_expr ln e x) I3 Ln2 H3 Hin) as (e'' & r'' & E'' & P'').
      rewrite E' in E''. injection E'' as <- Er. apply app_inv_head in Er. subst r''. exact P''.
Qed.

Lemma decos_inv : forall decos exp l L' acc accs ex s e tr,
  Inv2 exp l L' acc accs ex s e tr -> forallb (fun d : nat * expr => s2_expr (snd d)) decos = true ->
  PostS exp l L' acc accs ex s e tr (vdecos false decos (stack_of (l :: L')) s) e (sem_decos e decos) [].
Proof.
  induction decos as [|[dl d] decos IH]; intros exp l L' acc accs ex s e tr HI Hs.
  - apply PostS_refl. exact HI.
  - cbn in Hs. apply andb_true_iff in Hs as [H1 H2]. unfold vdecos, sem_decos. cbn [fold_left flat_map fst snd].
    change (@nil name) with (@nil name ++ []).
    eapply PostS_seq. apply (expr_ln d dl); eauto. intros exp1 I1. apply IH; auto.
Qed.

(* ---------- def headers ---------- *)
Definition optl (l : list (option expr)) : list expr :=
  flat_map (fun o : option expr => match o with Some x => [x] | None => [] end) l.
(* the header expressions in the order pyflyby visits them (before the parameter names are stored) *)
Definition hdr_finder (p : params) : list expr := p_defaults p ++ optl (p_kw_defaults p) ++ annotations_of p.
(* the parameter names in the order pyflyby stores them *)
Definition pnames_finder (p : params) : list name :=
  param_names (p_args p) ++ param_names (p_kwonly p) ++ param_names (p_posonly p)
  ++ oparam_names (p_vararg p) ++ oparam_names (p_kwarg p).

Lemma voexprs_eq : forall stk l s,
  fold_left (fun s o => voexpr false o stk s) l s = vexpr_list false (optl l) stk s.
Proof.
  intros stk l. induction l as [|[x|] l IH]; intro s; cbn [fold_left optl flat_map app voexpr].
  - reflexivity.
  - unfold vexpr_list in *. cbn [fold_left]. apply IH.
  - apply IH.
Qed.

Lemma varguments_eq : forall p stkA s,
  varguments false p stkA s =
  fold_left (fun s n => store false s stkA [n] Plain) (pnames_finder p) (vexpr_list false (hdr_finder p) (removelast stkA) s).
Proof.
  intros. unfold varguments, hdr_finder, pnames_finder. cbv zeta. rewrite voexprs_eq.
  unfold vexprs, vexpr_list. rewrite !fold_left_app. reflexivity.
Qed.

Lemma pnames_perm : forall p x, In x (pnames_finder p) <-> In x (params_names p).
Proof. intros. unfold pnames_finder, params_names. rewrite !in_app_iff. tauto. Qed.

Lemma hdr_perm : forall p ret x,
  In x (hdr_finder p ++ match ret with Some r => [r] | None => [] end) <-> In x (header_exprs p ret).
Proof.
  intros. unfold hdr_finder, header_exprs, annotations_of, optl, param_anns, oparam_ann. rewrite !in_app_iff. tauto.
Qed.

Lemma s2_param_list : forall l, forallb s2_param l = true ->
  forallb s2_expr (param_anns l) = true /\ Forall (fun n => n <> n_star) (param_names l).
Proof.
  induction l as [|[n o] l IH]; cbn; intro H. split; [reflexivity|constructor].
  apply andb_true_iff in H as [H1 H2]. unfold s2_param in H1. cbn [fst snd] in H1. apply andb_true_iff in H1 as [Ha Hb].
  destruct (IH H2) as [I1 I2]. split.
  - destruct o; cbn in *; auto. rewrite Hb. exact I1.
  - constructor; auto. apply not_star_neq. exact Ha.
Qed.
Lemma s2_oparam_one : forall o, s2_oparam o = true ->
  forallb s2_expr (oparam_ann o) = true /\ Forall (fun n => n <> n_star) (oparam_names o).
Proof.
  intros [[n o]|]; cbn; intro H. 2: split; [reflexivity|constructor].
  unfold s2_param in H. cbn [fst snd] in H. apply andb_true_iff in H as [Ha Hb]. split.
  - destruct o; cbn in *; auto. rewrite Hb. reflexivity.
  - constructor; [|constructor]. apply not_star_neq. exact Ha.
Qed.
Lemma s2_optl : forall l, forallb s2_oexpr l = true -> forallb s2_expr (optl l) = true.
Proof.
  induction l as [|[x|] l IH]; cbn; intro H; auto. apply andb_true_iff in H as [H1 H2]. rewrite H1. cbn. auto.
Qed.

Lemma s2_params_facts : forall p, s2_params p = true ->
  forallb s2_expr (hdr_finder p) = true /\ Forall (fun n => n <> n_star) (pnames_finder p).
Proof.
  intros p H. unfold s2_params in H.
  apply andb_true_iff in H as [H Hkd]. apply andb_true_iff in H as [H Hd]. apply andb_true_iff in H as [H Hkw].
  apply andb_true_iff in H as [H Hko]. apply andb_true_iff in H as [H Hva]. apply andb_true_iff in H as [Hpo Har].
  destruct (s2_param_list _ Hpo) as [A1 B1]. destruct (s2_param_list _ Har) as [A2 B2].
  destruct (s2_param_list _ Hko) as [A3 B3]. destruct (s2_oparam_one _ Hva) as [A4 B4]. destruct (s2_oparam_one _ Hkw) as [A5 B5].
  split.
  - unfold hdr_finder, annotations_of. rewrite !forallb_app.
    fold (param_anns (p_posonly p)) (param_anns (p_args p)) (param_anns (p_kwonly p)).
    fold (oparam_ann (p_vararg p)) (oparam_ann (p_kwarg p)).
    rewrite Hd, (s2_optl _ Hkd), A1, A2, A3, A4, A5. reflexivity.
  - unfold pnames_finder. repeat (apply Forall_app; split); auto.
Qed.

Lemma sem_exprs_perm : forall ln e l1 l2, (forall x, In x l1 <-> In x l2) ->
  forall r, In r (sem_exprs ln e l1) <-> In r (sem_exprs ln e l2).
Proof.
  intros ln e l1 l2 H r. unfold sem_exprs. rewrite !in_flat_map. split; intros (x & Hx & Hr); exists x; split; auto; apply H; auto.
Qed.
Lemma sem_exprs_app : forall ln e a b, sem_exprs ln e (a ++ b) = sem_exprs ln e a ++ sem_exprs ln e b.
Proof. intros. unfold sem_exprs. apply flat_map_app. Qed.

(* ---------- on the fragment every branch is executed: the static locals are the executed bindings ---------- *)
Lemma s2_blk_fix : forall l,
  (fix blk (l : list stmt) : bool := match l with [] => true | y :: r => s2_stmt y && blk r end) l = s2_block l.
Proof. reflexivity. Qed.
Lemma bsrcs_blk_fix : forall all l,
  (fix block (l : list stmt) : list (name * bsrc) := match l with [] => [] | x :: r => bsrcs all x ++ block r end) l
  = bsrcs_block all l.
Proof. reflexivity. Qed.

Lemma s2_bsrcs_block_all : forall l, Forall (fun x => s2_stmt x = true -> bsrcs true x = bsrcs false x) l ->
  s2_block l = true -> bsrcs_block true l = bsrcs_block false l.
Proof.
  induction l as [|x l IH]; intros HF Hs. reflexivity.
  inversion HF as [|? ? Hx HF']; subst. cbn in Hs. apply andb_true_iff in Hs as [H1 H2].
  unfold bsrcs_block in *. cbn [flat_map]. rewrite (Hx H1), (IH HF' H2). reflexivity.
Qed.

Lemma s2_bsrcs_all : forall x, s2_stmt x = true -> bsrcs true x = bsrcs false x.
Proof.
  induction x using stmt_ind'; intro Hs; try reflexivity; try discriminate.
  - (* SFor *) cbn [s2_stmt] in Hs. rewrite !s2_blk_fix in Hs.
    apply andb_true_iff in Hs as [H123 H4]. apply andb_true_iff in H123 as [H12 H3].
    cbn [bsrcs]. rewrite !bsrcs_blk_fix. rewrite (s2_bsrcs_block_all b H H3), (s2_bsrcs_block_all o H0 H4). reflexivity.
  - (* SWhile *) cbn [s2_stmt] in Hs. rewrite !s2_blk_fix in Hs.
    apply andb_true_iff in Hs as [H12 H3]. apply andb_true_iff in H12 as [H1 H2]. apply is_nil_true in H3. subst o.
    cbn [bsrcs]. rewrite !bsrcs_blk_fix. rewrite (s2_bsrcs_block_all b H H2). reflexivity.
  - (* SIf *) cbn [s2_stmt] in Hs. rewrite !s2_blk_fix in Hs.
    apply andb_true_iff in Hs as [H12 H3]. apply andb_true_iff in H12 as [H1 H2]. apply is_nil_true in H3. subst o.
    cbn [bsrcs]. rewrite !bsrcs_blk_fix. rewrite (s2_bsrcs_block_all b H H2). reflexivity.
  - (* SWith *) cbn [s2_stmt] in Hs. rewrite !s2_blk_fix in Hs. apply andb_true_iff in Hs as [H1 H2].
    cbn [bsrcs]. rewrite !bsrcs_blk_fix. rewrite (s2_bsrcs_block_all b H H2). reflexivity.
  - (* STry *) cbn [s2_stmt] in Hs. rewrite !s2_blk_fix in Hs.
    apply andb_true_iff in Hs as [Habc Hd]. apply andb_true_iff in Habc as [Hab Hc]. apply andb_true_iff in Hab as [Ha Hb].
    apply is_nil_true in Hb. subst hs.
    cbn [bsrcs]. rewrite !bsrcs_blk_fix.
    rewrite (s2_bsrcs_block_all b H Ha), (s2_bsrcs_block_all o H1 Hc), (s2_bsrcs_block_all f H2 Hd). reflexivity.
Qed.

Lemma s2_binds_all : forall l, s2_block l = true -> binds_block true l = binds_block false l.
Proof.
  intros l H. unfold binds_block. f_equal. apply s2_bsrcs_block_all; auto.
  apply Forall_forall. intros x _. apply s2_bsrcs_all.
Qed.

(* ---------- statements ---------- *)
Definition NS (x : stmt) : list name := map fst (bsrcs false x).

Definition PS2 (x : stmt) : Prop := s2_stmt x = true ->
  forall exp l L' acc accs ex s e tr, Inv2 exp l L' acc accs ex s e tr -> incl (NS x) (l_B l) ->
  forall e' rds, sem_stmt e x = (e', rds) ->
  PostS exp l L' acc accs ex s e tr (vstmt false x (stack_of (l :: L')) s) e' rds (NS x).
Definition PB2 (b : list stmt) : Prop := s2_block b = true ->
  forall exp l L' acc accs ex s e tr, Inv2 exp l L' acc accs ex s e tr -> incl (binds_block false b) (l_B l) ->
  forall e' rds, sem_block b e = (e', rds) ->
  PostS exp l L' acc accs ex s e tr (vblock false b (stack_of (l :: L')) s) e' rds (binds_block false b).

Lemma block_inv : forall b, Forall PS2 b -> PB2 b.
Proof.
  induction b as [|x b IH]; intros HF Hs exp l L' acc accs ex s e tr HI Hin e' rds E.
  - cbn in E. injection E as <- <-. apply PostS_refl. exact HI.
  - inversion HF as [|? ? Hx HF']; subst. cbn in Hs. apply andb_true_iff in Hs as [H1 H2].
    cbn [sem_block] in E. destruct (sem_stmt e x) as [e1 r1] eqn:E1. destruct (sem_block b e1) as [e2 r2] eqn:E2.
    injection E as <- <-.
    unfold binds_block, bsrcs_block in *. cbn [flat_map] in *. rewrite map_app in *. fold (NS x) in *.
    unfold vblock. cbn [fold_left]. eapply PostS_seq.
    + apply (Hx H1 _ _ _ _ _ _ _ _ _ HI). intros y Hy. apply Hin. apply in_app_iff. auto. exact E1.
    + intros exp1 I1. apply (IH HF' H2 _ _ _ _ _ _ _ _ _ I1). intros y Hy. apply Hin. apply in_app_iff. auto. exact E2.
Qed.

Lemma vstmt_def_eq : forall ln nm decos ps ret body stk s,
  vstmt false (SDef ln nm decos ps ret body) stk s =
  (let s0 := vdecos false decos stk (with_ln s ln) in
   let '(stkA, s1) := push s0 stk true false false in
   let s3 := if Nat.ltb 0 (in_cd s1) then set_in_scope s1 (top stkA) [n_class] Plain else s1 in
   let s4 := varguments false ps stkA (with_ln s3 ln) in
   let s5 := voexpr false ret (removelast stkA) s4 in
   let fd := in_fd s5 in
   let '(stkB, s6) := push (with_fd s5 true) stkA false false true in
   let s7 := if Nat.eqb (in_cd s6) 0 then store false s6 stkB [nm] Plain else s6 in
   let s8 := vblock false body stkB s7 in
   let s9 := with_fd (pop s8 (top stkB)) fd in
   let s10 := pop s9 (top stkA) in
   store false s10 stk [nm] Plain).
Proof.
  intros. cbn [vstmt]. cbv zeta. destruct (push (vdecos false decos stk (with_ln s ln)) stk true false false) as [stkA s1].
  match goal with |- context [push ?a ?b false false true] => destruct (push a b false false true) as [stkB s6] end.
  rewrite vblock_fix. reflexivity.
Qed.
Lemma sem_stmt_def : forall e ln nm decos ps ret body,
  sem_stmt e (SDef ln nm decos ps ret body) =
  (let r0 := sem_decos e decos ++ sem_exprs ln e (header_exprs ps ret) in
   let f := fun_frame (params_names ps) (bsrcs_block false body) (binds_block true body) in
   let '(_, r1) := sem_block body (f :: finalize e) in
   (with_head e (bind nm BOther (head e)), r0 ++ r1)).
Proof. intros. cbn [sem_stmt]. cbv zeta. rewrite !sem_block_fix. reflexivity. Qed.

Lemma sem_oexpr_eq : forall ln e ret, sem_oexpr ln e ret = sem_exprs ln e (match ret with Some r => [r] | None => [] end).
Proof. intros ln e [r|]; cbn. rewrite app_nil_r. reflexivity. reflexivity. Qed.

Lemma all_PE2 : forall es, Forall PE2 es.
Proof. intro es. apply Forall_forall. intros x _. apply expr_inv. Qed.

Lemma def_inv : forall ln nm decos ps ret body, PB2 body -> PS2 (SDef ln nm decos ps ret body).
Proof.
  intros ln nm decos ps ret body IHb Hs exp l L' acc accs ex s e tr HI Hin e' rds Esem.
  cbn [s2_stmt] in Hs. rewrite s2_blk_fix in Hs.
  apply andb_true_iff in Hs as [Hs Hbody]. apply andb_true_iff in Hs as [Hs Hret].
  apply andb_true_iff in Hs as [Hs Hps]. apply andb_true_iff in Hs as [Hnm Hdecos].
  apply not_star_neq in Hnm.
  destruct (s2_params_facts ps Hps) as [Hhdr Hpn].
  rewrite sem_stmt_def in Esem. cbv zeta in Esem.
  destruct (sem_block body (fun_frame (params_names ps) (bsrcs_block false body) (binds_block true body) :: finalize e))
    as [eb r1] eqn:Eb. injection Esem as <- <-.
  unfold NS in *. cbn [bsrcs map fst] in *.
  rewrite vstmt_def_eq. cbv zeta.
  set (stk := stack_of (l :: L')).
  (* decorators *)
  destruct (decos_inv decos _ _ _ _ _ _ _ _ _ (Inv2_with_ln _ _ _ _ _ _ _ _ _ ln HI) Hdecos) as (exp0 & X0 & I0 & N0).
  fold stk in I0, N0. rewrite app_nil_r in I0. set (s0 := vdecos false decos stk (with_ln s ln)) in *.
  change (next_id (with_ln s ln)) with (next_id s) in X0, N0.
  pose proof (st_sinv _ _ _ _ _ (i_st _ _ _ _ _ _ _ _ _ I0)) as HS0.
  rewrite push_S by exact HS0. set (A := next_id s0). set (s1 := snd (new_scope s0 KNormal [])).
  cbv beta iota zeta. rewrite removelast_snoc.
  set (P := params_names ps).
  destruct (open_scope exp0 l L' acc accs ex s0 e _ P I0) as (I1 & Nx1 & Ln1 & Fd1 & Hempty & X1 & HAoff & HAd).
  fold A in I1, Nx1, X1, HAoff, HAd. fold s1 in I1, Nx1, Ln1, Fd1. fold stk in HAoff.
  assert (Hcd1 : in_cd s1 = 0) by apply (sv_cd _ (st_sinv _ _ _ _ _ (i_st _ _ _ _ _ _ _ _ _ I1))).
  rewrite Hcd1. change (Nat.ltb 0 0) with false. cbv iota.
  (* header expressions, in the enclosing scope *)
  rewrite varguments_eq, removelast_snoc.
  destruct (exprs_inv (hdr_finder ps) (all_PE2 _) Hhdr _ _ _ _ _ _ _ _ _ (Inv2_with_ln _ _ _ _ _ _ _ _ _ ln I1))
    as (exp2 & X2 & I2 & Ln2 & Nx2 & Fd2).
  fold stk in I2, Ln2, Nx2, Fd2. set (s2 := vexpr_list false (hdr_finder ps) stk (with_ln s1 ln)) in *.
  change (next_id (with_ln s1 ln)) with (next_id s1) in X2, Nx2.
  change (lineno (with_ln s1 ln)) with ln in Ln2, I2.
  (* parameters *)
  assert (HexpA : forall y, In y (exp2 A) <-> In y (pnames_finder ps)).
  { intro y. rewrite X2 by lia. unfold upd. rewrite Nat.eqb_refl. symmetry. apply pnames_perm. }
  destruct (params_close exp2 l L' acc accs ex s2 _ _ A stk (pnames_finder ps) I2) as (I3 & Ln3 & Nx3 & Fd3); auto; try lia.
  fold stk. set (s3 := fold_left (fun s p => store false s (stk ++ [A]) [p] Plain) (pnames_finder ps) s2) in *.
  (* the return annotation *)
  assert (Pret : Post exp2 l L' acc accs ex s3 e ((tr ++ sem_decos e decos) ++ sem_exprs ln e (hdr_finder ps)) (voexpr false ret stk s3) (sem_oexpr (lineno s3) e ret)).
  { destruct ret as [r|]; cbn [voexpr sem_oexpr s2_oexpr] in *. apply expr_inv; auto. apply Post_refl; auto. }
  destruct Pret as (exp4 & X4 & I4 & Ln4 & Nx4 & Fd4). set (s4 := voexpr false ret stk s3) in *.
  rewrite Ln3, Ln2 in I4.
  (* the body scope *)
  destruct I4 as [S4 X4' L4 C4 E4 T4].
  assert (HS4 : SInv (with_fd s4 true)) by (apply SInv_with_fd; apply (st_sinv _ _ _ _ _ S4)).
  rewrite push_S by exact HS4. cbv beta iota zeta. change (next_id (with_fd s4 true)) with (next_id s4).
  set (B := next_id s4). set (s6 := snd (new_scope (with_fd s4 true) KNormal [])).
  assert (Hcd6 : in_cd s6 = 0). { apply sv_cd. apply StI_with_fd_new. apply (st_sinv _ _ _ _ _ S4). }
  rewrite Hcd6. change (Nat.eqb 0 0) with true. cbv iota. rewrite (store_false s6), !top_snoc.
  set (Bn := binds_block false body).
  set (F := fun_frame P (bsrcs_block false body) (binds_block true body)) in *.
  destruct (fun_frame_ok A B P [nm] (bsrcs_block false body) (binds_block true body)) as (HFk & HFs & HFd).
  { intro y. rewrite (s2_binds_all body Hbody). reflexivity. }
  fold F in HFk, HFs, HFd. change (map fst (bsrcs_block false body)) with Bn in HFs.
  assert (HAex : ~ In A ex). { intro Hi. pose proof (i_exlt _ _ _ _ _ _ _ _ _ I0 A Hi) as Hlt. unfold A in Hlt. lia. }
  assert (HexpA4 : forall y, In y (exp4 A) <-> In y P).
  { intro y. rewrite X4 by lia. rewrite X2 by lia. unfold upd. rewrite Nat.eqb_refl. reflexivity. }
  destruct (enter_level exp4 l L' acc accs ex s4 e _ A P [nm] Bn F S4 X4' C4 E4 T4 L4)
    as (S7 & X7 & C7 & E7 & T7 & Xe & Ln7 & Nx7); auto; try lia.
  { right. exists nm. auto. }
  cbv zeta in S7, X7, C7, E7, T7, Xe, Ln7, Nx7. cbv iota in S7, T7, Ln7, Nx7.
  fold B s6 in S7, X7, C7, E7, T7, Xe, Ln7, Nx7.
  set (lv := mkL [A] B P [nm] Bn) in *. set (s7 := set_in_scope s6 B [nm] Plain) in *.
  set (exp7 := upd exp4 B ([nm] ++ Bn)) in *.
  unfold stk at 1. rewrite stackB_eq with (P := P) (own := [nm]) (Bn := Bn). fold lv.
  assert (I7 : Inv2 exp7 lv (l :: L') [] (acc :: accs) ex s7 (F :: finalize e)
                    (((tr ++ sem_decos e decos) ++ sem_exprs ln e (hdr_finder ps)) ++ sem_oexpr ln e ret)).
  { constructor; auto. intros i Hi. rewrite Nx7. specialize (L4 i Hi). lia. }
  destruct (IHb Hbody _ _ _ _ _ _ _ _ _ I7 (incl_refl _) _ _ Eb) as (exp8 & X8 & I8 & N8).
  cbn [app] in I8. set (s8 := vblock false body (stack_of (lv :: l :: L')) s7) in *.
  (* leaving *)
  assert (HS8 : SInv s8) by apply (st_sinv _ _ _ _ _ (i_st _ _ _ _ _ _ _ _ _ I8)).
  rewrite (pop_S s8) by exact HS8. rewrite pop_S by (apply SInv_with_fd; exact HS8).
  destruct (leave_level exp8 lv l L' accs acc ex s8 (i_st _ _ _ _ _ _ _ _ _ I8) (i_cx _ _ _ _ _ _ _ _ _ I8)) as (S9 & C9).
  rewrite (st_fd _ _ _ _ _ S4).
  set (s9 := with_fd s8 (negb (Nat.eqb (length (l :: L')) 1))) in *.
  assert (I9 : Inv2 exp8 l L' acc accs ex s9 e
                 ((((tr ++ sem_decos e decos) ++ sem_exprs ln e (hdr_finder ps)) ++ sem_oexpr ln e ret) ++ r1)).
  { constructor.
    - exact S9.
    - apply (i_ex _ _ _ _ _ _ _ _ _ HI).
    - intros i Hi. pose proof (i_exlt _ _ _ _ _ _ _ _ _ HI i Hi). change (next_id s9) with (next_id s8). lia.
    - exact C9.
    - apply (i_env _ _ _ _ _ _ _ _ _ HI).
    - eapply TrI_same; [| |apply (i_tr _ _ _ _ _ _ _ _ _ I8)]; reflexivity. }
  destruct (store_name_inv _ _ _ _ _ _ _ _ _ nm BOther I9 Hnm (Hin nm (or_introl eq_refl))) as (I10 & N10 & _).
  cbv zeta in I10, N10. fold stk in I10, N10.
  exists exp8. split.
  { intros i Hi. rewrite (X8 i), (Xe i), (X4 i), (X2 i), (X1 i), (X0 i) by lia. reflexivity. }
  split; [|change (next_id s9) with (next_id s8) in N10; lia].
  eapply Inv2_perm; [|exact I10].
  intro x. pose proof (sem_exprs_perm ln e _ _ (hdr_perm ps ret) x) as Hp.
  rewrite sem_exprs_app, in_app_iff in Hp. rewrite sem_oexpr_eq. rewrite !in_app_iff. tauto.
Qed.

Lemma PostS_then_bind : forall exp l L' acc accs ex s e tr s1 e1 r1 a1 s2 e2 a2,
  PostS exp l L' acc accs ex s e tr s1 e1 r1 a1 ->
  (forall exp1, Inv2 exp1 l L' (acc ++ a1) accs ex s1 e1 (tr ++ r1) ->
                Inv2 exp1 l L' ((acc ++ a1) ++ a2) accs ex s2 e2 (tr ++ r1) /\ next_id s2 = next_id s1) ->
  PostS exp l L' acc accs ex s e tr s2 e2 r1 (a1 ++ a2).
Proof.
  intros. rewrite <- (app_nil_r r1). eapply PostS_seq. exact H. intros exp1 I1. destruct (H0 exp1 I1). apply PostS_bind; auto.
Qed.

Lemma NS_incl_l : forall a b (B : list name), incl (a ++ b) B -> incl a B.
Proof. intros a b B H y Hy. apply H. apply in_app_iff. auto. Qed.
Lemma NS_incl_r : forall a b (B : list name), incl (a ++ b) B -> incl b B.
Proof. intros a b B H y Hy. apply H. apply in_app_iff. auto. Qed.

Lemma stmt_inv : forall x, PS2 x.
Proof.
  induction x using stmt_ind'; try (intros Hs; discriminate); try rename e into e0; try rename ex into exs;
    intros Hs exp l L' acc accs ex s e tr HI Hin e' rds Esem; unfold NS in *.
  - (* SExpr *)
    cbn in Esem. injection Esem as <- <-. cbn [s2_stmt vstmt bsrcs map] in *.
    apply (expr_ln e0 ln); auto.
  - (* SAssign *)
    cbn [s2_stmt] in Hs. apply andb_true_iff in Hs as [H1 H2].
    rewrite sem_stmt_assign in Esem. cbv zeta in Esem. cbn [vstmt bsrcs] in *. rewrite tgo_eq, map_fst_others in *.
    destruct (expr_ln v ln _ _ _ _ _ _ _ _ _ H1 HI) as (P1 & Ln1). cbv zeta in P1, Ln1.
    assert (Et : fold_left (sem_target_step ln) ts (e, []) = (ebind_all (others (flat_map target_names ts)) e, [])).
    { destruct P1 as (expa & _ & Ia & _). rewrite app_nil_r in Ia.
      destruct (targets_inv ln ts _ _ _ _ _ _ _ _ _ [] Ia H2 Hin) as (E & _). exact E. }
    rewrite Et in Esem. injection Esem as <- <-. rewrite app_nil_r.
    change (flat_map target_names ts) with ([] ++ flat_map target_names ts) at 2.
    eapply PostS_then_bind. exact P1. intros exp1 I1.
    destruct (targets_inv ln ts _ _ _ _ _ _ _ _ _ [] I1 H2) as (_ & I2 & N2 & _).
    { exact Hin. }
    cbv zeta in I2, N2. split. exact I2. exact N2.
  - (* SAugAssign *)
    cbn [s2_stmt] in Hs. apply andb_true_iff in Hs as [H12 H3]. apply andb_true_iff in H12 as [H1 H2].
    apply is_nil_true in H1. subst a. apply not_star_neq in H2.
    cbn in Esem. injection Esem as <- <-. cbn [vstmt bsrcs map fst] in *.
    change [n] with ([] ++ [n]).
    change ((ln, n, resolve n e) :: sem_expr ln e v) with ([(ln, n, resolve n e)] ++ sem_expr ln e v).
    eapply PostS_then_bind.
    2:{ intros exp2 I2.
        destruct (store_name_inv _ _ _ _ _ _ _ _ _ n BOther I2 H2 (Hin n (or_introl eq_refl))) as (I3 & N3 & _).
        cbv zeta in I3, N3. split. exact I3. exact N3. }
    change (@nil name) with (@nil name ++ []).
    eapply PostS_seq.
    { destruct (load_inv _ _ _ _ _ _ _ _ _ n [] (Inv2_with_ln _ _ _ _ _ _ _ _ _ ln HI)) as (exp1 & X1 & I1 & Ln1 & N1 & _).
      cbv zeta in I1, Ln1, N1. exists exp1. rewrite app_nil_r. split. exact X1. split. exact I1. exact N1. }
    intros exp1 I1.
    assert (Ln1 : lineno (load (with_ln s ln) (stack_of (l :: L')) [n]) = ln).
    { destruct (load_inv _ _ _ _ _ _ _ _ _ n [] (Inv2_with_ln _ _ _ _ _ _ _ _ _ ln HI)) as (? & _ & _ & Lnx & _). exact Lnx. }
    destruct (expr_cur v _ _ _ _ _ _ _ _ _ H3 I1) as (P2 & _). cbv zeta in P2. rewrite Ln1 in P2. exact P2.
  - (* SImport *)
    cbn [s2_stmt] in Hs. cbn in Esem. injection Esem as <- <-. cbn [vstmt bsrcs] in *.
    destruct (import_items_inv ln items _ _ _ _ _ _ _ _ _ (Inv2_with_ln _ _ _ _ _ _ _ _ _ ln HI) Hs Hin) as (I1 & N1).
    cbv zeta in I1, N1. apply PostS_bind; auto.
  - (* SImportFrom *)
    cbn [s2_stmt] in Hs. cbn in Esem. injection Esem as <- <-. cbn [vstmt bsrcs] in *.
    destruct (from_items_inv ln m items _ _ _ _ _ _ _ _ _ (Inv2_with_ln _ _ _ _ _ _ _ _ _ ln HI) Hs Hin) as (I1 & N1).
    cbv zeta in I1, N1. apply PostS_bind; auto.
  - (* SDef *)
    apply (def_inv ln nm decos ps ret body (block_inv body H) Hs _ _ _ _ _ _ _ _ _ HI Hin _ _ Esem).
  - (* SFor *)
    cbn [s2_stmt] in Hs. rewrite !s2_blk_fix in Hs.
    apply andb_true_iff in Hs as [H123 H4]. apply andb_true_iff in H123 as [H12 H3]. apply andb_true_iff in H12 as [H1 H2].
    rewrite vstmt_for. rewrite sem_stmt_for in Esem. cbv zeta in Esem.
    cbn [bsrcs] in *. rewrite !bsrcs_blk_fix in *. rewrite !map_app, map_fst_others in *.
    fold (binds_block false b) (binds_block false o) in *.
    assert (Et : exec_target_env ln e t = (ebind_all (others (target_names t)) e, [])).
    { unfold exec_target_env. rewrite exec_target_s1 by exact H1. reflexivity. }
    rewrite Et in Esem.
    destruct (sem_block b (ebind_all (others (target_names t)) e)) as [e2 r2] eqn:E2.
    destruct (sem_block o e2) as [e3 r3] eqn:E3. injection Esem as <- <-.
    change (target_names t ++ binds_block false b ++ binds_block false o)
      with (([] ++ target_names t) ++ binds_block false b ++ binds_block false o).
    eapply PostS_seq.
    { eapply PostS_then_bind. apply (expr_ln it ln); eauto. intros exp1 I1.
      destruct (target_inv t ln _ _ _ _ _ _ _ _ _ I1 H1) as (_ & I2 & N2 & _).
      { exact (NS_incl_l _ _ _ Hin). }
      cbv zeta in I2, N2. split. exact I2. exact N2. }
    intros exp2 I2.
    eapply PostS_seq.
    { apply (block_inv b H H3 _ _ _ _ _ _ _ _ _ I2 (NS_incl_l _ _ _ (NS_incl_r _ _ _ Hin)) _ _ E2). }
    intros exp3 I3.
    apply (block_inv o H0 H4 _ _ _ _ _ _ _ _ _ I3 (NS_incl_r _ _ _ (NS_incl_r _ _ _ Hin)) _ _ E3).
  - (* SWhile *)
    cbn [s2_stmt] in Hs. rewrite !s2_blk_fix in Hs.
    apply andb_true_iff in Hs as [H12 H3]. apply andb_true_iff in H12 as [H1 H2]. apply is_nil_true in H3. subst o.
    rewrite vstmt_while. rewrite sem_stmt_while in Esem. cbv zeta in Esem.
    cbn [bsrcs] in *. rewrite !bsrcs_blk_fix in *. rewrite app_nil_r in *. fold (binds_block false b) in *.
    destruct (sem_block b e) as [e2 r2] eqn:E2. injection Esem as <- <-.
    change (binds_block false b) with ([] ++ binds_block false b). unfold vblock at 1. cbn [fold_left].
    eapply PostS_seq. apply (expr_ln t ln); eauto. intros exp1 I1.
    apply (block_inv b H H2 _ _ _ _ _ _ _ _ _ I1 Hin _ _ E2).
  - (* SIf *)
    cbn [s2_stmt] in Hs. rewrite !s2_blk_fix in Hs.
    apply andb_true_iff in Hs as [H12 H3]. apply andb_true_iff in H12 as [H1 H2]. apply is_nil_true in H3. subst o.
    rewrite vstmt_if. rewrite sem_stmt_if in Esem. cbv zeta in Esem.
    cbn [bsrcs] in *. rewrite !bsrcs_blk_fix in *. rewrite app_nil_r in *. fold (binds_block false b) in *.
    destruct (sem_block b e) as [e2 r2] eqn:E2. injection Esem as <- <-.
    change (binds_block false b) with ([] ++ binds_block false b). unfold vblock at 1. cbn [fold_left].
    eapply PostS_seq. apply (expr_ln t ln); eauto. intros exp1 I1.
    apply (block_inv b H H2 _ _ _ _ _ _ _ _ _ I1 Hin _ _ E2).
  - (* SWith *)
    cbn [s2_stmt] in Hs. rewrite !s2_blk_fix in Hs. apply andb_true_iff in Hs as [H1 H2].
    rewrite vstmt_with. rewrite sem_stmt_with in Esem.
    cbn [bsrcs] in *. rewrite !bsrcs_blk_fix in *. rewrite map_app, map_fst_others in *. fold (binds_block false b) in *.
    change (flat_map (fun it : expr * option target => match snd it with Some t => target_names t | None => [] end) items)
      with (flat_map wnames items) in *.
    destruct (with_items_inv ln items _ _ _ _ _ _ _ _ _ [] (Inv2_with_ln _ _ _ _ _ _ _ _ _ ln HI) eq_refl H1 (NS_incl_l _ _ _ Hin))
      as (e1 & r1 & E1 & P1).
    cbv zeta in P1. rewrite E1 in Esem. cbn [app] in Esem.
    destruct (sem_block b e1) as [e2 r2] eqn:E2. injection Esem as <- <-.
    eapply PostS_seq.
    { destruct P1 as (exp1 & X1 & I1 & N1). exists exp1. split. exact X1. split. exact I1. exact N1. }
    intros exp1 I1. apply (block_inv b H H2 _ _ _ _ _ _ _ _ _ I1 (NS_incl_r _ _ _ Hin) _ _ E2).
  - (* STry *)
    cbn [s2_stmt] in Hs. rewrite !s2_blk_fix in Hs.
    apply andb_true_iff in Hs as [Habc Hd]. apply andb_true_iff in Habc as [Hab Hc]. apply andb_true_iff in Hab as [Ha Hb].
    apply is_nil_true in Hb. subst hs.
    rewrite vstmt_try_nohandler. rewrite sem_stmt_try in Esem.
    cbn [bsrcs] in *. rewrite !bsrcs_blk_fix in *. cbn [app] in *. rewrite !map_app in *.
    fold (binds_block false b) (binds_block false o) (binds_block false f) in *.
    destruct (sem_block b e) as [e1 r1] eqn:E1. destruct (sem_block o e1) as [e2 r2] eqn:E2.
    destruct (sem_block f e2) as [e3 r3] eqn:E3. injection Esem as <- <-.
    eapply PostS_seq.
    { destruct (block_inv b H Ha _ _ _ _ _ _ _ _ _ (Inv2_with_ln _ _ _ _ _ _ _ _ _ ln HI) (NS_incl_l _ _ _ Hin) _ _ E1)
        as (exp1 & X1 & I1 & N1). exists exp1. split. exact X1. split. exact I1. exact N1. }
    intros exp1 I1. eapply PostS_seq.
    { apply (block_inv o H1 Hc _ _ _ _ _ _ _ _ _ I1 (NS_incl_l _ _ _ (NS_incl_r _ _ _ Hin)) _ _ E2). }
    intros exp2 I2.
    apply (block_inv f H2 Hd _ _ _ _ _ _ _ _ _ I2 (NS_incl_r _ _ _ (NS_incl_r _ _ _ Hin)) _ _ E3).
  - (* SPass *)
    cbn in Esem. injection Esem as <- <-. cbn [vstmt bsrcs map].
    destruct (PostS_refl _ _ _ _ _ _ _ _ _ (Inv2_with_ln _ _ _ _ _ _ _ _ _ ln HI)) as (exp1 & X1 & I1 & N1).
    exists exp1. split. exact X1. split. exact I1. exact N1.
  - (* SDoc: a plain string statement *)
    cbn in Esem. injection Esem as <- <-. cbn [vstmt bsrcs map].
    destruct (PostS_refl _ _ _ _ _ _ _ _ _ (Inv2_with_ln _ _ _ _ _ _ _ _ _ ln HI)) as (exp1 & X1 & I1 & N1).
    exists exp1. split. exact X1. split. exact I1. exact N1.
Qed.

(* C02 end to end, on the fragments where the analysis side is proved: removing from the top-level import statements
   exactly the imports scan_for_import_issues reports unused leaves the whole resolution trace of the module
   unchanged (and every global whose binding is not a removed import).
     fragment 1: Fragment.u1_block  (module-level code, one-component import keys)
     fragment 2: Fragment.u2_block + Fragment.imports_once  (+ function and lambda scopes; imports at top level, bound once)
   = unused_sound (UnusedProofs / Stage2Unused) composed with remove_preserves_trace (RemoveProofs). *)
From Coq Require Import NArith List Bool Arith Lia.
From Verif Require Import Scope.PySyntax Scope.Finder Scope.PySem Scope.Fragment Scope.AuxProofs Scope.FinderProofs
                          Scope.UnusedProofs Scope.Remove Scope.RemoveProofs Scope.Stage2Unused Scope.Stage3Erase.
Import ListNotations.

(* the removal set tidy-imports derives from the report: is (l, i) one of the reported (line, import) pairs *)
Definition same_report (l : nat) (i : import) (u : nat * import) : bool :=
  Nat.eqb (fst u) l && dotted_eqb (fst (snd u)) (fst i) && dotted_eqb (snd (snd u)) (snd i).
Definition in_report (U : list (nat * import)) (l : nat) (i : import) : bool := existsb (same_report l i) U.

Lemma in_report_In : forall U l i, in_report U l i = true -> In (l, i) U.
Proof.
  intros U l i H. unfold in_report in H. apply existsb_exists in H as ([l' [f a]] & Hin & E).
  unfold same_report in E. cbn [fst snd] in E. apply andb_true_iff in E as [E12 E3]. apply andb_true_iff in E12 as [E1 E2].
  apply Nat.eqb_eq in E1. apply dotted_eqb_eq in E2, E3. destruct i as [f' a']. cbn [fst snd] in *. subst. exact Hin.
Qed.

(* what the removal step of tidy-imports does to the program *)
Definition tidy_remove (bi : list name) (ns : list (list name)) (p : program) : program :=
  remove_top (in_report (snd (finder bi ns true p))) p.

Theorem tidy_remove_preserves_trace_stage1 : forall bi ns p, u1_block p = true -> star_free bi ns = true ->
  NoDup (imp_events (bsrcs_block false p)) ->
  pysem bi ns (tidy_remove bi ns p) = pysem bi ns p /\
  forall x b, lookup_b x (final_globals bi ns p) = Some b -> removed_src (in_report (snd (finder bi ns true p))) b = false ->
              lookup_b x (final_globals bi ns (tidy_remove bi ns p)) = Some b.
Proof.
  intros bi ns p Hu Hsf Hnd. apply remove_preserves_trace.
  intros ln n l i Hread. destruct (in_report (snd (finder bi ns true p)) l i) eqn:E; auto. exfalso.
  apply in_report_In in E. exact (u1_unused_sound bi ns p Hu Hsf Hnd l i E ln n Hread).
Qed.

Theorem tidy_remove_preserves_trace_stage2 : forall bi ns p, u2_block p = true -> star_free bi ns = true ->
  imports_once bi ns p = true -> NoDup (imp_events (bsrcs_block false p)) ->
  pysem bi ns (tidy_remove bi ns p) = pysem bi ns p /\
  forall x b, lookup_b x (final_globals bi ns p) = Some b -> removed_src (in_report (snd (finder bi ns true p))) b = false ->
              lookup_b x (final_globals bi ns (tidy_remove bi ns p)) = Some b.
Proof.
  intros bi ns p Hu Hsf Ho Hnd. apply remove_preserves_trace.
  intros ln n l i Hread. destruct (in_report (snd (finder bi ns true p)) l i) eqn:E; auto. exfalso.
  apply in_report_In in E. exact (u2_unused_sound bi ns p Hu Hsf Ho Hnd l i E ln n Hread).
Qed.

Theorem tidy_remove_preserves_trace_stage3 : forall bi ns p, u3_block p = true -> star_free bi ns = true ->
  imports_once bi ns p = true -> NoDup (imp_events (bsrcs_block false p)) ->
  pysem bi ns (tidy_remove bi ns p) = pysem bi ns p /\
  forall x b, lookup_b x (final_globals bi ns p) = Some b -> removed_src (in_report (snd (finder bi ns true p))) b = false ->
              lookup_b x (final_globals bi ns (tidy_remove bi ns p)) = Some b.
Proof.
  intros bi ns p Hu Hsf Ho Hnd. apply remove_preserves_trace.
  intros ln n l i Hread. destruct (in_report (snd (finder bi ns true p)) l i) eqn:E; auto. exfalso.
  apply in_report_In in E. exact (u3_unused_sound bi ns p Hu Hsf Ho Hnd l i E ln n Hread).
Qed.

(* ---------- what fix_unused_and_missing_imports really calls: scan_for_import_issues(parse_docstrings=True).
   On programs whose docstring / string statements hold no doctest example and no {brace} identifier (both fragments
   allow only those) it is the same report, and the trace with doctests is the trace. ---------- *)
Lemma with_unused_id : forall s, with_unused s (unused s) = s.
Proof. intros []; reflexivity. Qed.

Definition plain_doc (d : docstring) : Prop := fst d = [].
Lemma plain_examples : forall l, Forall plain_doc l -> flat_map fst l = [].
Proof. induction l as [|d l IH]; intro H. reflexivity. inversion H as [|? ? Hd Hl]; subst. cbn. rewrite Hd. apply IH. exact Hl. Qed.

Lemma nodoc_finder : forall bi ns p, Forall plain_doc (docstrings_of p) -> brace_ids p = [] ->
  snd (finder_doc bi ns p) = snd (finder bi ns true p).
Proof.
  intros bi ns p Hd Hb. unfold finder_doc, finder. destruct (init_state bi ns) as [stk s0].
  rewrite (plain_examples _ Hd), Hb. cbn [flat_map fold_left snd]. rewrite with_unused_id. reflexivity.
Qed.
Lemma nodoc_pysem : forall bi ns p, Forall plain_doc (docstrings_of p) -> pysem_doc bi ns p = pysem bi ns p.
Proof.
  intros bi ns p Hd. unfold pysem_doc. induction (docstrings_of p) as [|d l IH]. apply app_nil_r.
  inversion Hd as [|? ? H1 H2]; subst. cbn [flat_map]. unfold sem_docstring at 1. rewrite H1. cbn [sem_block snd app]. apply IH. exact H2.
Qed.

Lemma Forall_app' : forall A (P : A -> Prop) a b, Forall P a -> Forall P b -> Forall P (a ++ b).
Proof. intros. apply Forall_app. auto. Qed.

Lemma epydoc_plain : forall l, Forall (fun x => Forall plain_doc (doc_of x)) l -> Forall plain_doc (epydoc l).
Proof.
  induction l as [|a l IH]; intro H. constructor. inversion H as [|? ? Ha Hl]; subst.
  destruct l as [|b r]. constructor. cbn [epydoc]. inversion Hl as [|? ? Hb Hr]; subst.
  apply Forall_app'. destruct (is_assign a). exact Hb. constructor. apply IH. exact Hl.
Qed.
Lemma container_plain : forall l, Forall (fun x => Forall plain_doc (doc_of x)) l -> Forall plain_doc (container_docs l).
Proof.
  intros [|x r] H. constructor. inversion H as [|? ? Hx Hr]; subst. cbn [container_docs]. apply Forall_app'. exact Hx. apply epydoc_plain. exact Hr.
Qed.

(* ---------- stage 2 ---------- *)
Lemma s2_doc_of : forall x, s2_stmt x = true -> Forall plain_doc (doc_of x) /\ (forall ln ex br, x = SDoc ln ex br -> br = []).
Proof.
  intros [] H; cbn [doc_of]; try (split; [constructor|intros; discriminate]).
  cbn [s2_stmt] in H. apply andb_true_iff in H as [H1 H2]. apply is_nil_true in H1, H2. subst. split.
  constructor. reflexivity. constructor. intros ln0 ex br E. injection E as _ _ <-. reflexivity.
Qed.
Lemma s2_block_doc_of : forall l, s2_block l = true -> Forall (fun x => Forall plain_doc (doc_of x)) l.
Proof.
  induction l as [|x l IH]; intro H. constructor. cbn in H. apply andb_true_iff in H as [H1 H2].
  constructor. apply (s2_doc_of x H1). apply IH. exact H2.
Qed.

Definition NoDocs2 (x : stmt) : Prop := s2_stmt x = true -> Forall plain_doc (docs_stmt x) /\ strings_stmt x = [].
Lemma nodoc_blocks2 : forall l, Forall NoDocs2 l -> s2_block l = true ->
  Forall plain_doc ((fix nested (l : list stmt) : list docstring := match l with [] => [] | x :: r => docs_stmt x ++ nested r end) l) /\
  (fix nested (l : list stmt) : list name := match l with [] => [] | x :: r => strings_stmt x ++ nested r end) l = [].
Proof.
  induction l as [|x l IH]; intros HF Hs. split. constructor. reflexivity.
  inversion HF as [|? ? Hx HF']; subst. cbn in Hs. apply andb_true_iff in Hs as [H1 H2].
  destruct (Hx H1) as [A B]. destruct (IH HF' H2) as [C D]. split. apply Forall_app'; assumption. rewrite B, D. reflexivity.
Qed.
Lemma s2_blk_fix' : forall l,
  (fix blk (l : list stmt) : bool := match l with [] => true | y :: r => s2_stmt y && blk r end) l = s2_block l.
Proof. reflexivity. Qed.

Lemma nodoc_stmts2 : forall x, NoDocs2 x.
Proof.
  induction x using stmt_ind'; intro Hs; try (split; [constructor|reflexivity]); try discriminate.
  - (* SDef *) cbn [s2_stmt] in Hs. rewrite s2_blk_fix' in Hs. apply andb_true_iff in Hs as [_ Hb].
    destruct (nodoc_blocks2 body H Hb) as [A B]. cbn [docs_stmt strings_stmt]. rewrite B. split; [|reflexivity].
    apply Forall_app'. apply container_plain. apply s2_block_doc_of. exact Hb. exact A.
  - (* SFor *) cbn [s2_stmt] in Hs. rewrite !s2_blk_fix' in Hs.
    apply andb_true_iff in Hs as [H123 H4]. apply andb_true_iff in H123 as [_ H3].
    destruct (nodoc_blocks2 b H H3) as [A B]. destruct (nodoc_blocks2 o H0 H4) as [C D].
    cbn [docs_stmt strings_stmt]. rewrite B, D. split; [|reflexivity]. apply Forall_app'; assumption.
  - (* SWhile *) cbn [s2_stmt] in Hs. rewrite !s2_blk_fix' in Hs.
    apply andb_true_iff in Hs as [H12 H3]. apply andb_true_iff in H12 as [_ H2]. apply is_nil_true in H3. subst o.
    destruct (nodoc_blocks2 b H H2) as [A B]. cbn [docs_stmt strings_stmt]. rewrite B. split; [|reflexivity]. apply Forall_app'. exact A. constructor.
  - (* SIf *) cbn [s2_stmt] in Hs. rewrite !s2_blk_fix' in Hs.
    apply andb_true_iff in Hs as [H12 H3]. apply andb_true_iff in H12 as [_ H2]. apply is_nil_true in H3. subst o.
    destruct (nodoc_blocks2 b H H2) as [A B]. cbn [docs_stmt strings_stmt]. rewrite B. split; [|reflexivity]. apply Forall_app'. exact A. constructor.
  - (* SWith *) cbn [s2_stmt] in Hs. rewrite !s2_blk_fix' in Hs. apply andb_true_iff in Hs as [_ H2].
    destruct (nodoc_blocks2 b H H2) as [A B]. cbn [docs_stmt strings_stmt]. rewrite B. split; [exact A|reflexivity].
  - (* STry *) cbn [s2_stmt] in Hs. rewrite !s2_blk_fix' in Hs.
    apply andb_true_iff in Hs as [Habc Hd]. apply andb_true_iff in Habc as [Hab Hc]. apply andb_true_iff in Hab as [Ha Hb].
    apply is_nil_true in Hb. subst hs.
    destruct (nodoc_blocks2 b H Ha) as [A B]. destruct (nodoc_blocks2 o H1 Hc) as [C D]. destruct (nodoc_blocks2 f H2 Hd) as [E F].
    cbn [docs_stmt strings_stmt]. rewrite B, D, F. split; [|reflexivity]. cbn [app]. repeat apply Forall_app'; assumption.
  - (* SDoc *) cbn [s2_stmt] in Hs. apply andb_true_iff in Hs as [H1 H2]. apply is_nil_true in H2. subst br.
    split. constructor. reflexivity.
Qed.

Lemma s2_nodoc : forall p, s2_block p = true -> Forall plain_doc (docstrings_of p) /\ brace_ids p = [].
Proof.
  intros p H. unfold docstrings_of, brace_ids. split.
  - apply Forall_app'. apply container_plain. apply s2_block_doc_of. exact H.
    induction p as [|x p IH]. constructor. cbn in H. apply andb_true_iff in H as [H1 H2]. cbn [flat_map].
    apply Forall_app'. apply (nodoc_stmts2 x H1). apply IH. exact H2.
  - induction p as [|x p IH]. reflexivity. cbn in H. apply andb_true_iff in H as [H1 H2]. cbn [flat_map].
    rewrite (proj2 (nodoc_stmts2 x H1)), (IH H2). reflexivity.
Qed.

Lemma u2_is_s2 : forall p, u2_block p = true -> s2_block p = true.
Proof.
  induction p as [|x p IH]; intro H. reflexivity. cbn in H. apply andb_true_iff in H as [H1 H2].
  cbn. rewrite (proj1 (Stage2Erase.u2_top_split x H1)). apply IH. exact H2.
Qed.

Theorem tidy_fix_preserves_trace_stage2 : forall bi ns p, u2_block p = true -> star_free bi ns = true ->
  imports_once bi ns p = true -> NoDup (imp_events (bsrcs_block false p)) ->
  let R := in_report (snd (finder_doc bi ns p)) in
  pysem_doc bi ns (remove_top R p) = pysem_doc bi ns p.
Proof.
  intros bi ns p Hu Hsf Ho Hnd. cbv zeta.
  destruct (s2_nodoc p (u2_is_s2 p Hu)) as [Hd Hb].
  rewrite (nodoc_finder bi ns p Hd Hb).
  rewrite (nodoc_pysem bi ns p Hd). rewrite nodoc_pysem by (rewrite docstrings_remove; exact Hd).
  apply (tidy_remove_preserves_trace_stage2 bi ns p Hu Hsf Ho Hnd).
Qed.

(* ---------- stage 3 ---------- *)
Lemma s3_doc_of : forall x, s3_stmt x = true -> Forall plain_doc (doc_of x) /\ (forall ln ex br, x = SDoc ln ex br -> br = []).
Proof.
  intros [] H; cbn [doc_of]; try (split; [constructor|intros; discriminate]).
  cbn [s3_stmt] in H. apply andb_true_iff in H as [H1 H2]. apply is_nil_true in H1, H2. subst. split.
  constructor. reflexivity. constructor. intros ln0 ex br E. injection E as _ _ <-. reflexivity.
Qed.
Lemma s3_block_doc_of : forall l, s3_block l = true -> Forall (fun x => Forall plain_doc (doc_of x)) l.
Proof.
  induction l as [|x l IH]; intro H. constructor. cbn in H. apply andb_true_iff in H as [H1 H2].
  constructor. apply (s3_doc_of x H1). apply IH. exact H2.
Qed.

Definition NoDocs3 (x : stmt) : Prop := s3_stmt x = true -> Forall plain_doc (docs_stmt x) /\ strings_stmt x = [].
Lemma nodoc_blocks3 : forall l, Forall NoDocs3 l -> s3_block l = true ->
  Forall plain_doc ((fix nested (l : list stmt) : list docstring := match l with [] => [] | x :: r => docs_stmt x ++ nested r end) l) /\
  (fix nested (l : list stmt) : list name := match l with [] => [] | x :: r => strings_stmt x ++ nested r end) l = [].
Proof.
  induction l as [|x l IH]; intros HF Hs. split. constructor. reflexivity.
  inversion HF as [|? ? Hx HF']; subst. cbn in Hs. apply andb_true_iff in Hs as [H1 H2].
  destruct (Hx H1) as [A B]. destruct (IH HF' H2) as [C D]. split. apply Forall_app'; assumption. rewrite B, D. reflexivity.
Qed.
Lemma s3_blk_fix' : forall l,
  (fix blk (l : list stmt) : bool := match l with [] => true | y :: r => s3_stmt y && blk r end) l = s3_block l.
Proof. reflexivity. Qed.

Lemma nodoc_stmts3 : forall x, NoDocs3 x.
Proof.
  induction x using stmt_ind'; intro Hs; try (split; [constructor|reflexivity]); try discriminate.
  - (* SDef *) cbn [s3_stmt] in Hs. rewrite s3_blk_fix' in Hs. apply andb_true_iff in Hs as [_ Hb].
    destruct (nodoc_blocks3 body H Hb) as [A B]. cbn [docs_stmt strings_stmt]. rewrite B. split; [|reflexivity].
    apply Forall_app'. apply container_plain. apply s3_block_doc_of. exact Hb. exact A.
  - (* SFor *) cbn [s3_stmt] in Hs. rewrite !s3_blk_fix' in Hs.
    apply andb_true_iff in Hs as [H123 H4]. apply andb_true_iff in H123 as [_ H3].
    destruct (nodoc_blocks3 b H H3) as [A B]. destruct (nodoc_blocks3 o H0 H4) as [C D].
    cbn [docs_stmt strings_stmt]. rewrite B, D. split; [|reflexivity]. apply Forall_app'; assumption.
  - (* SWhile *) cbn [s3_stmt] in Hs. rewrite !s3_blk_fix' in Hs.
    apply andb_true_iff in Hs as [H12 H3]. apply andb_true_iff in H12 as [_ H2]. apply is_nil_true in H3. subst o.
    destruct (nodoc_blocks3 b H H2) as [A B]. cbn [docs_stmt strings_stmt]. rewrite B. split; [|reflexivity]. apply Forall_app'. exact A. constructor.
  - (* SIf *) cbn [s3_stmt] in Hs. rewrite !s3_blk_fix' in Hs.
    apply andb_true_iff in Hs as [H12 H3]. apply andb_true_iff in H12 as [_ H2]. apply is_nil_true in H3. subst o.
    destruct (nodoc_blocks3 b H H2) as [A B]. cbn [docs_stmt strings_stmt]. rewrite B. split; [|reflexivity]. apply Forall_app'. exact A. constructor.
  - (* SWith *) cbn [s3_stmt] in Hs. rewrite !s3_blk_fix' in Hs. apply andb_true_iff in Hs as [_ H2].
    destruct (nodoc_blocks3 b H H2) as [A B]. cbn [docs_stmt strings_stmt]. rewrite B. split; [exact A|reflexivity].
  - (* STry *) cbn [s3_stmt] in Hs. rewrite !s3_blk_fix' in Hs.
    apply andb_true_iff in Hs as [Habc Hd]. apply andb_true_iff in Habc as [Hab Hc]. apply andb_true_iff in Hab as [Ha Hb].
    apply is_nil_true in Hb. subst hs.
    destruct (nodoc_blocks3 b H Ha) as [A B]. destruct (nodoc_blocks3 o H1 Hc) as [C D]. destruct (nodoc_blocks3 f H2 Hd) as [E F].
    cbn [docs_stmt strings_stmt]. rewrite B, D, F. split; [|reflexivity]. cbn [app]. repeat apply Forall_app'; assumption.
  - (* SDoc *) cbn [s3_stmt] in Hs. apply andb_true_iff in Hs as [H1 H2]. apply is_nil_true in H2. subst br.
    split. constructor. reflexivity.
Qed.

Lemma s3_nodoc : forall p, s3_block p = true -> Forall plain_doc (docstrings_of p) /\ brace_ids p = [].
Proof.
  intros p H. unfold docstrings_of, brace_ids. split.
  - apply Forall_app'. apply container_plain. apply s3_block_doc_of. exact H.
    induction p as [|x p IH]. constructor. cbn in H. apply andb_true_iff in H as [H1 H2]. cbn [flat_map].
    apply Forall_app'. apply (nodoc_stmts3 x H1). apply IH. exact H2.
  - induction p as [|x p IH]. reflexivity. cbn in H. apply andb_true_iff in H as [H1 H2]. cbn [flat_map].
    rewrite (proj2 (nodoc_stmts3 x H1)), (IH H2). reflexivity.
Qed.

Lemma u3_is_s3 : forall p, u3_block p = true -> s3_block p = true.
Proof.
  induction p as [|x p IH]; intro H. reflexivity. cbn in H. apply andb_true_iff in H as [H1 H2].
  cbn. rewrite (proj1 (Stage3Erase.u3_top_split x H1)). apply IH. exact H2.
Qed.

Theorem tidy_fix_preserves_trace_stage3 : forall bi ns p, u3_block p = true -> star_free bi ns = true ->
  imports_once bi ns p = true -> NoDup (imp_events (bsrcs_block false p)) ->
  let R := in_report (snd (finder_doc bi ns p)) in
  pysem_doc bi ns (remove_top R p) = pysem_doc bi ns p.
Proof.
  intros bi ns p Hu Hsf Ho Hnd. cbv zeta.
  destruct (s3_nodoc p (u3_is_s3 p Hu)) as [Hd Hb].
  rewrite (nodoc_finder bi ns p Hd Hb).
  rewrite (nodoc_pysem bi ns p Hd). rewrite nodoc_pysem by (rewrite docstrings_remove; exact Hd).
  apply (tidy_remove_preserves_trace_stage3 bi ns p Hu Hsf Ho Hnd).
Qed.

(* C02 end to end, on the fragments where the analysis side is proved: removing from the top-level import statements
   exactly the imports scan_for_import_issues reports unused leaves the whole resolution trace of the module
   unchanged (and every global whose binding is not a removed import).
     fragment 1: Fragment.u1_block  (module-level code, one-component import keys)
     fragment 2: Fragment.u2_block + Fragment.imports_once  (+ function and lambda scopes; imports at top level, bound once)
   = unused_sound (UnusedProofs / Stage2Unused) composed with remove_preserves_trace (RemoveProofs). *)
From Coq Require Import NArith List Bool Arith Lia.
From Verif Require Import Scope.PySyntax Scope.Finder Scope.PySem Scope.Fragment Scope.AuxProofs Scope.FinderProofs
                          Scope.UnusedProofs Scope.Remove Scope.RemoveProofs Scope.Stage2Unused Scope.Stage3Erase Scope.DocUnused.
Import ListNotations.

(* the removal set tidy-imports derives from the report: is (l, i) one of the reported (line, import) pairs *)
Definition same_report (l : nat) (i : import) (u : nat * import) : bool :=
  Nat.eqb (fst u) l && dotted_eqb (fst (snd u)) (fst i) && dotted_eqb (snd (snd u)) (snd i).
Definition in_report (U : list (nat * import)) (l : nat) (i : import) : bool := existsb (same_report l i) U.

Lemma in_report_In : forall U l i, in_report U l i = true -> In (l, i) U.
Proof.
  intros U l i H. unfold in_report in H. apply existsb_exists in H as ([l' [f a]] & Hin & E).
  unfold same_report in E. cbn [fst snd] in E. apply andb_true_iff in E as [E12 E3]. apply andb_true_iff in E12 as [E1 E2].
  apply Nat.eqb_eq in E1. apply dotted_eqb_eq in E2, E3. destruct i as [f' a']. cbn [fst snd] in *. subst. exact Hin.
Qed.

(* what the removal step of tidy-imports does to the program *)
Definition tidy_remove (bi : list name) (ns : list (list name)) (p : program) : program :=
  remove_top (in_report (snd (finder bi ns true p))) p.

Theorem tidy_remove_preserves_trace_stage1 : forall bi ns p, u1_block p = true -> star_free bi ns = true ->
  NoDup (imp_events (bsrcs_block false p)) ->
  pysem bi ns (tidy_remove bi ns p) = pysem bi ns p /\
  forall x b, lookup_b x (final_globals bi ns p) = Some b -> removed_src (in_report (snd (finder bi ns true p))) b = false ->
              lookup_b x (final_globals bi ns (tidy_remove bi ns p)) = Some b.
Proof.
  intros bi ns p Hu Hsf Hnd. apply remove_preserves_trace.
  intros ln n l i Hread. destruct (in_report (snd (finder bi ns true p)) l i) eqn:E; auto. exfalso.
  apply in_report_In in E. exact (u1_unused_sound bi ns p Hu Hsf Hnd l i E ln n Hread).
Qed.

Theorem tidy_remove_preserves_trace_stage2 : forall bi ns p, u2_block p = true -> star_free bi ns = true ->
  imports_once bi ns p = true -> NoDup (imp_events (bsrcs_block false p)) ->
  pysem bi ns (tidy_remove bi ns p) = pysem bi ns p /\
  forall x b, lookup_b x (final_globals bi ns p) = Some b -> removed_src (in_report (snd (finder bi ns true p))) b = false ->
              lookup_b x (final_globals bi ns (tidy_remove bi ns p)) = Some b.
Proof.
  intros bi ns p Hu Hsf Ho Hnd. apply remove_preserves_trace.
  intros ln n l i Hread. destruct (in_report (snd (finder bi ns true p)) l i) eqn:E; auto. exfalso.
  apply in_report_In in E. exact (u2_unused_sound bi ns p Hu Hsf Ho Hnd l i E ln n Hread).
Qed.

Theorem tidy_remove_preserves_trace_stage3 : forall bi ns p, u3_block p = true -> star_free bi ns = true ->
  imports_once bi ns p = true -> NoDup (imp_events (bsrcs_block false p)) ->
  pysem bi ns (tidy_remove bi ns p) = pysem bi ns p /\
  forall x b, lookup_b x (final_globals bi ns p) = Some b -> removed_src (in_report (snd (finder bi ns true p))) b = false ->
              lookup_b x (final_globals bi ns (tidy_remove bi ns p)) = Some b.
Proof.
  intros bi ns p Hu Hsf Ho Hnd. apply remove_preserves_trace.
  intros ln n l i Hread. destruct (in_report (snd (finder bi ns true p)) l i) eqn:E; auto. exfalso.
  apply in_report_In in E. exact (u3_unused_sound bi ns p Hu Hsf Ho Hnd l i E ln n Hread).
Qed.

(* ---------- what fix_unused_and_missing_imports really calls: scan_for_import_issues(parse_docstrings=True).
   On programs whose docstring / string statements hold no doctest example and no {brace} identifier it is the same
   report, and the trace with doctests is the trace (nodoc_finder / nodoc_pysem); with doctest examples that are
   load-only expression statements (Fragment.dx_docs; any {brace} identifiers) the report is still sound for the trace
   WITH the doctests (DocUnused), which gives the theorems below. ---------- *)
Lemma with_unused_id : forall s, with_unused s (unused s) = s.
Proof. intros []; reflexivity. Qed.

Definition plain_doc (d : docstring) : Prop := fst d = [].
Lemma plain_examples : forall l, Forall plain_doc l -> flat_map fst l = [].
Proof. induction l as [|d l IH]; intro H. reflexivity. inversion H as [|? ? Hd Hl]; subst. cbn. rewrite Hd. apply IH. exact Hl. Qed.

Lemma nodoc_finder : forall bi ns p, Forall plain_doc (docstrings_of p) -> brace_ids p = [] ->
  snd (finder_doc bi ns p) = snd (finder bi ns true p).
Proof.
  intros bi ns p Hd Hb. unfold finder_doc, finder. destruct (init_state bi ns) as [stk s0].
  rewrite (plain_examples _ Hd), Hb. cbn [flat_map fold_left snd]. rewrite with_unused_id. reflexivity.
Qed.
Lemma nodoc_pysem : forall bi ns p, Forall plain_doc (docstrings_of p) -> pysem_doc bi ns p = pysem bi ns p.
Proof.
  intros bi ns p Hd. unfold pysem_doc. induction (docstrings_of p) as [|d l IH]. apply app_nil_r.
  inversion Hd as [|? ? H1 H2]; subst. cbn [flat_map]. unfold sem_docstring at 1. rewrite H1. cbn [sem_block snd app]. apply IH. exact H2.
Qed.

Lemma Forall_app' : forall A (P : A -> Prop) a b, Forall P a -> Forall P b -> Forall P (a ++ b).
Proof. intros. apply Forall_app. auto. Qed.

Lemma epydoc_plain : forall l, Forall (fun x => Forall plain_doc (doc_of x)) l -> Forall plain_doc (epydoc l).
Proof.
  induction l as [|a l IH]; intro H. constructor. inversion H as [|? ? Ha Hl]; subst.
  destruct l as [|b r]. constructor. cbn [epydoc]. inversion Hl as [|? ? Hb Hr]; subst.
  apply Forall_app'. destruct (is_assign a). exact Hb. constructor. apply IH. exact Hl.
Qed.
Lemma container_plain : forall l, Forall (fun x => Forall plain_doc (doc_of x)) l -> Forall plain_doc (container_docs l).
Proof.
  intros [|x r] H. constructor. inversion H as [|? ? Hx Hr]; subst. cbn [container_docs]. apply Forall_app'. exact Hx. apply epydoc_plain. exact Hr.
Qed.

(* ---------- tidy's removal step, as it runs (docstrings parsed), preserves the trace including the doctests ---------- *)
Theorem tidy_fix_preserves_trace_stage2 : forall bi ns p, u2_block p = true -> dx_docs p = true -> star_free bi ns = true ->
  imports_once bi ns p = true -> NoDup (imp_events (bsrcs_block false p)) ->
  let R := in_report (snd (finder_doc bi ns p)) in
  pysem_doc bi ns (remove_top R p) = pysem_doc bi ns p.
Proof.
  intros bi ns p Hu Hdx Hsf Ho Hnd. cbv zeta. apply remove_preserves_trace_doc.
  intros ln n l i Hread. destruct (in_report (snd (finder_doc bi ns p)) l i) eqn:E; auto. exfalso.
  apply in_report_In in E. exact (u2_doc_unused_sound bi ns p Hu Hdx Hsf Ho Hnd l i E ln n Hread).
Qed.

Theorem tidy_fix_preserves_trace_stage3 : forall bi ns p, u3_block p = true -> dx_docs p = true -> star_free bi ns = true ->
  imports_once bi ns p = true -> NoDup (imp_events (bsrcs_block false p)) ->
  let R := in_report (snd (finder_doc bi ns p)) in
  pysem_doc bi ns (remove_top R p) = pysem_doc bi ns p.
Proof.
  intros bi ns p Hu Hdx Hsf Ho Hnd. cbv zeta. apply remove_preserves_trace_doc.
  intros ln n l i Hread. destruct (in_report (snd (finder_doc bi ns p)) l i) eqn:E; auto. exfalso.
  apply in_report_In in E. exact (u3_doc_unused_sound bi ns p Hu Hdx Hsf Ho Hnd l i E ln n Hread).
Qed.

(* C02 end to end, on the fragments where the analysis side is proved: removing from the top-level import statements
   exactly the imports scan_for_import_issues reports unused leaves the whole resolution trace of the module
   unchanged (and every global whose binding is not a removed import).
     fragment 1: Fragment.u1_block  (module-level code, one-component import keys)
     fragment 2: Fragment.u2_block + Fragment.imports_once  (+ function and lambda scopes; imports at top level, bound once)
   = unused_sound (UnusedProofs / Stage2Unused) composed with remove_preserves_trace (RemoveProofs). *)
From Coq Require Import NArith List Bool Arith Lia.
From Verif Require Import Scope.PySyntax Scope.Finder Scope.PySem Scope.Fragment Scope.AuxProofs Scope.FinderProofs
                          Scope.UnusedProofs Scope.Remove Scope.RemoveProofs Scope.Stage2Unused Scope.Stage3Erase.
Import ListNotations.

(* the removal set tidy-imports derives from the report: is (l, i) one of the reported (line, import) pairs *)
Definition same_report (l : nat) (i : import) (u : nat * import) : bool :=
  Nat.eqb (fst u) l && dotted_eqb (fst (snd u)) (fst i) && dotted_eqb (snd (snd u)) (snd i).
Definition in_report (U : list (nat * import)) (l : nat) (i : import) : bool := existsb (same_report l i) U.

Lemma in_report_In : forall U l i, in_report U l i = true -> In (l, i) U.
Proof.
  intros U l i H. unfold in_report in H. apply existsb_exists in H as ([l' [f a]] & Hin & E).
  unfold same_report in E. cbn [fst snd] in E. apply andb_true_iff in E as [E12 E3]. apply andb_true_iff in E12 as [E1 E2].
  apply Nat.eqb_eq in E1. apply dotted_eqb_eq in E2, E3. destruct i as [f' a']. cbn [fst snd] in *. subst. exact Hin.
Qed.

(* what the removal step of tidy-imports does to the program *)
Definition tidy_remove (bi : list name) (ns : list (list name)) (p : program) : program :=
  remove_top (in_report (snd (finder bi ns true p))) p.

Theorem tidy_remove_preserves_trace_stage1 : forall bi ns p, u1_block p = true -> star_free bi ns = true ->
  NoDup (imp_events (bsrcs_block false p)) ->
  pysem bi ns (tidy_remove bi ns p) = pysem bi ns p /\
  forall x b, lookup_b x (final_globals bi ns p) = Some b -> removed_src (in_report (snd (finder bi ns true p))) b = false ->
              lookup_b x (final_globals bi ns (tidy_remove bi ns p)) = Some b.
Proof.
  intros bi ns p Hu Hsf Hnd. apply remove_preserves_trace.
  intros ln n l i Hread. destruct (in_report (snd (finder bi ns true p)) l i) eqn:E; auto. exfalso.
  apply in_report_In in E. exact (u1_unused_sound bi ns p Hu Hsf Hnd l i E ln n Hread).
Qed.

Theorem tidy_remove_preserves_trace_stage2 : forall bi ns p, u2_block p = true -> star_free bi ns = true ->
  imports_once bi ns p = true -> NoDup (imp_events (bsrcs_block false p)) ->
  pysem bi ns (tidy_remove bi ns p) = pysem bi ns p /\
  forall x b, lookup_b x (final_globals bi ns p) = Some b -> removed_src (in_report (snd (finder bi ns true p))) b = false ->
              lookup_b x (final_globals bi ns (tidy_remove bi ns p)) = Some b.
Proof.
  intros bi ns p Hu Hsf Ho Hnd. apply remove_preserves_trace.
  intros ln n l i Hread. destruct (in_report (snd (finder bi ns true p)) l i) eqn:E; auto. exfalso.
  apply in_report_In in E. exact (u2_unused_sound bi ns p Hu Hsf Ho Hnd l i E ln n Hread).
Qed.

Theorem tidy_remove_preserves_trace_stage3 : forall bi ns p, u3_block p = true -> star_free bi ns = true ->
  imports_once bi ns p = true -> NoDup (imp_events (bsrcs_block false p)) ->
  pysem bi ns (tidy_remove bi ns p) = pysem bi ns p /\
  forall x b, lookup_b x (final_globals bi ns p) = Some b -> removed_src (in_report (snd (finder bi ns true p))) b = false ->
              lookup_b x (final_globals bi ns (tidy_remove bi ns p)) = Some b.
Proof.
  intros bi ns p Hu Hsf Ho Hnd. apply remove_preserves_trace.
  intros ln n l i Hread. destruct (in_report (snd (finder bi ns true p)) l i) eqn:E; auto. exfalso.
  apply in_report_In in E. exact (u3_unused_sound bi ns p Hu Hsf Ho Hnd l i E ln n Hread).
Qed.

(* ---------- what fix_unused_and_missing_imports really calls: scan_for_import_issues(parse_docstrings=True).
   On programs without a docstring statement (both fragments) it is the same report. ---------- *)
Lemma with_unused_id : forall s, with_unused s (unused s) = s.
Proof. intros []; reflexivity. Qed.

Lemma nodoc_finder : forall bi ns p, docstrings_of p = [] -> brace_ids p = [] ->
  snd (finder_doc bi ns p) = snd (finder bi ns true p).
Proof.
  intros bi ns p Hd Hb. unfold finder_doc, finder. destruct (init_state bi ns) as [stk s0].
  rewrite Hd, Hb. cbn [flat_map fold_left snd]. rewrite with_unused_id. reflexivity.
Qed.

Lemma epydoc_nil : forall l, Forall (fun x => doc_of x = []) l -> epydoc l = [].
Proof.
  induction l as [|a l IH]; intro H. reflexivity. inversion H as [|? ? Ha Hl]; subst.
  destruct l as [|b r]. reflexivity. cbn [epydoc]. inversion Hl as [|? ? Hb Hr]; subst.
  rewrite Hb. destruct (is_assign a); cbn [app]; apply IH; exact Hl.
Qed.
Lemma container_nil : forall l, Forall (fun x => doc_of x = []) l -> container_docs l = [].
Proof.
  intros [|x r] H. reflexivity. inversion H as [|? ? Hx Hr]; subst. cbn [container_docs]. rewrite Hx. apply epydoc_nil. exact Hr.
Qed.
Lemma s2_doc_of : forall x, s2_stmt x = true -> doc_of x = [].
Proof. intros [] H; try reflexivity. discriminate. Qed.
Lemma s2_block_doc_of : forall l, s2_block l = true -> Forall (fun x => doc_of x = []) l.
Proof.
  induction l as [|x l IH]; intro H. constructor. cbn in H. apply andb_true_iff in H as [H1 H2].
  constructor. apply s2_doc_of. exact H1. apply IH. exact H2.
Qed.

Definition NoDocS (x : stmt) : Prop := s2_stmt x = true -> docs_stmt x = [] /\ strings_stmt x = [].
Lemma nodoc_block : forall l, Forall NoDocS l -> s2_block l = true ->
  (fix nested (l : list stmt) : list docstring := match l with [] => [] | x :: r => docs_stmt x ++ nested r end) l = [] /\
  (fix nested (l : list stmt) : list name := match l with [] => [] | x :: r => strings_stmt x ++ nested r end) l = [].
Proof.
  induction l as [|x l IH]; intros HF Hs. split; reflexivity.
  inversion HF as [|? ? Hx HF']; subst. cbn in Hs. apply andb_true_iff in Hs as [H1 H2].
  destruct (Hx H1) as [A B]. destruct (IH HF' H2) as [C D]. rewrite A, B, C, D. split; reflexivity.
Qed.
Lemma s2_blk_fix' : forall l,
  (fix blk (l : list stmt) : bool := match l with [] => true | y :: r => s2_stmt y && blk r end) l = s2_block l.
Proof. reflexivity. Qed.

Lemma nodoc_stmt : forall x, NoDocS x.
Proof.
  induction x using stmt_ind'; intro Hs; try (split; reflexivity); try discriminate.
  - (* SDef *) cbn [s2_stmt] in Hs. rewrite s2_blk_fix' in Hs. apply andb_true_iff in Hs as [_ Hb].
    destruct (nodoc_block body H Hb) as [A B]. cbn [docs_stmt strings_stmt]. rewrite A, B.
    rewrite (container_nil body (s2_block_doc_of body Hb)). split; reflexivity.
  - (* SFor *) cbn [s2_stmt] in Hs. rewrite !s2_blk_fix' in Hs.
    apply andb_true_iff in Hs as [H123 H4]. apply andb_true_iff in H123 as [_ H3].
    destruct (nodoc_block b H H3) as [A B]. destruct (nodoc_block o H0 H4) as [C D].
    cbn [docs_stmt strings_stmt]. rewrite A, B, C, D. split; reflexivity.
  - (* SWhile *) cbn [s2_stmt] in Hs. rewrite !s2_blk_fix' in Hs.
    apply andb_true_iff in Hs as [H12 H3]. apply andb_true_iff in H12 as [_ H2]. apply is_nil_true in H3. subst o.
    destruct (nodoc_block b H H2) as [A B]. cbn [docs_stmt strings_stmt]. rewrite A, B. split; reflexivity.
  - (* SIf *) cbn [s2_stmt] in Hs. rewrite !s2_blk_fix' in Hs.
    apply andb_true_iff in Hs as [H12 H3]. apply andb_true_iff in H12 as [_ H2]. apply is_nil_true in H3. subst o.
    destruct (nodoc_block b H H2) as [A B]. cbn [docs_stmt strings_stmt]. rewrite A, B. split; reflexivity.
  - (* SWith *) cbn [s2_stmt] in Hs. rewrite !s2_blk_fix' in Hs. apply andb_true_iff in Hs as [_ H2].
    destruct (nodoc_block b H H2) as [A B]. cbn [docs_stmt strings_stmt]. rewrite A, B. split; reflexivity.
  - (* STry *) cbn [s2_stmt] in Hs. rewrite !s2_blk_fix' in Hs.
    apply andb_true_iff in Hs as [Habc Hd]. apply andb_true_iff in Habc as [Hab Hc]. apply andb_true_iff in Hab as [Ha Hb].
    apply is_nil_true in Hb. subst hs.
    destruct (nodoc_block b H Ha) as [A B]. destruct (nodoc_block o H1 Hc) as [C D]. destruct (nodoc_block f H2 Hd) as [E F].
    cbn [docs_stmt strings_stmt]. rewrite A, B, C, D, E, F. split; reflexivity.
Qed.

Lemma s2_nodoc : forall p, s2_block p = true -> docstrings_of p = [] /\ brace_ids p = [].
Proof.
  intros p H. unfold docstrings_of, brace_ids. rewrite (container_nil p (s2_block_doc_of p H)). cbn [app].
  induction p as [|x p IH]. split; reflexivity. cbn in H. apply andb_true_iff in H as [H1 H2].
  destruct (nodoc_stmt x H1) as [A B]. destruct (IH H2) as [C D]. cbn [flat_map]. rewrite A, B, C, D. split; reflexivity.
Qed.

Lemma u2_s2_block : forall p, u2_block p = true -> s2_block p = true.
Proof.
  induction p as [|x p IH]; intro H. reflexivity. cbn in H. apply andb_true_iff in H as [H1 H2].
  cbn. rewrite (proj1 (Stage2Erase.u2_top_split x H1)). apply IH. exact H2.
Qed.

(* the same with the report fix_unused_and_missing_imports uses (parse_docstrings=True) and the trace that includes the
   doctest examples: a stage-2 program has no docstring statement, so both coincide with the above *)
Theorem tidy_fix_preserves_trace_stage2 : forall bi ns p, u2_block p = true -> star_free bi ns = true ->
  imports_once bi ns p = true -> NoDup (imp_events (bsrcs_block false p)) ->
  let R := in_report (snd (finder_doc bi ns p)) in
  pysem_doc bi ns (remove_top R p) = pysem_doc bi ns p.
Proof.
  intros bi ns p Hu Hsf Ho Hnd. cbv zeta.
  destruct (s2_nodoc p (u2_s2_block p Hu)) as [Hd Hb].
  rewrite (nodoc_finder bi ns p Hd Hb). unfold pysem_doc. rewrite docstrings_remove, Hd. cbn [flat_map]. rewrite !app_nil_r.
  apply (tidy_remove_preserves_trace_stage2 bi ns p Hu Hsf Ho Hnd).
Qed.

(* ---------- the same for stage 3 ---------- *)
Lemma s3_doc_of : forall x, s3_stmt x = true -> doc_of x = [].
Proof. intros [] H; try reflexivity. discriminate. Qed.
Lemma s3_block_doc_of : forall l, s3_block l = true -> Forall (fun x => doc_of x = []) l.
Proof.
  induction l as [|x l IH]; intro H. constructor. cbn in H. apply andb_true_iff in H as [H1 H2].
  constructor. apply s3_doc_of. exact H1. apply IH. exact H2.
Qed.

Definition NoDocS3 (x : stmt) : Prop := s3_stmt x = true -> docs_stmt x = [] /\ strings_stmt x = [].
Lemma nodoc_block3 : forall l, Forall NoDocS3 l -> s3_block l = true ->
  (fix nested (l : list stmt) : list docstring := match l with [] => [] | x :: r => docs_stmt x ++ nested r end) l = [] /\
  (fix nested (l : list stmt) : list name := match l with [] => [] | x :: r => strings_stmt x ++ nested r end) l = [].
Proof.
  induction l as [|x l IH]; intros HF Hs. split; reflexivity.
  inversion HF as [|? ? Hx HF']; subst. cbn in Hs. apply andb_true_iff in Hs as [H1 H2].
  destruct (Hx H1) as [A B]. destruct (IH HF' H2) as [C D]. rewrite A, B, C, D. split; reflexivity.
Qed.
Lemma s3_blk_fix' : forall l,
  (fix blk (l : list stmt) : bool := match l with [] => true | y :: r => s3_stmt y && blk r end) l = s3_block l.
Proof. reflexivity. Qed.

Lemma nodoc_stmt3 : forall x, NoDocS3 x.
Proof.
  induction x using stmt_ind'; intro Hs; try (split; reflexivity); try discriminate.
  - (* SDef *) cbn [s3_stmt] in Hs. rewrite s3_blk_fix' in Hs. apply andb_true_iff in Hs as [_ Hb].
    destruct (nodoc_block3 body H Hb) as [A B]. cbn [docs_stmt strings_stmt]. rewrite A, B.
    rewrite (container_nil body (s3_block_doc_of body Hb)). split; reflexivity.
  - (* SFor *) cbn [s3_stmt] in Hs. rewrite !s3_blk_fix' in Hs.
    apply andb_true_iff in Hs as [H123 H4]. apply andb_true_iff in H123 as [_ H3].
    destruct (nodoc_block3 b H H3) as [A B]. destruct (nodoc_block3 o H0 H4) as [C D].
    cbn [docs_stmt strings_stmt]. rewrite A, B, C, D. split; reflexivity.
  - (* SWhile *) cbn [s3_stmt] in Hs. rewrite !s3_blk_fix' in Hs.
    apply andb_true_iff in Hs as [H12 H3]. apply andb_true_iff in H12 as [_ H2]. apply is_nil_true in H3. subst o.
    destruct (nodoc_block3 b H H2) as [A B]. cbn [docs_stmt strings_stmt]. rewrite A, B. split; reflexivity.
  - (* SIf *) cbn [s3_stmt] in Hs. rewrite !s3_blk_fix' in Hs.
    apply andb_true_iff in Hs as [H12 H3]. apply andb_true_iff in H12 as [_ H2]. apply is_nil_true in H3. subst o.
    destruct (nodoc_block3 b H H2) as [A B]. cbn [docs_stmt strings_stmt]. rewrite A, B. split; reflexivity.
  - (* SWith *) cbn [s3_stmt] in Hs. rewrite !s3_blk_fix' in Hs. apply andb_true_iff in Hs as [_ H2].
    destruct (nodoc_block3 b H H2) as [A B]. cbn [docs_stmt strings_stmt]. rewrite A, B. split; reflexivity.
  - (* STry *) cbn [s3_stmt] in Hs. rewrite !s3_blk_fix' in Hs.
    apply andb_true_iff in Hs as [Habc Hd]. apply andb_true_iff in Habc as [Hab Hc]. apply andb_true_iff in Hab as [Ha Hb].
    apply is_nil_true in Hb. subst hs.
    destruct (nodoc_block3 b H Ha) as [A B]. destruct (nodoc_block3 o H1 Hc) as [C D]. destruct (nodoc_block3 f H2 Hd) as [E F].
    cbn [docs_stmt strings_stmt]. rewrite A, B, C, D, E, F. split; reflexivity.
Qed.

Lemma s3_nodoc : forall p, s3_block p = true -> docstrings_of p = [] /\ brace_ids p = [].
Proof.
  intros p H. unfold docstrings_of, brace_ids. rewrite (container_nil p (s3_block_doc_of p H)). cbn [app].
  induction p as [|x p IH]. split; reflexivity. cbn in H. apply andb_true_iff in H as [H1 H2].
  destruct (nodoc_stmt3 x H1) as [A B]. destruct (IH H2) as [C D]. cbn [flat_map]. rewrite A, B, C, D. split; reflexivity.
Qed.

Lemma u3_s3_block : forall p, u3_block p = true -> s3_block p = true.
Proof.
  induction p as [|x p IH]; intro H. reflexivity. cbn in H. apply andb_true_iff in H as [H1 H2].
  cbn. rewrite (proj1 (Stage3Erase.u3_top_split x H1)). apply IH. exact H2.
Qed.

(* the same with the report fix_unused_and_missing_imports uses (parse_docstrings=True) and the trace that includes the
   doctest examples: a stage-3 program has no docstring statement, so both coincide with the above *)
Theorem tidy_fix_preserves_trace_stage3 : forall bi ns p, u3_block p = true -> star_free bi ns = true ->
  imports_once bi ns p = true -> NoDup (imp_events (bsrcs_block false p)) ->
  let R := in_report (snd (finder_doc bi ns p)) in
  pysem_doc bi ns (remove_top R p) = pysem_doc bi ns p.
Proof.
  intros bi ns p Hu Hsf Ho Hnd. cbv zeta.
  destruct (s3_nodoc p (u3_s3_block p Hu)) as [Hd Hb].
  rewrite (nodoc_finder bi ns p Hd Hb). unfold pysem_doc. rewrite docstrings_remove, Hd. cbn [flat_map]. rewrite !app_nil_r.
  apply (tidy_remove_preserves_trace_stage3 bi ns p Hu Hsf Ho Hnd).
Qed.
